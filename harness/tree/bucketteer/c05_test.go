package bucketteer

// C05 harness (injected by /verif/check with `go test -overlay`; nothing is written to /repo).
// Generates op sequences, executes them against the real bucketteer Writer / Reader (current format, this package)
// and against deprecated/bucketteer (version 1), records the canonical answers (compared line by line with the
// Lean model's answers) and evaluates the property's own oracle:
//   * every signature that was Put is reported present by the writer's Has and by the sealed file's Has
//     (opened through mmap and through a plain io.ReaderAt);
//   * Has answers true for a signature that was not Put only if an added signature with the same two-byte
//     prefix has the same xxhash64.

import (
	"bytes"
	"encoding/binary"
	"fmt"
	"os"
	"path/filepath"
	"reflect"
	"sort"
	"strconv"
	"strings"
	"sync"
	"sync/atomic"
	"testing"
	"unsafe"

	"github.com/cespare/xxhash/v2"
	legacy "github.com/rpcpool/yellowstone-faithful/deprecated/bucketteer"
	"github.com/rpcpool/yellowstone-faithful/indexmeta"
	zz "github.com/rpcpool/yellowstone-faithful/zzverif"
)

type c05Has interface {
	Has(sig [64]byte) (bool, error)
	Close() error
}

type c05Interp struct {
	s        *zz.Session
	dir      string
	n        int
	fmt      string
	w2       *Writer
	w1       *legacy.Writer
	path     string
	meta2    indexmeta.Meta
	meta1    map[string]string
	added    map[[64]byte]struct{}
	hashes   map[uint16]map[uint64]struct{}
	sealed   bool
	readers  []c05Has
	rnames   []string
	files    []*os.File
	caseOps  []string
	pool     *prefixToHashes
	template *Writer
}

func (in *c05Interp) reset() {
	for _, r := range in.readers {
		r.Close()
	}
	for _, f := range in.files {
		f.Close()
	}
	in.readers, in.rnames, in.files = nil, nil, nil
	if in.w1 != nil && !in.sealed {
		in.w1.Close()
	}
	in.w2, in.w1 = nil, nil
	in.meta2 = indexmeta.Meta{}
	in.meta1 = map[string]string{}
	in.added = map[[64]byte]struct{}{}
	in.hashes = map[uint16]map[uint64]struct{}{}
	in.sealed = false
	if in.path != "" {
		os.Remove(in.path)
		in.path = ""
	}
}

// newV2 makes a current-format writer.  NewWriter reserves 65 536 x 16 000 words of capacity (8.4 GB, zeroed and
// therefore resident from the second writer of a process on: ~5 s and 8 GB each).  The first writer of the run comes
// from NewWriter; later ones are built around the same bucket array with every bucket cut back to length 0, which is
// the state NewWriter returns (65 536 empty slices with spare capacity).  Put / Has / Seal are the real ones.
func (in *c05Interp) newV2(path string) (*Writer, error) {
	if in.pool == nil {
		wr, err := NewWriter(path)
		if err != nil {
			return nil, err
		}
		in.pool = wr.prefixToHashes
		in.template = wr
		return wr, nil
	}
	for i := range in.pool {
		in.pool[i] = in.pool[i][:0]
	}
	// every other field gets the state NewWriter gives it: maps are made afresh (a Writer that grows a map field must
	// not share it between the writers of one run), everything else keeps its zero value
	wr := &Writer{}
	rv := reflect.ValueOf(wr).Elem()
	tv := reflect.ValueOf(in.template).Elem()
	for i := 0; i < rv.NumField(); i++ {
		f := reflect.NewAt(rv.Field(i).Type(), unsafe.Pointer(rv.Field(i).UnsafeAddr())).Elem()
		if f.Kind() == reflect.Map && !tv.Field(i).IsNil() {
			f.Set(reflect.MakeMap(f.Type()))
		}
	}
	wr.path, wr.prefixToHashes = path, in.pool
	return wr, nil
}

func c05Sig(hexs string) (sig [64]byte, ok bool) {
	b := zz.Unhex(hexs)
	if len(b) != 64 {
		return sig, false
	}
	copy(sig[:], b)
	return sig, true
}

func c05Prefix(sig [64]byte) uint16 { return binary.LittleEndian.Uint16(sig[:2]) }

// collides: an added signature with the same prefix has the same 64-bit hash
func (in *c05Interp) collides(sig [64]byte) bool {
	_, ok := in.hashes[c05Prefix(sig)][xxhash.Sum64(sig[:])]
	return ok
}

// canonV1 re-orders the metadata entries of a version-1 file by key (the writer iterates a Go map).
func canonV1(data []byte) []byte {
	if len(data) < 28 {
		return data
	}
	pos := 20
	n := int(binary.LittleEndian.Uint64(data[pos:]))
	pos += 8
	start := pos
	type ent struct{ k, raw []byte }
	var es []ent
	for i := 0; i < n; i++ {
		p0 := pos
		kl := int(binary.LittleEndian.Uint32(data[pos:]))
		k := data[pos+4 : pos+4+kl]
		pos += 4 + kl
		vl := int(binary.LittleEndian.Uint32(data[pos:]))
		pos += 4 + vl
		es = append(es, ent{k, data[p0:pos]})
	}
	sort.SliceStable(es, func(i, j int) bool { return bytes.Compare(es[i].k, es[j].k) < 0 })
	out := append([]byte(nil), data[:start]...)
	for _, e := range es {
		out = append(out, e.raw...)
	}
	return append(out, data[pos:]...)
}

func (in *c05Interp) exec(line string) string {
	w := strings.Fields(line)
	if w[0] == "case" {
		in.caseOps = nil
	}
	in.caseOps = append(in.caseOps, line)
	live := in.w2 != nil || in.w1 != nil
	switch w[0] {
	case "case":
		return "ok"
	case "new":
		in.reset()
		in.n++
		in.path = filepath.Join(in.dir, fmt.Sprintf("bk-%d.index", in.n))
		in.fmt = w[1]
		switch w[1] {
		case "v2":
			wr, err := in.newV2(in.path)
			if err != nil {
				return "err"
			}
			in.w2 = wr
		case "v1":
			wr, err := legacy.NewWriter(in.path)
			if err != nil {
				return "err"
			}
			in.w1 = wr
		default:
			return "bad-op"
		}
		return "ok"
	case "meta":
		if !live {
			return "nowriter"
		}
		k, v := zz.Unhex(w[1]), zz.Unhex(w[2])
		if in.w2 != nil {
			if err := in.meta2.Add(k, v); err != nil {
				return "err"
			}
			return "ok"
		}
		in.meta1[string(k)] = string(v)
		return "ok"
	case "put":
		if !live {
			return "nowriter"
		}
		sig, ok := c05Sig(w[1])
		if !ok {
			return "bad-op"
		}
		if in.w2 != nil {
			in.w2.Put(sig)
		} else {
			in.w1.Put(sig)
		}
		if _, dup := in.added[sig]; dup {
			in.s.Count("put-duplicate")
		}
		in.added[sig] = struct{}{}
		p := c05Prefix(sig)
		if in.hashes[p] == nil {
			in.hashes[p] = map[uint64]struct{}{}
		}
		in.hashes[p][xxhash.Sum64(sig[:])] = struct{}{}
		return "ok"
	case "whas":
		if !live {
			return "nowriter"
		}
		sig, ok := c05Sig(w[1])
		if !ok {
			return "bad-op"
		}
		var got bool
		r := zz.Guard(func() string {
			if in.w2 != nil {
				got = in.w2.Has(sig)
			} else {
				got = in.w1.Has(sig)
			}
			return fmt.Sprint(got)
		})
		in.judge("writer", sig, r)
		return r
	case "seal":
		if !live {
			return "nowriter"
		}
		var size int64
		r := zz.Guard(func() string {
			var err error
			if in.w2 != nil {
				size, err = in.w2.Seal(in.meta2)
				if err == nil {
					err = in.w2.Close()
				}
			} else {
				size, err = in.w1.Seal(in.meta1)
				if err == nil {
					err = in.w1.Close()
				}
			}
			if err != nil {
				return "err " + err.Error()
			}
			return "ok"
		})
		in.sealed = true
		if r != "ok" {
			in.s.Violation("Seal failed: "+r+" "+zz.LastPanic, "C05:seal-failed:"+in.fmt, in.s.Replay(in.caseOps))
			return strings.Fields(r)[0]
		}
		data, err := os.ReadFile(in.path)
		if err != nil {
			panic(err)
		}
		opened := true
		open := func(name string, f func() (c05Has, error)) {
			var rd c05Has
			res := zz.Guard(func() string {
				var err error
				rd, err = f()
				if err != nil {
					return "err " + err.Error()
				}
				return "ok"
			})
			if res != "ok" {
				opened = false
				in.s.Violation("sealed file cannot be opened ("+name+"): "+res+" "+zz.LastPanic,
					"C05:open-after-seal:"+in.fmt+":"+name, in.s.Replay(in.caseOps))
				return
			}
			in.readers = append(in.readers, rd)
			in.rnames = append(in.rnames, name)
		}
		if in.fmt == "v2" {
			open("mmap", func() (c05Has, error) { return Open(in.path) })
			open("readerat", func() (c05Has, error) {
				f, err := os.Open(in.path)
				if err != nil {
					return nil, err
				}
				in.files = append(in.files, f)
				return NewReader(f)
			})
		} else {
			open("mmap", func() (c05Has, error) { return legacy.Open(in.path) })
			open("readerat", func() (c05Has, error) {
				f, err := os.Open(in.path)
				if err != nil {
					return nil, err
				}
				in.files = append(in.files, f)
				return legacy.NewReader(f)
			})
			data = canonV1(data)
		}
		// evidence: which bucket populations this file contains
		in.s.Count("sealed-" + in.fmt)
		in.s.Add("signatures-sealed", len(in.added))
		pops := map[int]int{}
		for _, hs := range in.hashes {
			pops[len(hs)]++
		}
		pops[0] += 65536 - len(in.hashes)
		for n, c := range pops {
			in.s.Add("bucket-population:"+c05PopClass(n), c)
		}
		return fmt.Sprintf("file %d %016x size=%d open=%v", len(data), xxhash.Sum64(data), size, opened)
	case "chas":
		// every added signature (at most 6000 of them) asked of each reader by 8 goroutines at once, w[1] rounds
		if len(in.readers) == 0 {
			return "nofile"
		}
		rounds, _ := strconv.Atoi(w[1])
		var ms [][64]byte
		for m := range in.added {
			ms = append(ms, m)
		}
		sort.Slice(ms, func(i, j int) bool { return bytes.Compare(ms[i][:], ms[j][:]) < 0 })
		if len(ms) > 6000 {
			ms = ms[:6000]
		}
		res := "ok"
		for ri, rd := range in.readers {
			var bad atomic.Int64
			var first atomic.Pointer[[64]byte]
			var wg sync.WaitGroup
			for gi := 0; gi < 8; gi++ {
				wg.Add(1)
				go func(gi int) {
					defer wg.Done()
					defer func() {
						if r := recover(); r != nil {
							bad.Add(1)
						}
					}()
					for r := 0; r < rounds; r++ {
						for i := range ms {
							m := ms[(i*7+gi*131)%len(ms)]
							got, err := rd.Has(m)
							if err != nil || !got {
								if bad.Add(1) == 1 {
									first.Store(&m)
								}
							}
						}
					}
				}(gi)
			}
			wg.Wait()
			in.s.Add("concurrent-member-lookups:"+in.rnames[ri], 8*rounds*len(ms))
			if n := bad.Load(); n > 0 {
				res = "mismatch"
				var f [64]byte
				if p := first.Load(); p != nil {
					f = *p
				}
				in.s.Violation(fmt.Sprintf("false negative under concurrent lookups: %d of %d lookups of ADDED signatures on one shared %s Reader (%s) answered false / error when 8 goroutines ask at once (first: %x); sequentially every one of them answers true", n, 8*rounds*len(ms), in.fmt, in.rnames[ri], f),
					fmt.Sprintf("C05:false-negative:concurrent:%s:%s", in.fmt, in.rnames[ri]), in.s.Replay(in.caseOps))
			}
		}
		return res
	case "has":
		if len(in.readers) == 0 {
			return "nofile"
		}
		sig, ok := c05Sig(w[1])
		if !ok {
			return "bad-op"
		}
		var outs []string
		for i, rd := range in.readers {
			r := zz.Guard(func() string {
				got, err := rd.Has(sig)
				if err != nil {
					return "err"
				}
				return fmt.Sprint(got)
			})
			in.judge(in.rnames[i], sig, r)
			outs = append(outs, r)
		}
		same := true
		for _, o := range outs {
			if o != outs[0] {
				same = false
			}
		}
		if same && len(outs) == 2 {
			return outs[0]
		}
		in.s.Violation(fmt.Sprintf("readers disagree on one file: %v=%v", in.rnames, outs),
			"C05:readers-disagree:"+in.fmt, in.s.Replay(in.caseOps))
		return strings.Join(outs, "/")
	}
	return "bad-op"
}

// judge evaluates the property for one answer of the real code.
func (in *c05Interp) judge(who string, sig [64]byte, r string) {
	_, member := in.added[sig]
	pop := len(in.hashes[c05Prefix(sig)])
	if r != "true" && r != "false" {
		in.s.Violation(fmt.Sprintf("Has(%x) by %s on a freshly sealed %s file failed: %q %s (member=%v, bucket population %d)", sig, who, in.fmt, r, zz.LastPanic, member, pop),
			fmt.Sprintf("C05:has-error:%s:%s", in.fmt, who), in.s.Replay(in.caseOps))
		return
	}
	switch {
	case member:
		in.s.Count(who + ":member")
		if r != "true" {
			in.s.Violation(fmt.Sprintf("false negative: added signature %x answered %q by %s (format %s, bucket population %d)", sig, r, who, in.fmt, pop),
				fmt.Sprintf("C05:false-negative:%s:%s", in.fmt, who), in.s.Replay(in.caseOps))
		}
	case in.collides(sig):
		in.s.Count(who + ":non-member-hash-collision")
		if r != "true" {
			in.s.Count(who + ":collision-not-reported")
		}
	default:
		in.s.Count(who + ":non-member")
		if pop == 0 {
			in.s.Count(who + ":non-member-empty-prefix")
		}
		if r != "false" {
			in.s.Violation(fmt.Sprintf("signature %x that was never added (no added signature with its prefix has its hash) answered %q by %s (format %s)", sig, r, who, in.fmt),
				fmt.Sprintf("C05:false-positive:%s:%s", in.fmt, who), in.s.Replay(in.caseOps))
		}
	}
}

// c05PopClass names the eytzinger shape class of a bucket population.
func c05PopClass(n int) string {
	if n <= 3 {
		return fmt.Sprint(n)
	}
	for k := 2; k < 40; k++ {
		switch n {
		case 1<<k - 1:
			return fmt.Sprintf("2^%d-1", k)
		case 1 << k:
			return fmt.Sprintf("2^%d", k)
		case 1<<k + 1:
			return fmt.Sprintf("2^%d+1", k)
		}
	}
	return "other"
}

// ---- generator ----

type c05Gen struct {
	rng   *zz.RNG
	ops   []string
	twins int
}

func (g *c05Gen) emit(f string, a ...any) { g.ops = append(g.ops, fmt.Sprintf(f, a...)) }

func (g *c05Gen) sig(prefix uint16) [64]byte {
	var s [64]byte
	copy(s[:], g.rng.Bytes(64))
	binary.LittleEndian.PutUint16(s[:2], prefix)
	return s
}

func (g *c05Gen) anySig() [64]byte {
	var s [64]byte
	copy(s[:], g.rng.Bytes(64))
	return s
}

// c05HashTwin returns a signature with prefix np (different from m's) and xxhash64(twin) == xxhash64(m): xxhash64
// consumes a 64-byte input as two 32-byte stripes of four 8-byte lanes; lane 1 sees bytes 0..7 then bytes 32..39, so a
// change of the prefix (bytes 0..1) is cancelled by solving for bytes 32..39:  acc' + w4'*P2 = acc + w4*P2 (mod 2^64).
func c05HashTwin(m [64]byte, np uint16) ([64]byte, bool) {
	var p1, p2 uint64 = 11400714785074694791, 14029467366897019727
	if c05Prefix(m) == np {
		return m, false
	}
	round := func(acc, in uint64) uint64 {
		acc += in * p2
		acc = acc<<31 | acc>>33
		return acc * p1
	}
	inv := uint64(1) // inverse of p2 modulo 2^64 (Newton)
	for i := 0; i < 7; i++ {
		inv *= 2 - p2*inv
	}
	v1 := p1 + p2
	t := m
	binary.LittleEndian.PutUint16(t[:2], np)
	acc := round(v1, binary.LittleEndian.Uint64(m[0:8]))
	acc2 := round(v1, binary.LittleEndian.Uint64(t[0:8]))
	w4 := binary.LittleEndian.Uint64(m[32:40])
	binary.LittleEndian.PutUint64(t[32:40], w4+(acc-acc2)*inv)
	if xxhash.Sum64(t[:]) != xxhash.Sum64(m[:]) {
		return t, false
	}
	return t, true
}

func (g *c05Gen) metas(format string, n int) {
	for i := 0; i < n; i++ {
		g.emit("meta %s %s", zz.Hex(g.rng.Bytes(1+g.rng.Intn(12))), zz.Hex(g.rng.Bytes(g.rng.Intn(40))))
	}
}

// probes emits the reads of one case: members, non-members sharing a populated prefix, non-members of empty
// prefixes, and crafted neighbours of members.
func (g *c05Gen) probes(op string, members [][64]byte, memberStep int, used []uint16, nAbsent int) {
	for i := 0; i < len(members); i += memberStep {
		g.emit("%s %x", op, members[i])
	}
	for i := 0; i < nAbsent; i++ {
		if len(used) > 0 {
			g.emit("%s %x", op, g.sig(used[g.rng.Intn(len(used))])) // same prefix as members, different tail
		}
		g.emit("%s %x", op, g.anySig())
		if len(members) > 0 {
			m := members[g.rng.Intn(len(members))]
			c := m
			c[63] ^= 1 // last byte differs
			g.emit("%s %x", op, c)
			c = m
			c[0], c[1] = c[1], c[0] // prefix bytes swapped (byte-order confusion)
			g.emit("%s %x", op, c)
			c = m
			c[2] ^= 0x80 // first byte after the prefix differs
			g.emit("%s %x", op, c)
			if len(used) > 1 {
				c = m
				binary.LittleEndian.PutUint16(c[:2], used[g.rng.Intn(len(used))]) // member's tail under another populated prefix
				g.emit("%s %x", op, c)
			}
			// a non-member with the SAME 64-bit hash as the member under ANOTHER prefix (populated or empty): present only
			// if some code forgets that membership is per two-byte prefix
			np := uint16(g.rng.U64())
			if len(used) > 0 && g.rng.Intn(2) == 0 {
				np = used[g.rng.Intn(len(used))]
			}
			if tw, ok := c05HashTwin(m, np); ok {
				g.twins++
				g.emit("%s %x", op, tw)
			}
		}
	}
}

// buildCase: put `members` in the given order (plus the listed re-puts), interleaved writer probes, seal, probes.
func (g *c05Gen) buildCase(name, format string, nmeta int, members [][64]byte, dups int, nAbsent int) {
	g.emit("case %s fmt=%s n=%d dups=%d", name, format, len(members), dups)
	g.emit("new %s", format)
	g.metas(format, nmeta)
	usedSet := map[uint16]bool{}
	var used []uint16
	perm := g.rng.Perm(len(members))
	wstep := 1 + len(members)/300
	for i, j := range perm {
		m := members[j]
		if i%wstep == 0 {
			g.emit("whas %x", m) // before Put: absent unless it is a repeated signature
		}
		g.emit("put %x", m)
		if i%wstep == 0 {
			g.emit("whas %x", m)
		}
		if p := c05Prefix(m); !usedSet[p] {
			usedSet[p] = true
			used = append(used, p)
		}
	}
	for i := 0; i < dups && len(members) > 0; i++ {
		g.emit("put %x", members[g.rng.Intn(len(members))])
	}
	mstep := 1
	if len(members) > 60000 {
		mstep = 2
	}
	g.probes("whas", members, mstep*(1+len(members)/2000), used, nAbsent/4+1)
	g.emit("seal")
	g.probes("has", members, mstep, used, nAbsent)
	g.emit("chas 2") // the same Reader shared by several goroutines (epoch.go shares one per epoch between requests)
	g.probes("whas", members, 1+len(members)/500, used, 2) // the writer after Seal (its slices were sorted in place)
}

var c05EdgePrefixes = []uint16{0x0000, 0xffff, 0x00ff, 0xff00, 0x0001, 0x0100, 0x0101, 0x7fff, 0x8000, 0xfffe, 0xfeff}

// shapes: one bucket per target population 0,1,2,3,2^k-1,2^k,2^k+1 (k = 2..maxK), in edge prefixes first.
func (g *c05Gen) shapes(maxK int) [][64]byte {
	pops := []int{1, 2, 3}
	for k := 2; k <= maxK; k++ {
		pops = append(pops, 1<<k-1, 1<<k, 1<<k+1)
	}
	taken := map[uint16]bool{}
	var members [][64]byte
	for i, n := range pops {
		var p uint16
		if i < len(c05EdgePrefixes) {
			p = c05EdgePrefixes[i]
		} else {
			p = uint16(g.rng.U64())
		}
		for taken[p] {
			p++
		}
		taken[p] = true
		for j := 0; j < n; j++ {
			members = append(members, g.sig(p))
		}
	}
	return members
}

func (g *c05Gen) randomMembers(n int, nprefixes int) [][64]byte {
	var pool []uint16
	for i := 0; i < nprefixes; i++ {
		pool = append(pool, uint16(g.rng.U64()))
	}
	out := make([][64]byte, 0, n)
	for i := 0; i < n; i++ {
		if nprefixes == 0 {
			out = append(out, g.anySig())
		} else {
			out = append(out, g.sig(pool[g.rng.Intn(len(pool))]))
		}
	}
	return out
}

func (g *c05Gen) generate(thorough bool) {
	for _, format := range []string{"v2", "v1"} {
		// nothing added: every prefix empty
		g.buildCase("empty", format, 0, nil, 0, 30)
		// a single signature; the same signature many times; two signatures, one prefix
		one := g.sig(0x0201)
		g.buildCase("single", format, 1, [][64]byte{one}, 0, 10)
		g.buildCase("same-signature-repeated", format, 2, [][64]byte{one, one, one, one, one}, 40, 10)
		a, b := g.sig(0xffff), g.sig(0xffff)
		g.buildCase("pair-one-prefix", format, 0, [][64]byte{a, b, g.sig(0x0000)}, 1, 10)
	}
	for _, format := range []string{"v2", "v1"} {
		// metadata of every shape the header can hold (v2: lengths 0..255, the 256-byte key / value is refused by
		// Meta.Add; v1: a Go map with Borsh strings, a repeated key replaces)
		g.emit("case meta-limits fmt=%s", format)
		g.emit("new %s", format)
		g.emit("meta - -")
		g.emit("meta %s %s", zz.Hex(g.rng.Bytes(255)), zz.Hex(g.rng.Bytes(255)))
		g.emit("meta %s %s", zz.Hex(g.rng.Bytes(256)), zz.Hex(g.rng.Bytes(3)))
		g.emit("meta %s %s", zz.Hex(g.rng.Bytes(3)), zz.Hex(g.rng.Bytes(256)))
		g.emit("meta 6b - ")
		g.emit("meta 6b 01")
		g.emit("meta 6a 02")
		g.emit("meta 6b6b 03")
		ms := g.randomMembers(50, 5)
		for _, m := range ms {
			g.emit("put %x", m)
		}
		g.emit("seal")
		g.probes("has", ms, 1, []uint16{c05Prefix(ms[0])}, 5)
	}
	k := 12
	if thorough {
		k = 14
	}
	g.buildCase("shapes", "v2", 2, g.shapes(k), 200, 200)
	g.buildCase("shapes", "v1", 3, g.shapes(k), 200, 200)
	// first-byte / second-byte ordering of the deprecated offset table: all 256 prefixes of two crossing rows
	{
		var ms [][64]byte
		for i := 0; i < 256; i++ {
			ms = append(ms, g.sig(uint16(i)), g.sig(uint16(i)<<8), g.sig(uint16(i)|0x3300), g.sig(uint16(i)<<8|0x33))
		}
		g.buildCase("prefix-rows", "v1", 1, ms, 10, 60)
		g.buildCase("prefix-rows", "v2", 1, ms, 10, 60)
	}
	// a bucket well above any per-bucket allocation hint (1500, 1100) with populated numeric neighbours on both sides
	{
		var ms [][64]byte
		for i := 0; i < 1500; i++ {
			ms = append(ms, g.sig(0x4321))
		}
		for i := 0; i < 1100; i++ {
			ms = append(ms, g.sig(0xfffe))
		}
		for _, p := range []uint16{0x4320, 0x4322, 0xfffd, 0xffff, 0x0000, 0x4421, 0x4221} {
			for i := 0; i < 4; i++ {
				ms = append(ms, g.sig(p))
			}
		}
		g.buildCase("heavy-with-neighbours", "v2", 1, ms, 10, 60)
		g.buildCase("heavy-with-neighbours", "v1", 1, ms, 10, 60)
	}
	// buckets that outgrow the capacity the writer pre-allocates per prefix (16 000 hashes) once and twice over: the
	// growth of a full bucket must keep what was already in it
	{
		var ms [][64]byte
		for i := 0; i < 16001; i++ {
			ms = append(ms, g.sig(0x1234))
		}
		for i := 0; i < 3; i++ {
			ms = append(ms, g.sig(0x1233), g.sig(0x1235))
		}
		g.buildCase("past-preallocated-capacity", "v1", 1, ms, 10, 60)
		for i := 0; i < 32003; i++ {
			ms = append(ms, g.sig(0x00fe))
		}
		g.buildCase("past-preallocated-capacity", "v2", 1, ms, 10, 60)
	}
	n := 20000
	if thorough {
		n = 40000
	}
	g.buildCase("random-crowded", "v1", 4, g.randomMembers(n, 150), n/20, 300)
	g.buildCase("random-crowded", "v2", 255, g.randomMembers(n, 150), n/20, 300)
	g.buildCase("random-uniform", "v1", 0, g.randomMembers(n, 0), n/50, 300)
	g.buildCase("random-uniform", "v2", 0, g.randomMembers(n, 0), n/50, 300)
	if thorough {
		// ~200 000 signatures: 150 000 uniform over all prefixes (populations 0..~12) + 50 000 in 40 crowded prefixes
		big := append(g.randomMembers(150000, 0), g.randomMembers(50000, 40)...)
		g.buildCase("large", "v2", 3, big, 2000, 2000)
		big1 := append(g.randomMembers(150000, 0), g.randomMembers(50000, 40)...)
		g.buildCase("large", "v1", 3, big1, 2000, 2000)
		// one very full bucket (2^16+1 distinct hashes) next to small ones
		var full [][64]byte
		for i := 0; i < 1<<16+1; i++ {
			full = append(full, g.sig(0x1234))
		}
		full = append(full, g.randomMembers(3000, 20)...)
		g.buildCase("one-full-bucket", "v1", 1, full, 100, 300)
		g.buildCase("one-full-bucket", "v2", 1, full, 100, 300)
	}
}

func TestVerifC05(t *testing.T) {
	s := zz.NewSession()
	defer s.Close()
	dir, err := os.MkdirTemp("", "verif-c05-")
	if err != nil {
		t.Fatal(err)
	}
	defer os.RemoveAll(dir)
	in := &c05Interp{s: s, dir: dir}
	in.reset()
	var ops []string
	if rp := zz.ReplayFile(); rp != "" {
		data, err := os.ReadFile(rp)
		if err != nil {
			t.Fatal(err)
		}
		for _, l := range strings.Split(strings.TrimSpace(string(data)), "\n") {
			if l != "" && !strings.HasPrefix(l, "#") {
				ops = append(ops, l)
			}
		}
	} else {
		g := &c05Gen{rng: zz.NewRNG(zz.Seed())}
		g.generate(zz.Thorough())
		ops = g.ops
		for i := 0; i < g.twins; i++ {
			s.Count("probe-hash-twin-other-prefix")
		}
	}
	for _, op := range ops {
		out := in.exec(op)
		s.Op(op, out, out == "true" || out == "false" || strings.HasPrefix(out, "file"))
	}
	in.reset()
}

package indexes

// C12 harness for the typed index readers (injected by /verif/check with `go test -overlay`; nothing is written to /repo).
//
//	oas <hex>                     OffsetAndSize.FromBytes            -> err | ok <offset> <size>
//	oass <hex>                    OffsetAndSizeSliceFromBytes        -> err | ok <n> <last offset> <last size>
//	defmeta <meta hex> cast=<r>   getDefaultMetadata over the decoded index metadata; r = what go-cid's Cast says about
//	                              the stored root CID (ok|err|na), carried on the line because go-cid is third-party
//	                                                                  -> err | ok <epoch>
//	open-idx <kind> <file hex> <key hex>
//	                              OpenWithReader_<kind> (cid-to-offset-and-size, slot-to-cid, sig-to-cid,
//	                              pubkey-to-offset-and-size) + Get + Meta with and without prefetch -> nopanic
//	                              kinds s2c / sig2c fall through to the deprecated 36-byte-value reader when the file
//	                              carries the old magic; c2o-old = Deprecated_OpenWithReader_CidToOffset (8-byte values)
//
// Valid index files come from the real writers.

import (
	"bytes"
	"context"
	"fmt"
	"os"
	"path/filepath"
	"strings"
	"testing"

	"github.com/gagliardetto/solana-go"
	"github.com/ipfs/go-cid"
	"github.com/rpcpool/yellowstone-faithful/compactindexsized"
	"github.com/rpcpool/yellowstone-faithful/deprecated/compactindex"
	"github.com/rpcpool/yellowstone-faithful/deprecated/compactindex36"
	"github.com/rpcpool/yellowstone-faithful/indexmeta"
	c12 "github.com/rpcpool/yellowstone-faithful/zzc12"
	zz "github.com/rpcpool/yellowstone-faithful/zzverif"
)

type c12RAC struct{ *bytes.Reader }

func (c12RAC) Close() error { return nil }

func c12ExecIdx(op string) string {
	w := strings.Fields(op)
	switch w[0] {
	case "oas":
		var o OffsetAndSize
		if err := o.FromBytes(zz.Unhex(w[1])); err != nil {
			return "err"
		}
		o.IsValid()
		o.IsZero()
		return fmt.Sprintf("ok %d %d", o.Offset, o.Size)
	case "oass":
		l, err := OffsetAndSizeSliceFromBytes(zz.Unhex(w[1]))
		if err != nil {
			return "err"
		}
		if len(l) == 0 {
			return "ok 0 0 0"
		}
		return fmt.Sprintf("ok %d %d %d", len(l), l[len(l)-1].Offset, l[len(l)-1].Size)
	case "defmeta":
		var m indexmeta.Meta
		if err := m.UnmarshalBinary(zz.Unhex(w[1])); err != nil {
			return "err"
		}
		db := &compactindexsized.DB{Header: &compactindexsized.Header{Metadata: &m}}
		md, err := getDefaultMetadata(db)
		if err != nil {
			return "err"
		}
		md.AssertEpoch(1)
		md.AssertIndexKind(Kind_SigToCid)
		md.AssertNetwork(NetworkMainnet)
		return fmt.Sprintf("ok %d", md.Epoch)
	case "open-idx":
		data, key := zz.Unhex(w[2]), zz.Unhex(w[3])
		rd := c12RAC{bytes.NewReader(data)}
		for _, pf := range []bool{false, true} {
			switch w[1] {
			case "c2o":
				r, err := OpenWithReader_CidToOffsetAndSize(rd)
				if err != nil {
					return "err"
				}
				r.Prefetch(pf)
				r.Meta()
				if c, err := cid.Cast(key); err == nil {
					r.Get(c)
				}
				r.Get(cid.Undef)
			case "s2c":
				r, err := OpenWithReader_SlotToCid(rd)
				if err != nil {
					return "err"
				}
				r.Prefetch(pf)
				r.Meta()
				if len(key) >= 8 {
					r.Get(BtoUint64(key))
				}
				r.Get(0)
			case "sig2c":
				r, err := OpenWithReader_SigToCid(rd)
				if err != nil {
					return "err"
				}
				r.Prefetch(pf)
				r.Meta()
				var sig solana.Signature
				copy(sig[:], key)
				r.Get(sig)
			case "c2o-old":
				r, err := Deprecated_OpenWithReader_CidToOffset(rd)
				if err != nil {
					return "err"
				}
				r.Prefetch(pf)
				r.Meta()
				if c, err := cid.Cast(key); err == nil {
					r.Get(c)
				}
			case "pk2o":
				r, err := OpenWithReader_PubkeyToOffsetAndSize(rd)
				if err != nil {
					return "err"
				}
				r.Prefetch(pf)
				r.Meta()
				var pk solana.PublicKey
				copy(pk[:], key)
				r.Get(pk)
			}
		}
		return "ok"
	}
	return "bad-op"
}

var c12RootCid = func() cid.Cid {
	c, err := cid.Decode("bafyreigh2akiscaildcqabsyg3dfr6chu3fgpregiymsck7e7aqa4s52zy")
	if err != nil {
		panic(err)
	}
	return c
}()

func c12MkCid(rng *zz.RNG) cid.Cid {
	b := append([]byte{0x01, 0x71, 0x12, 0x20}, rng.Bytes(32)...)
	c, err := cid.Cast(b)
	if err != nil {
		panic(err)
	}
	return c
}

// c12BuildIndex builds one real index file of the given kind and returns the file and the keys stored.
func c12BuildIndex(dir string, rng *zz.RNG, kind string, n int) ([]byte, [][]byte) {
	tmp, _ := os.MkdirTemp(dir, "t")
	dst, _ := os.MkdirTemp(dir, "d")
	var keys [][]byte
	var path string
	ctx := context.Background()
	switch kind {
	case "c2o":
		w, err := NewWriter_CidToOffsetAndSize(7, c12RootCid, NetworkMainnet, tmp, uint64(n))
		if err != nil {
			panic(err)
		}
		for i := 0; i < n; i++ {
			c := c12MkCid(rng)
			keys = append(keys, c.Bytes())
			if err := w.Put(c, rng.U64()%MaxUint48, rng.U64()%MaxUint24); err != nil {
				panic(err)
			}
		}
		if err := w.Seal(ctx, dst); err != nil {
			panic(err)
		}
		path = w.GetFilepath()
		w.Close()
	case "s2c":
		w, err := NewWriter_SlotToCid(7, c12RootCid, NetworkMainnet, tmp, uint64(n))
		if err != nil {
			panic(err)
		}
		for i := 0; i < n; i++ {
			k := Uint64tob(uint64(7*432000 + i))
			keys = append(keys, k)
			if err := w.Put(uint64(7*432000+i), c12MkCid(rng)); err != nil {
				panic(err)
			}
		}
		if err := w.Seal(ctx, dst); err != nil {
			panic(err)
		}
		path = w.GetFilepath()
		w.Close()
	case "sig2c":
		w, err := NewWriter_SigToCid(7, c12RootCid, NetworkMainnet, tmp, uint64(n))
		if err != nil {
			panic(err)
		}
		for i := 0; i < n; i++ {
			var sig solana.Signature
			copy(sig[:], rng.Bytes(64))
			keys = append(keys, sig[:])
			if err := w.Put(sig, c12MkCid(rng)); err != nil {
				panic(err)
			}
		}
		if err := w.Seal(ctx, dst); err != nil {
			panic(err)
		}
		path = w.GetFilepath()
		w.Close()
	case "pk2o":
		w, err := NewWriter_PubkeyToOffsetAndSize(7, c12RootCid, NetworkMainnet, tmp)
		if err != nil {
			panic(err)
		}
		for i := 0; i < n; i++ {
			var pk solana.PublicKey
			copy(pk[:], rng.Bytes(32))
			keys = append(keys, pk[:])
			if err := w.Put(pk, rng.U64()%MaxUint48, rng.U64()%MaxUint24); err != nil {
				panic(err)
			}
		}
		if err := w.Seal(ctx, dst); err != nil {
			panic(err)
		}
		path = w.GetFilepath()
		w.Close()
	}
	if path == "" {
		m, _ := filepath.Glob(filepath.Join(dst, "*"))
		path = m[0]
	}
	data, err := os.ReadFile(path)
	if err != nil {
		panic(err)
	}
	return data, keys
}

// c12BuildOld builds an index in one of the two deprecated formats with the deprecated builders.
func c12BuildOld(dir string, rng *zz.RNG, kind string, n int) ([]byte, [][]byte) {
	tmp, _ := os.MkdirTemp(dir, "o") // the builder's scratch directory: Close removes it
	out, _ := os.MkdirTemp(dir, "oo")
	path := filepath.Join(out, "old.index")
	f, err := os.OpenFile(path, os.O_CREATE|os.O_RDWR, 0o644)
	if err != nil {
		panic(err)
	}
	defer f.Close()
	var keys [][]byte
	ctx := context.Background()
	switch kind {
	case "c2o-old":
		b, err := compactindex.NewBuilder(tmp, uint(n), 1<<40)
		if err != nil {
			panic(err)
		}
		for i := 0; i < n; i++ {
			c := c12MkCid(rng)
			keys = append(keys, c.Bytes())
			if err := b.Insert(c.Bytes(), rng.U64()%(1<<40)); err != nil {
				panic(err)
			}
		}
		if err := b.Seal(ctx, f); err != nil {
			panic(err)
		}
		b.Close()
	default: // s2c / sig2c in the 36-byte-value format
		b, err := compactindex36.NewBuilder(tmp, uint(n), 0)
		if err != nil {
			panic(err)
		}
		for i := 0; i < n; i++ {
			var k []byte
			if kind == "s2c" {
				k = Uint64tob(uint64(7*432000 + i))
			} else {
				k = rng.Bytes(64)
			}
			keys = append(keys, k)
			var v [36]byte
			copy(v[:], c12MkCid(rng).Bytes())
			if err := b.Insert(k, v); err != nil {
				panic(err)
			}
		}
		if err := b.Seal(ctx, f); err != nil {
			panic(err)
		}
		b.Close()
	}
	data, err := os.ReadFile(path)
	if err != nil {
		panic(err)
	}
	return data, keys
}

func c12CastOf(metaBytes []byte) string {
	var m indexmeta.Meta
	if err := m.UnmarshalBinary(metaBytes); err != nil {
		return "na"
	}
	v, ok := m.Get(indexmeta.MetadataKey_RootCid)
	if !ok {
		return "na"
	}
	if _, err := cid.Cast(v); err != nil {
		return "err"
	}
	return "ok"
}

func c12MetaFields(data []byte, base int) []c12.Field {
	// count ‖ (klen ‖ k ‖ vlen ‖ v)*
	fields := []c12.Field{{Name: "metaCount", Off: base, Width: 1}}
	n := int(data[base])
	off := base + 1
	for i := 0; i < n && off < len(data); i++ {
		kl := int(data[off])
		fields = append(fields, c12.Field{Name: fmt.Sprintf("keyLen%d", i), Off: off, Width: 1})
		off += 1 + kl
		if off >= len(data) {
			break
		}
		vl := int(data[off])
		fields = append(fields, c12.Field{Name: fmt.Sprintf("valLen%d", i), Off: off, Width: 1})
		off += 1 + vl
	}
	return fields
}

func c12GenIdx(dir string, rng *zz.RNG, s *zz.Session, thorough bool) []string {
	var ops []string
	// offset-and-size values
	for l := 0; l <= 20; l++ {
		ops = append(ops, "oas "+zz.Hex(rng.Bytes(l)))
		ops = append(ops, "oass "+zz.Hex(rng.Bytes(l)))
		s.Count("boundary:oas-length")
	}
	for _, l := range []int{27, 90, 91, 900} {
		ops = append(ops, "oass "+zz.Hex(rng.Bytes(l)))
	}
	ops = append(ops, "oas ffffffffffffffffff", "oas 000000000000000000")
	// default metadata: the four keys, each present / absent / of every small length
	mk := func(kv [][2][]byte) []byte {
		var m indexmeta.Meta
		for _, e := range kv {
			m.Add(e[0], e[1])
		}
		return m.Bytes()
	}
	full := [][2][]byte{
		{indexmeta.MetadataKey_Epoch, Uint64tob(123)},
		{indexmeta.MetadataKey_RootCid, c12RootCid.Bytes()},
		{indexmeta.MetadataKey_Network, []byte(NetworkMainnet)},
		{indexmeta.MetadataKey_Kind, Kind_SlotToCid},
	}
	emit := func(b []byte) { ops = append(ops, "defmeta "+zz.Hex(b)+" cast="+c12CastOf(b)) }
	emit(mk(full))
	for drop := range full {
		var kv [][2][]byte
		for i, e := range full {
			if i != drop {
				kv = append(kv, e)
			}
		}
		emit(mk(kv))
		s.Count("boundary:defmeta-missing-key")
	}
	for l := 0; l <= 10; l++ {
		kv := append([][2][]byte{}, full...)
		kv[0] = [2][]byte{indexmeta.MetadataKey_Epoch, rng.Bytes(l)}
		emit(mk(kv))
		kv = append([][2][]byte{}, full...)
		kv[1] = [2][]byte{indexmeta.MetadataKey_RootCid, c12RootCid.Bytes()[:l*3]}
		emit(mk(kv))
		s.Count("boundary:defmeta-value-length")
	}
	{
		valid := mk(full)
		nb, nr := 150, 30
		if thorough {
			nb, nr = 600, 300
		}
		for _, mu := range c12.Mutate(rng, valid, c12MetaFields(valid, 0), nb, nr, s.Count) {
			emit(mu.Data)
		}
	}
	// whole index files
	kinds := []string{"c2o", "s2c", "sig2c", "pk2o"}
	for _, kind := range kinds {
		n := 6
		if thorough {
			n = 60
		}
		data, keys := c12BuildIndex(dir, rng, kind, n)
		fields := []c12.Field{
			{Name: "headerLen", Off: 8, Width: 4},
			{Name: "valueSize", Off: 12, Width: 8},
			{Name: "numBuckets", Off: 20, Width: 4},
			{Name: "version", Off: 24, Width: 1},
		}
		fields = append(fields, c12MetaFields(data, 25)...)
		hs := 12 + int(uint32(data[8])|uint32(data[9])<<8)
		fields = append(fields,
			c12.Field{Name: "bucket.numEntries", Off: hs + 4, Width: 4},
			c12.Field{Name: "bucket.hashLen", Off: hs + 8, Width: 1},
			c12.Field{Name: "bucket.fileOffset", Off: hs + 10, Width: 6})
		nb, nr := 100, 20
		if thorough {
			nb, nr = 500, 200
		}
		for mi, mu := range c12.Mutate(rng, data, fields, nb, nr, s.Count) {
			ops = append(ops, "open-idx "+kind+" "+zz.Hex(mu.Data)+" "+zz.Hex(keys[mi%len(keys)]))
		}
		s.Count("valid-files")
	}
	// the two deprecated formats: 32-byte header (magic, file size, bucket count, version, 11 zero bytes), bucket table
	for _, kind := range []string{"s2c", "sig2c", "c2o-old"} {
		n := 6
		if thorough {
			n = 60
		}
		data, keys := c12BuildOld(dir, rng, kind, n)
		fields := []c12.Field{
			{Name: "old.fileSize", Off: 8, Width: 8},
			{Name: "old.numBuckets", Off: 16, Width: 4},
			{Name: "old.version", Off: 20, Width: 1},
			{Name: "old.pad", Off: 21, Width: 1},
			{Name: "old.bucket.hashDomain", Off: 32, Width: 4},
			{Name: "old.bucket.numEntries", Off: 36, Width: 4},
			{Name: "old.bucket.hashLen", Off: 40, Width: 1},
			{Name: "old.bucket.fileOffset", Off: 42, Width: 6},
		}
		nb, nr := 100, 20
		if thorough {
			nb, nr = 500, 200
		}
		for mi, mu := range c12.Mutate(rng, data, fields, nb, nr, s.Count) {
			ops = append(ops, "open-idx "+kind+" "+zz.Hex(mu.Data)+" "+zz.Hex(keys[mi%len(keys)]))
		}
		s.Count("valid-files-deprecated-format")
	}
	return ops
}

func TestVerifC12(t *testing.T) {
	if c12.IsChild() {
		c12.Serve(c12ExecIdx)
		return
	}
	r := c12.NewRun("TestVerifC12")
	defer r.Close()
	r.Print = func(op string, res c12.Result) string {
		if res.Class == "ok" || res.Class == "err" {
			if strings.HasPrefix(op, "open-idx") {
				return "nopanic"
			}
			return res.Answer
		}
		return res.Class
	}
	dir, err := os.MkdirTemp("", "verif-c12-idx-")
	if err != nil {
		t.Fatal(err)
	}
	defer os.RemoveAll(dir)
	ops := c12.ReplayOps()
	if ops == nil {
		ops = c12GenIdx(dir, zz.NewRNG(zz.Seed()), r.S, zz.Thorough())
	}
	for _, op := range ops {
		r.Exec(op)
	}
}

package main

// C18 harness (injected by /verif/check with `go test -overlay`; nothing is written to /repo).
//
// Op kinds
//
//	fs <limit> <outcomes> <order>
//	    the real FirstSuccess (through JobGroup.Run / RunWithConcurrency) on jobs that are gated on channels, so the
//	    harness dictates the completion order.  A job can only be released once it has started; with a
//	    concurrency limit L only L jobs are started at a time, so the controller waits until the set of started
//	    jobs is saturated (min(n, released+L) jobs, all n without a limit) and then releases the job that comes
//	    first in <order> among the started ones.  After releasing a SUCCEEDING job while all jobs are started it
//	    waits for FirstSuccess to return before releasing anything else.  Under this protocol the result, the
//	    effective release order and the peak number of simultaneously running jobs are deterministic for the
//	    real code, and are compared with the model's run under the same schedule:
//	        res=<ok:v | err:[sorted]> eff=<release order> maxrun=<peak> allowed=<results of all feasible schedules>
//	    `allowed` is computed here from first principles (every arrival order that the limit permits → first
//	    success in it, else all errors) and by the model by exhaustive exploration of its transition system.
//	    Oracle (independent of the model, from the property statement): the real result must be the value of a job
//	    that succeeded if one exists, otherwise the complete list of errors; the call must return.
//	find <limit> <epochs>
//	    the real MultiEpoch.findEpochNumberFromSignature over hand-made Epoch values (fake SigExistsIndex, two tiny
//	    real sig-to-cid indexes), free-running (no gating), repeated; answer = the deterministic part of the
//	    classification + the allowed set.

import (
	"context"
	"errors"
	"fmt"
	"os"
	"runtime"
	"sort"
	"strconv"
	"strings"
	"sync/atomic"
	"testing"
	"time"

	"github.com/gagliardetto/solana-go"
	"github.com/ipfs/go-cid"
	"github.com/rpcpool/yellowstone-faithful/indexes"
	zz "github.com/rpcpool/yellowstone-faithful/zzverif"
)

type c18Out struct {
	ok   bool
	val  int    // value of a succeeding job
	name string // error text of a failing job
}

func c18ParseOuts(s string) []c18Out {
	if s == "-" {
		return nil
	}
	var outs []c18Out
	for _, t := range strings.Split(s, ",") {
		k, _ := strconv.Atoi(t[1:])
		if t[0] == 'o' {
			outs = append(outs, c18Out{ok: true, val: k})
		} else {
			outs = append(outs, c18Out{name: "e" + t[1:]})
		}
	}
	return outs
}

func c18ParseInts(s string) []int {
	if s == "-" {
		return nil
	}
	var r []int
	for _, t := range strings.Split(s, ",") {
		k, _ := strconv.Atoi(t)
		r = append(r, k)
	}
	return r
}

func c18JoinInts(l []int) string {
	if len(l) == 0 {
		return "-"
	}
	p := make([]string, len(l))
	for i, v := range l {
		p[i] = strconv.Itoa(v)
	}
	return strings.Join(p, ",")
}

// c18Winners: which jobs can be the first success to arrive (-1 = nobody succeeds), over every arrival order the
// limit permits.  A job k can only start once fewer than L jobs hold a slot, i.e. after at least k-L+1 jobs have
// sent their result and left: arrival order p is feasible iff position(k) >= k-L+1 for every k (L <= 0: no limit).
func c18Winners(limit int, oks []bool) []int {
	n := len(oks)
	win := map[int]bool{}
	perm := make([]int, 0, n)
	used := make([]bool, n)
	var rec func()
	rec = func() {
		if len(perm) == n {
			w := -1
			for _, j := range perm {
				if oks[j] {
					w = j
					break
				}
			}
			win[w] = true
			return
		}
		pos := len(perm)
		for k := 0; k < n; k++ {
			if used[k] {
				continue
			}
			if limit > 0 && pos < k-limit+1 {
				continue
			}
			used[k] = true
			perm = append(perm, k)
			rec()
			perm = perm[:len(perm)-1]
			used[k] = false
		}
	}
	rec()
	var r []int
	for w := range win {
		r = append(r, w)
	}
	sort.Ints(r)
	return r
}

type c18Harness struct {
	s          *zz.Session
	t          *testing.T
	winCache   map[string][]int
	idxWith    *indexes.SigToCid_Reader
	idxWithout *indexes.SigToCid_Reader
	sig        solana.Signature
	budget     time.Duration // base budget of one attempt (x10 on the two retries)
	// bookkeeping that keeps a systematic hang cheap: every wait is bounded; a call that does not return is re-run
	// alone twice with 10x budget before it is reported; a class (kind, limit, n) is abandoned after 3 reports;
	// after 3 reports overall only the first (short) attempt is made and a class that times out is abandoned.
	confirmed  int
	classHangs map[string]int
	suspect    map[string]bool
}

const c18MaxConfirmed = 3

func (h *c18Harness) skipClass(cls string) bool {
	if h.classHangs[cls] >= 3 || h.suspect[cls] {
		h.s.Count("skipped-after-no-return")
		return true
	}
	return false
}

// attempts runs f with scale 1, then (unless too many hangs were already reported) twice with scale 10.
// It returns false when no attempt completed; `reported` says whether that verdict is confirmed (to be reported).
func (h *c18Harness) attempts(cls string, f func(scale int) bool) (done bool, reported bool) {
	n := 3
	if h.confirmed >= c18MaxConfirmed {
		n = 1
	}
	for a := 0; a < n; a++ {
		scale := 1
		if a > 0 {
			scale = 10
			h.s.Count("retry-alone-10x")
		}
		if f(scale) {
			return true, false
		}
	}
	if n == 1 {
		h.suspect[cls] = true
		h.s.Count("timeout-unconfirmed-class-abandoned")
		return false, false
	}
	h.confirmed++
	h.classHangs[cls]++
	return false, true
}

func (h *c18Harness) winners(limit int, oks []bool) []int {
	key := strconv.Itoa(limit) + ":"
	for _, b := range oks {
		if b {
			key += "1"
		} else {
			key += "0"
		}
	}
	if w, ok := h.winCache[key]; ok {
		return w
	}
	w := c18Winners(limit, oks)
	h.winCache[key] = w
	return w
}

type c18Run struct {
	status   string // "ok", "no-return", "stall"
	isOk     bool
	val      int
	errs     []string // arrival order
	errType  string
	eff      []int
	maxrun   int
	degraded bool
	early    bool // returned right after the first success was released (all jobs started)
}

type c18WrapErr struct {
	name  string
	inner error
}

func (e c18WrapErr) Error() string { return e.name }
func (e c18WrapErr) Unwrap() error { return e.inner }

// c18RunFS drives one real call. `scale` multiplies every waiting budget (1 on the first attempt, 10 on retries).
func (h *c18Harness) runFS(limit int, outs []c18Out, order []int, ctxKind int, scale int) c18Run {
	n := len(outs)
	gates := make([]chan struct{}, n)
	started := make(chan int, n)
	var active, maxActive int32
	jg := NewJobGroup[int]()
	for i := range outs {
		i := i
		gates[i] = make(chan struct{})
		jg.Add(func(ctx context.Context) (int, error) {
			a := atomic.AddInt32(&active, 1)
			for {
				m := atomic.LoadInt32(&maxActive)
				if a <= m || atomic.CompareAndSwapInt32(&maxActive, m, a) {
					break
				}
			}
			started <- i
			<-gates[i]
			atomic.AddInt32(&active, -1)
			if outs[i].ok {
				return outs[i].val, nil
			}
			// a failing job hands back a poisoned value: it must never surface
			// every third failing job fails the way a job with its own internal timeout does: its error wraps
			// context.DeadlineExceeded / context.Canceled although the REQUEST context is live.  The message is unchanged.
			switch (i + n) % 3 {
			case 1:
				return 100000 + i, c18WrapErr{outs[i].name, context.DeadlineExceeded}
			case 2:
				return 100000 + i, c18WrapErr{outs[i].name, context.Canceled}
			}
			return 100000 + i, errors.New(outs[i].name)
		})
	}
	ctx := context.Background()
	if ctxKind == 1 {
		var cancel context.CancelFunc
		ctx, cancel = context.WithCancel(ctx) // live for the whole call; Done() is a real channel that never fires
		defer cancel()
	}
	type ret struct {
		v   int
		err error
	}
	resCh := make(chan ret, 1)
	go func() {
		var v int
		var err error
		if limit == -1 {
			v, err = jg.Run(ctx)
		} else {
			v, err = jg.RunWithConcurrency(ctx, limit)
		}
		resCh <- ret{v, err}
	}()

	var run c18Run
	run.status = "ok"
	var got *ret
	startedSet := map[int]bool{}
	released := map[int]bool{}
	satWait := h.budget / 2 * time.Duration(scale)
	deadline := time.Now().Add(h.budget * time.Duration(scale)) // of the whole attempt
	remaining := func(d time.Duration) time.Duration {
		if r := time.Until(deadline); r < d {
			if r < 0 {
				return 0
			}
			return r
		}
		return d
	}
	releaseRest := func() {
		for i := 0; i < n; i++ {
			if !released[i] {
				released[i] = true
				close(gates[i])
			}
		}
	}
	for len(run.eff) < n {
		want := n
		if limit > 0 && len(run.eff)+limit < n {
			want = len(run.eff) + limit
		}
		timer := time.NewTimer(remaining(satWait))
	sat:
		for len(startedSet) < want {
			select {
			case j := <-started:
				startedSet[j] = true
			case r := <-resCh:
				got = &r
				resCh = nil
			case <-timer.C:
				break sat
			}
		}
		timer.Stop()
		pick := -1
		for _, j := range order {
			if j >= 0 && j < n && startedSet[j] && !released[j] {
				pick = j
				break
			}
		}
		if pick < 0 {
			for j := 0; j < n; j++ {
				if startedSet[j] && !released[j] {
					pick = j
					break
				}
			}
		}
		if len(startedSet) < want {
			if pick < 0 || !time.Now().Before(deadline) {
				// nothing is running, nothing can be released, and FirstSuccess does not start the next job
				run.status = "stall"
				releaseRest()
				return run
			}
			run.degraded = true
		}
		released[pick] = true
		close(gates[pick])
		run.eff = append(run.eff, pick)
		if outs[pick].ok && len(startedSet) == n && got == nil {
			select {
			case r := <-resCh:
				got = &r
				resCh = nil
				run.early = true
			case <-time.After(remaining(satWait)):
				run.degraded = true
			}
		}
	}
	if got == nil {
		select {
		case r := <-resCh:
			got = &r
		case <-time.After(remaining(h.budget * time.Duration(scale))):
			run.status = "no-return"
			releaseRest()
			return run
		}
	}
	run.maxrun = int(atomic.LoadInt32(&maxActive))
	if got.err == nil {
		run.isOk = true
		run.val = got.v
	} else {
		es, ok := got.err.(ErrorSlice)
		if !ok {
			run.errType = fmt.Sprintf("%T", got.err)
		}
		for _, e := range es {
			if e == nil {
				run.errs = append(run.errs, "nil")
			} else {
				run.errs = append(run.errs, e.Error())
			}
		}
		run.val = got.v
	}
	return run
}

func c18SortedCopy(l []string) []string {
	c := append([]string(nil), l...)
	sort.Strings(c)
	return c
}

func (h *c18Harness) execFS(line string, w []string) {
	limit, _ := strconv.Atoi(w[1])
	outs := c18ParseOuts(w[2])
	order := c18ParseInts(w[3])
	n := len(outs)
	ctxKind := 0
	for _, c := range line {
		ctxKind ^= int(c) & 1
	}
	cls := fmt.Sprintf("fs:%d:%d", limit, n)
	if h.skipClass(cls) {
		return
	}
	var run c18Run
	done, reported := h.attempts(cls, func(scale int) bool {
		run = h.runFS(limit, outs, order, ctxKind, scale)
		return run.status == "ok" && !run.degraded
	})
	if !done && run.status == "ok" {
		done = true // returned, but only with the degraded protocol: answer is recorded with the DEGRADED mark
		if reported {
			h.confirmed--
			h.classHangs[cls]--
		}
	}
	if !done {
		if reported {
			h.s.Violation(fmt.Sprintf("search did not terminate: FirstSuccess did not return (%s) for `%s` (3 attempts alone, the last two with 10x budget)", run.status, line),
				fmt.Sprintf("C18:no-return:limit=%d:n=%d", limit, n), h.s.Replay([]string{line}))
			h.s.Op(line, "no-return", false)
		}
		return
	}
	// --- what the property allows (independent of the model) ---
	var okVals []int
	var allErrs []string
	oks := make([]bool, n)
	for i, o := range outs {
		oks[i] = o.ok
		if o.ok {
			okVals = append(okVals, o.val)
		} else {
			allErrs = append(allErrs, o.name)
		}
	}
	sort.Strings(allErrs)
	key := fmt.Sprintf("limit=%d:n=%d", limit, n)
	var res string
	switch {
	case run.status != "ok":
		res = run.status // not reached: handled above
	case run.isOk:
		res = "ok:" + strconv.Itoa(run.val)
		member := false
		for _, v := range okVals {
			if v == run.val {
				member = true
			}
		}
		if !member {
			h.s.Violation(fmt.Sprintf("`%s`: returned success with value %d that no succeeding job produced (succeeding values %v)", line, run.val, okVals),
				"C18:result-not-allowed:"+key, h.s.Replay([]string{line}))
		}
	default:
		sorted := c18SortedCopy(run.errs)
		res = "err:[" + strings.Join(sorted, ",") + "]"
		if run.errType != "" {
			res += " type=" + run.errType
		}
		if run.val != 0 {
			res += " val=" + strconv.Itoa(run.val)
		}
		if len(okVals) > 0 {
			h.s.Violation(fmt.Sprintf("`%s`: a job succeeds (values %v) but the search returned errors %v", line, okVals, run.errs),
				"C18:result-not-allowed:"+key, h.s.Replay([]string{line}))
		} else if strings.Join(sorted, ",") != strings.Join(allErrs, ",") || run.errType != "" {
			h.s.Violation(fmt.Sprintf("`%s`: all jobs fail but the error list %v is not the complete list %v", line, run.errs, allErrs),
				"C18:result-not-allowed:"+key, h.s.Replay([]string{line}))
		}
	}
	if limit > 0 && run.maxrun > limit {
		h.s.Count("limit-exceeded")
	}
	// --- allowed set under the limit, from first principles ---
	allowed := "skip"
	if n <= 5 {
		wins := h.winners(limit, oks)
		if len(wins) == 1 && wins[0] == -1 {
			allowed = "err{" + strings.Join(allErrs, ",") + "}"
		} else {
			seen := map[int]bool{}
			var vs []int
			for _, j := range wins {
				if j >= 0 && !seen[outs[j].val] {
					seen[outs[j].val] = true
					vs = append(vs, outs[j].val)
				}
			}
			sort.Ints(vs)
			allowed = "ok{" + strings.TrimPrefix(c18JoinInts(vs), "-") + "}"
		}
	}
	out := fmt.Sprintf("res=%s eff=%s maxrun=%d allowed=%s", res, c18JoinInts(run.eff), run.maxrun, allowed)
	if run.degraded {
		out += " DEGRADED"
		h.s.Count("fs-degraded")
	}
	h.s.Op(line, out, run.status == "ok")
	h.s.Count(fmt.Sprintf("fs-n%d", n))
	if run.isOk {
		h.s.Count("fs-result-ok")
	} else {
		h.s.Count("fs-result-err")
	}
	if run.early {
		h.s.Count("fs-returned-before-all-jobs-finished")
	}
	if limit > 0 && limit < n {
		h.s.Count("fs-limit-binding")
	}
	// arrival order of the errors = release order? (statistic only; back-to-back releases may overtake each other)
	if !run.isOk && run.status == "ok" {
		inorder := true
		k := 0
		for _, j := range run.eff {
			if !outs[j].ok {
				if k >= len(run.errs) || run.errs[k] != outs[j].name {
					inorder = false
				}
				k++
			}
		}
		if inorder {
			h.s.Count("fs-errors-in-release-order")
		} else {
			h.s.Count("fs-errors-overtook")
		}
	}
}

// ---------------------------------------------------------------- find

type c18FakeHas struct {
	has bool
	err error
}

func (f c18FakeHas) Has(sig [64]byte) (bool, error) { return f.has, f.err }

func (h *c18Harness) buildIndexes() {
	dir, err := os.MkdirTemp("", "c18idx")
	if err != nil {
		h.t.Fatal(err)
	}
	c, err := cid.Prefix{Version: 1, Codec: cid.DagCBOR, MhType: 0x12 /* sha2-256 */, MhLength: -1}.Sum([]byte("c18"))
	if err != nil {
		h.t.Fatal(err)
	}
	for i := range h.sig {
		h.sig[i] = byte(i*7 + 1)
	}
	var other solana.Signature
	for i := range other {
		other[i] = byte(i*5 + 3)
	}
	mk := func(name string, sig solana.Signature) *indexes.SigToCid_Reader {
		tmp, _ := os.MkdirTemp(dir, "tmp"+name)
		dst, _ := os.MkdirTemp(dir, "dst"+name)
		w, err := indexes.NewWriter_SigToCid(7, c, indexes.NetworkMainnet, tmp, 1)
		if err != nil {
			h.t.Fatal(err)
		}
		if err := w.Put(sig, c); err != nil {
			h.t.Fatal(err)
		}
		if err := w.Seal(context.Background(), dst); err != nil {
			h.t.Fatal(err)
		}
		r, err := indexes.Open_SigToCid(w.GetFilepath())
		if err != nil {
			h.t.Fatal(err)
		}
		return r
	}
	h.idxWith = mk("with", h.sig)
	h.idxWithout = mk("without", other)
	if _, err := h.idxWith.Get(h.sig); err != nil {
		h.t.Fatalf("index self-check: %v", err)
	}
	if _, err := h.idxWithout.Get(h.sig); err == nil {
		h.t.Fatalf("index self-check: signature found in the index that must not have it")
	}
}

type c18Ep struct {
	num  uint64
	kind string
}

func c18ParseEps(s string) []c18Ep {
	if s == "-" {
		return nil
	}
	var r []c18Ep
	for _, t := range strings.Split(s, ",") {
		p := strings.SplitN(t, ":", 2)
		k, _ := strconv.ParseUint(p[0], 10, 64)
		r = append(r, c18Ep{k, p[1]})
	}
	sort.Slice(r, func(i, j int) bool { return r[i].num > r[j].num })
	return r
}

func c18ErrToken(e error) string {
	switch {
	case e == nil:
		return "nil"
	case e == ErrNotFound:
		return "nf"
	}
	m := e.Error()
	if i := strings.Index(m, "boom"); i >= 0 {
		return "he" + m[i+4:]
	}
	if i := strings.Index(m, "wrapped"); i >= 0 && errors.Is(e, ErrNotFound) {
		rest := m[i+7:]
		if j := strings.Index(rest, ":"); j >= 0 {
			rest = rest[:j]
		}
		return "hn" + rest
	}
	return "other(" + m + ")"
}

func (h *c18Harness) findOnce(limit int, eps []c18Ep, scale int) string {
	multi := NewMultiEpoch(&Options{EpochSearchConcurrency: limit})
	for _, e := range eps {
		ep := &Epoch{epoch: e.num, sigToCidIndex: h.idxWithout}
		switch e.kind {
		case "nb":
		case "hf":
			ep.sigExists = c18FakeHas{}
		case "he":
			ep.sigExists = c18FakeHas{err: fmt.Errorf("boom%d", e.num)}
		case "hn":
			ep.sigExists = c18FakeHas{err: fmt.Errorf("wrapped%d: %w", e.num, ErrNotFound)}
		case "hit":
			ep.sigExists = c18FakeHas{has: true}
			ep.sigToCidIndex = h.idxWith
		case "fp":
			ep.sigExists = c18FakeHas{has: true}
		}
		if err := multi.AddEpoch(e.num, ep); err != nil {
			panic(err)
		}
	}
	type ret struct {
		n   uint64
		err error
	}
	ch := make(chan ret, 1)
	go func() {
		n, err := multi.findEpochNumberFromSignature(context.Background(), h.sig)
		ch <- ret{n, err}
	}()
	var r ret
	select {
	case r = <-ch:
	case <-time.After(h.budget * time.Duration(scale)):
		return "no-return"
	}
	switch {
	case r.err == nil:
		return "found:" + strconv.FormatUint(r.n, 10)
	case r.err == ErrNotFound:
		return "notfound"
	}
	if es, ok := r.err.(ErrorSlice); ok {
		var toks []string
		for _, e := range es {
			toks = append(toks, c18ErrToken(e))
		}
		sort.Strings(toks)
		return "internal:[" + strings.Join(toks, ",") + "]"
	}
	return "other:" + r.err.Error()
}

func (h *c18Harness) execFind(line string, w []string) {
	limit, _ := strconv.Atoi(w[1])
	eps := c18ParseEps(w[2])
	n := len(eps)
	if n > 5 {
		h.s.Op(line, "class=skip allowed=skip", false)
		return
	}
	// job outcomes as the source states them
	oks := make([]bool, n)
	toks := make([]string, n)
	var hits []uint64
	allNF := true
	for i, e := range eps {
		switch e.kind {
		case "hit":
			oks[i] = true
			hits = append(hits, e.num)
		case "he":
			toks[i] = fmt.Sprintf("he%d", e.num)
			allNF = false
		case "hn":
			toks[i] = fmt.Sprintf("hn%d", e.num)
		default:
			toks[i] = "nf"
		}
	}
	var errToks []string
	for i := range eps {
		if !oks[i] {
			errToks = append(errToks, toks[i])
		}
	}
	sort.Strings(errToks)
	failAnswer := "internal:[" + strings.Join(errToks, ",") + "]"
	if allNF {
		failAnswer = "notfound"
	}
	// allowed answers
	var allowed []string
	if n == 1 {
		allowed = []string{fmt.Sprintf("found:%d", eps[0].num)} // single epoch: returned without searching
	} else {
		for _, j := range h.winners(limit, oks) {
			if j < 0 {
				allowed = append(allowed, failAnswer)
			} else {
				allowed = append(allowed, fmt.Sprintf("found:%d", eps[j].num))
			}
		}
		sort.Strings(allowed)
	}
	cls := fmt.Sprintf("find:%d:%d", limit, n)
	if h.skipClass(cls) {
		return
	}
	reps := 3
	answers := map[string]bool{}
	var last string
	for i := 0; i < reps; i++ {
		done, reported := h.attempts(cls, func(scale int) bool {
			last = zz.Guard(func() string { return h.findOnce(limit, eps, scale) })
			return last != "no-return"
		})
		if !done {
			if reported {
				h.s.Violation(fmt.Sprintf("search did not terminate: `%s`: findEpochNumberFromSignature did not return (3 attempts alone, the last two with 10x budget)", line),
					fmt.Sprintf("C18:no-return:find:limit=%d:n=%d", limit, n), h.s.Replay([]string{line}))
				h.s.Op(line, "no-return", false)
			}
			return
		}
		answers[last] = true
		ok := false
		for _, a := range allowed {
			if a == last {
				ok = true
			}
		}
		key := fmt.Sprintf("limit=%d:n=%d", limit, n)
		if n != 1 && !ok {
			// property-level: a hit whenever one exists; all not-found => not found; otherwise the error list
			h.s.Violation(fmt.Sprintf("`%s`: answered %s, allowed %v", line, last, allowed), "C18:find-not-allowed:"+key, h.s.Replay([]string{line}))
		}
	}
	ans := last
	if len(allowed) > 1 {
		all := true
		for a := range answers {
			if !strings.HasPrefix(a, "found:") {
				all = false
			}
		}
		if all {
			ans = "found:*"
		}
		h.s.Count("find-multiple-hits")
	} else if len(answers) > 1 {
		ans = "UNSTABLE"
		for a := range answers {
			ans += " " + a
		}
	}
	h.s.Op(line, "class="+ans+" allowed="+strings.Join(allowed, "|"), true)
	h.s.Count(fmt.Sprintf("find-n%d", n))
	switch {
	case strings.HasPrefix(ans, "found"):
		h.s.Count("find-class-found")
	case ans == "notfound":
		h.s.Count("find-class-notfound")
	default:
		h.s.Count("find-class-internal")
	}
}

// ---------------------------------------------------------------- generator

func c18Perms(n int) [][]int {
	var res [][]int
	p := make([]int, n)
	for i := range p {
		p[i] = i
	}
	var rec func(k int)
	rec = func(k int) {
		if k == n {
			res = append(res, append([]int(nil), p...))
			return
		}
		for i := k; i < n; i++ {
			p[k], p[i] = p[i], p[k]
			rec(k + 1)
			p[k], p[i] = p[i], p[k]
		}
	}
	rec(0)
	sort.Slice(res, func(a, b int) bool {
		for i := range res[a] {
			if res[a][i] != res[b][i] {
				return res[a][i] < res[b][i]
			}
		}
		return false
	})
	return res
}

func c18OutsString(n int, mask int) string {
	if n == 0 {
		return "-"
	}
	p := make([]string, n)
	for i := 0; i < n; i++ {
		if mask>>i&1 == 1 {
			p[i] = fmt.Sprintf("o%d", i+1)
		} else {
			p[i] = fmt.Sprintf("e%d", i+1)
		}
	}
	return strings.Join(p, ",")
}

func c18Generate(s *zz.Session) []string {
	rng := zz.NewRNG(zz.Seed())
	var ops []string
	limits := []int{-1, 0, 1, 2, 3, 4, 5}
	maxN := 4
	if zz.Thorough() {
		maxN = 5
	}
	// exhaustive part: all outcome vectors x all completion orders x limits
	for n := 1; n <= maxN; n++ {
		perms := c18Perms(n)
		for _, l := range limits {
			for mask := 0; mask < 1<<n; mask++ {
				for _, p := range perms {
					ops = append(ops, fmt.Sprintf("fs %d %s %s", l, c18OutsString(n, mask), c18JoinInts(p)))
				}
			}
		}
		s.Add("gen-fs-exhaustive-n"+strconv.Itoa(n), len(limits)*(1<<n)*len(perms))
	}
	if !zz.Thorough() {
		// 5 jobs: a seeded sample of (limit, outcome vector) groups with several orders each
		perms := c18Perms(5)
		for g := 0; g < 10; g++ {
			l := limits[rng.Intn(len(limits))]
			mask := rng.Intn(32)
			for k := 0; k < 24; k++ {
				ops = append(ops, fmt.Sprintf("fs %d %s %s", l, c18OutsString(5, mask), c18JoinInts(perms[rng.Intn(len(perms))])))
			}
		}
		s.Add("gen-fs-sampled-n5", 240)
	}
	// boundaries: no job at all; zero value as a success; duplicate values and error texts; unusual limits
	for _, l := range []int{-1, 0, 1} {
		ops = append(ops, fmt.Sprintf("fs %d - -", l))
	}
	for _, l := range []int{-1, 1, 2, -5, 100} {
		for _, p := range c18Perms(3) {
			ops = append(ops, fmt.Sprintf("fs %d o0,e1,o0 %s", l, c18JoinInts(p)))
			ops = append(ops, fmt.Sprintf("fs %d e9,o7,e9 %s", l, c18JoinInts(p)))
			ops = append(ops, fmt.Sprintf("fs %d e4,e4,e4 %s", l, c18JoinInts(p)))
			ops = append(ops, fmt.Sprintf("fs %d o7,o7,e1 %s", l, c18JoinInts(p)))
		}
	}
	s.Count("gen-fs-boundaries")
	// larger groups (no exhaustive exploration on the model side: allowed=skip)
	big := 40
	if zz.Thorough() {
		big = 400
	}
	for i := 0; i < big; i++ {
		n := 6 + rng.Intn(7)
		l := []int{-1, 0, 1, 2, 3, n - 1, n, n + 1, 64}[rng.Intn(9)]
		mask := 0
		switch rng.Intn(4) {
		case 0: // all fail
		case 1:
			mask = 1 << rng.Intn(n) // exactly one success
		default:
			mask = int(rng.U64() % (1 << uint(n)))
		}
		ops = append(ops, fmt.Sprintf("fs %d %s %s", l, c18OutsString(n, mask), c18JoinInts(rng.Perm(n))))
	}
	s.Add("gen-fs-large", big)

	// find: every vector of epoch kinds
	kinds := []string{"nb", "hf", "he", "hn", "hit", "fp"}
	fmax := 3
	if zz.Thorough() {
		fmax = 4
	}
	flimits := []int{-1, 1, 2, 8}
	epsString := func(n int, code int) string {
		if n == 0 {
			return "-"
		}
		p := make([]string, n)
		for i := 0; i < n; i++ {
			p[i] = fmt.Sprintf("%d:%s", 2*(n-i)+1, kinds[code%6])
			code /= 6
		}
		return strings.Join(p, ",")
	}
	pow := func(n int) int {
		r := 1
		for i := 0; i < n; i++ {
			r *= 6
		}
		return r
	}
	for n := 0; n <= fmax; n++ {
		for _, l := range flimits {
			for code := 0; code < pow(n); code++ {
				ops = append(ops, fmt.Sprintf("find %d %s", l, epsString(n, code)))
			}
		}
		s.Add("gen-find-exhaustive-n"+strconv.Itoa(n), len(flimits)*pow(n))
	}
	nf := 150
	if zz.Thorough() {
		nf = 600
	}
	for i := 0; i < nf; i++ {
		n := fmax + 1
		ops = append(ops, fmt.Sprintf("find %d %s", flimits[rng.Intn(4)], epsString(n, rng.Intn(pow(n)))))
	}
	s.Add("gen-find-sampled", nf)
	return ops
}

func TestVerifC18(t *testing.T) {
	s := zz.NewSession()
	defer s.Close()
	h := &c18Harness{s: s, t: t, winCache: map[string][]int{}, budget: 2 * time.Second,
		classHangs: map[string]int{}, suspect: map[string]bool{}}
	h.buildIndexes()
	baseline := runtime.NumGoroutine()
	var ops []string
	if rp := zz.ReplayFile(); rp != "" {
		data, err := os.ReadFile(rp)
		if err != nil {
			t.Fatal(err)
		}
		for _, l := range strings.Split(string(data), "\n") {
			l = strings.TrimSpace(l)
			if l != "" && !strings.HasPrefix(l, "#") {
				ops = append(ops, l)
			}
		}
	} else {
		ops = c18Generate(s)
	}
	for _, line := range ops {
		w := strings.Fields(line)
		switch {
		case len(w) == 4 && w[0] == "fs":
			h.execFS(line, w)
		case len(w) == 3 && w[0] == "find":
			h.execFind(line, w)
		default:
			s.Op(line, "bad-op", false)
		}
	}
	// statistic only: every goroutine of every call is gone (jobs done, closer closed the channel)
	deadline := time.Now().Add(10 * time.Second)
	if h.confirmed > 0 || len(h.suspect) > 0 {
		deadline = time.Now() // stuck calls were abandoned: their goroutines never finish
	}
	for runtime.NumGoroutine() > baseline && time.Now().Before(deadline) {
		time.Sleep(5 * time.Millisecond)
	}
	if d := runtime.NumGoroutine() - baseline; d > 0 {
		s.Add("goroutines-left-after-all-calls", d)
	} else {
		s.Count("all-goroutines-finished")
	}
}

package main

// C13 harness: truncated index / CAR files must fail loudly.
//
// One generated epoch (shared fixture epochgen_test.go) is indexed with the REAL writers (`index all`, `index gsfa`,
// blocktimeindex.Index.MarshalBinary), giving one file of every kind: the four compact-index kinds, sig-exists
// (bucketteer), slot-to-blocktime, the gsfa pubkey index / linked log / manifest, and the CAR.  For every cut
// offset chosen by the generator (all of them for small files; read boundaries ±2 and a random sample for large
// ones) the truncated copy is opened and every stored key looked up through the real readers — the mmap path the
// server uses and a plain io.ReaderAt / file path — and the answer is classified against the complete file's:
//
//	same | err | NOTFOUND | EMPTY | DIFFERENT | PANIC
//
// Op lines: `file <kind> <hex>` (the complete file, once), `get <kind> <key…>` (answer of the complete file),
// `cut <kind> <n> <key…>` / `cutload <kind> <n> <key…>` (the latter through a full NewEpochFromConfig).  The Lean
// driver runs its `Prog` reader on the first n bytes and must print the same class.  The oracle (independent of
// the model) flags NOTFOUND / EMPTY / DIFFERENT / PANIC for keys the complete file answers.

import (
	"bytes"
	"context"
	"encoding/binary"
	"encoding/hex"
	"fmt"
	"os"
	"path/filepath"
	"sort"
	"strconv"
	"strings"
	"testing"

	"github.com/cespare/xxhash/v2"
	"github.com/gagliardetto/solana-go"
	"github.com/ipfs/go-cid"
	carv2 "github.com/ipld/go-car/v2"
	"github.com/rpcpool/yellowstone-faithful/blocktimeindex"
	"github.com/rpcpool/yellowstone-faithful/bucketteer"
	"github.com/rpcpool/yellowstone-faithful/compactindexsized"
	"github.com/rpcpool/yellowstone-faithful/gsfa"
	"github.com/rpcpool/yellowstone-faithful/gsfa/linkedlog"
	hugecache "github.com/rpcpool/yellowstone-faithful/huge-cache"
	"github.com/rpcpool/yellowstone-faithful/indexes"
	"github.com/rpcpool/yellowstone-faithful/indexmeta"
	"github.com/rpcpool/yellowstone-faithful/tooling"
	zz "github.com/rpcpool/yellowstone-faithful/zzverif"
)

// ---- a ReaderAt over bytes that can record what is read ----

type c13Rac struct {
	r   *bytes.Reader
	rec *[][2]int
}

func (c c13Rac) ReadAt(p []byte, off int64) (int, error) {
	if c.rec != nil {
		*c.rec = append(*c.rec, [2]int{int(off), len(p)})
	}
	return c.r.ReadAt(p, off)
}
func (c c13Rac) Close() error { return nil }

func c13NewRac(b []byte, rec *[][2]int) c13Rac { return c13Rac{r: bytes.NewReader(b), rec: rec} }

// ---- interpreter ----

type c13Getter func(key []string) string

type c13Open struct {
	n       int
	getters []c13Getter
	closers []func()
}

func (o *c13Open) close() {
	for _, c := range o.closers {
		c()
	}
	o.closers = nil
}

type c13Interp struct {
	s        *zz.Session
	dir      string
	ctx      context.Context
	files    map[string][]byte
	paths    map[string]string // kind -> path of the (possibly truncated) working copy
	plen     map[string]int    // current length of the working copy
	full     map[string]string
	open     map[string]*c13Open
	cache    *hugecache.Cache
	le       *loadedEpoch // generation mode only: for the `cutload` ops
	caseHead []string     // `case`, `zstd`, `file` lines of the current case (for replays)
	reads    [][2]int     // reads recorded on the complete file (ReaderAt paths)
	seq      int
	nviol    map[string]int // violations reported per key (the first two carry a replay file, the rest are counted)
}

func (in *c13Interp) reset() {
	for _, o := range in.open {
		o.close()
	}
	in.files = map[string][]byte{}
	in.paths = map[string]string{}
	in.plen = map[string]int{}
	in.full = map[string]string{}
	in.open = map[string]*c13Open{}
	in.caseHead = nil
}

func c13ErrClass(err error) string {
	if compactindexsized.IsNotFound(err) {
		return "notfound"
	}
	return "err"
}

// working copy of `kind` cut to n bytes.  Every reader of the previous copy must be closed before (mmap).
func (in *c13Interp) trunc(kind string, n int) string {
	data := in.files[kind]
	p, ok := in.paths[kind]
	if !ok {
		in.seq++
		p = filepath.Join(in.dir, fmt.Sprintf("w%d-%s", in.seq, kind))
		in.paths[kind] = p
		in.plen[kind] = -1
	}
	if in.plen[kind] >= 0 && n <= in.plen[kind] {
		if n < in.plen[kind] {
			if err := os.Truncate(p, int64(n)); err != nil {
				panic(err)
			}
		}
	} else {
		if err := os.WriteFile(p, data[:n], 0o644); err != nil {
			panic(err)
		}
	}
	in.plen[kind] = n
	return p
}

// a fresh directory holding a gsfa index whose three files are cut to the given lengths (-1 = complete)
func (in *c13Interp) gsfaDir(nIdx, nLog, nMan int) string {
	in.seq++
	d := filepath.Join(in.dir, fmt.Sprintf("g%d", in.seq))
	os.MkdirAll(d, 0o755)
	w := func(name, kind string, n int) {
		data := in.files[kind]
		if n >= 0 && n <= len(data) {
			data = data[:n]
		}
		if err := os.WriteFile(filepath.Join(d, name), data, 0o644); err != nil {
			panic(err)
		}
	}
	w(string(indexes.Kind_PubkeyToOffsetAndSize)+".index", "gsfa-idx", nIdx)
	w("linked-log", "gsfa-log", nLog)
	w("manifest", "manifest", nMan)
	return d
}

// prefetch: put the reader in Prefetch(true) mode, as NewEpochFromConfig does for indexes opened over HTTP
// (cid-to-offset-and-size, slot-to-cid, sig-to-cid; the pubkey index has the same switch).
func c13CompactGetter(kind string, r indexes.ReaderAtCloser, prefetch bool) (c13Getter, func(), error) {
	switch kind {
	case "cid2oas":
		idx, err := indexes.OpenWithReader_CidToOffsetAndSize(r)
		if err != nil {
			return nil, nil, err
		}
		idx.Prefetch(prefetch)
		return func(key []string) string {
			c, err := cid.Cast(zz.Unhex(key[0]))
			if err != nil {
				return "badkey"
			}
			oas, err := idx.Get(c)
			if err != nil {
				return c13ErrClass(err)
			}
			return fmt.Sprintf("found %d %d", oas.Offset, oas.Size)
		}, func() { idx.Close() }, nil
	case "slot2cid":
		idx, err := indexes.OpenWithReader_SlotToCid(r)
		if err != nil {
			return nil, nil, err
		}
		idx.Prefetch(prefetch)
		return func(key []string) string {
			c, err := idx.Get(binary.LittleEndian.Uint64(zz.Unhex(key[0])))
			if err != nil {
				return c13ErrClass(err)
			}
			return "found " + hex.EncodeToString(c.Bytes())
		}, func() { idx.Close() }, nil
	case "sig2cid":
		idx, err := indexes.OpenWithReader_SigToCid(r)
		if err != nil {
			return nil, nil, err
		}
		idx.Prefetch(prefetch)
		return func(key []string) string {
			var sig solana.Signature
			copy(sig[:], zz.Unhex(key[0]))
			c, err := idx.Get(sig)
			if err != nil {
				return c13ErrClass(err)
			}
			return "found " + hex.EncodeToString(c.Bytes())
		}, func() { idx.Close() }, nil
	case "pubkey2oas", "gsfa-idx":
		idx, err := indexes.OpenWithReader_PubkeyToOffsetAndSize(r)
		if err != nil {
			return nil, nil, err
		}
		idx.Prefetch(prefetch)
		return func(key []string) string {
			oas, err := idx.Get(solana.PublicKeyFromBytes(zz.Unhex(key[0])))
			if err != nil {
				return c13ErrClass(err)
			}
			return fmt.Sprintf("found %d %d", oas.Offset, oas.Size)
		}, func() { idx.Close() }, nil
	}
	return nil, nil, fmt.Errorf("bad kind")
}

func c13Const(s string) c13Getter { return func([]string) string { return s } }

func c13Entries(locs []linkedlog.OffsetAndSizeAndSlot) string {
	var b strings.Builder
	for _, l := range locs {
		fmt.Fprintf(&b, "%d:%d:%d:%d,", l.Offset, l.Size, l.Slot, byte(l.Flags))
	}
	return fmt.Sprintf("n=%d h=%016x", len(locs), xxhash.Sum64String(b.String()))
}

// manifest checks exactly as NewEpochFromConfig makes them on the opened gsfa reader (epoch.go)
func c13ManifestChecks(r *gsfa.GsfaReader, wantEpoch uint64, wantRoot []byte) string {
	if r.Version() >= 2 {
		gotEpoch, ok := r.Meta().GetUint64(indexmeta.MetadataKey_Epoch)
		if !ok {
			return "err"
		}
		if gotEpoch != wantEpoch {
			return "err"
		}
		gotRoot, ok := r.Meta().GetCid(indexmeta.MetadataKey_RootCid)
		if !ok {
			return "err"
		}
		if !bytes.Equal(gotRoot.Bytes(), wantRoot) {
			return "err"
		}
		return fmt.Sprintf("found %d %s", gotEpoch, hex.EncodeToString(gotRoot.Bytes()))
	}
	return fmt.Sprintf("found %d %s", wantEpoch, hex.EncodeToString(wantRoot))
}

// openAt opens the first n bytes of the file of `kind` through every real access path.
func (in *c13Interp) openAt(kind string, n int, record bool) *c13Open {
	if o := in.open[kind]; o != nil {
		if o.n == n && !record {
			return o
		}
		o.close()
		delete(in.open, kind)
	}
	o := &c13Open{n: n}
	data := in.files[kind][:n]
	var rec *[][2]int
	if record {
		rec = &in.reads
	}
	add := func(g c13Getter, closer func()) {
		o.getters = append(o.getters, g)
		if closer != nil {
			o.closers = append(o.closers, closer)
		}
	}
	switch kind {
	case "cid2oas", "slot2cid", "sig2cid", "pubkey2oas":
		p := in.trunc(kind, n)
		for _, prefetch := range []bool{false, true} {
			// A: the server's way — openIndexStorage (mmap) + OpenWithReader_X
			if rac, err := openIndexStorage(in.ctx, p); err != nil {
				add(c13Const("err"), nil)
			} else if g, cl, err := c13CompactGetter(kind, rac, prefetch); err != nil {
				rac.Close()
				add(c13Const("err"), nil)
			} else {
				add(g, cl)
			}
			// B: plain io.ReaderAt
			if g, cl, err := c13CompactGetter(kind, c13NewRac(data, rec), prefetch); err != nil {
				add(c13Const("err"), nil)
			} else {
				add(g, cl)
			}
			if kind == "pubkey2oas" {
				// C: *os.File (what NewGsfaReader uses)
				if f, err := os.Open(p); err != nil {
					add(c13Const("err"), nil)
				} else if g, cl, err := c13CompactGetter(kind, f, prefetch); err != nil {
					f.Close()
					add(c13Const("err"), nil)
				} else {
					add(g, cl)
				}
			}
		}
	case "sigexists":
		p := in.trunc(kind, n)
		has := func(r *bucketteer.Reader) c13Getter {
			return func(key []string) string {
				var sig [64]byte
				copy(sig[:], zz.Unhex(key[0]))
				ok, err := r.Has(sig)
				if err != nil {
					return "err"
				}
				if ok {
					return "found"
				}
				return "notfound"
			}
		}
		if r, err := bucketteer.Open(p); err != nil { // A: mmap
			add(c13Const("err"), nil)
		} else {
			add(has(r), func() { r.Close() })
		}
		if r, err := bucketteer.NewReader(c13NewRac(data, rec)); err != nil { // B: ReaderAt
			add(c13Const("err"), nil)
		} else {
			add(has(r), nil)
		}
		if rac, err := openIndexStorage(in.ctx, p); err != nil { // C: the server's way
			add(c13Const("err"), nil)
		} else if r, err := bucketteer.NewReader(rac); err != nil {
			rac.Close()
			add(c13Const("err"), nil)
		} else {
			add(has(r), func() { rac.Close() })
		}
	case "blocktime":
		p := in.trunc(kind, n)
		get := func(ix *blocktimeindex.Index) c13Getter {
			return func(key []string) string {
				slot, _ := strconv.ParseUint(key[0], 10, 64)
				v, err := ix.Get(slot)
				if err != nil {
					return "err"
				}
				return fmt.Sprintf("found %d", v)
			}
		}
		if ix, err := blocktimeindex.FromFile(p); err != nil { // A
			add(c13Const("err"), nil)
		} else {
			add(get(ix), nil)
		}
		if ix, err := blocktimeindex.FromBytes(data); err != nil { // B
			add(c13Const("err"), nil)
		} else {
			add(get(ix), nil)
		}
		if len(in.files[kind]) == blocktimeindex.DefaultIndexByteSize {
			// C: the server's load path: exact-size read first
			if rac, err := openIndexStorage(in.ctx, p); err != nil {
				add(c13Const("err"), nil)
			} else {
				buf, err := ReadAllFromReaderAt(rac, uint64(blocktimeindex.DefaultIndexByteSize))
				rac.Close()
				if err != nil {
					add(c13Const("err"), nil)
				} else if ix, err := blocktimeindex.FromBytes(buf); err != nil {
					add(c13Const("err"), nil)
				} else {
					add(get(ix), nil)
				}
			}
		}
	case "linkedlog":
		p := in.trunc(kind, n)
		ll, err := linkedlog.NewLinkedLog(p)
		if err != nil {
			add(c13Const("err"), nil)
			break
		}
		add(func(key []string) string {
			off, _ := strconv.ParseUint(key[0], 10, 64)
			size, _ := strconv.ParseUint(key[1], 10, 64)
			locs, next, err := ll.ReadWithSize(off, size)
			if err != nil {
				return "err"
			}
			return fmt.Sprintf("found %s next=%d+%d", c13Entries(locs), next.Offset, next.Size)
		}, func() { ll.Close() })
	case "gsfa-idx", "gsfa-log":
		var d string
		if kind == "gsfa-idx" {
			d = in.gsfaDir(n, -1, -1)
		} else {
			d = in.gsfaDir(-1, n, -1)
		}
		r, err := gsfa.NewGsfaReader(d)
		if err != nil {
			os.RemoveAll(d)
			add(c13Const("err"), nil)
			break
		}
		add(func(key []string) string {
			locs, err := r.Get(in.ctx, solana.PublicKeyFromBytes(zz.Unhex(key[0])), 1<<30)
			if err != nil {
				return c13ErrClass(err)
			}
			return "found " + c13Entries(locs)
		}, func() { r.Close(); os.RemoveAll(d) })
	case "gsfa-man":
		// the directory with only the manifest cut: NewGsfaReader must fail or Get must answer as before
		d := in.gsfaDir(-1, -1, -1)
		if err := os.WriteFile(filepath.Join(d, "manifest"), data, 0o644); err != nil {
			panic(err)
		}
		r, err := gsfa.NewGsfaReader(d)
		if err != nil {
			os.RemoveAll(d)
			add(c13Const("err"), nil)
			break
		}
		add(func(key []string) string {
			locs, err := r.Get(in.ctx, solana.PublicKeyFromBytes(zz.Unhex(key[0])), 1<<30)
			if err != nil {
				return c13ErrClass(err)
			}
			return "found " + c13Entries(locs)
		}, func() { r.Close(); os.RemoveAll(d) })
	case "manifest":
		d := in.gsfaDir(-1, -1, n)
		r, err := gsfa.NewGsfaReader(d)
		if err != nil {
			os.RemoveAll(d)
			add(c13Const("err"), nil)
			break
		}
		add(func(key []string) string {
			e, _ := strconv.ParseUint(key[0], 10, 64)
			return c13ManifestChecks(r, e, zz.Unhex(key[1]))
		}, func() { r.Close(); os.RemoveAll(d) })
	case "car":
		p := in.trunc(kind, n)
		idx, err := indexes.OpenWithReader_CidToOffsetAndSize(c13NewRac(in.files["car-idx"], nil))
		if err != nil {
			panic("car-idx does not open: " + err.Error())
		}
		ans := func(data []byte, err error) string {
			if err != nil {
				return c13ErrClass(err)
			}
			return fmt.Sprintf("found %d %016x", len(data), xxhash.Sum64(data))
		}
		// A: local file — carv2.OpenReader + the real Epoch.GetNodeByCid
		if cr, err := carv2.OpenReader(p); err != nil {
			add(c13Const("err"), nil)
		} else {
			ep := &Epoch{config: &Config{}, allCache: in.cache, cidToOffsetAndSizeIndex: idx, localCarReader: cr}
			add(func(key []string) string {
				c, err := cid.Cast(zz.Unhex(key[0]))
				if err != nil {
					return "badkey"
				}
				return ans(ep.GetNodeByCid(in.ctx, c))
			}, func() { cr.Close() })
		}
		// B: the remote way — Epoch.GetNodeByCid over a ReaderAt (storage.go readNodeFromReaderAtWithOffsetAndSize)
		{
			ep := &Epoch{config: &Config{}, allCache: in.cache, cidToOffsetAndSizeIndex: idx, remoteCarReader: c13NewRac(data, rec)}
			add(func(key []string) string {
				c, err := cid.Cast(zz.Unhex(key[0]))
				if err != nil {
					return "badkey"
				}
				return ans(ep.GetNodeByCid(in.ctx, c))
			}, nil)
		}
	default:
		panic("bad kind " + kind)
	}
	in.open[kind] = o
	return o
}

// loadAt: a complete NewEpochFromConfig with one file of the epoch cut to n bytes (generation mode only)
func (in *c13Interp) loadAt(kind string, n int, key []string) string {
	if in.le == nil {
		return ""
	}
	in.seq++
	d := filepath.Join(in.dir, fmt.Sprintf("l%d", in.seq))
	os.MkdirAll(d, 0o755)
	defer os.RemoveAll(d)
	le2 := *in.le
	le2.Cache = in.cache
	le2.Ep = nil
	switch kind {
	case "manifest":
		le2.GsfaDir = in.gsfaDir(-1, -1, n)
		defer os.RemoveAll(le2.GsfaDir)
	case "car":
		g2 := *in.le.G
		g2.Car = filepath.Join(d, "cut.car")
		if err := os.WriteFile(g2.Car, in.files["car"][:n], 0o644); err != nil {
			panic(err)
		}
		le2.G = &g2
	default:
		return ""
	}
	if err := le2.load(d); err != nil {
		return "err"
	}
	defer le2.Ep.Close()
	switch kind {
	case "manifest":
		e, _ := strconv.ParseUint(key[0], 10, 64)
		return c13ManifestChecks(le2.Ep.gsfaReader, e, zz.Unhex(key[1]))
	case "car":
		c, err := cid.Cast(zz.Unhex(key[0]))
		if err != nil {
			return "badkey"
		}
		data, err := le2.Ep.GetNodeByCid(in.ctx, c)
		if err != nil {
			return c13ErrClass(err)
		}
		return fmt.Sprintf("found %d %016x", len(data), xxhash.Sum64(data))
	}
	return ""
}

func c13Class(full, got string) string {
	switch {
	case got == full:
		return "same"
	case got == "err":
		return "err"
	case got == "panic":
		return "PANIC"
	case got == "notfound":
		return "NOTFOUND"
	case strings.HasPrefix(got, "found n=0 ") && !strings.HasPrefix(full, "found n=0 "):
		return "EMPTY"
	}
	return "DIFFERENT"
}

func (in *c13Interp) replayOf(last ...string) string {
	return in.s.Replay(append(append([]string{}, in.caseHead...), last...))
}

func (in *c13Interp) exec(line string) string {
	w := strings.Fields(line)
	switch w[0] {
	case "case":
		in.reset()
		in.caseHead = []string{line}
		return "ok"
	case "zstd":
		in.caseHead = append(in.caseHead, line)
		return "ok"
	case "file":
		for _, o := range in.open {
			o.close()
		}
		in.open = map[string]*c13Open{}
		in.files[w[1]] = zz.Unhex(w[2])
		delete(in.paths, w[1])
		in.caseHead = append(in.caseHead, line)
		return fmt.Sprintf("file %s %d", w[1], len(in.files[w[1]]))
	case "get", "getrec":
		kind := w[1]
		data, ok := in.files[kind]
		if !ok {
			return "nofile"
		}
		o := in.openAt(kind, len(data), w[0] == "getrec")
		var answers []string
		for _, g := range o.getters {
			answers = append(answers, zz.Guard(func() string { return g(w[2:]) }))
		}
		if w[0] == "getrec" {
			o.close()
			delete(in.open, kind)
		}
		for _, a := range answers[1:] {
			if a != answers[0] {
				in.s.Violation(fmt.Sprintf("the access paths answer differently on the COMPLETE %s file: %v", kind, answers),
					"C13:"+kind+":paths-disagree-full", in.replayOf(line))
				return "PATHS-DISAGREE:" + strings.Join(answers, "/")
			}
		}
		in.full[kind+" "+strings.Join(w[2:], " ")] = answers[0]
		return answers[0]
	case "cut", "cutload":
		kind := w[1]
		data, ok := in.files[kind]
		if !ok {
			return "nofile"
		}
		n, err := strconv.Atoi(w[2])
		if err != nil || n < 0 || n > len(data) {
			return "bad-cut"
		}
		key := w[3:]
		full, ok := in.full[kind+" "+strings.Join(key, " ")]
		if !ok {
			return "no-full-answer"
		}
		var classes []string
		if w[0] == "cutload" && in.le != nil {
			classes = append(classes, c13Class(full, zz.Guard(func() string { return in.loadAt(kind, n, key) })))
		} else {
			o := in.openAt(kind, n, false)
			for _, g := range o.getters {
				first := c13Class(full, zz.Guard(func() string { return g(key) }))
				// the same lookup again on the same open reader: a reader that remembers a failed read must not turn the
				// error into an answer the second time
				again := c13Class(full, zz.Guard(func() string { return g(key) }))
				if again != first {
					in.s.Count("repeat-lookup-differs")
					first = first + "|repeat:" + again
				}
				classes = append(classes, first)
			}
		}
		res := classes[0]
		for _, c := range classes[1:] {
			if c != res {
				res = "PATHS-DISAGREE:" + strings.Join(classes, "/")
				break
			}
		}
		in.s.Count("class-" + strings.SplitN(res, ":", 2)[0])
		if strings.HasPrefix(full, "found") {
			// the oracle: a key the complete file answers must get the same answer or an error
			for pi, c := range classes {
				rep := ""
				if i := strings.Index(c, "|repeat:"); i >= 0 {
					// first and second answer of the same reader differ: judge the offending one
					a, b := c[:i], c[i+len("|repeat:"):]
					c, rep = a, ":on-repeat"
					if a == "same" || a == "err" {
						c = b
					} else {
						rep = ""
					}
				}
				if c == "same" || c == "err" {
					continue
				}
				vkey := "C13:" + kind + rep + ":" + map[string]string{"NOTFOUND": "notfound-after-cut", "EMPTY": "empty-after-cut", "DIFFERENT": "different-after-cut", "PANIC": "panic-after-cut"}[c]
				if in.nviol == nil {
					in.nviol = map[string]int{}
				}
				in.nviol[vkey]++
				in.s.Count("oracle-" + vkey)
				if in.nviol[vkey] <= 2 {
					in.s.Violation(fmt.Sprintf("%s file cut at byte %d of %d: key %s — complete file answers %q, the truncated copy (access path #%d) answers %s instead of the same value or an error",
						kind, n, len(data), strings.Join(key, " "), full, pi, c),
						vkey, in.replayOf("get "+kind+" "+strings.Join(key, " "), line))
				}
				break
			}
		}
		return res
	}
	return "bad-op"
}

// ---- generator ----

type c13Gen struct {
	in       *c13Interp
	rng      *zz.RNG
	thorough bool
}

func (g *c13Gen) do(line string) string {
	out := g.in.exec(line)
	g.in.s.Op(line, out, out == "same" || strings.HasPrefix(out, "found") || strings.HasPrefix(out, "file"))
	return out
}

// cuts: every offset for files up to `exhaustLimit` bytes; otherwise 0, 1, the read boundaries ±2, the end, and a
// random sample.  Returned in descending order (the working copy is truncated step by step).
func (g *c13Gen) cuts(kind string, size int, bounds []int, exhaustLimit, nRandom int) []int {
	set := map[int]bool{}
	if size <= exhaustLimit {
		for i := 0; i <= size; i++ {
			set[i] = true
		}
		g.in.s.Count("files-cut-exhaustively")
		g.in.s.Add("cuts-exhaustive", size+1)
	} else {
		// the bounds come from the reads the tree under test makes: a reader that fetches a bucket in one large read has
		// no boundary inside the bucket, so for the sig-exists file (4-byte count, 8-byte hashes) the window after each
		// boundary also covers the count and the first hash whatever the read pattern
		hi := 2
		if kind == "sigexists" {
			hi = 13
		}
		for _, b := range append([]int{0, 1, size - 1, size}, bounds...) {
			for d := -2; d <= hi; d++ {
				if b+d >= 0 && b+d <= size {
					set[b+d] = true
				}
			}
		}
		for i := 0; i < nRandom; i++ {
			set[g.rng.Intn(size+1)] = true
		}
		g.in.s.Count("files-cut-at-boundaries-and-sample")
		g.in.s.Add("cuts-sampled", len(set))
	}
	out := make([]int, 0, len(set))
	for c := range set {
		out = append(out, c)
	}
	sort.Sort(sort.Reverse(sort.IntSlice(out)))
	g.in.s.Count("kind-" + kind)
	return out
}

func c13Bounds(reads [][2]int) []int {
	var b []int
	for _, r := range reads {
		b = append(b, r[0], r[0]+r[1])
	}
	return b
}

// oneKind: file line, the complete file's answers (recording what is read), then every cut × every key
func (g *c13Gen) oneKind(kind string, data []byte, keys [][]string, maxKeys, exhaustLimit, nRandom int, extraBounds []int, loadCuts bool) {
	if len(data) == 0 {
		return
	}
	g.do("file " + kind + " " + zz.Hex(data))
	g.in.reads = nil
	if len(keys) > maxKeys {
		// keep the first and last stored keys, the absent key (last in the list) and a random sample of the others
		perm := g.rng.Perm(len(keys))
		pick := map[int]bool{0: true, len(keys) - 2: true, len(keys) - 1: true}
		for _, i := range perm {
			if len(pick) >= maxKeys {
				break
			}
			pick[i] = true
		}
		var sel [][]string
		for i, k := range keys {
			if pick[i] {
				sel = append(sel, k)
			}
		}
		g.in.s.Add("keys-not-sampled-"+kind, len(keys)-len(sel))
		keys = sel
	}
	var live [][]string
	for _, k := range keys {
		r := g.do("getrec " + kind + " " + strings.Join(k, " "))
		// (an absent CID never makes GetNodeByCid touch the CAR: only stored keys for that kind)
		if strings.HasPrefix(r, "found") || (r == "notfound" && kind != "car") {
			live = append(live, k)
		}
		if strings.HasPrefix(r, "found") {
			g.in.s.Count("stored-keys-" + kind)
		}
	}
	bounds := append(c13Bounds(g.in.reads), extraBounds...)
	cuts := g.cuts(kind, len(data), bounds, exhaustLimit, nRandom)
	for _, n := range cuts {
		for _, k := range live {
			g.do(fmt.Sprintf("cut %s %d %s", kind, n, strings.Join(k, " ")))
		}
	}
	if loadCuts && g.in.le != nil {
		// the same question through a complete NewEpochFromConfig, at the boundaries only
		lc := map[int]bool{}
		for _, b := range append([]int{0, 1, len(data) - 1, len(data)}, extraBounds...) {
			for d := -1; d <= 1; d++ {
				if b+d >= 0 && b+d <= len(data) {
					lc[b+d] = true
				}
			}
		}
		var l []int
		for c := range lc {
			l = append(l, c)
		}
		sort.Ints(l)
		for _, n := range l {
			for i, k := range live {
				if i >= 3 {
					break
				}
				g.do(fmt.Sprintf("cutload %s %d %s", kind, n, strings.Join(k, " ")))
			}
		}
	}
}

// records of a linked log: (offset, total size, compressed bytes, width of the length prefix)
type c13Rec struct {
	off, size int
	comp      []byte
	w         int
}

func c13LogRecords(log []byte) []c13Rec {
	var out []c13Rec
	off := 0
	for off < len(log) {
		l, n := binary.Uvarint(log[off:])
		if n <= 0 || l < 9 || off+n+int(l) > len(log) {
			break
		}
		out = append(out, c13Rec{off: off, size: n + int(l), comp: log[off+n : off+n+int(l)-9], w: n})
		off += n + int(l)
	}
	return out
}

// c13RecordReadable: does the real reader return this record from the complete log?
func c13RecordReadable(dir string, log []byte, r c13Rec) bool {
	p := filepath.Join(dir, "probe-linked-log")
	if err := os.WriteFile(p, log, 0o644); err != nil {
		panic(err)
	}
	defer os.Remove(p)
	ll, err := linkedlog.NewLinkedLog(p)
	if err != nil {
		return false
	}
	defer ll.Close()
	ok := zz.Guard(func() string {
		if _, _, err := ll.ReadWithSize(uint64(r.off), uint64(r.size)); err != nil {
			return "err"
		}
		return "ok"
	})
	return ok == "ok"
}

func c13UvarintLen(v uint64) int {
	return binary.PutUvarint(make([]byte, binary.MaxVarintLen64), v)
}

func (g *c13Gen) epochCase(name string, o genOpts, maxKeys, exhaustLimit, nRandom int) {
	in := g.in
	cdir := filepath.Join(in.dir, name)
	os.MkdirAll(cdir, 0o755)
	defer os.RemoveAll(cdir)
	ge := genEpoch(g.rng, cdir, o)
	le, err := buildIndexes(ge, cdir, true)
	if err != nil {
		in.s.Violation("indexing a well-formed generated CAR failed: "+err.Error(), "C13:fixture-failed", "")
		return
	}
	le.Cache = in.cache
	if err := le.load(cdir); err != nil {
		in.s.Violation("generated epoch does not load: "+err.Error(), "C13:fixture-failed", "")
		return
	}
	defer le.Ep.Close()
	g.do(fmt.Sprintf("case %s epoch=%d blocks=%d objs=%d carbytes=%d", name, o.Epoch, len(ge.Blocks), len(ge.Objs), len(ge.CarData)))
	in.le = le
	defer func() { in.le = nil }()
	rd := func(p string) []byte {
		b, err := os.ReadFile(p)
		if err != nil {
			panic(err)
		}
		return b
	}
	absent := func(n int) string { return zz.Hex(g.rng.Bytes(n)) }

	// the four compact-index kinds
	var cidKeys, slotKeys, sigKeys [][]string
	for _, ob := range ge.Objs {
		cidKeys = append(cidKeys, []string{zz.Hex(ob.Cid.Bytes())})
	}
	cidKeys = append(cidKeys, []string{zz.Hex(mkCid(g.rng.Bytes(20)).Bytes())}) // an absent key
	for _, b := range ge.Blocks {
		slotKeys = append(slotKeys, []string{zz.Hex(indexes.Uint64tob(b.Slot))})
		for _, tx := range b.Txs {
			sigKeys = append(sigKeys, []string{zz.Hex(tx.Sig[:])})
		}
	}
	slotKeys = append(slotKeys, []string{zz.Hex(indexes.Uint64tob(ge.Blocks[len(ge.Blocks)-1].Slot + 7))})
	sigKeys = append(sigKeys, []string{absent(64)})
	cidIdx := rd(le.Paths.CidToOffsetAndSize)
	g.oneKind("cid2oas", cidIdx, cidKeys, maxKeys, exhaustLimit, nRandom, nil, false)
	g.oneKind("slot2cid", rd(le.Paths.SlotToCid), slotKeys, maxKeys, exhaustLimit, nRandom, nil, false)
	g.oneKind("sig2cid", rd(le.Paths.SignatureToCid), sigKeys, maxKeys, exhaustLimit, nRandom, nil, false)

	// sig-exists: at least 900 KB whatever the content (65 536-entry offset table): boundaries and a sample
	nSig, nSigRandom := 4, 10
	if g.thorough {
		nSig, nSigRandom = 16, 200
	}
	g.oneKind("sigexists", rd(le.Paths.SignatureExists), sigKeys, nSig, 0, nSigRandom, nil, false)

	// slot-to-blocktime as `index all` wrote it (real size): header field boundaries, the entries of the keys, the end
	{
		var keys [][]string
		var bounds []int
		first := o.Epoch * 432000
		for i, b := range ge.Blocks {
			if i < 2 || i == len(ge.Blocks)-1 {
				keys = append(keys, []string{fmt.Sprint(b.Slot)})
				bounds = append(bounds, 46+4*int(b.Slot-first), 46+4*int(b.Slot-first)+4)
			}
		}
		keys = append(keys, []string{fmt.Sprint(first + 431999)})
		bounds = append(bounds, 14, 22, 30, 38, 46)
		nr := 12
		if g.thorough {
			nr = 60
		}
		g.oneKind("blocktime", rd(le.Paths.SlotToBlocktime), keys, 8, 0, nr, bounds, false)
	}

	// gsfa: pubkey index, linked log, manifest — as single files and as a directory through NewGsfaReader
	gidx := rd(filepath.Join(le.GsfaDir, string(indexes.Kind_PubkeyToOffsetAndSize)+".index"))
	glog := rd(filepath.Join(le.GsfaDir, "linked-log"))
	gman := rd(filepath.Join(le.GsfaDir, "manifest"))
	seen := map[string]bool{}
	var pkKeys [][]string
	for _, b := range ge.Blocks {
		for _, tx := range b.Txs {
			for _, a := range append(append([]solana.PublicKey{}, tx.Accounts...), tx.Loaded...) {
				if !seen[string(a[:])] {
					seen[string(a[:])] = true
					pkKeys = append(pkKeys, []string{zz.Hex(a[:])})
				}
			}
		}
	}
	pkKeys = append(pkKeys, []string{absent(32)})
	g.oneKind("pubkey2oas", gidx, pkKeys, maxKeys, exhaustLimit, nRandom, nil, false)
	recs := c13LogRecords(glog)
	ambiguous := false
	var recKeys [][]string
	var recBounds []int
	for _, r := range recs {
		raw, err := tooling.DecompressZstd(r.comp)
		if err != nil {
			panic("fixture: linked-log record does not decompress: " + err.Error())
		}
		g.do("zstd " + zz.Hex(r.comp) + " " + zz.Hex(raw))
		if c13UvarintLen(uint64(r.size)) != r.w && !c13RecordReadable(in.dir, glog, r) {
			// a tree without the C06 repair derives the prefix width from the total size and cannot read this record
			// even from the complete file: leave it to C06, here it would only blur the truncation classes
			ambiguous = true
			in.s.Count("linkedlog-records-skipped-unreadable-in-complete-file")
			continue
		}
		if c13UvarintLen(uint64(r.size)) != r.w {
			in.s.Count("linkedlog-records-with-wider-total-than-prefix")
		}
		recKeys = append(recKeys, []string{fmt.Sprint(r.off), fmt.Sprint(r.size)})
		recBounds = append(recBounds, r.off, r.off+r.size)
	}
	g.oneKind("linkedlog", glog, recKeys, maxKeys, exhaustLimit, nRandom, recBounds, false)
	if !ambiguous {
		g.do("file gsfa-idx " + zz.Hex(gidx))
		g.do("file gsfa-log " + zz.Hex(glog))
		g.do("file manifest " + zz.Hex(gman))
		g.do("file gsfa-man " + zz.Hex(gman))
		var live [][]string
		for _, k := range pkKeys {
			r := g.do("get gsfa-idx " + k[0])
			g.do("get gsfa-log " + k[0])
			g.do("get gsfa-man " + k[0])
			if strings.HasPrefix(r, "found") || r == "notfound" {
				live = append(live, k)
			}
		}
		if len(live) > maxKeys {
			live = append(live[:maxKeys-1], live[len(live)-1])
		}
		// directory level: NewGsfaReader costs a 12 MiB buffer per open; boundaries + sample unless thorough
		lim := 0
		if g.thorough {
			lim = exhaustLimit
		}
		in.reads = nil
		for _, k := range live { // read boundaries of the index part
			if rac, cl, err := c13CompactGetter("gsfa-idx", c13NewRac(gidx, &in.reads), false); err == nil {
				rac(k)
				cl()
			}
		}
		for _, n := range g.cuts("gsfa-idx", len(gidx), c13Bounds(in.reads), lim, nRandom) {
			for _, k := range live {
				g.do(fmt.Sprintf("cut gsfa-idx %d %s", n, k[0]))
			}
		}
		for _, n := range g.cuts("gsfa-log", len(glog), recBounds, lim, nRandom) {
			for _, k := range live {
				g.do(fmt.Sprintf("cut gsfa-log %d %s", n, k[0]))
			}
		}
		// manifest: what the epoch loader asks of it (epoch, root CID); every offset, and the boundaries through a
		// complete NewEpochFromConfig
		mk := [][]string{{fmt.Sprint(o.Epoch), zz.Hex(ge.Root.Bytes())}}
		for _, k := range mk {
			g.do("get manifest " + strings.Join(k, " "))
		}
		for _, n := range g.cuts("manifest", len(gman), nil, 1<<20, 0) {
			g.do(fmt.Sprintf("cut manifest %d %s", n, strings.Join(mk[0], " ")))
			for i, k := range live {
				if i < 2 || i == len(live)-1 {
					g.do(fmt.Sprintf("cut gsfa-man %d %s", n, k[0]))
				}
			}
		}
		for _, n := range []int{0, 1, 7, 8, 9, 15, 16, 17, len(gman) - 17, len(gman) - 16, len(gman) - 15, len(gman) - 1, len(gman)} {
			if n >= 0 && n <= len(gman) {
				g.do(fmt.Sprintf("cutload manifest %d %s", n, strings.Join(mk[0], " ")))
			}
		}
	} else {
		in.s.Count("gsfa-directory-skipped-unreadable-record")
	}

	// CAR: every archived object through Epoch.GetNodeByCid (local file and ReaderAt); section boundaries come from
	// the recorded reads; a few cuts also through a complete NewEpochFromConfig
	g.do("file car-idx " + zz.Hex(cidIdx))
	var objBounds []int
	objBounds = append(objBounds, int(ge.HdrLen))
	g.oneKind("car", ge.CarData, cidKeys, maxKeys, exhaustLimit, nRandom, objBounds, true)
}

// blocktime files written with the public writer API: a small capacity (every offset) and the real size with the
// LAST slot of the epoch set (the slot whose entry is the end of the file)
func (g *c13Gen) blocktimeCases() {
	{
		epoch := uint64(3 + g.rng.Intn(500))
		capN := 20 + g.rng.Intn(30)
		start := epoch * 432000
		ix := blocktimeindex.NewIndexer(start, start+uint64(capN)-1, uint64(capN))
		var keys [][]string
		for i := 0; i < capN; i++ {
			if i%3 != 1 {
				ix.Set(start+uint64(i), int64(1600000000+g.rng.Intn(1<<28)))
			}
			if i < 3 || i >= capN-3 || i%7 == 0 {
				keys = append(keys, []string{fmt.Sprint(start + uint64(i))})
			}
		}
		data, err := ix.MarshalBinary()
		if err != nil {
			panic(err)
		}
		g.do(fmt.Sprintf("case blocktime-small epoch=%d capacity=%d", epoch, capN))
		g.oneKind("blocktime", data, keys, 64, 1<<20, 0, nil, false)
	}
	{
		epoch := uint64(3 + g.rng.Intn(500))
		start := epoch * 432000
		ix := blocktimeindex.NewForEpoch(epoch)
		slots := []uint64{start, start + 1, start + 215999, start + 431998, start + 431999}
		var keys [][]string
		bounds := []int{14, 22, 30, 38, 46}
		for _, s := range slots {
			ix.Set(s, int64(1600000000+g.rng.Intn(1<<28)))
			keys = append(keys, []string{fmt.Sprint(s)})
			bounds = append(bounds, 46+4*int(s-start), 46+4*int(s-start)+4)
		}
		data, err := ix.MarshalBinary()
		if err != nil {
			panic(err)
		}
		g.do(fmt.Sprintf("case blocktime-full-size epoch=%d last-slot-set", epoch))
		nr := 10
		if g.thorough {
			nr = 80
		}
		g.oneKind("blocktime", data, keys, 8, 0, nr, bounds, false)
	}
}

func (g *c13Gen) generate() {
	g.blocktimeCases()
	if !g.thorough {
		g.epochCase("tiny", genOpts{Epoch: uint64(2 + g.rng.Intn(300)), NBlocks: 8, MaxTx: 3, SkipPct: 30, FramePct: 30, LoadedPct: 30, NKeys: 5}, 6, 10000, 40)
		return
	}
	g.epochCase("tiny", genOpts{Epoch: uint64(2 + g.rng.Intn(300)), NBlocks: 8, MaxTx: 3, SkipPct: 30, FramePct: 30, LoadedPct: 30, NKeys: 5}, 1<<30, 1<<16, 40)
	g.epochCase("frames", genOpts{Epoch: uint64(2 + g.rng.Intn(300)), NBlocks: 6, MaxTx: 3, SkipPct: 50, FramePct: 60, BigPct: 10, LoadedPct: 30, NKeys: 6}, 12, 6000, 100)
	g.epochCase("large", genOpts{Epoch: uint64(2 + g.rng.Intn(300)), NBlocks: 400, MaxTx: 3, SkipPct: 40, FramePct: 5, NKeys: 12}, 30, 0, 300)
	// more than 10 000 objects: the cid index has two buckets
	g.epochCase("two-buckets", genOpts{Epoch: uint64(2 + g.rng.Intn(300)), NBlocks: 3500, MaxTx: 1, SkipPct: 10, NKeys: 8}, 24, 0, 200)
}

func TestVerifC13(t *testing.T) {
	s := zz.NewSession()
	defer s.Close()
	dir, err := os.MkdirTemp("", "verif-c13-")
	if err != nil {
		t.Fatal(err)
	}
	defer os.RemoveAll(dir)
	in := &c13Interp{s: s, dir: dir, ctx: context.Background(), cache: newVerifCache()}
	in.reset()
	defer in.reset()
	if rp := zz.ReplayFile(); rp != "" {
		data, err := os.ReadFile(rp)
		if err != nil {
			t.Fatal(err)
		}
		for _, op := range strings.Split(strings.TrimSpace(string(data)), "\n") {
			if strings.HasPrefix(op, "#") || strings.TrimSpace(op) == "" {
				continue
			}
			out := in.exec(op)
			s.Op(op, out, out == "same" || strings.HasPrefix(out, "found"))
		}
		return
	}
	g := &c13Gen{in: in, rng: zz.NewRNG(zz.Seed()), thorough: zz.Thorough()}
	g.generate()
}

package indexmeta

// C12 harness for the index metadata codec (injected by /verif/check with `go test -overlay`; nothing is written to /repo).
//
//	meta <bytes hex> <key hex>   Meta.UnmarshalBinary(bytes) — and the same bytes through UnmarshalWithDecoder over a
//	                             bufio.Reader (the path of gsfa/manifest) —, then every accessor on every stored key,
//	                             then GetUint64(key).   Answer: err | ok none | ok <uint64>
//
// Valid encodings come from the real Add*/Bytes; then the count and every length byte is set to 0, 1, max and
// inconsistent values, plus single-byte mutations, truncations and random bytes.

import (
	"bufio"
	"bytes"
	"fmt"
	"strings"
	"testing"

	"github.com/ipfs/go-cid"
	c12 "github.com/rpcpool/yellowstone-faithful/zzc12"
	zz "github.com/rpcpool/yellowstone-faithful/zzverif"
)

func c12ExecMeta(op string) string {
	w := strings.Fields(op)
	switch w[0] {
	case "meta":
		data, key := zz.Unhex(w[1]), zz.Unhex(w[2])
		var m Meta
		err := m.UnmarshalBinary(data)
		if len(data) > 0 {
			var m2 Meta
			err2 := m2.UnmarshalWithDecoder(bufio.NewReader(bytes.NewReader(data)))
			if (err == nil) != (err2 == nil) || (err == nil && !bytes.Equal(m.Bytes(), m2.Bytes())) {
				return "DECODERS-DISAGREE"
			}
		}
		if err != nil {
			return "err"
		}
		keys := [][]byte{MetadataKey_Kind, MetadataKey_Epoch, MetadataKey_RootCid, MetadataKey_Network, key, nil}
		for _, kv := range m.KeyVals {
			keys = append(keys, kv.Key)
		}
		for _, k := range keys {
			m.Get(k)
			m.GetUint64(k)
			m.GetCid(k)
			m.GetString(k)
			m.GetAll(k)
			m.Count(k)
			m.ReadFirst(k, make([]byte, 3))
		}
		m.HasDuplicateKeys()
		m.Bytes()
		v, ok := m.GetUint64(key)
		if !ok {
			return "ok none"
		}
		return fmt.Sprintf("ok %d", v)
	}
	return "bad-op"
}

func c12GenMeta(rng *zz.RNG, s *zz.Session, thorough bool) []string {
	var ops []string
	c, _ := cid.Decode("bafyreigh2akiscaildcqabsyg3dfr6chu3fgpregiymsck7e7aqa4s52zy")
	build := func(n int) (Meta, []c12.Field) {
		var m Meta
		for i := 0; i < n; i++ {
			switch i % 5 {
			case 0:
				m.AddUint64(MetadataKey_Epoch, rng.U64())
			case 1:
				m.AddCid(MetadataKey_RootCid, c)
			case 2:
				m.AddString(MetadataKey_Network, "mainnet")
			case 3:
				m.Add(rng.Bytes(rng.Intn(9)), rng.Bytes(rng.Intn(9))) // short values: GetUint64 must cope
			default:
				m.Add(rng.Bytes(1+rng.Intn(255)), rng.Bytes(rng.Intn(256)))
			}
		}
		fields := []c12.Field{{Name: "count", Off: 0, Width: 1}}
		off := 1
		for i, kv := range m.KeyVals {
			if i < 4 || i == len(m.KeyVals)-1 {
				fields = append(fields, c12.Field{Name: fmt.Sprintf("keyLen%d", i), Off: off, Width: 1},
					c12.Field{Name: fmt.Sprintf("valLen%d", i), Off: off + 1 + len(kv.Key), Width: 1})
			}
			off += 2 + len(kv.Key) + len(kv.Value)
		}
		return m, fields
	}
	sizes := []int{0, 1, 2, 4, 5, 9}
	if thorough {
		sizes = append(sizes, 40, 255)
	}
	for _, n := range sizes {
		m, fields := build(n)
		data := m.Bytes()
		nb, nr := 120, 40
		if thorough {
			nb, nr = 500, 300
		}
		for mi, mu := range c12.Mutate(rng, data, fields, nb, nr, s.Count) {
			key := MetadataKey_Epoch
			if len(m.KeyVals) > 0 && mi%3 != 0 {
				key = m.KeyVals[mi%len(m.KeyVals)].Key
			}
			ops = append(ops, "meta "+zz.Hex(mu.Data)+" "+zz.Hex(key))
		}
		s.Count("valid-files")
	}
	// values of every length 0..9 under the key that is read with GetUint64
	for l := 0; l <= 9; l++ {
		var m Meta
		m.Add(MetadataKey_Epoch, rng.Bytes(l))
		ops = append(ops, "meta "+zz.Hex(m.Bytes())+" "+zz.Hex(MetadataKey_Epoch))
		s.Count("boundary:uint64-value-length")
	}
	ops = append(ops, "meta - 00", "meta 00 -", "meta ff -", "meta 0100ff -", "meta 01ff00 -")
	return ops
}

func TestVerifC12(t *testing.T) {
	if c12.IsChild() {
		c12.Serve(c12ExecMeta)
		return
	}
	r := c12.NewRun("TestVerifC12")
	defer r.Close()
	r.Print = func(op string, res c12.Result) string {
		if res.Class == "ok" || res.Class == "err" {
			return res.Answer
		}
		return res.Class
	}
	ops := c12.ReplayOps()
	if ops == nil {
		ops = c12GenMeta(zz.NewRNG(zz.Seed()), r.S, zz.Thorough())
	}
	for _, op := range ops {
		r.Exec(op)
	}
}

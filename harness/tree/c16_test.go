package main

// C16 harness, part 2 (injected by /verif/check with `go test -overlay`; nothing is written to /repo).
// The real `split-car` command on generated epoch CARs, at every target size at which the rollover rule can
// change its mind; the written pieces and epoch-N-metadata.yaml are judged by an oracle that parses the CARs
// itself, and fed back through the real NewSplitCarReader.  Answers are diffed with the Lean model
// (SplitCar.splitCmd / SplitCar.newReader / Reader.readAt in Driver/C16.lean).

import (
	"bytes"
	"context"
	"encoding/base64"
	"encoding/binary"
	"encoding/csv"
	"flag"
	"fmt"
	"io"
	"os"
	"path/filepath"
	"sort"
	"strconv"
	"strings"
	"testing"

	"github.com/anjor/carlet"
	"github.com/cespare/xxhash/v2"
	"github.com/ipfs/go-cid"
	carv1 "github.com/ipld/go-car"
	"github.com/ipld/go-car/util"
	"github.com/ipld/go-ipld-prime/datamodel"
	cidlink "github.com/ipld/go-ipld-prime/linking/cid"
	"github.com/multiformats/go-multicodec"
	"github.com/rpcpool/yellowstone-faithful/ipld/ipldbindcode"
	splitcarfetcher "github.com/rpcpool/yellowstone-faithful/split-car-fetcher"
	zz "github.com/rpcpool/yellowstone-faithful/zzverif"
	"github.com/urfave/cli/v2"
	"k8s.io/klog/v2"
)

// ---------- epoch CAR generator ----------

type c16Params struct {
	seed        uint64
	nBlocks     int
	maxTx       int
	subsetEvery int // a Subset node after every k blocks (0: one at the end)
	big         int // 1: some transactions of 20..40 KB (3-byte section length prefix), rewards and dataframe nodes
	//             2: block b also holds a dataframe whose section payload (cid+data) is c16Boundary[b%len] bytes
	//             3: as 2, including the 2^21 boundary
}

func (p c16Params) id() string {
	return fmt.Sprintf("id=%d/%d/%d/%d/%d", p.seed, p.nBlocks, p.maxTx, p.subsetEvery, p.big)
}

func c16ParseID(s string) (p c16Params, ok bool) {
	n, err := fmt.Sscanf(s, "id=%d/%d/%d/%d/%d", &p.seed, &p.nBlocks, &p.maxTx, &p.subsetEvery, &p.big)
	return p, err == nil && n == 5
}

type c16Epoch struct {
	params c16Params
	epoch  int
	car    []byte
	path   string
}

func c16pp[T any](v T) **T { p := &v; return &p }

func c16Cid(data []byte) cid.Cid {
	bd := cid.V1Builder{MhLength: -1, MhType: uint64(multicodec.Sha2_256), Codec: uint64(multicodec.DagCbor)}
	c, err := bd.Sum(data)
	if err != nil {
		panic(err)
	}
	return c
}

type c16CarW struct{ buf bytes.Buffer }

func (w *c16CarW) put(data []byte, err error) cid.Cid {
	if err != nil {
		panic(err)
	}
	c := c16Cid(data)
	if err := util.LdWrite(&w.buf, c.Bytes(), data); err != nil {
		panic(err)
	}
	return c
}

// section payload lengths (len(cid)+len(data)) on and around the points where the uvarint length prefix grows
var c16Boundary = []int{126, 127, 128, 129, 130, 255, 256, 16382, 16383, 16384, 16385, 16511, 16512}
var c16BoundaryBig = []int{2097151, 2097152, 2097153}

// c16ExactFrame returns an encoded DataFrame node of exactly `want` bytes: the data length is tuned, and the
// width of the hash field is varied to step over the sizes a CBOR length-header jump makes unreachable.
func c16ExactFrame(rng *zz.RNG, want int) []byte {
	for _, hash := range []int{5, 200, 70000, 1 << 33} {
		n := want - 16
		if n < 0 {
			n = 0
		}
		for tries := 0; tries < 16; tries++ {
			df := ipldbindcode.DataFrame{Kind: 6, Hash: c16pp(hash), Index: c16pp(0), Total: c16pp(1), Data: rng.Bytes(n)}
			enc, err := df.MarshalCBOR()
			if err != nil {
				panic(err)
			}
			if len(enc) == want {
				return enc
			}
			n += want - len(enc)
			if n < 0 {
				n = 0
			}
		}
	}
	panic(fmt.Sprintf("c16ExactFrame: cannot reach %d bytes", want))
}

func c16GenEpoch(p c16Params, dir string) *c16Epoch {
	rng := zz.NewRNG(p.seed*1000003 + uint64(p.nBlocks)*31 + uint64(p.maxTx))
	const epoch = 1
	w := &c16CarW{}
	slot := uint64(epoch) * 432000
	parent := slot - 1
	var blockLinks, subsetLinks []datamodel.Link
	first := -1
	flushSubset := func(last int) {
		if len(blockLinks) == 0 {
			return
		}
		sub := ipldbindcode.Subset{Kind: 3, First: first, Last: last, Blocks: blockLinks}
		subsetLinks = append(subsetLinks, cidlink.Link{Cid: w.put(sub.MarshalCBOR())})
		blockLinks = nil
		first = -1
	}
	for b := 0; b < p.nBlocks; b++ {
		slot += uint64(rng.Intn(3)) // skipped slots
		if first < 0 {
			first = int(slot)
		}
		nTx := rng.Intn(p.maxTx + 1)
		var entryLinks, txLinks []datamodel.Link
		for t := 0; t < nTx; t++ {
			dl := 60 + rng.Intn(200)
			if p.big == 1 && rng.Intn(6) == 0 {
				dl = 20000 + rng.Intn(20000)
			}
			data := rng.Bytes(dl)
			if p.big == 1 && rng.Intn(5) == 0 { // a continuation frame precedes its transaction
				df := ipldbindcode.DataFrame{Kind: 6, Hash: c16pp(int(rng.Intn(1 << 30))), Index: c16pp(1), Total: c16pp(2), Data: rng.Bytes(100 + rng.Intn(300))}
				w.put(df.MarshalCBOR())
			}
			tx := ipldbindcode.Transaction{
				Kind:     0,
				Data:     ipldbindcode.DataFrame{Kind: 6, Index: c16pp(0), Total: c16pp(1), Data: data},
				Metadata: ipldbindcode.DataFrame{Kind: 6, Index: c16pp(0), Total: c16pp(1), Data: rng.Bytes(rng.Intn(90))},
				Slot:     int(slot),
				Index:    c16pp(t),
			}
			txLinks = append(txLinks, cidlink.Link{Cid: w.put(tx.MarshalCBOR())})
			if len(txLinks) == 3 || t == nTx-1 {
				e := ipldbindcode.Entry{Kind: 1, NumHashes: 1 + rng.Intn(100), Hash: rng.Bytes(32), Transactions: txLinks}
				entryLinks = append(entryLinks, cidlink.Link{Cid: w.put(e.MarshalCBOR())})
				txLinks = nil
			}
		}
		if len(entryLinks) == 0 {
			e := ipldbindcode.Entry{Kind: 1, NumHashes: 7, Hash: rng.Bytes(32)}
			entryLinks = append(entryLinks, cidlink.Link{Cid: w.put(e.MarshalCBOR())})
		}
		if p.seed%2 == 1 && b%2 == 1 {
			// a tick entry with the SAME bytes (hence the same CID) in every other block: an archive may hold one object
			// several times, and every occurrence belongs to its own block's run of sections
			e := ipldbindcode.Entry{Kind: 1, NumHashes: 12500, Hash: bytes.Repeat([]byte{0x5a}, 32)}
			entryLinks = append(entryLinks, cidlink.Link{Cid: w.put(e.MarshalCBOR())})
		}
		if p.big >= 2 { // a frame on a length-prefix boundary, inside this block's DAG
			bl := c16Boundary
			if p.big == 3 {
				bl = append(append([]int{}, c16Boundary...), c16BoundaryBig...)
			}
			w.put(c16ExactFrame(rng, bl[b%len(bl)]-36), nil)
		}
		rewards := cidlink.Link{Cid: DummyCID}
		if p.big == 1 && rng.Intn(3) == 0 {
			rw := ipldbindcode.Rewards{Kind: 5, Slot: int(slot), Data: ipldbindcode.DataFrame{Kind: 6, Index: c16pp(0), Total: c16pp(1), Data: rng.Bytes(rng.Intn(400))}}
			rewards = cidlink.Link{Cid: w.put(rw.MarshalCBOR())}
		}
		blk := ipldbindcode.Block{
			Kind: 2, Slot: int(slot),
			Shredding: []ipldbindcode.Shredding{{EntryEndIdx: 0, ShredEndIdx: 0}},
			Entries:   entryLinks,
			Meta:      ipldbindcode.SlotMeta{Parent_slot: int(parent), Blocktime: int(1600000000 + slot), Block_height: c16pp(int(1000 + b))},
			Rewards:   rewards,
		}
		blockLinks = append(blockLinks, cidlink.Link{Cid: w.put(blk.MarshalCBOR())})
		if p.subsetEvery > 0 && (b+1)%p.subsetEvery == 0 {
			flushSubset(int(slot))
		}
		parent = slot
		slot++
	}
	flushSubset(int(parent))
	ep := ipldbindcode.Epoch{Kind: 4, Epoch: epoch, Subsets: subsetLinks}
	root := w.put(ep.MarshalCBOR())
	var out bytes.Buffer
	if (p.seed+uint64(p.nBlocks))%3 == 2 {
		// a legal CARv1 header that is NOT in go-car's canonical form: the same map with `version` before `roots`
		// (dag-cbor orders keys by length first).  carreader accepts it; what split-car records as the original header
		// and what the split reader serves must still be these bytes.
		hdr := []byte{0xa2, 0x67}
		hdr = append(hdr, "version"...)
		hdr = append(hdr, 0x01, 0x65)
		hdr = append(hdr, "roots"...)
		hdr = append(hdr, 0x81, 0xd8, 0x2a, 0x58, byte(1+len(root.Bytes())), 0x00)
		hdr = append(hdr, root.Bytes()...)
		out.Write(binary.AppendUvarint(nil, uint64(len(hdr))))
		out.Write(hdr)
	} else if err := carv1.WriteHeader(&carv1.CarHeader{Roots: []cid.Cid{root}, Version: 1}, &out); err != nil {
		panic(err)
	}
	out.Write(w.buf.Bytes())
	e := &c16Epoch{params: p, epoch: epoch, car: out.Bytes()}
	e.path = filepath.Join(dir, fmt.Sprintf("src-%d-%d-%d-%d-%d.car", p.seed, p.nBlocks, p.maxTx, p.subsetEvery, p.big))
	if err := os.WriteFile(e.path, e.car, 0o644); err != nil {
		panic(err)
	}
	return e
}

// ---------- the oracle's own CAR parser ----------

type c16Section struct {
	off, size int
	plen      int // len(cid)+len(data): what the length prefix encodes
	kind      int // data[1] of a CBOR array node
}

// c16Sections parses b as a sequence of whole CAR sections; ok=false when it is not one.
func c16Sections(b []byte) (secs []c16Section, ok bool) {
	off := 0
	for off < len(b) {
		l, n := binary.Uvarint(b[off:])
		if n <= 0 || l == 0 || uint64(len(b)-off-n) < l {
			return secs, false
		}
		body := b[off+n : off+n+int(l)]
		cl, _, err := cid.CidFromBytes(body)
		if err != nil || cl+2 > len(body) {
			return secs, false
		}
		secs = append(secs, c16Section{off: off, size: n + int(l), plen: int(l), kind: int(body[cl+1])})
		off += n + int(l)
	}
	return secs, true
}

func c16HeaderLen(b []byte) int {
	l, n := binary.Uvarint(b)
	if n <= 0 || int(l)+n > len(b) {
		return -1
	}
	return n + int(l)
}

type c16Parsed struct {
	hdrLen int
	dags   [][]int // section lengths of each block DAG (objects…, block)
	plens  []int   // section payload lengths of all DAG members
	data   []byte  // concatenation of all block DAG sections = data part without Subset / Epoch nodes
	bounds map[int]bool
}

func c16ParseEpoch(car []byte) *c16Parsed {
	p := &c16Parsed{hdrLen: c16HeaderLen(car), bounds: map[int]bool{0: true}}
	secs, ok := c16Sections(car[p.hdrLen:])
	if !ok {
		panic("generated CAR does not parse")
	}
	var cur []int
	var curBytes []byte
	for _, s := range secs {
		if s.kind == 3 || s.kind == 4 {
			continue
		}
		cur = append(cur, s.size)
		p.plens = append(p.plens, s.plen)
		curBytes = append(curBytes, car[p.hdrLen+s.off:p.hdrLen+s.off+s.size]...)
		if s.kind == 2 {
			p.dags = append(p.dags, cur)
			p.data = append(p.data, curBytes...)
			p.bounds[len(p.data)] = true
			cur, curBytes = nil, nil
		}
	}
	return p
}

func (p *c16Parsed) dagsField() string {
	ds := make([]string, len(p.dags))
	for i, d := range p.dags {
		ss := make([]string, len(d))
		for j, s := range d {
			ss[j] = strconv.Itoa(s)
		}
		ds[i] = strings.Join(ss, "+")
	}
	return strings.Join(ds, ",")
}

// ---------- interpreter ----------

type c16MemFile struct {
	*bytes.Reader
	size int64
}

func (m *c16MemFile) Close() error { return nil }
func (m *c16MemFile) Size() int64  { return m.size }

// an os.File behind a type that is not *FileSplitCarReader: no local-file size check
type c16OSFile struct {
	*os.File
	size int64
}

func (m *c16OSFile) Size() int64 { return m.size }

type c16Piece struct {
	hs, cs uint64
	file   []byte
}

type c16Interp struct {
	s       *zz.Session
	dir     string
	nrun    int
	epochs  map[string]*c16Epoch
	parsed  map[string]*c16Parsed
	caseOps []string

	lastPieces []c16Piece // of the last successful split
	lastHeader []byte     // original header without its length prefix
	lastHdrSz  uint64

	scr     *splitcarfetcher.SplitCarReader
	scrFlat []byte
}

func (in *c16Interp) epochOf(p c16Params) (*c16Epoch, *c16Parsed) {
	k := p.id()
	if e, ok := in.epochs[k]; ok {
		return e, in.parsed[k]
	}
	e := c16GenEpoch(p, in.dir)
	in.epochs[k] = e
	in.parsed[k] = c16ParseEpoch(e.car)
	for _, l := range in.parsed[k].plens { // generator boundaries hit
		for _, b := range append(append([]int{}, c16Boundary...), c16BoundaryBig...) {
			if l == b {
				in.s.Count(fmt.Sprintf("gen-section-payload-len-%d", b))
			}
		}
		switch {
		case l < 128:
			in.s.Count("gen-section-prefix-1-byte")
		case l < 16384:
			in.s.Count("gen-section-prefix-2-bytes")
		case l < 2097152:
			in.s.Count("gen-section-prefix-3-bytes")
		default:
			in.s.Count("gen-section-prefix-4-bytes")
		}
	}
	return e, in.parsed[k]
}

func (in *c16Interp) viol(what, key string) {
	in.s.Violation(what, key, in.s.Replay(in.caseOps))
}

func c16RunSplit(args ...string) error {
	app := &cli.App{Name: "faithful", Commands: []*cli.Command{newCmd_SplitCar()}, ExitErrHandler: func(*cli.Context, error) {}}
	return app.RunContext(context.Background(), append([]string{"faithful", "split-car"}, args...))
}

func c16Field(w, pre string) (string, bool) {
	if strings.HasPrefix(w, pre) {
		return w[len(pre):], true
	}
	return "", false
}

func (in *c16Interp) execSplit(w []string) string {
	if len(w) != 6 {
		return "bad-op"
	}
	p, ok := c16ParseID(w[1])
	fh, ok1 := c16Field(w[2], "hdr=")
	fm, ok2 := c16Field(w[3], "maxlinks=")
	ft, ok3 := c16Field(w[4], "target=")
	fd, ok4 := c16Field(w[5], "dags=")
	if !ok || !ok1 || !ok2 || !ok3 || !ok4 {
		return "bad-op"
	}
	e, parsed := in.epochOf(p)
	// the op line carries what the model needs; it must describe this tree's constants and this CAR
	if fh != fmt.Sprint(hdrSize) || fm != fmt.Sprint(maxLinks) || fd != parsed.dagsField() {
		return "bad-op:stale-op-line"
	}
	target, _ := strconv.ParseInt(ft, 10, 64)
	in.nrun++
	run := filepath.Join(in.dir, fmt.Sprintf("run%d", in.nrun))
	out := filepath.Join(run, "out")
	os.MkdirAll(out, 0o755)
	defer os.RemoveAll(run)
	wd, _ := os.Getwd()
	os.Chdir(run) // epoch-N-metadata.yaml is written (appended) to the working directory
	defer os.Chdir(wd)
	in.lastPieces = nil
	var runErr error
	r := zz.Guard(func() string {
		runErr = c16RunSplit("--size", fmt.Sprint(target), "--epoch", fmt.Sprint(e.epoch),
			"--metadata", filepath.Join(run, "meta.csv"), "--output-dir", out, e.path)
		return "ran"
	})
	if r == "panic" {
		if len(parsed.dags) == 0 {
			in.s.Count("split-panics-on-epoch-without-blocks")
		} else {
			in.viol("split-car panics: "+zz.LastPanic, "C16:splitcmd:panic")
		}
		return "panic"
	}
	if runErr != nil {
		in.viol("split-car failed: "+runErr.Error(), "C16:splitcmd:error")
		return "err:" + strings.ReplaceAll(runErr.Error(), "\n", " ")
	}
	md, err := splitcarfetcher.MetadataFromYaml(filepath.Join(run, fmt.Sprintf("epoch-%d-metadata.yaml", e.epoch)))
	if err != nil || md.CarPieces == nil {
		in.viol(fmt.Sprintf("metadata yaml unreadable: %v", err), "C16:splitcmd:yaml")
		return "err:yaml"
	}
	cp := md.CarPieces
	tag := fmt.Sprintf("%s target=%d", p.id(), target)

	// original header as recorded
	hb, err := base64.StdEncoding.DecodeString(cp.OriginalCarHeader)
	wantHdr := e.car[:parsed.hdrLen]
	_, vi := binary.Uvarint(wantHdr)
	if err != nil || cp.OriginalCarHeaderSize != uint64(parsed.hdrLen) || !bytes.Equal(hb, wantHdr[vi:]) {
		in.viol("recorded original header differs from the CAR's header ("+tag+")", "C16:splitcmd:orig-header")
	}
	in.lastHeader, in.lastHdrSz = hb, cp.OriginalCarHeaderSize

	csvSizes := map[string]string{}
	if f, err := os.Open(filepath.Join(run, "meta.csv")); err == nil {
		rows, _ := csv.NewReader(f).ReadAll()
		f.Close()
		for _, row := range rows {
			if len(row) == 5 {
				csvSizes[row[0]] = row[4]
			}
		}
	}

	var ans []string
	var concat []byte
	good := true
	if len(cp.CarPieces) == 0 {
		in.viol("no piece recorded ("+tag+")", "C16:splitcmd:no-piece")
	}
	for i, pc := range cp.CarPieces {
		wantName := filepath.Join(out, fmt.Sprintf("epoch-%d-%d.car", e.epoch, i+1))
		if pc.Name != wantName {
			in.s.Count("piece-name-unexpected")
		}
		file, err := os.ReadFile(pc.Name)
		if err != nil {
			in.viol(fmt.Sprintf("piece %d (%s) recorded but not written (%s)", i, pc.Name, tag), "C16:splitcmd:missing-piece")
			ans = append(ans, "?:?:?:?")
			good = false
			continue
		}
		in.lastPieces = append(in.lastPieces, c16Piece{pc.HeaderSize, pc.ContentSize, file})
		if pc.HeaderSize+pc.ContentSize > uint64(len(file)) {
			in.viol(fmt.Sprintf("piece %d: recorded HeaderSize+ContentSize=%d exceeds the %d bytes written (%s)", i, pc.HeaderSize+pc.ContentSize, len(file), tag),
				"C16:splitcmd:range-exceeds-file")
			ans = append(ans, fmt.Sprintf("%d:%d:?:?", pc.HeaderSize, pc.ContentSize))
			good = false
			continue
		}
		if hl := c16HeaderLen(file); hl != int(pc.HeaderSize) {
			in.viol(fmt.Sprintf("piece %d: recorded HeaderSize=%d but the file's CAR header takes %d bytes (%s)", i, pc.HeaderSize, hl, tag),
				"C16:splitcmd:header-size")
			good = false
		}
		content := file[pc.HeaderSize : pc.HeaderSize+pc.ContentSize]
		secs, whole := c16Sections(content)
		nblocks := 0
		foreign := false
		for _, s := range secs {
			if s.kind == 2 {
				nblocks++
			}
			if s.kind == 3 || s.kind == 4 {
				foreign = true
			}
		}
		if !whole || foreign || len(secs) == 0 || secs[len(secs)-1].kind != 2 {
			in.viol(fmt.Sprintf("piece %d: the recorded content range does not delimit whole block DAGs (whole=%v subset/epoch-inside=%v sections=%d) (%s)",
				i, whole, foreign, len(secs), tag), "C16:splitcmd:content-range")
			good = false
		}
		if !parsed.bounds[len(concat)] || !parsed.bounds[len(concat)+len(content)] {
			in.viol(fmt.Sprintf("piece %d: content [%d,%d) of the data part cuts a block DAG (%s)", i, len(concat), len(concat)+len(content), tag),
				"C16:splitcmd:dag-cut")
			good = false
		}
		concat = append(concat, content...)
		ans = append(ans, fmt.Sprintf("%d:%d:%d:%d", pc.HeaderSize, pc.ContentSize, nblocks, len(secs)))

		// observations (reading adopted in DESIGN.md §C16: not demanded by the property)
		tail := file[pc.HeaderSize+pc.ContentSize:]
		if len(tail) == 0 {
			in.s.Count("obs-piece-file-equals-recorded-size")
		} else {
			in.s.Count("obs-piece-file-longer-than-recorded")
			ts, tw := c16Sections(tail)
			wantKinds := "3"
			if i == len(cp.CarPieces)-1 {
				wantKinds = "34"
			}
			got := ""
			for _, s := range ts {
				got += strconv.Itoa(s.kind)
			}
			if tw && got == wantKinds {
				in.s.Count("obs-tail-is-subset(+epoch)-node")
			} else {
				in.s.Count("obs-tail-other")
			}
		}
		if v, ok := csvSizes[filepath.Base(pc.Name)]; ok {
			if v == fmt.Sprint(pc.HeaderSize+pc.ContentSize) {
				in.s.Count("obs-csv-file-size-is-recorded-size")
			}
			if v == fmt.Sprint(len(file)) {
				in.s.Count("obs-csv-file-size-is-size-on-disk")
			}
		}
	}
	if !bytes.Equal(concat, parsed.data) {
		in.viol(fmt.Sprintf("the pieces' content ranges concatenated (%d bytes) are not the CAR's block DAG sections in order (%d bytes) (%s)",
			len(concat), len(parsed.data), tag), "C16:splitcmd:content-differs")
		good = false
	}
	if good {
		in.s.Count("split-judged-ok")
		in.s.Add("split-pieces", len(cp.CarPieces))
		in.readBack(cp, e, parsed, tag)
	}
	return fmt.Sprintf("pieces %d %s", len(cp.CarPieces), strings.Join(ans, " "))
}

// readBack: the written pieces through the real NewSplitCarReader; random ranges against header ‖ DAG bytes
func (in *c16Interp) readBack(cp *carlet.CarPiecesAndMetadata, e *c16Epoch, parsed *c16Parsed, tag string) {
	// the repository's local-file reader insists on size == HeaderSize+ContentSize (observation)
	if rd, err := splitcarfetcher.NewSplitCarReader(cp, func(cf carlet.CarFile) (splitcarfetcher.ReaderAtCloserSize, error) {
		return splitcarfetcher.NewFileSplitCarReader(cf.Name)
	}); err != nil {
		in.s.Count("obs-local-FileSplitCarReader-refuses-pieces")
	} else {
		in.s.Count("obs-local-FileSplitCarReader-accepts-pieces")
		rd.Close()
	}
	rd, err := splitcarfetcher.NewSplitCarReader(cp, func(cf carlet.CarFile) (splitcarfetcher.ReaderAtCloserSize, error) {
		f, err := os.Open(cf.Name)
		if err != nil {
			return nil, err
		}
		st, _ := f.Stat()
		return &c16OSFile{f, st.Size()}, nil
	})
	if err != nil {
		in.viol("NewSplitCarReader refuses the pieces just written: "+err.Error()+" ("+tag+")", "C16:readback:open")
		return
	}
	defer rd.Close()
	want := append(append([]byte{}, e.car[:parsed.hdrLen]...), parsed.data...)
	rng := zz.NewRNG(uint64(len(want))*7919 + uint64(len(cp.CarPieces)))
	var bounds []int
	acc := parsed.hdrLen
	bounds = append(bounds, 0, acc)
	for _, pc := range cp.CarPieces {
		acc += int(pc.ContentSize)
		bounds = append(bounds, acc)
	}
	check := func(off, ln int) bool {
		p := make([]byte, ln)
		n, err := rd.ReadAt(p, int64(off))
		lo, hi := off, off+ln
		if lo > len(want) {
			lo = len(want)
		}
		if hi > len(want) {
			hi = len(want)
		}
		w := want[lo:hi]
		if (err != nil && err != io.EOF) || !bytes.Equal(p[:n], w) || (err == io.EOF) != (len(w) < ln) {
			in.viol(fmt.Sprintf("SplitCarReader over the written pieces: ReadAt(off=%d,len=%d) = (%d bytes, %v), expected %d bytes eof=%v (%s)",
				off, ln, n, err, len(w), len(w) < ln, tag), "C16:readback:wrong")
			return false
		}
		in.s.Count("readback-reads")
		return true
	}
	if !check(0, len(want)) || !check(0, len(want)+1) {
		return
	}
	for i := 0; i < 40; i++ {
		off := bounds[rng.Intn(len(bounds))] + rng.Intn(5) - 2
		if rng.Intn(3) == 0 || off < 0 {
			off = rng.Intn(len(want) + 2)
		}
		ln := 1 + rng.Intn(len(want)+4)
		if rng.Intn(2) == 0 {
			ln = 1 + rng.Intn(300)
		}
		if !check(off, ln) {
			return
		}
	}
}

func c16ShowRead(p []byte, n int, err error) string {
	var b string
	if n < 0 || n > len(p) {
		return fmt.Sprintf("bad-n:%d", n)
	}
	if n <= 64 {
		b = zz.Hex(p[:n])
	} else {
		b = fmt.Sprintf("n=%d h=%016x", n, xxhash.Sum64(p[:n]))
	}
	switch err {
	case nil:
		return b + " noeof"
	case io.EOF:
		return b + " eof"
	}
	return "err:other"
}

func (in *c16Interp) exec(line string) string {
	w := strings.Fields(line)
	if len(w) == 0 {
		return "bad-op"
	}
	if w[0] == "case" {
		in.caseOps = nil
	}
	in.caseOps = append(in.caseOps, line)
	switch w[0] {
	case "case":
		return "ok"
	case "split":
		return in.execSplit(w)
	case "scr": // in-memory readers only in this run
		if len(w) < 3 {
			return "bad-op"
		}
		if in.scr != nil {
			in.scr.Close()
			in.scr = nil
		}
		hsz, _ := strconv.ParseUint(w[1], 10, 64)
		hdr := zz.Unhex(w[2])
		md := &carlet.CarPiecesAndMetadata{OriginalCarHeaderSize: hsz, OriginalCarHeader: base64.StdEncoding.EncodeToString(hdr)}
		var files [][]byte
		in.scrFlat = append(binary.AppendUvarint(nil, uint64(len(hdr))), hdr...)
		for i, x := range w[3:] {
			parts := strings.SplitN(x, ":", 4)
			if len(parts) != 4 || parts[0] != "m" {
				return "bad-op"
			}
			hs, _ := strconv.ParseUint(parts[1], 10, 64)
			cs, _ := strconv.ParseUint(parts[2], 10, 64)
			file := zz.Unhex(parts[3])
			if hs+cs > uint64(len(file)) {
				return "bad-op"
			}
			files = append(files, file)
			in.scrFlat = append(in.scrFlat, file[hs:hs+cs]...)
			md.CarPieces = append(md.CarPieces, carlet.CarFile{Name: fmt.Sprintf("piece-%d", i), HeaderSize: hs, ContentSize: cs})
		}
		scr, err := splitcarfetcher.NewSplitCarReader(md, func(cf carlet.CarFile) (splitcarfetcher.ReaderAtCloserSize, error) {
			var idx int
			fmt.Sscanf(cf.Name, "piece-%d", &idx)
			return &c16MemFile{bytes.NewReader(files[idx]), int64(len(files[idx]))}, nil
		})
		if err != nil {
			if strings.Contains(err.Error(), "unexpected header size") {
				return "err:header"
			}
			return "err:other:" + strings.ReplaceAll(err.Error(), "\n", " ")
		}
		in.scr = scr
		return fmt.Sprintf("ok %d", 1+len(files))
	case "sread":
		if len(w) < 3 {
			return "bad-op"
		}
		if in.scr == nil {
			return "noreader"
		}
		off, _ := strconv.ParseInt(w[1], 10, 64)
		ln, _ := strconv.Atoi(w[2])
		p := make([]byte, ln)
		n, err := in.scr.ReadAt(p, off)
		if off >= 0 && ln > 0 {
			lo, hi := off, off+int64(ln)
			if lo > int64(len(in.scrFlat)) {
				lo = int64(len(in.scrFlat))
			}
			if hi > int64(len(in.scrFlat)) {
				hi = int64(len(in.scrFlat))
			}
			want := in.scrFlat[lo:hi]
			if (err != nil && err != io.EOF) || !bytes.Equal(p[:n], want) || (err == io.EOF) != (len(want) < ln) {
				in.viol(fmt.Sprintf("SplitCarReader.ReadAt(off=%d,len=%d) = (%d bytes, %v), expected %d bytes eof=%v", off, ln, n, err, len(want), len(want) < ln),
					"C16:split:wrong-read")
			} else {
				in.s.Count("split-judged")
			}
		}
		return c16ShowRead(p, n, err)
	}
	return "bad-op"
}

// ---------- generator (adaptive: `scr` lines carry the pieces the real command has just written) ----------

type c16Plan struct {
	p       c16Params
	allCrit bool // every target at which the rollover rule can change its mind
	nTarget int  // otherwise: this many targets chosen to force 1..N pieces
	reread  bool // feed the real pieces through the model as well (small epochs)
}

func c16Targets(parsed *c16Parsed, pl c16Plan, rng *zz.RNG) []int64 {
	sizes := make([]int64, len(parsed.dags))
	total, maxDag := int64(0), int64(0)
	for i, d := range parsed.dags {
		for _, s := range d {
			sizes[i] += int64(s)
		}
		total += sizes[i]
		if sizes[i] > maxDag {
			maxDag = sizes[i]
		}
	}
	h := int64(hdrSize)
	set := map[int64]bool{0: true, 1: true, h: true, h + total: true, h + total - 1: true, h + total + 1: true, 1 << 40: true,
		h + maxDag: true, h + maxDag - 1: true}
	if pl.allCrit {
		// cur+dag > target flips exactly at target = hdr + (sum of a run of consecutive DAGs) - 1 / that sum
		for i := range sizes {
			run := h
			for j := i; j < len(sizes); j++ {
				run += sizes[j]
				set[run] = true
				set[run-1] = true
			}
		}
	} else {
		n := len(sizes)
		for k := 1; k <= n; k += 1 + n/pl.nTarget {
			set[h+total/int64(k)+int64(rng.Intn(3))-1] = true
		}
		for i := 0; i < pl.nTarget/4; i++ {
			a := rng.Intn(n)
			b := a + rng.Intn(n-a)
			run := h
			for j := a; j <= b; j++ {
				run += sizes[j]
			}
			set[run] = true
			set[run-1] = true
		}
	}
	var ts []int64
	for t := range set {
		if t >= 0 {
			ts = append(ts, t)
		}
	}
	sort.Slice(ts, func(i, j int) bool { return ts[i] < ts[j] })
	return ts
}

func (in *c16Interp) emit(line string) string {
	out := in.exec(line)
	nontrivial := strings.HasPrefix(out, "pieces ") || strings.HasSuffix(out, " eof") || strings.HasSuffix(out, " noeof") && !strings.HasPrefix(out, "- ")
	in.s.Op(line, out, nontrivial)
	return out
}

func (in *c16Interp) runPlan(pl c16Plan, rng *zz.RNG) {
	_, parsed := in.epochOf(pl.p)
	in.emit(fmt.Sprintf("case epoch %s blocks=%d bytes=%d", pl.p.id(), len(parsed.dags), len(parsed.data)))
	seenCounts := map[int]bool{}
	for _, t := range c16Targets(parsed, pl, rng) {
		out := in.emit(fmt.Sprintf("split %s hdr=%d maxlinks=%d target=%d dags=%s", pl.p.id(), hdrSize, maxLinks, t, parsed.dagsField()))
		f := strings.Fields(out)
		if len(f) < 2 || f[0] != "pieces" {
			continue
		}
		n, _ := strconv.Atoi(f[1])
		if !seenCounts[n] {
			seenCounts[n] = true
			in.s.Count("distinct-(epoch,piece-count)")
		}
		if n == 1 {
			in.s.Count("split-into-1")
		}
		if n == len(parsed.dags) {
			in.s.Count("split-into-N")
		}
		if pl.reread && len(in.lastPieces) == n && n > 0 {
			ps := make([]string, n)
			total := int(in.lastHdrSz)
			for i, pc := range in.lastPieces {
				ps[i] = fmt.Sprintf("m:%d:%d:%s", pc.hs, pc.cs, zz.Hex(pc.file))
				total += int(pc.cs)
			}
			in.emit(fmt.Sprintf("scr %d %s %s", in.lastHdrSz, zz.Hex(in.lastHeader), strings.Join(ps, " ")))
			in.emit(fmt.Sprintf("sread 0 %d", total))
			in.emit(fmt.Sprintf("sread 0 %d", total+1))
			for i := 0; i < 6; i++ {
				in.emit(fmt.Sprintf("sread %d %d", rng.Intn(total+2), 1+rng.Intn(total+3)))
			}
		}
	}
}

func TestVerifC16Split(t *testing.T) {
	s := zz.NewSession()
	defer s.Close()
	dir, err := os.MkdirTemp("", "verif-c16s-")
	if err != nil {
		t.Fatal(err)
	}
	defer os.RemoveAll(dir)
	{ // the command logs every rollover through klog
		fs := flag.NewFlagSet("klog", flag.ContinueOnError)
		klog.InitFlags(fs)
		fs.Set("logtostderr", "false")
		fs.Set("alsologtostderr", "false")
		fs.Set("stderrthreshold", "FATAL")
		klog.SetOutput(io.Discard)
	}
	in := &c16Interp{s: s, dir: dir, epochs: map[string]*c16Epoch{}, parsed: map[string]*c16Parsed{}}
	defer func() {
		if in.scr != nil {
			in.scr.Close()
		}
	}()
	if rp := zz.ReplayFile(); rp != "" {
		data, err := os.ReadFile(rp)
		if err != nil {
			t.Fatal(err)
		}
		// a replay file may come from the other harness run (package splitcarfetcher): skip the cases this
		// interpreter has no ops for (segs/msegs/read, local-file pieces)
		var group []string
		flush := func() {
			for _, l := range group {
				w := strings.Fields(l)
				switch w[0] {
				case "case", "split", "sread":
				case "scr":
					for _, x := range w[min(3, len(w)):] {
						if !strings.HasPrefix(x, "m:") {
							group = nil
						}
					}
				default:
					group = nil
				}
			}
			for _, l := range group {
				in.emit(l)
			}
			group = nil
		}
		for _, l := range strings.Split(strings.TrimSpace(string(data)), "\n") {
			if strings.HasPrefix(l, "#") || strings.TrimSpace(l) == "" {
				continue
			}
			if strings.HasPrefix(l, "case") {
				flush()
			}
			group = append(group, l)
		}
		flush()
		return
	}
	rng := zz.NewRNG(zz.Seed() ^ 0xc16)
	seed := zz.Seed()
	var plans []c16Plan
	// small epochs: every critical target, pieces fed back through the model
	for _, nb := range []int{1, 2, 3, 5} {
		plans = append(plans, c16Plan{p: c16Params{seed, nb, 3, 0, 0}, allCrit: true, reread: true})
	}
	plans = append(plans, c16Plan{p: c16Params{seed, 7, 4, 3, 1}, allCrit: true, reread: false})
	// medium epochs: targets forcing 1..N pieces; several Subset nodes in the source; big sections
	nt := 14
	if zz.Thorough() {
		nt = 30
	}
	plans = append(plans, c16Plan{p: c16Params{seed, 30, 5, 0, 0}, nTarget: nt})
	plans = append(plans, c16Plan{p: c16Params{seed, 40, 6, 7, 1}, nTarget: nt - 4})
	// objects whose section payload length sits on / next to every point where the length prefix grows
	plans = append(plans, c16Plan{p: c16Params{seed, 2 * len(c16Boundary), 2, 5, 2}, nTarget: 12})
	plans = append(plans, c16Plan{p: c16Params{seed, 3, 1, 0, 2}, allCrit: true, reread: true}) // payloads 126,127,128
	if zz.Thorough() {
		for i := 0; i < 6; i++ {
			plans = append(plans, c16Plan{p: c16Params{seed + uint64(100+i), 2 + rng.Intn(9), rng.Intn(5), rng.Intn(4), i % 2}, allCrit: true, reread: i < 3})
		}
		for i := 0; i < 5; i++ {
			plans = append(plans, c16Plan{p: c16Params{seed + uint64(200+i), 20 + rng.Intn(60), 1 + rng.Intn(8), rng.Intn(12), i % 2}, nTarget: 40})
		}
		plans = append(plans, c16Plan{p: c16Params{seed, 300, 4, 50, 1}, nTarget: 40})
		plans = append(plans, c16Plan{p: c16Params{seed, len(c16Boundary) + len(c16BoundaryBig), 1, 0, 3}, nTarget: 6})
		plans = append(plans, c16Plan{p: c16Params{seed + 7, len(c16Boundary), 3, 2, 2}, allCrit: true})
	}
	for _, pl := range plans {
		in.runPlan(pl, rng)
	}
	// the link limit: more than maxLinks+1 blocks, target far away
	{
		p := c16Params{seed, maxLinks + 3, 0, 0, 0}
		_, parsed := in.epochOf(p)
		in.emit(fmt.Sprintf("case link-limit %s blocks=%d", p.id(), len(parsed.dags)))
		for _, t := range []int64{1 << 40, int64(hdrSize) + int64(len(parsed.data))/2} {
			out := in.emit(fmt.Sprintf("split %s hdr=%d maxlinks=%d target=%d dags=%s", p.id(), hdrSize, maxLinks, t, parsed.dagsField()))
			if strings.HasPrefix(out, "pieces 2 ") && t == 1<<40 {
				s.Count("link-limit-rollover")
			}
		}
	}
	// an epoch CAR without any block: the command panics (observation; the property says nothing about it)
	{
		p := c16Params{seed, 0, 0, 0, 0}
		_, parsed := in.epochOf(p)
		in.emit("case no-blocks")
		in.emit(fmt.Sprintf("split %s hdr=%d maxlinks=%d target=1000 dags=%s", p.id(), hdrSize, maxLinks, parsed.dagsField()))
	}
}

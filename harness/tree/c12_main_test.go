package main

// C12 harness, package main (injected by /verif/check with `go test -overlay`; nothing is written to /repo).
//
//	pnfs <section hex> want=<cid hex|-> cid=<n|x>   parseNodeFromSection(section, wanted CID); cid = number of bytes
//	                                                go-cid consumes after the length prefix (x: it fails)  -> err | ok <data length>
//	rfs <hex>                                       readFirstSignature (index-sig-to-cid.go)  -> err | ok <signature hex>
//	rns <file hex> <offset>                         readNodeSizeFromReaderAtWithOffset                    -> err | ok <size>
//	rnfo <file hex> <offset> <length> cid=<n|x>     readNodeFromReaderAtWithOffsetAndSize (wanted CID nil) -> err | ok <data length>
//	count-car <car hex>                             carCountItemsByFirstByte: the first pass of `index all`, dispatching
//	                                                on the kind byte data[1] of every object               -> nopanic
//	find <which> <car hex>                          FindSubsets/Blocks/Entries/Transactions/Rewards/DataFrames/Any
//	                                                (car-dag-traverser.go, same dispatch)                  -> nopanic
//	index-all <car hex>                             createAllIndexes on the CAR                            -> nopanic

import (
	"bytes"
	"context"
	"crypto/sha256"
	"encoding/binary"
	"fmt"
	"os"
	"path/filepath"
	"strconv"
	"strings"
	"testing"

	"github.com/ipfs/go-cid"
	carv1 "github.com/ipld/go-car"
	"github.com/ipld/go-car/util"
	cidlink "github.com/ipld/go-ipld-prime/linking/cid"
	"github.com/rpcpool/yellowstone-faithful/indexes"
	"github.com/rpcpool/yellowstone-faithful/ipld/ipldbindcode"
	c12 "github.com/rpcpool/yellowstone-faithful/zzc12"
	zz "github.com/rpcpool/yellowstone-faithful/zzverif"
)

type c12MainRAC struct{ *bytes.Reader }

func (c12MainRAC) Close() error { return nil }

var c12MainDir string

func c12MainTmp() string {
	if c12MainDir == "" {
		d, err := os.MkdirTemp("", "verif-c12-main-")
		if err != nil {
			panic(err)
		}
		c12MainDir = d
	}
	return c12MainDir
}

func c12ExecMain(op string) string {
	w := strings.Fields(op)
	ctx := context.Background()
	switch w[0] {
	case "pnfs":
		var want *cid.Cid
		if ws := strings.TrimPrefix(w[2], "want="); ws != "-" {
			c, err := cid.Cast(zz.Unhex(ws))
			if err != nil {
				return "bad-want"
			}
			want = &c
		}
		data, err := parseNodeFromSection(zz.Unhex(w[1]), want)
		if err != nil {
			return "err"
		}
		return fmt.Sprintf("ok %d", len(data))
	case "rfs":
		sig, err := readFirstSignature(zz.Unhex(w[1]))
		if err != nil {
			return "err"
		}
		return "ok " + zz.Hex(sig[:])
	case "rns":
		off, _ := strconv.ParseUint(w[2], 10, 64)
		n, err := readNodeSizeFromReaderAtWithOffset(bytes.NewReader(zz.Unhex(w[1])), off)
		if err != nil {
			return "err"
		}
		return fmt.Sprintf("ok %d", n)
	case "rnfo":
		off, _ := strconv.ParseUint(w[2], 10, 64)
		ln, _ := strconv.ParseUint(w[3], 10, 64)
		data, err := readNodeFromReaderAtWithOffsetAndSize(c12MainRAC{bytes.NewReader(zz.Unhex(w[1]))}, nil, off, ln)
		if err != nil {
			return "err"
		}
		return fmt.Sprintf("ok %d", len(data))
	case "count-car":
		path := filepath.Join(c12MainTmp(), "x.car")
		if err := os.WriteFile(path, zz.Unhex(w[1]), 0o644); err != nil {
			panic(err)
		}
		if _, _, err := carCountItemsByFirstByte(path); err != nil {
			return "err"
		}
		return "ok"
	case "find":
		rd := bytes.NewReader(zz.Unhex(w[2]))
		var err error
		switch w[1] {
		case "subsets":
			err = FindSubsets(ctx, rd, func(cid.Cid, *ipldbindcode.Subset) error { return nil })
		case "blocks":
			err = FindBlocks(ctx, rd, func(cid.Cid, *ipldbindcode.Block) error { return nil })
		case "entries":
			err = FindEntries(ctx, rd, func(cid.Cid, *ipldbindcode.Entry) error { return nil })
		case "transactions":
			err = FindTransactions(ctx, rd, func(cid.Cid, *ipldbindcode.Transaction) error { return nil })
		case "rewards":
			err = FindRewards(ctx, rd, func(cid.Cid, *ipldbindcode.Rewards) error { return nil })
		case "dataframes":
			err = FindDataFrames(ctx, rd, func(cid.Cid, *ipldbindcode.DataFrame) error { return nil })
		default:
			err = FindAny(ctx, rd, func(cid.Cid, any) error { return nil })
		}
		if err != nil {
			return "err"
		}
		return "ok"
	case "index-all":
		dir, _ := os.MkdirTemp(c12MainTmp(), "ia")
		defer os.RemoveAll(dir)
		path := filepath.Join(dir, "x.car")
		if err := os.WriteFile(path, zz.Unhex(w[1]), 0o644); err != nil {
			panic(err)
		}
		tmp := filepath.Join(dir, "tmp")
		idx := filepath.Join(dir, "idx")
		os.MkdirAll(tmp, 0o755)
		os.MkdirAll(idx, 0o755)
		if _, _, err := createAllIndexes(ctx, indexes.NetworkMainnet, tmp, path, idx); err != nil {
			return "err"
		}
		return "ok"
	}
	return "bad-op"
}

func c12MainCid(data []byte) cid.Cid {
	h := sha256.Sum256(data)
	c, err := cid.Cast(append([]byte{0x01, 0x71, 0x12, 0x20}, h[:]...))
	if err != nil {
		panic(err)
	}
	return c
}

func c12MainSection(data []byte) []byte {
	var buf bytes.Buffer
	if err := util.LdWrite(&buf, c12MainCid(data).Bytes(), data); err != nil {
		panic(err)
	}
	return buf.Bytes()
}

func c12MainVerdict(section []byte) string {
	_, n := binary.Uvarint(section)
	if n <= 0 {
		return "x"
	}
	cl, _, err := cid.CidFromReader(bytes.NewReader(section[n:]))
	if err != nil {
		return "x"
	}
	return fmt.Sprint(cl)
}

// c12MainCar: a CAR made of the given objects (each addressed by its true CID), root = the last one.
func c12MainCar(objs [][]byte) []byte {
	var car bytes.Buffer
	root := c12MainCid([]byte("none"))
	if len(objs) > 0 {
		root = c12MainCid(objs[len(objs)-1])
	}
	if err := carv1.WriteHeader(&carv1.CarHeader{Roots: []cid.Cid{root}, Version: 1}, &car); err != nil {
		panic(err)
	}
	for _, o := range objs {
		car.Write(c12MainSection(o))
	}
	return car.Bytes()
}

func c12GenMain(rng *zz.RNG, s *zz.Session, thorough bool) []string {
	var ops []string
	// sections
	pn := func(sec []byte, want string) {
		ops = append(ops, "pnfs "+zz.Hex(sec)+" want="+want+" cid="+c12MainVerdict(sec))
	}
	other := zz.Hex(c12MainCid([]byte("other")).Bytes())
	for _, dl := range []int{0, 1, 2, 100} {
		obj := rng.Bytes(dl)
		sec := c12MainSection(obj)
		_, n := binary.Uvarint(sec)
		fields := []c12.Field{{Name: "sectionLen", Off: 0, Width: 0, UvLen: n}, {Name: "cid.version", Off: n, Width: 1},
			{Name: "cid.codec", Off: n + 1, Width: 1}, {Name: "cid.mhType", Off: n + 2, Width: 1}, {Name: "cid.mhLen", Off: n + 3, Width: 1}}
		nb, nr := 100, 30
		if thorough {
			nb, nr = 400, 200
		}
		mine := zz.Hex(c12MainCid(obj).Bytes())
		for mi, mu := range c12.Mutate(rng, sec, fields, nb, nr, s.Count) {
			switch mi % 3 {
			case 0:
				pn(mu.Data, "-")
			case 1:
				pn(mu.Data, mine)
			default:
				pn(mu.Data, other)
			}
			// the same bytes as a file read through an index entry (offset, size)
			if mi%4 == 0 {
				file := append(append(rng.Bytes(7), mu.Data...), rng.Bytes(12)...)
				ops = append(ops, fmt.Sprintf("rns %s %d", zz.Hex(file), 7))
				for _, ln := range []int{len(mu.Data), len(mu.Data) - 1, len(mu.Data) + 1, 0, 1, len(file), 1 << 24} {
					if ln < 0 {
						continue
					}
					v := "x"
					if 7+ln <= len(file) {
						v = c12MainVerdict(file[7 : 7+ln])
					}
					ops = append(ops, fmt.Sprintf("rnfo %s %d %d cid=%s", zz.Hex(file), 7, ln, v))
				}
				for _, off := range []uint64{0, uint64(len(file)), uint64(len(file)) - 10, uint64(len(file)) - 9, 1 << 40, 1<<63 - 1, 1 << 63, ^uint64(0)} {
					ops = append(ops, fmt.Sprintf("rns %s %d", zz.Hex(file), off))
					s.Count("boundary:offset")
				}
			}
		}
		s.Count("valid-sections")
	}
	// length prefixes
	for _, v := range []uint64{0, 1, 36, 37, 127, 128, 32 << 20, 32<<20 + 1, 1 << 63, ^uint64(0)} {
		sec := append(binary.AppendUvarint(nil, v), c12MainCid([]byte("p")).Bytes()...)
		sec = append(sec, rng.Bytes(3)...)
		pn(sec, "-")
		file := append(sec, make([]byte, 10)...)
		ops = append(ops, fmt.Sprintf("rns %s 0", zz.Hex(file)))
		s.Count("boundary:uvarint-prefix")
	}
	for _, b := range [][]byte{nil, {0x80}, {0x80, 0x80, 0x80, 0x80, 0x80, 0x80, 0x80, 0x80, 0x80, 0x02}, {0xff, 0xff, 0xff, 0xff, 0xff, 0xff, 0xff, 0xff, 0xff, 0xff, 0x01},
		// readNodeSize adds the uvarint's width to its value in uint64 arithmetic without looking at the width's sign:
		// ten continuation bytes (width 0), the ten-byte encoding of 2^64-1 (the sum wraps to 9), 2^64-10, 2^64-11
		{0x80, 0x80, 0x80, 0x80, 0x80, 0x80, 0x80, 0x80, 0x80, 0x80}, {0xff, 0xff, 0xff, 0xff, 0xff, 0xff, 0xff, 0xff, 0xff, 0x01},
		{0xf6, 0xff, 0xff, 0xff, 0xff, 0xff, 0xff, 0xff, 0xff, 0x01}, {0xf5, 0xff, 0xff, 0xff, 0xff, 0xff, 0xff, 0xff, 0xff, 0x01}} {
		pn(b, "-")
		ops = append(ops, fmt.Sprintf("rns %s 0", zz.Hex(append(append([]byte(nil), b...), make([]byte, 10)...))))
	}
	// first signature of a transaction: compact-u16 count, then 64 bytes
	for _, head := range [][]byte{{0}, {1}, {2}, {0x7f}, {0x80}, {0x80, 0x00}, {0x80, 0x01}, {0xff, 0x7f}, {0xff, 0xff}, {0xff, 0xff, 0x03}, {0xff, 0xff, 0x04}, {0x80, 0x80, 0x00}, {0x80, 0x80, 0x80}, {0x81, 0x80, 0x01}} {
		for _, n := range []int{0, 1, 63, 64, 65, 130} {
			ops = append(ops, "rfs "+zz.Hex(append(append([]byte(nil), head...), rng.Bytes(n)...)))
			s.Count("boundary:compact-u16")
		}
	}
	ops = append(ops, "rfs -")
	for i := 0; i < 60; i++ {
		ops = append(ops, "rfs "+zz.Hex(rng.Bytes(rng.Intn(80))))
	}
	// CARs whose objects are 0, 1, 2 bytes long (the kind byte is data[1]) among ordinary ones
	ep := ipldbindcode.Epoch{Kind: 4, Epoch: 7, Subsets: ipldbindcode.List__Link{cidlink.Link{Cid: c12MainCid([]byte("s"))}}}
	epb, err := ep.MarshalCBOR()
	if err != nil {
		panic(err)
	}
	df := ipldbindcode.DataFrame{Kind: 6, Data: []byte("abc")}
	dfb, _ := df.MarshalCBOR()
	cars := map[string][][]byte{
		"ordinary":     {dfb, epb},
		"empty-object": {dfb, {}, epb},
		"one-byte":     {dfb, {0x80}, epb},
		"two-bytes":    {dfb, {0x81, 0x06}, epb},
		"only-tiny":    {{0x80}},
		"no-objects":   {},
		"kind-7":       {{0x81, 0x07}, epb},
	}
	for _, name := range []string{"ordinary", "empty-object", "one-byte", "two-bytes", "only-tiny", "no-objects", "kind-7"} {
		car := c12MainCar(cars[name])
		h := zz.Hex(car)
		ops = append(ops, "count-car "+h, "index-all "+h)
		for _, which := range []string{"subsets", "blocks", "entries", "transactions", "rewards", "dataframes", "any"} {
			ops = append(ops, "find "+which+" "+h)
		}
		s.Count("boundary:tiny-object-car")
	}
	{
		car := c12MainCar(cars["ordinary"])
		nb, nr := 80, 20
		if thorough {
			nb, nr = 400, 100
		}
		for mi, mu := range c12.Mutate(rng, car, nil, nb, nr, s.Count) {
			h := zz.Hex(mu.Data)
			ops = append(ops, "count-car "+h)
			ops = append(ops, "find "+[]string{"subsets", "blocks", "entries", "transactions", "rewards", "dataframes", "any"}[mi%7]+" "+h)
		}
	}
	return ops
}

func TestVerifC12Main(t *testing.T) {
	if c12.IsChild() {
		c12.Serve(c12ExecMain)
		if c12MainDir != "" {
			os.RemoveAll(c12MainDir)
		}
		return
	}
	r := c12.NewRun("TestVerifC12Main")
	defer r.Close()
	r.Print = func(op string, res c12.Result) string {
		if res.Class == "ok" || res.Class == "err" {
			k := strings.Fields(op)[0]
			if k == "count-car" || k == "find" || k == "index-all" {
				return "nopanic"
			}
			return res.Answer
		}
		return res.Class
	}
	// building the indexes of even a tiny CAR reserves the writers' working memory; that is not input-driven
	r.Exempt = func(op string, res c12.Result) bool { return strings.HasPrefix(op, "index-all ") }
	r.W.Budget = 10 * 1e9
	ops := c12.ReplayOps()
	if ops == nil {
		ops = c12GenMain(zz.NewRNG(zz.Seed()), r.S, zz.Thorough())
	}
	for _, op := range ops {
		r.Exec(op)
	}
}

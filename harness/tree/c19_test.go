package main

// C19 harness: two generated epochs (skipped slots, vote / non-vote, failed / successful transactions,
// address-table loaded accounts) indexed by the real `index all` + `index gsfa`, served by two real MultiEpoch
// servers over the same files (one with the address index loaded, one without).  Every op line is executed with the
// real `StreamBlocks` / `StreamTransactions` (and `processSlotTransactions` directly) against a recording stream.
//
// Op lines: the archive is described once (`epoch`, `block`, `tx` lines), then
//   streamtx <lo> <hi|-> gsfa=<0|1> via=<rpc|direct> <filter>     -> ok <n> slot:pos …   (in the order sent)
//   streamblocks <lo> <hi|-> <nil|-|ids>                          -> ok <n> slot/ntx …
// The Lean driver computes the same answers from the archive lines with the definitions the theorems are about.
// The oracle (independent of the model) is computed here from the generator's ground truth.

import (
	"bufio"
	"context"
	"fmt"
	"os"
	"path/filepath"
	"sort"
	"strconv"
	"strings"
	"testing"

	"github.com/gagliardetto/solana-go"
	"github.com/rpcpool/yellowstone-faithful/gsfa/linkedlog"
	"github.com/rpcpool/yellowstone-faithful/indexes"
	"github.com/rpcpool/yellowstone-faithful/ipld/ipldbindcode"
	"github.com/rpcpool/yellowstone-faithful/iplddecoders"
	old_faithful_grpc "github.com/rpcpool/yellowstone-faithful/old-faithful-proto/old-faithful-grpc"
	zz "github.com/rpcpool/yellowstone-faithful/zzverif"
)

const (
	c19EpochLen   = 432000
	c19Batch      = 100 // the `batchSize` constant of processSlotTransactions (only used to classify a failure)
	c19KeyWindow  = "C19:gsfa-window:GetBeforeUntilSlot(batch=100)"
	c19NUniverse  = 4
	c19MaxPerAcct = 900 // the address-index writer (C06) is only exercised below its 1000-entry batch limit
)

// ---------------------------------------------------------------------------------------------------------------
// filters

type c19Filter struct {
	Nil           bool
	Vote, Failed  int // 0 absent, 1 true, 2 false
	Inc, Exc, Req []int
}

func c19Tri(v int) string { return [...]string{"a", "t", "f"}[v] }

func c19Ids(l []int) string {
	if len(l) == 0 {
		return "-"
	}
	s := make([]string, len(l))
	for i, x := range l {
		s[i] = strconv.Itoa(x)
	}
	return strings.Join(s, ",")
}

func c19ParseIds(s string) []int {
	if s == "-" || s == "" {
		return nil
	}
	var out []int
	for _, p := range strings.Split(s, ",") {
		n, err := strconv.Atoi(p)
		if err != nil {
			panic("bad id list " + s)
		}
		out = append(out, n)
	}
	return out
}

func (f c19Filter) String() string {
	if f.Nil {
		return "nil"
	}
	return fmt.Sprintf("v=%s f=%s i=%s x=%s r=%s", c19Tri(f.Vote), c19Tri(f.Failed), c19Ids(f.Inc), c19Ids(f.Exc), c19Ids(f.Req))
}

func c19ParseFilter(w []string) c19Filter {
	if len(w) == 1 && w[0] == "nil" {
		return c19Filter{Nil: true}
	}
	var f c19Filter
	tri := func(s string) int { return strings.Index("atf", s) }
	for _, p := range w {
		kv := strings.SplitN(p, "=", 2)
		if len(kv) != 2 {
			panic("bad filter word " + p)
		}
		switch kv[0] {
		case "v":
			f.Vote = tri(kv[1])
		case "f":
			f.Failed = tri(kv[1])
		case "i":
			f.Inc = c19ParseIds(kv[1])
		case "x":
			f.Exc = c19ParseIds(kv[1])
		case "r":
			f.Req = c19ParseIds(kv[1])
		}
	}
	return f
}

// ---------------------------------------------------------------------------------------------------------------
// world

type c19World struct {
	epochs  []*gEpoch // ascending
	accts   []solana.PublicKey
	acctID  map[solana.PublicKey]int
	bySig   map[solana.Signature]*gTx
	bySlot  map[uint64]*gBlock
	withG   *MultiEpoch
	without *MultiEpoch
	onlyB   *MultiEpoch // only the SECOND epoch loaded (no address index): ranges that start in an epoch that is not served
	closers []func()
	// does a filter message with an absent optional flag panic on this tree? (probed once, on the scan path,
	// where the panic can be recovered; on the index path the same dereference happens inside a goroutine and
	// would kill the whole process)
	absentPanics   bool
	slotFieldWrong int
	// does GetBeforeUntilSlot leave out entries at or above `before`?  (pinned tree: no — `before` only selects the
	// epochs; a proposed fix of C07 makes it an exclusive upper bound.)  Measured on the real reader, written on the
	// `world` op line for the model, and used by the oracle only to name the window finding.
	honoursBefore bool
}

func (w *c19World) id(k solana.PublicKey) int {
	if i, ok := w.acctID[k]; ok {
		return i
	}
	i := len(w.accts)
	w.accts = append(w.accts, k)
	w.acctID[k] = i
	return i
}

func (w *c19World) txAccts(t *gTx) (static, loaded []int) {
	for _, k := range t.Accounts {
		static = append(static, w.id(k))
	}
	for _, k := range t.Loaded {
		loaded = append(loaded, w.id(k))
	}
	return
}

func (w *c19World) mentions(t *gTx, a int) bool {
	k := w.accts[a]
	for _, x := range t.Accounts {
		if x == k {
			return true
		}
	}
	for _, x := range t.Loaded {
		if x == k {
			return true
		}
	}
	return false
}

// the property's predicate, from the ground truth (reading of old-faithful.proto: vote / failed say whether vote /
// failed transactions are included, an absent flag does not restrict; account_include = any-of (empty: no
// restriction), account_exclude = none-of, account_required = all-of; an account is mentioned by a transaction
// when it is one of its static keys or one of the address-table loaded keys)
func (w *c19World) want(f c19Filter, t *gTx) bool {
	if f.Nil {
		return true
	}
	if f.Vote == 2 && t.IsVote {
		return false
	}
	if f.Failed == 2 && t.Failed {
		return false
	}
	if len(f.Inc) > 0 {
		hit := false
		for _, a := range f.Inc {
			if w.mentions(t, a) {
				hit = true
			}
		}
		if !hit {
			return false
		}
	}
	for _, a := range f.Exc {
		if w.mentions(t, a) {
			return false
		}
	}
	for _, a := range f.Req {
		if !w.mentions(t, a) {
			return false
		}
	}
	return true
}

func (w *c19World) proto(f c19Filter) *old_faithful_grpc.StreamTransactionsFilter {
	if f.Nil {
		return nil
	}
	pf := &old_faithful_grpc.StreamTransactionsFilter{}
	b := func(v int) *bool {
		if v == 0 {
			return nil
		}
		x := v == 1
		return &x
	}
	pf.Vote, pf.Failed = b(f.Vote), b(f.Failed)
	strs := func(l []int) []string {
		var out []string
		for _, a := range l {
			out = append(out, w.accts[a].String())
		}
		return out
	}
	pf.AccountInclude, pf.AccountExclude, pf.AccountRequired = strs(f.Inc), strs(f.Exc), strs(f.Req)
	return pf
}

type c19WorldOpts struct {
	seed    uint64
	variant int
	try     int // bumped when the real indexer refuses the generated CAR (see TestVerifC19)
	tier    string
}

func (o c19WorldOpts) line() string {
	return fmt.Sprintf("world seed=%d v=%d try=%d tier=%s", o.seed, o.variant, o.try, o.tier)
}

func c19ParseWorld(w []string) c19WorldOpts {
	var o c19WorldOpts
	for _, p := range w[1:] {
		kv := strings.SplitN(p, "=", 2)
		switch kv[0] {
		case "seed":
			o.seed, _ = strconv.ParseUint(kv[1], 10, 64)
		case "v":
			o.variant, _ = strconv.Atoi(kv[1])
		case "try":
			o.try, _ = strconv.Atoi(kv[1])
		case "tier":
			o.tier = kv[1]
		}
	}
	return o
}

// c19Build generates the two epochs, indexes them with the real indexers and loads the two servers.
func c19Build(dir string, o c19WorldOpts) (*c19World, error) {
	rng := zz.NewRNG(o.seed*1000003 + uint64(o.variant)*7919 + uint64(o.try)*104729 + 19)
	ea := uint64(2 + rng.Intn(40))
	nb, maxTx := 60+rng.Intn(20), 6+rng.Intn(3)
	if o.tier == "thorough" {
		nb, maxTx = 90+rng.Intn(60), 6+rng.Intn(5)
	}
	skip := 20 + rng.Intn(25)
	loaded := 25 + rng.Intn(30)
	base := byte(1 + rng.Intn(200))
	w := &c19World{acctID: map[solana.PublicKey]int{}, bySig: map[solana.Signature]*gTx{}, bySlot: map[uint64]*gBlock{}}
	tail := uint64(nb*3 + 60) // room for the blocks of the first epoch before the epoch boundary
	for attempt := 0; ; attempt++ {
		ga := genEpoch(rng, dir, genOpts{Epoch: ea, NBlocks: nb, MaxTx: maxTx, SkipPct: skip, LoadedPct: loaded, FramePct: 8,
			NKeys: c19NUniverse, KeySeedBase: base, FirstSlotAt: c19EpochLen - tail})
		if ga.Blocks[len(ga.Blocks)-1].Slot < (ea+1)*c19EpochLen {
			w.epochs = append(w.epochs, ga)
			break
		}
		if attempt > 20 {
			return nil, fmt.Errorf("could not place the first epoch before the boundary")
		}
		tail += 100
	}
	gb := genEpoch(rng, dir, genOpts{Epoch: ea + 1, NBlocks: nb, MaxTx: maxTx, SkipPct: skip, LoadedPct: loaded, FramePct: 8,
		NKeys: c19NUniverse, KeySeedBase: base, FirstBlockAtStart: true})
	w.epochs = append(w.epochs, gb)
	for _, k := range w.epochs[0].Keys {
		w.id(k.PublicKey())
	}
	per := map[[2]uint64]int{}
	for _, ge := range w.epochs {
		for _, b := range ge.Blocks {
			w.bySlot[b.Slot] = b
			for _, t := range b.Txs {
				w.bySig[t.Sig] = t
				st, ld := w.txAccts(t)
				seen := map[int]bool{}
				for _, a := range append(st, ld...) {
					if !seen[a] {
						seen[a] = true
						per[[2]uint64{ge.Epoch, uint64(a)}]++
					}
				}
			}
		}
	}
	for k, n := range per {
		if n > c19MaxPerAcct {
			return nil, fmt.Errorf("generator produced %d entries for account %d in epoch %d (limit %d)", n, k[1], k[0], c19MaxPerAcct)
		}
	}
	w.withG = NewMultiEpoch(&Options{EpochSearchConcurrency: 2})
	w.without = NewMultiEpoch(&Options{EpochSearchConcurrency: 2})
	for _, ge := range w.epochs {
		le, err := buildIndexes(ge, dir, true)
		if err != nil {
			return nil, err
		}
		le.Cache = newVerifCache()
		gdir := filepath.Join(dir, fmt.Sprintf("with-%d", ge.Epoch))
		os.MkdirAll(gdir, 0o755)
		if err := le.load(gdir); err != nil {
			return nil, err
		}
		if le.Ep.gsfaReader == nil {
			return nil, fmt.Errorf("epoch %d loaded without its address index", ge.Epoch)
		}
		w.withG.AddEpoch(ge.Epoch, le.Ep)
		no := *le
		no.GsfaDir = ""
		no.Cache = newVerifCache()
		ndir := filepath.Join(dir, fmt.Sprintf("without-%d", ge.Epoch))
		os.MkdirAll(ndir, 0o755)
		if err := no.load(ndir); err != nil {
			return nil, err
		}
		if no.Ep.gsfaReader != nil {
			return nil, fmt.Errorf("epoch %d: address index loaded although not configured", ge.Epoch)
		}
		w.without.AddEpoch(ge.Epoch, no.Ep)
		if ge == gb {
			w.onlyB = NewMultiEpoch(&Options{EpochSearchConcurrency: 2})
			w.onlyB.AddEpoch(ge.Epoch, no.Ep)
		}
		e1, e2 := le.Ep, no.Ep
		w.closers = append(w.closers, func() { e1.Close(); e2.Close() })
	}
	return w, nil
}

func (w *c19World) close() {
	for _, c := range w.closers {
		c()
	}
}

// ---------------------------------------------------------------------------------------------------------------
// running the real code

var c19LastErr string

type c19Item struct {
	slot uint64
	pos  int
	ph   bool // message without a transaction
	unk  bool // transaction that is not in the archive
	bad  bool // payload differs from the archived bytes
}

func (w *c19World) decodeTxMsgs(msgs []*old_faithful_grpc.TransactionResponse) []c19Item {
	var out []c19Item
	for _, m := range msgs {
		if m.Transaction == nil || len(m.Transaction.Transaction) < 65 {
			out = append(out, c19Item{ph: true, slot: m.Slot})
			continue
		}
		raw := m.Transaction.Transaction
		var sig solana.Signature
		copy(sig[:], raw[1:65])
		t, ok := w.bySig[sig]
		if !ok {
			out = append(out, c19Item{unk: true})
			continue
		}
		it := c19Item{slot: t.Slot, pos: t.Pos}
		if string(raw) != string(t.Raw) || string(m.Transaction.Meta) != string(t.Meta) {
			it.bad = true
		}
		if m.Transaction.Index == nil || int(*m.Transaction.Index) != t.Pos {
			it.bad = true
		}
		// observation only (the property speaks of the transactions sent, not of the envelope): the block-scan path
		// leaves TransactionResponse.slot / .index unset, the index path fills them
		if m.Slot != t.Slot {
			w.slotFieldWrong++
		}
		out = append(out, it)
	}
	return out
}

func c19FmtItems(items []c19Item) string {
	var sb strings.Builder
	fmt.Fprintf(&sb, "ok %d", len(items))
	for _, it := range items {
		switch {
		case it.ph:
			fmt.Fprintf(&sb, " placeholder@%d", it.slot)
		case it.unk:
			sb.WriteString(" unknown")
		default:
			fmt.Fprintf(&sb, " %d:%d", it.slot, it.pos)
			if it.bad {
				sb.WriteString("!payload")
			}
		}
	}
	return sb.String()
}

func c19Hi(s string) *uint64 {
	if s == "-" {
		return nil
	}
	v, err := strconv.ParseUint(s, 10, 64)
	if err != nil {
		panic("bad hi " + s)
	}
	return &v
}

// probeBefore asks the real multi-epoch address-index reader for the entries of one account below a slot in the
// middle of the second epoch and looks whether anything at or above that slot comes back.
func (w *c19World) probeBefore() (bool, error) {
	B := w.epochs[1]
	before := B.Blocks[len(B.Blocks)/2].Slot
	until := B.Blocks[0].Slot
	ctx := context.Background()
	rd, nums := w.withG.getGsfaReadersInEpochDescendingOrderForSlotRange(ctx, until, before)
	if len(nums) == 0 {
		return false, fmt.Errorf("no address-index reader for the second epoch")
	}
	fetch := func(epochNum uint64, oas linkedlog.OffsetAndSizeAndSlot) (*ipldbindcode.Transaction, error) {
		ep, err := w.withG.GetEpoch(epochNum)
		if err != nil {
			return nil, err
		}
		raw, err := ep.GetNodeByOffsetAndSize(ctx, nil, &indexes.OffsetAndSize{Offset: oas.Offset, Size: oas.Size})
		if err != nil {
			return nil, err
		}
		return iplddecoders.DecodeTransaction(raw)
	}
	for a := 0; a < c19NUniverse; a++ {
		above, below := 0, 0
		for _, b := range B.Blocks {
			for _, t := range b.Txs {
				if w.mentions(t, a) {
					if t.Slot >= before {
						above++
					} else {
						below++
					}
				}
			}
		}
		if above == 0 || below == 0 {
			continue
		}
		res, err := rd.GetBeforeUntilSlot(ctx, w.accts[a], 1<<20, before, until, fetch)
		if err != nil {
			return false, err
		}
		gotAbove := 0
		for _, txs := range res {
			for _, t := range txs {
				if uint64(t.Slot) >= before {
					gotAbove++
				}
			}
		}
		return gotAbove == 0, nil
	}
	return false, fmt.Errorf("no account with entries on both sides of the probe slot")
}

// unloadedEpochPhase: a server that serves only the second epoch; ranges that start inside the first (not served) epoch
// and reach into the second.  Every archived block / transaction of the served epoch inside the range must be sent —
// in particular the block at the very first slot of the epoch.
func (w *c19World) unloadedEpochPhase(s *zz.Session) {
	if w.onlyB == nil || len(w.epochs) < 2 {
		return
	}
	gb := w.epochs[1]
	L := gb.Epoch * c19EpochLen
	last := gb.Blocks[len(gb.Blocks)-1].Slot
	for _, lo := range []uint64{L - 40, L - 5, L - 1, L, L + 1} {
		for _, hi := range []uint64{L, L + 1, L + 9, min(last, L+55)} {
			if hi < lo || hi-lo > maxSlotsToStream {
				continue
			}
			hi := hi
			var wantB []uint64
			wantTx := 0
			for _, b := range gb.Blocks {
				if b.Slot >= lo && b.Slot <= hi {
					wantB = append(wantB, b.Slot)
					wantTx += len(b.Txs)
				}
			}
			line := fmt.Sprintf("# only epoch %d loaded: range %d..%d (epoch %d is not served)", gb.Epoch, lo, hi, gb.Epoch-1)
			got := zz.Guard(func() string {
				rec := &recBlockStream{ctx: context.Background()}
				if err := w.onlyB.StreamBlocks(&old_faithful_grpc.StreamBlocksRequest{StartSlot: lo, EndSlot: &hi}, rec); err != nil {
					return "err " + err.Error()
				}
				var ss []uint64
				for _, m := range rec.msgs {
					ss = append(ss, m.Slot)
				}
				return fmt.Sprint(ss)
			})
			s.Count("unloaded-epoch-phase:blocks")
			if got != fmt.Sprint(wantB) {
				s.Violation(fmt.Sprintf("StreamBlocks %d..%d on a server that serves only epoch %d sent slots %s; the archived blocks of that epoch in the range are %v", lo, hi, gb.Epoch, got, wantB),
					"C19:blocks:range-starts-in-unserved-epoch", s.Replay([]string{line}))
			}
			gotTx := zz.Guard(func() string {
				rec := &recTxStream{ctx: context.Background()}
				if err := w.onlyB.StreamTransactions(&old_faithful_grpc.StreamTransactionsRequest{StartSlot: lo, EndSlot: &hi}, rec); err != nil {
					return "err " + err.Error()
				}
				n := 0
				for _, m := range rec.msgs {
					if m.Transaction != nil {
						n++
					}
				}
				return fmt.Sprint(n)
			})
			s.Count("unloaded-epoch-phase:transactions")
			if gotTx != fmt.Sprint(wantTx) {
				s.Violation(fmt.Sprintf("StreamTransactions %d..%d (no filter) on a server that serves only epoch %d sent %s transactions; %d are archived in the range", lo, hi, gb.Epoch, gotTx, wantTx),
					"C19:transactions:range-starts-in-unserved-epoch", s.Replay([]string{line}))
			}
		}
	}
}

// runTx executes one streamtx op on the real code
func (w *c19World) runTx(lo uint64, hi *uint64, gsfaOn bool, direct bool, f c19Filter) (string, []c19Item) {
	multi := w.without
	if gsfaOn {
		multi = w.withG
	}
	absent := !f.Nil && (f.Vote == 0 || f.Failed == 0)
	if absent && w.absentPanics && gsfaOn && len(f.Inc) > 0 {
		// not executed: on this tree the nil dereference was observed on the scan path (probe); on the index path
		// it happens inside `go func(acc string)` and cannot be recovered — the process would die
		return "panic", nil
	}
	var items []c19Item
	out := zz.Guard(func() string {
		rec := &recTxStream{ctx: context.Background()}
		var err error
		if direct {
			end := lo + maxSlotsToStream
			if hi != nil {
				end = *hi
			}
			rd, nums := multi.getGsfaReadersInEpochDescendingOrderForSlotRange(rec.ctx, lo, end)
			err = multi.processSlotTransactions(rec.ctx, rec, lo, end, w.proto(f), rd, len(nums) > 0)
		} else {
			err = multi.StreamTransactions(&old_faithful_grpc.StreamTransactionsRequest{StartSlot: lo, EndSlot: hi, Filter: w.proto(f)}, rec)
		}
		if err != nil {
			c19LastErr = err.Error()
			return "err"
		}
		items = w.decodeTxMsgs(rec.msgs)
		return c19FmtItems(items)
	})
	return out, items
}

type c19BlockItem struct {
	slot uint64
	ntx  int
	bad  bool
}

func (w *c19World) runBlocks(lo uint64, hi *uint64, filt string) (string, []c19BlockItem) {
	var items []c19BlockItem
	out := zz.Guard(func() string {
		rec := &recBlockStream{ctx: context.Background()}
		req := &old_faithful_grpc.StreamBlocksRequest{StartSlot: lo, EndSlot: hi}
		if filt != "nil" {
			req.Filter = &old_faithful_grpc.StreamBlocksFilter{}
			for _, a := range c19ParseIds(filt) {
				req.Filter.AccountInclude = append(req.Filter.AccountInclude, w.accts[a].String())
			}
		}
		if err := w.without.StreamBlocks(req, rec); err != nil {
			c19LastErr = err.Error()
			return "err"
		}
		var sb strings.Builder
		fmt.Fprintf(&sb, "ok %d", len(rec.msgs))
		for _, m := range rec.msgs {
			it := c19BlockItem{slot: m.Slot, ntx: len(m.Transactions)}
			if gb := w.bySlot[m.Slot]; gb == nil || len(gb.Txs) != len(m.Transactions) || m.ParentSlot != gb.Parent || uint64(m.BlockTime) != gb.Time ||
				string(m.Blockhash) != string(gb.LastEntryHash) {
				it.bad = true
			} else {
				for i, t := range m.Transactions {
					if string(t.Transaction) != string(gb.Txs[i].Raw) || string(t.Meta) != string(gb.Txs[i].Meta) {
						it.bad = true
					}
				}
			}
			items = append(items, it)
			fmt.Fprintf(&sb, " %d/%d", it.slot, it.ntx)
			if it.bad {
				sb.WriteString("!content")
			}
		}
		return sb.String()
	})
	return out, items
}

// ---------------------------------------------------------------------------------------------------------------
// oracle (ground truth only)

func (w *c19World) blocksIn(lo, end uint64) []*gBlock {
	var out []*gBlock
	for _, ge := range w.epochs {
		for _, b := range ge.Blocks {
			if b.Slot >= lo && b.Slot <= end {
				out = append(out, b)
			}
		}
	}
	return out
}

func (w *c19World) expectTx(lo, end uint64, f c19Filter) []*gTx {
	var out []*gTx
	for _, b := range w.blocksIn(lo, end) {
		for _, t := range b.Txs {
			if w.want(f, t) {
				out = append(out, t)
			}
		}
	}
	return out
}

// newerEntries counts the index entries of account a (in the epochs a query for [lo,end] consults) that the
// newest-first walk meets before reaching t
func (w *c19World) newerEntries(a int, t *gTx, lo, end uint64) int {
	n := 0
	for _, ge := range w.epochs {
		if ge.Epoch < lo/c19EpochLen || ge.Epoch > end/c19EpochLen {
			continue
		}
		for _, b := range ge.Blocks {
			for _, u := range b.Txs {
				if w.honoursBefore && u.Slot > end {
					continue
				}
				if (u.Slot > t.Slot || (u.Slot == t.Slot && u.Pos > t.Pos)) && w.mentions(u, a) {
					n++
				}
			}
		}
	}
	return n
}

type c19Verdict struct {
	key, what string
}

// judgeTx compares what was sent with the property; returns the violations (stable keys)
func (w *c19World) judgeTx(out string, items []c19Item, lo uint64, hi *uint64, gsfaOn bool, f c19Filter) []c19Verdict {
	end := lo + maxSlotsToStream
	if hi != nil {
		end = *hi
	}
	path := "scan"
	if gsfaOn && !f.Nil && len(f.Inc) > 0 {
		path = "index"
	}
	var vs []c19Verdict
	if out == "panic" {
		if !f.Nil && (f.Vote == 0 || f.Failed == 0) {
			return []c19Verdict{{"C19:filter-flag-absent:panic", "a filter message whose optional vote/failed flag is absent crashes the stream (nil dereference): " + zz.LastPanic}}
		}
		return []c19Verdict{{"C19:panic:" + path, "the stream panicked: " + zz.LastPanic}}
	}
	if out == "err" {
		return []c19Verdict{{"C19:stream-error:" + path, "the stream ended with an error on a well-formed archive: " + c19LastErr}}
	}
	exp := w.expectTx(lo, end, f)
	var real []c19Item
	for _, it := range items {
		switch {
		case it.ph:
			vs = append(vs, c19Verdict{"C19:placeholder-message", fmt.Sprintf("a message without a transaction (slot field %d) was sent; %d archived transactions satisfy the filter", it.slot, len(exp))})
		case it.unk:
			vs = append(vs, c19Verdict{"C19:not-archived:" + path, "a transaction that is not in the archive was sent"})
		default:
			if it.bad {
				vs = append(vs, c19Verdict{"C19:payload-differs:" + path, fmt.Sprintf("transaction %d:%d was sent with bytes / metadata / index different from the archive", it.slot, it.pos)})
			}
			real = append(real, it)
		}
	}
	type sp struct {
		s uint64
		p int
	}
	gotSet, expSet := map[sp]int{}, map[sp]*gTx{}
	for _, it := range real {
		gotSet[sp{it.slot, it.pos}]++
	}
	for _, t := range exp {
		expSet[sp{t.Slot, t.Pos}] = t
	}
	var missing []*gTx
	for _, t := range exp {
		if gotSet[sp{t.Slot, t.Pos}] == 0 {
			missing = append(missing, t)
		}
	}
	nExtra, nDup := 0, 0
	var firstExtra sp
	for k, n := range gotSet {
		if expSet[k] == nil {
			if nExtra == 0 || k.s < firstExtra.s || (k.s == firstExtra.s && k.p < firstExtra.p) {
				firstExtra = k
			}
			nExtra++
		} else if n > 1 {
			nDup++
		}
	}
	if nExtra > 0 {
		t := w.bySlot[firstExtra.s].Txs[firstExtra.p]
		why := "does not satisfy the filter"
		if firstExtra.s < lo || firstExtra.s > end {
			why = "lies outside the range"
		}
		vs = append(vs, c19Verdict{"C19:unwanted-sent:" + path, fmt.Sprintf("%d transactions were sent that must not be, first %d:%d (vote=%v failed=%v) %s", nExtra, firstExtra.s, firstExtra.p, t.IsVote, t.Failed, why)})
	}
	if nDup > 0 {
		vs = append(vs, c19Verdict{"C19:duplicate-sent:" + path, fmt.Sprintf("%d transactions were sent more than once", nDup)})
	}
	if len(missing) > 0 {
		key := "C19:wanted-missing:" + path
		what := fmt.Sprintf("%d of %d transactions that satisfy the filter were not sent, first %d:%d (vote=%v failed=%v)", len(missing), len(exp), missing[0].Slot, missing[0].Pos, missing[0].IsVote, missing[0].Failed)
		if path == "scan" {
			// does everything that is missing lie behind the first slot without a block?
			gap := uint64(0)
			found := false
			for s := lo; s <= end; s++ {
				if w.bySlot[s] == nil {
					gap, found = s, true
					break
				}
			}
			allBehind := found
			for _, t := range missing {
				if t.Slot < gap {
					allBehind = false
				}
			}
			nothingBehind := true
			for _, it := range real {
				if found && it.slot > gap {
					nothingBehind = false
				}
			}
			if allBehind && nothingBehind {
				key = "C19:scan-ends-at-skipped-slot"
				what += fmt.Sprintf("; nothing was sent behind slot %d, the first slot of the range without a block", gap)
			}
		} else if nExtra == 0 {
			// index path: is every lost transaction one that lies behind ≥ batch newer entries of each included
			// account that mentions it?
			window := true
			for _, t := range missing {
				for _, a := range f.Inc {
					if w.mentions(t, a) && w.newerEntries(a, t, lo, end) < c19Batch {
						window = false
					}
				}
			}
			if window {
				key = c19KeyWindow
				what += fmt.Sprintf("; each of them lies behind at least %d newer index entries of every included account that mentions it", c19Batch)
			}
		}
		vs = append(vs, c19Verdict{key, what})
	}
	if len(vs) == 0 {
		// same multiset: check the order
		for i := 1; i < len(real); i++ {
			a, b := real[i-1], real[i]
			if a.slot > b.slot || (a.slot == b.slot && a.pos >= b.pos) {
				vs = append(vs, c19Verdict{"C19:order:" + path, fmt.Sprintf("%d:%d was sent before %d:%d", a.slot, a.pos, b.slot, b.pos)})
				break
			}
		}
	}
	return vs
}

func (w *c19World) judgeBlocks(out string, items []c19BlockItem, lo uint64, hi *uint64, filt string) []c19Verdict {
	end := lo + maxSlotsToStream
	if hi != nil {
		end = *hi
	}
	if out == "panic" {
		return []c19Verdict{{"C19:blocks:panic", "StreamBlocks panicked: " + zz.LastPanic}}
	}
	if out == "err" {
		return []c19Verdict{{"C19:blocks:stream-error", "StreamBlocks ended with an error on a well-formed archive: " + c19LastErr}}
	}
	var exp []uint64
	inc := []int(nil)
	if filt != "nil" {
		inc = c19ParseIds(filt)
	}
	for _, b := range w.blocksIn(lo, end) {
		ok := len(inc) == 0
		for _, t := range b.Txs {
			for _, a := range inc {
				if w.mentions(t, a) {
					ok = true
				}
			}
		}
		if ok {
			exp = append(exp, b.Slot)
		}
	}
	var got []uint64
	var vs []c19Verdict
	for _, it := range items {
		got = append(got, it.slot)
		if it.bad {
			vs = append(vs, c19Verdict{"C19:blocks:content-differs", fmt.Sprintf("block %d was sent with content different from the archive", it.slot)})
		}
	}
	if fmt.Sprint(got) != fmt.Sprint(exp) {
		sg, se := append([]uint64(nil), got...), append([]uint64(nil), exp...)
		sort.Slice(sg, func(i, j int) bool { return sg[i] < sg[j] })
		key := "C19:blocks:wrong-set"
		if fmt.Sprint(sg) == fmt.Sprint(se) {
			key = "C19:blocks:order"
		}
		vs = append(vs, c19Verdict{key, fmt.Sprintf("blocks sent %v, archived blocks of the range matching the filter %v", got, exp)})
	}
	return vs
}

// ---------------------------------------------------------------------------------------------------------------
// generators

func c19Subsets(n, maxSize int) [][]int {
	out := [][]int{nil}
	for i := 0; i < n; i++ {
		out = append(out, []int{i})
	}
	if maxSize >= 2 {
		for i := 0; i < n; i++ {
			for j := i + 1; j < n; j++ {
				out = append(out, []int{i, j})
			}
		}
	}
	return out
}

func c19AllFilters() []c19Filter {
	subs := c19Subsets(c19NUniverse, 2)
	fs := []c19Filter{{Nil: true}}
	for v := 0; v < 3; v++ {
		for fl := 0; fl < 3; fl++ {
			for _, i := range subs {
				for _, x := range subs {
					for _, r := range subs {
						fs = append(fs, c19Filter{Vote: v, Failed: fl, Inc: i, Exc: x, Req: r})
					}
				}
			}
		}
	}
	return fs
}

func c19RandFilter(rng *zz.RNG) c19Filter {
	subs := c19Subsets(c19NUniverse, 2)
	pick := func(emptyPct int) []int {
		if rng.Intn(100) < emptyPct {
			return nil
		}
		s := subs[1+rng.Intn(len(subs)-1)]
		if rng.Bool() && len(s) == 2 {
			return []int{s[1], s[0]} // order of the list must not matter
		}
		return s
	}
	return c19Filter{Vote: rng.Intn(3), Failed: rng.Intn(3), Inc: pick(35), Exc: pick(60), Req: pick(60)}
}

type c19Range struct {
	kind string
	lo   uint64
	hi   string // decimal or "-"
}

func c19Ranges(w *c19World, rng *zz.RNG, nRandom int) []c19Range {
	A, B := w.epochs[0], w.epochs[1]
	// the first epoch starts in mid-epoch: the generator gives its first block a parent slot of the same epoch that
	// is not archived (no real archive looks like that; the gRPC GetBlock answers Internal for it), so the ranges
	// start at its second block
	a0, ak := A.Blocks[1].Slot, A.Blocks[len(A.Blocks)-1].Slot
	b0, bm := B.Blocks[0].Slot, B.Blocks[len(B.Blocks)-1].Slot
	bound := B.Epoch * c19EpochLen
	u := func(v uint64) string { return strconv.FormatUint(v, 10) }
	var rs []c19Range
	add := func(kind string, lo, hi uint64) {
		if lo < a0 && lo >= A.Epoch*c19EpochLen {
			lo = a0 // never the first block of the mid-epoch fixture (see above): a gap right behind it would pull it in
		}
		rs = append(rs, c19Range{kind, lo, u(hi)})
	}
	add("single-first-block-A", a0, a0)
	add("single-last-block-A", ak, ak)
	add("single-first-block-B", b0, b0)
	add("single-last-block-B", bm, bm)
	// a block with several transactions
	for _, ge := range w.epochs {
		for _, b := range ge.Blocks {
			if len(b.Txs) >= 4 && b.Slot >= a0 {
				add("single-busy-block", b.Slot, b.Slot)
				break
			}
		}
	}
	// gaps
	var gaps [][2]uint64
	for _, ge := range w.epochs {
		for i := 1; i < len(ge.Blocks); i++ {
			if ge.Blocks[i].Slot > ge.Blocks[i-1].Slot+1 {
				gaps = append(gaps, [2]uint64{ge.Blocks[i-1].Slot + 1, ge.Blocks[i].Slot - 1})
			}
		}
	}
	if len(gaps) > 0 {
		g := gaps[rng.Intn(len(gaps))]
		add("single-skipped-slot", g[0], g[0])
		add("only-skipped-slots", g[0], g[1])
		add("starts-in-gap", g[0], g[1]+6)
		if g[0] >= 7 {
			add("ends-in-gap", g[0]-7, g[1])
		}
		widest := gaps[0]
		for _, x := range gaps {
			if x[1]-x[0] > widest[1]-widest[0] {
				widest = x
			}
		}
		add("only-skipped-slots-widest", widest[0], widest[1])
		add("around-widest-gap", widest[0]-1, widest[1]+1)
	}
	add("empty-range", a0+5, a0+4)
	add("empty-range-far", b0+9, b0+2)
	add("whole-epoch-A", a0, ak)
	add("whole-epoch-B", b0, bm)
	add("both-epochs", a0, bm)
	add("across-boundary", A.Blocks[len(A.Blocks)-6].Slot, B.Blocks[5].Slot)
	add("across-boundary-tight", ak, b0)
	add("boundary-slot-only", bound, bound)
	add("last-slot-of-epoch-A", bound-1, bound-1)
	add("boundary-pair", bound-1, bound)
	add("tail-of-A-no-blocks", ak+1, bound-1)
	add("late-in-A", A.Blocks[len(A.Blocks)-9].Slot, ak)
	add("late-in-B", B.Blocks[len(B.Blocks)-9].Slot, bm)
	add("late-in-B-beyond", B.Blocks[len(B.Blocks)-4].Slot, bm+30)
	add("early-in-A", a0, A.Blocks[9].Slot)
	add("early-in-B", b0, B.Blocks[8].Slot)
	add("beyond-last-block", bm+1, bm+40)
	add("unloaded-epoch-after", (B.Epoch+1)*c19EpochLen, (B.Epoch+1)*c19EpochLen+20)
	add("unloaded-epoch-before-into-A", A.Epoch*c19EpochLen-10, A.Epoch*c19EpochLen+10)
	rs = append(rs, c19Range{"default-end-A", A.Blocks[len(A.Blocks)/2].Slot, "-"})
	rs = append(rs, c19Range{"default-end-across", bound - 40, "-"})
	rs = append(rs, c19Range{"default-end-late-B", B.Blocks[len(B.Blocks)-3].Slot, "-"})
	for i := 0; i < nRandom; i++ {
		var lo uint64
		switch rng.Intn(3) {
		case 0:
			lo = a0 + uint64(rng.Intn(int(ak-a0)+1))
		case 1:
			lo = b0 + uint64(rng.Intn(int(bm-b0)+1))
		default:
			lo = bound - uint64(rng.Intn(60))
		}
		add("random", lo, lo+uint64(rng.Intn(70)))
	}
	// never scan more than 1200 slots
	var out []c19Range
	for _, r := range rs {
		if r.hi != "-" {
			h, _ := strconv.ParseUint(r.hi, 10, 64)
			if h > r.lo && h-r.lo > 1200 {
				continue
			}
		}
		out = append(out, r)
	}
	return out
}

// ---------------------------------------------------------------------------------------------------------------
// the test

type c19Run struct {
	s       *zz.Session
	w       *c19World
	header  []string // archive lines (for replay files: only the world line is needed)
	world   c19WorldOpts
	results map[string][]c19Item // streamtx results by "lo hi filter" for the gsfa-dependence comparison
	outs    map[string]string
	window  map[string]bool
}

func (r *c19Run) viol(v c19Verdict, line string) {
	r.s.Count("violation " + v.key)
	r.s.Violation(v.what+"  ["+line+"]", v.key, r.s.Replay([]string{r.world.line(), line}))
}

func (r *c19Run) describe() {
	w := r.w
	op := func(l string) { r.s.Op(l, "ok", false) }
	op(r.world.line() + fmt.Sprintf(" before=%d", map[bool]int{false: 0, true: 1}[w.honoursBefore]))
	for i, k := range w.accts {
		op(fmt.Sprintf("acct %d %s", i, k))
	}
	for _, ge := range w.epochs {
		op(fmt.Sprintf("epoch %d", ge.Epoch))
		for _, b := range ge.Blocks {
			op(fmt.Sprintf("block %d %d", b.Slot, len(b.Txs)))
			for _, t := range b.Txs {
				st, ld := w.txAccts(t)
				bi := func(b bool) int {
					if b {
						return 1
					}
					return 0
				}
				op(fmt.Sprintf("tx %d %d %d %d %s %s", t.Slot, t.Pos, bi(t.IsVote), bi(t.Failed), c19Ids(st), c19Ids(ld)))
				r.s.Count("archive transactions")
				if t.IsVote {
					r.s.Count("archive vote transactions")
				}
				if t.Failed {
					r.s.Count("archive failed transactions")
				}
				if len(ld) > 0 {
					r.s.Count("archive transactions with table-loaded accounts")
					only := true
					for _, a := range ld {
						for _, b := range st {
							if a == b {
								only = false
							}
						}
					}
					if only {
						r.s.Count("archive transactions with an account that is only table-loaded")
					}
				}
			}
		}
	}
}

func (r *c19Run) streamTx(lo uint64, hi string, gsfaOn, direct bool, f c19Filter) {
	g, via := 0, "rpc"
	if gsfaOn {
		g = 1
	}
	if direct {
		via = "direct"
	}
	line := fmt.Sprintf("streamtx %d %s gsfa=%d via=%s %s", lo, hi, g, via, f)
	out, items := r.w.runTx(lo, c19Hi(hi), gsfaOn, direct, f)
	vs := r.w.judgeTx(out, items, lo, c19Hi(hi), gsfaOn, f)
	r.s.Op(line, out, strings.HasPrefix(out, "ok") && !strings.HasPrefix(out, "ok 0") && len(vs) == 0)
	r.s.Count("streamtx ops")
	if gsfaOn && !f.Nil && len(f.Inc) > 0 {
		r.s.Count("streamtx ops on the index path")
	}
	if len(vs) == 0 {
		r.s.Count("streamtx ops conforming")
	}
	for _, v := range vs {
		r.viol(v, line)
	}
	// third sentence of the property: the set does not depend on the address index
	key := fmt.Sprintf("%d %s %s", lo, hi, f)
	window := false
	for _, v := range vs {
		if v.key == c19KeyWindow {
			window = true
		}
	}
	r.outs[key+fmt.Sprint(gsfaOn)] = out
	r.results[key+fmt.Sprint(gsfaOn)] = items
	r.window[key+fmt.Sprint(gsfaOn)] = window
	outG, okG := r.outs[key+"true"]
	outN, okN := r.outs[key+"false"]
	if okG && okN && strings.HasPrefix(outG, "ok") && strings.HasPrefix(outN, "ok") && !r.window[key+"true"] {
		set := func(l []c19Item) string {
			var s []string
			for _, it := range l {
				if !it.ph && !it.unk {
					s = append(s, fmt.Sprintf("%d:%d", it.slot, it.pos))
				}
			}
			sort.Strings(s)
			return strings.Join(s, " ")
		}
		withG, withoutG := r.results[key+"true"], r.results[key+"false"]
		if set(withG) != set(withoutG) {
			r.viol(c19Verdict{"C19:set-depends-on-address-index", fmt.Sprintf("with the address index %d transactions are sent, without it %d, and the sets differ", len(withG), len(withoutG))}, line)
		}
	}
}

func (r *c19Run) streamBlocks(lo uint64, hi string, filt string) {
	line := fmt.Sprintf("streamblocks %d %s %s", lo, hi, filt)
	out, items := r.w.runBlocks(lo, c19Hi(hi), filt)
	vs := r.w.judgeBlocks(out, items, lo, c19Hi(hi), filt)
	r.s.Op(line, out, strings.HasPrefix(out, "ok") && !strings.HasPrefix(out, "ok 0") && len(vs) == 0)
	r.s.Count("streamblocks ops")
	for _, v := range vs {
		r.viol(v, line)
	}
}

func (r *c19Run) execLine(l string) {
	w := strings.Fields(l)
	if len(w) == 0 {
		return
	}
	switch w[0] {
	case "streamtx":
		lo, _ := strconv.ParseUint(w[1], 10, 64)
		r.streamTx(lo, w[2], w[3] == "gsfa=1", w[4] == "via=direct", c19ParseFilter(w[5:]))
	case "streamblocks":
		lo, _ := strconv.ParseUint(w[1], 10, 64)
		r.streamBlocks(lo, w[2], w[3])
	}
}

func (r *c19Run) probe() {
	// one recoverable execution of a filter message with both optional flags absent (scan path, single slot)
	b := r.w.epochs[1].Blocks[0] // holds at least one transaction
	out, _ := r.w.runTx(b.Slot, &b.Slot, false, false, c19Filter{})
	r.w.absentPanics = out == "panic"
	if r.w.absentPanics {
		r.s.Count("probe: filter with absent flags panics")
	}
}

func (r *c19Run) generate(rng *zz.RNG, thorough bool) {
	w := r.w
	nRandom, perRange := 10, 14
	if thorough {
		nRandom, perRange = 40, 40
	}
	ranges := c19Ranges(w, rng, nRandom)
	fixed := []c19Filter{{Nil: true}, {}}
	for v := 0; v < 3; v++ {
		for fl := 0; fl < 3; fl++ {
			if v+fl > 0 {
				fixed = append(fixed, c19Filter{Vote: v, Failed: fl})
			}
		}
	}
	for ri, rg := range ranges {
		r.s.Count("range " + rg.kind)
		fs := append([]c19Filter(nil), fixed...)
		// every account alone in each list
		a := ri % c19NUniverse
		fs = append(fs, c19Filter{Vote: 1, Failed: 1, Inc: []int{a}}, c19Filter{Vote: 1, Failed: 1, Exc: []int{a}}, c19Filter{Vote: 1, Failed: 1, Req: []int{a}},
			c19Filter{Vote: 2, Failed: 2, Inc: []int{a, (a + 1) % c19NUniverse}})
		for i := 0; i < perRange; i++ {
			fs = append(fs, c19RandFilter(rng))
		}
		for fi, f := range fs {
			direct := (ri+fi)%5 == 4
			r.streamTx(rg.lo, rg.hi, false, direct, f)
			r.streamTx(rg.lo, rg.hi, true, direct, f)
		}
		// blocks
		r.streamBlocks(rg.lo, rg.hi, "nil")
		r.streamBlocks(rg.lo, rg.hi, "-")
		for _, s := range c19Subsets(c19NUniverse, 2)[1:] {
			if thorough || rng.Intn(3) == 0 || len(s) == 1 && s[0] == a {
				r.streamBlocks(rg.lo, rg.hi, c19Ids(s))
			}
		}
	}
	// all filter combinations over the 4-account universe on one short range that holds vote / non-vote,
	// failed / successful and table-loaded transactions (the quick tier takes a seeded third of them)
	B := w.epochs[1]
	lo := B.Blocks[len(B.Blocks)-7].Slot
	hi := strconv.FormatUint(B.Blocks[len(B.Blocks)-1].Slot, 10)
	all := c19AllFilters()
	for i, f := range all {
		if !thorough && i > 0 && rng.Intn(8) != 0 {
			continue
		}
		r.s.Count("filter enumeration")
		r.streamTx(lo, hi, false, false, f)
		r.streamTx(lo, hi, true, false, f)
	}
}

func TestVerifC19(t *testing.T) {
	s := zz.NewSession()
	defer s.Close()
	dir, err := os.MkdirTemp("", "verif-c19-")
	if err != nil {
		t.Fatal(err)
	}
	defer os.RemoveAll(dir)

	var worlds []c19WorldOpts
	var replayLines []string
	if rp := zz.ReplayFile(); rp != "" {
		fh, err := os.Open(rp)
		if err != nil {
			t.Fatal(err)
		}
		sc := bufio.NewScanner(fh)
		sc.Buffer(make([]byte, 1<<20), 1<<26)
		for sc.Scan() {
			l := strings.TrimSpace(sc.Text())
			if l == "" || strings.HasPrefix(l, "#") {
				continue
			}
			if strings.HasPrefix(l, "world ") {
				worlds = append(worlds, c19ParseWorld(strings.Fields(l)))
			}
			replayLines = append(replayLines, l)
		}
		fh.Close()
		if len(worlds) != 1 {
			t.Fatalf("replay file must hold exactly one world line, has %d", len(worlds))
		}
	} else {
		n := 1
		if zz.Thorough() {
			n = 3
		}
		for v := 0; v < n; v++ {
			worlds = append(worlds, c19WorldOpts{seed: zz.Seed(), variant: v, tier: zz.Tier()})
		}
	}
	for wi, wo := range worlds {
		wdir := filepath.Join(dir, fmt.Sprintf("w%d", wi))
		os.MkdirAll(wdir, 0o755)
		w, err := c19Build(wdir, wo)
		// The shared generator can emit the same DataFrame object twice (two transactions with byte-identical
		// metadata split into the same number of frames); `index all` refuses such a CAR ("hash collision" while
		// mining the cid-to-offset bucket).  That is a matter of the fixture / of C01, not of streaming: take the
		// next deterministic sub-variant.
		for err != nil && replayLines == nil && wo.try < 8 && strings.Contains(err.Error(), "hash collision") {
			s.Count("fixture retries (index all refused a CAR holding an object twice)")
			os.RemoveAll(wdir)
			os.MkdirAll(wdir, 0o755)
			wo.try++
			w, err = c19Build(wdir, wo)
		}
		if err != nil {
			s.Op(wo.line(), "build-failed", false)
			s.Violation("generated epochs could not be indexed / loaded by the real code: "+err.Error(), "C19:fixture-failed", s.Replay([]string{wo.line()}))
			continue
		}
		if hb, err := w.probeBefore(); err != nil {
			s.Op(wo.line(), "probe-failed", false)
			s.Violation("the address-index reader could not be probed: "+err.Error(), "C19:fixture-failed", s.Replay([]string{wo.line()}))
			w.close()
			continue
		} else {
			w.honoursBefore = hb
			if hb {
				s.Count("probe: GetBeforeUntilSlot honours `before`")
			} else {
				s.Count("probe: GetBeforeUntilSlot ignores `before` inside an epoch")
			}
		}
		r := &c19Run{s: s, w: w, world: wo, results: map[string][]c19Item{}, outs: map[string]string{}, window: map[string]bool{}}
		r.describe()
		r.probe()
		if replayLines != nil {
			for _, l := range replayLines {
				r.execLine(l)
			}
		} else {
			r.generate(zz.NewRNG(wo.seed*31+uint64(wo.variant)+5), wo.tier == "thorough")
			w.unloadedEpochPhase(s)
		}
		s.Add("observation: messages whose envelope slot field differs from the transaction's slot", w.slotFieldWrong)
		w.close()
		os.RemoveAll(wdir)
	}
}

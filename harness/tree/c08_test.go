package main

// C08 harness — "no request can crash the server".
//
// Requests are generated as trees (JSON values, gRPC message shapes), serialised, and sent through the real
// entry points: newMultiEpochHandler(multi, nil) with a fasthttp.RequestCtx parsed from wire bytes, the gRPC
// methods of *MultiEpoch and the bidirectional Get dispatcher with in-memory streams; with zero, one and two
// epochs loaded.  Every call runs under recover; the outcome class (HTTP status + JSON-RPC error code / gRPC
// status, or `panic`) is compared with the Lean model's answer for the same op line.  A panic on the real side
// is the property's violation; its key names the panic site taken from the stack trace.
//
// Ops that could panic inside a goroutine of the server (the gsfa branch of StreamTransactions) are executed in
// a child process (the same test binary, the fixture re-opened from disk), because such a panic cannot be
// recovered: it kills the process — which is exactly what the property forbids.

import (
	"bufio"
	"bytes"
	"context"
	"encoding/hex"
	"encoding/json"
	"errors"
	"flag"
	"fmt"
	"io"
	"os"
	"os/exec"
	"path/filepath"
	"runtime/debug"
	"sort"
	"strconv"
	"strings"
	"sync"
	"sync/atomic"
	"testing"
	"time"

	"github.com/gagliardetto/solana-go"
	"github.com/ipfs/go-cid"
	carv1 "github.com/ipld/go-car"
	"github.com/ipld/go-ipld-prime/datamodel"
	cidlink "github.com/ipld/go-ipld-prime/linking/cid"
	"github.com/mr-tron/base58"
	"github.com/rpcpool/yellowstone-faithful/ipld/ipldbindcode"
	"github.com/rpcpool/yellowstone-faithful/iplddecoders"
	old_faithful_grpc "github.com/rpcpool/yellowstone-faithful/old-faithful-proto/old-faithful-grpc"
	"github.com/rpcpool/yellowstone-faithful/third_party/solana_proto/confirmed_block"
	"github.com/rpcpool/yellowstone-faithful/tooling"
	"github.com/rpcpool/yellowstone-faithful/txstatus"
	zz "github.com/rpcpool/yellowstone-faithful/zzverif"
	"github.com/valyala/fasthttp"
	"google.golang.org/grpc/codes"
	"google.golang.org/grpc/metadata"
	"google.golang.org/grpc/status"
	"google.golang.org/protobuf/proto"
	"k8s.io/klog/v2"
)

// ---------------------------------------------------------------------------------------------------------
// panic capture: outcome "panic", plus the site (first frame of this repository below the panic) and the kind

type c08Panic struct {
	site string // e.g. parseGetBlockRequest
	kind string // nilptr | must | index | assert | other
	msg  string
}

var c08LastPanic *c08Panic

func c08Site(stack string, msg string) *c08Panic {
	p := &c08Panic{site: "unknown", kind: "other", msg: msg}
	switch {
	case strings.Contains(msg, "nil pointer dereference"):
		p.kind = "nilptr"
	case strings.Contains(msg, "index out of range"), strings.Contains(msg, "slice bounds out of range"):
		p.kind = "index"
	case strings.Contains(msg, "interface conversion"):
		p.kind = "assert"
	}
	lines := strings.Split(stack, "\n")
	start := 0
	for i, l := range lines {
		if strings.HasPrefix(l, "panic(") {
			start = i + 1
		}
	}
	for i := start; i < len(lines); i++ {
		l := lines[i]
		if strings.HasPrefix(l, "\t") || l == "" {
			continue
		}
		if strings.Contains(l, "MustPublicKeyFromBase58") || strings.Contains(l, "MustSignatureFromBase58") {
			p.kind = "must"
		}
		fn := l
		if k := strings.LastIndex(fn, "("); k > 0 {
			fn = fn[:k]
		}
		if strings.HasPrefix(fn, "github.com/rpcpool/yellowstone-faithful/") {
			if p.site == "unknown" && !strings.Contains(fn, "zzverif") {
				p.site = strings.TrimPrefix(fn, "github.com/rpcpool/yellowstone-faithful/")
			}
			continue
		}
		if strings.HasPrefix(fn, "main.") || strings.HasPrefix(fn, "github.com/rpcpool/yellowstone-faithful.") {
			if strings.Contains(fn, "c08") || strings.Contains(fn, "zzverif") || strings.Contains(fn, "TestVerif") {
				break
			}
			fn = strings.TrimPrefix(fn, "github.com/rpcpool/yellowstone-faithful.")
			fn = strings.TrimPrefix(fn, "github.com/rpcpool/yellowstone-faithful/")
			fn = strings.TrimPrefix(fn, "main.")
			fn = strings.NewReplacer("(*MultiEpoch).", "", "(*GetBlockRequest).", "", "(*GetTransactionRequest).", "", "(...)", "").Replace(fn)
			p.site = fn
			break
		}
	}
	return p
}

func (p *c08Panic) key() string {
	if strings.HasPrefix(p.site, "processSlotTransactions.func1") && p.kind == "nilptr" {
		// the vote/failed optionals of StreamTransactionsFilter (owned by the C19 fix)
		return "C08:grpc-filter-absent-optionals"
	}
	return "C08:panic:" + p.site + ":" + p.kind
}

func c08Guard(f func() string) (out string) {
	defer func() {
		if r := recover(); r != nil {
			c08LastPanic = c08Site(string(debug.Stack()), fmt.Sprint(r))
			out = "panic"
		}
	}()
	c08LastPanic = nil
	return f()
}

// ---------------------------------------------------------------------------------------------------------
// JSON trees

type c08J struct {
	k   byte // z b n s a o
	b   bool
	num string // literal
	s   string
	arr []*c08J
	obj []c08KV
}
type c08KV struct {
	k string
	v *c08J
}

func jNull() *c08J               { return &c08J{k: 'z'} }
func jBool(b bool) *c08J         { return &c08J{k: 'b', b: b} }
func jNum(lit string) *c08J      { return &c08J{k: 'n', num: lit} }
func jInt(v uint64) *c08J        { return &c08J{k: 'n', num: strconv.FormatUint(v, 10)} }
func jStr(s string) *c08J        { return &c08J{k: 's', s: s} }
func jArr(xs ...*c08J) *c08J     { return &c08J{k: 'a', arr: xs} }
func jObj(kvs ...c08KV) *c08J    { return &c08J{k: 'o', obj: kvs} }
func kv(k string, v *c08J) c08KV { return c08KV{k, v} }
func (j *c08J) with(k string, v *c08J) *c08J {
	o := &c08J{k: 'o', obj: append(append([]c08KV(nil), j.obj...), c08KV{k, v})}
	return o
}

func (j *c08J) write(b *bytes.Buffer) {
	switch j.k {
	case 'z':
		b.WriteString("null")
	case 'b':
		if j.b {
			b.WriteString("true")
		} else {
			b.WriteString("false")
		}
	case 'n':
		b.WriteString(j.num)
	case 's':
		e, _ := json.Marshal(j.s)
		b.Write(e)
	case 'a':
		b.WriteByte('[')
		for i, x := range j.arr {
			if i > 0 {
				b.WriteByte(',')
			}
			x.write(b)
		}
		b.WriteByte(']')
	case 'o':
		b.WriteByte('{')
		for i, x := range j.obj {
			if i > 0 {
				b.WriteByte(',')
			}
			e, _ := json.Marshal(x.k)
			b.Write(e)
			b.WriteByte(':')
			x.v.write(b)
		}
		b.WriteByte('}')
	}
}

func (j *c08J) bytes() []byte {
	var b bytes.Buffer
	j.write(&b)
	return b.Bytes()
}

// numTok: what the model needs of a number literal — the Go conversions the code applies to it
// (float64 parse ok, int64 parse ok, uint64(float64)); number decoding is third-party / runtime behaviour.
func numTok(lit string) string {
	f, err := strconv.ParseFloat(lit, 64)
	flags := 0
	if err == nil {
		flags |= 1
	}
	if _, err := strconv.ParseInt(lit, 10, 64); err == nil {
		flags |= 2
	}
	return fmt.Sprintf("n%d:%d", uint64(f), flags)
}

func hx(s string) string {
	if s == "" {
		return "-"
	}
	return hex.EncodeToString([]byte(s))
}

// tokens: prefix notation, comma separated (one word of the op line)
func (j *c08J) tok(out *[]string) {
	switch j.k {
	case 'z':
		*out = append(*out, "z")
	case 'b':
		if j.b {
			*out = append(*out, "t")
		} else {
			*out = append(*out, "f")
		}
	case 'n':
		*out = append(*out, numTok(j.num))
	case 's':
		*out = append(*out, "s"+hx(j.s))
	case 'a':
		*out = append(*out, fmt.Sprintf("A%d", len(j.arr)))
		for _, x := range j.arr {
			x.tok(out)
		}
	case 'o':
		*out = append(*out, fmt.Sprintf("O%d", len(j.obj)))
		for _, x := range j.obj {
			*out = append(*out, "k"+hx(x.k))
			x.v.tok(out)
		}
	}
}

func (j *c08J) tokens() string {
	var out []string
	j.tok(&out)
	return strings.Join(out, ",")
}

// ---------------------------------------------------------------------------------------------------------
// the world: fixture epochs and three servers (0, 1, 2 epochs)

type c08World struct {
	dir      string
	eps      []*loadedEpoch
	multis   []*MultiEpoch
	handlers []func(*fasthttp.RequestCtx)
	epochsOf [][]uint64
	gsfaOf   []bool
	cur      int
	// ground truth pools
	slots    []uint64 // present
	absent   []uint64 // inside a loaded epoch but skipped
	sigs     []solana.Signature
	addrs    []solana.PublicKey
	txBytes  [][]byte // raw transactions (for blockContainsAccounts)
	metaRaw  [][]byte
	txStatic [][]solana.PublicKey
	txLoaded [][]solana.PublicKey
	cfgPaths []string
	// a fourth server: one epoch whose blocks carry Rewards nodes (commission "", "7", "abc", …)
	rewardSlots []uint64
	rewardEp    *loadedEpoch
}

const c08RewardsEpochNo = 5

var c08Commissions = []string{"", "7", "100", "abc", "12abc", " ", "-", "NaN"}

// c08AddRewards rewrites a generated CAR so that block i links to a Rewards node (protobuf, zstd, one frame)
// whose single reward has commission c08Commissions[i]; CIDs of the block, the subset and the epoch follow.
func c08AddRewards(ge *gEpoch, dir string) (*gEpoch, error) {
	w := &carW{}
	repl := map[cid.Cid]cid.Cid{}
	relink := func(ls []datamodel.Link) []datamodel.Link {
		out := make([]datamodel.Link, len(ls))
		for i, l := range ls {
			c := l.(cidlink.Link).Cid
			if n, ok := repl[c]; ok {
				c = n
			}
			out[i] = cidlink.Link{Cid: c}
		}
		return out
	}
	nb := 0
	var root cid.Cid
	for _, ob := range ge.Objs {
		switch ob.Kind {
		case 2:
			blk, err := iplddecoders.DecodeBlock(ob.Data)
			if err != nil {
				return nil, err
			}
			if nb < len(c08Commissions) {
				rw := &confirmed_block.Rewards{Rewards: []*confirmed_block.Reward{{Pubkey: ge.Keys[0].PublicKey().String(), Lamports: 5, PostBalance: 10,
					RewardType: confirmed_block.RewardType_Voting, Commission: c08Commissions[nb]}}}
				raw, err := proto.Marshal(rw)
				if err != nil {
					return nil, err
				}
				z, _ := tooling.CompressZstd(raw)
				node := ipldbindcode.Rewards{Kind: 5, Slot: blk.Slot, Data: w.frames(z, 1, 5)}
				enc, err := node.MarshalCBOR()
				if err != nil {
					return nil, err
				}
				blk.Rewards = cidlink.Link{Cid: w.put(enc)}
			}
			nb++
			enc, err := blk.MarshalCBOR()
			if err != nil {
				return nil, err
			}
			repl[ob.Cid] = w.put(enc)
		case 3:
			sub, err := iplddecoders.DecodeSubset(ob.Data)
			if err != nil {
				return nil, err
			}
			sub.Blocks = relink(sub.Blocks)
			enc, err := sub.MarshalCBOR()
			if err != nil {
				return nil, err
			}
			repl[ob.Cid] = w.put(enc)
		case 4:
			ep, err := iplddecoders.DecodeEpoch(ob.Data)
			if err != nil {
				return nil, err
			}
			ep.Subsets = relink(ep.Subsets)
			enc, err := ep.MarshalCBOR()
			if err != nil {
				return nil, err
			}
			root = w.put(enc)
		default:
			w.put(ob.Data)
		}
	}
	var out bytes.Buffer
	if err := carv1.WriteHeader(&carv1.CarHeader{Roots: []cid.Cid{root}, Version: 1}, &out); err != nil {
		return nil, err
	}
	out.Write(w.buf.Bytes())
	g2 := *ge
	g2.Root = root
	g2.Car = filepath.Join(dir, fmt.Sprintf("epoch-%d-rewards.car", ge.Epoch))
	g2.CarData = out.Bytes()
	if err := os.WriteFile(g2.Car, g2.CarData, 0o644); err != nil {
		return nil, err
	}
	return &g2, nil
}

const c08FixtureSeed = 0xC08C08

func c08GenOpts() []genOpts {
	return []genOpts{
		{Epoch: 1, NBlocks: 24, MaxTx: 4, SkipPct: 30, LoadedPct: 30, FramePct: 10, NKeys: 4, KeySeedBase: 7},
		{Epoch: 2, NBlocks: 20, MaxTx: 4, SkipPct: 30, LoadedPct: 30, NKeys: 4, KeySeedBase: 7},
	}
}

// gsfa for both epochs in the thorough tier, for the first one only in the quick tier (≈10 s each)
func c08WithGsfa(i int) bool { return i == 0 || zz.Thorough() }

func c08Quiet() {
	fs := flag.NewFlagSet("klog", flag.ContinueOnError)
	klog.InitFlags(fs)
	fs.Set("logtostderr", "false")
	fs.Set("alsologtostderr", "false")
	fs.Set("stderrthreshold", "FATAL")
	klog.SetOutput(io.Discard)
}

func c08BuildWorld(dir string, child bool) (*c08World, error) {
	w := &c08World{dir: dir}
	rng := zz.NewRNG(c08FixtureSeed)
	for i, o := range c08GenOpts() {
		edir := filepath.Join(dir, fmt.Sprintf("e%d", i))
		var le *loadedEpoch
		if child {
			// re-open what the parent built
			os.MkdirAll(filepath.Join(dir, "scratch"+fmt.Sprint(i)), 0o755)
			ge := genEpoch(rng, filepath.Join(dir, "scratch"+fmt.Sprint(i)), o) // regenerated for the ground truth only (deterministic)
			le = &loadedEpoch{G: ge}
			le.CfgPath = filepath.Join(edir, fmt.Sprintf("epoch-%d.yml", o.Epoch))
			conf, err := LoadConfig(le.CfgPath)
			if err != nil {
				return nil, err
			}
			ep, err := NewEpochFromConfig(conf, newCliCtx(), verifCache(), nil)
			if err != nil {
				return nil, err
			}
			le.Ep = ep
		} else {
			os.MkdirAll(edir, 0o755)
			ge := genEpoch(rng, edir, o)
			var err error
			le, err = buildIndexes(ge, edir, c08WithGsfa(i))
			if err != nil {
				return nil, err
			}
			if err := le.load(edir); err != nil {
				return nil, err
			}
		}
		w.eps = append(w.eps, le)
		w.cfgPaths = append(w.cfgPaths, le.CfgPath)
	}
	for n := 0; n <= len(w.eps); n++ {
		m := NewMultiEpoch(&Options{EpochSearchConcurrency: 4})
		var nums []uint64
		gsfa := false
		for i := 0; i < n; i++ {
			if err := m.AddEpoch(w.eps[i].G.Epoch, w.eps[i].Ep); err != nil {
				return nil, err
			}
			nums = append(nums, w.eps[i].G.Epoch)
			if w.eps[i].Ep.gsfaReader != nil {
				gsfa = true
			}
		}
		w.multis = append(w.multis, m)
		w.handlers = append(w.handlers, newMultiEpochHandler(m, nil))
		w.epochsOf = append(w.epochsOf, nums)
		w.gsfaOf = append(w.gsfaOf, gsfa)
	}
	if !child {
		rdir := filepath.Join(dir, "rewards")
		os.MkdirAll(rdir, 0o755)
		ge := genEpoch(zz.NewRNG(c08FixtureSeed+1), rdir, genOpts{Epoch: c08RewardsEpochNo, NBlocks: len(c08Commissions) + 1, MaxTx: 2, SkipPct: 20, NKeys: 3, KeySeedBase: 9})
		g2, err := c08AddRewards(ge, rdir)
		if err != nil {
			return nil, fmt.Errorf("rewards epoch: %w", err)
		}
		le, err := buildIndexes(g2, rdir, false)
		if err != nil {
			return nil, fmt.Errorf("rewards epoch: %w", err)
		}
		if err := le.load(rdir); err != nil {
			return nil, fmt.Errorf("rewards epoch: %w", err)
		}
		m := NewMultiEpoch(&Options{EpochSearchConcurrency: 4})
		if err := m.AddEpoch(c08RewardsEpochNo, le.Ep); err != nil {
			return nil, err
		}
		w.multis = append(w.multis, m)
		w.handlers = append(w.handlers, newMultiEpochHandler(m, nil))
		w.epochsOf = append(w.epochsOf, []uint64{c08RewardsEpochNo})
		w.gsfaOf = append(w.gsfaOf, false)
		w.rewardEp = le
		for _, b := range g2.Blocks {
			w.rewardSlots = append(w.rewardSlots, b.Slot)
		}
	}
	seenAddr := map[solana.PublicKey]bool{}
	for _, le := range w.eps {
		first, last := le.G.Blocks[0].Slot, le.G.Blocks[len(le.G.Blocks)-1].Slot
		for s := first; s <= last; s++ {
			if b, ok := le.G.bySlot[s]; ok {
				w.slots = append(w.slots, s)
				for _, tx := range b.Txs {
					w.sigs = append(w.sigs, tx.Sig)
					w.txBytes = append(w.txBytes, tx.Raw)
					w.metaRaw = append(w.metaRaw, tx.Meta)
					w.txStatic = append(w.txStatic, tx.Accounts)
					w.txLoaded = append(w.txLoaded, tx.Loaded)
					for _, a := range tx.Accounts {
						if !seenAddr[a] {
							seenAddr[a] = true
							w.addrs = append(w.addrs, a)
						}
					}
				}
			} else {
				w.absent = append(w.absent, s)
			}
		}
	}
	return w, nil
}

func (w *c08World) worldLine(i int) string {
	var e []string
	for k, n := range w.epochsOf[i] {
		gf := 0
		if i < 3 && w.eps[k].Ep.gsfaReader != nil {
			gf = 1
		}
		e = append(e, fmt.Sprintf("%d:%d", n, gf))
	}
	es := strings.Join(e, ",")
	if es == "" {
		es = "-"
	}
	jp := 0
	if txstatus.IsEnabled() {
		jp = 1
	}
	return fmt.Sprintf("world %d %s %d", i, es, jp)
}

// ---------------------------------------------------------------------------------------------------------
// HTTP execution

type c08HTTP struct {
	method  string
	rawPath string
	body    []byte
	chunked bool
}

func (r *c08HTTP) wire() []byte {
	var b bytes.Buffer
	fmt.Fprintf(&b, "%s %s HTTP/1.1\r\nHost: localhost\r\nContent-Type: application/json\r\n", r.method, r.rawPath)
	if r.chunked {
		b.WriteString("Transfer-Encoding: chunked\r\n\r\n")
		if len(r.body) > 0 {
			fmt.Fprintf(&b, "%x\r\n", len(r.body))
			b.Write(r.body)
			b.WriteString("\r\n")
		}
		b.WriteString("0\r\n\r\n")
	} else {
		fmt.Fprintf(&b, "Content-Length: %d\r\n\r\n", len(r.body))
		b.Write(r.body)
	}
	return b.Bytes()
}

// c08Parse parses wire bytes the way the fasthttp server does (MaxRequestBodySize 1 MiB as in ListenAndServe).
func c08Parse(wire []byte, req *fasthttp.Request) error {
	return req.ReadLimitBody(bufio.NewReader(bytes.NewReader(wire)), 1024*1024)
}

type c08Resp struct {
	status int
	body   []byte
}

func c08Serve(h func(*fasthttp.RequestCtx), req *fasthttp.Request) c08Resp {
	var ctx fasthttp.RequestCtx
	ctx.Init(req, nil, nil)
	h(&ctx)
	return c08Resp{ctx.Response.StatusCode(), append([]byte(nil), ctx.Response.Body()...)}
}

// classOf: precise response class
func (r c08Resp) classOf() string {
	if len(r.body) == 0 {
		return fmt.Sprintf("%d:empty", r.status)
	}
	var m struct {
		Result *json.RawMessage `json:"result"`
		Error  *struct {
			Code    int    `json:"code"`
			Message string `json:"message"`
		} `json:"error"`
	}
	if r.body[0] != '{' || json.Unmarshal(r.body, &m) != nil {
		return fmt.Sprintf("%d:body", r.status)
	}
	if m.Error != nil {
		sub := ""
		switch {
		case m.Error.Code == -32009 && strings.HasPrefix(m.Error.Message, "Epoch "):
			sub = ":epoch"
		case m.Error.Code == -32009 && m.Error.Message == "Internal error":
			sub = ":noepochs" // getSlot / getFirstAvailableBlock with nothing loaded
		case m.Error.Code == -32603 && m.Error.Message == "no epochs available":
			sub = ":noepochs"
		case m.Error.Code == -32603 && strings.Contains(m.Error.Message, "not enabled"):
			sub = ":nogsfa"
		}
		return fmt.Sprintf("%d:e%d%s", r.status, m.Error.Code, sub)
	}
	if m.Result == nil || string(*m.Result) == "null" {
		return fmt.Sprintf("%d:null", r.status)
	}
	return fmt.Sprintf("%d:result", r.status)
}

// c08Canon: the classes a data-layer answer may take are printed as `data` (by the model's driver as well):
// what the archive answers is the subject of other properties; here only "an answer, not a panic" matters.
func c08Canon(c string) string {
	switch c {
	case "200:result", "200:null", "200:e-32009", "200:e-32603", "200:body", "404:empty", "500:empty", "200:empty":
		return "data"
	}
	return c
}

// ---------------------------------------------------------------------------------------------------------
// gRPC in-memory streams

type c08BlockStream struct {
	ctx      context.Context
	n        int
	failFrom int // Send fails from this call on (0 = never)
}

func (r *c08BlockStream) Send(m *old_faithful_grpc.BlockResponse) error {
	r.n++
	if r.failFrom > 0 && r.n >= r.failFrom {
		return status.Error(codes.Unavailable, "send failed")
	}
	return nil
}
func (r *c08BlockStream) SetHeader(metadata.MD) error  { return nil }
func (r *c08BlockStream) SendHeader(metadata.MD) error { return nil }
func (r *c08BlockStream) SetTrailer(metadata.MD)       {}
func (r *c08BlockStream) Context() context.Context     { return r.ctx }
func (r *c08BlockStream) SendMsg(m any) error          { return nil }
func (r *c08BlockStream) RecvMsg(m any) error          { return nil }

type c08TxStream struct {
	ctx context.Context
	n   int
}

func (r *c08TxStream) Send(m *old_faithful_grpc.TransactionResponse) error { r.n++; return nil }
func (r *c08TxStream) SetHeader(metadata.MD) error                         { return nil }
func (r *c08TxStream) SendHeader(metadata.MD) error                        { return nil }
func (r *c08TxStream) SetTrailer(metadata.MD)                              {}
func (r *c08TxStream) Context() context.Context                            { return r.ctx }
func (r *c08TxStream) SendMsg(m any) error                                 { return nil }
func (r *c08TxStream) RecvMsg(m any) error                                 { return nil }

type c08GetStream struct {
	ctx      context.Context
	in       []*old_faithful_grpc.GetRequest
	recvErr  bool // after the queued requests: a transport error instead of io.EOF
	out      []string
	failFrom int
	nsend    int
}

func (r *c08GetStream) Recv() (*old_faithful_grpc.GetRequest, error) {
	if len(r.in) == 0 {
		if r.recvErr {
			return nil, status.Error(codes.Unavailable, "transport is closing")
		}
		return nil, io.EOF
	}
	m := r.in[0]
	r.in = r.in[1:]
	return m, nil
}

func (r *c08GetStream) Send(m *old_faithful_grpc.GetResponse) error {
	r.nsend++
	if r.failFrom > 0 && r.nsend >= r.failFrom {
		return status.Error(codes.Unavailable, "send failed")
	}
	switch x := m.Response.(type) {
	case *old_faithful_grpc.GetResponse_Error:
		code := codes.Internal
		if x.Error.Code == old_faithful_grpc.GetResponseErrorCode_NOT_FOUND {
			code = codes.NotFound
		}
		r.out = append(r.out, c08GrpcClass(code, x.Error.Message))
	case *old_faithful_grpc.GetResponse_Version:
		r.out = append(r.out, "version")
	case *old_faithful_grpc.GetResponse_BlockTime:
		r.out = append(r.out, "data")
	case *old_faithful_grpc.GetResponse_Block:
		r.out = append(r.out, "data")
	case *old_faithful_grpc.GetResponse_Transaction:
		r.out = append(r.out, "data")
	default:
		r.out = append(r.out, "other")
	}
	return nil
}
func (r *c08GetStream) SetHeader(metadata.MD) error  { return nil }
func (r *c08GetStream) SendHeader(metadata.MD) error { return nil }
func (r *c08GetStream) SetTrailer(metadata.MD)       {}
func (r *c08GetStream) Context() context.Context     { return r.ctx }
func (r *c08GetStream) SendMsg(m any) error          { return nil }
func (r *c08GetStream) RecvMsg(m any) error          { return nil }

// c08Status: final status class; OK / NotFound / Internal are what the data layer may answer (`data`), except the
// two answers the model predicts exactly: the epoch of the slot is not loaded, no epoch is loaded at all
func c08Status(err error) string {
	if err == nil {
		return "data"
	}
	if errors.Is(err, context.Canceled) {
		return "Canceled"
	}
	if errors.Is(err, context.DeadlineExceeded) {
		return "DeadlineExceeded"
	}
	st, _ := status.FromError(err)
	return c08GrpcClass(st.Code(), st.Message())
}

func c08GrpcClass(code codes.Code, msg string) string {
	switch {
	case code == codes.NotFound && strings.HasPrefix(msg, "Epoch ") && strings.HasSuffix(msg, "is not available"):
		return "epoch"
	case code == codes.Internal && msg == "no epochs available":
		return "noepochs"
	case code == codes.OK || code == codes.NotFound || code == codes.Internal:
		return "data"
	}
	return code.String()
}

// wire round trip: only messages a client can actually send reach the handlers
func c08RoundTrip[T proto.Message](m T, fresh T) (T, error) {
	b, err := proto.Marshal(m)
	if err != nil {
		return fresh, err
	}
	if err := proto.Unmarshal(b, fresh); err != nil {
		return fresh, err
	}
	return fresh, nil
}

// ---------------------------------------------------------------------------------------------------------
// op interpretation (also the replay path): every op line carries everything the real side needs

func unhx(s string) string {
	if s == "-" {
		return ""
	}
	b, err := hex.DecodeString(s)
	if err != nil {
		panic("bad hex in op line: " + s)
	}
	return string(b)
}

func csvHex(xs []string) string {
	if len(xs) == 0 {
		return "."
	}
	var o []string
	for _, x := range xs {
		o = append(o, hx(x))
	}
	return strings.Join(o, ",")
}

func unCsvHex(s string) []string {
	if s == "." {
		return nil
	}
	var o []string
	for _, x := range strings.Split(s, ",") {
		o = append(o, unhx(x))
	}
	return o
}

func optU64(s string) *uint64 {
	if s == "-" {
		return nil
	}
	v, err := strconv.ParseUint(s, 10, 64)
	if err != nil {
		panic(err)
	}
	return &v
}

func optBool(s string) *bool {
	switch s {
	case "0":
		v := false
		return &v
	case "1":
		v := true
		return &v
	}
	return nil
}

func c08Ctx(cancelled bool) (context.Context, context.CancelFunc) {
	ctx, cancel := context.WithTimeout(context.Background(), 120*time.Second)
	if cancelled {
		cancel()
	}
	return ctx, cancel
}

func parseTxFilter(s string) *old_faithful_grpc.StreamTransactionsFilter {
	if s == "-" {
		return nil
	}
	f := &old_faithful_grpc.StreamTransactionsFilter{}
	for _, part := range strings.Split(s, ";") {
		switch part[0] {
		case 'V':
			f.Vote = optBool(part[1:])
		case 'F':
			f.Failed = optBool(part[1:])
		case 'I':
			f.AccountInclude = unCsvHex(part[1:])
		case 'E':
			f.AccountExclude = unCsvHex(part[1:])
		case 'R':
			f.AccountRequired = unCsvHex(part[1:])
		}
	}
	return f
}

// gsfaRisk: the op takes the goroutine branch of processSlotTransactions — a panic there kills the process
func (w *c08World) gsfaRisk(f *old_faithful_grpc.StreamTransactionsFilter, start uint64, end *uint64) bool {
	e := start + 100 // maxSlotsToStream (only the order of magnitude matters here)
	if end != nil {
		e = *end
	}
	// pinned tree: make([]*Epoch, 0, endEpoch-startEpoch+1) — an enormous capacity is a fatal "out of memory"
	if e/432000-start/432000+1 > 1<<20 {
		return true
	}
	if f == nil || len(f.AccountInclude) == 0 {
		return false
	}
	return w.gsfaInRange(start, e)
}

// gsfaInRange: a loaded epoch inside [epoch(start), epoch(end)] has a gsfa index (`gsfaReadersLoaded`)
func (w *c08World) gsfaInRange(start, e uint64) bool {
	if w.cur >= 3 {
		return false
	}
	for k, n := range w.epochsOf[w.cur] {
		if w.eps[k].Ep.gsfaReader != nil && n >= start/432000 && n <= e/432000 {
			return true
		}
	}
	return false
}

// execOp runs one op line against the real code and returns the canonical answer.
func (w *c08World) execOp(line string) string {
	f := strings.Fields(line)
	switch f[0] {
	case "world":
		i, _ := strconv.Atoi(f[1])
		w.cur = i
		if w.worldLine(i) != line {
			return "world-mismatch " + w.worldLine(i)
		}
		return "ok"
	case "http":
		// http METHOD RAWPATH BODY CHUNKED NORMPATH CL TREE
		r := &c08HTTP{method: f[1], rawPath: unhx(f[2]), body: []byte(unhx(f[3])), chunked: f[4] == "1"}
		return c08Guard(func() string {
			var req fasthttp.Request
			if err := c08Parse(r.wire(), &req); err != nil {
				return "http-reject"
			}
			resp := c08Serve(w.handlers[w.cur], &req)
			return c08Canon(resp.classOf())
		})
	case "conc":
		// conc ROUNDS — 16 client goroutines at once against the handler of the current world (always in a child
		// process: a `fatal error: concurrent map writes` kills the process and cannot be recovered)
		if os.Getenv("VERIF_C08_CHILD") == "" {
			return w.inChild(line)
		}
		rounds, _ := strconv.Atoi(f[1])
		var bodies [][]byte
		for _, m := range []string{"getVersion", "getSlot", "getFirstAvailableBlock", "getHealth", "getGenesisHash"} {
			bodies = append(bodies, []byte(`{"jsonrpc":"2.0","id":1,"method":"`+m+`"}`))
		}
		if len(w.slots) > 0 {
			bodies = append(bodies, []byte(fmt.Sprintf(`{"jsonrpc":"2.0","id":1,"method":"getBlockTime","params":[%d]}`, w.slots[0])))
			bodies = append(bodies, []byte(fmt.Sprintf(`{"jsonrpc":"2.0","id":1,"method":"getBlock","params":[%d]}`, w.slots[len(w.slots)/2])))
		}
		if len(w.sigs) > 0 {
			bodies = append(bodies, []byte(`{"jsonrpc":"2.0","id":1,"method":"getTransaction","params":["`+w.sigs[0].String()+`"]}`))
		}
		var wg sync.WaitGroup
		var panicked atomic.Int64
		for gi := 0; gi < 16; gi++ {
			wg.Add(1)
			go func(gi int) {
				defer wg.Done()
				for r := 0; r < rounds; r++ {
					for bi := range bodies {
						b := bodies[(bi+gi)%len(bodies)]
						if c08Guard(func() string {
							var req fasthttp.Request
							req.Header.SetMethod("POST")
							req.SetRequestURI("/")
							req.Header.SetContentType("application/json")
							req.SetBody(b)
							c08Serve(w.handlers[w.cur], &req)
							return "nopanic"
						}) == "panic" {
							panicked.Add(1)
						}
					}
				}
			}(gi)
		}
		wg.Wait()
		if panicked.Load() > 0 {
			return "panic"
		}
		return "nopanic"
	case "raw":
		wire := []byte(unhx(f[1]))
		return c08Guard(func() string {
			var req fasthttp.Request
			if err := c08Parse(wire, &req); err != nil {
				return "nopanic"
			}
			c08Serve(w.handlers[w.cur], &req)
			return "nopanic"
		})
	case "g":
		return w.execGrpc(f, line)
	case "bca":
		// bca ITEMS ACCOUNTS — direct call of blockContainsAccounts; ITEMS = ;-separated `g` (undecodable transaction)
		// or IDX:META:STATICHIT:LOADEDHIT (META real|empty|garbage; the two hit flags are for the model only)
		return c08Guard(func() string {
			blk := &old_faithful_grpc.BlockResponse{}
			for _, item := range strings.Split(f[1], ";") {
				p := strings.Split(item, ":")
				t := &old_faithful_grpc.Transaction{}
				if p[0] == "g" {
					t.Transaction = []byte{0xff, 0xff, 0xff, 0x01}
				} else {
					i, _ := strconv.Atoi(p[0])
					t.Transaction = w.txBytes[i]
					switch p[1] {
					case "real":
						t.Meta = w.metaRaw[i]
					case "empty":
					case "garbage":
						t.Meta = []byte{0xff, 0xff, 0xff, 0xff, 0xff, 0xff, 0xff}
					}
				}
				blk.Transactions = append(blk.Transactions, t)
			}
			return fmt.Sprint(blockContainsAccounts(blk, unCsvHex(f[2])))
		})
	}
	return "unknown-op"
}

func (w *c08World) execGrpc(f []string, line string) string {
	m := w.multis[w.cur]
	switch f[1] {
	case "GetVersion":
		return c08Guard(func() string {
			req, _ := c08RoundTrip(&old_faithful_grpc.VersionRequest{}, &old_faithful_grpc.VersionRequest{})
			_, err := m.GetVersion(context.Background(), req)
			return c08Status(err)
		})
	case "GetBlock":
		return c08Guard(func() string {
			req, _ := c08RoundTrip(&old_faithful_grpc.BlockRequest{Slot: *optU64(f[2])}, &old_faithful_grpc.BlockRequest{})
			_, err := m.GetBlock(context.Background(), req)
			return c08Status(err)
		})
	case "GetBlockTime":
		return c08Guard(func() string {
			req, _ := c08RoundTrip(&old_faithful_grpc.BlockTimeRequest{Slot: *optU64(f[2])}, &old_faithful_grpc.BlockTimeRequest{})
			_, err := m.GetBlockTime(context.Background(), req)
			return c08Status(err)
		})
	case "GetTransaction":
		return c08Guard(func() string {
			req, _ := c08RoundTrip(&old_faithful_grpc.TransactionRequest{Signature: []byte(unhx(f[2]))}, &old_faithful_grpc.TransactionRequest{})
			_, err := m.GetTransaction(context.Background(), req)
			return c08Status(err)
		})
	case "StreamBlocks":
		// g StreamBlocks START END CANCEL FILTER WANT
		return c08Guard(func() string {
			in := &old_faithful_grpc.StreamBlocksRequest{StartSlot: *optU64(f[2]), EndSlot: optU64(f[3])}
			if f[5] != "-" {
				in.Filter = &old_faithful_grpc.StreamBlocksFilter{AccountInclude: unCsvHex(f[5])}
			}
			req, err := c08RoundTrip(in, &old_faithful_grpc.StreamBlocksRequest{})
			if err != nil {
				return "unmarshalable"
			}
			ctx, cancel := c08Ctx(f[4] == "1")
			defer cancel()
			return c08Status(m.StreamBlocks(req, &c08BlockStream{ctx: ctx}))
		})
	case "StreamTransactions":
		// g StreamTransactions START END CANCEL FILTER WANT
		in := &old_faithful_grpc.StreamTransactionsRequest{StartSlot: *optU64(f[2]), EndSlot: optU64(f[3]), Filter: parseTxFilter(f[5])}
		if w.gsfaRisk(in.Filter, in.StartSlot, in.EndSlot) && os.Getenv("VERIF_C08_CHILD") == "" {
			return w.inChild(line)
		}
		return c08Guard(func() string {
			req, err := c08RoundTrip(in, &old_faithful_grpc.StreamTransactionsRequest{})
			if err != nil {
				return "unmarshalable"
			}
			ctx, cancel := c08Ctx(f[4] == "1")
			defer cancel()
			return c08Status(m.StreamTransactions(req, &c08TxStream{ctx: ctx}))
		})
	case "Get":
		// g Get ITEMS TAIL SENDFAIL WANTS   ITEMS: ;-separated V | B<slot> | T<slot> | X<sighex> | N ; TAIL: eof|err
		return c08Guard(func() string {
			st := &c08GetStream{ctx: context.Background(), recvErr: f[3] == "err"}
			if f[4] != "-" {
				st.failFrom, _ = strconv.Atoi(f[4])
			}
			if f[2] != "." {
				for i, it := range strings.Split(f[2], ";") {
					g := &old_faithful_grpc.GetRequest{Id: uint64(i + 1)}
					switch it[0] {
					case 'V':
						g.Request = &old_faithful_grpc.GetRequest_Version{Version: &old_faithful_grpc.VersionRequest{}}
					case 'B':
						g.Request = &old_faithful_grpc.GetRequest_Block{Block: &old_faithful_grpc.BlockRequest{Slot: *optU64(it[1:])}}
					case 'T':
						g.Request = &old_faithful_grpc.GetRequest_BlockTime{BlockTime: &old_faithful_grpc.BlockTimeRequest{Slot: *optU64(it[1:])}}
					case 'X':
						g.Request = &old_faithful_grpc.GetRequest_Transaction{Transaction: &old_faithful_grpc.TransactionRequest{Signature: []byte(unhx(it[1:]))}}
					case 'N':
					}
					rt, err := c08RoundTrip(g, &old_faithful_grpc.GetRequest{})
					if err != nil {
						return "unmarshalable"
					}
					st.in = append(st.in, rt)
				}
			}
			final := c08Status(m.Get(st))
			o := strings.Join(st.out, ",")
			if o == "" {
				o = "."
			}
			return o + ";" + final
		})
	}
	return "unknown-grpc-op"
}

// inChild executes one op line in a child process (same binary, fixture re-opened).
var c08ChildRuns int

func (w *c08World) inChild(line string) string {
	c08ChildRuns++
	cmd := exec.Command(os.Args[0], "-test.run=^TestVerifC08$", "-test.count=1")
	cmd.Env = append(os.Environ(), "VERIF_C08_CHILD=1", "VERIF_C08_DIR="+w.dir, fmt.Sprintf("VERIF_C08_WORLD=%d", w.cur), "VERIF_C08_OP="+line)
	var buf bytes.Buffer
	cmd.Stdout = &buf
	cmd.Stderr = &buf
	done := make(chan error, 1)
	go func() { done <- cmd.Run() }()
	select {
	case <-done:
	case <-time.After(300 * time.Second):
		cmd.Process.Kill()
		return "child-timeout"
	}
	out := buf.String()
	if i := strings.Index(out, "C08CHILD-OUT "); i >= 0 {
		rest := out[i+len("C08CHILD-OUT "):]
		if j := strings.IndexByte(rest, '\n'); j >= 0 {
			rest = rest[:j]
		}
		if strings.HasPrefix(rest, "panic ") {
			// recovered in the child's calling goroutine: "panic <site> <kind>"
			p := strings.Fields(rest)
			c08LastPanic = &c08Panic{site: p[1], kind: p[2], msg: strings.Join(p[3:], " ")}
			return "panic"
		}
		return strings.TrimSpace(rest)
	}
	if i := strings.Index(out, "fatal error: "); i >= 0 {
		msg := out[i:]
		if j := strings.IndexByte(msg, '\n'); j >= 0 {
			msg = msg[:j]
		}
		tr := out[i:]
		if k := strings.Index(tr, "[running]:\n"); k >= 0 {
			tr = "panic(\n" + tr[k+len("[running]:\n"):]
		}
		c08LastPanic = c08Site(tr, msg)
		c08LastPanic.kind = "fatal"
		c08LastPanic.msg = "process killed: " + msg
		return "panic"
	}
	if i := strings.Index(out, "panic: "); i >= 0 {
		msg := out[i:]
		if j := strings.IndexByte(msg, '\n'); j >= 0 {
			msg = msg[:j]
		}
		// the goroutine trace follows "goroutine N [running]:"; c08Site wants the frames after a "panic(" line
		tr := out[i:]
		if k := strings.Index(tr, "[running]:\n"); k >= 0 {
			tr = "panic(\n" + tr[k+len("[running]:\n"):]
		}
		c08LastPanic = c08Site(tr, msg)
		c08LastPanic.msg = "process killed: " + msg
		return "panic"
	}
	tail := out
	if len(tail) > 300 {
		tail = tail[len(tail)-300:]
	}
	return "child-failed " + strings.ReplaceAll(tail, "\n", " | ")
}

func c08ChildMain(t *testing.T) {
	c08Quiet()
	w, err := c08BuildWorld(os.Getenv("VERIF_C08_DIR"), true)
	if err != nil {
		fmt.Println("C08CHILD-OUT child-setup-failed " + err.Error())
		return
	}
	w.cur, _ = strconv.Atoi(os.Getenv("VERIF_C08_WORLD"))
	out := w.execOp(os.Getenv("VERIF_C08_OP"))
	if out == "panic" && c08LastPanic != nil {
		fmt.Printf("C08CHILD-OUT panic %s %s %s\n", c08LastPanic.site, c08LastPanic.kind, strings.ReplaceAll(c08LastPanic.msg, "\n", " "))
		return
	}
	fmt.Println("C08CHILD-OUT " + out)
}

// ---------------------------------------------------------------------------------------------------------
// generators

type c08Gen struct {
	w   *c08World
	rng *zz.RNG
	s   *zz.Session
}

func (g *c08Gen) pick(xs ...string) string { return xs[g.rng.Intn(len(xs))] }

// slotValue: a JSON value for a slot position, with the label whether a well-formed request would reach the data layer
func (g *c08Gen) slotValue() *c08J {
	w := g.w
	switch g.rng.Intn(22) {
	case 0, 1, 2, 3, 4:
		g.s.Count("slot:present")
		return jInt(w.slots[g.rng.Intn(len(w.slots))])
	case 5, 6:
		g.s.Count("slot:absent-in-epoch")
		if len(w.absent) > 0 {
			return jInt(w.absent[g.rng.Intn(len(w.absent))])
		}
		return jInt(432000 + 431999)
	case 7:
		g.s.Count("slot:unloaded-epoch")
		return jInt(uint64(432000 * (3 + g.rng.Intn(900))))
	case 8:
		g.s.Count("slot:zero")
		return jInt(0)
	case 9:
		g.s.Count("slot:2^53")
		return jNum(g.pick("9007199254740992", "9007199254740993", "9007199254740991"))
	case 10:
		g.s.Count("slot:2^64-edge")
		return jNum(g.pick("18446744073709551615", "18446744073709551616", "18446744073709549568", "9223372036854775808"))
	case 11:
		g.s.Count("slot:huge")
		return jNum(g.pick("1e30", "1e308", "1e309", "1e400", "123456789012345678901234567890"))
	case 12:
		g.s.Count("slot:negative")
		return jNum(g.pick("-1", "-0", "-432001", "-1e30"))
	case 13:
		g.s.Count("slot:fraction")
		return jNum(g.pick("432001.5", "0.1", "4.32e5", "432000.0", "1E6"))
	case 14:
		g.s.Count("slot:string")
		return jStr(g.pick("432001", "", "abc"))
	case 15:
		g.s.Count("slot:null")
		return jNull()
	case 16:
		g.s.Count("slot:bool")
		return jBool(g.rng.Bool())
	case 17:
		g.s.Count("slot:array")
		return jArr(jInt(432001))
	case 18:
		g.s.Count("slot:object")
		return jObj(kv("slot", jInt(432001)))
	default:
		g.s.Count("slot:epoch-edge")
		return jInt(uint64(g.pick0([]uint64{431999, 432000, 863999, 864000, 1295999, 1296000})))
	}
}

func (g *c08Gen) pick0(xs []uint64) uint64 { return xs[g.rng.Intn(len(xs))] }

func (g *c08Gen) wrongTyped() *c08J {
	switch g.rng.Intn(7) {
	case 0:
		return jNull()
	case 1:
		return jBool(g.rng.Bool())
	case 2:
		return jInt(uint64(g.rng.Intn(5)))
	case 3:
		return jStr(g.pick("", "x", "json", "finalized"))
	case 4:
		return jArr()
	case 5:
		return jObj()
	default:
		return jNum(g.pick("1e400", "-1", "0.5"))
	}
}

func (g *c08Gen) encodingValue() *c08J {
	if g.rng.Intn(5) == 0 {
		g.s.Count("opt:encoding-wrong-type")
		return g.wrongTyped()
	}
	return jStr(g.pick("json", "base58", "base64", "base64+zstd", "jsonParsed", "JSON", "", "binary", "json "))
}

func (g *c08Gen) blockOpts() *c08J {
	if g.rng.Intn(10) == 0 {
		g.s.Count("opts:bare-encoding-string")
		return jStr(g.pick("json", "base58", "base64", "base64+zstd", "jsonParsed"))
	}
	if g.rng.Intn(8) == 0 {
		g.s.Count("opts:not-an-object")
		return g.wrongTyped()
	}
	o := jObj()
	if g.rng.Intn(2) == 0 {
		o = o.with("encoding", g.encodingValue())
	}
	if g.rng.Intn(3) == 0 {
		if g.rng.Intn(4) == 0 {
			o = o.with("commitment", g.wrongTyped())
		} else {
			o = o.with("commitment", jStr(g.pick("finalized", "confirmed", "processed", "")))
		}
	}
	if g.rng.Intn(3) == 0 {
		if g.rng.Intn(3) == 0 {
			o = o.with("maxSupportedTransactionVersion", g.wrongTyped())
		} else {
			o = o.with("maxSupportedTransactionVersion", jNum(g.pick("0", "1", "255", "1e30", "-1")))
		}
	}
	if g.rng.Intn(3) == 0 {
		if g.rng.Intn(3) == 0 {
			o = o.with("transactionDetails", g.wrongTyped())
		} else {
			o = o.with("transactionDetails", jStr(g.pick("full", "none", "signatures", "accounts", "")))
		}
	}
	if g.rng.Intn(3) == 0 {
		if g.rng.Intn(3) == 0 {
			o = o.with("rewards", g.wrongTyped())
		} else {
			o = o.with("rewards", jBool(g.rng.Bool()))
		}
	}
	if g.rng.Intn(10) == 0 {
		o = o.with("unknownOption", g.wrongTyped())
	}
	if g.rng.Intn(15) == 0 && len(o.obj) > 0 {
		// duplicate key: the last one wins
		o = o.with(o.obj[0].k, g.wrongTyped())
		g.s.Count("opts:duplicate-key")
	}
	return o
}

func b58n(rng *zz.RNG, n int) string { return base58.Encode(rng.Bytes(n)) }

func (g *c08Gen) sigValue() *c08J {
	w := g.w
	switch g.rng.Intn(16) {
	case 0, 1, 2, 3, 4:
		g.s.Count("sig:present")
		return jStr(w.sigs[g.rng.Intn(len(w.sigs))].String())
	case 5, 6:
		g.s.Count("sig:absent")
		return jStr(b58n(g.rng, 64))
	case 7:
		g.s.Count("sig:zero")
		return jStr(strings.Repeat("1", 64))
	case 8:
		g.s.Count("sig:63-bytes")
		return jStr(g.pick(b58n(g.rng, 63), strings.Repeat("1", 63)))
	case 9:
		g.s.Count("sig:65-bytes")
		return jStr(g.pick(b58n(g.rng, 65), strings.Repeat("1", 65)))
	case 10:
		g.s.Count("sig:empty")
		return jStr("")
	case 11:
		g.s.Count("sig:bad-alphabet")
		return jStr(g.pick("0OIl", "abc def", b58n(g.rng, 64)+"0", "é"+b58n(g.rng, 10), "\u0000"))
	case 12:
		g.s.Count("sig:leading-zero-bytes")
		b := g.rng.Bytes(64)
		b[0], b[1] = 0, 0
		return jStr(base58.Encode(b))
	case 13:
		g.s.Count("sig:pubkey-length")
		return jStr(b58n(g.rng, 32))
	default:
		g.s.Count("sig:wrong-type")
		return g.wrongTyped()
	}
}

func (g *c08Gen) txOpts() *c08J {
	if g.rng.Intn(10) == 0 {
		g.s.Count("opts:bare-encoding-string")
		return jStr(g.pick("json", "base58", "base64", "base64+zstd", "jsonParsed"))
	}
	if g.rng.Intn(8) == 0 {
		g.s.Count("opts:not-an-object")
		return g.wrongTyped()
	}
	o := jObj()
	if g.rng.Intn(2) == 0 {
		o = o.with("encoding", g.encodingValue())
	}
	if g.rng.Intn(3) == 0 {
		if g.rng.Intn(3) == 0 {
			o = o.with("maxSupportedTransactionVersion", g.wrongTyped())
		} else {
			o = o.with("maxSupportedTransactionVersion", jNum(g.pick("0", "1", "1e30")))
		}
	}
	if g.rng.Intn(3) == 0 {
		if g.rng.Intn(3) == 0 {
			o = o.with("commitment", g.wrongTyped())
		} else {
			o = o.with("commitment", jStr(g.pick("finalized", "confirmed", "")))
		}
	}
	return o
}

func (g *c08Gen) addrValue() *c08J {
	w := g.w
	switch g.rng.Intn(12) {
	case 0, 1, 2, 3:
		g.s.Count("addr:present")
		return jStr(w.addrs[g.rng.Intn(len(w.addrs))].String())
	case 4, 5:
		g.s.Count("addr:absent")
		return jStr(b58n(g.rng, 32))
	case 6:
		g.s.Count("addr:31-bytes")
		return jStr(g.pick(b58n(g.rng, 31), strings.Repeat("1", 31)))
	case 7:
		g.s.Count("addr:33-bytes")
		return jStr(g.pick(b58n(g.rng, 33), strings.Repeat("1", 33)))
	case 8:
		g.s.Count("addr:empty")
		return jStr("")
	case 9:
		g.s.Count("addr:bad-alphabet")
		return jStr(g.pick("0OIl", "not base58!", "é"))
	case 10:
		g.s.Count("addr:all-zero")
		return jStr(strings.Repeat("1", 32))
	default:
		g.s.Count("addr:wrong-type")
		return g.wrongTyped()
	}
}

func (g *c08Gen) sigOptValue() *c08J {
	w := g.w
	switch g.rng.Intn(6) {
	case 0, 1:
		return jStr(w.sigs[g.rng.Intn(len(w.sigs))].String())
	case 2:
		return jStr(b58n(g.rng, 64))
	case 3:
		g.s.Count("gsfa-opt:bad-signature")
		return jStr(g.pick("", "0OIl", b58n(g.rng, 63)))
	default:
		return g.wrongTyped()
	}
}

func (g *c08Gen) gsfaOpts() *c08J {
	if g.rng.Intn(8) == 0 {
		g.s.Count("opts:not-an-object")
		return g.wrongTyped()
	}
	o := jObj()
	if g.rng.Intn(2) == 0 {
		if g.rng.Intn(4) == 0 {
			o = o.with("limit", g.wrongTyped())
		} else {
			o = o.with("limit", jNum(g.pick("0", "1", "2", "1000", "1001", "-1", "1e30", "2.5")))
		}
	}
	if g.rng.Intn(3) == 0 {
		o = o.with("before", g.sigOptValue())
	}
	if g.rng.Intn(3) == 0 {
		o = o.with("until", g.sigOptValue())
	}
	return o
}

// params builds the params member (nil = absent) for a method
func (g *c08Gen) params(method string) *c08J {
	switch g.rng.Intn(14) {
	case 0:
		g.s.Count("params:absent")
		return nil
	case 1:
		g.s.Count("params:null")
		return jNull()
	case 2:
		g.s.Count("params:empty-array")
		return jArr()
	case 3:
		g.s.Count("params:object")
		return jObj(kv("slot", jInt(g.w.slots[0])))
	case 4:
		g.s.Count("params:scalar")
		return g.pickJ(jInt(432001), jStr("x"), jBool(true))
	}
	var first, opts *c08J
	switch method {
	case "getBlock":
		first, opts = g.slotValue(), g.blockOpts()
	case "getBlockTime":
		first, opts = g.slotValue(), g.wrongTyped()
	case "getTransaction":
		first, opts = g.sigValue(), g.txOpts()
	case "getSignaturesForAddress":
		first, opts = g.addrValue(), g.gsfaOpts()
	default:
		first, opts = g.wrongTyped(), g.wrongTyped()
	}
	switch g.rng.Intn(8) {
	case 0, 1, 2:
		g.s.Count("params:arity-1")
		return jArr(first)
	case 3, 4, 5, 6:
		g.s.Count("params:arity-2")
		return jArr(first, opts)
	default:
		g.s.Count("params:arity-3")
		return jArr(first, opts, g.wrongTyped())
	}
}

func (g *c08Gen) pickJ(xs ...*c08J) *c08J { return xs[g.rng.Intn(len(xs))] }

var c08Methods = []string{"getBlock", "getBlock", "getBlock", "getTransaction", "getTransaction", "getBlockTime", "getBlockTime",
	"getSignaturesForAddress", "getSignaturesForAddress", "getSlot", "getFirstAvailableBlock", "getVersion", "getGenesisHash",
	"getHealth", "getBalance", "", "GETBLOCK", "getBlocké"}

// rpcBody: the JSON-RPC request object (or another top-level value)
// oddMethod: an unknown method name whose length sits at a size boundary, with a multi-byte rune straddling it, or
// with control characters — the name is echoed into logs and into the metrics label
func (g *c08Gen) oddMethod() string {
	n := []int{31, 32, 33, 63, 64, 65, 66, 127, 128, 129, 255, 256, 257, 1000}[g.rng.Intn(14)]
	rn := g.pick("é", "€", "😀", "\u00e9", "é", "ß")
	var b strings.Builder
	switch g.rng.Intn(4) {
	case 0: // ASCII up to n-1 bytes, then the rune across byte n
		b.WriteString(strings.Repeat("a", n-1))
		b.WriteString(rn)
		b.WriteString(strings.Repeat("b", g.rng.Intn(4)))
	case 1: // runes all the way
		for b.Len() < n+2 {
			b.WriteString(rn)
		}
	case 2: // a control character or DEL somewhere
		b.WriteString(strings.Repeat("m", n))
		s := []byte(b.String())
		s[g.rng.Intn(len(s))] = []byte{0x01, 0x1f, 0x7f, 0x09}[g.rng.Intn(4)]
		return string(s)
	default:
		b.WriteString(strings.Repeat("x", n-2))
		b.WriteString(rn)
		b.WriteString(rn)
	}
	return b.String()
}

func (g *c08Gen) rpcBody() *c08J {
	method := c08Methods[g.rng.Intn(len(c08Methods))]
	if g.rng.Intn(12) == 0 {
		method = g.oddMethod()
		g.s.Count("method:odd-long-name")
	}
	o := jObj()
	if g.rng.Intn(10) != 0 {
		o = o.with("jsonrpc", jStr("2.0"))
	}
	switch g.rng.Intn(14) {
	case 0:
		g.s.Count("id:absent")
	case 1:
		g.s.Count("id:null")
		o = o.with("id", jNull())
	case 2:
		g.s.Count("id:string")
		o = o.with("id", jStr(g.pick("abc", "", "1")))
	case 3:
		g.s.Count("id:bad")
		o = o.with("id", g.pickJ(jNum("1.5"), jNum("9223372036854775808"), jNum("1e3"), jBool(true), jArr(), jObj(), jNum("-1"), jNum("9223372036854775807")))
	default:
		o = o.with("id", jInt(uint64(g.rng.Intn(1000))))
	}
	switch g.rng.Intn(16) {
	case 0:
		g.s.Count("method:absent")
	case 1:
		g.s.Count("method:wrong-type")
		o = o.with("method", g.pickJ(jNull(), jInt(1), jArr(jStr("getBlock")), jBool(false)))
	default:
		o = o.with("method", jStr(method))
	}
	if p := g.params(method); p != nil {
		o = o.with("params", p)
		if g.rng.Intn(25) == 0 {
			g.s.Count("params:duplicate-member")
			o = o.with("params", g.pickJ(jNull(), jArr(), jArr(jInt(g.w.slots[0]))))
		}
	}
	if g.rng.Intn(12) == 0 {
		o = o.with("meta", g.wrongTyped())
	}
	if g.rng.Intn(12) == 0 {
		o = o.with("extra", g.wrongTyped())
	}
	// shuffle member order
	p := g.rng.Perm(len(o.obj))
	sh := make([]c08KV, len(o.obj))
	for i, j := range p {
		sh[i] = o.obj[j]
	}
	// keep relative order of duplicate keys (last wins semantics is part of the test, but must be deterministic for the model too)
	o.obj = sh
	switch g.rng.Intn(30) {
	case 0:
		g.s.Count("top:batch-array")
		return jArr(o, o)
	case 1:
		g.s.Count("top:scalar")
		return g.pickJ(jNull(), jInt(1), jStr("getBlock"), jBool(true), jArr())
	}
	return o
}

func (g *c08Gen) httpLine(r *c08HTTP, tree string) string {
	// the normalised path and Content-Length as fasthttp reports them
	var req fasthttp.Request
	np, cl := "", 0
	if err := c08Parse(r.wire(), &req); err == nil {
		var ctx fasthttp.RequestCtx
		ctx.Init(&req, nil, nil)
		np = string(ctx.Path())
		cl = req.Header.ContentLength()
	} else {
		tree = "R" // rejected by the HTTP parser: the handler is never called
	}
	ch := "0"
	if r.chunked {
		ch = "1"
	}
	return fmt.Sprintf("http %s %s %s %s %s %d %s", r.method, hx(r.rawPath), hx(string(r.body)), ch, hx(np), cl, tree)
}

func (g *c08Gen) genRPC() string {
	body := g.rpcBody()
	r := &c08HTTP{method: "POST", rawPath: "/", body: body.bytes()}
	return g.httpLine(r, body.tokens())
}

func (g *c08Gen) genTruncated() string {
	body := g.rpcBody()
	for body.k != 'o' {
		body = g.rpcBody()
	}
	b := body.bytes()
	cut := 1 + g.rng.Intn(len(b)-1)
	g.s.Count("body:truncated")
	r := &c08HTTP{method: "POST", rawPath: "/", body: b[:cut]}
	return g.httpLine(r, "M")
}

func (g *c08Gen) genHTTPShape() string {
	w := g.w
	body := jObj(kv("jsonrpc", jStr("2.0")), kv("id", jInt(1)), kv("method", jStr("getBlock")), kv("params", jArr(jInt(w.slots[g.rng.Intn(len(w.slots))]))))
	r := &c08HTTP{method: "POST", rawPath: "/", body: body.bytes()}
	tree := body.tokens()
	switch g.rng.Intn(16) {
	case 0:
		g.s.Count("http:metrics")
		r.rawPath = "/metrics"
		r.method = g.pick("GET", "POST", "HEAD")
	case 1:
		g.s.Count("http:health")
		r.rawPath = g.pick("/health", "/health", "/health/", "/health?x=1", "//health", "/x/../health")
		r.method = g.pick("GET", "GET", "POST", "HEAD")
	case 2, 3:
		g.s.Count("http:slot-to-cid")
		arg := g.pick(fmt.Sprint(w.slots[g.rng.Intn(len(w.slots))]), fmt.Sprint(w.slots[g.rng.Intn(len(w.slots))])+"/", fmt.Sprint(w.slots[g.rng.Intn(len(w.slots))])+"///",
			"432001", "0", "", "/", "abc", "-1", "+5", "18446744073709551615", "18446744073709551616", "1_000", "0x10", "1.0", "%31%32", "12%2F", "99999999999999999999999", "432001/extra")
		r.rawPath = "/api/v1/slot-to-cid/" + arg
		r.method = g.pick("GET", "GET", "GET", "POST", "PUT", "HEAD")
	case 4, 5:
		g.s.Count("http:sig-to-cid")
		arg := g.pick(w.sigs[g.rng.Intn(len(w.sigs))].String(), w.sigs[g.rng.Intn(len(w.sigs))].String()+"/", b58n(g.rng, 64), b58n(g.rng, 63), strings.Repeat("1", 64), "", "0OIl", "abc/def", "%C3%A9")
		r.rawPath = "/api/v1/sig-to-cid/" + arg
		r.method = g.pick("GET", "GET", "GET", "POST", "DELETE")
	case 6:
		g.s.Count("http:api-other")
		r.rawPath = g.pick("/api/v1/", "/api/v1/other", "/api/v1/slot-to-cid", "/api/v1/sig-to-cid", "/api/v1", "/api/v2/slot-to-cid/1", "/API/V1/slot-to-cid/1")
		r.method = g.pick("GET", "POST")
	case 7, 8:
		g.s.Count("http:non-post")
		r.method = g.pick("GET", "PUT", "DELETE", "HEAD", "OPTIONS", "PATCH", "TRACE", "CONNECT", "FOO", "post")
		r.rawPath = g.pick("/", "/rpc", "/health/x")
	case 9:
		g.s.Count("http:other-path")
		r.rawPath = g.pick("/rpc", "/a/b/c", "/?x=1", "/%2e%2e/", "/metricsx", "*")
	case 10, 11:
		g.s.Count("http:oversize")
		pad := g.pick0([]uint64{900, 940, 950, 960, 980, 1100, 5000, 70000})
		body = body.with("pad", jStr(strings.Repeat("a", int(pad))))
		r.body = body.bytes()
		tree = body.tokens()
	case 12:
		g.s.Count("http:content-length-1024-edge")
		base := len(body.with("pad", jStr("")).bytes())
		for _, target := range []int{1023, 1024, 1025}[g.rng.Intn(3):][:1] {
			body = body.with("pad", jStr(strings.Repeat("a", target-base)))
		}
		r.body = body.bytes()
		tree = body.tokens()
	case 13:
		g.s.Count("http:chunked")
		r.chunked = true
		if g.rng.Bool() {
			body = body.with("pad", jStr(strings.Repeat("a", 3000)))
			r.body = body.bytes()
			tree = body.tokens()
		}
	case 14:
		g.s.Count("http:empty-body")
		r.body = nil
		tree = "M"
	default:
		g.s.Count("http:whitespace-body")
		r.body = []byte(g.pick(" ", "\n", "{}", "[]", "{\"method\":\"getBlock\"} x", "{\"method\":\"getSlot\"}\n", "\ufeff{}"))
		switch string(r.body) {
		case "{}":
			tree = jObj().tokens()
		case "[]":
			tree = jArr().tokens()
		case "{\"method\":\"getSlot\"}\n":
			tree = jObj(kv("method", jStr("getSlot"))).tokens()
		default:
			tree = "M"
		}
	}
	return g.httpLine(r, tree)
}

func (g *c08Gen) mutate(b []byte) []byte {
	b = append([]byte(nil), b...)
	n := 1 + g.rng.Intn(4)
	for i := 0; i < n && len(b) > 0; i++ {
		p := g.rng.Intn(len(b))
		switch g.rng.Intn(7) {
		case 0:
			b[p] ^= 1 << uint(g.rng.Intn(8))
		case 1:
			b[p] = byte(g.rng.Intn(256))
		case 2:
			b = append(b[:p], b[p+1:]...)
		case 3:
			b = append(b[:p], append([]byte{g.pick("{", "}", "[", "]", "\"", ",", ":", "0", "-", "e", "\\", "n", "t")[0]}, b[p:]...)...)
		case 4:
			q := g.rng.Intn(len(b))
			if p > q {
				p, q = q, p
			}
			b = append(b[:p], b[q:]...)
		case 5:
			q := g.rng.Intn(len(b))
			if p > q {
				p, q = q, p
			}
			b = append(b[:q], append(append([]byte(nil), b[p:q]...), b[q:]...)...)
		default:
			for _, kw := range []string{"null", "true", "1e999", "-0", "[]", "{}", "\"\"", "\\u0000", "\\ud800"} {
				if g.rng.Intn(9) == 0 {
					b = append(b[:p], append([]byte(kw), b[p:]...)...)
					break
				}
			}
		}
	}
	return b
}

func (g *c08Gen) genRaw() string {
	body := g.rpcBody()
	r := &c08HTTP{method: "POST", rawPath: "/", body: body.bytes()}
	var wire []byte
	if g.rng.Intn(4) == 0 {
		g.s.Count("raw:wire-mutation")
		if g.rng.Intn(3) == 0 {
			r.rawPath = g.pick("/api/v1/slot-to-cid/432001", "/api/v1/sig-to-cid/"+g.w.sigs[0].String(), "/health", "/metrics")
			r.method = "GET"
			r.body = nil
		}
		wire = g.mutate(r.wire())
	} else {
		g.s.Count("raw:body-mutation")
		r.body = g.mutate(r.body)
		wire = r.wire()
	}
	return "raw " + hx(string(wire))
}

// --- gRPC

func (g *c08Gen) anySlot() uint64 {
	w := g.w
	switch g.rng.Intn(10) {
	case 0, 1, 2, 3:
		return w.slots[g.rng.Intn(len(w.slots))]
	case 4:
		if len(w.absent) > 0 {
			return w.absent[g.rng.Intn(len(w.absent))]
		}
		return 432001
	case 5:
		return 0
	case 6:
		return g.pick0([]uint64{431999, 432000, 863999, 864000, 1295999, 1296000})
	case 7:
		return g.pick0([]uint64{1<<64 - 1, 1<<64 - 2, 1 << 63, 1<<63 - 1})
	default:
		return uint64(432000 * (3 + g.rng.Intn(900)))
	}
}

func (g *c08Gen) anySigBytes() string {
	w := g.w
	switch g.rng.Intn(8) {
	case 0, 1, 2:
		s := w.sigs[g.rng.Intn(len(w.sigs))]
		return string(s[:])
	case 3:
		return string(g.rng.Bytes(64))
	case 4:
		g.s.Count("grpc:sig-empty")
		return ""
	case 5:
		g.s.Count("grpc:sig-short")
		return string(g.rng.Bytes(1 + g.rng.Intn(63)))
	case 6:
		g.s.Count("grpc:sig-long")
		return string(g.rng.Bytes(65 + g.rng.Intn(100)))
	default:
		return string(make([]byte, 64))
	}
}

func (g *c08Gen) account() string {
	w := g.w
	switch g.rng.Intn(12) {
	case 0, 1, 2, 3, 4:
		return w.addrs[g.rng.Intn(len(w.addrs))].String()
	case 5, 6:
		return b58n(g.rng, 32)
	case 7:
		g.s.Count("grpc:account-empty")
		return ""
	case 8:
		g.s.Count("grpc:account-short")
		return g.pick(b58n(g.rng, 31), "1", strings.Repeat("1", 31), b58n(g.rng, 1))
	case 9:
		g.s.Count("grpc:account-long")
		return g.pick(b58n(g.rng, 33), b58n(g.rng, 64), strings.Repeat("1", 33), strings.Repeat("z", 200))
	case 10:
		g.s.Count("grpc:account-bad-alphabet")
		return g.pick("0OIl", "not-base58", "é", " ", solana.VoteProgramID.String()+" ")
	default:
		return g.pick(solana.VoteProgramID.String(), solana.SystemProgramID.String(), strings.Repeat("1", 32))
	}
}

func (g *c08Gen) accounts(maxN int) []string {
	n := g.rng.Intn(maxN + 1)
	var o []string
	for i := 0; i < n; i++ {
		o = append(o, g.account())
	}
	return o
}

// a slot range that the real loops can finish: at most ~1500 slots, or huge with a cancelled context
func (g *c08Gen) slotRange() (start uint64, end string, cancelled string) {
	w := g.w
	start = g.anySlot()
	cancelled = "0"
	switch g.rng.Intn(8) {
	case 0, 1:
		g.s.Count("grpc:end-absent")
		end = "-"
		if start > 1<<64-200 {
			// start+100 == 2^64-1 makes `for slot := start; slot <= end; slot++` spin until the context ends
			// (slot wraps): not a crash, but the harness must not wait for it.  One below and the wrap-around are kept.
			start = g.pick0([]uint64{1<<64 - 102, 1<<64 - 100, 1<<64 - 1})
		}
	case 2:
		g.s.Count("grpc:end-before-start")
		if start == 0 {
			start = 5
		}
		end = fmt.Sprint(start - 1 - uint64(g.rng.Intn(int(min(start, 1000)))))
	case 3:
		g.s.Count("grpc:huge-range-cancelled")
		end = fmt.Sprint(uint64(1<<64 - 1))
		cancelled = "1"
	case 4:
		g.s.Count("grpc:range-across-epochs")
		start = w.eps[0].G.Blocks[len(w.eps[0].G.Blocks)-1].Slot - uint64(g.rng.Intn(10))
		if start < 432000 {
			start = 432000
		}
		end = fmt.Sprint(864000 + uint64(g.rng.Intn(40)))
		if false {
			end = "-"
		}
		// the gap between the last block of epoch 1 and 864000 is large; scan only a window around the edge
		start = 864000 - uint64(1+g.rng.Intn(50))
	default:
		if start > 1<<64-2000 {
			start = 1<<64 - 2000
		}
		end = fmt.Sprint(start + uint64(g.rng.Intn(150)))
	}
	return
}

func (g *c08Gen) optB() string { return g.pick("-", "0", "1") }

func (g *c08Gen) genGrpc() string {
	switch g.rng.Intn(16) {
	case 0:
		return "g GetVersion"
	case 1, 2:
		return fmt.Sprintf("g GetBlock %d", g.anySlot())
	case 3:
		return fmt.Sprintf("g GetBlockTime %d", g.anySlot())
	case 4, 5:
		return fmt.Sprintf("g GetTransaction %s", hx(g.anySigBytes()))
	case 6, 7, 8:
		start, end, c := g.slotRange()
		filter := "-"
		if g.rng.Intn(3) != 0 {
			filter = csvHex(g.accounts(3))
			g.s.Count("grpc:streamblocks-filter")
		}
		return fmt.Sprintf("g StreamBlocks %d %s %s %s", start, end, c, filter)
	case 9, 10, 11, 12:
		start, end, c := g.slotRange()
		filter := "-"
		if g.rng.Intn(5) != 0 {
			filter = fmt.Sprintf("V%s;F%s;I%s;E%s;R%s", g.optB(), g.optB(), csvHex(g.accounts(2)), csvHex(g.accounts(2)), csvHex(g.accounts(2)))
		} else {
			g.s.Count("grpc:streamtx-filter-absent")
		}
		if c == "1" && filter != "-" && g.w.gsfaOf[g.w.cur] {
			c = "0"
			end = fmt.Sprint(start + 50)
			if start > 1<<64-100 {
				start, end = 432000, "432050"
			}
		}
		return fmt.Sprintf("g StreamTransactions %d %s %s %s", start, end, c, filter)
	default:
		n := g.rng.Intn(6)
		var items []string
		for i := 0; i < n; i++ {
			switch g.rng.Intn(6) {
			case 0:
				items = append(items, "V")
			case 1, 2:
				items = append(items, fmt.Sprintf("B%d", g.anySlot()))
			case 3:
				items = append(items, fmt.Sprintf("T%d", g.anySlot()))
			case 4:
				items = append(items, "X"+hx(g.anySigBytes()))
			default:
				g.s.Count("grpc:get-no-oneof")
				items = append(items, "N")
			}
		}
		it := strings.Join(items, ";")
		if it == "" {
			it = "."
		}
		tail := "eof"
		if g.rng.Intn(6) == 0 {
			tail = "err"
			g.s.Count("grpc:get-recv-error")
		}
		sf := "-"
		if g.rng.Intn(6) == 0 {
			sf = fmt.Sprint(1 + g.rng.Intn(3))
			g.s.Count("grpc:get-send-fails")
		}
		return fmt.Sprintf("g Get %s %s %s", it, tail, sf)
	}
}

func (g *c08Gen) genBca() string {
	w := g.w
	n := 1 + g.rng.Intn(3)
	var items []string
	for i := 0; i < n; i++ {
		if g.rng.Intn(6) == 0 {
			items = append(items, "g")
			continue
		}
		items = append(items, fmt.Sprintf("%d:%s", g.rng.Intn(len(w.txBytes)), g.pick("real", "real", "empty", "garbage")))
	}
	return w.bcaLine(items, g.accounts(3))
}

// directedStreams: filter shapes × end_slot shapes × start in each fixture epoch, for both stream RPCs; the three
// servers give {no epoch, gsfa loaded, gsfa + no gsfa}.  Shapes that would make the *unchanged* loops spin
// (an explicit end of 2^64-1: `slot <= end` never fails) are sent with a cancelled context on the scanning path and
// not at all on the gsfa path, where txBuffer.flush does not look at the context.
func (g *c08Gen) directedStreams() []string {
	w := g.w
	var out []string
	known := w.addrs[0].String()
	unknown := b58n(zz.NewRNG(77), 32)
	// deep enough inside the epoch that `end < start` by a few slots stays in the same epoch
	last := func(le *loadedEpoch) uint64 { return le.G.Blocks[len(le.G.Blocks)-1].Slot }
	starts := []uint64{last(w.eps[0]), last(w.eps[1])}
	type endShape struct {
		name string
		end  func(start uint64) string
	}
	ends := []endShape{
		{"absent", func(uint64) string { return "-" }},
		{"equal", func(s uint64) string { return fmt.Sprint(s) }},
		{"minus-1", func(s uint64) string { return fmt.Sprint(s - 1) }},
		{"minus-2", func(s uint64) string { return fmt.Sprint(s - 2) }},
		{"minus-5", func(s uint64) string { return fmt.Sprint(s - 5) }},
		{"minus-epoch", func(s uint64) string { return fmt.Sprint(s - 432000) }},
		{"to-zero", func(s uint64) string { return "0" }},
		{"wide", func(s uint64) string { return fmt.Sprint(s + 200000) }},
		{"max", func(s uint64) string { return fmt.Sprint(uint64(1<<64 - 1)) }},
	}
	txFilters := []struct{ name, f string }{
		{"none", "-"},
		{"exclude", fmt.Sprintf("V1;F1;I.;E%s;R.", csvHex([]string{known}))},
		{"include-known", fmt.Sprintf("V1;F1;I%s;E.;R.", csvHex([]string{known}))},
		{"include-unknown", fmt.Sprintf("V1;F1;I%s;E.;R.", csvHex([]string{unknown}))},
		{"include-known-optionals-absent", fmt.Sprintf("V-;F-;I%s;E.;R.", csvHex([]string{known}))},
		{"required", fmt.Sprintf("V1;F1;I.;E.;R%s", csvHex([]string{known}))},
		// a valid key with white space around it is not a base58 string: every filter list must refuse it up front
		{"include-padded", fmt.Sprintf("V1;F1;I%s;E.;R.", csvHex([]string{known + "\n"}))},
		{"exclude-padded", fmt.Sprintf("V1;F1;I.;E%s;R.", csvHex([]string{" " + known}))},
		{"required-padded", fmt.Sprintf("V1;F1;I.;E.;R%s", csvHex([]string{"\t" + known + " "}))},
	}
	blkFilters := []struct{ name, f string }{
		{"none", "-"},
		{"include-known", csvHex([]string{known})},
		{"include-unknown", csvHex([]string{unknown})},
		{"include-malformed", csvHex([]string{"not-base58"})},
		{"include-padded", csvHex([]string{known + "\n"})},
	}
	for _, start := range starts {
		for _, e := range ends {
			end := e.end(start)
			for _, f := range txFilters {
				g.s.Count("stream-cross:tx:" + f.name + ":end-" + e.name)
				cancel := "0"
				if e.name == "max" {
					tf := parseTxFilter(f.f)
					if tf != nil && len(tf.AccountInclude) > 0 && w.gsfaInRange(start, 1<<64-1) {
						continue // unchanged code: flush() walks 2^64 slots without looking at the context
					}
					cancel = "1"
				}
				out = append(out, fmt.Sprintf("g StreamTransactions %d %s %s %s", start, end, cancel, f.f))
			}
			for _, f := range blkFilters {
				g.s.Count("stream-cross:blocks:" + f.name + ":end-" + e.name)
				cancel := "0"
				if e.name == "max" {
					cancel = "1"
				}
				out = append(out, fmt.Sprintf("g StreamBlocks %d %s %s %s", start, end, cancel, f.f))
			}
		}
	}
	// start + maxSlotsToStream wraps around
	for _, f := range txFilters {
		out = append(out, fmt.Sprintf("g StreamTransactions %d - 0 %s", uint64(1<<64-50), f.f))
	}
	for _, f := range blkFilters {
		out = append(out, fmt.Sprintf("g StreamBlocks %d - 0 %s", uint64(1<<64-50), f.f))
	}
	return out
}

// bcaLine adds the ground truth the model needs: is one of the accounts a static key / a loaded address of the tx
func (w *c08World) bcaLine(items []string, accounts []string) string {
	set := map[string]bool{}
	for _, a := range accounts {
		set[a] = true
	}
	hit := func(ks []solana.PublicKey) int {
		for _, k := range ks {
			if set[k.String()] {
				return 1
			}
		}
		return 0
	}
	var out []string
	for _, it := range items {
		if it == "g" {
			out = append(out, it)
			continue
		}
		p := strings.Split(it, ":")
		i, _ := strconv.Atoi(p[0])
		lh := 0
		if p[1] == "real" {
			lh = hit(w.txLoaded[i])
		}
		out = append(out, fmt.Sprintf("%s:%s:%d:%d", p[0], p[1], hit(w.txStatic[i]), lh))
	}
	return fmt.Sprintf("bca %s %s", strings.Join(out, ";"), csvHex(accounts))
}

// directed ops: the shapes the property names, once per world
func (g *c08Gen) directed() []string {
	w := g.w
	var out []string
	rpc := func(o *c08J) {
		r := &c08HTTP{method: "POST", rawPath: "/", body: o.bytes()}
		out = append(out, g.httpLine(r, o.tokens()))
	}
	base := func(method string) *c08J {
		return jObj(kv("jsonrpc", jStr("2.0")), kv("id", jInt(1)), kv("method", jStr(method)))
	}
	for _, m := range []string{"getBlock", "getBlockTime", "getSignaturesForAddress", "getTransaction", "getSlot", "getFirstAvailableBlock", "getVersion", "getGenesisHash", "getHealth"} {
		rpc(base(m))                               // no params member
		rpc(base(m).with("params", jNull()))       // null
		rpc(base(m).with("params", jArr()))        // []
		rpc(base(m).with("params", jObj()))        // {}
		rpc(base(m).with("params", jArr(jNull()))) // [null]
	}
	s0 := w.slots[0]
	rpc(base("getBlock").with("params", jArr(jInt(s0))))
	rpc(base("getBlock").with("params", jArr(jInt(s0), jObj(kv("encoding", jStr("base64")), kv("rewards", jBool(false))))))
	rpc(base("getBlock").with("params", jArr(jInt(s0), jObj(kv("rewards", jNull())))))
	rpc(base("getBlock").with("params", jArr(jInt(s0), jObj(kv("encoding", jNull())))))
	rpc(base("getBlock").with("params", jArr(jInt(s0), jNull())))
	rpc(base("getBlock").with("params", jArr(jInt(s0), jObj(kv("encoding", jStr("jsonParsed"))))))
	for _, enc := range []string{"json", "base58", "base64", "base64+zstd", "jsonParsed", "finalized"} {
		// a string where the options object belongs, for a block / transaction that exists
		rpc(base("getBlock").with("params", jArr(jInt(s0), jStr(enc))))
		rpc(base("getBlock").with("params", jArr(jInt(w.slots[len(w.slots)-1]), jStr(enc))))
		rpc(base("getTransaction").with("params", jArr(jStr(w.sigs[0].String()), jStr(enc))))
	}
	rpc(base("getBlock").with("params", jArr(jInt(s0), jInt(7))))
	rpc(base("getBlock").with("params", jArr(jInt(s0), jBool(true))))
	rpc(base("getBlock").with("params", jArr(jInt(s0), jArr())))
	rpc(base("getBlockTime").with("params", jArr(jInt(s0))))
	rpc(base("getTransaction").with("params", jArr(jStr(w.sigs[0].String()))))
	rpc(base("getTransaction").with("params", jArr(jStr(w.sigs[0].String()), jObj(kv("encoding", jStr("base58"))))))
	rpc(base("getTransaction").with("params", jArr(jStr(w.sigs[0].String()), jObj(kv("commitment", jStr("confirmed"))))))
	rpc(base("getTransaction").with("params", jArr(jStr(strings.Repeat("1", 64)))))
	rpc(base("getSignaturesForAddress").with("params", jArr(jStr(w.addrs[0].String()))))
	rpc(base("getSignaturesForAddress").with("params", jArr(jStr(w.addrs[0].String()), jObj(kv("limit", jInt(2)), kv("before", jStr(w.sigs[0].String()))))))
	// gRPC
	a0 := w.addrs[0].String()
	out = append(out,
		"g GetVersion",
		fmt.Sprintf("g GetBlock %d", s0),
		fmt.Sprintf("g GetBlockTime %d", s0),
		fmt.Sprintf("g GetTransaction %s", hx(string(w.sigs[0][:]))),
		"g GetTransaction -",
		fmt.Sprintf("g StreamBlocks %d %d 0 -", s0, s0+20),
		fmt.Sprintf("g StreamBlocks %d - 0 %s", s0, csvHex([]string{a0})),
		fmt.Sprintf("g StreamBlocks %d %d 0 %s", s0, s0+20, csvHex([]string{"not-base58", ""})),
		fmt.Sprintf("g StreamTransactions %d %d 0 -", s0, s0+20),
		fmt.Sprintf("g StreamTransactions %d %d 0 V-;F-;I.;E.;R.", s0, s0+20), // StreamTransactionsFilter{}
		fmt.Sprintf("g StreamTransactions %d %d 0 V1;F-;I.;E.;R.", s0, s0+20),
		fmt.Sprintf("g StreamTransactions %d %d 0 V-;F1;I.;E.;R.", s0, s0+20),
		fmt.Sprintf("g StreamTransactions %d %d 0 V1;F1;I.;E.;R.", s0, s0+20),
		fmt.Sprintf("g StreamTransactions %d %d 0 V1;F1;I.;E%s;R.", s0, s0+20, csvHex([]string{"not-base58"})),
		fmt.Sprintf("g StreamTransactions %d %d 0 V1;F1;I.;E.;R%s", s0, s0+20, csvHex([]string{""})),
		fmt.Sprintf("g StreamTransactions %d %d 0 V1;F1;I%s;E.;R.", s0, s0+20, csvHex([]string{strings.Repeat("1", 31)})),
		fmt.Sprintf("g StreamTransactions %d %d 0 V1;F1;I%s;E.;R.", s0, s0+20, csvHex([]string{a0})),
		fmt.Sprintf("g StreamTransactions %d %d 0 V-;F-;I%s;E.;R.", s0, s0+20, csvHex([]string{a0})),
		fmt.Sprintf("g StreamTransactions %d %d 0 V1;F1;I%s;E%s;R%s", s0, s0+20, csvHex([]string{a0}), csvHex([]string{b58n(g.rng, 32)}), csvHex([]string{a0})),
		"g StreamTransactions 864005 5 0 -",               // end two epochs before start
		"g StreamTransactions 5 18446744073709551615 1 -", // enormous range, context already cancelled
		"g StreamBlocks 5 18446744073709551615 1 -",
		fmt.Sprintf("g Get V;B%d;T%d;X%s;N eof -", s0, s0, hx(string(w.sigs[0][:]))),
		"g Get . eof -",
		"g Get N eof -",
	)
	out = append(out, g.directedStreams()...)
	out = append(out,
		w.bcaLine([]string{"0:real"}, []string{a0}),
		w.bcaLine([]string{"0:garbage"}, []string{b58n(g.rng, 32)}),
		w.bcaLine([]string{"0:empty", "g", "1:real"}, []string{"x"}),
	)
	return out
}

// ---------------------------------------------------------------------------------------------------------

func TestVerifC08(t *testing.T) {
	if os.Getenv("VERIF_C08_CHILD") != "" {
		c08ChildMain(t)
		return
	}
	c08Quiet()
	s := zz.NewSession()
	defer s.Close()
	dir, err := os.MkdirTemp("", "verif-c08-")
	if err != nil {
		t.Fatal(err)
	}
	defer os.RemoveAll(dir)
	w, err := c08BuildWorld(dir, false)
	if err != nil {
		s.Violation("fixture epochs could not be built/loaded: "+err.Error(), "C08:fixture-failed", "")
		return
	}
	s.Add("fixture:slots", len(w.slots))
	s.Add("fixture:signatures", len(w.sigs))
	s.Add("fixture:addresses", len(w.addrs))

	seenKey := map[string]int{}
	var curWorld string
	run := func(line string) {
		if strings.HasPrefix(line, "world ") {
			curWorld = line
		}
		out := w.execOp(line)
		nontrivial := out != "panic" && !strings.Contains(out, "e-32700") && out != "http-reject" && out != "ok"
		s.Op(line, out, nontrivial)
		oc := strings.SplitN(out, " ", 2)[0]
		if k := strings.IndexByte(oc, ';'); k >= 0 {
			oc = "get-stream-ends-with:" + oc[k+1:]
		}
		s.Count("outcome:" + oc)
		if strings.HasPrefix(out, "child-") || strings.HasPrefix(out, "unknown") || strings.HasPrefix(out, "world-mismatch") {
			s.Violation("harness could not execute op: "+out+" | "+line, "C08:harness-op-failed", s.Replay([]string{curWorld, line}))
		}
		if out == "panic" {
			p := c08LastPanic
			if p == nil {
				p = &c08Panic{site: "unknown", kind: "other"}
			}
			k := p.key()
			seenKey[k]++
			if seenKey[k] <= 3 {
				l := line
				if len(l) > 700 {
					l = l[:700] + "…"
				}
				s.Violation(fmt.Sprintf("request makes a handler panic at %s (%s): %s | %s | %s", p.site, p.kind, p.msg, curWorld, l), k, s.Replay([]string{curWorld, line}))
			}
		}
	}

	if rp := zz.ReplayFile(); rp != "" {
		data, err := os.ReadFile(rp)
		if err != nil {
			t.Fatal(err)
		}
		for _, line := range strings.Split(string(data), "\n") {
			line = strings.TrimSpace(line)
			if line == "" || strings.HasPrefix(line, "#") {
				continue
			}
			run(line)
		}
		return
	}

	g := &c08Gen{w: w, rng: zz.NewRNG(zz.Seed()), s: s}
	nRPC, nShape, nTrunc, nRaw, nGrpc, nBca := 1700, 250, 80, 200, 150, 25
	if zz.Thorough() {
		nRPC, nShape, nTrunc, nRaw, nGrpc, nBca = 20000, 3000, 1000, 40000, 2000, 200
	}
	for wi := 0; wi < 3; wi++ {
		w.cur = wi
		run(w.worldLine(wi))
		for _, l := range g.directed() {
			run(l)
		}
		for i := 0; i < nRPC; i++ {
			run(g.genRPC())
		}
		for i := 0; i < nShape; i++ {
			run(g.genHTTPShape())
		}
		for i := 0; i < nTrunc; i++ {
			run(g.genTruncated())
		}
		for i := 0; i < nRaw; i++ {
			run(g.genRaw())
		}
		for i := 0; i < nGrpc; i++ {
			run(g.genGrpc())
		}
		for i := 0; i < nBca; i++ {
			run(g.genBca())
		}
		s.Count("concurrent-clients-phase")
		run("conc 40")
	}
	if len(w.multis) > 3 {
		// blocks with Rewards nodes: the commission of a reward is a string in the archive ("" / "7" / not a number)
		w.cur = 3
		run(w.worldLine(3))
		base := func(method string) *c08J {
			return jObj(kv("jsonrpc", jStr("2.0")), kv("id", jInt(1)), kv("method", jStr(method)))
		}
		for i, slot := range w.rewardSlots {
			s.Count("rewards:block-with-commission")
			_ = i
			for _, opts := range []*c08J{nil, jObj(kv("rewards", jBool(true))), jObj(kv("rewards", jBool(false))), jObj(kv("encoding", jStr("base64")))} {
				o := base("getBlock").with("params", jArr(jInt(slot)))
				if opts != nil {
					o = base("getBlock").with("params", jArr(jInt(slot), opts))
				}
				r := &c08HTTP{method: "POST", rawPath: "/", body: o.bytes()}
				run(g.httpLine(r, o.tokens()))
			}
			run(fmt.Sprintf("g GetBlock %d", slot))
		}
		w.rewardEp.Ep.Close()
	}
	keys := make([]string, 0, len(seenKey))
	for k := range seenKey {
		keys = append(keys, k)
	}
	sort.Strings(keys)
	for _, k := range keys {
		s.Add("panics:"+k, seenKey[k])
	}
	s.Add("ops-run-in-a-child-process", c08ChildRuns)
	for _, le := range w.eps {
		le.Ep.Close()
	}
}

package main

// C01 harness: generated epoch CARs → real `index all` → real Epoch lookups for every object, slot and
// signature, through a local CAR file and through a remote (HTTP range) ReaderAt; compared line by line with the
// Lean model (CAR parser + IndexAll.build + compact-index model) and checked against the generator's ground truth.

import (
	"bytes"
	"context"
	"encoding/hex"
	"fmt"
	"net/http"
	"net/http/httptest"
	"os"
	"path/filepath"
	"strings"
	"sync"
	"testing"

	"github.com/cespare/xxhash/v2"
	"github.com/gagliardetto/solana-go"
	"github.com/ipfs/go-cid"
	"github.com/rpcpool/yellowstone-faithful/compactindexsized"
	"github.com/rpcpool/yellowstone-faithful/indexes"
	zz "github.com/rpcpool/yellowstone-faithful/zzverif"
)

type c01Case struct {
	name string
	o    genOpts
}

func c01Cases(rng *zz.RNG, thorough bool) []c01Case {
	cs := []c01Case{
		{"tiny", genOpts{Epoch: 1, NBlocks: 3, MaxTx: 2, SkipPct: 30}},
		{"frames", genOpts{Epoch: 2, NBlocks: 25, MaxTx: 6, SkipPct: 40, FramePct: 50, LoadedPct: 30}},
		{"big-sections", genOpts{Epoch: 3, NBlocks: 12, MaxTx: 4, SkipPct: 20, BigPct: 40, FramePct: 20}},
		{"many-blocks", genOpts{Epoch: 7, NBlocks: 600, MaxTx: 2, SkipPct: 50}},
		{"varint-boundaries", genOpts{Epoch: 5, NBlocks: 14, MaxTx: 2, SkipPct: 10,
			ExactSecLens: []int{126, 127, 128, 129, 130, 16382, 16383, 16384, 16385, 16511, 16512, 255, 256}}},
		{"many-tx", genOpts{Epoch: 6, NBlocks: 1300, MaxTx: 14, SkipPct: 5}},
		{"edge-signature-prefixes", genOpts{Epoch: 4, NBlocks: 6, MaxTx: 3, SkipPct: 20, Twins: -1,
			SigPrefixes: [][2]byte{{0xff, 0xff}, {0x00, 0x00}, {0xff, 0x00}, {0x00, 0xff}}}},
		{"mid-epoch", genOpts{Epoch: 123, NBlocks: 40, MaxTx: 5, SkipPct: 60, FirstSlotAt: 100000, FramePct: 10}},
	}
	n := 2
	if thorough {
		n = 10
		cs = append(cs,
			c01Case{"over-10000-objects", genOpts{Epoch: 9, NBlocks: 5200, MaxTx: 1, SkipPct: 10}},
			c01Case{"section-2MiB", genOpts{Epoch: 11, NBlocks: 4, MaxTx: 2, ExactSecLens: []int{2097151, 2097152, 2097153}}},
			c01Case{"over-10000-tx", genOpts{Epoch: 10, NBlocks: 2600, MaxTx: 8, SkipPct: 10, FramePct: 2}},
		)
	}
	for i := 0; i < n; i++ {
		cs = append(cs, c01Case{fmt.Sprintf("random-%d", i), genOpts{Epoch: uint64(20 + rng.Intn(600)), NBlocks: 1 + rng.Intn(120), MaxTx: 1 + rng.Intn(9),
			SkipPct: rng.Intn(80), FramePct: rng.Intn(40), BigPct: rng.Intn(10), LoadedPct: rng.Intn(50)}})
	}
	return cs
}

func classifyErr(err error) string {
	if err == nil {
		return "ok"
	}
	if compactindexsized.IsNotFound(err) || strings.Contains(err.Error(), "not found") {
		return "notfound"
	}
	return "err"
}

func TestVerifC01(t *testing.T) {
	s := zz.NewSession()
	defer s.Close()
	dir, err := os.MkdirTemp("", "verif-c01-")
	if err != nil {
		t.Fatal(err)
	}
	defer os.RemoveAll(dir)
	rng := zz.NewRNG(zz.Seed())
	ctx := context.Background()
	srv := httptest.NewServer(http.FileServer(http.Dir(dir)))
	defer srv.Close()

	for ci, c := range c01Cases(rng, zz.Thorough()) {
		cdir := filepath.Join(dir, fmt.Sprintf("c%d", ci))
		os.MkdirAll(cdir, 0o755)
		ge := genEpoch(rng, cdir, c.o)
		var caseOps []string
		op := func(line, out string, nontrivial bool) {
			caseOps = append(caseOps, line)
			s.Op(line, out, nontrivial)
		}
		viol := func(what, key string) {
			s.Violation(what, key, s.Replay(append([]string{fmt.Sprintf("# case %s opts=%+v seed=%d", c.name, c.o, zz.Seed())}, shorten(caseOps)...)))
		}
		op(fmt.Sprintf("case %s epoch=%d blocks=%d objs=%d carbytes=%d", c.name, c.o.Epoch, len(ge.Blocks), len(ge.Objs), len(ge.CarData)), "ok", false)
		le, err := buildIndexes(ge, cdir, false)
		if err != nil {
			viol("index all failed on a well-formed CAR: "+err.Error(), "C01:index-all-failed")
			continue
		}
		// index generation under a context that is cancelled at its k-th poll: it either reports the failure or leaves
		// exactly the files of the uncancelled build (which are checked against the model below)
		if len(ge.Objs) <= 6000 {
			probe := &pollCancelCtx{Context: context.Background(), at: -1, done: make(chan struct{})}
			pdir := filepath.Join(cdir, "cancel-probe")
			os.MkdirAll(filepath.Join(pdir, "tmp"), 0o755)
			os.MkdirAll(filepath.Join(pdir, "idx"), 0o755)
			createAllIndexes(probe, indexes.NetworkMainnet, filepath.Join(pdir, "tmp"), ge.Car, filepath.Join(pdir, "idx"))
			total := probe.polls()
			s.Add("cancel:context-polls-of-an-uncancelled-build", total)
			ats := map[int]bool{0: true, 1: true, 2: true, total / 2: true, total - 1: true, total: true}
			for at := range ats {
				if at < 0 || at > total {
					continue
				}
				xdir := filepath.Join(cdir, fmt.Sprintf("cancel-%d", at))
				os.MkdirAll(filepath.Join(xdir, "tmp"), 0o755)
				os.MkdirAll(filepath.Join(xdir, "idx"), 0o755)
				var xp *IndexPaths
				var xerr error
				r := zz.Guard(func() string {
					xp, _, xerr = createAllIndexes(newPollCancelCtx(at), indexes.NetworkMainnet, filepath.Join(xdir, "tmp"), ge.Car, filepath.Join(xdir, "idx"))
					return ""
				})
				switch {
				case r == "panic":
					viol(fmt.Sprintf("index all panics when its context is cancelled at poll %d of %d: %s", at, total, zz.LastPanic), "C01:cancel-panic")
				case xerr != nil:
					s.Count("cancel:build-reports-failure")
				default:
					s.Count("cancel:build-reports-success")
					for _, pr := range [][2]string{{le.Paths.CidToOffsetAndSize, xp.CidToOffsetAndSize}, {le.Paths.SlotToCid, xp.SlotToCid}, {le.Paths.SignatureToCid, xp.SignatureToCid}, {le.Paths.SignatureExists, xp.SignatureExists}, {le.Paths.SlotToBlocktime, xp.SlotToBlocktime}} {
						a, _ := os.ReadFile(pr[0])
						b, err := os.ReadFile(pr[1])
						if err != nil || !bytes.Equal(a, b) {
							viol(fmt.Sprintf("index all reports success although its context was cancelled at poll %d of %d, and %s is not the index of the uncancelled build (%d vs %d bytes, %v): lookups through it are missing or wrong", at, total, filepath.Base(pr[1]), len(b), len(a), err), "C01:success-after-cancel-differs")
							break
						}
					}
				}
				os.RemoveAll(xdir)
			}
			os.RemoveAll(pdir)
		}
		le.Cache = newVerifCache() // one server = one cache; cases are independent servers
		if err := le.load(cdir); err != nil {
			viol("epoch built by index all does not load: "+err.Error(), "C01:load-failed")
			continue
		}
		// second access path: same indexes, CAR served over HTTP (ReaderAt)
		rel, _ := filepath.Rel(dir, ge.Car)
		remote := *le
		remoteG := *ge
		remoteG.Car = srv.URL + "/" + filepath.ToSlash(rel)
		remote.G = &remoteG
		remote.CfgPath = ""
		remote.Cache = newVerifCache()
		rdir := filepath.Join(cdir, "remote")
		os.MkdirAll(rdir, 0o755)
		remoteOK := true
		if err := remote.load(rdir); err != nil {
			viol("epoch with the CAR behind a ReaderAt (HTTP) does not load: "+err.Error(), "C01:remote-load-failed")
			remoteOK = false
		}
		nBlocks, nTx := 0, 0
		for _, b := range ge.Blocks {
			nBlocks++
			nTx += len(b.Txs)
		}
		op("car "+hex.EncodeToString(ge.CarData), fmt.Sprintf("car hdr=%d objs=%d blocks=%d txs=%d build=ok", ge.HdrLen, len(ge.Objs), nBlocks, nTx), true)
		s.Add("objects", len(ge.Objs))
		// the sealed index files themselves, byte for byte against the model's files
		if len(ge.Objs) <= 6000 {
			for _, f := range []struct{ which, path string }{{"cid", le.Paths.CidToOffsetAndSize}, {"slot", le.Paths.SlotToCid}, {"sig", le.Paths.SignatureToCid}} {
				data, err := os.ReadFile(f.path)
				if err != nil {
					viol("index file missing: "+err.Error(), "C01:index-file-missing")
					continue
				}
				op("idx "+f.which+" "+hex.EncodeToString(data), "identical", true)
				s.Count("index-files-compared")
			}
			if len(ge.Objs) <= 400 {
				if data, err := os.ReadFile(le.Paths.SignatureExists); err == nil {
					op("idx sigexists "+hex.EncodeToString(data), "identical", true)
					s.Count("sigexists-files-compared")
				}
			}
		}
		for _, ob := range ge.Objs {
			w := 1
			if ob.SecLen-uint64(len(ob.Data))-36 == 2 {
				w = 2
			} else if ob.SecLen-uint64(len(ob.Data))-36 == 3 {
				w = 3
			}
			s.Count(fmt.Sprintf("section-varint-width-%d", w))
			line := "obj " + hex.EncodeToString(ob.Cid.Bytes())
			lastErr := ""
			got := func(ep *Epoch) string {
				return zz.Guard(func() string {
					oas, err := ep.FindOffsetAndSizeFromCid(ctx, ob.Cid)
					if err != nil {
						return classifyErr(err)
					}
					data, err := ep.GetNodeByCid(ctx, ob.Cid)
					if err != nil {
						lastErr = fmt.Sprintf("oas=%d+%d: %s", oas.Offset, oas.Size, err.Error())
						return "get-" + classifyErr(err)
					}
					return fmt.Sprintf("%d %d %d %016x", oas.Offset, oas.Size, len(data), xxhash.Sum64(data))
				})
			}
			local := got(le.Ep)
			want := fmt.Sprintf("%d %d %d %016x", ob.Offset, ob.SecLen, len(ob.Data), xxhash.Sum64(ob.Data))
			op(line, local, local == want)
			if local != want {
				viol(fmt.Sprintf("object fetched by CID differs from the archived object: got %q want %q (%s) data=%x", local, want, lastErr, ob.Data), "C01:object-wrong:local")
			}
			if remoteOK {
				if r := got(remote.Ep); r != want {
					viol(fmt.Sprintf("object fetched by CID through the ReaderAt differs: got %q want %q", r, want), "C01:object-wrong:readerat")
				}
			}
		}
		for _, b := range ge.Blocks {
			line := fmt.Sprintf("slot %d", b.Slot)
			got := zz.Guard(func() string {
				c, err := le.Ep.FindCidFromSlot(ctx, b.Slot)
				if err != nil {
					return classifyErr(err)
				}
				bt, err := le.Ep.blocktimeindex.Get(b.Slot)
				if err != nil {
					return hex.EncodeToString(c.Bytes()) + " bt=err"
				}
				return fmt.Sprintf("%s bt=%d", hex.EncodeToString(c.Bytes()), bt)
			})
			want := fmt.Sprintf("%s bt=%d", hex.EncodeToString(b.Cid.Bytes()), b.Time)
			op(line, got, got == want)
			if got != want {
				viol(fmt.Sprintf("slot %d does not resolve to its block and block time: got %q want %q", b.Slot, got, want), "C01:slot-wrong")
			}
			for _, tx := range b.Txs {
				line := "sig " + hex.EncodeToString(tx.Sig[:])
				got := zz.Guard(func() string {
					c, err := le.Ep.FindCidFromSignature(ctx, tx.Sig)
					if err != nil {
						return classifyErr(err)
					}
					has, err := le.Ep.sigExists.Has(tx.Sig)
					if err != nil {
						return hex.EncodeToString(c.Bytes()) + " exists=err"
					}
					return fmt.Sprintf("%s exists=%v", hex.EncodeToString(c.Bytes()), has)
				})
				want := fmt.Sprintf("%s exists=true", hex.EncodeToString(tx.Cid.Bytes()))
				op(line, got, got == want)
				if got != want {
					viol(fmt.Sprintf("first signature does not resolve to its transaction / is not reported existing: got %q want %q", got, want), "C01:sig-wrong")
				}
			}
		}
		// the same object fetches with several requests in flight at once (the server answers requests concurrently):
		// every fetch must still return exactly the archived object
		{
			eps := []*Epoch{le.Ep}
			names := []string{"local"}
			if remoteOK {
				eps = append(eps, remote.Ep)
				names = append(names, "readerat")
			}
			for ei, ep := range eps {
				objs := ge.Objs
				if len(objs) > 1500 {
					objs = objs[:1500]
				}
				var mu sync.Mutex
				firstBad := ""
				var wg sync.WaitGroup
				for g := 0; g < 8; g++ {
					wg.Add(1)
					go func(g int) {
						defer wg.Done()
						for round := 0; round < 2; round++ {
							for i := range objs {
								ob := objs[(i*7+g*131+round)%len(objs)]
								r := zz.Guard(func() string {
									data, err := ep.GetNodeByCid(ctx, ob.Cid)
									if err != nil {
										return "get-" + classifyErr(err) + ": " + err.Error()
									}
									if !bytes.Equal(data, ob.Data) {
										return fmt.Sprintf("other bytes (%d instead of %d)", len(data), len(ob.Data))
									}
									return ""
								})
								if r != "" {
									mu.Lock()
									if firstBad == "" {
										firstBad = fmt.Sprintf("cid %s: %s", ob.Cid, r)
									}
									mu.Unlock()
									return
								}
							}
						}
					}(g)
				}
				wg.Wait()
				s.Count("concurrent-fetch-phases")
				if firstBad != "" {
					viol("with 8 requests in flight an object fetched by CID ("+names[ei]+" access path) is not the archived object: "+firstBad, "C01:object-wrong:concurrent:"+names[ei])
				}
			}
		}
		s.Add("blocks", nBlocks)
		s.Add("transactions", nTx)
		le.Ep.Close()
		if remoteOK {
			remote.Ep.Close()
		}
		os.RemoveAll(cdir)
	}
	_ = cid.Undef
	_ = solana.Signature{}
}

// shorten keeps replay files small: the CAR hex line is replaced by its length and hash
func shorten(ops []string) []string {
	out := make([]string, 0, len(ops))
	for _, o := range ops {
		if len(o) > 400 {
			o = fmt.Sprintf("%s…(%d chars, xxh %016x)", o[:60], len(o), xxhash.Sum64String(o))
		}
		out = append(out, o)
	}
	if len(out) > 60 {
		out = append(out[:30], out[len(out)-30:]...)
	}
	return out
}

package main

// C09 harness (injected by /verif/check with `go test -overlay`; nothing is written to /repo).
//
// Part 1 — epoch-set correspondence: a deterministic op stream (add / replace / replaceoradd / remove /
// removebyconfig / numbers / mostrecent / oldest / get / has / count / gsfa / bucketteers / version / closed) is
// executed on a real MultiEpoch; the answers are compared line by line with the Lean model EpochSet (fdrv-C09).
//
// Part 2 — concurrency oracle (results only, never timings): reader goroutines over every accessor of the epoch
// set and over the JSON-RPC handlers, against writer goroutines over AddEpoch / ReplaceOrAddEpoch / ReplaceEpoch /
// RemoveEpoch / RemoveEpochByConfigFilepath.  Two real epochs (generated CAR + real indexes) stay loaded; the
// writers only address the epochs in between.  Every observation is checked: listings strictly descending, the
// stable epochs always present, queries addressed to them answered exactly as on the idle server, stable epochs
// never closed.  A deadlock is established structurally (every unfinished worker of the phase is parked inside
// sync.RWMutex on the goroutine dump, repeatedly, with no progress) or — fallback — by a 30 s no-progress window
// that reproduces in three re-runs.

import (
	"context"
	"flag"
	"fmt"
	"io"
	"os"
	"runtime"
	"sort"
	"strconv"
	"strings"
	"sync"
	"sync/atomic"
	"testing"
	"time"

	"github.com/gagliardetto/solana-go"
	"github.com/rpcpool/yellowstone-faithful/gsfa"
	zz "github.com/rpcpool/yellowstone-faithful/zzverif"
	"github.com/valyala/fasthttp"
	"k8s.io/klog/v2"
)

// ---------------------------------------------------------------------------------------------------------------
// part 1: op stream on a real MultiEpoch

type c09Has struct{}

func (c09Has) Has(sig [64]byte) (bool, error) { return false, nil }

type c09Interp struct {
	s      *zz.Session
	multi  *MultiEpoch
	ids    map[*Epoch]int
	closed []int
	h      *c09Harness
}

func (in *c09Interp) reset() {
	in.multi = NewMultiEpoch(&Options{EpochSearchConcurrency: 2})
	in.ids = map[*Epoch]int{}
	in.closed = nil
}

func (in *c09Interp) mk(e uint64, id int, path string, g, sg bool) *Epoch {
	ep := &Epoch{epoch: e, config: &Config{originalFilepath: path}}
	if g {
		ep.gsfaReader = &gsfa.GsfaReader{}
	}
	if sg {
		ep.sigExists = c09Has{}
	}
	ep.onClose = append(ep.onClose, func() error { in.closed = append(in.closed, id); return nil })
	in.ids[ep] = id
	return ep
}

func c09List(l []uint64) string {
	if len(l) == 0 {
		return "-"
	}
	p := make([]string, len(l))
	for i, v := range l {
		p[i] = strconv.FormatUint(v, 10)
	}
	return strings.Join(p, " ")
}

func c09StrictDesc(l []uint64) bool {
	for i := 1; i < len(l); i++ {
		if !(l[i-1] > l[i]) {
			return false
		}
	}
	return true
}

func (in *c09Interp) showEp(ep *Epoch, err error) string {
	if err != nil || ep == nil {
		return "none"
	}
	id, ok := in.ids[ep]
	if !ok {
		return "id ?"
	}
	return "id " + strconv.Itoa(id)
}

// exec runs one op line on the real code; returns the op line to record (removebyconfig gets the observed pick)
func (in *c09Interp) exec(line string) (op string, out string, nontrivial bool) {
	w := strings.Fields(line)
	op = line
	if len(w) == 0 {
		return line, "bad-op", false
	}
	if in.multi == nil {
		in.reset()
	}
	m := in.multi
	out = zz.Guard(func() string {
		switch {
		case w[0] == "case":
			in.reset()
			return "ok"
		case (w[0] == "add" || w[0] == "replace" || w[0] == "replaceoradd") && len(w) == 6:
			e, err1 := strconv.ParseUint(w[1], 10, 64)
			id, err2 := strconv.Atoi(w[2])
			if err1 != nil || err2 != nil {
				return "bad-op"
			}
			ep := in.mk(e, id, w[3], w[4] == "1", w[5] == "1")
			switch w[0] {
			case "add":
				if err := m.AddEpoch(e, ep); err != nil {
					return "exists"
				}
			case "replace":
				if err := m.ReplaceEpoch(e, ep); err != nil {
					return "notfound"
				}
			default:
				if err := m.ReplaceOrAddEpoch(e, ep); err != nil {
					return "err"
				}
			}
			nontrivial = true
			return "ok"
		case w[0] == "remove" && len(w) == 2:
			e, err := strconv.ParseUint(w[1], 10, 64)
			if err != nil {
				return "bad-op"
			}
			if err := m.RemoveEpoch(e); err != nil {
				return "notfound"
			}
			nontrivial = true
			return "ok"
		case w[0] == "removebyconfig" && len(w) == 3:
			matches := 0
			for _, ep := range m.epochs { // single-threaded here
				if ep.config.ConfigFilepath() == w[1] {
					matches++
				}
			}
			if matches > 1 {
				in.s.Count("removebyconfig-several-epochs-share-the-path")
			}
			n, err := m.RemoveEpochByConfigFilepath(w[1])
			if err != nil {
				op = "removebyconfig " + w[1] + " -"
				return "notfound"
			}
			op = "removebyconfig " + w[1] + " " + strconv.FormatUint(n, 10)
			nontrivial = true
			return "removed " + strconv.FormatUint(n, 10)
		case w[0] == "numbers" && len(w) == 1:
			l := m.GetEpochNumbers()
			if !c09StrictDesc(l) {
				in.s.Violation("GetEpochNumbers returned a list that is not strictly descending: "+c09List(l), "C09:listing-order:GetEpochNumbers", in.s.Replay(in.h.caseOps))
			}
			nontrivial = len(l) > 0
			return c09List(l)
		case w[0] == "version" && len(w) == 1:
			l, _ := m.GetFaithfulVersionInfo()["epochs"].([]uint64)
			nontrivial = len(l) > 0
			return c09List(l)
		case w[0] == "gsfa" && len(w) == 1:
			rd, l := m.getGsfaReadersInEpochDescendingOrder()
			if len(rd) != len(l) {
				return "length-mismatch"
			}
			if !c09StrictDesc(l) {
				in.s.Violation("getGsfaReadersInEpochDescendingOrder not strictly descending: "+c09List(l), "C09:listing-order:getGsfaReadersInEpochDescendingOrder", in.s.Replay(in.h.caseOps))
			}
			nontrivial = len(l) > 0
			return c09List(l)
		case w[0] == "bucketteers" && len(w) == 1:
			var l []uint64
			for k := range m.getAllBucketteers() {
				l = append(l, k)
			}
			sort.Slice(l, func(i, j int) bool { return l[i] < l[j] })
			nontrivial = len(l) > 0
			return c09List(l)
		case w[0] == "closed" && len(w) == 1:
			l := make([]uint64, len(in.closed))
			for i, v := range in.closed {
				l[i] = uint64(v)
			}
			nontrivial = len(l) > 0
			return c09List(l)
		case w[0] == "mostrecent" && len(w) == 1:
			ep, err := m.GetMostRecentAvailableEpoch()
			nontrivial = err == nil
			return in.showEp(ep, err)
		case w[0] == "oldest" && len(w) == 1:
			ep, err := m.GetOldestAvailableEpoch()
			nontrivial = err == nil
			return in.showEp(ep, err)
		case w[0] == "mostrecentnumber" && len(w) == 1:
			n, err := m.GetMostRecentAvailableEpochNumber()
			if err != nil {
				return "none"
			}
			nontrivial = true
			return strconv.FormatUint(n, 10)
		case w[0] == "get" && len(w) == 2:
			e, err := strconv.ParseUint(w[1], 10, 64)
			if err != nil {
				return "bad-op"
			}
			ep, err := m.GetEpoch(e)
			nontrivial = err == nil
			return in.showEp(ep, err)
		case w[0] == "has" && len(w) == 2:
			e, err := strconv.ParseUint(w[1], 10, 64)
			if err != nil {
				return "bad-op"
			}
			nontrivial = true
			return strconv.FormatBool(m.HasEpoch(e))
		case w[0] == "count" && len(w) == 1:
			nontrivial = true
			return strconv.Itoa(m.CountEpochs())
		}
		return "bad-op"
	})
	cls := out
	if i := strings.IndexByte(cls, ' '); i >= 0 {
		cls = cls[:i]
	}
	if _, err := strconv.ParseUint(cls, 10, 64); err == nil {
		cls = "list"
	}
	in.s.Count("out:" + w[0] + ":" + cls)
	if out == "panic" {
		in.s.Violation("panic in "+line+": "+zz.LastPanic, "C09:panic:"+w[0], in.s.Replay(append(append([]string{}, in.h.caseOps...), line)))
	}
	return op, out, nontrivial
}

// ---------------------------------------------------------------------------------------------------------------
// part 2: concurrency

type c09Cfg struct {
	kind    string // targeted | mixed
	readers []string
	writers []string
	nr, nw  int // goroutines per listed reader / writer
	procs   int
	iters   int // iterations of a cheap reader (expensive ones do iters/10)
	gsfa    bool
	rseed   uint64
}

func (c c09Cfg) line() string {
	g := 0
	if c.gsfa {
		g = 1
	}
	return fmt.Sprintf("concurrent kind=%s readers=%s writers=%s nr=%d nw=%d procs=%d iters=%d gsfa=%d rseed=%d",
		c.kind, strings.Join(c.readers, ","), strings.Join(c.writers, ","), c.nr, c.nw, c.procs, c.iters, g, c.rseed)
}

func c09ParseCfg(w []string) (c c09Cfg, ok bool) {
	for _, f := range w[1:] {
		kv := strings.SplitN(f, "=", 2)
		if len(kv) != 2 {
			return c, false
		}
		n, _ := strconv.Atoi(kv[1])
		switch kv[0] {
		case "kind":
			c.kind = kv[1]
		case "readers":
			c.readers = strings.Split(kv[1], ",")
		case "writers":
			c.writers = strings.Split(kv[1], ",")
		case "nr":
			c.nr = n
		case "nw":
			c.nw = n
		case "procs":
			c.procs = n
		case "iters":
			c.iters = n
		case "gsfa":
			c.gsfa = n == 1
		case "rseed":
			c.rseed, _ = strconv.ParseUint(kv[1], 10, 64)
		default:
			return c, false
		}
	}
	return c, c.nr > 0 && c.nw >= 0 && c.procs > 0 && c.iters > 0 && len(c.readers) > 0
}

const (
	c09Lo        = 1   // stable real epoch (oldest)
	c09Hi        = 600 // stable real epoch (most recent)
	c09TransBase = 100 // the writers address epochs c09TransBase .. c09TransBase+c09TransK-1
	c09TransK    = 6
)

type c09Harness struct {
	s            *zz.Session
	t            *testing.T
	dir          string
	lo, hi       *loadedEpoch
	caseOps      []string
	seqDeadlocks int
	leaked       map[int]bool // goroutine ids parked for ever by an earlier deadlocked phase
	bad          map[string]bool
	stableClosed atomic.Int64
	idle         map[string]string // request body -> answer of the idle server
	reqs         map[string]string // reader name -> request body
	skipped      map[string]bool
}

func c09TransPath(e uint64) string { return fmt.Sprintf("/verif/c09/epoch-%d.yml", e) }

func (h *c09Harness) transient(e uint64, gsfaFake bool) *Epoch {
	ep := &Epoch{epoch: e, config: &Config{originalFilepath: c09TransPath(e)}, sigExists: c09Has{}}
	if gsfaFake {
		ep.gsfaReader = &gsfa.GsfaReader{}
	}
	ep.onClose = append(ep.onClose, func() error { return nil })
	return ep
}

func (h *c09Harness) fixtures() error {
	if h.lo != nil {
		return nil
	}
	rng := zz.NewRNG(4242) // the fixture does not depend on VERIF_SEED: the idle answers are part of no op line
	mk := func(epoch uint64) (*loadedEpoch, error) {
		ge := genEpoch(rng, h.dir, genOpts{Epoch: epoch, NBlocks: 10, MaxTx: 3, SkipPct: 20, NKeys: 4, KeySeedBase: byte(epoch)})
		le, err := buildIndexes(ge, h.dir, false)
		if err != nil {
			return nil, err
		}
		if err := le.load(h.dir); err != nil {
			return nil, err
		}
		le.Ep.onClose = append(le.Ep.onClose, func() error { h.stableClosed.Add(1); return nil })
		return le, nil
	}
	var err error
	if h.lo, err = mk(c09Lo); err != nil {
		return err
	}
	if h.hi, err = mk(c09Hi); err != nil {
		return err
	}
	// the idle server: only the two stable epochs
	m := NewMultiEpoch(&Options{EpochSearchConcurrency: 4})
	m.AddEpoch(c09Lo, h.lo.Ep)
	m.AddEpoch(c09Hi, h.hi.Ep)
	handler := newMultiEpochHandler(m, nil)
	blk := h.lo.G.Blocks[3]
	var sig solana.Signature
	for _, b := range h.lo.G.Blocks {
		if len(b.Txs) > 0 {
			sig = b.Txs[0].Sig
			break
		}
	}
	rq := func(method, params string) string {
		return fmt.Sprintf(`{"jsonrpc":"2.0","id":1,"method":"%s","params":%s}`, method, params)
	}
	h.reqs = map[string]string{
		"rpc:getSlot":                 rq("getSlot", "[]"),
		"rpc:getFirstAvailableBlock":  rq("getFirstAvailableBlock", "[]"),
		"rpc:getBlock":                rq("getBlock", fmt.Sprintf(`[%d,{"encoding":"base64","transactionDetails":"full","rewards":false,"maxSupportedTransactionVersion":0}]`, blk.Slot)),
		"rpc:getBlock-first":          rq("getBlock", fmt.Sprintf(`[%d,{"encoding":"base64","transactionDetails":"signatures","rewards":false}]`, h.hi.G.Blocks[0].Slot)),
		"rpc:getBlockTime":            rq("getBlockTime", fmt.Sprintf(`[%d]`, blk.Slot)),
		"rpc:getTransaction":          rq("getTransaction", fmt.Sprintf(`["%s",{"encoding":"base64","maxSupportedTransactionVersion":0}]`, sig.String())),
		"rpc:getSignaturesForAddress": rq("getSignaturesForAddress", fmt.Sprintf(`["%s",{"limit":5}]`, h.lo.G.Keys[0].PublicKey().String())),
	}
	h.idle = map[string]string{}
	h.skipped = map[string]bool{}
	for name, body := range h.reqs {
		_, a := doRPC(handler, body)
		_, b := doRPC(handler, body)
		_, c := doRPC(handler, body)
		if a != b || b != c {
			h.skipped[name] = true // the idle server itself does not answer this request deterministically
			h.s.Count("idle-answer-not-deterministic:" + name)
			continue
		}
		h.idle[name] = a
		if os.Getenv("VERIF_C09_DEBUG") != "" {
			fmt.Fprintf(os.Stderr, "idle %s => %s\n", name, c09Trunc(a))
		}
	}
	return nil
}

type c09Reader struct {
	name           string
	expensive      bool
	needNoGsfaFake bool
	f              func(w *c09World, it int) string // "" or the description of a violated observation
}

type c09World struct {
	h       *c09Harness
	multi   *MultiEpoch
	handler func(*fasthttp.RequestCtx)
	gsfa    bool
}

func (w *c09World) listing(l []uint64, complete bool) string {
	if !c09StrictDesc(l) {
		return "listing-order|not strictly descending: " + c09List(l)
	}
	if complete {
		if len(l) < 2 || l[0] != c09Hi || l[len(l)-1] != c09Lo {
			return "stable-epoch|listing does not start with the stable most recent epoch and end with the stable oldest one: " + c09List(l)
		}
		if len(l) > 2+c09TransK {
			return "listing-order|more epochs than can be loaded: " + c09List(l)
		}
		for _, e := range l[1 : len(l)-1] {
			if e < c09TransBase || e >= c09TransBase+c09TransK {
				return "listing-order|unknown epoch listed: " + c09List(l)
			}
		}
	}
	return ""
}

func (w *c09World) rpc(name string) string {
	want, ok := w.h.idle[name]
	if !ok {
		return ""
	}
	_, got := doRPC(w.handler, w.h.reqs[name])
	if got != want {
		return "stable-epoch|answer differs from the idle server: got " + c09Trunc(got) + " want " + c09Trunc(want)
	}
	return ""
}

func c09Trunc(s string) string {
	if len(s) > 160 {
		return s[:160] + "…"
	}
	return s
}

func c09Readers() []c09Reader {
	ctx := context.Background()
	return []c09Reader{
		{name: "GetEpochNumbers", f: func(w *c09World, it int) string { return w.listing(w.multi.GetEpochNumbers(), true) }},
		{name: "GetMostRecentAvailableEpoch", f: func(w *c09World, it int) string {
			ep, err := w.multi.GetMostRecentAvailableEpoch()
			if err != nil || ep != w.h.hi.Ep {
				return fmt.Sprintf("stable-epoch|most recent epoch is not the stable epoch %d (err=%v)", c09Hi, err)
			}
			return ""
		}},
		{name: "GetOldestAvailableEpoch", f: func(w *c09World, it int) string {
			ep, err := w.multi.GetOldestAvailableEpoch()
			if err != nil || ep != w.h.lo.Ep {
				return fmt.Sprintf("stable-epoch|oldest epoch is not the stable epoch %d (err=%v)", c09Lo, err)
			}
			return ""
		}},
		{name: "GetMostRecentAvailableEpochNumber", f: func(w *c09World, it int) string {
			n, err := w.multi.GetMostRecentAvailableEpochNumber()
			if err != nil || n != c09Hi {
				return fmt.Sprintf("stable-epoch|most recent epoch number %d err=%v", n, err)
			}
			return ""
		}},
		{name: "GetEpoch", f: func(w *c09World, it int) string {
			want, e := w.h.lo.Ep, uint64(c09Lo)
			if it%3 == 1 {
				want, e = w.h.hi.Ep, c09Hi
			}
			if it%3 == 2 {
				w.multi.GetEpoch(c09TransBase + uint64(it/3)%c09TransK) // either answer is fine
				return ""
			}
			ep, err := w.multi.GetEpoch(e)
			if err != nil || ep != want {
				return fmt.Sprintf("stable-epoch|GetEpoch(%d) err=%v", e, err)
			}
			return ""
		}},
		{name: "HasEpoch", f: func(w *c09World, it int) string {
			if !w.multi.HasEpoch(c09Lo) || !w.multi.HasEpoch(c09Hi) || w.multi.HasEpoch(c09Hi+1) {
				return "stable-epoch|HasEpoch"
			}
			return ""
		}},
		{name: "CountEpochs", f: func(w *c09World, it int) string {
			if n := w.multi.CountEpochs(); n < 2 || n > 2+c09TransK {
				return fmt.Sprintf("stable-epoch|CountEpochs=%d", n)
			}
			return ""
		}},
		{name: "getGsfaReadersInEpochDescendingOrder", f: func(w *c09World, it int) string {
			rd, l := w.multi.getGsfaReadersInEpochDescendingOrder()
			if len(rd) != len(l) {
				return "listing-order|readers and epoch numbers differ in length"
			}
			return w.listing(l, false)
		}},
		{name: "getGsfaReadersInEpochDescendingOrderForSlotRange", f: func(w *c09World, it int) string {
			_, l := w.multi.getGsfaReadersInEpochDescendingOrderForSlotRange(ctx, 0, (c09Hi+1)*432000-1)
			return w.listing(l, false)
		}},
		{name: "getAllBucketteers", f: func(w *c09World, it int) string {
			b := w.multi.getAllBucketteers()
			if b[c09Lo] == nil || b[c09Hi] == nil {
				return "stable-epoch|bucketteer of a stable epoch missing"
			}
			for k := range b {
				if k != c09Lo && k != c09Hi && (k < c09TransBase || k >= c09TransBase+c09TransK) {
					return fmt.Sprintf("listing-order|bucketteer of unknown epoch %d", k)
				}
			}
			return ""
		}},
		{name: "HasEpochWithSameHashAsFile", expensive: true, f: func(w *c09World, it int) string {
			if w.multi.HasEpochWithSameHashAsFile("/verif/c09/no-such-file.yml") {
				return "stable-epoch|HasEpochWithSameHashAsFile(no such file) = true"
			}
			return ""
		}},
		{name: "GetFaithfulVersionInfo", f: func(w *c09World, it int) string {
			l, _ := w.multi.GetFaithfulVersionInfo()["epochs"].([]uint64)
			return w.listing(l, true)
		}},
		{name: "GetFirstAvailableBlock", expensive: true, f: func(w *c09World, it int) string {
			b, err := w.multi.GetFirstAvailableBlock(ctx)
			if err != nil || uint64(b.Slot) != w.h.lo.G.Blocks[0].Slot {
				return fmt.Sprintf("stable-epoch|GetFirstAvailableBlock err=%v", err)
			}
			return ""
		}},
		{name: "GetMostRecentAvailableBlock", expensive: true, f: func(w *c09World, it int) string {
			b, err := w.multi.GetMostRecentAvailableBlock(ctx)
			if err != nil || uint64(b.Slot) != w.h.hi.G.Blocks[len(w.h.hi.G.Blocks)-1].Slot {
				return fmt.Sprintf("stable-epoch|GetMostRecentAvailableBlock err=%v", err)
			}
			return ""
		}},
		{name: "rpc:getSlot", expensive: true, f: func(w *c09World, it int) string { return w.rpc("rpc:getSlot") }},
		{name: "rpc:getFirstAvailableBlock", expensive: true, f: func(w *c09World, it int) string { return w.rpc("rpc:getFirstAvailableBlock") }},
		{name: "rpc:getBlock", expensive: true, f: func(w *c09World, it int) string { return w.rpc("rpc:getBlock") }},
		{name: "rpc:getBlock-first", expensive: true, f: func(w *c09World, it int) string { return w.rpc("rpc:getBlock-first") }},
		{name: "rpc:getBlockTime", expensive: true, f: func(w *c09World, it int) string { return w.rpc("rpc:getBlockTime") }},
		{name: "rpc:getTransaction", expensive: true, f: func(w *c09World, it int) string { return w.rpc("rpc:getTransaction") }},
		{name: "rpc:getSignaturesForAddress", expensive: true, needNoGsfaFake: true, f: func(w *c09World, it int) string { return w.rpc("rpc:getSignaturesForAddress") }},
		{name: "rpc:getVersion", expensive: true, f: func(w *c09World, it int) string {
			_, body := doRPC(w.handler, `{"jsonrpc":"2.0","id":1,"method":"getVersion","params":[]}`)
			i := strings.Index(body, `"epochs":[`)
			if i < 0 {
				return "stable-epoch|getVersion answer has no epochs list: " + c09Trunc(body)
			}
			rest := body[i+len(`"epochs":[`):]
			j := strings.IndexByte(rest, ']')
			if j < 0 {
				return "stable-epoch|getVersion answer malformed: " + c09Trunc(body)
			}
			var l []uint64
			for _, f := range strings.Split(rest[:j], ",") {
				v, err := strconv.ParseUint(strings.TrimSpace(f), 10, 64)
				if err != nil {
					return "stable-epoch|getVersion epochs not numbers: " + c09Trunc(body)
				}
				l = append(l, v)
			}
			return w.listing(l, true)
		}},
	}
}

var c09WriterKinds = []string{"add-remove", "replaceoradd", "removebyconfig-add", "replace", "mixed"}

func (w *c09World) write(kind string, rng *zz.RNG) string {
	e := uint64(c09TransBase + rng.Intn(c09TransK))
	m := w.multi
	if kind == "mixed" {
		kind = c09WriterKinds[rng.Intn(4)]
	}
	switch kind {
	case "add-remove":
		m.AddEpoch(e, w.h.transient(e, w.gsfa))
		m.RemoveEpoch(uint64(c09TransBase + rng.Intn(c09TransK)))
	case "replaceoradd":
		if err := m.ReplaceOrAddEpoch(e, w.h.transient(e, w.gsfa)); err != nil {
			return "writer|ReplaceOrAddEpoch failed: " + err.Error()
		}
	case "removebyconfig-add":
		n, err := m.RemoveEpochByConfigFilepath(c09TransPath(e))
		if err == nil && n != e {
			return fmt.Sprintf("writer|RemoveEpochByConfigFilepath(%s) removed epoch %d", c09TransPath(e), n)
		}
		e2 := uint64(c09TransBase + rng.Intn(c09TransK))
		m.AddEpoch(e2, w.h.transient(e2, w.gsfa))
	case "replace":
		m.ReplaceEpoch(e, w.h.transient(e, w.gsfa))
		m.AddEpoch(e, w.h.transient(e, w.gsfa))
	}
	return ""
}

type c09Run struct {
	w        *c09World
	counters []atomic.Int64
	done     []atomic.Bool
	names    []string
	stop     atomic.Bool
	mu       sync.Mutex
	fails    map[string]string // key -> first description
}

func (r *c09Run) fail(who, msg string) {
	parts := strings.SplitN(msg, "|", 2)
	key := "C09:" + parts[0] + ":" + who
	r.mu.Lock()
	if _, ok := r.fails[key]; !ok {
		r.fails[key] = who + ": " + parts[len(parts)-1]
	}
	r.mu.Unlock()
}

// every worker of every phase runs in this function: the watchdog finds the workers on the goroutine dump by its name
//
//go:noinline
func c09Worker(r *c09Run, idx int, n int, untilStop bool, f func(it int) string) {
	for it := 0; ; it++ {
		if it >= n && (!untilStop || r.stop.Load()) {
			break
		}
		if msg := zz.Guard(func() string { return f(it) }); msg != "" {
			if msg == "panic" {
				msg = "panic|" + zz.LastPanic
			}
			r.fail(r.names[idx], msg)
		}
		r.counters[idx].Add(1)
	}
	r.done[idx].Store(true)
}

type c09G struct {
	id    int
	state string
	stack string
}

func c09Goroutines() []c09G {
	buf := make([]byte, 1<<20)
	for {
		n := runtime.Stack(buf, true)
		if n < len(buf) {
			buf = buf[:n]
			break
		}
		buf = make([]byte, 2*len(buf))
	}
	var out []c09G
	for _, blk := range strings.Split(string(buf), "\n\n") {
		if !strings.HasPrefix(blk, "goroutine ") {
			continue
		}
		hdr := blk
		if i := strings.IndexByte(blk, '\n'); i >= 0 {
			hdr = blk[:i]
		}
		f := strings.Fields(hdr)
		if len(f) < 3 {
			continue
		}
		id, _ := strconv.Atoi(f[1])
		st := hdr[strings.IndexByte(hdr, '[')+1:]
		if i := strings.IndexAny(st, ",]"); i >= 0 {
			st = st[:i]
		}
		out = append(out, c09G{id, st, blk})
	}
	return out
}

// c09Watchdog: 20 s for the first stuck sequential operation; once one was reported (the run is already a violation and
// its abandoned goroutines stay parked) later ones are given 3 s, then 1 s, so that a change that makes a whole class
// of operations hang is reported with its inputs instead of running into the harness timeout
func c09Watchdog(n int) time.Duration {
	switch {
	case n == 0:
		return 20 * time.Second
	case n < 5:
		return 3 * time.Second
	}
	return time.Second
}

func c09ParkedInRWMutex(g c09G) bool {
	switch g.state {
	case "sync.RWMutex.RLock", "sync.RWMutex.Lock", "sync.Mutex.Lock", "semacquire":
		return strings.Contains(g.stack, "sync.(*RWMutex).")
	}
	return false
}

// methods of MultiEpoch on a stack, outermost first
func c09Methods(stack string) string {
	var ms []string
	for _, l := range strings.Split(stack, "\n") {
		if i := strings.Index(l, "(*MultiEpoch)."); i >= 0 && !strings.HasPrefix(l, "\t") {
			m := l[i+len("(*MultiEpoch)."):]
			if j := strings.IndexAny(m, "(."); j >= 0 {
				m = m[:j]
			}
			ms = append([]string{m}, ms...)
		}
	}
	return strings.Join(ms, ">")
}

// runPhase returns "ok", "deadlock …", "no-progress" or "violation …" and the violations to report
func (h *c09Harness) runPhase(c c09Cfg, window time.Duration) (string, map[string]string) {
	if err := h.fixtures(); err != nil {
		return "fixture-error " + strings.ReplaceAll(err.Error(), "\n", " "), nil
	}
	all := c09Readers()
	byName := map[string]c09Reader{}
	for _, r := range all {
		byName[r.name] = r
	}
	multi := NewMultiEpoch(&Options{EpochSearchConcurrency: 4})
	multi.AddEpoch(c09Lo, h.lo.Ep)
	multi.AddEpoch(c09Hi, h.hi.Ep)
	w := &c09World{h: h, multi: multi, handler: newMultiEpochHandler(multi, nil), gsfa: c.gsfa}
	old := runtime.GOMAXPROCS(c.procs)
	defer runtime.GOMAXPROCS(old)

	type job struct {
		name      string
		n         int
		untilStop bool
		f         func(it int) string
	}
	var jobs []job
	for _, name := range c.readers {
		r, ok := byName[name]
		if !ok {
			return "bad-op", nil
		}
		if h.skipped[name] || (r.needNoGsfaFake && c.gsfa) {
			continue
		}
		n := c.iters
		if r.expensive {
			n = c.iters/10 + 1
		}
		for k := 0; k < c.nr; k++ {
			r := r
			jobs = append(jobs, job{name, n, false, func(it int) string { return r.f(w, it) }})
		}
	}
	nReaders := len(jobs)
	wi := 0
	for _, kind := range c.writers {
		for k := 0; k < c.nw; k++ {
			kind := kind
			rng := zz.NewRNG(c.rseed*1000 + uint64(wi))
			wi++
			jobs = append(jobs, job{"writer:" + kind, c.iters / 10, true, func(it int) string { return w.write(kind, rng) }})
		}
	}
	run := &c09Run{w: w, counters: make([]atomic.Int64, len(jobs)), done: make([]atomic.Bool, len(jobs)), fails: map[string]string{}}
	for _, j := range jobs {
		run.names = append(run.names, j.name)
	}
	for i, j := range jobs {
		go c09Worker(run, i, j.n, j.untilStop, j.f)
	}
	result := "ok"
	var last int64 = -1
	lastChange := time.Now()
	streak := 0
	var prevIDs string
	for {
		time.Sleep(15 * time.Millisecond)
		readersDone, allDone := true, true
		var sum int64
		for i := range jobs {
			sum += run.counters[i].Load()
			if !run.done[i].Load() {
				allDone = false
				if i < nReaders {
					readersDone = false
				}
			}
		}
		if readersDone {
			run.stop.Store(true)
		}
		if allDone {
			break
		}
		if sum != last {
			last, lastChange, streak, prevIDs = sum, time.Now(), 0, ""
			continue
		}
		// no worker advanced since the last poll: look at the goroutines
		unfinished := 0
		for i := range jobs {
			if !run.done[i].Load() {
				unfinished++
			}
		}
		// the goroutines that can hold or release this MultiEpoch's lock: the workers of the phase and whatever
		// goroutine is inside a MultiEpoch method on their behalf (jobs of the parallel signature search)
		var cur []c09G
		nWorkers := 0
		for _, g := range c09Goroutines() {
			if h.leaked[g.id] {
				continue
			}
			isWorker := strings.Contains(g.stack, "c09Worker")
			if isWorker || strings.Contains(g.stack, "(*MultiEpoch).") {
				cur = append(cur, g)
				if isWorker {
					nWorkers++
				}
			}
		}
		parked := nWorkers > 0 && nWorkers == unfinished
		var ids []string
		for _, g := range cur {
			if !c09ParkedInRWMutex(g) {
				parked = false
			}
			ids = append(ids, strconv.Itoa(g.id))
		}
		idStr := strings.Join(ids, ",")
		if parked && (prevIDs == "" || prevIDs == idStr) {
			streak++
			prevIDs = idStr
		} else {
			streak, prevIDs = 0, ""
		}
		if streak >= 3 {
			// every unfinished worker is parked inside MultiEpoch.mu and nobody else touches this MultiEpoch:
			// nothing can ever wake them
			seen := map[string]bool{}
			var chains []string
			for _, g := range cur {
				h.leaked[g.id] = true
				if ch := c09Methods(g.stack); ch != "" && !seen[ch] {
					seen[ch] = true
					chains = append(chains, ch)
				}
			}
			sort.Strings(chains)
			result = "deadlock " + strings.Join(chains, " ")
			break
		}
		if time.Since(lastChange) > window {
			for _, g := range cur {
				h.leaked[g.id] = true
			}
			result = "no-progress"
			break
		}
	}
	run.stop.Store(true)
	if h.stableClosed.Load() != 0 {
		run.fail("writers", "stable-closed|Close() ran on an epoch that no writer addressed")
		h.stableClosed.Store(0)
	}
	run.mu.Lock()
	defer run.mu.Unlock()
	if result == "ok" && len(run.fails) > 0 {
		var keys []string
		for k := range run.fails {
			keys = append(keys, k)
		}
		sort.Strings(keys)
		result = "violation " + strings.Join(keys, " ")
	}
	return result, run.fails
}

// execConcurrent runs one `concurrent …` op line, reports violations and records the op
func (h *c09Harness) execConcurrent(line string) {
	c, ok := c09ParseCfg(strings.Fields(line))
	if !ok {
		h.s.Op(line, "bad-op", false)
		return
	}
	res, fails := h.runPhase(c, 30*time.Second)
	if res == "no-progress" {
		// never a verdict by itself: re-run alone, three times
		again := 0
		for k := 0; k < 3; k++ {
			r2, _ := h.runPhase(c, 30*time.Second)
			if r2 == "no-progress" || strings.HasPrefix(r2, "deadlock") {
				again++
				res = r2
			}
		}
		if again < 3 {
			h.s.Count("no-progress-not-reproduced")
			res = "ok"
		}
	}
	replay := []string{line}
	switch {
	case strings.HasPrefix(res, "deadlock") || res == "no-progress":
		who := "mixed"
		if c.kind == "targeted" {
			who = c.readers[0] + "/" + strings.Join(c.writers, "+")
			h.bad[c.readers[0]] = true
		}
		h.s.Violation(fmt.Sprintf("deadlock on MultiEpoch.mu: every worker of the phase is parked inside sync.RWMutex and no operation completes any more (%s; call chains of the parked goroutines: %s)", c.line(), strings.TrimPrefix(res, "deadlock ")),
			"C09:deadlock:"+who, h.s.Replay(replay))
		h.s.Count("deadlocks")
	case strings.HasPrefix(res, "violation"):
		keys := make([]string, 0, len(fails))
		for k := range fails {
			keys = append(keys, k)
		}
		sort.Strings(keys)
		for _, k := range keys {
			h.s.Violation(fails[k]+" ("+c.line()+")", k, h.s.Replay(replay))
		}
	}
	out := res
	if strings.HasPrefix(res, "deadlock") {
		out = "deadlock" // the call chains are in the violation text; the answer line stays short and stable
	}
	h.s.Op(line, out, res == "ok")
	h.s.Count("phase-" + c.kind)
	h.s.Add("reader-goroutines", len(c.readers)*c.nr)
}

// singleStablePhase: ONE stable epoch (the oldest) stays loaded while a writer keeps adding and removing a transient
// epoch with a HIGHER number; readers ask for a transaction, a block and a block time of the stable epoch and every
// answer must be the idle server's.  (With exactly one epoch loaded the signature search takes its single-epoch
// path; a query addressed to the epoch that stays loaded must not notice the other one coming and going.)
func (h *c09Harness) singleStablePhase(rng *zz.RNG) {
	if err := h.fixtures(); err != nil {
		return
	}
	line := fmt.Sprintf("concurrent-single stable=%d transient=%d", c09Lo, c09TransBase)
	m := NewMultiEpoch(&Options{EpochSearchConcurrency: 4})
	m.AddEpoch(c09Lo, h.lo.Ep)
	handler := newMultiEpochHandler(m, nil)
	names := []string{"rpc:getTransaction", "rpc:getBlock", "rpc:getBlockTime"}
	idle := map[string]string{}
	for _, n := range names {
		_, a := doRPC(handler, h.reqs[n])
		_, b := doRPC(handler, h.reqs[n])
		if a == b {
			idle[n] = a
		}
	}
	var stop atomic.Bool
	var wg, wgW sync.WaitGroup
	var mu sync.Mutex
	bad := ""
	var nq atomic.Int64
	wgW.Add(1)
	go func() { // the writer
		defer wgW.Done()
		for i := 0; !stop.Load(); i++ {
			e := uint64(c09TransBase + i%2)
			m.AddEpoch(e, h.transient(e, false))
			runtime.Gosched()
			m.RemoveEpoch(e)
		}
	}()
	deadline := time.Now().Add(4 * time.Second)
	for g := 0; g < 6; g++ {
		wg.Add(1)
		go func(g int) {
			defer wg.Done()
			for it := 0; time.Now().Before(deadline) && !stop.Load(); it++ {
				n := names[(it+g)%len(names)]
				want, ok := idle[n]
				if !ok {
					continue
				}
				got := zz.Guard(func() string { _, g := doRPC(handler, h.reqs[n]); return g }) // "panic" when the handler panics
				nq.Add(1)
				if got != want {
					mu.Lock()
					if bad == "" {
						bad = n + ": got " + c09Trunc(got) + " want " + c09Trunc(want)
					}
					mu.Unlock()
					stop.Store(true)
					return
				}
			}
		}(g)
	}
	done := make(chan struct{})
	go func() { wg.Wait(); stop.Store(true); wgW.Wait(); close(done) }()
	out := "ok"
	select {
	case <-done:
	case <-time.After(60 * time.Second):
		out = "no-progress"
	}
	stop.Store(true)
	h.s.Add("single-stable-phase-queries", int(nq.Load()))
	if bad != "" {
		out = "violation"
		h.s.Violation("one stable epoch loaded, a higher-numbered epoch added and removed concurrently: a query addressed to the stable epoch is not answered as on the idle server — "+bad,
			"C09:stable-epoch:single-epoch-server", h.s.Replay([]string{line}))
	}
	h.s.Op(line, out, out == "ok")
}

// ---------------------------------------------------------------------------------------------------------------
// generators

func c09GenOps(rng *zz.RNG, s *zz.Session) []string {
	var ops []string
	id := 0
	nid := func() int { id++; return id }
	add := func(kind string, e uint64, path string, g, sg int) {
		ops = append(ops, fmt.Sprintf("%s %d %d %s %d %d", kind, e, nid(), path, g, sg))
	}
	reads := func(es ...uint64) {
		ops = append(ops, "numbers", "count", "mostrecent", "oldest", "mostrecentnumber", "gsfa", "bucketteers", "version", "closed")
		for _, e := range es {
			ops = append(ops, fmt.Sprintf("get %d", e), fmt.Sprintf("has %d", e))
		}
	}
	// --- boundary-directed cases
	ops = append(ops, "case empty")
	reads(0, 1)
	ops = append(ops, "remove 5", "removebyconfig /cfg/a.yml ?")
	add("replace", 5, "/cfg/a.yml", 0, 0)
	reads(5)
	s.Count("gen-empty-set")

	ops = append(ops, "case single")
	add("add", 7, "/cfg/7.yml", 1, 1)
	reads(7, 8)
	add("add", 7, "/cfg/7b.yml", 0, 0) // exists
	reads(7)
	add("replace", 7, "/cfg/7c.yml", 0, 1)
	reads(7)
	add("replaceoradd", 7, "/cfg/7d.yml", 1, 0)
	reads(7)
	ops = append(ops, "removebyconfig /cfg/7.yml ?", "removebyconfig /cfg/7d.yml ?")
	reads(7)
	s.Count("gen-single-epoch")

	ops = append(ops, "case extremes")
	add("add", 0, "/cfg/0.yml", 0, 1)
	add("add", 18446744073709551615, "/cfg/max.yml", 1, 0)
	add("add", 9223372036854775808, "/cfg/mid.yml", 1, 1)
	add("add", 4294967296, "/cfg/2p32.yml", 0, 0)
	reads(0, 18446744073709551615, 9223372036854775807)
	ops = append(ops, "remove 18446744073709551615")
	reads(18446744073709551615)
	s.Count("gen-epoch-0-and-maxuint64")

	for ci, order := range []string{"ascending", "descending", "shuffled"} {
		ops = append(ops, "case many-"+order)
		n := 40
		perm := rng.Perm(n)
		for i := 0; i < n; i++ {
			e := uint64(i)
			switch order {
			case "descending":
				e = uint64(n - 1 - i)
			case "shuffled":
				e = uint64(perm[i])
			}
			add("add", e*3+uint64(ci), fmt.Sprintf("/cfg/%d.yml", e), int(e%2), int(e%3%2))
			if i%13 == 12 {
				ops = append(ops, "numbers", "gsfa")
			}
		}
		reads(0, 3, 117)
		for i := 0; i < n; i += 3 {
			ops = append(ops, fmt.Sprintf("remove %d", uint64(perm[i])*3+uint64(ci)))
		}
		reads()
		s.Count("gen-40-epochs-" + order)
	}

	ops = append(ops, "case duplicate-config-path")
	add("add", 10, "/cfg/same.yml", 0, 0)
	add("add", 11, "/cfg/same.yml", 1, 1)
	add("add", 12, "/cfg/same.yml", 0, 1)
	add("add", 13, "/cfg/other.yml", 1, 0)
	ops = append(ops, "removebyconfig /cfg/same.yml ?")
	reads(10, 11, 12)
	ops = append(ops, "removebyconfig /cfg/same.yml ?")
	reads(10, 11, 12)
	ops = append(ops, "removebyconfig /cfg/same.yml ?", "removebyconfig /cfg/same.yml ?")
	reads(10, 11, 12, 13)
	s.Count("gen-duplicate-config-path")

	ops = append(ops, "case replace-chain")
	for i := 0; i < 6; i++ {
		add("replaceoradd", 50, fmt.Sprintf("/cfg/50-%d.yml", i), i%2, (i+1)%2)
		ops = append(ops, "closed", "get 50")
	}
	add("replace", 50, "/cfg/50-r.yml", 1, 1) // ReplaceEpoch does not close the old one
	ops = append(ops, "closed", "remove 50", "closed", "count")
	s.Count("gen-replace-chain")

	// --- seeded random histories over a small key universe (collisions on purpose)
	nCases, nOps := 12, 60
	if zz.Thorough() {
		nCases, nOps = 150, 120
	}
	for c := 0; c < nCases; c++ {
		ops = append(ops, fmt.Sprintf("case random-%d", c))
		universe := 2 + rng.Intn(9)
		paths := 1 + rng.Intn(universe+2)
		for i := 0; i < nOps; i++ {
			e := uint64(rng.Intn(universe))
			if rng.Intn(20) == 0 {
				e += 1 << 40
			}
			p := fmt.Sprintf("/cfg/p%d.yml", rng.Intn(paths))
			switch k := rng.Intn(100); {
			case k < 22:
				add("add", e, p, rng.Intn(2), rng.Intn(2))
			case k < 34:
				add("replaceoradd", e, p, rng.Intn(2), rng.Intn(2))
			case k < 40:
				add("replace", e, p, rng.Intn(2), rng.Intn(2))
			case k < 52:
				ops = append(ops, fmt.Sprintf("remove %d", e))
			case k < 62:
				ops = append(ops, fmt.Sprintf("removebyconfig %s ?", p))
			case k < 72:
				ops = append(ops, "numbers")
			case k < 77:
				ops = append(ops, "mostrecent")
			case k < 82:
				ops = append(ops, "oldest")
			case k < 86:
				ops = append(ops, fmt.Sprintf("get %d", e))
			case k < 89:
				ops = append(ops, fmt.Sprintf("has %d", e))
			case k < 91:
				ops = append(ops, "count")
			case k < 94:
				ops = append(ops, "gsfa")
			case k < 96:
				ops = append(ops, "bucketteers")
			case k < 97:
				ops = append(ops, "version")
			case k < 98:
				ops = append(ops, "mostrecentnumber")
			default:
				ops = append(ops, "closed")
			}
		}
		reads()
	}
	return ops
}

func (h *c09Harness) genConcurrent(rng *zz.RNG) {
	readers := c09Readers()
	iters := 4000
	if zz.Thorough() {
		iters = 100000
	}
	// targeted: every accessor alone against a writer loop (the nested read lock of a single accessor shows here,
	// and the violation names it)
	for i, r := range readers {
		c := c09Cfg{kind: "targeted", readers: []string{r.name}, writers: []string{c09WriterKinds[i%3]}, nr: 3, nw: 2,
			procs: 4, iters: iters, gsfa: i%2 == 0 && !r.needNoGsfaFake, rseed: rng.U64() % 1000000}
		h.execConcurrent(c.line())
	}
	// mixed: all accessors that did not deadlock alone, all writer kinds, GOMAXPROCS varied
	var good []string
	for _, r := range readers {
		if !h.bad[r.name] {
			good = append(good, r.name)
		}
	}
	if len(good) == 0 {
		return
	}
	procs := []int{1, 2, runtime.NumCPU()}
	if zz.Thorough() {
		procs = []int{1, 2, 3, 4, 8, runtime.NumCPU(), 2 * runtime.NumCPU()}
	}
	rounds := 1
	if zz.Thorough() {
		rounds = 3
	}
	for round := 0; round < rounds; round++ {
		for i, p := range procs {
			if p < 1 {
				p = 1
			}
			c := c09Cfg{kind: "mixed", readers: good, writers: c09WriterKinds, nr: 1 + round%2, nw: 1 + round/2, procs: p, iters: iters,
				gsfa: (i+round)%2 == 1, rseed: rng.U64() % 1000000}
			h.execConcurrent(c.line())
		}
	}
}

func TestVerifC09(t *testing.T) {
	s := zz.NewSession()
	defer s.Close()
	{ // the handlers log every failed request through klog
		fs := flag.NewFlagSet("klog", flag.ContinueOnError)
		klog.InitFlags(fs)
		fs.Set("logtostderr", "false")
		fs.Set("alsologtostderr", "false")
		fs.Set("stderrthreshold", "FATAL")
		klog.SetOutput(io.Discard)
	}
	dir, err := os.MkdirTemp("", "c09")
	if err != nil {
		t.Fatal(err)
	}
	defer os.RemoveAll(dir)
	h := &c09Harness{s: s, t: t, dir: dir, leaked: map[int]bool{}, bad: map[string]bool{}}
	in := &c09Interp{s: s, h: h}
	runLine := func(line string) {
		if strings.HasPrefix(line, "concurrent-single") {
			h.singleStablePhase(zz.NewRNG(zz.Seed()))
			return
		}
		if strings.HasPrefix(line, "concurrent") {
			h.execConcurrent(line)
			return
		}
		if strings.HasPrefix(line, "case") {
			h.caseOps = nil
		}
		// every sequential op under a watchdog: an op that never returns while a goroutine is parked in MultiEpoch's
		// RWMutex means an earlier op left the lock held (a structural fact, not a timing judgement)
		type res struct {
			op, out string
			nt      bool
		}
		ch := make(chan res, 1)
		go func() {
			op, out, nt := in.exec(line)
			ch <- res{op, out, nt}
		}()
		var r res
		select {
		case r = <-ch:
		case <-time.After(c09Watchdog(h.seqDeadlocks)):
			parked := ""
			for _, g := range c09Goroutines() {
				if c09ParkedInRWMutex(g) {
					parked = c09Methods(g.stack)
					break
				}
			}
			if parked == "" {
				r = <-ch // slow, not stuck
				break
			}
			h.seqDeadlocks++
			h.caseOps = append(h.caseOps, line)
			s.Violation("operation `"+line+"` never returns: a goroutine is parked in MultiEpoch.mu ("+parked+") with no operation in flight that could release it; an earlier operation of this case left the lock held",
				"C09:deadlock:sequential:"+strings.Fields(line)[0], s.Replay(h.caseOps))
			s.Op(line, "deadlock", false)
			in.multi = nil // abandon the stuck instance
			return
		}
		h.caseOps = append(h.caseOps, r.op)
		s.Op(r.op, r.out, r.nt)
	}
	if rp := zz.ReplayFile(); rp != "" {
		data, err := os.ReadFile(rp)
		if err != nil {
			t.Fatal(err)
		}
		for _, l := range strings.Split(string(data), "\n") {
			l = strings.TrimSpace(l)
			if l != "" && !strings.HasPrefix(l, "#") {
				runLine(l)
			}
		}
		return
	}
	rng := zz.NewRNG(zz.Seed())
	for _, l := range c09GenOps(rng, s) {
		runLine(l)
	}
	h.genConcurrent(rng)
	h.singleStablePhase(rng)
}

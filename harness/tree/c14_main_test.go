package main

// C14 harness, run "main" (injected by /verif/check with `go test -overlay`; nothing is written to /repo).
// storage.go getTransactionAndMetaFromNode: the transaction bytes and the metadata bytes of a Transaction node
// are both reassembled with LoadDataFromDataFrames through one getter (in the server: Epoch.GetDataFrameByCid);
// the metadata is then zstd-decompressed.  The getter here serves real CBOR-encoded DataFrame nodes by real CID.

import (
	"bytes"
	"context"
	"fmt"
	"os"
	"strconv"
	"strings"
	"testing"

	"github.com/cespare/xxhash/v2"
	"github.com/gagliardetto/solana-go"
	"github.com/ipfs/go-cid"
	"github.com/rpcpool/yellowstone-faithful/ipld/ipldbindcode"
	"github.com/rpcpool/yellowstone-faithful/iplddecoders"
	"github.com/rpcpool/yellowstone-faithful/tooling"
	c14 "github.com/rpcpool/yellowstone-faithful/zzc14"
	zz "github.com/rpcpool/yellowstone-faithful/zzverif"
)

type c14MainInterp struct {
	s       *zz.Session
	w       *c14.World
	exps    []c14.Expect
	known   map[uint64]string
	caseOps []string
	flag    bool
}

func (in *c14MainInterp) txmeta(dataID, metaID int) string {
	ds, ok1 := in.w.Specs[dataID]
	ms, ok2 := in.w.Specs[metaID]
	if !ok1 || !ok2 {
		return "nofirst"
	}
	txn := ipldbindcode.Transaction{Kind: 0, Data: *in.w.Node(ds), Metadata: *in.w.Node(ms), Slot: 5}
	raw, err := txn.MarshalCBOR()
	if err != nil {
		panic(err)
	}
	node, err := iplddecoders.DecodeTransaction(raw)
	if err != nil {
		panic("transaction node does not decode: " + err.Error())
	}
	return zz.Guard(func() string {
		txBytes, meta, err := getTransactionAndMetaFromNode(node, in.w.Getter())
		if err != nil {
			msg := err.Error()
			switch {
			case strings.HasPrefix(msg, "failed to load transaction:"):
				return "err:data:" + c14.Classify(err)
			case strings.HasPrefix(msg, "failed to load metadata:"):
				return "err:meta:" + c14.Classify(err)
			case strings.HasPrefix(msg, "failed to decompress metadata:"):
				return "err:zstd"
			}
			return "err:other(" + msg + ")"
		}
		m := "empty"
		if meta != nil {
			if d, ok := in.known[xxhash.Sum64(meta)]; ok {
				m = d
			} else {
				m = "unknown-content"
			}
		}
		return fmt.Sprintf("ok %s | %s", c14.Digest(txBytes), m)
	})
}

func (in *c14MainInterp) exec(line string) string {
	w := strings.Fields(line)
	if w[0] == "case" {
		in.caseOps = nil
	}
	in.caseOps = append(in.caseOps, line)
	switch w[0] {
	case "case":
		in.w = c14.NewWorld()
		in.exps = nil
		in.known = map[uint64]string{}
		in.flag = false
		ipldbindcode.DisableHashVerification = false
		return "ok"
	case "flag":
		// the process-wide switch `index gsfa` sets (default flags: true) and never resets
		if len(w) != 3 || w[1] != "disableHashVerification" {
			return "bad-op"
		}
		in.flag = w[2] == "true"
		ipldbindcode.DisableHashVerification = in.flag
		return "ok"
	case "frame":
		f, err := c14.ParseSpec(w)
		if err != nil {
			return "bad-op"
		}
		if err := in.w.Define(f); err != nil {
			return "encode-error"
		}
		return "ok"
	case "del":
		id, _ := strconv.Atoi(w[1])
		in.w.Delete(id)
		return "ok"
	case "known":
		x, _ := strconv.ParseUint(w[3], 16, 64)
		in.known[x] = w[1] + " " + w[2]
		return "ok"
	case "expect":
		in.exps = append(in.exps, c14.ParseExpect(w))
		return "ok"
	case "txmeta":
		d, _ := strconv.Atoi(w[1])
		m, _ := strconv.Atoi(w[2])
		ans := in.txmeta(d, m)
		in.s.Count("txmeta:" + strings.SplitN(ans, " ", 2)[0])
		in.judge(ans)
		in.exps = nil
		return ans
	}
	return "bad-op"
}

func (in *c14MainInterp) judge(ans string) {
	if ans == "panic" {
		in.s.Violation("getTransactionAndMetaFromNode panics: "+zz.LastPanic, "C14:main:panic", in.s.Replay(in.caseOps))
		return
	}
	if len(in.exps) != 2 {
		return
	}
	report := func(e c14.Expect, a string) {
		if v := e.Judge(a); v != "" {
			key := "C14:main:" + e.Mode + ":" + e.Fault
			if in.flag {
				key = c14.FlagKey
				v = "with ipldbindcode.DisableHashVerification set (the state `index gsfa` leaves behind): " + v
			}
			in.s.Violation("getTransactionAndMetaFromNode: "+v, key, in.s.Replay(in.caseOps))
		}
	}
	switch {
	case strings.HasPrefix(ans, "err:data:"):
		report(in.exps[0], "err")
	case strings.HasPrefix(ans, "err:meta:"), ans == "err:zstd":
		report(in.exps[1], "err")
	case strings.HasPrefix(ans, "ok "):
		parts := strings.SplitN(strings.TrimPrefix(ans, "ok "), " | ", 2)
		report(in.exps[0], "ok "+parts[0])
		m := parts[1]
		if m == "empty" {
			m = c14.Digest(nil)
		}
		report(in.exps[1], "ok "+m)
	}
}

// c14ParsedPath: the path behind JSON-RPC getTransaction / getBlock (storage.go parseTransactionAndMetaFromNode): a real
// signed transaction whose serialized bytes are split into k linked frames (fan-out f) must come back as the same
// transaction, for every k and f; metadata in one frame.
func c14ParsedPath(s *zz.Session) {
	keys := genKeys(2, 77)
	rng := zz.NewRNG(zz.Seed() + 1414)
	for _, dl := range []int{8, 200, 700, 1100} {
		for _, k := range []int{1, 2, 3, 7} {
			for _, fan := range []int{1, 2, 5} {
				data := rng.Bytes(dl)
				ix := solana.NewInstruction(solana.MustPublicKeyFromBase58("11111111111111111111111111111111"),
					solana.AccountMetaSlice{solana.Meta(keys[0].PublicKey()).WRITE().SIGNER(), solana.Meta(keys[1].PublicKey()).WRITE()}, data)
				var bh solana.Hash
				copy(bh[:], rng.Bytes(32))
				tx, err := solana.NewTransaction([]solana.Instruction{ix}, bh, solana.TransactionPayer(keys[0].PublicKey()))
				if err != nil {
					panic(err)
				}
				if _, err := tx.Sign(func(pk solana.PublicKey) *solana.PrivateKey { return &keys[0] }); err != nil {
					panic(err)
				}
				raw, _ := tx.MarshalBinary()
				w := &carW{}
				node := ipldbindcode.Transaction{Kind: 0, Data: w.frames(raw, k, fan), Metadata: w.frames([]byte{}, 1, 1), Slot: 5, Index: pp(0)}
				enc, err := node.MarshalCBOR()
				if err != nil {
					panic(err)
				}
				dec, err := iplddecoders.DecodeTransaction(enc)
				if err != nil {
					panic(err)
				}
				getter := func(ctx context.Context, c cid.Cid) (*ipldbindcode.DataFrame, error) {
					for _, o := range w.objs {
						if o.Cid.Equals(c) {
							return iplddecoders.DecodeDataFrame(o.Data)
						}
					}
					return nil, fmt.Errorf("frame %s not stored", c)
				}
				line := fmt.Sprintf("# parsed-path txbytes=%d frames=%d fanout=%d", len(raw), k, fan)
				ans := zz.Guard(func() string {
					got, _, err := parseTransactionAndMetaFromNode(dec, getter)
					if err != nil {
						return "err: " + err.Error()
					}
					back, err := got.MarshalBinary()
					if err != nil || !bytes.Equal(back, raw) {
						return "other transaction"
					}
					return "ok"
				})
				s.Count("parsed-path:" + strings.SplitN(ans, ":", 2)[0])
				if ans != "ok" {
					s.Violation(fmt.Sprintf("parseTransactionAndMetaFromNode (getTransaction/getBlock path): a %d-byte transaction stored in %d frame(s), fan-out %d, does not come back: %s", len(raw), k, fan, ans),
						fmt.Sprintf("C14:main:parsed-path:frames=%d", k), s.Replay([]string{line}))
				}
			}
		}
	}
}

func c14MainGenerate(g *c14.Gen, s *zz.Session, thorough bool) {
	hashKinds := []string{"crc", "fnv", "none"}
	orders := []string{"asc", "desc", "shuffle"}
	caseNo, seq := 0, 0
	flagPhase := false
	one := func(dataSize, metaContent, kd, km, Fd, Fm int, hk string, tot bool, lim int) {
		caseNo++
		g.Emit("case run=main #%d data=%d metaContent=%d kd=%d km=%d Fd=%d Fm=%d hash=%s total=%v flag-phase=%v", caseNo, dataSize, metaContent, kd, km, Fd, Fm, hk, tot, flagPhase)
		if flagPhase {
			g.Emit("flag disableHashVerification true")
		}
		var z []byte
		if metaContent < 0 {
			z = []byte{}
			km = 1
			s.Count("meta:empty")
		} else {
			content := g.R.Bytes(metaContent)
			var err error
			z, err = tooling.CompressZstd(content)
			if err != nil {
				panic(err)
			}
			d := strings.Fields(c14.Digest(z))
			g.Emit("known %s %s %016x", d[0], d[1], xxhash.Sum64(content))
		}
		pd := g.Layout(g.R.Bytes(dataSize), kd, Fd, hk, tot, orders[caseNo%3], []string{"even", "random"}[caseNo%2])
		pm := g.Layout(z, km, Fm, hk, tot, orders[(caseNo+1)%3], []string{"random", "even"}[caseNo%2])
		if kd > 1 {
			s.Count("data:multi-frame")
		}
		if km > 1 {
			s.Count("meta:multi-frame")
		}
		load := func(dm, dn, mm, mn string) {
			g.Emit("expect %s %s %s", dm, dn, c14.Digest(pd.Bytes))
			g.Emit("expect %s %s %s", mm, mn, c14.Digest(pm.Bytes))
			seq++
			g.Emit("txmeta %d %d %d", pd.First(), pm.First(), seq)
		}
		load("exact", "unfaulted", "exact", "unfaulted")
		if lim == 0 {
			return
		}
		for side, p := range []*c14.Payload{pd, pm} {
			var q *c14.Payload
			if side == 0 && pm.K == pd.K {
				q = pm // the frames of the metadata mixed into the transaction bytes
			}
			if side == 1 && pm.K == pd.K {
				q = pd
			}
			scs := g.Faults(p, q, lim)
			if flagPhase {
				scs = g.ContentFaults(p, q)
			}
			for _, sc := range scs {
				if sc.ND || (side == 1 && sc.Mode == "none") {
					// without a recorded checksum altered bytes reach zstd, whose answer the model cannot
					// predict; the tooling run compares these faults without zstd in the way
					continue
				}
				if flagPhase {
					s.Count("flag-phase:fault:" + sc.Name)
				} else {
					s.Count("fault:" + sc.Name)
				}
				for _, l := range sc.Setup {
					g.Emit("%s", l)
				}
				if side == 0 {
					load(sc.Mode, sc.Name, "exact", "unfaulted")
				} else {
					load("exact", "unfaulted", sc.Mode, sc.Name)
				}
				for _, l := range sc.Restore {
					g.Emit("%s", l)
				}
			}
		}
		load("exact", "restored", "exact", "restored")
	}
	i := 0
	for _, k := range []int{1, 2, 3, 5, 10, 33, 60} {
		for _, F := range []int{1, 2, 5, 10} {
			lim := 5
			if thorough {
				lim = -1
			}
			mc := 50 * k
			if i%9 == 4 {
				mc = -1
			}
			one(20*k+i, mc, k, k, F, 1+(F+3)%10, hashKinds[i%3], i%5 != 4, lim)
			i++
		}
	}
	one(200*1024, 200*1024, 60, 41, 10, 4, "crc", true, 3)
	n := 10
	if thorough {
		n = 1000
	}
	for r := 0; r < n; r++ {
		mc := g.R.Intn(8000)
		if g.R.Intn(12) == 0 {
			mc = -1
		}
		one(g.R.Intn(4000), mc, 1+g.R.Intn(60), 1+g.R.Intn(60), 1+g.R.Intn(10), 1+g.R.Intn(10), hashKinds[g.R.Intn(3)], g.R.Intn(4) != 0, 6)
	}
	// configuration phase: ipldbindcode.DisableHashVerification set, as after `index gsfa` with default flags
	flagPhase = true
	for fi, k := range []int{1, 2, 5, 10, 60} {
		for _, hk := range []string{"crc", "fnv"} {
			one(30*k+fi, 40*k, k, k, 1+(fi*3)%10, 1+(fi*7)%10, hk, true, -1)
		}
	}
	if thorough {
		for r := 0; r < 100; r++ {
			one(1+g.R.Intn(4000), g.R.Intn(6000), 1+g.R.Intn(60), 1+g.R.Intn(60), 1+g.R.Intn(10), 1+g.R.Intn(10), hashKinds[g.R.Intn(2)], true, -1)
		}
	}
	flagPhase = false
}

func TestVerifC14Main(t *testing.T) {
	s := zz.NewSession()
	defer s.Close()
	in := &c14MainInterp{s: s, w: c14.NewWorld(), known: map[uint64]string{}}
	savedFlag := ipldbindcode.DisableHashVerification
	defer func() { ipldbindcode.DisableHashVerification = savedFlag }()
	var ops []string
	if rp := zz.ReplayFile(); rp != "" {
		data, err := os.ReadFile(rp)
		if err != nil {
			t.Fatal(err)
		}
		ops = c14.ReplayLines(string(data), "main")
	} else {
		g := &c14.Gen{R: zz.NewRNG(zz.Seed() + 2000)}
		c14MainGenerate(g, s, zz.Thorough())
		ops = g.Ops
	}
	for _, op := range ops {
		out := in.exec(op)
		s.Op(op, out, strings.HasPrefix(out, "ok "))
	}
	c14ParsedPath(s)
}

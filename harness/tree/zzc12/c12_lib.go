// Package zzc12 is shared by the C12 harness files (one per anchored package) that /verif/check injects with
// `go test -overlay`; nothing is written to /repo.
//
// C12: "parsers of external data return errors, never crash, on arbitrary bytes".  Every op line names an entry point
// of the real code and carries the bytes; the outcome class of the real code is one of
//
//	ok | err | panic | hang | alloc | crash
//
// The real code does not run in the test process itself but in a *worker*: the same test binary re-executed with
// VERIF_C12_CHILD=1, fed one op line at a time over a pipe.  This is what makes the classes observable without false
// alarms and without losing the run:
//   - panic : recovered in the worker; the panic site (first frame of the repository below the runtime's panic
//     machinery) is reported and becomes part of the finding key;
//   - alloc : the worker is single-goroutine, so the runtime.MemStats.TotalAlloc delta around the call is the number of
//     bytes the call requested; "out of proportion" = more than 64 MiB + 64 × len(input).  A request the OS refuses
//     kills the worker ("fatal error: runtime: out of memory"), which the parent sees and also classifies as alloc;
//   - hang  : no answer within the budget; the worker is killed and the op re-run alone in a fresh worker, three times,
//     with ten times the budget, before it is called a hang;
//   - crash : the worker died for another reason (e.g. unrecoverable stack overflow); re-run alone once to confirm.
package zzc12

import (
	"bufio"
	"encoding/binary"
	"fmt"
	"io"
	"os"
	"os/exec"
	"runtime"
	"strconv"
	"strings"
	"sync"
	"syscall"
	"time"

	zz "github.com/rpcpool/yellowstone-faithful/zzverif"
)

const modulePrefix = "github.com/rpcpool/yellowstone-faithful"

// AllocLimit is the "out of proportion" threshold for an input of n bytes.
func AllocLimit(n int) uint64 { return 64<<20 + 64*uint64(n) }

func IsChild() bool { return os.Getenv("VERIF_C12_CHILD") != "" }

// ---------------------------------------------------------------------------------------------------
// worker side

// panicSite finds the function of the repository that was executing when the panic was raised.
func panicSite() string {
	pcs := make([]uintptr, 64)
	n := runtime.Callers(3, pcs)
	frames := runtime.CallersFrames(pcs[:n])
	seenPanic := false
	first := ""
	for {
		fr, more := frames.Next()
		fn := fr.Function
		if strings.HasPrefix(fn, "runtime.") {
			if strings.Contains(fn, "panic") || strings.Contains(fn, "goPanic") {
				seenPanic = true
			}
		} else if seenPanic {
			if first == "" {
				first = fn
			}
			if (strings.HasPrefix(fn, modulePrefix+"/") || strings.HasPrefix(fn, modulePrefix+".")) && !strings.Contains(fr.File, "zz_verif_") && !strings.Contains(fn, "/zzc12.") && !strings.Contains(fn, "/zzverif.") {
				return strings.TrimPrefix(strings.TrimPrefix(fn, modulePrefix+"/"), modulePrefix+".")
			}
		}
		if !more {
			break
		}
	}
	if first == "" {
		return "unknown"
	}
	return first
}

func panicKind(msg string) string {
	switch {
	case strings.Contains(msg, "index out of range"):
		return "index-out-of-range"
	case strings.Contains(msg, "slice bounds out of range"):
		return "slice-bounds"
	case strings.Contains(msg, "interface conversion"):
		return "interface-conversion"
	case strings.Contains(msg, "makeslice"):
		return "makeslice"
	case strings.Contains(msg, "nil pointer"):
		return "nil-deref"
	case strings.Contains(msg, "divide by zero"):
		return "divide-by-zero"
	}
	return "other"
}

func guarded(exec func(string) string, line string) (out string) {
	defer func() {
		if r := recover(); r != nil {
			msg := strings.ReplaceAll(fmt.Sprint(r), "\n", " ")
			if len(msg) > 160 {
				msg = msg[:160]
			}
			out = "panic\t" + strings.TrimPrefix(panicSite(), "main.") + ":" + panicKind(msg) + "\t" + msg
		}
	}()
	return exec(line)
}

// Serve is the worker loop: one op line in (stdin), one answer line out (fd 3): "<alloc bytes>\t<answer>".
func Serve(exec func(op string) string) {
	in := bufio.NewReaderSize(os.Stdin, 1<<20)
	out := os.NewFile(3, "c12-answers")
	if out == nil {
		panic("worker: fd 3 missing")
	}
	w := bufio.NewWriter(out)
	go rssWatchdog()
	var m0, m1 runtime.MemStats
	for {
		line, err := in.ReadString('\n')
		if err != nil {
			return
		}
		line = strings.TrimRight(line, "\n")
		runtime.ReadMemStats(&m0)
		ans := guarded(exec, line)
		runtime.ReadMemStats(&m1)
		// after a very large request the worker retires: a fresh process gets zero pages from the OS for free,
		// while re-using freed spans means clearing gigabytes for the next large request
		bye := ""
		if m1.TotalAlloc-m0.TotalAlloc > 512<<20 {
			bye = "!"
		}
		fmt.Fprintf(w, "%d%s\t%s\n", m1.TotalAlloc-m0.TotalAlloc, bye, ans)
		w.Flush()
		if bye != "" {
			os.Exit(0)
		}
	}
}

// rssWatchdog ends the worker when its resident memory passes 8 GiB (a runaway loop that keeps appending must not
// take the machine down); the parent classifies that death as alloc.  Allocation free: pread into a fixed buffer.
func rssWatchdog() {
	fd, err := syscall.Open("/proc/self/statm", syscall.O_RDONLY, 0)
	if err != nil {
		return
	}
	var buf [128]byte
	page := uint64(os.Getpagesize())
	for {
		time.Sleep(50 * time.Millisecond)
		n, err := syscall.Pread(fd, buf[:], 0)
		if err != nil || n <= 0 {
			continue
		}
		// second field = resident pages
		i := 0
		for i < n && buf[i] != ' ' {
			i++
		}
		i++
		var v uint64
		for i < n && buf[i] >= '0' && buf[i] <= '9' {
			v = v*10 + uint64(buf[i]-'0')
			i++
		}
		if v*page > 8<<30 {
			os.Stderr.WriteString("fatal error: worker resident memory exceeded 8 GiB\n")
			os.Exit(97)
		}
	}
}

// ---------------------------------------------------------------------------------------------------
// parent side

type ring struct {
	mu  sync.Mutex
	buf []byte
}

func (r *ring) Write(p []byte) (int, error) {
	r.mu.Lock()
	r.buf = append(r.buf, p...)
	if len(r.buf) > 1<<16 {
		r.buf = r.buf[len(r.buf)-(1<<16):]
	}
	r.mu.Unlock()
	return len(p), nil
}
func (r *ring) String() string { r.mu.Lock(); defer r.mu.Unlock(); return string(r.buf) }

type Worker struct {
	test   string
	cmd    *exec.Cmd
	stdin  io.WriteCloser
	ans    *bufio.Reader
	ansF   *os.File
	lines  chan string
	stderr *ring
	Budget time.Duration
	hangs  map[string]int // confirmed hangs per op kind in this run
}

func NewWorker(testName string) *Worker {
	return &Worker{test: testName, Budget: 2 * time.Second}
}

func (w *Worker) start() {
	pr, pw, err := os.Pipe()
	if err != nil {
		panic(err)
	}
	cmd := exec.Command(os.Args[0], "-test.run=^"+w.test+"$", "-test.timeout=0")
	cmd.Env = append(os.Environ(), "VERIF_C12_CHILD=1")
	cmd.ExtraFiles = []*os.File{pw}
	w.stderr = &ring{}
	cmd.Stderr = w.stderr
	cmd.Stdout = w.stderr
	stdin, err := cmd.StdinPipe()
	if err != nil {
		panic(err)
	}
	if err := cmd.Start(); err != nil {
		panic(err)
	}
	pw.Close()
	w.cmd, w.stdin, w.ansF = cmd, stdin, pr
	w.ans = bufio.NewReaderSize(pr, 1<<20)
	w.lines = make(chan string, 1)
	go func(rd *bufio.Reader, ch chan string) {
		for {
			l, err := rd.ReadString('\n')
			if err != nil {
				close(ch)
				return
			}
			ch <- strings.TrimRight(l, "\n")
		}
	}(w.ans, w.lines)
}

func (w *Worker) stop() {
	if w.cmd == nil {
		return
	}
	w.stdin.Close()
	w.cmd.Process.Kill()
	w.cmd.Wait()
	w.ansF.Close()
	w.cmd = nil
}

func (w *Worker) Close() { w.stop() }

type Result struct {
	Class  string // ok | err | panic | hang | alloc | crash   (plus whatever non-failure answers the exec returns, e.g. "ok" with details)
	Answer string // the exec's answer line (for ok/err: possibly with detail words after the class)
	Site   string // panic site + kind, or fatal-error line
	Msg    string
	Alloc  uint64
}

// once sends the op to the (possibly fresh) worker and waits at most d.
func (w *Worker) once(op string, d time.Duration) (raw string, state string) {
	if w.cmd == nil {
		w.start()
	}
	if _, err := io.WriteString(w.stdin, op+"\n"); err != nil {
		w.stop()
		return "", "died"
	}
	select {
	case l, ok := <-w.lines:
		if !ok {
			w.cmd.Wait()
			st := w.stderr.String()
			w.stop()
			return st, "died"
		}
		if i := strings.IndexByte(l, '\t'); i > 0 && l[i-1] == '!' {
			l = l[:i-1] + l[i:]
			w.stop()
		}
		return l, "answered"
	case <-time.After(d):
		w.stop()
		return "", "timeout"
	}
}

func fatalLine(stderr string) string {
	for _, l := range strings.Split(stderr, "\n") {
		if strings.HasPrefix(l, "fatal error:") || strings.HasPrefix(l, "runtime: out of memory") || strings.Contains(l, "cannot allocate memory") || strings.Contains(l, "resident memory exceeded") {
			return strings.TrimSpace(l)
		}
	}
	t := strings.TrimSpace(stderr)
	if len(t) > 200 {
		t = t[len(t)-200:]
	}
	return strings.ReplaceAll(t, "\n", " | ")
}

func parseAnswer(raw string, inputLen int) Result {
	parts := strings.SplitN(raw, "\t", 4)
	alloc, _ := strconv.ParseUint(parts[0], 10, 64)
	ans := ""
	if len(parts) > 1 {
		ans = parts[1]
	}
	r := Result{Answer: ans, Alloc: alloc}
	r.Class = strings.Fields(ans + " x")[0]
	if r.Class == "panic" {
		if len(parts) > 2 {
			r.Site = parts[2]
		}
		if len(parts) > 3 {
			r.Msg = parts[3]
		}
		return r
	}
	for _, wd := range strings.Fields(ans) {
		if strings.HasPrefix(wd, "outlen=") {
			// a decompressor's output counts as part of what the call legitimately handles
			n, _ := strconv.Atoi(wd[len("outlen="):])
			inputLen += n
		}
	}
	if alloc > AllocLimit(inputLen) {
		r.Class = "alloc"
		r.Msg = fmt.Sprintf("%d bytes requested for an input of %d bytes (limit %d)", alloc, inputLen, AllocLimit(inputLen))
	}
	return r
}

// Do executes one op in the worker and classifies the outcome.  inputLen is the number of input bytes the op carries.
// Budgets: the first try gets Budget; a try that times out is repeated alone (fresh worker) up to three times with
// ten times the budget; only if all of them time out the op is a hang.
func (w *Worker) Do(op string, inputLen int) Result {
	budgets := []time.Duration{w.Budget, 10 * w.Budget, 10 * w.Budget, 10 * w.Budget}
	// a tree in which one kind of op hangs usually hangs on hundreds of inputs: the first three hangs of a kind are
	// confirmed in full (62 s each), the next ones on the first budget only, and after eight the kind is no longer run
	// (every one of them is reported as a hang; the oracle reports the kind once, with the first input as the replay)
	kind := strings.Fields(op + " x")[0]
	if w.hangs == nil {
		w.hangs = map[string]int{}
	}
	if w.hangs[kind] >= 8 {
		return Result{Class: "hang", Answer: "hang", Msg: "not run: eight ops of this kind did not answer"}
	}
	if w.hangs[kind] >= 3 {
		budgets = budgets[:1]
	}
	for _, budget := range budgets {
		raw, st := w.once(op, budget)
		switch st {
		case "answered":
			return parseAnswer(raw, inputLen)
		case "died":
			fl := fatalLine(raw)
			// re-run alone in a fresh worker to confirm
			raw2, st2 := w.once(op, 10*w.Budget)
			if st2 == "answered" {
				// not reproducible: take the second answer (the first death is recorded in Msg)
				r := parseAnswer(raw2, inputLen)
				r.Msg = "worker died once (" + fl + ") " + r.Msg
				return r
			}
			if st2 == "died" {
				fl = fatalLine(raw2)
			}
			if strings.Contains(fl, "out of memory") || strings.Contains(fl, "cannot allocate memory") || strings.Contains(fl, "resident memory exceeded") {
				return Result{Class: "alloc", Answer: "alloc", Site: "fatal-out-of-memory", Msg: fl}
			}
			return Result{Class: "crash", Answer: "crash", Site: "fatal", Msg: fl}
		}
	}
	w.hangs[kind]++
	if len(budgets) == 1 {
		return Result{Class: "hang", Answer: "hang", Msg: fmt.Sprintf("no answer within %s (three earlier ops of this kind were confirmed three times alone)", w.Budget)}
	}
	return Result{Class: "hang", Answer: "hang", Msg: fmt.Sprintf("no answer within %s, three times, alone", 10*w.Budget)}
}

// ---------------------------------------------------------------------------------------------------
// the run: op lines -> worker -> ops.txt / impl.out / oracle

type Run struct {
	S     *zz.Session
	W     *Worker
	Prop  string
	seen  map[string]bool
	Print func(op string, r Result) string // canonical answer line compared with the model (default: r.Class)
	// Exempt: ops whose allocation is decided by a third-party stage that has its own op kind (e.g. the zstd payload
	// inside an accepted linked-log record is checked by `unz`); an `alloc` of such an op is only counted.
	Exempt func(op string, r Result) bool
}

func NewRun(testName string) *Run {
	return &Run{S: zz.NewSession(), W: NewWorker(testName), Prop: "C12", seen: map[string]bool{}}
}

func (r *Run) Close() { r.W.Close(); r.S.Close() }

// InputLen: number of bytes carried by the hex words of an op line.
func InputLen(op string) int {
	n := 0
	for _, w := range strings.Fields(op)[1:] {
		if isHex(w) {
			n += len(w) / 2
		}
	}
	return n
}

func isHex(s string) bool {
	if len(s) == 0 || len(s)%2 != 0 {
		return false
	}
	for _, c := range s {
		if !(c >= '0' && c <= '9' || c >= 'a' && c <= 'f') {
			return false
		}
	}
	return true
}

// Exec runs one op, records it and evaluates the oracle (the property itself): any of panic/hang/alloc/crash is a violation.
func (r *Run) Exec(op string) Result {
	res := r.W.Do(op, InputLen(op))
	kind := strings.Fields(op)[0]
	if res.Class == "alloc" && r.Exempt != nil && res.Site == "" && r.Exempt(op, res) {
		res.Class = strings.Fields(res.Answer + " x")[0]
		r.S.Count("alloc-exempt:" + kind)
	}
	line := res.Class
	if r.Print != nil {
		line = r.Print(op, res)
	}
	r.S.Op(op, line, res.Class == "ok" || res.Class == "z")
	r.S.Count("class:" + res.Class)
	r.S.Count("op:" + kind)
	switch res.Class {
	case "panic", "hang", "alloc", "crash":
		key := fmt.Sprintf("%s:%s:%s", r.Prop, kind, res.Class)
		if res.Site != "" && res.Class != "alloc" {
			key += ":" + res.Site
		}
		key = strings.ReplaceAll(key, " ", "_")
		if !r.seen[key] {
			r.seen[key] = true
			what := fmt.Sprintf("%s on external bytes: %s (%s) %s", kind, res.Class, res.Site, res.Msg)
			r.S.Violation(what, key, r.S.Replay([]string{op}))
		}
		r.S.Count("violating-ops")
	}
	return res
}

// Ops returns the replay file's ops or nil.
func ReplayOps() []string {
	rp := zz.ReplayFile()
	if rp == "" {
		return nil
	}
	data, err := os.ReadFile(rp)
	if err != nil {
		panic(err)
	}
	var ops []string
	for _, l := range strings.Split(strings.TrimSpace(string(data)), "\n") {
		if l != "" && !strings.HasPrefix(l, "#") {
			ops = append(ops, l)
		}
	}
	return ops
}

// ---------------------------------------------------------------------------------------------------
// structure-aware mutation

// Field is a length / count / offset field of a valid file.
type Field struct {
	Name  string
	Off   int
	Width int  // bytes, little endian; 0 = uvarint (Off..Off+UvLen)
	UvLen int  // length of the uvarint as it stands in the valid file
	BE    bool // big endian
}

type Mutant struct {
	What string
	Data []byte
}

func putField(data []byte, f Field, v uint64) []byte {
	out := append([]byte(nil), data...)
	if f.Width > 0 {
		if f.Off+f.Width > len(out) {
			return out
		}
		for i := 0; i < f.Width; i++ {
			sh := uint(8 * i)
			if f.BE {
				sh = uint(8 * (f.Width - 1 - i))
			}
			out[f.Off+i] = byte(v >> sh)
		}
		return out
	}
	// uvarint: replace the encoded integer (the file changes length, everything after it moves)
	enc := binary.AppendUvarint(nil, v)
	res := append([]byte(nil), out[:f.Off]...)
	res = append(res, enc...)
	res = append(res, out[f.Off+f.UvLen:]...)
	return res
}

func fieldMax(f Field) uint64 {
	if f.Width == 0 || f.Width >= 8 {
		return ^uint64(0)
	}
	return 1<<(8*uint(f.Width)) - 1
}

func fieldGet(data []byte, f Field) uint64 {
	if f.Width == 0 {
		v, _ := binary.Uvarint(data[f.Off:])
		return v
	}
	var v uint64
	for i := 0; i < f.Width && f.Off+i < len(data); i++ {
		sh := uint(8 * i)
		if f.BE {
			sh = uint(8 * (f.Width - 1 - i))
		}
		v |= uint64(data[f.Off+i]) << sh
	}
	return v
}

// FieldValues: 0, 1, max and values inconsistent with the file size (just below / above the true value, the file size
// and its neighbours, sizes that only fit with a 32-bit wrap, "almost max" values whose sum with a small constant
// wraps, and — for 8-byte fields — values on both sides of what the Go runtime accepts for make()).
// Values that would make the unrepaired code request between 8 GiB and 2^48 bytes are left out on purpose:
// whether the OS grants such a request is not a property of the code.
func FieldValues(f Field, cur uint64, fileSize int) []uint64 {
	mx := fieldMax(f)
	vals := []uint64{0, 1, 2, mx, mx - 1, cur + 1, cur - 1, cur * 2, uint64(fileSize), uint64(fileSize) + 1, uint64(fileSize) - 1,
		uint64(fileSize) * 2, 12, 13, 24, 25, 127, 128, 255, 256, 65535, 65536, 1 << 24, 1<<24 + 1}
	if f.Width == 4 || f.Width == 0 || f.Width >= 8 {
		vals = append(vals, 0xFFFFFFF0, 0xFFFFFFF4, 0xFFFFFFFF, 0x80000000, 256<<20, 256<<20+1, 200<<20, 32<<20, 32<<20+1, 1<<27)
	}
	if f.Width == 0 || f.Width >= 8 {
		vals = append(vals, 1<<62, 1<<63, 1<<63-1, 1<<61, 1<<60, mx-7, mx-8, mx-15)
	}
	seen := map[uint64]bool{}
	var out []uint64
	for _, v := range vals {
		if f.Width > 0 && f.Width < 8 && v > mx {
			continue
		}
		if !seen[v] {
			seen[v] = true
			out = append(out, v)
		}
	}
	return out
}

// Mutate produces the structure-aware mutants of one valid file.
func Mutate(rng *zz.RNG, valid []byte, fields []Field, nByte, nRandom int, count func(string)) []Mutant {
	var out []Mutant
	out = append(out, Mutant{"valid", valid})
	for _, f := range fields {
		cur := fieldGet(valid, f)
		for _, v := range FieldValues(f, cur, len(valid)) {
			out = append(out, Mutant{fmt.Sprintf("field:%s=%d", f.Name, v), putField(valid, f, v)})
			count("mut:field")
			switch v {
			case 0:
				count("mut:field=0")
			case 1:
				count("mut:field=1")
			case fieldMax(f):
				count("mut:field=max")
			}
		}
		// field mutation + truncation right after the field
		end := f.Off + f.Width
		if f.Width == 0 {
			end = f.Off + f.UvLen
		}
		if end <= len(valid) {
			out = append(out, Mutant{"trunc-after:" + f.Name, append([]byte(nil), valid[:end]...)})
			if end > 0 {
				out = append(out, Mutant{"trunc-in:" + f.Name, append([]byte(nil), valid[:end-1]...)})
			}
		}
	}
	// truncations: every prefix for small files, boundaries + sample for larger ones
	if len(valid) <= 300 {
		for i := 0; i < len(valid); i++ {
			out = append(out, Mutant{fmt.Sprintf("trunc:%d", i), append([]byte(nil), valid[:i]...)})
			count("mut:trunc")
		}
	} else {
		for i := 0; i < 64 && i < len(valid); i++ {
			out = append(out, Mutant{fmt.Sprintf("trunc:%d", i), append([]byte(nil), valid[:i]...)})
			count("mut:trunc")
		}
		for i := 0; i < 40; i++ {
			c := rng.Intn(len(valid))
			out = append(out, Mutant{fmt.Sprintf("trunc:%d", c), append([]byte(nil), valid[:c]...)})
			count("mut:trunc")
		}
	}
	// single-byte mutations
	for i := 0; i < nByte && len(valid) > 0; i++ {
		p := rng.Intn(len(valid))
		if i < len(valid) && i < 96 {
			p = i // the header region byte by byte
		}
		m := append([]byte(nil), valid...)
		switch rng.Intn(4) {
		case 0:
			m[p] = 0
		case 1:
			m[p] = 0xff
		case 2:
			m[p] ^= 1 << uint(rng.Intn(8))
		default:
			m[p] = byte(rng.U64())
		}
		out = append(out, Mutant{fmt.Sprintf("byte:%d", p), m})
		count("mut:byte")
	}
	// random bytes, with and without the valid file's first bytes (magic)
	for i := 0; i < nRandom; i++ {
		n := rng.Intn(200)
		b := rng.Bytes(n)
		if i%2 == 0 && len(valid) > 0 {
			k := rng.Intn(len(valid))
			if k > 40 {
				k = rng.Intn(40)
			}
			b = append(append([]byte(nil), valid[:k]...), b...)
		}
		out = append(out, Mutant{"random", b})
		count("mut:random")
	}
	return out
}

package blocktimeindex

// C12 harness for the slot-to-blocktime index (injected by /verif/check with `go test -overlay`; nothing is written to /repo).
//
//	bt <file hex> get <slot>    FromBytes(file); when it loads: Get(slot), Get(start), Get(end), Get(start+5), Epoch()
//	                            Answer: err | ok <Get(slot) result: a time, or oor (slot out of range error)>
//
// Valid files come from the real NewIndexer/Set/MarshalBinary (small capacities; the format does not depend on it),
// plus one real full-epoch file.

import (
	"encoding/binary"
	"fmt"
	"strconv"
	"strings"
	"testing"

	c12 "github.com/rpcpool/yellowstone-faithful/zzc12"
	zz "github.com/rpcpool/yellowstone-faithful/zzverif"
)

func c12ExecBT(op string) string {
	w := strings.Fields(op)
	switch w[0] {
	case "bt":
		data := zz.Unhex(w[1])
		slot, _ := strconv.ParseUint(w[3], 10, 64)
		idx, err := FromBytes(data)
		if err != nil {
			return "err"
		}
		idx.Epoch()
		idx.Get(idx.start)
		idx.Get(idx.end)
		idx.Get(idx.start + 5)
		idx.Get(idx.end + 1)
		v, err := idx.Get(slot)
		if err != nil {
			return "ok oor"
		}
		return fmt.Sprintf("ok %d", v)
	}
	return "bad-op"
}

func c12GenBT(rng *zz.RNG, s *zz.Session, thorough bool) []string {
	var ops []string
	fields := []c12.Field{
		{Name: "start", Off: 14, Width: 8},
		{Name: "end", Off: 22, Width: 8},
		{Name: "epoch", Off: 30, Width: 8},
		{Name: "capacity", Off: 38, Width: 8},
	}
	type spec struct {
		epoch    uint64
		span     uint64 // end - start
		capacity uint64
	}
	specs := []spec{{1, 9, 10}, {0, 0, 1}, {700, 431999, 40}, {3, 99, 100}, {2, 5, 0}}
	for _, sp := range specs {
		start := sp.epoch * 432000
		idx := NewIndexer(start, start+sp.span, sp.capacity)
		for i := uint64(0); i < sp.capacity && i <= sp.span; i++ {
			idx.Set(start+i, int64(1600000000+rng.Intn(1000000)))
		}
		data, err := idx.MarshalBinary()
		if err != nil {
			panic(err)
		}
		nb, nr := 200, 40
		if thorough {
			nb, nr = 800, 400
		}
		for mi, mu := range c12.Mutate(rng, data, fields, nb, nr, s.Count) {
			slot := start + uint64(mi)%(sp.span+2)
			switch mi % 6 {
			case 4:
				slot = start + 5
			case 5:
				slot = rng.U64()
			}
			ops = append(ops, fmt.Sprintf("bt %s get %d", zz.Hex(mu.Data), slot))
		}
		s.Count("valid-files")
	}
	// capacity against the number of values actually present: n values, capacity n-1, n, n+1, with 0..3 stray bytes
	for _, n := range []int{0, 1, 2, 7} {
		for _, dc := range []int{-1, 0, 1} {
			for stray := 0; stray < 4; stray++ {
				if n+dc < 0 {
					continue
				}
				b := append([]byte{}, magic...)
				b = binary.LittleEndian.AppendUint64(b, 432000)
				b = binary.LittleEndian.AppendUint64(b, 432000+50)
				b = binary.LittleEndian.AppendUint64(b, 1)
				b = binary.LittleEndian.AppendUint64(b, uint64(n+dc))
				for i := 0; i < n; i++ {
					b = binary.LittleEndian.AppendUint32(b, uint32(1700000000+i))
				}
				b = append(b, rng.Bytes(stray)...)
				ops = append(ops, fmt.Sprintf("bt %s get %d", zz.Hex(b), 432000+n-1), fmt.Sprintf("bt %s get %d", zz.Hex(b), 432000+n+dc))
				s.Count("boundary:capacity-vs-values")
			}
		}
	}
	// header fields cut inside: every prefix of a small valid file
	{
		idx := NewIndexer(432000, 432010, 3)
		data, _ := idx.MarshalBinary()
		for cut := 0; cut <= len(data); cut++ {
			ops = append(ops, fmt.Sprintf("bt %s get %d", zz.Hex(data[:cut]), 432001))
			s.Count("boundary:every-prefix")
		}
	}
	// one real full-epoch file and its capacity field
	if thorough {
		idx := NewForEpoch(5)
		for i := uint64(0); i < 432000; i += 1000 {
			idx.Set(5*432000+i, 1700000000)
		}
		data, _ := idx.MarshalBinary()
		ops = append(ops, fmt.Sprintf("bt %s get %d", zz.Hex(data), 5*432000+1000))
		for _, v := range []uint64{0, 1, 431999, 432001, 1 << 27, 1 << 62, ^uint64(0)} {
			m := append([]byte(nil), data...)
			binary.LittleEndian.PutUint64(m[38:], v)
			ops = append(ops, fmt.Sprintf("bt %s get %d", zz.Hex(m), 5*432000+431999))
			s.Count("real-writer-file-mutants")
		}
	}
	return ops
}

func TestVerifC12(t *testing.T) {
	if c12.IsChild() {
		c12.Serve(c12ExecBT)
		return
	}
	r := c12.NewRun("TestVerifC12")
	defer r.Close()
	r.Print = func(op string, res c12.Result) string {
		if res.Class == "ok" || res.Class == "err" {
			return res.Answer
		}
		return res.Class
	}
	ops := c12.ReplayOps()
	if ops == nil {
		ops = c12GenBT(zz.NewRNG(zz.Seed()), r.S, zz.Thorough())
	}
	for _, op := range ops {
		r.Exec(op)
	}
}

package tooling

// C14 harness, run "tooling" (injected by /verif/check with `go test -overlay`; nothing is written to /repo).
// A writer that follows the comment of ledger.ipldsch splits payloads into real ipldbindcode.DataFrame nodes
// (MarshalCBOR, CIDv1 dag-cbor sha2-256), every single-frame fault is injected, and every frame graph goes
// through the real LoadDataFromDataFrames.  The op lines carry the frame graph; the Lean model answers the same
// lines; the oracle (zzc14.Expect) is independent of the model.

import (
	"fmt"
	"os"
	"strconv"
	"strings"
	"testing"

	"github.com/rpcpool/yellowstone-faithful/ipld/ipldbindcode"
	c14 "github.com/rpcpool/yellowstone-faithful/zzc14"
	zz "github.com/rpcpool/yellowstone-faithful/zzverif"
)

type c14Interp struct {
	s       *zz.Session
	w       *c14.World
	exp     c14.Expect
	caseOps []string
	flag    bool
}

func (in *c14Interp) loadAnswer(id int) string {
	first, ok := in.w.Frame(id)
	if !ok {
		return "nofirst"
	}
	return zz.Guard(func() string {
		b, err := LoadDataFromDataFrames(first, in.w.Getter())
		if err != nil {
			return "err:" + c14.Classify(err)
		}
		return "ok " + c14.Digest(b)
	})
}

// exec returns the op line to record (loadnd carries the real answer) and the canonical answer
func (in *c14Interp) exec(line string) (string, string) {
	w := strings.Fields(line)
	if w[0] == "case" {
		in.caseOps = nil
	}
	record := func(l string) { in.caseOps = append(in.caseOps, l) }
	switch w[0] {
	case "case":
		record(line)
		in.w = c14.NewWorld()
		in.exp = c14.Expect{}
		in.flag = false
		ipldbindcode.DisableHashVerification = false
		return line, "ok"
	case "flag":
		// the process-wide switch `index gsfa` sets (default flags: true) and never resets
		record(line)
		if len(w) != 3 || w[1] != "disableHashVerification" {
			return line, "bad-op"
		}
		in.flag = w[2] == "true"
		ipldbindcode.DisableHashVerification = in.flag
		return line, "ok"
	case "frame":
		record(line)
		f, err := c14.ParseSpec(w)
		if err != nil {
			return line, "bad-op"
		}
		if err := in.w.Define(f); err != nil {
			return line, "encode-error"
		}
		return line, "ok"
	case "del":
		record(line)
		id, _ := strconv.Atoi(w[1])
		in.w.Delete(id)
		return line, "ok"
	case "expect":
		record(line)
		in.exp = c14.ParseExpect(w)
		return line, "ok"
	case "load", "loadnd":
		id, _ := strconv.Atoi(w[1])
		ans := in.loadAnswer(id)
		rec := line
		out := ans
		if w[0] == "loadnd" {
			seq := "0"
			if len(w) > 2 {
				seq = w[2]
			}
			rec = fmt.Sprintf("loadnd %d %s %s", id, seq, ans)
			out = "member"
			in.s.Count("loadnd:" + strings.Fields(ans)[0])
		}
		record(rec)
		in.s.Count("answer:" + strings.Fields(ans)[0])
		if v := in.exp.Judge(ans); v != "" {
			key := "C14:" + in.exp.Mode + ":" + in.exp.Fault
			if in.flag {
				key = c14.FlagKey
				v = "with ipldbindcode.DisableHashVerification set (the state `index gsfa` leaves behind): " + v
			}
			in.s.Violation(v, key, in.s.Replay(in.caseOps))
		}
		if ans == "panic" {
			in.s.Violation("LoadDataFromDataFrames panics: "+zz.LastPanic, "C14:panic:"+in.exp.Fault, in.s.Replay(in.caseOps))
		}
		in.exp = c14.Expect{}
		return rec, out
	case "verify":
		record(line)
		h, _ := strconv.ParseUint(w[1], 10, 64)
		if err := ipldbindcode.VerifyHash(zz.Unhex(w[2]), h); err != nil {
			return line, "err"
		}
		return line, "ok"
	case "sums":
		record(line)
		b := zz.Unhex(w[1])
		return line, fmt.Sprintf("%d %d", c14.Crc(b), c14.Fnv(b))
	}
	return line, "bad-op"
}

func c14Generate(g *c14.Gen, s *zz.Session, thorough bool) {
	// --- the checksums themselves (Lean CRC-64/ISO and FNV-1a-64 against hash/crc64, hash/fnv and VerifyHash)
	g.Emit("case run=tooling checksums")
	for _, n := range []int{0, 1, 2, 7, 8, 9, 63, 64, 65, 255, 256, 1000, 2047, 2048, 2049, 70000} {
		b := g.R.Bytes(n)
		g.Emit("sums %s", zz.Hex(b))
		g.Emit("verify %d %s", c14.Crc(b), zz.Hex(b))
		g.Emit("verify %d %s", c14.Fnv(b), zz.Hex(b))
		g.Emit("verify %d %s", c14.Crc(b)+1, zz.Hex(b))
		g.Emit("verify %d %s", g.R.U64(), zz.Hex(b))
	}
	g.Emit("sums %s", zz.Hex([]byte("123456789")))

	caseNo, seq := 0, 0
	load := func(op string, id int) {
		seq++
		g.Emit("%s %d %d", op, id, seq)
	}
	one := func(size, k, F int, hk string, tot bool, order, chunking string, faultLimit int) {
		caseNo++
		b := g.R.Bytes(size)
		g.Emit("case run=tooling #%d size=%d k=%d F=%d hash=%s total=%v order=%s chunks=%s", caseNo, size, k, F, hk, tot, order, chunking)
		p := g.Layout(b, k, F, hk, tot, order, chunking)
		s.Count("layout:hash=" + hk)
		s.Count(fmt.Sprintf("layout:total=%v", tot))
		s.Count("layout:order=" + order)
		switch {
		case k == 1:
			s.Count("boundary:k=1")
		case k == 60:
			s.Count("boundary:k=60")
		case F == 1:
			s.Count("boundary:F=1(chain)")
		case F >= k-1:
			s.Count("boundary:F>=k-1(star)")
		case (k-1)%F == 0:
			s.Count("boundary:last-group-full")
		}
		if size == 0 {
			s.Count("boundary:size=0")
		}
		if size < k {
			s.Count("boundary:size<k(empty-frames)")
		}
		if size >= 200*1024 {
			s.Count("boundary:size=200KiB")
		}
		g.Emit("expect exact unfaulted %s", c14.Digest(b))
		load("load", p.First())
		if faultLimit == 0 {
			return
		}
		// a second payload of the same shape whose frames get mixed in
		q := g.Layout(g.R.Bytes(size), k, F, hk, tot, order, chunking)
		g.Emit("expect exact unfaulted %s", c14.Digest(q.Bytes))
		load("load", q.First())
		for _, sc := range g.Faults(p, q, faultLimit) {
			s.Count("fault:" + sc.Name)
			for _, l := range sc.Setup {
				g.Emit("%s", l)
			}
			g.Emit("expect %s %s %s", sc.Mode, sc.Name, c14.Digest(b))
			if sc.ND {
				load("loadnd", sc.First)
			} else {
				load("load", sc.First)
			}
			for _, l := range sc.Restore {
				g.Emit("%s", l)
			}
		}
		// after all faults were undone the payload reassembles again
		g.Emit("expect exact restored %s", c14.Digest(b))
		load("load", p.First())
	}

	hashKinds := []string{"crc", "fnv", "none"}
	orders := []string{"asc", "desc", "shuffle"}
	// the example of the schema comment itself: 10 frames, fan-out 5
	one(1000, 10, 5, "crc", true, "asc", "even", -1)
	// boundary-directed: every k in 1..12 and the ends, every fan-out 1..10, each with directed sizes
	ks := []int{1, 2, 3, 4, 5, 6, 7, 8, 9, 10, 11, 12, 20, 31, 59, 60}
	i := 0
	for _, k := range ks {
		for _, size := range g.Sizes(k, 3000) {
			F := 1 + i%10
			hk := hashKinds[i%3]
			tot := i%4 != 3
			if hk == "none" && i%2 == 0 {
				tot = false
			}
			lim := 6
			if thorough {
				lim = -1
			}
			chunking := "even"
			if i%3 == 1 && size > 0 {
				chunking = "random"
			}
			one(size, k, F, hk, tot, orders[i%3], chunking, lim)
			i++
		}
	}
	// every fan-out against a few frame counts, all faults
	for F := 1; F <= 10; F++ {
		for _, k := range []int{F, F + 1, F + 2, 2 * F, 2*F + 1, 3*F + 1} {
			if k < 2 || k > 60 {
				continue
			}
			one(10*k+g.R.Intn(50), k, F, hashKinds[(F+k)%2], true, orders[(F+k)%3], "even", -1)
		}
	}
	// large payloads (up to 200 KiB): few faults each, the data volume is in the frames
	big := []int{200 * 1024}
	if thorough {
		big = []int{200 * 1024, 200*1024 - 1, 131072, 65536, 100000}
	}
	for bi, size := range big {
		one(size, []int{60, 7, 13, 33, 2}[bi%5], []int{10, 3, 1, 7, 5}[bi%5], hashKinds[bi%2], true, orders[bi%3], []string{"even", "random"}[bi%2], 5)
	}
	one(200*1024, 1, 1, "crc", true, "asc", "even", 3)
	// configuration phase: the process-wide switch that `index gsfa` (default flags) sets and leaves set;
	// LoadDataFromDataFrames must keep verifying whatever its value
	flagCase := func(size, k, F int, hk string, order, chunking string) {
		caseNo++
		b := g.R.Bytes(size)
		g.Emit("case run=tooling #%d flag-phase size=%d k=%d F=%d hash=%s order=%s chunks=%s", caseNo, size, k, F, hk, order, chunking)
		g.Emit("flag disableHashVerification true")
		p := g.Layout(b, k, F, hk, true, order, chunking)
		q := g.Layout(g.R.Bytes(size), k, F, hk, true, order, chunking)
		g.Emit("expect exact unfaulted %s", c14.Digest(b))
		load("load", p.First())
		for _, sc := range g.ContentFaults(p, q) {
			s.Count("flag-phase:fault:" + sc.Name)
			for _, l := range sc.Setup {
				g.Emit("%s", l)
			}
			g.Emit("expect %s %s %s", sc.Mode, sc.Name, c14.Digest(b))
			load("load", sc.First)
			for _, l := range sc.Restore {
				g.Emit("%s", l)
			}
		}
		g.Emit("flag disableHashVerification false")
	}
	for fi, k := range []int{1, 2, 5, 10, 33, 60} {
		for _, hk := range []string{"crc", "fnv"} {
			flagCase(40*k+fi, k, 1+(fi*3)%10, hk, orders[fi%3], []string{"even", "random"}[fi%2])
		}
	}
	flagCase(51200, 10, 5, "crc", "asc", "even")
	flagCase(51200, 10, 5, "fnv", "shuffle", "even")
	if thorough {
		for r := 0; r < 150; r++ {
			flagCase(1+g.R.Intn(5000), 1+g.R.Intn(60), 1+g.R.Intn(10), hashKinds[g.R.Intn(2)], orders[g.R.Intn(3)], []string{"even", "random"}[g.R.Intn(2)])
		}
	}
	// random part
	n := 25
	if thorough {
		n = 3000
	}
	for r := 0; r < n; r++ {
		k := 1 + g.R.Intn(60)
		F := 1 + g.R.Intn(10)
		size := g.R.Intn(6000)
		if g.R.Intn(10) == 0 {
			size = g.R.Intn(60000)
		}
		lim := 8
		if thorough {
			lim = 14
		}
		one(size, k, F, hashKinds[g.R.Intn(3)], g.R.Intn(5) != 0, orders[g.R.Intn(3)], []string{"even", "random"}[g.R.Intn(2)], lim)
	}
}

func TestVerifC14(t *testing.T) {
	s := zz.NewSession()
	defer s.Close()
	in := &c14Interp{s: s, w: c14.NewWorld()}
	savedFlag := ipldbindcode.DisableHashVerification
	defer func() { ipldbindcode.DisableHashVerification = savedFlag }()
	var ops []string
	if rp := zz.ReplayFile(); rp != "" {
		data, err := os.ReadFile(rp)
		if err != nil {
			t.Fatal(err)
		}
		ops = c14.ReplayLines(string(data), "tooling")
	} else {
		g := &c14.Gen{R: zz.NewRNG(zz.Seed())}
		c14Generate(g, s, zz.Thorough())
		ops = g.Ops
	}
	for _, op := range ops {
		rec, out := in.exec(op)
		s.Op(rec, out, strings.HasPrefix(out, "ok ") || out == "member")
	}
}

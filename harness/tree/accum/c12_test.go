package accum

// C12 harness for the block accumulator (injected by /verif/check with `go test -overlay`; nothing is written to /repo).
//
//	accum <car hex>    ObjectAccumulator over the CAR (flush on Block); the callback decodes the block and runs
//	                   ObjectsToTransactionsAndMetadata over its children.  Both dispatch on the kind byte data[1]
//	                   of every object.                                                         -> nopanic
//	o2t <object hex>…  ObjectsToTransactionsAndMetadata on the given children directly             -> nopanic

import (
	"bytes"
	"context"
	"crypto/sha256"
	"io"
	"strings"
	"testing"

	"github.com/ipfs/go-cid"
	carv1 "github.com/ipld/go-car"
	"github.com/ipld/go-car/util"
	cidlink "github.com/ipld/go-ipld-prime/linking/cid"
	"github.com/rpcpool/yellowstone-faithful/carreader"
	"github.com/rpcpool/yellowstone-faithful/ipld/ipldbindcode"
	"github.com/rpcpool/yellowstone-faithful/iplddecoders"
	c12 "github.com/rpcpool/yellowstone-faithful/zzc12"
	zz "github.com/rpcpool/yellowstone-faithful/zzverif"
)

func c12ExecAccum(op string) string {
	w := strings.Fields(op)
	switch w[0] {
	case "accum":
		rd, err := carreader.New(io.NopCloser(bytes.NewReader(zz.Unhex(w[1]))))
		if err != nil {
			return "err"
		}
		inner := ""
		oa := NewObjectAccumulator(rd, iplddecoders.KindBlock, func(head *ObjectWithMetadata, children []ObjectWithMetadata) (cbErr error) {
			// the callback runs on the flusher goroutine, whose panics nothing recovers: report them as the answer
			defer func() {
				if r := recover(); r != nil {
					inner = "callback-panic"
				}
			}()
			block := &ipldbindcode.Block{}
			if head != nil {
				if b, err := iplddecoders.DecodeBlock(head.ObjectData); err == nil {
					block = b
				}
			}
			txs, err := ObjectsToTransactionsAndMetadata(block, children)
			if err == nil {
				PutTransactionWithSlotSlice(txs)
			}
			return nil
		})
		err = oa.Run(context.Background())
		if inner != "" {
			panic("ObjectsToTransactionsAndMetadata panicked on the flusher goroutine")
		}
		if err != nil {
			return "err"
		}
		return "ok"
	case "o2t":
		// the children as the accumulator would hand them over, one object per word
		var objs []ObjectWithMetadata
		for _, h := range w[1:] {
			d := zz.Unhex(h)
			objs = append(objs, ObjectWithMetadata{Cid: c12AccCid(d), ObjectData: d})
		}
		txs, err := ObjectsToTransactionsAndMetadata(&ipldbindcode.Block{}, objs)
		if err != nil {
			return "err"
		}
		PutTransactionWithSlotSlice(txs)
		return "ok"
	}
	return "bad-op"
}

func c12AccCid(data []byte) cid.Cid {
	h := sha256.Sum256(data)
	c, err := cid.Cast(append([]byte{0x01, 0x71, 0x12, 0x20}, h[:]...))
	if err != nil {
		panic(err)
	}
	return c
}

func c12AccCar(objs [][]byte) []byte {
	var car bytes.Buffer
	root := c12AccCid([]byte("none"))
	if len(objs) > 0 {
		root = c12AccCid(objs[len(objs)-1])
	}
	if err := carv1.WriteHeader(&carv1.CarHeader{Roots: []cid.Cid{root}, Version: 1}, &car); err != nil {
		panic(err)
	}
	for _, o := range objs {
		if err := util.LdWrite(&car, c12AccCid(o).Bytes(), o); err != nil {
			panic(err)
		}
	}
	return car.Bytes()
}

func c12GenAccum(rng *zz.RNG, s *zz.Session, thorough bool) []string {
	var ops []string
	link := func(b []byte) cidlink.Link { return cidlink.Link{Cid: c12AccCid(b)} }
	txdata := append([]byte{1}, rng.Bytes(64+40)...)
	tx := ipldbindcode.Transaction{Kind: 0, Data: ipldbindcode.DataFrame{Kind: 6, Data: txdata}, Metadata: ipldbindcode.DataFrame{Kind: 6, Data: nil}, Slot: 3024000}
	txb, err := tx.MarshalCBOR()
	if err != nil {
		panic(err)
	}
	en := ipldbindcode.Entry{Kind: 1, NumHashes: 1, Hash: rng.Bytes(32), Transactions: ipldbindcode.List__Link{link(txb)}}
	enb, _ := en.MarshalCBOR()
	rw := ipldbindcode.Rewards{Kind: 5, Slot: 3024000, Data: ipldbindcode.DataFrame{Kind: 6, Data: nil}}
	rwb, _ := rw.MarshalCBOR()
	bl := ipldbindcode.Block{Kind: 2, Slot: 3024000, Entries: ipldbindcode.List__Link{link(enb)}, Meta: ipldbindcode.SlotMeta{Parent_slot: 3023999, Blocktime: 1700000000}, Rewards: link(rwb)}
	blb, err := bl.MarshalCBOR()
	if err != nil {
		panic(err)
	}
	df := ipldbindcode.DataFrame{Kind: 6, Data: []byte("abc")}
	dfb, _ := df.MarshalCBOR()
	cars := [][][]byte{
		{txb, enb, rwb, blb},
		{txb, {}, enb, rwb, blb},
		{txb, {0x80}, enb, rwb, blb},
		{{0x80}},
		{{}},
		{dfb, txb, {0x81, 0x06}, blb, {0x81}},
		{},
	}
	for _, objs := range cars {
		ops = append(ops, "accum "+zz.Hex(c12AccCar(objs)))
		s.Count("boundary:tiny-object-car")
	}
	for _, tiny := range [][]byte{{}, {0x80}, {0x81, 0x00}, {0x81, 0x06}} {
		ops = append(ops, "o2t "+zz.Hex(dfb)+" "+zz.Hex(tiny)+" "+zz.Hex(txb), "o2t "+zz.Hex(tiny))
	}
	ops = append(ops, "o2t "+zz.Hex(dfb)+" "+zz.Hex(txb))
	nb, nr := 150, 30
	if thorough {
		nb, nr = 600, 200
	}
	for _, mu := range c12.Mutate(rng, c12AccCar(cars[0]), nil, nb, nr, s.Count) {
		ops = append(ops, "accum "+zz.Hex(mu.Data))
	}
	return ops
}

func TestVerifC12(t *testing.T) {
	if c12.IsChild() {
		c12.Serve(c12ExecAccum)
		return
	}
	r := c12.NewRun("TestVerifC12")
	defer r.Close()
	r.Print = func(op string, res c12.Result) string {
		if res.Class == "ok" || res.Class == "err" {
			return "nopanic"
		}
		return res.Class
	}
	ops := c12.ReplayOps()
	if ops == nil {
		ops = c12GenAccum(zz.NewRNG(zz.Seed()), r.S, zz.Thorough())
	}
	for _, op := range ops {
		r.Exec(op)
	}
}

package accum

// C15 harness (injected by /verif/check with `go test -overlay`; nothing is written to /repo).
//
// Generates CAR files made of real ledger nodes (encoded with the repository's own MarshalCBOR), runs the real
// ObjectAccumulator over them with callbacks of different speeds and GOMAXPROCS 1..16, records what every
// callback received (canonical line compared with the Lean model `Accum.run`) and evaluates the property's own
// oracle: ground truth = the sections of the file found by a trivial independent walker (and, when generating,
// the generator's own bookkeeping), independent of the model.
//
// op lines
//   case <name…>                                   -> ok
//   car <hex of the whole CAR file>                -> car hdr=<header bytes> secs=<n> xx=<xxhash64 of file>
//   run <ignore> <flush> <skip> <mode> <procs> <seed>
//                                                  -> g=<groups> <parent>[child,…];…     (hashed when long) | panic | err
//      ignore = comma separated kind bytes or "-"; object = <kind>:<cid hex>@<offset>+<sectionLength>#<xxhash64 of data>
//      mode: 0 instantaneous callback, 1 slow callback, 2 randomly delayed callback, 3 slow reader,
//            4 both randomly delayed, 5 first callback blocks (queue fills), then instantaneous;
//      seed: delays are drawn from it; bit 0 set = the callback appends the parent to `children` in place, as
//      cmd-car-split.go does.  The ANSWER never depends on mode/procs/seed (that is the property).

import (
	"bytes"
	"context"
	"encoding/binary"
	"fmt"
	"io"
	"os"
	"runtime"
	"sort"
	"strconv"
	"strings"
	"sync/atomic"
	"testing"
	"time"

	"github.com/cespare/xxhash/v2"
	"github.com/ipfs/go-cid"
	carv1 "github.com/ipld/go-car"
	"github.com/ipld/go-car/util"
	"github.com/ipld/go-ipld-prime/datamodel"
	cidlink "github.com/ipld/go-ipld-prime/linking/cid"
	"github.com/multiformats/go-multicodec"
	"github.com/rpcpool/yellowstone-faithful/carreader"
	"github.com/rpcpool/yellowstone-faithful/ipld/ipldbindcode"
	"github.com/rpcpool/yellowstone-faithful/iplddecoders"
	zz "github.com/rpcpool/yellowstone-faithful/zzverif"
)

// ---------------------------------------------------------------------------------------------
// independent walker: the sections of a CAR file (uvarint length, 36-byte CID, data)

type c15Sec struct {
	cid    []byte
	data   []byte
	off    uint64
	seclen uint64
	kind   int // -1 when the node has fewer than two bytes
}

func c15Walk(car []byte) (hdr uint64, secs []c15Sec, ok bool) {
	hl, w := binary.Uvarint(car)
	if w <= 0 || uint64(w)+hl > uint64(len(car)) {
		return 0, nil, false
	}
	pos := uint64(w) + hl
	hdr = pos
	for pos < uint64(len(car)) {
		l, w := binary.Uvarint(car[pos:])
		if w <= 0 || l < 36 || pos+uint64(w)+l > uint64(len(car)) {
			return hdr, secs, false
		}
		body := car[pos+uint64(w) : pos+uint64(w)+l]
		s := c15Sec{cid: body[:36], data: body[36:], off: pos, seclen: uint64(w) + l, kind: -1}
		if len(s.data) >= 2 {
			s.kind = int(s.data[1])
		}
		secs = append(secs, s)
		pos += uint64(w) + l
	}
	return hdr, secs, true
}

// ---------------------------------------------------------------------------------------------
// what one callback received

type c15Obj struct {
	cid    []byte
	off    uint64
	seclen uint64
	kind   int
	dhash  uint64
	dlen   int
}

type c15Call struct {
	parent   *c15Obj
	children []c15Obj
	// retained references, re-read at the end of the run
	pRef *ObjectWithMetadata
	cRef []ObjectWithMetadata
}

func c15Snap(o *ObjectWithMetadata) c15Obj {
	k := -1
	if len(o.ObjectData) >= 2 {
		k = int(o.ObjectData[1])
	}
	return c15Obj{cid: o.Cid.Bytes(), off: o.Offset, seclen: o.SectionLength, kind: k,
		dhash: xxhash.Sum64(o.ObjectData), dlen: len(o.ObjectData)}
}

func (o c15Obj) String() string {
	return fmt.Sprintf("%d:%x@%d+%d#%016x", o.kind, o.cid, o.off, o.seclen, o.dhash)
}

func (a c15Obj) eq(b c15Obj) bool {
	return bytes.Equal(a.cid, b.cid) && a.off == b.off && a.seclen == b.seclen && a.kind == b.kind && a.dhash == b.dhash && a.dlen == b.dlen
}

func c15Canon(calls []c15Call) string {
	var sb strings.Builder
	n := 0
	for i, c := range calls {
		if i > 0 {
			sb.WriteByte(';')
		}
		if c.parent == nil {
			sb.WriteString("nil")
		} else {
			sb.WriteString(c.parent.String())
			n++
		}
		sb.WriteByte('[')
		for j, ch := range c.children {
			if j > 0 {
				sb.WriteByte(',')
			}
			sb.WriteString(ch.String())
			n++
		}
		sb.WriteByte(']')
	}
	s := sb.String()
	if len(s) > 6000 {
		return fmt.Sprintf("g=%d o=%d xx=%016x", len(calls), n, xxhash.Sum64String(s))
	}
	return fmt.Sprintf("g=%d %s", len(calls), s)
}

// slowReader hands out the file in small pieces, pausing now and then: a slow reading goroutine.
type c15SlowReader struct {
	data  []byte
	pos   int
	rng   *zz.RNG
	reads int
}

func (r *c15SlowReader) Read(p []byte) (int, error) {
	if r.pos >= len(r.data) {
		return 0, io.EOF
	}
	n := 1 + r.rng.Intn(700)
	if n > len(p) {
		n = len(p)
	}
	if n > len(r.data)-r.pos {
		n = len(r.data) - r.pos
	}
	copy(p, r.data[r.pos:r.pos+n])
	r.pos += n
	r.reads++
	if r.reads < 400 {
		switch r.rng.Intn(4) {
		case 0:
			time.Sleep(time.Duration(r.rng.Intn(60)) * time.Microsecond)
		case 1:
			runtime.Gosched()
		}
	}
	return n, nil
}
func (r *c15SlowReader) Close() error { return nil }

// ---------------------------------------------------------------------------------------------

type c15Interp struct {
	s        *zz.Session
	car      []byte
	hdr      uint64
	secs     []c15Sec
	carOK    bool
	caseName string
	caseOps  []string
}

func c15ParseKinds(w string) []int {
	if w == "-" {
		return nil
	}
	var out []int
	for _, p := range strings.Split(w, ",") {
		v, _ := strconv.Atoi(p)
		out = append(out, v)
	}
	return out
}

func c15Has(ks []int, k int) bool {
	for _, x := range ks {
		if x == k {
			return true
		}
	}
	return false
}

type c15RunResult struct {
	calls      []c15Call
	err        error
	panicked   bool
	panicMsg   string
	concurrent bool
	maxQueue   int
	queueCap   int
}

// realRun executes the real accumulator once.
func (in *c15Interp) realRun(ig []int, flush int, skip uint64, mode, procs int, seed uint64) (res c15RunResult, hung bool) {
	old := runtime.GOMAXPROCS(procs)
	defer runtime.GOMAXPROCS(old)
	for attempt := 0; attempt < 2; attempt++ {
		done := make(chan c15RunResult, 1)
		go func() { done <- in.realRunOnce(ig, flush, skip, mode, seed) }()
		budget := 60 * time.Second
		if attempt == 1 {
			budget = 600 * time.Second
		}
		select {
		case r := <-done:
			return r, false
		case <-time.After(budget):
		}
	}
	return c15RunResult{}, true
}

func (in *c15Interp) realRunOnce(ig []int, flush int, skip uint64, mode int, seed uint64) (res c15RunResult) {
	rng := zz.NewRNG(seed ^ 0xc15)
	appendInPlace := seed&1 == 1
	var rc io.ReadCloser
	if mode == 3 || mode == 4 {
		rc = &c15SlowReader{data: in.car, rng: zz.NewRNG(seed ^ 0x5107)}
	} else {
		rc = io.NopCloser(bytes.NewReader(in.car))
	}
	rd, err := carreader.New(rc)
	if err != nil {
		res.err = err
		return
	}
	var inCb int32
	ncb := 0
	var oa *ObjectAccumulator
	cb := func(parent *ObjectWithMetadata, children []ObjectWithMetadata) error {
		if atomic.AddInt32(&inCb, 1) != 1 {
			res.concurrent = true
		}
		defer atomic.AddInt32(&inCb, -1)
		ncb++
		defer func() {
			// evidence only: how far the reader got ahead of us (never part of an answer)
			if l := len(oa.flushQueue); l > res.maxQueue {
				res.maxQueue = l
			}
		}()
		// delays first (so that the producer can run ahead while we hold the group), then the snapshot
		switch mode {
		case 1:
			if ncb <= 150 {
				time.Sleep(40 * time.Microsecond)
			}
		case 2, 4:
			if ncb <= 600 {
				switch rng.Intn(5) {
				case 0:
					time.Sleep(time.Duration(rng.Intn(80)) * time.Microsecond)
				case 1:
					runtime.Gosched()
				case 2:
					x := 0
					for i := 0; i < 200+rng.Intn(3000); i++ {
						x += i
					}
					_ = x
				}
			}
		case 5:
			if ncb == 1 {
				time.Sleep(25 * time.Millisecond)
			}
		}
		c := c15Call{pRef: parent, cRef: children}
		if parent != nil {
			p := c15Snap(parent)
			c.parent = &p
		}
		c.children = make([]c15Obj, len(children))
		for i := range children {
			c.children[i] = c15Snap(&children[i])
		}
		res.calls = append(res.calls, c)
		if appendInPlace && parent != nil {
			// what cmd-car-split.go does with the delivered slice
			family := append(children, *parent)
			_ = family
		}
		return nil
	}
	kinds := make([]iplddecoders.Kind, len(ig))
	for i, k := range ig {
		kinds[i] = iplddecoders.Kind(k)
	}
	oa = NewObjectAccumulator(rd, iplddecoders.Kind(flush), cb, kinds...)
	res.queueCap = cap(oa.flushQueue)
	if skip > 0 {
		oa.SetSkip(skip)
	}
	func() {
		defer func() {
			if r := recover(); r != nil {
				res.panicked = true
				res.panicMsg = fmt.Sprint(r)
			}
		}()
		res.err = oa.Run(context.Background())
	}()
	return
}

func (in *c15Interp) exec(line string) (string, bool) {
	w := strings.Fields(line)
	if w[0] == "case" {
		in.caseOps = nil
	}
	in.caseOps = append(in.caseOps, line)
	switch w[0] {
	case "case":
		in.caseName = strings.Join(w[1:], " ")
		return "ok", false
	case "car":
		in.car = zz.Unhex(w[1])
		in.hdr, in.secs, in.carOK = c15Walk(in.car)
		// the real reader's view of the header
		rd, err := carreader.New(io.NopCloser(bytes.NewReader(in.car)))
		if err != nil {
			in.carOK = false
			return "err", false
		}
		hs, err := rd.HeaderSize()
		if err != nil {
			in.carOK = false
			return "err", false
		}
		if !in.carOK {
			return "err", false
		}
		if hs != in.hdr {
			in.s.Count("header-reencoded-size-differs")
		}
		in.s.Count("cars")
		in.s.Add("sections", len(in.secs))
		return fmt.Sprintf("car hdr=%d secs=%d xx=%016x", hs, len(in.secs), xxhash.Sum64(in.car)), true
	case "run":
		if !in.carOK {
			return "nocar", false
		}
		ig := c15ParseKinds(w[1])
		flush, _ := strconv.Atoi(w[2])
		skip, _ := strconv.ParseUint(w[3], 10, 64)
		mode, _ := strconv.Atoi(w[4])
		procs, _ := strconv.Atoi(w[5])
		seed, _ := strconv.ParseUint(w[6], 10, 64)
		res, hung := in.realRun(ig, flush, skip, mode, procs, seed)
		in.s.Count(fmt.Sprintf("mode-%d", mode))
		in.s.Count(fmt.Sprintf("procs-%02d", procs))
		if hung {
			in.s.Violation("Run does not return (twice, the second time alone with a 10x budget)",
				fmt.Sprintf("C15:run-hang:case=%s", in.caseName), in.s.Replay(in.caseOps))
			return "hang", false
		}
		// a node with fewer than two bytes is not a ledger node: Run must fail with an error (GetKind), never panic
		short := false
		for i, s := range in.secs {
			if uint64(i) >= skip && s.kind < 0 {
				short = true
			}
		}
		if res.panicked {
			in.s.Count("run-panicked")
			in.s.Violation("Run panics: "+res.panicMsg,
				fmt.Sprintf("C15:run-panic:case=%s", in.caseName), in.s.Replay(in.caseOps))
			return "panic", false
		}
		if res.err != nil {
			if short {
				in.s.Count("run-error-on-short-node")
			} else {
				in.s.Violation("Run fails on a well-formed CAR: "+res.err.Error(),
					fmt.Sprintf("C15:run-error:case=%s", in.caseName), in.s.Replay(in.caseOps))
			}
			return "err", false
		}
		if short {
			in.s.Violation("Run accepts a CAR with an object shorter than two bytes (it has no kind)",
				fmt.Sprintf("C15:short-node-accepted:case=%s", in.caseName), in.s.Replay(in.caseOps))
		}
		if res.maxQueue == res.queueCap {
			in.s.Count("runs-with-full-queue")
		}
		if res.maxQueue == 0 {
			in.s.Count("runs-with-consumer-never-behind")
		}
		in.oracle(line, ig, flush, skip, mode, procs, &res)
		in.s.Add("callbacks", len(res.calls))
		return c15Canon(res.calls), len(res.calls) > 0
	}
	return "bad-op", false
}

// oracle: the property itself, from the file bytes and the section list only.
func (in *c15Interp) oracle(line string, ig []int, flush int, skip uint64, mode, procs int, res *c15RunResult) {
	tag := fmt.Sprintf("mode=%d", mode)
	viol := func(what, key string) {
		in.s.Violation(what+" ["+in.caseName+"; "+line[:min(len(line), 60)]+"]", "C15:"+key+":"+tag, in.s.Replay(in.caseOps))
	}
	if res.concurrent {
		viol("two callbacks were running at the same time", "concurrent-callbacks")
	}
	// expected member sequence: every section after the skipped ones that is of the flush kind or not ignored
	type exp struct {
		idx    int
		parent bool
	}
	var want []exp
	for i, s := range in.secs {
		if uint64(i) < skip {
			continue
		}
		if s.kind == flush {
			want = append(want, exp{i, true})
		} else if !c15Has(ig, s.kind) {
			want = append(want, exp{i, false})
		}
	}
	pos := 0
	bad := false
	check := func(o c15Obj, parent bool, gi int) {
		if bad {
			return
		}
		// (a) the object's own coordinates are true: the file bytes at [offset, offset+len) are its section
		if o.off+o.seclen > uint64(len(in.car)) || o.seclen == 0 {
			viol(fmt.Sprintf("delivered offset/length outside the file: %d+%d", o.off, o.seclen), "offset-outside")
			bad = true
			return
		}
		raw := in.car[o.off : o.off+o.seclen]
		l, w := binary.Uvarint(raw)
		if w <= 0 || uint64(w)+l != o.seclen || l < 36 || !bytes.Equal(raw[w:w+36], o.cid) ||
			xxhash.Sum64(raw[w+36:]) != o.dhash || len(raw[w+36:]) != o.dlen {
			viol(fmt.Sprintf("file[%d:%d+%d] is not the section of the delivered object %x", o.off, o.off, o.seclen, o.cid), "offset-wrong")
			bad = true
			return
		}
		// (b) order / exactly once / grouping
		if pos >= len(want) {
			viol(fmt.Sprintf("object delivered that should not be (group %d): %s", gi, o), "extra-object")
			bad = true
			return
		}
		e := want[pos]
		s := in.secs[e.idx]
		if s.off != o.off || s.seclen != o.seclen || !bytes.Equal(s.cid, o.cid) || e.parent != parent {
			viol(fmt.Sprintf("group %d: expected section #%d (off %d, parent=%v), got %s parent=%v", gi, e.idx, s.off, e.parent, o, parent), "wrong-object")
			bad = true
			return
		}
		pos++
	}
	for gi, c := range res.calls {
		for _, ch := range c.children {
			check(ch, false, gi)
		}
		if c.parent != nil {
			check(*c.parent, true, gi)
		} else {
			if gi != len(res.calls)-1 {
				viol(fmt.Sprintf("group %d has no parent but is not the last group", gi), "nil-parent-not-last")
				bad = true
			}
			if len(c.children) == 0 {
				viol("callback invoked with (nil, [])", "empty-callback")
				bad = true
			}
		}
		if bad {
			break
		}
	}
	if !bad && pos != len(want) {
		e := want[pos]
		viol(fmt.Sprintf("%d of %d expected objects delivered; first missing: section #%d at offset %d", pos, len(want), e.idx, in.secs[e.idx].off), "missing-object")
	}
	// (c) what was handed over stays what it was: re-read the retained slices at the end of the run
	for gi, c := range res.calls {
		same := true
		if c.parent != nil && !c15Snap(c.pRef).eq(*c.parent) {
			same = false
		}
		if len(c.cRef) != len(c.children) {
			same = false
		} else {
			for i := range c.cRef {
				if !c15Snap(&c.cRef[i]).eq(c.children[i]) {
					same = false
					break
				}
			}
		}
		if !same {
			viol(fmt.Sprintf("group %d changed after it was handed to the callback (buffer reused)", gi), "buffer-reused")
			break
		}
	}
	if len(res.calls) > 0 && res.calls[len(res.calls)-1].parent == nil {
		in.s.Count("trailing-group")
	}
	in.s.Count("oracle-evaluations")
}

// ---------------------------------------------------------------------------------------------
// generator

func c15pp[T any](v T) **T { p := &v; return &p }

func c15Cid(data []byte) cid.Cid {
	bd := cid.V1Builder{MhLength: -1, MhType: uint64(multicodec.Sha2_256), Codec: uint64(multicodec.DagCbor)}
	c, err := bd.Sum(data)
	if err != nil {
		panic(err)
	}
	return c
}

type c15Truth struct {
	off, seclen uint64
	cid         cid.Cid
	kind        int
}

type c15Car struct {
	rng   *zz.RNG
	body  bytes.Buffer
	truth []c15Truth // offsets relative to the body; fixed up in finish()
	ctr   int
	links map[int][]cid.Cid
	vw    map[int]int // varint widths seen
}

func newC15Car(rng *zz.RNG) *c15Car {
	return &c15Car{rng: rng, links: map[int][]cid.Cid{}, vw: map[int]int{}}
}

func (c *c15Car) putRaw(data []byte, kind int) cid.Cid {
	id := c15Cid(data)
	off := uint64(c.body.Len())
	if err := util.LdWrite(&c.body, id.Bytes(), data); err != nil {
		panic(err)
	}
	sl := uint64(c.body.Len()) - off
	c.truth = append(c.truth, c15Truth{off, sl, id, kind})
	c.vw[int(sl)-36-len(data)]++
	c.links[kind] = append(c.links[kind], id)
	return id
}

// putNonMinimal writes a section whose length prefix uses one byte more than necessary.
func (c *c15Car) putNonMinimal(data []byte, kind int) cid.Cid {
	id := c15Cid(data)
	off := uint64(c.body.Len())
	l := uint64(36 + len(data))
	var pre []byte
	for l >= 0x80 {
		pre = append(pre, byte(l)|0x80)
		l >>= 7
	}
	pre = append(pre, byte(l)|0x80, 0x00)
	c.body.Write(pre)
	c.body.Write(id.Bytes())
	c.body.Write(data)
	c.truth = append(c.truth, c15Truth{off, uint64(c.body.Len()) - off, id, kind})
	return id
}

func (c *c15Car) payload(size int) []byte {
	c.ctr++
	b := c.rng.Bytes(size)
	if size >= 4 {
		binary.LittleEndian.PutUint32(b, uint32(c.ctr))
	}
	return b
}

func c15Links(cs []cid.Cid) []datamodel.Link {
	out := make([]datamodel.Link, len(cs))
	for i, x := range cs {
		out[i] = cidlink.Link{Cid: x}
	}
	return out
}

func must(b []byte, err error) []byte {
	if err != nil {
		panic(err)
	}
	return b
}

// node builders: the repository's own encoders
func (c *c15Car) tx(slot, size int) cid.Cid {
	c.ctr++
	n := ipldbindcode.Transaction{Kind: 0,
		Data:     ipldbindcode.DataFrame{Kind: 6, Index: c15pp(0), Total: c15pp(1), Data: c.payload(size)},
		Metadata: ipldbindcode.DataFrame{Kind: 6, Index: c15pp(0), Total: c15pp(1), Data: nil},
		Slot:     slot, Index: c15pp(c.ctr)}
	return c.putRaw(must(n.MarshalCBOR()), 0)
}
func (c *c15Car) entry(txs []cid.Cid) cid.Cid {
	c.ctr++
	n := ipldbindcode.Entry{Kind: 1, NumHashes: c.ctr, Hash: c.payload(32), Transactions: c15Links(txs)}
	return c.putRaw(must(n.MarshalCBOR()), 1)
}
func (c *c15Car) block(slot int, entries []cid.Cid) cid.Cid {
	n := ipldbindcode.Block{Kind: 2, Slot: slot,
		Shredding: []ipldbindcode.Shredding{{EntryEndIdx: 0, ShredEndIdx: 0}},
		Entries:   c15Links(entries),
		Meta:      ipldbindcode.SlotMeta{Parent_slot: slot - 1, Blocktime: 1600000000 + slot, Block_height: c15pp(slot)},
		Rewards:   cidlink.Link{Cid: c15Cid([]byte("no rewards"))}}
	return c.putRaw(must(n.MarshalCBOR()), 2)
}
func (c *c15Car) subset(first, last int, blocks []cid.Cid) cid.Cid {
	n := ipldbindcode.Subset{Kind: 3, First: first, Last: last, Blocks: c15Links(blocks)}
	return c.putRaw(must(n.MarshalCBOR()), 3)
}
func (c *c15Car) epoch(e int, subsets []cid.Cid) cid.Cid {
	n := ipldbindcode.Epoch{Kind: 4, Epoch: e, Subsets: c15Links(subsets)}
	return c.putRaw(must(n.MarshalCBOR()), 4)
}
func (c *c15Car) rewards(slot, size int) cid.Cid {
	n := ipldbindcode.Rewards{Kind: 5, Slot: slot,
		Data: ipldbindcode.DataFrame{Kind: 6, Index: c15pp(0), Total: c15pp(1), Data: c.payload(size)}}
	return c.putRaw(must(n.MarshalCBOR()), 5)
}
func (c *c15Car) dataframe(size int) cid.Cid {
	c.ctr++
	n := ipldbindcode.DataFrame{Kind: 6, Hash: c15pp(c.ctr), Index: c15pp(1), Total: c15pp(2), Data: c.payload(size)}
	return c.putRaw(must(n.MarshalCBOR()), 6)
}

// child writes one non-block node of the given kind
func (c *c15Car) child(kind, slot int) {
	switch kind {
	case 0:
		c.tx(slot, c.rng.Intn(40))
	case 1:
		c.entry(nil)
	case 3:
		c.subset(slot, slot, nil)
	case 4:
		c.epoch(slot, nil)
	case 5:
		c.rewards(slot, c.rng.Intn(30))
	case 6:
		c.dataframe(c.rng.Intn(60))
	default:
		// not a ledger node: a two-element CBOR array whose second byte is `kind`
		c.ctr++
		d := []byte{0x84, byte(kind), 0x1a, 0, 0, 0, 0, 0xf6, 0xf6}
		binary.BigEndian.PutUint32(d[3:], uint32(c.ctr))
		c.putRaw(d, kind)
	}
}

// finish prepends a header with `nroots` roots and returns the file plus the absolute truth.
func (c *c15Car) finish(nroots int) ([]byte, []c15Truth) {
	var roots []cid.Cid
	for i := 0; i < nroots; i++ {
		roots = append(roots, c15Cid([]byte{byte(i), 'r'}))
	}
	var out bytes.Buffer
	if err := carv1.WriteHeader(&carv1.CarHeader{Roots: roots, Version: 1}, &out); err != nil {
		panic(err)
	}
	h := uint64(out.Len())
	out.Write(c.body.Bytes())
	tr := make([]c15Truth, len(c.truth))
	for i, t := range c.truth {
		t.off += h
		tr[i] = t
	}
	return out.Bytes(), tr
}

type c15Gen struct {
	rng  *zz.RNG
	ops  []string
	s    *zz.Session
	fail func(string)
}

func (g *c15Gen) emit(f string, a ...any) { g.ops = append(g.ops, fmt.Sprintf(f, a...)) }

func c15Ig(ks []int) string {
	if len(ks) == 0 {
		return "-"
	}
	p := make([]string, len(ks))
	for i, k := range ks {
		p[i] = strconv.Itoa(k)
	}
	return strings.Join(p, ",")
}

// emitCar writes the case + car lines after checking the generator's own bookkeeping against the walker.
func (g *c15Gen) emitCar(name string, c *c15Car, nroots int) int {
	file, truth := c.finish(nroots)
	_, secs, ok := c15Walk(file)
	if !ok || len(secs) != len(truth) {
		g.fail(fmt.Sprintf("generator: walker disagrees on %s: ok=%v %d vs %d sections", name, ok, len(secs), len(truth)))
		return 0
	}
	for i := range secs {
		if secs[i].off != truth[i].off || secs[i].seclen != truth[i].seclen || !bytes.Equal(secs[i].cid, truth[i].cid.Bytes()) || secs[i].kind != truth[i].kind {
			g.fail(fmt.Sprintf("generator: walker disagrees on %s at section %d", name, i))
			return 0
		}
	}
	for w, n := range c.vw {
		g.s.Add(fmt.Sprintf("gen-varint-width-%d", w), n)
	}
	g.s.Count(fmt.Sprintf("gen-roots-%d", nroots))
	g.emit("case %s secs=%d roots=%d", name, len(truth), nroots)
	g.emit("car %s", zz.Hex(file))
	return len(truth)
}

func (g *c15Gen) run(ig []int, flush int, skip int, mode, procs int) {
	g.emit("run %s %d %d %d %d %d", c15Ig(ig), flush, skip, mode, procs, g.rng.U64()%1000000007)
}

func (g *c15Gen) procs() int { return 1 + g.rng.Intn(16) }

var (
	c15IgGsfa  = []int{1, 5} // cmd-x-index-gsfa.go: KindEntry, KindRewards
	c15IgSplit = []int{4, 3} // cmd-car-split.go: KindEpoch, KindSubset
)

// realistic block DAG: txs (some with dataframes before them), entries, rewards, then the block
func (g *c15Gen) ledgerBlock(c *c15Car, slot, ntx int, bigTx bool) cid.Cid {
	var entries []cid.Cid
	var pend []cid.Cid
	for t := 0; t < ntx; t++ {
		if g.rng.Intn(5) == 0 {
			for d := 0; d < 1+g.rng.Intn(3); d++ {
				c.dataframe(20 + g.rng.Intn(150))
			}
		}
		size := g.rng.Intn(90)
		if bigTx && t == 0 {
			size = 17000 // three-byte section length
		}
		pend = append(pend, c.tx(slot, size))
		if len(pend) == 3 || t == ntx-1 {
			entries = append(entries, c.entry(pend))
			pend = nil
		}
	}
	if len(entries) == 0 {
		entries = append(entries, c.entry(nil))
	}
	if g.rng.Intn(3) == 0 {
		c.rewards(slot, g.rng.Intn(200))
	}
	return c.block(slot, entries)
}

func (g *c15Gen) allModes(ig []int, flush, skip int) {
	for mode := 0; mode <= 5; mode++ {
		g.run(ig, flush, skip, mode, g.procs())
	}
}

func (g *c15Gen) generate(thorough bool) {
	rng := g.rng
	// 1. shapes: blocks with 0..N children, with and without trailing objects, 1..4 roots
	for shape := 0; shape < 8; shape++ {
		c := newC15Car(rng)
		nblocks := []int{0, 1, 1, 2, 3, 5, 8, 13}[shape]
		var blocks []cid.Cid
		for b := 0; b < nblocks; b++ {
			nch := []int{0, 1, 2, 0, 7, 3, 0, 20}[(b+shape)%8]
			for i := 0; i < nch; i++ {
				c.child([]int{0, 6, 1, 5, 0, 0, 1}[rng.Intn(7)], 100+b)
			}
			blocks = append(blocks, c.block(100+b, nil))
		}
		switch shape % 4 {
		case 1: // the real tail: Subset + Epoch
			s := c.subset(100, 100+nblocks, blocks)
			c.epoch(1, []cid.Cid{s})
		case 2: // trailing transactions / entries after the last block
			c.tx(999, 10)
			c.entry(nil)
			c.dataframe(5)
		case 3:
			c.rewards(7, 3)
		}
		g.emitCar(fmt.Sprintf("shape-%d", shape), c, 1+shape%4)
		g.allModes(c15IgGsfa, 2, 0)
		g.allModes(c15IgSplit, 2, 0)
		g.run(nil, 2, 0, 0, g.procs())
		g.run(nil, 2, 0, 2, 1)
	}
	// 2. header only (no section at all)
	{
		c := newC15Car(rng)
		g.emitCar("empty", c, 1)
		g.run(c15IgGsfa, 2, 0, 0, 4)
		g.run(nil, 2, 0, 2, 1)
	}
	// 3. every ignore set (all subsets of the seven ledger kinds) on a CAR containing all kinds, flush on Block
	{
		c := newC15Car(rng)
		var blocks []cid.Cid
		for b := 0; b < 4; b++ {
			for _, k := range rng.Perm(7) {
				if k != 2 {
					c.child(k, 50+b)
					if rng.Bool() {
						c.child(k, 50+b)
					}
				}
			}
			blocks = append(blocks, c.block(50+b, nil))
		}
		for _, k := range []int{6, 0, 3, 4, 1, 5} {
			c.child(k, 60)
		}
		g.emitCar("all-kinds", c, 2)
		for mask := 0; mask < 128; mask++ {
			var ig []int
			for k := 0; k < 7; k++ {
				if mask&(1<<k) != 0 {
					ig = append(ig, k)
				}
			}
			g.run(ig, 2, 0, []int{0, 2, 4, 0}[mask%4], g.procs())
		}
		// every flush kind, also one that no object has, also kinds outside the ledger schema in the ignore set
		for fk := 0; fk <= 7; fk++ {
			g.run(c15IgGsfa, fk, 0, rng.Intn(6), g.procs())
			g.run([]int{fk}, fk, 0, 0, g.procs()) // flush kind listed as ignored: still flushed
			g.run(nil, fk, 0, 2, g.procs())
		}
		g.run([]int{200, 23}, 2, 0, 0, 3)
		// SetSkip (cmd-find-missing-tx-meta.go)
		for _, sk := range []int{1, 2, 5, 13, len(c.truth) - 1, len(c.truth), len(c.truth) + 5} {
			g.run(c15IgGsfa, 2, sk, rng.Intn(6), g.procs())
		}
	}
	// 4. nodes outside the schema, duplicate objects, non-minimal length prefix, lengths at the varint boundaries
	{
		c := newC15Car(rng)
		c.child(23, 1)
		c.child(200, 1)
		c.tx(5, 10)
		// the same object stored twice
		d := must((&ipldbindcode.Entry{Kind: 1, NumHashes: 1, Hash: make([]byte, 32)}).MarshalCBOR())
		c.putRaw(d, 1)
		c.putRaw(d, 1)
		c.putNonMinimal(must((&ipldbindcode.DataFrame{Kind: 6, Index: c15pp(0), Total: c15pp(1), Data: []byte{1, 2, 3}}).MarshalCBOR()), 6)
		b1 := c.block(5, nil)
		// section lengths 127, 128 (one / two byte prefix) and 16383, 16384 (two / three)
		for _, want := range []int{127, 128, 16383, 16384} {
			for size := 0; size < 17000; size++ {
				n := ipldbindcode.DataFrame{Kind: 6, Index: c15pp(0), Total: c15pp(1), Data: make([]byte, size)}
				if 36+len(must(n.MarshalCBOR())) == want {
					n.Data = c.payload(size)
					c.putRaw(must(n.MarshalCBOR()), 6)
					break
				}
			}
		}
		c.putNonMinimal(must((&ipldbindcode.Block{Kind: 2, Slot: 6, Shredding: []ipldbindcode.Shredding{}, Entries: nil,
			Meta: ipldbindcode.SlotMeta{}, Rewards: cidlink.Link{Cid: b1}}).MarshalCBOR()), 2)
		c.child(23, 2)
		g.emitCar("odd-sections", c, 3)
		g.allModes(c15IgGsfa, 2, 0)
		g.run([]int{23}, 2, 0, 0, 2)
		g.run(nil, 23, 0, 2, 5)
		g.run(c15IgSplit, 2, 3, 4, 7)
	}
	// 5. a node with fewer than two bytes: Run returns GetKind's error (the model says so too)
	for _, n := range []int{0, 1} {
		c := newC15Car(rng)
		c.tx(1, 4)
		c.block(1, nil)
		c.putRaw(make([]byte, n), -1)
		c.block(2, nil)
		g.emitCar(fmt.Sprintf("short-node-%d", n), c, 1)
		g.run(c15IgGsfa, 2, 0, 0, 2)
		g.run(c15IgGsfa, 2, 3, 0, 2) // the short node is skipped: no error
	}
	// 6. more children than the 5 000 preallocation
	bigs := []int{4999, 5000, 5001, 5003}
	if thorough {
		bigs = append(bigs, 10001, 20011)
	}
	for _, n := range bigs {
		c := newC15Car(rng)
		c.tx(1, 3)
		c.block(1, nil)
		for i := 0; i < n; i++ {
			switch {
			case i%97 == 5:
				c.entry(nil) // ignored by the address indexer: the children count differs from the section count
			case i%211 == 7:
				c.dataframe(rng.Intn(30))
			default:
				c.tx(2, rng.Intn(12))
			}
		}
		b2 := c.block(2, nil)
		for i := 0; i < 3; i++ {
			c.tx(3, 5)
		}
		b3 := c.block(3, nil)
		s := c.subset(1, 3, []cid.Cid{b2, b3})
		c.epoch(0, []cid.Cid{s})
		g.emitCar(fmt.Sprintf("big-%d", n), c, 1)
		g.run(c15IgGsfa, 2, 0, 0, g.procs())
		g.run(c15IgSplit, 2, 0, 2, g.procs())
		g.run(nil, 2, 0, 3, g.procs())
		g.run(nil, 2, 0, 5, 1)
		if n == 5003 {
			// trailing group larger than the preallocation: flush on a kind that never occurs
			g.run(nil, 7, 0, 4, g.procs())
		}
	}
	// 7. more groups than the flush queue holds (1 000) with a consumer that stalls: the reader must wait
	{
		c := newC15Car(rng)
		n := 1300
		if thorough {
			n = 2600
		}
		for b := 0; b < n; b++ {
			if b%3 == 0 {
				c.tx(b, 2)
			}
			c.block(b, nil)
		}
		c.tx(n, 1)
		g.emitCar("queue-full", c, 1)
		g.run(c15IgGsfa, 2, 0, 5, 1)
		g.run(c15IgGsfa, 2, 0, 5, 8)
		g.run(c15IgSplit, 2, 0, 1, g.procs())
		g.run(nil, 2, 0, 2, g.procs())
		g.run(nil, 2, 0, 0, 16)
	}
	// 8. realistic epochs and random layouts
	nrand := 8
	if thorough {
		nrand = 150
	}
	for i := 0; i < nrand; i++ {
		c := newC15Car(rng)
		var blocks []cid.Cid
		nb := 1 + rng.Intn(40)
		if thorough && i%10 == 0 {
			nb = 200 + rng.Intn(400)
		}
		if i%3 == 0 {
			for b := 0; b < nb; b++ {
				blocks = append(blocks, g.ledgerBlock(c, 1000+b, rng.Intn(12), i%6 == 0 && b == 1))
			}
			s := c.subset(1000, 1000+nb, blocks)
			c.epoch(i, []cid.Cid{s})
		} else {
			n := 1 + rng.Intn(300)
			if thorough && i%10 == 1 {
				n = 2000 + rng.Intn(4000)
			}
			bias := rng.Intn(7)
			for j := 0; j < n; j++ {
				k := rng.Intn(8)
				if rng.Intn(3) == 0 {
					k = bias
				}
				if k == 2 {
					c.block(j, nil)
				} else if k == 7 {
					c.child(23+rng.Intn(3), j)
				} else {
					c.child(k, j)
				}
			}
		}
		g.emitCar(fmt.Sprintf("random-%d", i), c, 1+rng.Intn(4))
		nruns := 6
		if thorough {
			nruns = 12
		}
		for r := 0; r < nruns; r++ {
			var ig []int
			switch rng.Intn(4) {
			case 0:
				ig = c15IgGsfa
			case 1:
				ig = c15IgSplit
			case 2:
				for k := 0; k < 8; k++ {
					if rng.Intn(3) == 0 {
						ig = append(ig, []int{0, 1, 2, 3, 4, 5, 6, 23}[k])
					}
				}
			}
			flush := 2
			if rng.Intn(4) == 0 {
				flush = rng.Intn(7)
			}
			skip := 0
			if rng.Intn(5) == 0 {
				skip = rng.Intn(len(c.truth) + 2)
			}
			g.run(ig, flush, skip, rng.Intn(6), g.procs())
		}
	}
}

func TestVerifC15(t *testing.T) {
	s := zz.NewSession()
	defer s.Close()
	dir, err := os.MkdirTemp("", "verif-c15-")
	if err != nil {
		t.Fatal(err)
	}
	defer os.RemoveAll(dir)
	in := &c15Interp{s: s}
	var ops []string
	if rp := zz.ReplayFile(); rp != "" {
		data, err := os.ReadFile(rp)
		if err != nil {
			t.Fatal(err)
		}
		ops = strings.Split(strings.TrimSpace(string(data)), "\n")
	} else {
		g := &c15Gen{rng: zz.NewRNG(zz.Seed()), s: s, fail: func(m string) { t.Fatal(m) }}
		g.generate(zz.Thorough())
		ops = g.ops
	}
	for _, op := range ops {
		out, nontrivial := in.exec(op)
		s.Op(op, out, nontrivial)
	}
	// summary of the GOMAXPROCS values used (evidence)
	var ps []string
	for k := range s.Stats {
		if strings.HasPrefix(k, "procs-") {
			ps = append(ps, k)
		}
	}
	sort.Strings(ps)
	t.Logf("C15: %d ops, procs used: %s", len(ops), strings.Join(ps, " "))
}

package accum

// C14 harness, run "accum" (injected by /verif/check with `go test -overlay`; nothing is written to /repo).
// ObjectsToTransactionsAndMetadata resolves the metadata frames of a transaction from a map filled with the
// DataFrame objects that precede the transaction in the object list.  The harness builds such object lists
// out of real nodes (a real solana transaction, metadata = zstd(protobuf TransactionStatusMeta) split into
// linked frames as ledger.ipldsch prescribes), shuffles the frames of each transaction, injects one fault per
// block and compares with the Lean model of the loop (`Frames.accRun`).

import (
	"fmt"
	"os"
	"strconv"
	"strings"
	"testing"

	"github.com/cespare/xxhash/v2"
	"github.com/gagliardetto/solana-go"
	"github.com/rpcpool/yellowstone-faithful/ipld/ipldbindcode"
	"github.com/rpcpool/yellowstone-faithful/third_party/solana_proto/confirmed_block"
	"github.com/rpcpool/yellowstone-faithful/tooling"
	c14 "github.com/rpcpool/yellowstone-faithful/zzc14"
	zz "github.com/rpcpool/yellowstone-faithful/zzverif"
	"google.golang.org/protobuf/proto"
)

type c14Obj struct {
	kind string // frame | tx | other
	id   int
}

type c14AccInterp struct {
	s       *zz.Session
	w       *c14.World
	objs    []c14Obj
	exps    []c14.Expect
	known   map[uint64]string // xxh(content) -> "<len> <xxh>" of the compressed bytes
	caseOps []string
	rawTx   []byte
	nTx     int
	flag    bool
}

func c14RawTx() []byte {
	var sig solana.Signature
	for i := range sig {
		sig[i] = byte(i + 1)
	}
	var k1, k2 solana.PublicKey
	k1[0], k2[0] = 1, 2
	tx := &solana.Transaction{
		Signatures: []solana.Signature{sig},
		Message: solana.Message{
			Header:          solana.MessageHeader{NumRequiredSignatures: 1, NumReadonlyUnsignedAccounts: 1},
			AccountKeys:     []solana.PublicKey{k1, k2},
			RecentBlockhash: solana.Hash{9},
			Instructions:    []solana.CompiledInstruction{{ProgramIDIndex: 1, Accounts: []uint16{0}, Data: []byte{1, 2, 3}}},
		},
	}
	raw, err := tx.MarshalBinary()
	if err != nil {
		panic(err)
	}
	return raw
}

func (in *c14AccInterp) run() string {
	var objects []ObjectWithMetadata
	off := uint64(100)
	for _, o := range in.objs {
		switch o.kind {
		case "frame":
			raw, c, ok := in.w.Raw(o.id)
			if !ok {
				return "noframe"
			}
			objects = append(objects, ObjectWithMetadata{Cid: c, Offset: off, SectionLength: uint64(len(raw)), ObjectData: raw})
		case "other":
			e := ipldbindcode.Entry{Kind: 1, NumHashes: 3, Hash: make([]byte, 32)}
			raw, err := e.MarshalCBOR()
			if err != nil {
				panic(err)
			}
			objects = append(objects, ObjectWithMetadata{Cid: c14.MkCid(raw), Offset: off, SectionLength: uint64(len(raw)), ObjectData: raw})
		case "tx":
			spec, ok := in.w.Specs[o.id]
			if !ok {
				return "noframe"
			}
			one, zero := 1, 0
			oneP, zeroP := &one, &zero
			txn := ipldbindcode.Transaction{
				Kind:     0,
				Data:     ipldbindcode.DataFrame{Kind: 6, Index: &zeroP, Total: &oneP, Data: in.rawTx},
				Metadata: *in.w.Node(spec),
				Slot:     777,
			}
			raw, err := txn.MarshalCBOR()
			if err != nil {
				panic(err)
			}
			objects = append(objects, ObjectWithMetadata{Cid: c14.MkCid(raw), Offset: off, SectionLength: uint64(len(raw)), ObjectData: raw})
		}
		off += 1000
	}
	block := &ipldbindcode.Block{Kind: 2, Slot: 777, Meta: ipldbindcode.SlotMeta{Blocktime: 1700000000}}
	return zz.Guard(func() string {
		txs, err := ObjectsToTransactionsAndMetadata(block, objects)
		if err != nil {
			return "err:" + c14.Classify(err)
		}
		defer PutTransactionWithSlotSlice(txs)
		var outs []string
		for _, t := range txs {
			switch {
			case t.Metadata != nil && t.Metadata.IsProtobuf():
				content := t.Metadata.GetProtobuf().GetReturnData().GetData()
				if d, ok := in.known[xxhash.Sum64(content)]; ok {
					outs = append(outs, d)
				} else {
					outs = append(outs, "unknown-content")
				}
			case t.IsMetaNotFound():
				outs = append(outs, "empty")
			default:
				outs = append(outs, "parse-error")
			}
		}
		return "ok " + strings.Join(outs, ";")
	})
}

func (in *c14AccInterp) exec(line string) string {
	w := strings.Fields(line)
	if w[0] == "case" {
		in.caseOps = nil
	}
	in.caseOps = append(in.caseOps, line)
	switch w[0] {
	case "case":
		in.w = c14.NewWorld()
		in.objs, in.exps = nil, nil
		in.known = map[uint64]string{}
		in.flag = false
		ipldbindcode.DisableHashVerification = false
		return "ok"
	case "flag":
		// the process-wide switch `index gsfa` sets (default flags: true) and never resets
		if len(w) != 3 || w[1] != "disableHashVerification" {
			return "bad-op"
		}
		in.flag = w[2] == "true"
		ipldbindcode.DisableHashVerification = in.flag
		return "ok"
	case "frame":
		f, err := c14.ParseSpec(w)
		if err != nil {
			return "bad-op"
		}
		if err := in.w.Define(f); err != nil {
			return "encode-error"
		}
		return "ok"
	case "known":
		x, _ := strconv.ParseUint(w[3], 16, 64)
		in.known[x] = w[1] + " " + w[2]
		return "ok"
	case "expect":
		// expect <mode> <fault> <len> <xxh>: one line per transaction, in stream order
		in.exps = append(in.exps, c14.ParseExpect(w))
		return "ok"
	case "push", "pushtx":
		id, _ := strconv.Atoi(w[1])
		if _, ok := in.w.Specs[id]; !ok {
			return "noframe"
		}
		k := "frame"
		if w[0] == "pushtx" {
			k = "tx"
		}
		in.objs = append(in.objs, c14Obj{k, id})
		return "ok"
	case "pushother":
		in.objs = append(in.objs, c14Obj{"other", 0})
		return "ok"
	case "run":
		ans := in.run()
		in.s.Count("run:" + strings.SplitN(ans, " ", 2)[0])
		in.judge(ans)
		in.objs, in.exps = nil, nil
		return ans
	}
	return "bad-op"
}

func (in *c14AccInterp) judge(ans string) {
	if ans == "panic" {
		in.s.Violation("ObjectsToTransactionsAndMetadata panics: "+zz.LastPanic, "C14:accum:panic", in.s.Replay(in.caseOps))
		return
	}
	if strings.HasPrefix(ans, "err:") {
		allExact := len(in.exps) > 0
		for _, e := range in.exps {
			if e.Mode != "exact" {
				allExact = false
			}
		}
		if allExact {
			in.s.Violation("a block whose metadata frames are laid out as the schema comment prescribes is rejected: "+ans,
				"C14:accum:exact:unfaulted", in.s.Replay(in.caseOps))
		}
		return
	}
	outs := strings.Split(strings.TrimPrefix(ans, "ok "), ";")
	if len(outs) != len(in.exps) {
		if len(in.exps) > 0 {
			in.s.Violation(fmt.Sprintf("%d transactions expected, %d returned", len(in.exps), len(outs)), "C14:accum:tx-count", in.s.Replay(in.caseOps))
		}
		return
	}
	for i, o := range outs {
		a := "ok " + o
		if o == "empty" {
			a = "ok " + c14.Digest(nil)
		}
		if v := in.exps[i].Judge(a); v != "" {
			key := "C14:accum:" + in.exps[i].Mode + ":" + in.exps[i].Fault
			if in.flag {
				key = c14.FlagKey
				v = "with ipldbindcode.DisableHashVerification set (the state `index gsfa` leaves behind): " + v
			}
			in.s.Violation("accum: "+v, key, in.s.Replay(in.caseOps))
		}
	}
}

// c14Meta builds metadata bytes the real code can decompress and parse and that identify themselves:
// zstd(protobuf TransactionStatusMeta{ReturnData{Data: random}}); returns the compressed bytes
func c14Meta(g *c14.Gen, contentLen int) []byte {
	content := g.R.Bytes(contentLen)
	if contentLen == 0 {
		content = []byte{}
	}
	m := &confirmed_block.TransactionStatusMeta{Fee: 5000, ReturnData: &confirmed_block.ReturnData{ProgramId: []byte{1}, Data: content}}
	raw, err := proto.Marshal(m)
	if err != nil {
		panic(err)
	}
	z, err := tooling.CompressZstd(raw)
	if err != nil {
		panic(err)
	}
	d := strings.Fields(c14.Digest(z))
	g.Emit("known %s %s %016x", d[0], d[1], xxhash.Sum64(content))
	return z
}

type c14Tx struct {
	p    *c14.Payload
	mode string
	name string
}

func c14AccGenerate(g *c14.Gen, s *zz.Session, thorough bool) {
	caseNo, runNo := 0, 0
	hashKinds := []string{"crc", "fnv", "none"}
	orders := []string{"asc", "desc", "shuffle"}
	pushFrames := func(p *c14.Payload, skip map[int]bool) {
		// the frames of one transaction in shuffled order, the first frame travels inside the transaction
		for _, j := range g.R.Perm(p.K) {
			if j == 0 || skip[p.IDs[j]] {
				continue
			}
			g.Emit("push %d", p.IDs[j])
		}
	}
	flagPhase := false
	block := func(nTx int, maxContent int, kMax int, faulted bool) {
		caseNo++
		g.Emit("case run=accum #%d txs=%d faulted=%v flag-phase=%v", caseNo, nTx, faulted, flagPhase)
		if flagPhase {
			g.Emit("flag disableHashVerification true")
		}
		var txs []c14Tx
		for t := 0; t < nTx; t++ {
			var z []byte
			k := 1 + g.R.Intn(kMax)
			switch g.R.Intn(8) {
			case 0:
				z = []byte{} // no metadata at all: "metadata is empty"
				k = 1
				s.Count("meta:empty")
			default:
				z = c14Meta(g, g.R.Intn(maxContent))
			}
			F := 1 + g.R.Intn(10)
			hk := hashKinds[g.R.Intn(3)]
			if g.R.Intn(3) > 0 {
				hk = "crc"
			}
			if flagPhase {
				hk = hashKinds[g.R.Intn(2)]
			}
			p := g.Layout(z, k, F, hk, true, orders[g.R.Intn(3)], []string{"even", "random"}[g.R.Intn(2)])
			if k == 1 {
				s.Count("meta:single-frame")
			} else {
				s.Count("meta:multi-frame")
			}
			txs = append(txs, c14Tx{p: p, mode: "exact", name: "unfaulted"})
		}
		emitRun := func(victim int, sc *c14.Scenario, placement string) {
			for t, tx := range txs {
				skip := map[int]bool{}
				mode, name := "exact", "unfaulted"
				if sc != nil && t == victim {
					for _, id := range sc.Deleted {
						skip[id] = true
					}
					mode, name = sc.Mode, sc.Name
				}
				if placement != "" && t == victim {
					mode, name = "none", placement
				}
				switch {
				case placement == "frames-after-own-tx" && t == victim:
					g.Emit("pushtx %d", tx.p.First())
					pushFrames(tx.p, skip)
				case placement == "frames-before-previous-tx" && t == victim-1:
					pushFrames(txs[victim].p, nil)
					pushFrames(tx.p, skip)
					g.Emit("pushtx %d", tx.p.First())
				case placement == "frames-before-previous-tx" && t == victim:
					g.Emit("pushtx %d", tx.p.First())
				case placement == "frames-twice" && t == victim:
					pushFrames(tx.p, skip)
					pushFrames(tx.p, skip)
					g.Emit("pushtx %d", tx.p.First())
					mode, name = "exact", placement
				default:
					pushFrames(tx.p, skip)
					if g.R.Intn(3) == 0 {
						g.Emit("pushother")
					}
					g.Emit("pushtx %d", tx.p.First())
				}
				g.Emit("expect %s %s %s", mode, name, c14.Digest(tx.p.Bytes))
			}
			runNo++
			g.Emit("run %d", runNo)
		}
		emitRun(-1, nil, "")
		if !faulted {
			return
		}
		// one fault per run, on one transaction of the block
		for v := 0; v < nTx; v++ {
			p := txs[v].p
			var q *c14.Payload
			for o := range txs {
				if o != v && txs[o].p.K == p.K {
					q = txs[o].p
				}
			}
			lim := 4
			if thorough {
				lim = 10
			}
			scs := g.Faults(p, q, lim)
			if flagPhase {
				scs = g.ContentFaults(p, q)
			}
			for _, sc := range scs {
				if sc.ND || sc.Mode == "none" {
					// without a recorded checksum altered bytes reach zstd, whose answer the model cannot
					// predict (a flipped window-size bit still decodes to the same content); the tooling
					// run compares these faults without zstd in the way
					continue
				}
				sc := sc
				if sc.Name == "first-frame-without-total-and-hash" && p.K > 1 {
					// a first frame without `total` is read as "the only frame" by accum (the code's own comment
					// in data-frames.go says so); a writer never produces this: compared with the model only
					sc.Mode = "none"
				}
				if flagPhase {
					s.Count("flag-phase:fault:" + sc.Name)
				} else {
					s.Count("fault:" + sc.Name)
				}
				for _, l := range sc.Setup {
					if !strings.HasPrefix(l, "del ") {
						g.Emit("%s", l)
					}
				}
				emitRun(v, &sc, "")
				for _, l := range sc.Restore {
					g.Emit("%s", l)
				}
			}
			if p.K > 1 && !flagPhase {
				for _, pl := range []string{"frames-after-own-tx", "frames-before-previous-tx", "frames-twice"} {
					if pl == "frames-before-previous-tx" && v == 0 {
						continue
					}
					s.Count("placement:" + pl)
					emitRun(v, nil, pl)
				}
			}
		}
		emitRun(-1, nil, "")
	}
	// directed: single transaction blocks with every frame count, then mixed blocks
	for _, k := range []int{1, 2, 3, 6, 11, 30, 60} {
		block(1, 400, k, true)
	}
	block(3, 3000, 8, true)
	block(4, 200, 3, true)
	block(2, 200*1024, 60, false)
	n := 6
	if thorough {
		n = 500
	}
	for i := 0; i < n; i++ {
		block(1+g.R.Intn(5), 1+g.R.Intn(5000), 1+g.R.Intn(20), true)
	}
	if thorough {
		block(3, 200*1024, 40, true)
	}
	// configuration phase: ipldbindcode.DisableHashVerification set, as after `index gsfa` with default flags
	flagPhase = true
	for _, k := range []int{1, 2, 5, 12, 60} {
		block(1, 600, k, true)
	}
	block(3, 2000, 6, true)
	if thorough {
		for i := 0; i < 60; i++ {
			block(1+g.R.Intn(4), 1+g.R.Intn(4000), 1+g.R.Intn(20), true)
		}
	}
	flagPhase = false
}

func TestVerifC14Accum(t *testing.T) {
	s := zz.NewSession()
	defer s.Close()
	in := &c14AccInterp{s: s, w: c14.NewWorld(), known: map[uint64]string{}, rawTx: c14RawTx()}
	savedFlag := ipldbindcode.DisableHashVerification
	defer func() { ipldbindcode.DisableHashVerification = savedFlag }()
	c14ProbeSingleFrameShortcut(s)
	var ops []string
	if rp := zz.ReplayFile(); rp != "" {
		data, err := os.ReadFile(rp)
		if err != nil {
			t.Fatal(err)
		}
		ops = c14.ReplayLines(string(data), "accum")
	} else {
		g := &c14.Gen{R: zz.NewRNG(zz.Seed() + 1000)}
		c14AccGenerate(g, s, zz.Thorough())
		ops = g.Ops
	}
	for _, op := range ops {
		out := in.exec(op)
		s.Op(op, out, strings.HasPrefix(out, "ok "))
	}
}

// c14ProbeSingleFrameShortcut records (statistics only, no verdict) what the unchanged code does on the
// single-frame shortcut of Transaction.GetSolanaTransaction — the one place where the real code consults
// ipldbindcode.DisableHashVerification: a one-frame transaction payload whose recorded CRC does not match
// its (altered, still parseable) bytes, with the flag clear and with the flag set.
func c14ProbeSingleFrameShortcut(s *zz.Session) {
	saved := ipldbindcode.DisableHashVerification
	defer func() { ipldbindcode.DisableHashVerification = saved }()
	orig := c14RawTx()
	altered := append([]byte{}, orig...)
	altered[len(altered)-1] ^= 1 // last byte of the instruction data: the transaction still parses
	h := int(c14.Crc(orig))
	hp := &h
	one, zero := 1, 0
	oneP, zeroP := &one, &zero
	txn := ipldbindcode.Transaction{Kind: 0, Data: ipldbindcode.DataFrame{Kind: 6, Hash: &hp, Index: &zeroP, Total: &oneP, Data: altered},
		Metadata: ipldbindcode.DataFrame{Kind: 6, Index: &zeroP, Total: &oneP, Data: []byte{}}, Slot: 1}
	for _, flag := range []bool{false, true} {
		ipldbindcode.DisableHashVerification = flag
		tx, err := txn.GetSolanaTransaction()
		verdict := "rejected"
		if err == nil {
			raw, _ := tx.MarshalBinary()
			if string(raw) == string(orig) {
				verdict = "returned-original"
			} else {
				verdict = "accepted-altered-bytes"
			}
		}
		s.Count(fmt.Sprintf("probe:GetSolanaTransaction-single-frame-hash-mismatch:flag=%v:%s", flag, verdict))
	}
}

package iplddecoders

// C11 harness (injected by /verif/check with `go test -overlay`; nothing is written to /repo).
//
// Typed values of all seven kinds -> the reference encoder (ipld-prime bindnode + dag-cbor) -> BOTH real decoders
// (_Decode*Fast = the hand-written UnmarshalCBOR, _Decode*Classic = bindnode) -> canonical observation lines.
// The op line carries the node bytes; the Lean driver parses the same bytes and prints the observations of its
// models of the two decoders.  Oracle (independent of the model): whenever the schema-driven decoder accepts a node,
// the hand-written decoder accepts it with the same observation and never panics; a node of one kind is never
// accepted as another kind.

import (
	"bytes"
	"errors"
	"fmt"
	"io"
	"math"
	"os"
	"path/filepath"
	"sort"
	"strconv"
	"strings"
	"testing"

	"github.com/fxamacker/cbor/v2"
	"github.com/ipfs/go-cid"
	"github.com/ipld/go-ipld-prime"
	"github.com/ipld/go-ipld-prime/codec/dagcbor"
	"github.com/ipld/go-ipld-prime/datamodel"
	cidlink "github.com/ipld/go-ipld-prime/linking/cid"
	"github.com/ipld/go-ipld-prime/node/bindnode"
	"github.com/ipld/go-ipld-prime/schema"
	"github.com/multiformats/go-multihash"
	"github.com/rpcpool/yellowstone-faithful/carreader"
	"github.com/rpcpool/yellowstone-faithful/ipld/ipldbindcode"
	zz "github.com/rpcpool/yellowstone-faithful/zzverif"
)

var c11Kinds = []string{"Transaction", "Entry", "Block", "Subset", "Epoch", "Rewards", "DataFrame"}

// ---------- canonical observations (exported plain fields + the Has*/Get* accessors of methods.go) ----------

func c11Cid(l datamodel.Link) string {
	cl, ok := l.(cidlink.Link)
	if !ok {
		return fmt.Sprintf("NOT-A-CIDLINK(%T)", l)
	}
	return zz.Hex(cl.Cid.Bytes())
}

func c11Cids(l ipldbindcode.List__Link) string {
	parts := make([]string, len(l))
	for i, x := range l {
		parts[i] = c11Cid(x)
	}
	return "[" + strings.Join(parts, ",") + "]"
}

func c11OptInt(v int, ok bool) string {
	if !ok {
		return "-"
	}
	return strconv.Itoa(v)
}

func c11OptU64(v uint64, ok bool) string {
	if !ok {
		return "-"
	}
	return strconv.FormatUint(v, 10)
}

func c11DF(d ipldbindcode.DataFrame) string {
	var sb strings.Builder
	h, hok := d.GetHash()
	i, iok := d.GetIndex()
	t, tok := d.GetTotal()
	n, nok := d.GetNext()
	next := "-"
	if nok {
		next = c11Cids(n)
	}
	hasnext := "0"
	if d.HasNext() {
		hasnext = "1"
	}
	fmt.Fprintf(&sb, "{kind=%d hash=%s index=%s total=%s data=%s hasnext=%s next=%s}", d.Kind, c11OptU64(h, hok),
		c11OptInt(i, iok), c11OptInt(t, tok), zz.Hex(d.Bytes()), hasnext, next)
	if d.HasHash() != hok || d.HasIndex() != iok || d.HasTotal() != tok {
		sb.WriteString(" INCONSISTENT-HAS-GET")
	}
	return sb.String()
}

func c11Obs(v any) string {
	switch x := v.(type) {
	case *ipldbindcode.Transaction:
		i, iok := x.GetPositionIndex()
		s := fmt.Sprintf("Transaction kind=%d data=%s metadata=%s slot=%d index=%s", x.Kind, c11DF(x.Data), c11DF(x.Metadata), x.Slot, c11OptInt(i, iok))
		if x.HasIndex() != iok {
			s += " INCONSISTENT-HAS-GET"
		}
		return s
	case *ipldbindcode.Entry:
		return fmt.Sprintf("Entry kind=%d numHashes=%d hash=%s transactions=%s", x.Kind, x.NumHashes, zz.Hex(x.Hash), c11Cids(x.Transactions))
	case *ipldbindcode.Block:
		sh := make([]string, len(x.Shredding))
		for i, s := range x.Shredding {
			sh[i] = fmt.Sprintf("%d:%d", s.EntryEndIdx, s.ShredEndIdx)
		}
		bh, bok := x.GetBlockHeight()
		s := fmt.Sprintf("Block kind=%d slot=%d shredding=[%s] entries=%s parent_slot=%d blocktime=%d block_height=%s rewards=%s",
			x.Kind, x.Slot, strings.Join(sh, ","), c11Cids(x.Entries), x.Meta.Parent_slot, x.Meta.Blocktime, c11OptU64(bh, bok), c11Cid(x.Rewards))
		mh, mok := x.Meta.GetBlockHeight()
		if mh != bh || mok != bok || x.Meta.HasBlockHeight() != bok {
			s += " INCONSISTENT-HAS-GET"
		}
		return s
	case *ipldbindcode.Subset:
		return fmt.Sprintf("Subset kind=%d first=%d last=%d blocks=%s", x.Kind, x.First, x.Last, c11Cids(x.Blocks))
	case *ipldbindcode.Epoch:
		return fmt.Sprintf("Epoch kind=%d epoch=%d subsets=%s", x.Kind, x.Epoch, c11Cids(x.Subsets))
	case *ipldbindcode.Rewards:
		return fmt.Sprintf("Rewards kind=%d slot=%d data=%s", x.Kind, x.Slot, c11DF(x.Data))
	case *ipldbindcode.DataFrame:
		return "DataFrame " + c11DF(*x)
	}
	return fmt.Sprintf("UNKNOWN-TYPE %T", v)
}

type c11Res struct {
	class string // ok | err | panic
	obs   string
	msg   string
}

func c11Run(f func() (any, error)) (r c11Res) {
	defer func() {
		if p := recover(); p != nil {
			r = c11Res{class: "panic", msg: fmt.Sprint(p)}
		}
	}()
	v, err := f()
	if err != nil {
		return c11Res{class: "err", msg: err.Error()}
	}
	return c11Res{class: "ok", obs: c11Obs(v)}
}

var c11Scratch []byte

// c11Decode runs the hand-written and the schema-driven decoder of one kind on the same bytes.
func c11Decode(kind string, raw []byte) (fast, classic c11Res, ok bool) {
	// every decoder gets its own copy: neither may influence the other through aliasing
	// the fast side goes through the PUBLIC entry point (DecodeX, what the server and the tools call) and reads from ONE
	// buffer that is overwritten in place from node to node, as a CAR reader's section buffer is: a decoder that
	// remembers its input by reference would answer with an earlier node
	if cap(c11Scratch) < len(raw) {
		c11Scratch = make([]byte, 0, 2*len(raw)+64)
	}
	a := c11Scratch[:len(raw)]
	copy(a, raw)
	b := append([]byte(nil), raw...)
	switch kind {
	case "Transaction":
		fast = c11Run(func() (any, error) { return DecodeTransaction(a) })
		classic = c11Run(func() (any, error) { return _DecodeTransactionClassic(b) })
	case "Entry":
		fast = c11Run(func() (any, error) { return DecodeEntry(a) })
		classic = c11Run(func() (any, error) { return _DecodeEntryClassic(b) })
	case "Block":
		fast = c11Run(func() (any, error) { return DecodeBlock(a) })
		classic = c11Run(func() (any, error) { return _DecodeBlockClassic(b) })
	case "Subset":
		fast = c11Run(func() (any, error) { return DecodeSubset(a) })
		classic = c11Run(func() (any, error) { return _DecodeSubsetClassic(b) })
	case "Epoch":
		fast = c11Run(func() (any, error) { return DecodeEpoch(a) })
		classic = c11Run(func() (any, error) { return _DecodeEpochClassic(b) })
	case "Rewards":
		fast = c11Run(func() (any, error) { return DecodeRewards(a) })
		classic = c11Run(func() (any, error) { return _DecodeRewardsClassic(b) })
	case "DataFrame":
		fast = c11Run(func() (any, error) { return DecodeDataFrame(a) })
		classic = c11Run(func() (any, error) { return _DecodeDataFrameClassic(b) })
	default:
		return fast, classic, false
	}
	return fast, classic, true
}

func c11Line(f, c c11Res, full bool) string {
	if !full {
		return "F:" + f.class + " | C:" + c.class
	}
	fs := f.class
	if f.class == "ok" {
		fs = "ok " + f.obs
	}
	cs := c.class
	if c.class == "ok" {
		if f.class == "ok" && f.obs == c.obs {
			cs = "same"
		} else {
			cs = "ok " + c.obs
		}
	}
	return "F:" + fs + " | C:" + cs
}

// ---------- reference encoder ----------

func c11Proto(kind string) schema.TypedPrototype {
	switch kind {
	case "Transaction":
		return ipldbindcode.Prototypes.Transaction
	case "Entry":
		return ipldbindcode.Prototypes.Entry
	case "Block":
		return ipldbindcode.Prototypes.Block
	case "Subset":
		return ipldbindcode.Prototypes.Subset
	case "Epoch":
		return ipldbindcode.Prototypes.Epoch
	case "Rewards":
		return ipldbindcode.Prototypes.Rewards
	case "DataFrame":
		return ipldbindcode.Prototypes.DataFrame
	}
	panic("kind " + kind)
}

// c11Encode is the reference encoder: bindnode view of the typed value, representation level, dag-cbor.
func c11Encode(kind string, ptr any) []byte {
	node := bindnode.Wrap(ptr, c11Proto(kind).Type())
	var buf bytes.Buffer
	if err := ipld.EncodeStreaming(&buf, node.Representation(), dagcbor.Encode); err != nil {
		panic(fmt.Sprintf("reference encoder failed for %s: %v", kind, err))
	}
	return buf.Bytes()
}

// ---------- interpreter ----------

type c11Interp struct {
	s      *zz.Session
	expect map[string]string // op line -> observation of the typed value it was generated from
	t      *testing.T
}

func (in *c11Interp) exec(line string) (out string, nontrivial bool) {
	w := strings.Fields(line)
	switch w[0] {
	case "case":
		return "ok", false
	case "node", "probe":
		if len(w) != 3 {
			return "bad-op", false
		}
		raw := zz.Unhex(w[2])
		f, c, ok := c11Decode(w[1], raw)
		if !ok {
			return "bad-op", false
		}
		in.s.Count("decode-" + w[0] + "-F" + f.class + "-C" + c.class)
		if w[0] == "node" {
			in.s.Count("node-" + w[1])
			// the property: whatever the schema-driven decoder accepts (= conforms to the schema and carries the right
			// kind) the hand-written decoder accepts too, with the same observation
			if c.class == "ok" {
				switch {
				case f.class == "panic":
					in.s.Violation("hand-written decoder panics on a schema-conforming "+w[1]+" node: "+f.msg,
						"C11:fast-panics-conforming:"+w[1], in.s.Replay([]string{line}))
				case f.class == "err":
					key := "C11:fast-rejects-conforming:" + w[1]
					if strings.Contains(f.msg, "exceeded max number of elements") {
						key = "C11:fast-rejects-conforming:list-len>131072"
					}
					in.s.Violation("hand-written decoder rejects a schema-conforming "+w[1]+" node that the schema-driven decoder accepts: "+f.msg,
						key, in.s.Replay([]string{line}))
				case f.obs != c.obs:
					in.s.Violation("decoders disagree on a "+w[1]+" node: fast "+c11Trunc(f.obs)+" classic "+c11Trunc(c.obs),
						"C11:observation-differs:"+w[1], in.s.Replay([]string{line}))
				default:
					in.s.Count("agree-" + w[1])
				}
			} else if _, generated := in.expect[line]; generated {
				// generator self-check, not a verdict about the repository
				in.s.Count("generated-node-rejected-by-classic")
				in.t.Logf("generated %s node rejected by the schema-driven decoder: %s", w[1], c.msg)
			}
			if exp, generated := in.expect[line]; generated && f.class == "ok" {
				if f.obs == exp {
					in.s.Count("roundtrip-equals-typed-value")
				} else {
					in.s.Count("roundtrip-differs-from-typed-value")
					in.t.Logf("round trip differs from the typed value: got %s want %s", c11Trunc(f.obs), c11Trunc(exp))
				}
			}
		}
		return c11Line(f, c, true), f.class == "ok"
	case "as":
		if len(w) != 3 {
			return "bad-op", false
		}
		raw := zz.Unhex(w[2])
		f, c, ok := c11Decode(w[1], raw)
		if !ok {
			return "bad-op", false
		}
		from := "?"
		if k, err := GetKind(raw); err == nil {
			from = k.String()
		}
		in.s.Count("as-F" + f.class + "-C" + c.class)
		if from != w[1] {
			if f.class == "ok" {
				in.s.Violation("a "+from+" node is accepted as "+w[1]+" by the hand-written decoder",
					"C11:accepted-as-other-kind:"+from+"->"+w[1], in.s.Replay([]string{line}))
			} else if f.class == "panic" {
				in.s.Violation("decoding a "+from+" node as "+w[1]+" panics in the hand-written decoder: "+f.msg,
					"C11:cross-kind-panic:"+from+"->"+w[1], in.s.Replay([]string{line}))
			} else {
				in.s.Count("cross-kind-rejected")
			}
		}
		return c11Line(f, c, false), f.class == "err"
	case "schema":
		if len(w) != 2 {
			return "bad-op", false
		}
		return c11Schema(w[1]), true
	case "schema-files":
		root := c11RepoRoot()
		a, err1 := os.ReadFile(filepath.Join(root, "ledger.ipldsch"))
		b, err2 := os.ReadFile(filepath.Join(root, "ipld", "ipldbindcode", "ledger.ipldsch"))
		if err1 != nil || err2 != nil {
			return "unreadable", false
		}
		if !bytes.Equal(a, b) {
			return "differ", false
		}
		return "same", true
	case "longlist":
		if len(w) != 4 {
			return "bad-op", false
		}
		n, _ := strconv.Atoi(w[2])
		_, c, err := cid.CidFromBytes(zz.Unhex(w[3]))
		if err != nil {
			return "bad-op", false
		}
		ptr := c11LongNode(w[1], n, c)
		if ptr == nil {
			return "bad-op", false
		}
		want := c11Obs(ptr)
		raw := c11Encode(w[1], ptr)
		f, cl, _ := c11Decode(w[1], raw)
		in.s.Count(fmt.Sprintf("longlist-%d", n))
		in.s.Add("longlist-bytes", len(raw))
		var out string
		switch {
		case f.class == "ok" && cl.class == "ok":
			if f.obs == want && cl.obs == want {
				out = "accepted-by-both"
			} else {
				out = "observations-differ"
			}
		case f.class == "ok":
			out = "classic-rejects"
		case f.class == "panic":
			out = "fast-panics"
		case cl.class == "ok":
			out = "fast-rejects"
		default:
			out = "both-reject"
		}
		if cl.class == "ok" && out != "accepted-by-both" {
			key := "C11:" + out + ":" + w[1]
			if out == "fast-rejects" && strings.Contains(f.msg, "exceeded max number of elements") {
				key = "C11:fast-rejects-conforming:list-len>131072"
			}
			in.s.Violation(fmt.Sprintf("a schema-conforming %s node with a %d-element link list (%d bytes) is accepted by the schema-driven decoder, hand-written decoder: %s %s",
				w[1], n, len(raw), out, f.msg), key, in.s.Replay([]string{line}))
		}
		return out, out == "accepted-by-both"
	}
	return "bad-op", false
}

// c11Schema prints one type of the schema bindnode actually loaded (what drives the schema-driven decoder).
func c11Schema(name string) string {
	ts := ipldbindcode.Prototypes.Epoch.Type().TypeSystem()
	switch t := ts.TypeByName(name).(type) {
	case *schema.TypeStruct:
		repr := "other"
		if _, ok := t.RepresentationStrategy().(schema.StructRepresentation_Tuple); ok {
			repr = "tuple"
		}
		parts := []string{"struct", repr}
		for _, f := range t.Fields() {
			flag := "req"
			switch {
			case f.IsOptional() && f.IsNullable():
				flag = "optnull"
			case f.IsOptional():
				flag = "opt"
			case f.IsNullable():
				flag = "null"
			}
			parts = append(parts, f.Name()+":"+f.Type().Name()+":"+flag)
		}
		return strings.Join(parts, " ")
	case *schema.TypeList:
		n := "nonnull"
		if t.ValueIsNullable() {
			n = "nullable"
		}
		return "list " + t.ValueType().Name() + " " + n
	case *schema.TypeBytes:
		return "bytes"
	case nil:
		return "unknown-type"
	default:
		return fmt.Sprintf("other %T", t)
	}
}

func c11Trunc(s string) string {
	if len(s) > 300 {
		return s[:300] + "…"
	}
	return s
}

// c11LongNode mirrors DrvC11.longNode of the Lean driver.
func c11LongNode(kind string, n int, c cid.Cid) any {
	var l ipldbindcode.List__Link
	for i := 0; i < n; i++ {
		l = append(l, cidlink.Link{Cid: c})
	}
	switch kind {
	case "Epoch":
		return &ipldbindcode.Epoch{Kind: 4, Epoch: 7, Subsets: l}
	case "Subset":
		return &ipldbindcode.Subset{Kind: 3, First: 10, Last: 20, Blocks: l}
	case "Entry":
		return &ipldbindcode.Entry{Kind: 1, NumHashes: 12, Hash: []byte{1, 2, 3}, Transactions: l}
	case "Block":
		return &ipldbindcode.Block{Kind: 2, Slot: 99, Shredding: []ipldbindcode.Shredding{{EntryEndIdx: 1, ShredEndIdx: 2}}, Entries: l,
			Meta: ipldbindcode.SlotMeta{Parent_slot: 98, Blocktime: 1700000000, Block_height: c11PP(5)}, Rewards: cidlink.Link{Cid: c}}
	case "DataFrame":
		pl := &l
		return &ipldbindcode.DataFrame{Kind: 6, Hash: c11PP(-5), Index: c11PP(0), Total: c11PP(2), Data: []byte{9}, Next: &pl}
	}
	return nil
}

func c11PP(v int) **int { p := &v; return &p }

// ---------- generator ----------

type c11Gen struct {
	rng    *zz.RNG
	s      *zz.Session
	ops    []string
	expect map[string]string
	pool   []cid.Cid
	nodes  [][2]string // (kind, hex) of generated conforming nodes, for the cross-kind ops
}

func (g *c11Gen) emit(f string, a ...any) { g.ops = append(g.ops, fmt.Sprintf(f, a...)) }

// CIDs of every shape go-cid accepts: v0, v1 dag-cbor/sha2-256 (what the CAR writers produce), identity hashes of
// length 0.., multi-byte codec and hash-function varints, long digests.
func (g *c11Gen) newCid() cid.Cid {
	mk := func(codec, code uint64, dlen int) cid.Cid {
		mh, _ := multihash.Encode(g.rng.Bytes(dlen), code)
		return cid.NewCidV1(codec, mh)
	}
	switch g.rng.Intn(11) {
	case 10:
		// the same 36-byte shape as the CAR writers' CIDs (v1, sha2-256) but another one-byte codec
		g.s.Count("cid-v1-sha256-other-codec")
		return mk([]uint64{cid.Raw, cid.DagProtobuf, cid.DagJSON & 0x7f, 0x00, 0x7f}[g.rng.Intn(5)], multihash.SHA2_256, 32)
	case 0:
		g.s.Count("cid-v0")
		mh, _ := multihash.Encode(g.rng.Bytes(32), multihash.SHA2_256)
		return cid.NewCidV0(mh)
	case 1:
		g.s.Count("cid-identity")
		return mk(cid.Raw, multihash.IDENTITY, g.rng.Intn(12))
	case 2:
		g.s.Count("cid-multibyte-varints")
		return mk(0x0129, 0xb220, 32) // dag-json, blake2b-256
	case 3:
		g.s.Count("cid-long-digest")
		return mk(0x300000+uint64(g.rng.Intn(1000)), multihash.SHA2_512, 64+g.rng.Intn(100))
	default:
		g.s.Count("cid-dagcbor-sha256")
		return mk(cid.DagCBOR, multihash.SHA2_256, 32)
	}
}

func (g *c11Gen) cid() cid.Cid {
	if len(g.pool) < 64 {
		c := g.newCid()
		g.pool = append(g.pool, c)
		return c
	}
	return g.pool[g.rng.Intn(len(g.pool))]
}

func (g *c11Gen) link() datamodel.Link { return cidlink.Link{Cid: g.cid()} }

func (g *c11Gen) links(n int) ipldbindcode.List__Link {
	var l ipldbindcode.List__Link // nil when n == 0, exactly what both decoders produce
	for i := 0; i < n; i++ {
		l = append(l, g.link())
	}
	return l
}

var c11IntBoundaries = []int{0, 1, 23, 24, 255, 256, 65535, 65536, math.MaxUint32, math.MaxUint32 + 1, math.MaxInt64, math.MaxInt64 - 1,
	-1, -24, -25, -256, -257, -65536, -65537, -(1 << 32), -(1 << 32) - 1, math.MinInt64, math.MinInt64 + 1, 432000, 1700000000}

// ints of every CBOR width and sign; a third of them are uint64 values above 2^63 stored in the Go int (CRC64 hashes)
func (g *c11Gen) int() int {
	switch g.rng.Intn(4) {
	case 0:
		g.s.Count("int-boundary")
		return c11IntBoundaries[g.rng.Intn(len(c11IntBoundaries))]
	case 1:
		g.s.Count("int-above-2^63-as-uint64")
		return int(g.rng.U64() | (1 << 63))
	case 2:
		g.s.Count("int-small")
		return g.rng.Intn(500000000)
	default:
		g.s.Count("int-random64")
		return int(g.rng.U64())
	}
}

// 0 absent, 1 null, 2 value
func (g *c11Gen) optInt(state int) **int {
	switch state {
	case 0:
		return nil
	case 1:
		var p *int
		return &p
	}
	return c11PP(g.int())
}

// 0 absent, 1 null, 2.. list of length state-2
func (g *c11Gen) optLinks(state int) **ipldbindcode.List__Link {
	switch state {
	case 0:
		return nil
	case 1:
		var p *ipldbindcode.List__Link
		return &p
	}
	l := g.links(state - 2)
	p := &l
	return &p
}

func (g *c11Gen) bytes(max int) []byte {
	n := g.rng.Intn(max + 1)
	return g.rng.Bytes(n)
}

func (g *c11Gen) dataFrame(h, i, t, nx int) ipldbindcode.DataFrame {
	return ipldbindcode.DataFrame{Kind: 6, Hash: g.optInt(h), Index: g.optInt(i), Total: g.optInt(t), Data: g.bytes(40), Next: g.optLinks(nx)}
}

func (g *c11Gen) randNextState() int {
	switch g.rng.Intn(6) {
	case 0:
		return 0
	case 1:
		return 1
	case 2:
		return 2
	default:
		return 2 + 1 + g.rng.Intn(6)
	}
}

func (g *c11Gen) randDataFrame() ipldbindcode.DataFrame {
	return g.dataFrame(g.rng.Intn(3), g.rng.Intn(3), g.rng.Intn(3), g.randNextState())
}

func (g *c11Gen) shredding(n int) ipldbindcode.List__Shredding {
	var l ipldbindcode.List__Shredding
	for i := 0; i < n; i++ {
		l = append(l, ipldbindcode.Shredding{EntryEndIdx: g.int(), ShredEndIdx: g.int()})
	}
	return l
}

func (g *c11Gen) listLen() int {
	switch g.rng.Intn(8) {
	case 0:
		return 0
	case 1:
		return 1
	case 2:
		return 2
	default:
		return g.rng.Intn(40)
	}
}

// node emits one generated conforming node
func (g *c11Gen) node(kind string, ptr any, cross bool) {
	raw := c11Encode(kind, ptr)
	op := fmt.Sprintf("node %s %s", kind, zz.Hex(raw))
	g.ops = append(g.ops, op)
	g.expect[op] = c11Obs(ptr)
	if cross {
		g.nodes = append(g.nodes, [2]string{kind, zz.Hex(raw)})
	}
}

func (g *c11Gen) random(kind string) any {
	switch kind {
	case "Transaction":
		return &ipldbindcode.Transaction{Kind: 0, Data: g.randDataFrame(), Metadata: g.randDataFrame(), Slot: g.int(), Index: g.optInt(g.rng.Intn(3))}
	case "Entry":
		return &ipldbindcode.Entry{Kind: 1, NumHashes: g.int(), Hash: g.bytes(33), Transactions: g.links(g.listLen())}
	case "Block":
		return &ipldbindcode.Block{Kind: 2, Slot: g.int(), Shredding: g.shredding(g.listLen()), Entries: g.links(g.listLen()),
			Meta: ipldbindcode.SlotMeta{Parent_slot: g.int(), Blocktime: g.int(), Block_height: g.optInt(g.rng.Intn(3))}, Rewards: g.link()}
	case "Subset":
		return &ipldbindcode.Subset{Kind: 3, First: g.int(), Last: g.int(), Blocks: g.links(g.listLen())}
	case "Epoch":
		return &ipldbindcode.Epoch{Kind: 4, Epoch: g.int(), Subsets: g.links(g.listLen())}
	case "Rewards":
		return &ipldbindcode.Rewards{Kind: 5, Slot: g.int(), Data: g.randDataFrame()}
	case "DataFrame":
		d := g.randDataFrame()
		return &d
	}
	panic(kind)
}

var c11NextStates = []int{0, 1, 2, 3, 4} // absent, null, [], [c], [c, c']

func (g *c11Gen) generate(thorough bool) {
	// --- the schema the reference decoder is driven by, type by type (the model carries its own copy) ---
	g.emit("case schema")
	g.emit("schema-files")
	for _, t := range []string{"Epoch", "Subset", "Block", "Rewards", "SlotMeta", "Shredding", "Entry", "Transaction", "DataFrame",
		"List__Link", "List__Shredding", "Hash", "Buffer"} {
		g.emit("schema %s", t)
	}
	// --- every combination of absent / null / value of the optional fields, per kind (finite, exhaustive) ---
	g.emit("case exhaustive-optionals DataFrame")
	for h := 0; h < 3; h++ {
		for i := 0; i < 3; i++ {
			for t := 0; t < 3; t++ {
				for _, nx := range c11NextStates {
					d := g.dataFrame(h, i, t, nx)
					g.node("DataFrame", &d, true)
					g.s.Count("exhaustive-DataFrame")
				}
			}
		}
	}
	g.emit("case exhaustive-optionals Rewards")
	for h := 0; h < 3; h++ {
		for i := 0; i < 3; i++ {
			for t := 0; t < 3; t++ {
				for _, nx := range c11NextStates {
					g.node("Rewards", &ipldbindcode.Rewards{Kind: 5, Slot: g.int(), Data: g.dataFrame(h, i, t, nx)}, nx == 0)
					g.s.Count("exhaustive-Rewards")
				}
			}
		}
	}
	g.emit("case exhaustive-optionals Block")
	for bh := 0; bh < 3; bh++ {
		for ns := 0; ns < 3; ns++ {
			for ne := 0; ne < 3; ne++ {
				g.node("Block", &ipldbindcode.Block{Kind: 2, Slot: g.int(), Shredding: g.shredding(ns), Entries: g.links(ne),
					Meta: ipldbindcode.SlotMeta{Parent_slot: g.int(), Blocktime: g.int(), Block_height: g.optInt(bh)}, Rewards: g.link()}, true)
				g.s.Count("exhaustive-Block")
			}
		}
	}
	g.emit("case exhaustive-optionals Transaction")
	// the full product index × data × metadata has 3·135·135 = 54 675 members: all of them in the thorough tier; in the
	// quick tier index × data (all 135) with a random metadata, and index × metadata (all 135) with a random data
	for ix := 0; ix < 3; ix++ {
		for a := 0; a < 135; a++ {
			for b := 0; b < 135; b++ {
				if !thorough && !(a == (b*7+ix)%135 || b == (a*11+ix+1)%135) {
					continue
				}
				da := g.dataFrame(a/45, a/15%3, a/5%3, c11NextStates[a%5])
				db := g.dataFrame(b/45, b/15%3, b/5%3, c11NextStates[b%5])
				g.node("Transaction", &ipldbindcode.Transaction{Kind: 0, Data: da, Metadata: db, Slot: g.int(), Index: g.optInt(ix)}, a == b)
				g.s.Count("exhaustive-Transaction")
			}
		}
	}
	// --- list lengths 0, 1, 2, 300 for every list field; multi-frame `next` lists ---
	g.emit("case list-lengths")
	for _, n := range []int{0, 1, 2, 300} {
		g.s.Count(fmt.Sprintf("list-len-%d", n))
		g.node("Epoch", &ipldbindcode.Epoch{Kind: 4, Epoch: g.int(), Subsets: g.links(n)}, true)
		g.node("Subset", &ipldbindcode.Subset{Kind: 3, First: g.int(), Last: g.int(), Blocks: g.links(n)}, true)
		g.node("Entry", &ipldbindcode.Entry{Kind: 1, NumHashes: g.int(), Hash: g.rng.Bytes(32), Transactions: g.links(n)}, true)
		g.node("Block", &ipldbindcode.Block{Kind: 2, Slot: g.int(), Shredding: g.shredding(n), Entries: g.links(2),
			Meta: ipldbindcode.SlotMeta{Parent_slot: g.int(), Blocktime: g.int()}, Rewards: g.link()}, false)
		g.node("Block", &ipldbindcode.Block{Kind: 2, Slot: g.int(), Shredding: g.shredding(1), Entries: g.links(n),
			Meta: ipldbindcode.SlotMeta{Parent_slot: g.int(), Blocktime: g.int(), Block_height: g.optInt(2)}, Rewards: g.link()}, false)
		d := g.dataFrame(2, 2, 2, n+2)
		g.node("DataFrame", &d, false)
		g.node("Rewards", &ipldbindcode.Rewards{Kind: 5, Slot: g.int(), Data: g.dataFrame(2, 2, 2, n+2)}, false)
		g.node("Transaction", &ipldbindcode.Transaction{Kind: 0, Data: g.dataFrame(2, 2, 2, n+2), Metadata: g.dataFrame(2, 2, 2, n+2), Slot: g.int(), Index: g.optInt(2)}, false)
	}
	g.emit("case empty-and-long-byte-strings")
	for _, n := range []int{0, 1, 23, 24, 255, 256, 65535, 65536} {
		g.s.Count(fmt.Sprintf("bytes-len-%d", n))
		g.node("Entry", &ipldbindcode.Entry{Kind: 1, NumHashes: g.int(), Hash: g.rng.Bytes(n), Transactions: g.links(1)}, false)
		d := g.dataFrame(2, 0, 1, 0)
		d.Data = g.rng.Bytes(n)
		g.node("DataFrame", &d, false)
	}
	// --- every integer boundary in every integer position ---
	g.emit("case integer-boundaries")
	for _, v := range c11IntBoundaries {
		g.s.Count("int-boundary-directed")
		g.node("Epoch", &ipldbindcode.Epoch{Kind: 4, Epoch: v, Subsets: g.links(1)}, false)
		g.node("Subset", &ipldbindcode.Subset{Kind: 3, First: v, Last: -v - 1, Blocks: g.links(1)}, false)
		g.node("Entry", &ipldbindcode.Entry{Kind: 1, NumHashes: v, Hash: g.rng.Bytes(32)}, false)
		g.node("Block", &ipldbindcode.Block{Kind: 2, Slot: v, Shredding: ipldbindcode.List__Shredding{{EntryEndIdx: v, ShredEndIdx: -v - 1}},
			Meta: ipldbindcode.SlotMeta{Parent_slot: v, Blocktime: -v - 1, Block_height: c11PP(v)}, Rewards: g.link()}, false)
		g.node("Rewards", &ipldbindcode.Rewards{Kind: 5, Slot: v, Data: ipldbindcode.DataFrame{Kind: 6, Hash: c11PP(v), Index: c11PP(-v - 1), Total: c11PP(v), Data: []byte{}}}, false)
		g.node("Transaction", &ipldbindcode.Transaction{Kind: 0, Slot: v, Index: c11PP(v),
			Data:     ipldbindcode.DataFrame{Kind: 6, Hash: c11PP(-v - 1), Data: []byte{1}},
			Metadata: ipldbindcode.DataFrame{Kind: 6, Total: c11PP(v), Data: nil}}, false)
	}
	// --- random typed values ---
	nrand := 150
	if thorough {
		nrand = 15000
	}
	for _, k := range c11Kinds {
		g.emit("case random %s", k)
		for i := 0; i < nrand; i++ {
			g.node(k, g.random(k), i%10 == 0)
			g.s.Count("random-" + k)
		}
	}
	// --- cross-kind decoding: a node of one kind offered to the decoders of the six other kinds ---
	g.emit("case cross-kind")
	for _, n := range g.nodes {
		for _, k := range c11Kinds {
			if k != n[0] {
				g.emit("as %s %s", k, n[1])
			}
		}
	}
	// --- mainnet nodes (the embedded fixtures of the package's own tests), each also offered to the other six decoders ---
	g.emit("case corpus-mainnet-nodes")
	for _, n := range c11Corpus {
		g.emit("node %s %s", n[0], n[1])
		g.s.Count("corpus-nodes")
		for _, k := range c11Kinds {
			if k != n[0] {
				g.emit("as %s %s", k, n[1])
			}
		}
	}
	// --- every node of the fixture CARs ---
	g.fixtures()
	// --- parser resource limit of the hand-written path: one list just below and one just above fxamacker's default ---
	g.emit("case longlist")
	// a 36-byte CID: 131073 of them stay below the schema-driven decoder's allocation budget (not modelled)
	llMh, _ := multihash.Encode(g.rng.Bytes(32), multihash.SHA2_256)
	c := zz.Hex(cid.NewCidV1(cid.DagCBOR, llMh).Bytes())
	g.emit("longlist Subset 131072 %s", c)
	g.emit("longlist Epoch 131073 %s", c)
	// --- inputs outside the schema: no oracle, they only validate the model's error and panic branches ---
	g.probes()
}

func c11RepoRoot() string {
	wd, _ := os.Getwd()
	for d := wd; d != "/" && d != "."; d = filepath.Dir(d) {
		if _, err := os.Stat(filepath.Join(d, "go.mod")); err == nil {
			return d
		}
	}
	return wd
}

func (g *c11Gen) fixtures() {
	root := c11RepoRoot()
	var cars []string
	filepath.Walk(root, func(p string, info os.FileInfo, err error) error {
		if err != nil {
			return nil
		}
		if info.IsDir() && (info.Name() == ".git" || info.Name() == "node_modules" || info.Name() == "target") {
			return filepath.SkipDir
		}
		if !info.IsDir() && strings.HasSuffix(p, ".car") {
			cars = append(cars, p)
		}
		return nil
	})
	sort.Strings(cars)
	for _, p := range cars {
		rel, _ := filepath.Rel(root, p)
		g.emit("case fixture-car %s", rel)
		f, err := os.Open(p)
		if err != nil {
			continue
		}
		cr, err := carreader.New(f)
		if err != nil {
			f.Close()
			g.s.Count("fixture-car-unreadable")
			continue
		}
		g.s.Count("fixture-cars")
		i := 0
		for {
			_, _, data, err := cr.NextNodeBytes()
			if err != nil {
				if !errors.Is(err, io.EOF) {
					g.s.Count("fixture-car-read-error")
				}
				break
			}
			k, err := GetKind(data)
			if err != nil || int(k) < 0 || int(k) > 6 {
				g.s.Count("fixture-node-unknown-kind")
				continue
			}
			h := zz.Hex(data)
			g.emit("node %s %s", k.String(), h)
			g.s.Count("fixture-nodes")
			// cross-kind on every fixture node, two other kinds in rotation
			for j := 1; j <= 2; j++ {
				other := c11Kinds[(int(k)+i+j*3)%7]
				if other != k.String() {
					g.emit("as %s %s", other, h)
				}
			}
			i++
		}
		f.Close()
	}
}

func c11Cbor(v any) []byte {
	b, err := cbor.Marshal(v)
	if err != nil {
		panic(err)
	}
	return b
}

func (g *c11Gen) probes() {
	g.emit("case probes-outside-the-schema")
	c := g.pool[4]
	lk := func(c cid.Cid) cbor.Tag { return cbor.Tag{Number: 42, Content: append([]byte{0}, c.Bytes()...)} }
	df := func() []any { return []any{uint64(6), nil, nil, nil, []byte{1, 2}} }
	p := func(kind string, v any) {
		g.emit("probe %s %s", kind, zz.Hex(c11Cbor(v)))
		g.s.Count("probes")
	}
	// unchecked type assertions of cbor.go (C12's subject; here they validate the model's panic outcomes)
	p("Block", []any{uint64(2), uint64(1), []any{}, []any{}, uint64(5), lk(c)})
	p("Block", []any{uint64(2), uint64(1), []any{}, []any{}, nil, lk(c)})
	p("Entry", []any{uint64(1), uint64(1), uint64(7), []any{}})
	p("Entry", []any{uint64(1), uint64(1), "text", []any{}})
	p("Entry", []any{uint64(1), uint64(1), nil, []any{}})
	p("Transaction", []any{uint64(0), []byte{1}, df(), uint64(1)})
	p("Transaction", []any{uint64(0), df(), nil, uint64(1)})
	p("Rewards", []any{uint64(5), uint64(1), nil})
	p("Rewards", []any{uint64(5), uint64(1), uint64(3)})
	p("Epoch", []any{uint64(4), uint64(1), []any{cbor.Tag{Number: 42, Content: []byte{}}}})
	p("Block", []any{uint64(2), uint64(1), []any{}, []any{}, []any{uint64(1), uint64(2)}, cbor.Tag{Number: 42, Content: []byte{}}})
	// checked ones
	p("Epoch", []any{uint64(4), uint64(1), []any{cbor.Tag{Number: 42, Content: "text"}}})
	p("Epoch", []any{uint64(4), uint64(1), []any{cbor.Tag{Number: 43, Content: append([]byte{0}, c.Bytes()...)}}})
	p("Epoch", []any{uint64(4), uint64(1), []any{append([]byte{0}, c.Bytes()...)}})
	p("Epoch", []any{uint64(4), uint64(1), []any{cbor.Tag{Number: 42, Content: []byte{0, 1, 2}}}})
	p("Epoch", []any{uint64(4), uint64(1), uint64(3)})
	p("Block", []any{uint64(2), uint64(1), uint64(3), []any{}, []any{uint64(1), uint64(2)}, lk(c)})
	p("Block", []any{uint64(2), uint64(1), []any{uint64(3)}, []any{}, []any{uint64(1), uint64(2)}, lk(c)})
	p("Block", []any{uint64(2), uint64(1), []any{[]any{uint64(3)}}, []any{}, []any{uint64(1), uint64(2)}, lk(c)})
	p("Block", []any{uint64(2), uint64(1), []any{}, []any{}, []any{uint64(1), uint64(2)}, uint64(9)})
	p("DataFrame", []any{uint64(6), nil, nil, nil, "text"})
	p("DataFrame", []any{uint64(6), "x", nil, nil, []byte{1}})
	// where the two decoders are known to differ outside the schema
	p("Epoch", []any{uint64(4), uint64(1), []any{}, uint64(99)})                                                           // extra tuple entry
	p("Epoch", []any{uint64(4), uint64(1), nil})                                                                           // null in a non-nullable list
	p("Epoch", []any{uint64(4), nil, []any{}})                                                                             // null in a non-nullable int
	p("Epoch", []any{uint64(4), uint64(1), []any{cbor.Tag{Number: 42, Content: append([]byte{1}, c.Bytes()...)}}})        // multibase prefix not 0x00
	p("Epoch", []any{uint64(4), uint64(1), []any{cbor.Tag{Number: 42, Content: append(append([]byte{0}, c.Bytes()...), 7)}}}) // bytes after the CID
	p("Transaction", []any{uint64(0), []any{uint64(7), nil, nil, nil, []byte{1}}, df(), uint64(1)})                         // embedded DataFrame with another kind
	p("Rewards", []any{uint64(5), uint64(1), []any{uint64(0), nil, nil, nil, []byte{1}}})
	p("Epoch", []any{uint64(4), uint64(math.MaxUint64), []any{}})   // uint64 above MaxInt64 in an int field
	p("Epoch", []any{uint64(4), uint64(1 << 63), []any{lk(c)}})
	p("DataFrame", []any{uint64(6), uint64(math.MaxUint64 - 5), uint64(1 << 63), nil, []byte{}, []any{}})
	// missing required fields, wrong top-level shapes
	p("Epoch", []any{})
	p("Epoch", []any{uint64(4)})
	p("Epoch", []any{uint64(4), uint64(1)})
	p("Subset", []any{uint64(3), uint64(1), uint64(2)})
	p("Block", []any{uint64(2), uint64(1), []any{}, []any{}, []any{uint64(1)}, lk(c)})
	p("Block", []any{uint64(2), uint64(1), []any{}, []any{}, []any{uint64(1), uint64(2), uint64(3), uint64(4)}, lk(c)})
	p("DataFrame", []any{uint64(6), nil, nil, nil})
	p("Transaction", []any{uint64(0), df(), df()})
	p("Epoch", uint64(4))
	p("Epoch", nil)
	p("Epoch", "text")
	p("Epoch", []byte{1, 2})
	p("Epoch", cbor.Tag{Number: 99, Content: []any{uint64(4), uint64(1), []any{}}})
	p("Epoch", []any{int64(-1), uint64(1), []any{}})
	p("Epoch", []any{"4", uint64(1), []any{}})
	// a conforming node followed by one more byte
	raw := c11Encode("Epoch", &ipldbindcode.Epoch{Kind: 4, Epoch: 1, Subsets: g.links(1)})
	g.emit("probe Epoch %s", zz.Hex(append(append([]byte(nil), raw...), 0)))
	g.s.Count("probes")
}

func TestVerifC11(t *testing.T) {
	s := zz.NewSession()
	defer s.Close()
	in := &c11Interp{s: s, expect: map[string]string{}, t: t}
	var ops []string
	if rp := zz.ReplayFile(); rp != "" {
		data, err := os.ReadFile(rp)
		if err != nil {
			t.Fatal(err)
		}
		for _, l := range strings.Split(string(data), "\n") {
			l = strings.TrimSpace(l)
			if l != "" && !strings.HasPrefix(l, "#") {
				ops = append(ops, l)
			}
		}
	} else {
		g := &c11Gen{rng: zz.NewRNG(zz.Seed()), s: s, expect: in.expect}
		g.generate(zz.Thorough())
		ops = g.ops
	}
	for _, op := range ops {
		out, nontrivial := in.exec(op)
		s.Op(op, out, nontrivial)
	}
}

package iplddecoders

// C12 harness for the IPLD node decoders (injected by /verif/check with `go test -overlay`; nothing is written to /repo).
//
//	dec <kind 0..6> <hex>   Decode<Kind>(bytes) (the hand-written UnmarshalCBOR + kind check); on success every accessor
//	                        of methods.go (Has*/Get*, Signature(s), GetSolanaTransaction, MarshalJSON)   -> nopanic
//	decany <hex>            GetKind + DecodeAny                                                           -> nopanic
//
// Valid nodes come from the repository's own MarshalCBOR.  Structure-aware mutation works on two levels:
// the CBOR data model (every field of every tuple — also inside nested DataFrames, shredding pairs, the slot meta and
// the link lists — replaced by a value of every other CBOR type: ints, empty/short byte strings, text, empty list, map,
// null, bool, float, tag 42 around {empty bytes, 1 byte, text, a CID without the 0 prefix}, other tags, bignum tags) and
// the bytes (array/bytes/text length heads set to 0, 1, max and inconsistent values, single-byte mutations, truncation).

import (
	"bytes"
	"crypto/sha256"
	"strconv"
	"strings"
	"testing"

	"github.com/fxamacker/cbor/v2"
	"github.com/ipfs/go-cid"
	cidlink "github.com/ipld/go-ipld-prime/linking/cid"
	"github.com/rpcpool/yellowstone-faithful/ipld/ipldbindcode"
	c12 "github.com/rpcpool/yellowstone-faithful/zzc12"
	zz "github.com/rpcpool/yellowstone-faithful/zzverif"
)

func c12DF(d ipldbindcode.DataFrame) {
	d.HasHash()
	d.GetHash()
	d.HasIndex()
	d.GetIndex()
	d.HasTotal()
	d.GetTotal()
	d.Bytes()
	d.HasNext()
	d.GetNext()
	d.MarshalJSON()
}

func c12ExecDec(op string) string {
	w := strings.Fields(op)
	switch w[0] {
	case "dec":
		k, _ := strconv.Atoi(w[1])
		data := zz.Unhex(w[2])
		var err error
		switch Kind(k) {
		case KindTransaction:
			var x *ipldbindcode.Transaction
			if x, err = DecodeTransaction(data); err == nil {
				x.HasIndex()
				x.GetPositionIndex()
				x.Signature()
				x.Signatures()
				x.GetSolanaTransaction()
				c12DF(x.Data)
				c12DF(x.Metadata)
			}
		case KindEntry:
			var x *ipldbindcode.Entry
			if x, err = DecodeEntry(data); err == nil {
				_ = len(x.Hash) + len(x.Transactions)
			}
		case KindBlock:
			var x *ipldbindcode.Block
			if x, err = DecodeBlock(data); err == nil {
				x.GetBlockHeight()
				x.Meta.HasBlockHeight()
				x.Meta.GetBlockHeight()
				x.Meta.Equivalent(x.Meta)
				if l, ok := x.Rewards.(cidlink.Link); ok {
					_ = l.Cid.String()
				}
			}
		case KindSubset:
			_, err = DecodeSubset(data)
		case KindEpoch:
			_, err = DecodeEpoch(data)
		case KindRewards:
			var x *ipldbindcode.Rewards
			if x, err = DecodeRewards(data); err == nil {
				c12DF(x.Data)
			}
		case KindDataFrame:
			var x *ipldbindcode.DataFrame
			if x, err = DecodeDataFrame(data); err == nil {
				c12DF(*x)
			}
		}
		if err != nil {
			return "err"
		}
		return "ok"
	case "decany":
		data := zz.Unhex(w[1])
		GetKind(data)
		if _, err := DecodeAny(data); err != nil {
			return "err"
		}
		return "ok"
	}
	return "bad-op"
}

func c12Link(rng *zz.RNG) cidlink.Link {
	h := sha256.Sum256(rng.Bytes(8))
	c, err := cid.Cast(append([]byte{0x01, 0x71, 0x12, 0x20}, h[:]...))
	if err != nil {
		panic(err)
	}
	return cidlink.Link{Cid: c}
}

func c12Links(rng *zz.RNG, n int) ipldbindcode.List__Link {
	var l ipldbindcode.List__Link
	for i := 0; i < n; i++ {
		l = append(l, c12Link(rng))
	}
	return l
}

func c12PP(v int) **int { p := &v; return &p }

func c12Frame(rng *zz.RNG, full bool, n int) ipldbindcode.DataFrame {
	d := ipldbindcode.DataFrame{Kind: int(KindDataFrame), Data: rng.Bytes(n)}
	if full {
		d.Hash, d.Index, d.Total = c12PP(int(rng.U64()>>1)), c12PP(0), c12PP(2)
		l := c12Links(rng, 2)
		pl := &l
		d.Next = &pl
	}
	return d
}

// c12ValidNodes: kind -> encodings
func c12ValidNodes(rng *zz.RNG) map[Kind][][]byte {
	out := map[Kind][][]byte{}
	add := func(k Kind, b []byte, err error) {
		if err != nil {
			panic(err)
		}
		out[k] = append(out[k], b)
	}
	for _, full := range []bool{false, true} {
		ep := ipldbindcode.Epoch{Kind: int(KindEpoch), Epoch: 7, Subsets: c12Links(rng, 2)}
		b, err := ep.MarshalCBOR()
		add(KindEpoch, b, err)
		su := ipldbindcode.Subset{Kind: int(KindSubset), First: 10, Last: 20, Blocks: c12Links(rng, 3)}
		b, err = su.MarshalCBOR()
		add(KindSubset, b, err)
		bl := ipldbindcode.Block{Kind: int(KindBlock), Slot: 3024000, Shredding: ipldbindcode.List__Shredding{{EntryEndIdx: 1, ShredEndIdx: 2}, {EntryEndIdx: 3, ShredEndIdx: -1}},
			Entries: c12Links(rng, 2), Meta: ipldbindcode.SlotMeta{Parent_slot: 3023999, Blocktime: 1700000000}, Rewards: c12Link(rng)}
		if full {
			bl.Meta.Block_height = c12PP(123456)
		}
		b, err = bl.MarshalCBOR()
		add(KindBlock, b, err)
		rw := ipldbindcode.Rewards{Kind: int(KindRewards), Slot: 3024000, Data: c12Frame(rng, full, 20)}
		b, err = rw.MarshalCBOR()
		add(KindRewards, b, err)
		en := ipldbindcode.Entry{Kind: int(KindEntry), NumHashes: 12500, Hash: rng.Bytes(32), Transactions: c12Links(rng, 2)}
		b, err = en.MarshalCBOR()
		add(KindEntry, b, err)
		// a transaction whose data really parses as a solana transaction prefix: 1 signature + junk
		txdata := append([]byte{1}, rng.Bytes(64+40)...)
		tx := ipldbindcode.Transaction{Kind: int(KindTransaction), Data: ipldbindcode.DataFrame{Kind: int(KindDataFrame), Data: txdata},
			Metadata: c12Frame(rng, full, 30), Slot: 3024000}
		if full {
			tx.Index = c12PP(5)
		}
		b, err = tx.MarshalCBOR()
		add(KindTransaction, b, err)
		df := c12Frame(rng, full, 40)
		b, err = df.MarshalCBOR()
		add(KindDataFrame, b, err)
	}
	return out
}

// c12Alternatives: one value of every CBOR type (and the tag shapes the link decoder looks at).
func c12Alternatives(rng *zz.RNG) []any {
	good := c12Link(rng).Cid.Bytes()
	return []any{
		uint64(0), uint64(6), uint64(1) << 63, int64(-1), int64(-1 << 63),
		[]byte{}, []byte{0}, []byte{1, 2, 3}, "", "text",
		[]any{}, []any{uint64(6)}, []any{[]any{}}, map[any]any{}, map[any]any{uint64(1): uint64(2)},
		nil, true, false, 1.5,
		cbor.Tag{Number: 42, Content: []byte{}}, cbor.Tag{Number: 42, Content: []byte{0}}, cbor.Tag{Number: 42, Content: []byte{0, 1}},
		cbor.Tag{Number: 42, Content: "text"}, cbor.Tag{Number: 42, Content: uint64(1)}, cbor.Tag{Number: 42, Content: good},
		cbor.Tag{Number: 42, Content: append([]byte{0}, good...)}, cbor.Tag{Number: 43, Content: append([]byte{0}, good...)},
		cbor.Tag{Number: 42, Content: []any{}}, cbor.Tag{Number: 42, Content: cbor.Tag{Number: 42, Content: []byte{}}},
		cbor.Tag{Number: 2, Content: []byte{1, 0, 0, 0, 0, 0, 0, 0, 0}}, cbor.Tag{Number: 3, Content: []byte{1, 0, 0, 0, 0, 0, 0, 0, 0}},
		cbor.Tag{Number: 55799, Content: []any{}},
	}
}

// c12TreeMutants replaces, one at a time, every position of the decoded tree (to depth 3) by every alternative,
// and also drops / duplicates elements of every list.
func c12TreeMutants(tree any, alts []any, depth int, emit func(any)) {
	arr, ok := tree.([]any)
	if !ok || depth == 0 {
		return
	}
	for i := range arr {
		for _, a := range alts {
			cp := append([]any(nil), arr...)
			cp[i] = a
			emit(cp)
		}
		// recurse: mutate inside the element
		c12TreeMutants(arr[i], alts, depth-1, func(sub any) {
			cp := append([]any(nil), arr...)
			cp[i] = sub
			emit(cp)
		})
		if tg, ok := arr[i].(cbor.Tag); ok {
			c12TreeMutants([]any{tg.Content}, alts, 1, func(sub any) {
				if len(sub.([]any)) != 1 {
					return
				}
				cp := append([]any(nil), arr...)
				cp[i] = cbor.Tag{Number: tg.Number, Content: sub.([]any)[0]}
				emit(cp)
			})
		}
	}
	for n := 0; n <= len(arr); n++ { // every shorter tuple
		emit(append([]any(nil), arr[:n]...))
	}
	emit(append(append([]any(nil), arr...), uint64(1)))
}

func c12GenDec(rng *zz.RNG, s *zz.Session, thorough bool) []string {
	var ops []string
	em, _ := cbor.CanonicalEncOptions().EncMode()
	valid := c12ValidNodes(rng)
	alts := c12Alternatives(rng)
	for k := Kind(0); k <= KindDataFrame; k++ {
		for vi, node := range valid[k] {
			ops = append(ops, "dec "+strconv.Itoa(int(k))+" "+zz.Hex(node), "decany "+zz.Hex(node))
			// data-model level
			var tree any
			if err := cbor.Unmarshal(node, &tree); err != nil {
				panic(err)
			}
			c12TreeMutants(tree, alts, 3, func(m any) {
				b, err := em.Marshal(m)
				if err != nil {
					return
				}
				ops = append(ops, "dec "+strconv.Itoa(int(k))+" "+zz.Hex(b))
				s.Count("mut:tree")
			})
			// top level not a list at all
			for _, a := range alts {
				if b, err := em.Marshal(a); err == nil {
					ops = append(ops, "dec "+strconv.Itoa(int(k))+" "+zz.Hex(b), "decany "+zz.Hex(b))
				}
			}
			// byte level: the array head and the first length heads as fields
			fields := []c12.Field{{Name: "arrayHead", Off: 0, Width: 1}, {Name: "kind", Off: 1, Width: 1}}
			for i := 2; i < len(node) && len(fields) < 10; i++ {
				mt := node[i] >> 5
				if mt == 2 || mt == 3 || mt == 4 || mt == 6 {
					fields = append(fields, c12.Field{Name: "head@" + strconv.Itoa(i), Off: i, Width: 1})
				}
			}
			nb, nr := 120, 20
			if thorough {
				nb, nr = 500, 100
			}
			if vi > 0 && !thorough {
				nb, nr = 40, 5
			}
			for mi, mu := range c12.Mutate(rng, node, fields, nb, nr, s.Count) {
				ops = append(ops, "dec "+strconv.Itoa(int(k))+" "+zz.Hex(mu.Data))
				if mi%4 == 0 {
					ops = append(ops, "decany "+zz.Hex(mu.Data))
				}
				// a node of this kind offered to the decoder of another kind
				if mi%9 == 0 {
					ops = append(ops, "dec "+strconv.Itoa(int(k+1)%7)+" "+zz.Hex(mu.Data))
				}
			}
			s.Count("valid-nodes")
		}
	}
	// objects of 0, 1 and 2 bytes: the kind byte is data[1]
	for _, b := range [][]byte{nil, {0x80}, {0x81}, {0x86}, {0x81, 0x00}, {0x82, 0x06}, {0x9f}, {0x9f, 0xff}, {0xbf}, {0xff}, {0x5f}, {0xc6}, {0xd8, 0x2a}} {
		ops = append(ops, "decany "+zz.Hex(b))
		for k := 0; k < 7; k++ {
			ops = append(ops, "dec "+strconv.Itoa(k)+" "+zz.Hex(b))
		}
		s.Count("boundary:tiny-object")
	}
	// resource shapes: deep nesting, huge declared counts, long indefinite lists
	deep := bytes.Repeat([]byte{0x81}, 5000)
	ops = append(ops, "decany "+zz.Hex(deep), "dec 6 "+zz.Hex(append([]byte{0x86, 0x06}, deep...)))
	for _, head := range [][]byte{{0x9b, 0xff, 0xff, 0xff, 0xff, 0xff, 0xff, 0xff, 0xff}, {0x9a, 0xff, 0xff, 0xff, 0xff}, {0x9a, 0x00, 0x02, 0x00, 0x01},
		{0xbb, 0x00, 0x00, 0x00, 0x00, 0xff, 0xff, 0xff, 0xff}, {0x5b, 0x7f, 0xff, 0xff, 0xff, 0xff, 0xff, 0xff, 0xff}, {0x7a, 0xff, 0xff, 0xff, 0xf0}} {
		ops = append(ops, "decany "+zz.Hex(append(head, 0x06, 0x00)), "dec 4 "+zz.Hex(append([]byte{0x83, 0x04, 0x01}, head...)))
		s.Count("boundary:huge-declared-count")
	}
	return ops
}

func TestVerifC12(t *testing.T) {
	if c12.IsChild() {
		c12.Serve(c12ExecDec)
		return
	}
	r := c12.NewRun("TestVerifC12")
	defer r.Close()
	r.Print = func(op string, res c12.Result) string {
		if res.Class == "ok" || res.Class == "err" {
			return "nopanic"
		}
		return res.Class
	}
	ops := c12.ReplayOps()
	if ops == nil {
		ops = c12GenDec(zz.NewRNG(zz.Seed()), r.S, zz.Thorough())
	}
	for _, op := range ops {
		r.Exec(op)
	}
}

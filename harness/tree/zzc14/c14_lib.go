// Package zzc14 is shared by the three C14 harness files (packages tooling, accum and main) that /verif/check
// injects with `go test -overlay`; nothing is written to /repo.
//
// It holds (a) the "world": real ipldbindcode.DataFrame nodes built from the op lines, encoded with the
// repository's own MarshalCBOR, addressed by real CIDv1 (dag-cbor, sha2-256) and decoded again with
// iplddecoders.DecodeDataFrame on every fetch; (b) the generator: a writer that splits a payload into linked
// frames exactly as the comment of ledger.ipldsch prescribes, and every single-frame fault; (c) the oracle
// bookkeeping.  The model (Lean) never sees anything of this but the op lines.
package zzc14

import (
	"context"
	"crypto/sha256"
	"fmt"
	"hash/crc64"
	"hash/fnv"
	"sort"
	"strconv"
	"strings"

	"github.com/cespare/xxhash/v2"
	"github.com/ipfs/go-cid"
	cidlink "github.com/ipld/go-ipld-prime/linking/cid"
	"github.com/multiformats/go-multicodec"
	"github.com/rpcpool/yellowstone-faithful/ipld/ipldbindcode"
	"github.com/rpcpool/yellowstone-faithful/iplddecoders"
	zz "github.com/rpcpool/yellowstone-faithful/zzverif"
)

// ---------------------------------------------------------------------------------------------------
// frame specifications = the `frame` op line

type Spec struct {
	ID        int
	Index     *int
	Total     *int
	Hash      *uint64
	Data      []byte
	Next      []int
	EmptyList bool // encode an empty `next` as a present empty list instead of leaving the field out
}

func optInt(p *int) string {
	if p == nil {
		return "-"
	}
	return strconv.Itoa(*p)
}

func (f Spec) Line() string {
	h := "-"
	if f.Hash != nil {
		h = strconv.FormatUint(*f.Hash, 10)
	}
	nx := "-"
	if len(f.Next) > 0 {
		ss := make([]string, len(f.Next))
		for i, n := range f.Next {
			ss[i] = strconv.Itoa(n)
		}
		nx = strings.Join(ss, ",")
	} else if f.EmptyList {
		nx = "[]"
	}
	return fmt.Sprintf("frame %d %s %s %s %s %s", f.ID, optInt(f.Index), optInt(f.Total), h, zz.Hex(f.Data), nx)
}

func ParseSpec(w []string) (Spec, error) {
	// w = ["frame", id, index, total, hash, data, next]
	if len(w) != 7 {
		return Spec{}, fmt.Errorf("frame line needs 7 words, got %d", len(w))
	}
	var f Spec
	var err error
	if f.ID, err = strconv.Atoi(w[1]); err != nil {
		return f, err
	}
	pi := func(s string) (*int, error) {
		if s == "-" {
			return nil, nil
		}
		v, err := strconv.Atoi(s)
		return &v, err
	}
	if f.Index, err = pi(w[2]); err != nil {
		return f, err
	}
	if f.Total, err = pi(w[3]); err != nil {
		return f, err
	}
	if w[4] != "-" {
		v, err := strconv.ParseUint(w[4], 10, 64)
		if err != nil {
			return f, err
		}
		f.Hash = &v
	}
	f.Data = zz.Unhex(w[5])
	switch w[6] {
	case "-":
	case "[]":
		f.EmptyList = true
	default:
		for _, s := range strings.Split(w[6], ",") {
			v, err := strconv.Atoi(s)
			if err != nil {
				return f, err
			}
			f.Next = append(f.Next, v)
		}
	}
	return f, nil
}

func (f Spec) Clone() Spec {
	g := f
	g.Data = append([]byte{}, f.Data...)
	g.Next = append([]int{}, f.Next...)
	if f.Index != nil {
		v := *f.Index
		g.Index = &v
	}
	if f.Total != nil {
		v := *f.Total
		g.Total = &v
	}
	if f.Hash != nil {
		v := *f.Hash
		g.Hash = &v
	}
	return g
}

// ---------------------------------------------------------------------------------------------------
// the world: real nodes, real CIDs

func pp[T any](v T) **T { p := &v; return &p }

func MkCid(data []byte) cid.Cid {
	bd := cid.V1Builder{MhLength: -1, MhType: uint64(multicodec.Sha2_256), Codec: uint64(multicodec.DagCbor)}
	c, err := bd.Sum(data)
	if err != nil {
		panic(err)
	}
	return c
}

type World struct {
	Keys    map[int]cid.Cid   // op-line id -> the CID under which the store holds the frame
	Store   map[string][]byte // CID key -> CBOR bytes of the DataFrame
	Specs   map[int]Spec
	Fetches int
}

func NewWorld() *World {
	return &World{Keys: map[int]cid.Cid{}, Store: map[string][]byte{}, Specs: map[int]Spec{}}
}

// keyOf: the CID of an id; an id that is linked to before it is defined gets a placeholder CID
func (w *World) keyOf(id int) cid.Cid {
	if c, ok := w.Keys[id]; ok {
		return c
	}
	h := sha256.Sum256([]byte(fmt.Sprintf("verif-c14-placeholder-%d", id)))
	c := MkCid(h[:])
	w.Keys[id] = c
	return c
}

// Node builds the real DataFrame of a spec (links are the CIDs of the ids)
func (w *World) Node(f Spec) *ipldbindcode.DataFrame {
	df := &ipldbindcode.DataFrame{Kind: int(iplddecoders.KindDataFrame)}
	if f.Hash != nil {
		df.Hash = pp(int(*f.Hash))
	}
	if f.Index != nil {
		df.Index = pp(*f.Index)
	}
	if f.Total != nil {
		df.Total = pp(*f.Total)
	}
	df.Data = ipldbindcode.Buffer(append([]byte{}, f.Data...)) // never nil: a nil buffer is written as CBOR null
	if len(f.Next) > 0 || f.EmptyList {
		l := ipldbindcode.List__Link{}
		for _, n := range f.Next {
			l = append(l, cidlink.Link{Cid: w.keyOf(n)})
		}
		df.Next = pp(l)
	}
	return df
}

// Define encodes the frame with the repository's MarshalCBOR and stores it; the first definition of an id
// fixes its CID (the real CID of these bytes); a later definition overwrites the bytes under the same CID
// (a corrupted store) — LoadDataFromDataFrames does not re-hash what the getter returns.
func (w *World) Define(f Spec) error {
	enc, err := w.Node(f).MarshalCBOR()
	if err != nil {
		return err
	}
	if _, ok := w.Keys[f.ID]; !ok {
		w.Keys[f.ID] = MkCid(enc)
	}
	w.Store[w.Keys[f.ID].KeyString()] = enc
	w.Specs[f.ID] = f
	return nil
}

func (w *World) Delete(id int) {
	if c, ok := w.Keys[id]; ok {
		delete(w.Store, c.KeyString())
	}
}

func (w *World) Raw(id int) ([]byte, cid.Cid, bool) {
	c, ok := w.Keys[id]
	if !ok {
		return nil, cid.Undef, false
	}
	b, ok := w.Store[c.KeyString()]
	return b, c, ok
}

// Frame decodes the stored bytes of an id (what a reader of the CAR would hold as the first frame)
func (w *World) Frame(id int) (*ipldbindcode.DataFrame, bool) {
	b, _, ok := w.Raw(id)
	if !ok {
		return nil, false
	}
	df, err := iplddecoders.DecodeDataFrame(b)
	if err != nil {
		panic("stored frame does not decode: " + err.Error())
	}
	return df, true
}

const notFoundMsg = "verif: dataframe not found"

func (w *World) Getter() func(ctx context.Context, c cid.Cid) (*ipldbindcode.DataFrame, error) {
	return func(ctx context.Context, c cid.Cid) (*ipldbindcode.DataFrame, error) {
		w.Fetches++
		b, ok := w.Store[c.KeyString()]
		if !ok {
			return nil, fmt.Errorf(notFoundMsg)
		}
		return iplddecoders.DecodeDataFrame(b)
	}
}

// Classify maps the error texts of data-frames.go / methods.go / accum/tx.go to the model's classes
func Classify(err error) string {
	s := err.Error()
	switch {
	case strings.Contains(s, "dataframe not found"):
		return "get"
	case strings.Contains(s, "expected ") && strings.Contains(s, " frames, got "):
		return "count"
	case strings.Contains(s, "data hash mismatch"):
		return "hash"
	case strings.Contains(s, "failed to decompress"):
		return "zstd"
	}
	return "other(" + s + ")"
}

func Digest(b []byte) string { return fmt.Sprintf("%d %016x", len(b), xxhash.Sum64(b)) }

func Crc(b []byte) uint64 { return crc64.Checksum(b, crc64.MakeTable(crc64.ISO)) }
func Fnv(b []byte) uint64 { h := fnv.New64a(); h.Write(b); return h.Sum64() }

// ---------------------------------------------------------------------------------------------------
// the oracle, independent of the model: `expect <mode> <len> <xxh>` precedes a load
//   exact: the answer must be exactly these bytes (unfaulted layout)
//   safe : the answer must be an error or exactly these bytes (a fault on a payload that carries the frame
//          count and the checksum the writer records): other bytes without an error = the violation
//   none : nothing is promised (payload without count/checksum under a fault)

type Expect struct {
	Mode   string
	Digest string
	Fault  string
}

func ParseExpect(w []string) Expect {
	// expect <mode> <fault-name> <len> <xxh>
	e := Expect{Mode: w[1]}
	if len(w) >= 5 {
		e.Fault = w[2]
		e.Digest = w[3] + " " + w[4]
	}
	return e
}

// Judge returns "" or the description of a violation; answer is "ok <len> <xxh>" or "err:<class>"
func (e Expect) Judge(answer string) string {
	isOk := strings.HasPrefix(answer, "ok ")
	switch e.Mode {
	case "exact":
		if answer != "ok "+e.Digest {
			return fmt.Sprintf("frames laid out as the schema comment prescribes do not reassemble to the original bytes: want ok %s, got %s", e.Digest, answer)
		}
	case "safe":
		if isOk && answer != "ok "+e.Digest {
			return fmt.Sprintf("fault %q on a payload carrying frame count and checksum: different bytes returned without an error (original %s, got %s)", e.Fault, e.Digest, answer)
		}
		if answer == "panic" {
			return fmt.Sprintf("fault %q: reassembly panics", e.Fault)
		}
	}
	return ""
}

// ---------------------------------------------------------------------------------------------------
// the generator

type Gen struct {
	R      *zz.RNG
	Ops    []string
	nextID int
}

func (g *Gen) Emit(f string, a ...any) { g.Ops = append(g.Ops, fmt.Sprintf(f, a...)) }

func (g *Gen) newID() int {
	g.nextID += 1 + g.R.Intn(3)
	return g.nextID
}

// Payload = one payload split into frames by a writer that follows the schema comment
type Payload struct {
	Bytes     []byte
	Chunks    [][]byte
	K, F      int
	HashKind  string // crc | fnv | none
	WithTotal bool
	IDs       []int  // IDs[j] = id of frame j
	Specs     []Spec // as written
}

func (p *Payload) HasBoth() bool { return p.WithTotal && p.HashKind != "none" }
func (p *Payload) First() int    { return p.IDs[0] }

// NextOf: the links of frame j out of k with fan-out F as in ledger.ipldsch:
//   frame 0 -> 1..F, frame F -> F+1..2F, ... ; all other frames have no links
func NextOf(k, F, j int) []int {
	if j%F != 0 {
		return nil
	}
	var out []int
	for i := j + 1; i <= j+F && i <= k-1; i++ {
		out = append(out, i)
	}
	return out
}

// Chunk cuts b into k pieces: "even" = ceil-sized pieces, the rest possibly empty; "random" = random cut
// points (empty pieces allowed)
func (g *Gen) Chunk(b []byte, k int, how string) [][]byte {
	out := make([][]byte, k)
	if how == "even" {
		sz := (len(b) + k - 1) / k
		for i := 0; i < k; i++ {
			lo, hi := i*sz, (i+1)*sz
			if lo > len(b) {
				lo = len(b)
			}
			if hi > len(b) {
				hi = len(b)
			}
			out[i] = b[lo:hi]
		}
		return out
	}
	cuts := make([]int, k-1)
	for i := range cuts {
		cuts[i] = g.R.Intn(len(b) + 1)
	}
	sort.Ints(cuts)
	prev := 0
	for i := 0; i < k-1; i++ {
		out[i] = b[prev:cuts[i]]
		prev = cuts[i]
	}
	out[k-1] = b[prev:]
	return out
}

// Layout writes the frames (children before parents, so that every link is the real CID of real bytes)
// order: "asc" | "desc" | "shuffle" = the order of the links inside each `next` list
func (g *Gen) Layout(b []byte, k, F int, hashKind string, withTotal bool, order, chunking string) *Payload {
	p := &Payload{Bytes: b, K: k, F: F, HashKind: hashKind, WithTotal: withTotal}
	p.Chunks = g.Chunk(b, k, chunking)
	p.IDs = make([]int, k)
	for j := range p.IDs {
		p.IDs[j] = g.newID()
	}
	// ids are handed out in a shuffled way so that id order, index order and definition order all differ
	perm := g.R.Perm(k)
	ids := make([]int, k)
	for j := range ids {
		ids[j] = p.IDs[perm[j]]
	}
	p.IDs = ids
	var hash *uint64
	switch hashKind {
	case "crc":
		v := Crc(b)
		hash = &v
	case "fnv":
		v := Fnv(b)
		hash = &v
	}
	p.Specs = make([]Spec, k)
	for j := k - 1; j >= 0; j-- {
		idx := j
		f := Spec{ID: p.IDs[j], Index: &idx, Data: p.Chunks[j], EmptyList: g.R.Intn(3) == 0}
		if withTotal {
			t := k
			f.Total = &t
		}
		if hash != nil {
			h := *hash
			f.Hash = &h
		}
		nx := NextOf(k, F, j)
		switch order {
		case "desc":
			for l, r := 0, len(nx)-1; l < r; l, r = l+1, r-1 {
				nx[l], nx[r] = nx[r], nx[l]
			}
		case "shuffle":
			pm := g.R.Perm(len(nx))
			sh := make([]int, len(nx))
			for i, q := range pm {
				sh[i] = nx[q]
			}
			nx = sh
		}
		for _, c := range nx {
			f.Next = append(f.Next, p.IDs[c])
		}
		p.Specs[j] = f
		g.Emit("%s", f.Line())
	}
	return p
}

// Scenario = one fault: ops that install it, the frame to load, ops that restore the store
type Scenario struct {
	Name    string
	Setup   []string
	Deleted []int // ids the fault removes from the store (accum: not pushed)
	First   int
	ND      bool   // duplicate / missing indices: the unstable sort decides, compare by membership
	Mode    string // exact | safe | none
	Restore []string
}

func ip(v int) *int { return &v }

// Faults enumerates every single-frame fault on p (q = frames of another payload with the same k, F)
func (g *Gen) Faults(p, q *Payload, limit int) []Scenario {
	var out []Scenario
	k := p.K
	mode := "none"
	if p.HasBoth() {
		mode = "safe"
	}
	pick := func(lo int) int { // a frame index in [lo, k)
		if k <= lo {
			return -1
		}
		return lo + g.R.Intn(k-lo)
	}
	redefine := func(name string, nd bool, md string, fs ...Spec) {
		sc := Scenario{Name: name, First: p.First(), ND: nd, Mode: md}
		for _, f := range fs {
			sc.Setup = append(sc.Setup, f.Line())
			for j := range p.Specs {
				if p.Specs[j].ID == f.ID {
					sc.Restore = append(sc.Restore, p.Specs[j].Line())
				}
			}
		}
		out = append(out, sc)
	}
	parents := []int{}
	for j := 0; j < k; j++ {
		if len(p.Specs[j].Next) > 0 {
			parents = append(parents, j)
		}
	}
	leaves := []int{}
	for j := 1; j < k; j++ {
		if len(p.Specs[j].Next) == 0 {
			leaves = append(leaves, j)
		}
	}
	// --- drop
	if j := pick(1); j > 0 {
		out = append(out, Scenario{Name: "drop-from-store", Setup: []string{fmt.Sprintf("del %d", p.IDs[j])},
			Deleted: []int{p.IDs[j]}, First: p.First(), Mode: mode, Restore: []string{p.Specs[j].Line()}})
	}
	for _, which := range []string{"first", "last"} {
		if len(parents) == 0 {
			break
		}
		pj := parents[0]
		if which == "last" {
			pj = parents[len(parents)-1]
		}
		f := p.Specs[pj].Clone()
		i := g.R.Intn(len(f.Next))
		f.Next = append(f.Next[:i], f.Next[i+1:]...)
		redefine("drop-link-"+which+"-parent", false, mode, f)
	}
	// --- duplicate
	if len(parents) > 0 {
		pj := parents[g.R.Intn(len(parents))]
		f := p.Specs[pj].Clone()
		i := g.R.Intn(len(f.Next))
		f.Next = append(f.Next, f.Next[i])
		redefine("duplicate-link", false, mode, f)
	}
	if len(leaves) >= 2 {
		a, b := leaves[g.R.Intn(len(leaves))], leaves[g.R.Intn(len(leaves))]
		if a != b {
			f := p.Specs[a].Clone()
			f.Next = []int{p.IDs[b]}
			redefine("duplicate-via-extra-link", false, mode, f)
		}
	}
	// --- altered data
	for _, lo := range []int{0, 1} {
		j := pick(lo)
		if j < 0 || len(p.Specs[j].Data) == 0 {
			continue
		}
		f := p.Specs[j].Clone()
		bit := g.R.Intn(len(f.Data) * 8)
		f.Data[bit/8] ^= 1 << (bit % 8)
		name := "bitflip"
		if j == 0 {
			name = "bitflip-first-frame"
		}
		redefine(name, false, mode, f)
	}
	if j := pick(0); j >= 0 && len(p.Specs[j].Data) > 0 {
		f := p.Specs[j].Clone()
		f.Data = f.Data[:len(f.Data)-1]
		redefine("truncate-frame", false, mode, f)
	}
	if j := pick(0); j >= 0 {
		f := p.Specs[j].Clone()
		f.Data = append(f.Data, byte(g.R.Intn(256)))
		redefine("extend-frame", false, mode, f)
	}
	// --- frames of two payloads mixed
	if q != nil && q.K == k {
		if j := pick(1); j > 0 {
			f := q.Specs[j].Clone() // same position of the other payload, stored under p's CID
			f.ID = p.IDs[j]
			f.Next = append([]int{}, p.Specs[j].Next...)
			redefine("swap-with-other-payload-same-index", false, mode, f)
		}
		if k >= 3 {
			j, i := pick(1), pick(1)
			if j != i && len(p.Specs[j].Next) == 0 {
				f := q.Specs[i].Clone() // another position of the other payload: its index collides with frame i
				f.ID = p.IDs[j]
				f.Next = nil
				redefine("swap-with-other-payload-other-index", true, mode, f)
			}
		}
		if len(p.Specs[0].Next) > 0 {
			f := p.Specs[0].Clone() // the first frame of p lists the frames of q
			f.Next = append([]int{}, q.Specs[0].Next...)
			redefine("first-frame-links-other-payload", false, mode, f)
		}
	}
	// --- wrong index
	if k >= 3 {
		j, i := pick(1), pick(1)
		if j != i {
			f := p.Specs[j].Clone()
			f.Index = ip(i)
			redefine("wrong-index-duplicate", true, mode, f)
		}
	}
	if j := pick(1); j > 0 {
		f := p.Specs[j].Clone()
		f.Index = ip(k + 3)
		redefine("wrong-index-beyond", false, mode, f)
	}
	if j := pick(1); j > 0 {
		f := p.Specs[j].Clone()
		f.Index = ip(-1)
		redefine("wrong-index-negative", false, mode, f)
	}
	if j := pick(1); j > 0 {
		f := p.Specs[j].Clone()
		f.Index = nil
		redefine("index-absent", false, mode, f)
	}
	if k >= 3 {
		j, i := pick(1), pick(1)
		if j != i {
			f1, f2 := p.Specs[j].Clone(), p.Specs[i].Clone()
			f1.Index, f2.Index = nil, nil
			redefine("index-absent-twice", true, mode, f1, f2)
		}
	}
	if k >= 2 {
		f := p.Specs[0].Clone()
		f.Index = ip(k - 1)
		redefine("wrong-index-first-frame", true, mode, f)
	}
	// --- wrong total
	if p.WithTotal {
		for ti, t := range []int{k + 1, k - 1, 0, -1} {
			f := p.Specs[0].Clone()
			f.Total = ip(t)
			redefine("wrong-total-first-frame("+[]string{"k+1", "k-1", "0", "-1"}[ti]+")", false, mode, f)
		}
		if j := pick(1); j > 0 {
			f := p.Specs[j].Clone() // only the first frame's total is read: this one must change nothing
			f.Total = ip(k + 7)
			redefine("wrong-total-other-frame", false, "exact", f)
		}
	}
	// --- wrong hash
	if p.HashKind != "none" {
		f := p.Specs[0].Clone()
		h := *f.Hash + 1
		f.Hash = &h
		redefine("wrong-hash-first-frame", false, mode, f)
		if j := pick(1); j > 0 {
			f := p.Specs[j].Clone() // only the first frame's hash is read
			h := *f.Hash ^ 0xffff
			f.Hash = &h
			redefine("wrong-hash-other-frame", false, "exact", f)
		}
		// the other accepted checksum of the same bytes
		f2 := p.Specs[0].Clone()
		var h2 uint64
		if p.HashKind == "crc" {
			h2 = Fnv(p.Bytes)
		} else {
			h2 = Crc(p.Bytes)
		}
		f2.Hash = &h2
		redefine("other-accepted-checksum", false, "exact", f2)
	}
	// --- legacy: count and checksum left out of the first frame (the checks are skipped)
	{
		f := p.Specs[0].Clone()
		f.Total, f.Hash = nil, nil
		redefine("first-frame-without-total-and-hash", false, "exact", f)
	}
	if limit > 0 && len(out) > limit {
		pm := g.R.Perm(len(out))
		sel := make([]Scenario, 0, limit)
		idx := append([]int{}, pm[:limit]...)
		sort.Ints(idx)
		for _, i := range idx {
			sel = append(sel, out[i])
		}
		out = sel
	}
	return out
}

// ContentFaults: the faults that keep the frame count and the indices intact, so that only the checksum can
// catch them (bit flip, truncation, extension, a frame of another payload at the same index)
func (g *Gen) ContentFaults(p, q *Payload) []Scenario {
	var out []Scenario
	for _, sc := range g.Faults(p, q, -1) {
		switch sc.Name {
		case "bitflip", "bitflip-first-frame", "truncate-frame", "extend-frame", "swap-with-other-payload-same-index":
			out = append(out, sc)
		}
	}
	return out
}

// FlagKey is the violation key used while ipldbindcode.DisableHashVerification is set by a `flag` op
const FlagKey = "C14:altered-accepted:hash-verification-flag"

// Sizes: boundary-directed payload sizes for k frames
func (g *Gen) Sizes(k int, max int) []int {
	s := []int{0, 1, k - 1, k, k + 1, 2*k + 1}
	s = append(s, 1+g.R.Intn(max))
	var out []int
	seen := map[int]bool{}
	for _, v := range s {
		if v >= 0 && v <= max && !seen[v] {
			seen[v] = true
			out = append(out, v)
		}
	}
	return out
}

// ReadReplay returns the op lines of a replay file that belong to run `name` (first op line is
// `case run=<name> …`), nil otherwise; lines starting with '#' are comments added by /verif/check
func ReplayLines(data string, name string) []string {
	var ops []string
	for _, l := range strings.Split(data, "\n") {
		l = strings.TrimSpace(l)
		if l == "" || strings.HasPrefix(l, "#") {
			continue
		}
		ops = append(ops, l)
	}
	if len(ops) == 0 || !strings.HasPrefix(ops[0], "case run="+name+" ") {
		return nil
	}
	return ops
}

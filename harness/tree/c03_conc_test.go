package main

// C03, concurrency phases: a colliding absent key requested WHILE the stored key it collides with is being served.
//
// Sequentially the lookups are functions of the key.  Anything that shares work between requests by the object the
// index pointed to (a cache of decoded nodes, request coalescing keyed by CID, a pooled decode buffer) can hand the
// stored key's object to a request for the colliding absent key.  For a pair (stored key S, absent key S' that
// resolves to the same CID in the hash index) N goroutines hammer S and M goroutines hammer S' through
// Epoch.GetBlock / GetTransaction, the JSON-RPC handler or the gRPC method; GOMAXPROCS is varied; the cache is fresh
// (the server is re-created) or warm.  Only results are looked at, never timings: any answer for S' that carries a
// block / transaction is a violation, and so is any answer for S that is not S's own object.
//
// Op line:  concurrent slot|sig epoch|rpc|grpc <E> <stored> <absent> n=<N> m=<M> iters=<k> procs=<p> cache=fresh|warm
// Answer:   "ok" when every request for the stored key got its object and every request for the absent key got
//           not-found (what the sequential model says about each of them); otherwise a description.

import (
	"context"
	"encoding/base64"
	"encoding/hex"
	"encoding/json"
	"fmt"
	"runtime"
	"strings"
	"sync"
	"sync/atomic"

	"github.com/gagliardetto/solana-go"
	old_faithful_grpc "github.com/rpcpool/yellowstone-faithful/old-faithful-proto/old-faithful-grpc"
	zz "github.com/rpcpool/yellowstone-faithful/zzverif"
)

// reloadServer re-creates the current server (same epochs, same options) with a fresh cache
func (h *c03Harness) reloadServer() bool {
	if h.serverLine == "" {
		return false
	}
	word, _ := h.loadServer(strings.Fields(h.serverLine))
	return word == "ok"
}

// one request; the answer words are those of the sequential ops (ok:<slot> / WRONG:<slot> / notfound / err / …)
func (h *c03Harness) slotOnce(via string, e *c03Epoch, slot uint64) string {
	ctx := context.Background()
	return zz.Guard(func() string {
		switch via {
		case "epoch":
			blk, _, err := e.le.Ep.GetBlock(ctx, slot)
			if err != nil {
				return c03ErrWord(err)
			}
			return h.slotAnswer(slot, uint64(blk.Slot))
		case "rpc":
			body := fmt.Sprintf(`{"jsonrpc":"2.0","id":1,"method":"getBlock","params":[%d,{"encoding":"base64","transactionDetails":"signatures","rewards":false,"maxSupportedTransactionVersion":0}]}`, slot)
			_, resp := doRPC(h.handler, body)
			var r c03RPCResp
			if err := json.Unmarshal([]byte(resp), &r); err != nil {
				return "unparsable"
			}
			if r.Error != nil {
				return c03RPCErrWord(&r)
			}
			var br struct {
				Blockhash string `json:"blockhash"`
			}
			if err := json.Unmarshal(r.Result, &br); err != nil || br.Blockhash == "" {
				return "unparsable-result"
			}
			bh, err := solana.HashFromBase58(br.Blockhash)
			if err != nil {
				return "unparsable-result"
			}
			gb := h.byBHash[string(bh[:])]
			if gb == nil {
				return "WRONG:unknown-block"
			}
			return h.slotAnswer(slot, gb.Slot)
		default:
			resp, err := h.multi.GetBlock(ctx, &old_faithful_grpc.BlockRequest{Slot: slot})
			if err != nil {
				return c03GrpcErrWord(err)
			}
			gb := h.byBHash[string(resp.Blockhash)]
			if gb == nil {
				return "WRONG:unknown-block"
			}
			return h.slotAnswer(slot, gb.Slot)
		}
	})
}

func (h *c03Harness) sigOnce(via string, e *c03Epoch, sig solana.Signature) string {
	ctx := context.Background()
	return zz.Guard(func() string {
		switch via {
		case "epoch":
			tx, _, err := e.le.Ep.GetTransaction(ctx, sig)
			if err != nil {
				return c03ErrWord(err)
			}
			got, err := tx.Signature()
			if err != nil {
				return "WRONG:no-signature"
			}
			return h.sigAnswer(sig, got)
		case "rpc":
			body := fmt.Sprintf(`{"jsonrpc":"2.0","id":1,"method":"getTransaction","params":["%s",{"encoding":"base64","maxSupportedTransactionVersion":0}]}`, sig.String())
			_, resp := doRPC(h.handler, body)
			var r c03RPCResp
			if err := json.Unmarshal([]byte(resp), &r); err != nil {
				return "unparsable"
			}
			if r.Error != nil {
				return c03RPCErrWord(&r)
			}
			if strings.TrimSpace(string(r.Result)) == "null" {
				return "notfound"
			}
			var tr struct {
				Transaction []string `json:"transaction"`
			}
			if err := json.Unmarshal(r.Result, &tr); err != nil || len(tr.Transaction) == 0 {
				return "unparsable-result"
			}
			raw, err := base64.StdEncoding.DecodeString(tr.Transaction[0])
			if err != nil {
				return "unparsable-result"
			}
			got, ok := c03FirstSig(raw)
			if !ok {
				return "WRONG:no-signature"
			}
			return h.sigAnswer(sig, got)
		default:
			resp, err := h.multi.GetTransaction(ctx, &old_faithful_grpc.TransactionRequest{Signature: sig[:]})
			if err != nil {
				return c03GrpcErrWord(err)
			}
			got, ok := c03FirstSig(resp.GetTransaction().GetTransaction())
			if !ok {
				return "WRONG:no-signature"
			}
			return h.sigAnswer(sig, got)
		}
	})
}

func c03Arg(w []string, key string, dflt string) string {
	for _, x := range w {
		if strings.HasPrefix(x, key+"=") {
			return x[len(key)+1:]
		}
	}
	return dflt
}

func c03Atoi(s string, dflt int) int {
	n := 0
	if _, err := fmt.Sscanf(s, "%d", &n); err != nil || n <= 0 {
		return dflt
	}
	return n
}

func (h *c03Harness) execConcurrent(line string, w []string) {
	kind, via := w[1], w[2]
	var en uint64
	fmt.Sscanf(w[3], "%d", &en)
	e := h.epochs[en]
	if e == nil || !h.isLoaded(en) {
		h.op(line, "epoch-not-loaded", false)
		return
	}
	n := c03Atoi(c03Arg(w, "n", "4"), 4)
	m := c03Atoi(c03Arg(w, "m", "4"), 4)
	iters := c03Atoi(c03Arg(w, "iters", "200"), 200)
	procs := c03Atoi(c03Arg(w, "procs", "0"), 0)
	if c03Arg(w, "cache", "warm") == "fresh" {
		if !h.reloadServer() {
			h.op(line, "reload-failed", false)
			return
		}
		e = h.epochs[en]
	}
	var stored, absent func() string
	var wantStored string
	switch kind {
	case "slot":
		var s1, s2 uint64
		fmt.Sscanf(w[4], "%d", &s1)
		fmt.Sscanf(w[5], "%d", &s2)
		stored = func() string { return h.slotOnce(via, e, s1) }
		absent = func() string { return h.slotOnce(via, e, s2) }
		wantStored = fmt.Sprintf("ok:%d", s1)
	case "sig":
		var g1, g2 solana.Signature
		copy(g1[:], zz.Unhex(w[4]))
		copy(g2[:], zz.Unhex(w[5]))
		stored = func() string { return h.sigOnce(via, e, g1) }
		absent = func() string { return h.sigOnce(via, e, g2) }
		wantStored = "ok"
	default:
		h.op(line, "bad-op", false)
		return
	}
	if procs > 0 {
		defer runtime.GOMAXPROCS(runtime.GOMAXPROCS(procs))
	}
	var stop atomic.Bool
	var mu sync.Mutex
	badAbsent := map[string]int{}
	badStored := map[string]int{}
	var nStored, nAbsent atomic.Int64
	var wg sync.WaitGroup
	start := make(chan struct{})
	run := func(f func() string, want string, bad map[string]int, cnt *atomic.Int64, stopOnBad bool) {
		defer wg.Done()
		<-start
		for i := 0; i < iters && !stop.Load(); i++ {
			a := f()
			cnt.Add(1)
			if a != want {
				mu.Lock()
				bad[a]++
				mu.Unlock()
				if stopOnBad {
					stop.Store(true) // the phase ends with the first object handed out for the absent key
				}
			}
		}
	}
	for i := 0; i < n; i++ {
		wg.Add(1)
		go run(stored, wantStored, badStored, &nStored, false)
	}
	for i := 0; i < m; i++ {
		wg.Add(1)
		go run(absent, "notfound", badAbsent, &nAbsent, true)
	}
	close(start)
	wg.Wait()
	h.s.Add("concurrent-requests-for-stored-keys", int(nStored.Load()))
	h.s.Add("concurrent-requests-for-colliding-absent-keys", int(nAbsent.Load()))
	h.s.Count(fmt.Sprintf("concurrent-phase:%s-%s:procs=%d:cache=%s", kind, via, procs, c03Arg(w, "cache", "warm")))
	out := "ok"
	if len(badAbsent)+len(badStored) > 0 {
		out = fmt.Sprintf("stored-answered=%v absent-answered=%v", c03Keys2(badStored), c03Keys2(badAbsent))
	}
	h.op(line, out, out == "ok")
	what := map[string]string{"slot": "getBlock", "sig": "getTransaction"}[kind]
	suffix := map[string]string{"slot": "wrong-slot", "sig": "wrong-sig"}[kind]
	for a := range badAbsent {
		if strings.HasPrefix(a, "WRONG:") || strings.HasPrefix(a, "ok") {
			h.viol(fmt.Sprintf("%s(%s) via %s, requested while %d goroutines were requesting the stored key %s it collides with (GOMAXPROCS=%d, cache %s), was answered %s: an object of another key; the archive has nothing for %s",
				what, c03Short(w[5]), via, n, c03Short(w[4]), procs, c03Arg(w, "cache", "warm"), a, c03Short(w[5])), "C03:"+what+"-"+suffix+":concurrent", line)
		} else {
			h.viol(fmt.Sprintf("%s(%s) via %s under concurrent requests for the colliding stored key was answered %q instead of not-found", what, c03Short(w[5]), via, a),
				"C03:"+what+"-absent-key-answer:concurrent", line)
		}
	}
	for a := range badStored {
		h.viol(fmt.Sprintf("%s(%s) via %s (a stored key), requested while %d goroutines were requesting the absent key %s that collides with it, was answered %q instead of its own object",
			what, c03Short(w[4]), via, m, c03Short(w[5]), a), "C03:"+what+"-stored-key-answer:concurrent", line)
	}
}

func c03Short(s string) string {
	if len(s) > 24 {
		if b, err := hex.DecodeString(s); err == nil && len(b) == 64 {
			var g solana.Signature
			copy(g[:], b)
			return g.String()
		}
		return s[:24] + "…"
	}
	return s
}

func c03Keys2(m map[string]int) []string {
	var ks []string
	for k := range m {
		ks = append(ks, k)
	}
	sortStrings(ks)
	return ks
}

func sortStrings(a []string) {
	for i := 1; i < len(a); i++ {
		for j := i; j > 0 && a[j] < a[j-1]; j-- {
			a[j], a[j-1] = a[j-1], a[j]
		}
	}
}

// concurrentPhase emits the ops for the colliding absent slots and signatures of epoch en on the current server
func (h *c03Harness) concurrentPhase(rng *zz.RNG, en uint64, k *c03Keys, thorough bool) {
	e := h.epochs[en]
	if e == nil || e.le.Ep == nil {
		return
	}
	maxKeys, itE, itR := 4, 1500, 120
	if thorough {
		maxKeys, itE, itR = 40, 3000, 250
	}
	procsCycle := []int{1, 2, 8, 0, 3}
	pi := rng.Intn(len(procsCycle))
	nOps := 0
	emit := func(kind, stored, absent string) {
		for _, via := range []string{"epoch", "rpc", "grpc"} {
			it := itR
			if via == "epoch" {
				it = itE
			}
			cache := "warm"
			if nOps%5 == 0 {
				cache = "fresh"
			}
			h.exec(fmt.Sprintf("concurrent %s %s %d %s %s n=%d m=%d iters=%d procs=%d cache=%s", kind, via, en, stored, absent,
				2+rng.Intn(4), 2+rng.Intn(4), it, procsCycle[pi%len(procsCycle)], cache))
			pi++
			nOps++
		}
	}
	cidOf := func(raw []byte) string { return string(raw) }
	byCid := map[string]*gBlock{}
	for _, b := range e.ge.Blocks {
		byCid[cidOf(b.Cid.Bytes())] = b
	}
	for i, s := range k.collSlots {
		if i >= maxKeys {
			break
		}
		c, err := e.le.Ep.slotToCidIndex.Get(s)
		if err != nil {
			continue
		}
		b := byCid[cidOf(c.Bytes())]
		if b == nil {
			continue
		}
		emit("slot", fmt.Sprint(b.Slot), fmt.Sprint(s))
	}
	txByCid := map[string]*gTx{}
	for _, b := range e.ge.Blocks {
		for _, tx := range b.Txs {
			txByCid[cidOf(tx.Cid.Bytes())] = tx
		}
	}
	for i, g := range k.collSigs {
		if i >= maxKeys {
			break
		}
		var sig solana.Signature
		copy(sig[:], g)
		c, err := e.le.Ep.sigToCidIndex.Get(sig)
		if err != nil {
			continue
		}
		tx := txByCid[cidOf(c.Bytes())]
		if tx == nil {
			continue
		}
		emit("sig", hex.EncodeToString(tx.Sig[:]), hex.EncodeToString(g))
	}
}

package solanatxmetaparsers

// C12 harness for the transaction-status metadata parsers (injected by /verif/check with `go test -overlay`; nothing is
// written to /repo).
//
//	txmeta <hex>          ParseTransactionStatusMetaContainer + ParseAnyTransactionStatusMeta (protobuf, then the two
//	                      bincode formats) and the container accessors                               -> nopanic
//	txmeta-proto <hex>    ParseTransactionStatusMeta (protobuf only, google.golang.org/protobuf)     -> nopanic
//	txmeta-latest <hex>   ParseLegacyTransactionStatusMeta (generated bincode reader, v-latest)      -> nopanic
//	txmeta-oldest <hex>   ParseLegacyTransactionStatusMetaOldest (generated bincode reader, v-oldest)-> nopanic
//
// Valid inputs: protobuf messages marshalled with the real message types; bincode values serialised with the generated
// BincodeSerialize of both legacy versions.  Every vector / byte-string length (u64 little endian in bincode) is a field.

import (
	"encoding/binary"
	"strings"
	"testing"

	metalatest "github.com/rpcpool/yellowstone-faithful/parse_legacy_transaction_status_meta/v-latest"
	metaoldest "github.com/rpcpool/yellowstone-faithful/parse_legacy_transaction_status_meta/v-oldest"
	"github.com/rpcpool/yellowstone-faithful/third_party/solana_proto/confirmed_block"
	c12 "github.com/rpcpool/yellowstone-faithful/zzc12"
	zz "github.com/rpcpool/yellowstone-faithful/zzverif"
	"google.golang.org/protobuf/proto"
)

func c12ExecTM(op string) string {
	w := strings.Fields(op)
	data := zz.Unhex(w[1])
	var err error
	switch w[0] {
	case "txmeta":
		var c *TransactionStatusMetaContainer
		c, err = ParseTransactionStatusMetaContainer(data)
		if err == nil {
			c.Ok()
			c.IsEmpty()
			c.IsProtobuf()
			c.IsSerdeLatest()
			c.IsSerdeOldest()
			c.GetProtobuf()
			c.GetSerdeLatest()
			c.GetSerdeOldest()
			c.GetLoadedAccounts()
		}
		ParseAnyTransactionStatusMeta(data)
	case "txmeta-proto":
		_, err = ParseTransactionStatusMeta(data)
	case "txmeta-latest":
		_, err = ParseLegacyTransactionStatusMeta(data)
	case "txmeta-oldest":
		_, err = ParseLegacyTransactionStatusMetaOldest(data)
	default:
		return "bad-op"
	}
	if err != nil {
		return "err"
	}
	return "ok"
}

// c12LenFields: every aligned-or-not position that holds a plausible bincode length (u64 LE, value < 64) in the valid bytes
func c12LenFields(valid []byte, max int) []c12.Field {
	var f []c12.Field
	for i := 0; i+8 <= len(valid) && len(f) < max; i++ {
		v := binary.LittleEndian.Uint64(valid[i:])
		if v > 0 && v < 64 {
			f = append(f, c12.Field{Name: "len@" + zz.Hex([]byte{byte(i)}), Off: i, Width: 8})
		}
	}
	return f
}

func c12GenTM(rng *zz.RNG, s *zz.Session, thorough bool) []string {
	var ops []string
	all := func(b []byte) {
		h := zz.Hex(b)
		ops = append(ops, "txmeta "+h, "txmeta-proto "+h, "txmeta-latest "+h, "txmeta-oldest "+h)
	}
	nb, nr := 150, 40
	if thorough {
		nb, nr = 600, 300
	}
	// protobuf
	{
		m := &confirmed_block.TransactionStatusMeta{
			Fee: 5000, PreBalances: []uint64{1, 2, 3}, PostBalances: []uint64{1, 2, 2},
			LogMessages:             []string{"Program log: hi", "Program 11111111111111111111111111111111 success"},
			LoadedWritableAddresses: [][]byte{rng.Bytes(32)}, LoadedReadonlyAddresses: [][]byte{rng.Bytes(32), rng.Bytes(32)},
			InnerInstructions: []*confirmed_block.InnerInstructions{{Index: 1, Instructions: []*confirmed_block.InnerInstruction{{ProgramIdIndex: 2, Accounts: []byte{1, 2}, Data: rng.Bytes(9)}}}},
			Err:               &confirmed_block.TransactionError{Err: rng.Bytes(5)},
		}
		b, err := proto.Marshal(m)
		if err != nil {
			panic(err)
		}
		var fields []c12.Field
		for i := 0; i < len(b) && len(fields) < 12; i++ { // length-delimited heads (wire type 2) are followed by a varint length
			if b[i]&7 == 2 && i+1 < len(b) {
				fields = append(fields, c12.Field{Name: "pb.len@" + zz.Hex([]byte{byte(i)}), Off: i + 1, Width: 1})
			}
		}
		for _, mu := range c12.Mutate(rng, b, fields, nb, nr, s.Count) {
			all(mu.Data)
		}
		s.Count("valid-files")
	}
	// bincode, latest legacy format
	{
		idx := uint8(1)
		inner := []metalatest.InnerInstructions{{Index: idx, Instructions: []metalatest.CompiledInstruction{{ProgramIdIndex: 3}, {ProgramIdIndex: 4}}}}
		m := metalatest.TransactionStatusMeta{Status: &metalatest.Result__Ok{}, Fee: 5000, PreBalances: []uint64{9, 8, 7}, PostBalances: []uint64{9, 8, 6}, InnerInstructions: &inner}
		b, err := m.BincodeSerialize()
		if err != nil {
			panic(err)
		}
		for _, mu := range c12.Mutate(rng, b, c12LenFields(b, 12), nb, nr, s.Count) {
			all(mu.Data)
		}
		m2 := metalatest.TransactionStatusMeta{Status: &metalatest.Result__Ok{}, Fee: 1}
		b2, _ := m2.BincodeSerialize()
		for _, mu := range c12.Mutate(rng, b2, nil, 40, 5, s.Count) {
			all(mu.Data)
		}
		s.Count("valid-files")
	}
	// bincode, oldest legacy format
	{
		m := metaoldest.TransactionStatusMeta{Status: &metaoldest.Result__Ok{}, Fee: 5000, PreBalances: []uint64{9, 8, 7}, PostBalances: []uint64{9, 8, 6}}
		b, err := m.BincodeSerialize()
		if err != nil {
			panic(err)
		}
		for _, mu := range c12.Mutate(rng, b, c12LenFields(b, 12), nb, nr, s.Count) {
			all(mu.Data)
		}
		s.Count("valid-files")
	}
	// a vector length just below bincode's own limit (2^31-1) in each vector position, with no elements behind it
	for _, l := range []uint64{1<<31 - 1, 1 << 31, 1 << 20, 1 << 27} {
		ok := []byte{0, 0, 0, 0}                                    // Result::Ok
		fee := []byte{1, 0, 0, 0, 0, 0, 0, 0}                       // fee
		ln := binary.LittleEndian.AppendUint64(nil, l)              // huge length
		zero := []byte{0, 0, 0, 0, 0, 0, 0, 0}                      // empty vector
		all(append(append(append([]byte{}, ok...), fee...), ln...)) // pre_balances
		all(append(append(append(append([]byte{}, ok...), fee...), zero...), ln...))
		all(append(append(append(append(append(append([]byte{}, ok...), fee...), zero...), zero...), 1), ln...)) // inner instructions
		s.Count("boundary:vector-length-without-elements")
	}
	all(nil)
	return ops
}

func TestVerifC12(t *testing.T) {
	if c12.IsChild() {
		c12.Serve(c12ExecTM)
		return
	}
	r := c12.NewRun("TestVerifC12")
	defer r.Close()
	r.Print = func(op string, res c12.Result) string {
		if res.Class == "ok" || res.Class == "err" {
			return "nopanic"
		}
		return res.Class
	}
	ops := c12.ReplayOps()
	if ops == nil {
		ops = c12GenTM(zz.NewRNG(zz.Seed()), r.S, zz.Thorough())
	}
	for _, op := range ops {
		r.Exec(op)
	}
}

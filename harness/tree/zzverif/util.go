// Package zzverif holds helpers shared by the verification harness files that the
// /verif check injects into this repository with `go test -overlay` (nothing is written to /repo).
package zzverif

import (
	"bufio"
	"encoding/hex"
	"encoding/json"
	"fmt"
	"os"
	"path/filepath"
	"sort"
	"strconv"
	"strings"
	"sync"
)

// RNG is splitmix64: every random choice of a generator derives from VERIF_SEED through one state.
type RNG struct{ s uint64 }

func NewRNG(seed uint64) *RNG { return &RNG{s: seed*0x9E3779B97F4A7C15 + 0x1234567} }

func (r *RNG) U64() uint64 {
	r.s += 0x9E3779B97F4A7C15
	z := r.s
	z = (z ^ (z >> 30)) * 0xBF58476D1CE4E5B9
	z = (z ^ (z >> 27)) * 0x94D049BB133111EB
	return z ^ (z >> 31)
}
func (r *RNG) Intn(n int) int {
	if n <= 0 {
		return 0
	}
	return int(r.U64() % uint64(n))
}
func (r *RNG) Bytes(n int) []byte {
	b := make([]byte, n)
	for i := 0; i < n; i += 8 {
		v := r.U64()
		for j := 0; j < 8 && i+j < n; j++ {
			b[i+j] = byte(v >> (8 * j))
		}
	}
	return b
}
func (r *RNG) Bool() bool { return r.U64()&1 == 1 }
func (r *RNG) Perm(n int) []int {
	p := make([]int, n)
	for i := range p {
		p[i] = i
	}
	for i := n - 1; i > 0; i-- {
		j := r.Intn(i + 1)
		p[i], p[j] = p[j], p[i]
	}
	return p
}

// Env
func Seed() uint64 {
	v, _ := strconv.ParseUint(os.Getenv("VERIF_SEED"), 10, 64)
	return v
}
func Tier() string {
	t := os.Getenv("VERIF_TIER")
	if t == "" {
		return "quick"
	}
	return t
}
func Thorough() bool { return Tier() == "thorough" }
func OutDir() string {
	d := os.Getenv("VERIF_OUT")
	if d == "" {
		panic("VERIF_OUT not set")
	}
	return d
}
func ReplayFile() string { return os.Getenv("VERIF_REPLAY") }

// Session collects the op stream, the implementation's answers, oracle violations and statistics.
type Session struct {
	mu        sync.Mutex
	ops       *bufio.Writer
	impl      *bufio.Writer
	fo, fi    *os.File
	N         int
	Stats     map[string]int
	Samples   []string
	Viol      []Violation
	Known     []string
	distinct  map[string]struct{}
	nontriv   map[string]struct{}
	maxSample int
	nreplay   int
}

type Violation struct {
	What   string `json:"what"`
	Key    string `json:"key"` // identifying input / call site, matched against known-findings.txt
	Replay string `json:"replay"`
}

func NewSession() *Session {
	d := OutDir()
	os.MkdirAll(d, 0o755)
	fo, err := os.Create(filepath.Join(d, "ops.txt"))
	if err != nil {
		panic(err)
	}
	fi, err := os.Create(filepath.Join(d, "impl.out"))
	if err != nil {
		panic(err)
	}
	return &Session{ops: bufio.NewWriterSize(fo, 1<<20), impl: bufio.NewWriterSize(fi, 1<<20), fo: fo, fi: fi,
		Stats: map[string]int{}, distinct: map[string]struct{}{}, nontriv: map[string]struct{}{}, maxSample: 12}
}

// Op records one operation line and the implementation's canonical answer.
// nontrivial marks answers that reached a non-error branch (counted once per distinct op line).
func (s *Session) Op(op string, out string, nontrivial bool) {
	s.mu.Lock()
	defer s.mu.Unlock()
	if strings.ContainsAny(op, "\n\r") || strings.ContainsAny(out, "\n\r") {
		panic("newline in op/out")
	}
	s.ops.WriteString(op)
	s.ops.WriteByte('\n')
	s.impl.WriteString(out)
	s.impl.WriteByte('\n')
	s.N++
	key := op
	if len(key) > 200 {
		key = key[:200] + fmt.Sprintf("#%d", len(op))
	}
	s.distinct[key] = struct{}{}
	if nontrivial {
		s.nontriv[key] = struct{}{}
	}
	if len(s.Samples) < s.maxSample && (s.N%97 == 1 || s.N < 4) {
		o := op
		if len(o) > 160 {
			o = o[:160] + "…"
		}
		r := out
		if len(r) > 120 {
			r = r[:120] + "…"
		}
		s.Samples = append(s.Samples, o+" => "+r)
	}
}

// Setup records a line that only the model consumes (no answer line expected from either side).
func (s *Session) Count(k string) { s.mu.Lock(); s.Stats[k]++; s.mu.Unlock() }
func (s *Session) Add(k string, n int) { s.mu.Lock(); s.Stats[k] += n; s.mu.Unlock() }

func (s *Session) Violation(what, key, replay string) {
	s.mu.Lock()
	defer s.mu.Unlock()
	s.Viol = append(s.Viol, Violation{what, key, replay})
}

// Replay stores an op sequence that reproduces a failure and returns its path
// (the check copies it under /verif/evidence/replay/).
func (s *Session) Replay(lines []string) string {
	s.mu.Lock()
	defer s.mu.Unlock()
	s.nreplay++
	if s.nreplay > 20 {
		return "(more than 20 replays; not stored)"
	}
	p := filepath.Join(OutDir(), fmt.Sprintf("replay-%d.ops", s.nreplay))
	os.WriteFile(p, []byte(strings.Join(lines, "\n")+"\n"), 0o644)
	return p
}

func (s *Session) Close() {
	s.ops.Flush()
	s.impl.Flush()
	s.fo.Close()
	s.fi.Close()
	keys := make([]string, 0, len(s.Stats))
	for k := range s.Stats {
		keys = append(keys, k)
	}
	sort.Strings(keys)
	st := map[string]any{
		"evaluations": s.N, "distinct": len(s.distinct), "distinct_nontrivial": len(s.nontriv),
		"stats": s.Stats, "samples": s.Samples, "violations": s.Viol,
	}
	b, _ := json.MarshalIndent(st, "", " ")
	os.WriteFile(filepath.Join(OutDir(), "stats.json"), b, 0o644)
}

func Hex(b []byte) string {
	if len(b) == 0 {
		return "-"
	}
	return hex.EncodeToString(b)
}

func Unhex(s string) []byte {
	if s == "-" {
		return nil
	}
	b, err := hex.DecodeString(s)
	if err != nil {
		panic(err)
	}
	return b
}

// Guard runs f under recover and maps a panic to the outcome class "panic".
func Guard(f func() string) (out string) {
	defer func() {
		if r := recover(); r != nil {
			out = "panic"
			LastPanic = fmt.Sprint(r)
		}
	}()
	return f()
}

var LastPanic string

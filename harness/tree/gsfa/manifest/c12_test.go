package manifest

// C12 harness for the address-index manifest (injected by /verif/check with `go test -overlay`; nothing is written to /repo).
//
//	mf <file hex>    the bytes become the file "manifest"; NewManifest(file, empty meta); when it opens: Version(),
//	                 Meta(), ContentSizeBytes(), ReadAll() + First/Last.   Answer: err | ok <number of tuples>
//
// (an empty file is a fresh manifest: NewManifest writes a header into it — on a copy, never on a file of /repo).
// Valid manifests come from the real NewManifest/Put.

import (
	"fmt"
	"os"
	"path/filepath"
	"strings"
	"testing"

	"github.com/rpcpool/yellowstone-faithful/indexmeta"
	c12 "github.com/rpcpool/yellowstone-faithful/zzc12"
	zz "github.com/rpcpool/yellowstone-faithful/zzverif"
)

var c12Dir string

func c12ExecMF(op string) string {
	w := strings.Fields(op)
	switch w[0] {
	case "mf":
		if c12Dir == "" {
			d, err := os.MkdirTemp("", "verif-c12-mf-")
			if err != nil {
				panic(err)
			}
			c12Dir = d
		}
		path := filepath.Join(c12Dir, "manifest")
		if err := os.WriteFile(path, zz.Unhex(w[1]), 0o644); err != nil {
			panic(err)
		}
		m, err := NewManifest(path, indexmeta.Meta{})
		if err != nil {
			return "err"
		}
		defer m.Close()
		m.Version()
		mt := m.Meta()
		mt.GetUint64(indexmeta.MetadataKey_Epoch)
		m.ContentSizeBytes()
		vals, err := m.ReadAll()
		if err != nil {
			return "ok readall-err"
		}
		vals.First()
		vals.Last()
		return fmt.Sprintf("ok %d", len(vals))
	}
	return "bad-op"
}

func c12BuildMF(dir string, rng *zz.RNG, nmeta, ntuples int) ([]byte, []c12.Field) {
	d, _ := os.MkdirTemp(dir, "m")
	path := filepath.Join(d, "manifest")
	var meta indexmeta.Meta
	for i := 0; i < nmeta; i++ {
		if i == 0 {
			meta.AddUint64(indexmeta.MetadataKey_Epoch, 7)
		} else {
			meta.Add(rng.Bytes(1+rng.Intn(6)), rng.Bytes(rng.Intn(12)))
		}
	}
	m, err := NewManifest(path, meta)
	if err != nil {
		panic(err)
	}
	for i := 0; i < ntuples; i++ {
		if err := m.Put(rng.U64(), rng.U64()); err != nil {
			panic(err)
		}
	}
	m.Flush()
	m.Close()
	data, err := os.ReadFile(path)
	if err != nil {
		panic(err)
	}
	fields := []c12.Field{{Name: "version", Off: 8, Width: 8}, {Name: "metaCount", Off: 16, Width: 1}}
	if nmeta > 0 {
		fields = append(fields, c12.Field{Name: "metaKeyLen0", Off: 17, Width: 1},
			c12.Field{Name: "metaValLen0", Off: 18 + int(data[17]), Width: 1})
	}
	return data, fields
}

func c12GenMF(dir string, rng *zz.RNG, s *zz.Session, thorough bool) []string {
	var ops []string
	type spec struct{ nm, nt int }
	specs := []spec{{0, 0}, {1, 1}, {3, 5}, {2, 40}}
	if thorough {
		specs = append(specs, spec{40, 3}, spec{0, 2000})
	}
	for _, sp := range specs {
		data, fields := c12BuildMF(dir, rng, sp.nm, sp.nt)
		nb, nr := 150, 40
		if thorough {
			nb, nr = 600, 300
		}
		for _, mu := range c12.Mutate(rng, data, fields, nb, nr, s.Count) {
			ops = append(ops, "mf "+zz.Hex(mu.Data))
		}
		// content length not a multiple of 16
		for extra := 1; extra < 17; extra++ {
			ops = append(ops, "mf "+zz.Hex(append(append([]byte(nil), data...), rng.Bytes(extra)...)))
			s.Count("boundary:content-length-mod-16")
		}
		s.Count("valid-files")
	}
	// versions 0..6 with and without a metadata section
	for v := 0; v <= 6; v++ {
		b := append([]byte{}, _MAGIC[:]...)
		b = append(b, byte(v), 0, 0, 0, 0, 0, 0, 0)
		ops = append(ops, "mf "+zz.Hex(b), "mf "+zz.Hex(append(append([]byte(nil), b...), 0)), "mf "+zz.Hex(append(append([]byte(nil), b...), 1, 1, 'k', 1, 'v')))
		s.Count("boundary:version")
	}
	return ops
}

func TestVerifC12(t *testing.T) {
	if c12.IsChild() {
		c12.Serve(c12ExecMF)
		if c12Dir != "" {
			os.RemoveAll(c12Dir)
		}
		return
	}
	r := c12.NewRun("TestVerifC12")
	defer r.Close()
	r.Print = func(op string, res c12.Result) string {
		if res.Class == "ok" || res.Class == "err" {
			return res.Answer
		}
		return res.Class
	}
	dir, err := os.MkdirTemp("", "verif-c12-mfgen-")
	if err != nil {
		t.Fatal(err)
	}
	defer os.RemoveAll(dir)
	ops := c12.ReplayOps()
	if ops == nil {
		ops = c12GenMF(dir, zz.NewRNG(zz.Seed()), r.S, zz.Thorough())
	}
	for _, op := range ops {
		r.Exec(op)
	}
}

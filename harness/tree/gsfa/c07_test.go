package gsfa

// C07 harness, package gsfa (injected by /verif/check with `go test -overlay`; nothing is written to /repo).
//
// The real GsfaReaderMultiepoch (GetBeforeUntil, GetBeforeUntilSlot) over real gsfa indexes:
//
//   fixture W  three epochs written with the real GsfaWriter, ONE index per epoch holding 125 addresses:
//              address A<i><j><k> has i entries in the oldest epoch, j in the middle one, k in the newest one
//              (0..4 each), i.e. every combination of per-epoch history lengths 0..4 over three epochs;
//   fixture C  two epochs assembled by hand from the real parts the writer uses (linkedlog.Put with the
//              previous-record callbacks, the pubkey-to-offset-and-size index writer, the manifest) so that an
//              address owns a CHAIN of several records per epoch (the writer only produces that above 1000
//              entries per address): exercises the record loop and its limit check between records.
//
// For every address: every (limit, before, until) with before/until drawn from the address's history or absent,
// limit in -1..13 and 1000; every slot range over the grid of interesting slots; all of it over every non-empty
// subset of the loaded epochs (in descending order), plus the ascending order, plus a reader whose index lookup
// fails.  Op lines carry the history (`hist`) and the queries; the Lean driver answers with the model
// (Faithful/Lib/Paging.lean).  The oracle below is the property itself, computed by slicing the ground truth.

import (
	"context"
	"crypto/sha256"
	"fmt"
	"os"
	"path/filepath"
	"sort"
	"strconv"
	"strings"
	"sync"
	"testing"

	"github.com/gagliardetto/solana-go"
	"github.com/ipfs/go-cid"
	"github.com/rpcpool/yellowstone-faithful/gsfa/linkedlog"
	"github.com/rpcpool/yellowstone-faithful/gsfa/manifest"
	"github.com/rpcpool/yellowstone-faithful/indexes"
	"github.com/rpcpool/yellowstone-faithful/indexmeta"
	"github.com/rpcpool/yellowstone-faithful/ipld/ipldbindcode"
	zz "github.com/rpcpool/yellowstone-faithful/zzverif"
)

const c07EpochLen = 432000

type c07Tx struct {
	tok       string // name of the signature on the op lines
	sig       solana.Signature
	slot      uint64
	off, size uint64
}

// ground truth of one address in one epoch: the chain of records, newest record first, newest entry first
type c07Chain [][]*c07Tx

type c07World struct {
	s      *zz.Session
	epochs []uint64                     // ascending
	dirs   map[uint64]string            // epoch -> index dir
	truth  map[string]map[uint64]c07Chain // address name -> epoch -> chain (missing = address not in that epoch)
	keys   map[string]solana.PublicKey
	names  []string
	byLoc  map[[2]uint64]*c07Tx // (epoch, offset) -> tx
	bySig  map[solana.Signature]string
	byTok  map[string]c07Item
	caseOps []string
	nviol  map[string]int
}

func c07Key(space byte, n int) solana.PublicKey {
	var k solana.PublicKey
	k[0] = 0xC7
	k[1] = space
	k[30] = byte(n >> 8)
	k[31] = byte(n)
	return k
}

// the signature named `tok` on the op lines
func c07Sig(tok string) solana.Signature {
	var s solana.Signature
	a := sha256.Sum256([]byte("c07/" + tok))
	b := sha256.Sum256([]byte("c07//" + tok))
	copy(s[:32], a[:])
	copy(s[32:], b[:])
	return s
}

// one planned entry of a chain fixture
type c07Plan struct {
	tok  string
	slot uint64
}

var c07Root = func() cid.Cid {
	c, err := cid.Decode("bafyreigh2akiscaildcqabsyg3dfr6chu3fgpregiymsck7e7aqa4s52zy")
	if err != nil {
		panic(err)
	}
	return c
}()

func (w *c07World) op(line, out string, nontrivial bool) {
	w.caseOps = append(w.caseOps, line)
	w.s.Op(line, out, nontrivial)
}

func (w *c07World) viol(what, key string, lines []string) {
	w.nviol[key]++
	if w.nviol[key] > 3 {
		return
	}
	w.s.Violation(what, key, w.s.Replay(lines))
}

// slots of the entries of an address inside an epoch, oldest first: two entries share a slot
var c07SlotOff = []uint64{2, 2, 5, 7}

func (w *c07World) register(name string, epoch uint64, chain c07Chain) {
	if w.truth[name] == nil {
		w.truth[name] = map[uint64]c07Chain{}
	}
	w.truth[name][epoch] = chain
	for _, rec := range chain {
		for _, tx := range rec {
			w.byLoc[[2]uint64{epoch, tx.off}] = tx
			w.bySig[tx.sig] = tx.tok
			w.byTok[tx.tok] = c07Item{epoch, tx}
		}
	}
}

// fixture W: the real GsfaWriter, one index per epoch, 125 addresses
func (w *c07World) buildWriterFixture(root string) error {
	var wg sync.WaitGroup
	errs := make([]error, len(w.epochs))
	type push struct {
		tx  *c07Tx
		key solana.PublicKey
	}
	plans := make([][]push, len(w.epochs))
	for ei, epoch := range w.epochs {
		base := epoch * c07EpochLen
		off := uint64(1000)
		perAddr := map[int][]*c07Tx{}
		for m := 0; m < 4; m++ { // chronological: entry m of every address that has more than m entries
			for a := 0; a < 125; a++ {
				cnt := [3]int{a / 25, (a / 5) % 5, a % 5}[ei]
				if cnt <= m {
					continue
				}
				tok := fmt.Sprintf("w%d.%d.%d", epoch, a, m)
				tx := &c07Tx{tok: tok, sig: c07Sig(tok), slot: base + c07SlotOff[m], off: off, size: 50 + uint64(m)}
				off += 97
				perAddr[a] = append(perAddr[a], tx)
				plans[ei] = append(plans[ei], push{tx, c07Key('W', a)})
			}
		}
		for a := 0; a < 125; a++ {
			name := fmt.Sprintf("A%d%d%d", a/25, (a/5)%5, a%5)
			if ei == 0 {
				w.keys[name] = c07Key('W', a)
				w.names = append(w.names, name)
			}
			txs := perAddr[a]
			if len(txs) == 0 {
				continue
			}
			rec := make([]*c07Tx, 0, len(txs))
			for i := len(txs) - 1; i >= 0; i-- {
				rec = append(rec, txs[i])
			}
			w.register(name, epoch, c07Chain{rec})
		}
	}
	for ei, epoch := range w.epochs {
		dir := filepath.Join(root, fmt.Sprintf("w-%d", epoch))
		w.dirs[epoch] = filepath.Join(dir, "idx")
		wg.Add(1)
		go func(ei int, epoch uint64, dir string) {
			defer wg.Done()
			tmp := filepath.Join(dir, "tmp")
			if err := os.MkdirAll(tmp, 0o755); err != nil {
				errs[ei] = err
				return
			}
			gw, err := NewGsfaWriter(filepath.Join(dir, "idx"), indexmeta.Meta{}, epoch, c07Root, indexes.NetworkMainnet, tmp)
			if err != nil {
				errs[ei] = err
				return
			}
			for _, p := range plans[ei] {
				if err := gw.Push(p.tx.off, p.tx.size, p.tx.slot, solana.PublicKeySlice{p.key}, true, true, false); err != nil {
					errs[ei] = err
					return
				}
			}
			errs[ei] = gw.Close()
		}(ei, epoch, dir)
	}
	wg.Wait()
	for _, e := range errs {
		if e != nil {
			return e
		}
	}
	return nil
}

// fixture C: record chains assembled with the real linked log, offsets index and manifest
func (w *c07World) buildChainFixture(root string, epochs []uint64, shapes map[string]map[uint64][][]c07Plan) error {
	for _, epoch := range epochs {
		dir := filepath.Join(root, fmt.Sprintf("c-%d", epoch), "idx")
		tmp := filepath.Join(root, fmt.Sprintf("c-%d", epoch), "tmp")
		if err := os.MkdirAll(dir, 0o755); err != nil {
			return err
		}
		if err := os.MkdirAll(tmp, 0o755); err != nil {
			return err
		}
		w.dirs[epoch] = dir
		ll, err := linkedlog.NewLinkedLog(filepath.Join(dir, "linked-log"))
		if err != nil {
			return err
		}
		heads := map[solana.PublicKey][2]uint64{}
		names := make([]string, 0, len(shapes))
		for n := range shapes {
			names = append(names, n)
		}
		sort.Strings(names)
		off := uint64(5000)
		// round r writes the r-th oldest record of every address that has one (as successive flushes would)
		for round := 0; ; round++ {
			any := false
			for _, name := range names {
				shape := shapes[name][epoch] // records, oldest record first, oldest entry first
				if round >= len(shape) {
					continue
				}
				any = true
				key := w.keys[name]
				var vals []*linkedlog.OffsetAndSizeAndSlot
				var rec []*c07Tx
				for _, pl := range shape[round] {
					tx := &c07Tx{tok: pl.tok, sig: c07Sig(pl.tok), slot: pl.slot, off: off, size: 40}
					off += 131
					o := linkedlog.NewOffsetAndSizeAndSlot(tx.off, tx.size, tx.slot)
					o.SetHasMeta(true)
					vals = append(vals, o)
					rec = append([]*c07Tx{tx}, rec...) // newest first
				}
				_, err := ll.Put(
					func(pk solana.PublicKey) (indexes.OffsetAndSize, error) {
						h, ok := heads[pk]
						if !ok {
							return indexes.OffsetAndSize{}, nil
						}
						return indexes.OffsetAndSize{Offset: h[0], Size: h[1]}, nil
					},
					func(pk solana.PublicKey, offset uint64, ln uint32) error {
						heads[pk] = [2]uint64{offset, uint64(ln)}
						return nil
					},
					linkedlog.KeyToOffsetAndSizeAndBlocktime{Key: key, Values: vals},
				)
				if err != nil {
					return err
				}
				chain := w.truth[name][epoch]
				w.register(name, epoch, append(c07Chain{rec}, chain...))
			}
			if !any {
				break
			}
		}
		ow, err := indexes.NewWriter_PubkeyToOffsetAndSize(epoch, c07Root, indexes.NetworkMainnet, tmp)
		if err != nil {
			return err
		}
		ks := make(solana.PublicKeySlice, 0, len(heads))
		for k := range heads {
			ks = append(ks, k)
		}
		ks.Sort()
		for _, k := range ks {
			if err := ow.Put(k, heads[k][0], heads[k][1]); err != nil {
				return err
			}
		}
		if err := ow.SealWithFilename(context.Background(), filepath.Join(dir, string(indexes.Kind_PubkeyToOffsetAndSize)+".index")); err != nil {
			return err
		}
		ow.Close()
		if err := ll.Close(); err != nil {
			return err
		}
		man, err := manifest.NewManifest(filepath.Join(dir, "manifest"), indexmeta.Meta{})
		if err != nil {
			return err
		}
		man.Close()
	}
	return nil
}

func c07ChainStr(c c07Chain) string {
	var recs []string
	for _, r := range c {
		var es []string
		for _, tx := range r {
			es = append(es, fmt.Sprintf("%s@%d", tx.tok, tx.slot))
		}
		recs = append(recs, strings.Join(es, ","))
	}
	return strings.Join(recs, "|")
}

type c07View struct {
	name    string   // as on the op line: epochs in the order supplied, `!` = the lookup of this reader fails
	epochs  []uint64
	broken  map[uint64]bool
	multi   *GsfaReaderMultiepoch
	readers []*GsfaReader
}

func (w *c07World) openView(epochs []uint64, broken map[uint64]bool) (*c07View, error) {
	v := &c07View{epochs: epochs, broken: broken}
	var parts []string
	for _, e := range epochs {
		r, err := NewGsfaReader(w.dirs[e])
		if err != nil {
			return nil, err
		}
		r.SetEpoch(e)
		if broken[e] {
			r.offsets.Close() // every lookup now fails with an error that is not "not found"
			parts = append(parts, fmt.Sprintf("%d!", e))
		} else {
			parts = append(parts, fmt.Sprint(e))
		}
		v.readers = append(v.readers, r)
	}
	v.name = strings.Join(parts, ",")
	m, err := NewGsfaReaderMultiepoch(v.readers)
	if err != nil {
		return nil, err
	}
	v.multi = m
	return v, nil
}

func (v *c07View) close() {
	for _, r := range v.readers {
		r.ll.Close()
		if !v.broken[r.epochOrZero()] {
			r.offsets.Close()
		}
	}
}

func (r *GsfaReader) epochOrZero() uint64 {
	e, _ := r.GetEpoch()
	return e
}

// flat ground truth of an address under a view: (epoch, tx) newest first in the order the epochs are supplied
type c07Item struct {
	epoch uint64
	tx    *c07Tx
}

func (w *c07World) flat(v *c07View, name string) []c07Item {
	var out []c07Item
	for _, e := range v.epochs {
		for _, rec := range w.truth[name][e] {
			for _, tx := range rec {
				out = append(out, c07Item{e, tx})
			}
		}
	}
	return out
}

func c07Canon(v *c07View, items []c07Item) string {
	if len(items) == 0 {
		return "ok -"
	}
	var parts []string
	for _, e := range v.epochs {
		var toks []string
		for _, it := range items {
			if it.epoch == e {
				toks = append(toks, it.tx.tok)
			}
		}
		if len(toks) > 0 {
			parts = append(parts, fmt.Sprintf("%d:%s", e, strings.Join(toks, ",")))
		}
	}
	return "ok " + strings.Join(parts, ";")
}

func (w *c07World) fetcher(bad *string) func(uint64, linkedlog.OffsetAndSizeAndSlot) (*ipldbindcode.Transaction, error) {
	return func(epoch uint64, loc linkedlog.OffsetAndSizeAndSlot) (*ipldbindcode.Transaction, error) {
		tx := w.byLoc[[2]uint64{epoch, loc.Offset}]
		if tx == nil {
			*bad = fmt.Sprintf("unknown location epoch=%d offset=%d size=%d slot=%d", epoch, loc.Offset, loc.Size, loc.Slot)
			return nil, fmt.Errorf("unknown location")
		}
		if tx.size != loc.Size || tx.slot != loc.Slot {
			*bad = fmt.Sprintf("location epoch=%d offset=%d carries size=%d slot=%d, written size=%d slot=%d", epoch, loc.Offset, loc.Size, loc.Slot, tx.size, tx.slot)
		}
		data := append([]byte{1}, tx.sig[:]...)
		return &ipldbindcode.Transaction{Kind: 0, Slot: int(tx.slot), Data: ipldbindcode.DataFrame{Kind: 6, Data: data}}, nil
	}
}

// result map -> items, reading the map by the view's epochs (canonical); also checks that no other key exists
func (w *c07World) fromMap(v *c07View, m EpochToTransactionObjects) ([]c07Item, string) {
	var out []c07Item
	seen := 0
	for _, e := range v.epochs {
		txs, ok := m[e]
		if !ok {
			continue
		}
		seen++
		for _, t := range txs {
			sig, err := t.Signature()
			if err != nil {
				return nil, "bad-signature"
			}
			tok, ok := w.bySig[sig]
			if !ok {
				return nil, "unknown-signature"
			}
			it, ok := w.byTok[tok]
			if !ok || it.epoch != e {
				return nil, "signature-from-other-epoch"
			}
			out = append(out, it)
		}
	}
	if seen != len(m) {
		return nil, "unexpected-epoch-key"
	}
	return out, ""
}

func c07Opt(s *solana.Signature, tok string) string {
	if s == nil {
		return "-"
	}
	return tok
}

// the property, stated executably on the ground truth
func c07Slice(flat []c07Item, limit int, before, until string) []c07Item {
	if limit <= 0 {
		return nil
	}
	start := 0
	if before != "-" {
		start = len(flat)
		for i, it := range flat {
			if it.tx.tok == before {
				start = i + 1
				break
			}
		}
	}
	var out []c07Item
	for i := start; i < len(flat) && len(out) < limit; i++ {
		out = append(out, flat[i])
		if until != "-" && flat[i].tx.tok == until {
			break
		}
	}
	return out
}

func c07Window(flat []c07Item, limit int, before, until uint64) []c07Item {
	var out []c07Item
	if limit <= 0 {
		return nil
	}
	for _, it := range flat {
		if it.tx.slot >= until && it.tx.slot < before && len(out) < limit {
			out = append(out, it)
		}
	}
	return out
}

func c07Same(a, b []c07Item) bool {
	if len(a) != len(b) {
		return false
	}
	for i := range a {
		if a[i] != b[i] {
			return false
		}
	}
	return true
}

func (w *c07World) histOps(names []string, epochs []uint64) {
	for _, name := range names {
		for _, e := range epochs {
			chain, ok := w.truth[name][e]
			if !ok {
				w.op(fmt.Sprintf("hist %s e=%d absent", name, e), "ok", false)
				continue
			}
			w.op(fmt.Sprintf("hist %s e=%d %s", name, e, c07ChainStr(chain)), "ok", true)
		}
	}
}

func (w *c07World) query(v *c07View, name string, limit int, beforeTok, untilTok string) {
	ctx := context.Background()
	var before, until *solana.Signature
	if beforeTok != "-" {
		s := w.sigOf(beforeTok)
		before = &s
	}
	if untilTok != "-" {
		s := w.sigOf(untilTok)
		until = &s
	}
	line := fmt.Sprintf("q %s %s %d %s %s", v.name, name, limit, beforeTok, untilTok)
	bad := ""
	var items []c07Item
	got := zz.Guard(func() string {
		m, err := v.multi.GetBeforeUntil(ctx, w.keys[name], limit, before, until, w.fetcher(&bad))
		if err != nil {
			return "err"
		}
		var why string
		items, why = w.fromMap(v, m)
		if why != "" {
			return "bad " + why
		}
		return c07Canon(v, items)
	})
	w.op(line, got, strings.HasPrefix(got, "ok ") && got != "ok -")
	w.s.Count("q")
	if bad != "" {
		w.viol("the index handed the fetcher a location that was never written: "+bad, "C07:location-mismatch", w.replayFor(name, v, line))
	}
	anyBroken := len(v.broken) > 0
	if anyBroken {
		return // the oracle below speaks about readers whose lookups work
	}
	want := c07Slice(w.flat(v, name), limit, beforeTok, untilTok)
	if !strings.HasPrefix(got, "ok ") || !c07Same(items, want) {
		w.viol(fmt.Sprintf("GetBeforeUntil(limit=%d before=%s until=%s) over epochs [%s] for %s returned %q, the slice of the history is %q",
			limit, beforeTok, untilTok, v.name, name, got, c07Canon(v, want)), "C07:paging-slice-wrong", w.replayFor(name, v, line))
	}
	if len(want) > 0 {
		w.s.Count(fmt.Sprintf("slice-spans-%d-epochs", c07Span(want)))
	}
}

func c07Span(items []c07Item) int {
	m := map[uint64]bool{}
	for _, it := range items {
		m[it.epoch] = true
	}
	return len(m)
}

// "zz" names a signature that is in no history
func (w *c07World) sigOf(tok string) solana.Signature { return c07Sig(tok) }

func (w *c07World) querySlot(v *c07View, name string, limit int, before, until uint64) {
	ctx := context.Background()
	line := fmt.Sprintf("qs %s %s %d %d %d", v.name, name, limit, before, until)
	bad := ""
	var items []c07Item
	got := zz.Guard(func() string {
		m, err := v.multi.GetBeforeUntilSlot(ctx, w.keys[name], limit, before, until, w.fetcher(&bad))
		if err != nil {
			return "err"
		}
		var why string
		items, why = w.fromMap(v, m)
		if why != "" {
			return "bad " + why
		}
		return c07Canon(v, items)
	})
	w.op(line, got, strings.HasPrefix(got, "ok ") && got != "ok -")
	w.s.Count("qs")
	if len(v.broken) > 0 {
		return
	}
	for _, it := range items {
		if it.tx.slot >= before {
			w.s.Count("slot-above-range-returned")
			w.viol(fmt.Sprintf("GetBeforeUntilSlot(limit=%d before=%d until=%d) over epochs [%s] for %s returned %s at slot %d, which is not below `before`: %q",
				limit, before, until, v.name, name, it.tx.tok, it.tx.slot, got), "C07:slot-above-range", w.replayFor(name, v, line))
			return
		}
		if it.tx.slot < until {
			w.viol(fmt.Sprintf("GetBeforeUntilSlot(limit=%d before=%d until=%d) for %s returned %s at slot %d below `until`", limit, before, until, name, it.tx.tok, it.tx.slot),
				"C07:slot-below-range", w.replayFor(name, v, line))
			return
		}
	}
	// completeness is stated for histories sorted by slot: epochs supplied newest first
	if !c07Descending(v.epochs) {
		return
	}
	want := c07Window(w.flat(v, name), limit, before, until)
	if !strings.HasPrefix(got, "ok ") || !c07Same(items, want) {
		w.viol(fmt.Sprintf("GetBeforeUntilSlot(limit=%d before=%d until=%d) over epochs [%s] for %s returned %q, the in-window entries are %q",
			limit, before, until, v.name, name, got, c07Canon(v, want)), "C07:slot-window-incomplete", w.replayFor(name, v, line))
	}
}

func c07Descending(es []uint64) bool {
	for i := 1; i < len(es); i++ {
		if es[i] >= es[i-1] {
			return false
		}
	}
	return true
}

func (w *c07World) replayFor(name string, v *c07View, line string) []string {
	lines := []string{fmt.Sprintf("# seed=%d tier=%s", zz.Seed(), zz.Tier())}
	for _, e := range v.epochs {
		if chain, ok := w.truth[name][e]; ok {
			lines = append(lines, fmt.Sprintf("hist %s e=%d %s", name, e, c07ChainStr(chain)))
		} else {
			lines = append(lines, fmt.Sprintf("hist %s e=%d absent", name, e))
		}
	}
	return append(lines, line)
}

func (w *c07World) tokens(v *c07View, name string) []string {
	toks := []string{"-"}
	for _, it := range w.flat(v, name) {
		toks = append(toks, it.tx.tok)
	}
	return append(toks, "zz")
}

// every (limit, before, until) for one address under one view
func (w *c07World) exhaustPaging(v *c07View, name string, limits []int) {
	toks := w.tokens(v, name)
	for _, b := range toks {
		for _, u := range toks {
			for _, l := range limits {
				w.query(v, name, l, b, u)
			}
		}
	}
}

func (w *c07World) slotGrid(epochs []uint64, offs []uint64) []uint64 {
	set := map[uint64]bool{0: true}
	for _, e := range epochs {
		base := e * c07EpochLen
		for _, o := range offs {
			set[base+o] = true
		}
		set[base-1] = true
		set[base+c07EpochLen-1] = true
		set[base+c07EpochLen] = true
	}
	var out []uint64
	for s := range set {
		out = append(out, s)
	}
	sort.Slice(out, func(i, j int) bool { return out[i] < out[j] })
	return out
}

func (w *c07World) exhaustSlots(v *c07View, name string, grid []uint64, limits []int) {
	for _, b := range grid {
		for _, u := range grid {
			for _, l := range limits {
				w.querySlot(v, name, l, b, u)
			}
		}
	}
}

func c07Subsets(epochsAsc []uint64) [][]uint64 {
	var out [][]uint64
	n := len(epochsAsc)
	for mask := 1; mask < 1<<n; mask++ {
		var es []uint64
		for i := n - 1; i >= 0; i-- { // descending
			if mask&(1<<i) != 0 {
				es = append(es, epochsAsc[i])
			}
		}
		out = append(out, es)
	}
	sort.Slice(out, func(i, j int) bool { return len(out[i]) > len(out[j]) })
	return out
}

func TestVerifC07(t *testing.T) {
	s := zz.NewSession()
	defer s.Close()
	root, err := os.MkdirTemp("", "verif-c07-")
	if err != nil {
		t.Fatal(err)
	}
	defer os.RemoveAll(root)
	w := &c07World{s: s, epochs: []uint64{3, 5, 6}, dirs: map[uint64]string{}, truth: map[string]map[uint64]c07Chain{},
		keys: map[string]solana.PublicKey{}, byLoc: map[[2]uint64]*c07Tx{}, bySig: map[solana.Signature]string{}, byTok: map[string]c07Item{}, nviol: map[string]int{}}

	if rp := zz.ReplayFile(); rp != "" {
		w.replay(t, root, rp)
		return
	}
	rng := zz.NewRNG(zz.Seed())

	// ---------------- fixture W: the real writer ----------------
	w.op("case writer-fixture epochs=3,5,6 addresses=125", "ok", false)
	if err := w.buildWriterFixture(root); err != nil {
		w.viol("the real GsfaWriter failed on 125 addresses with at most 4 entries each: "+err.Error(), "C07:fixture-writer-failed", w.caseOps)
		return
	}
	w.histOps(w.names, []uint64{6, 5, 3})
	full, err := w.openView([]uint64{6, 5, 3}, nil)
	if err != nil {
		t.Fatal(err)
	}
	limits := []int{-1, 0, 1, 2, 3, 4, 5, 6, 7, 8, 9, 10, 11, 12, 13, 1000}
	// exhaustive: all 125 per-epoch length combinations x every (limit, before, until)
	for _, name := range w.names {
		w.exhaustPaging(full, name, limits)
	}
	s.Add("addresses-exhausted-3-epochs", len(w.names))
	// every slot range over the grid, for every address
	grid := w.slotGrid(w.epochs, []uint64{0, 2, 3, 5, 7, 8})
	slotLimits := []int{1, 2, 100}
	gridNames := w.names
	if zz.Thorough() {
		slotLimits = []int{0, 1, 2, 3, 5, 100}
	}
	for _, name := range gridNames {
		w.exhaustSlots(full, name, grid, slotLimits)
	}
	s.Add("addresses-all-slot-ranges", len(gridNames))
	full.close()

	// 1..k epochs loaded: every non-empty subset (descending), and the ascending order
	subLimits := []int{1, 2, 3, 5, 9, 1000}
	views := c07Subsets(w.epochs)[1:]
	views = append(views, []uint64{3, 5, 6}, []uint64{5, 6, 3})
	for _, es := range views {
		v, err := w.openView(es, nil)
		if err != nil {
			t.Fatal(err)
		}
		names := w.names
		if !zz.Thorough() {
			names = nil
			for i := 0; i < 20; i++ {
				names = append(names, w.names[rng.Intn(len(w.names))])
			}
			names = append(names, "A444", "A000", "A101", "A010")
		}
		for _, name := range names {
			w.exhaustPaging(v, name, subLimits)
			if len(es) <= 2 || zz.Thorough() {
				w.exhaustSlots(v, name, w.slotGrid(es, []uint64{2, 5, 8}), []int{2, 100})
			}
		}
		s.Count(fmt.Sprintf("views-with-%d-epochs", len(es)))
		v.close()
	}
	// a reader whose index lookup fails with an error other than not-found
	for _, br := range []uint64{6, 5, 3} {
		v, err := w.openView([]uint64{6, 5, 3}, map[uint64]bool{br: true})
		if err != nil {
			t.Fatal(err)
		}
		for _, name := range []string{"A444", "A400", "A004", "A000", "A111"} {
			for _, l := range []int{1, 4, 5, 8, 9, 1000} {
				w.query(v, name, l, "-", "-")
				w.querySlot(v, name, l, 7*c07EpochLen, 0)
				w.querySlot(v, name, l, 5*c07EpochLen+3, 0)
			}
			toks := w.tokens(full, name)
			w.query(v, name, 1000, toks[len(toks)/2], "-")
			w.query(v, name, 1000, "-", toks[len(toks)/2])
		}
		s.Count("views-with-failing-lookup")
		v.close()
	}

	// ---------------- fixture C: record chains ----------------
	w.caseOps = nil
	w.op("case chain-fixture epochs=8,9", "ok", false)
	sizes := map[string]map[uint64][]int{ // record sizes, oldest record first
		"C0": {9: {1, 1}, 8: {1, 1, 1}},
		"C1": {9: {2, 1}, 8: {3}},
		"C2": {9: {1, 2, 1}},
		"C3": {8: {2, 2}},
		"C4": {9: {3, 2, 1}, 8: {1, 3}},
		"C5": {9: {4}, 8: {1, 1, 1, 1}},
	}
	if zz.Thorough() {
		sizes["C6"] = map[uint64][]int{9: {1000, 2}, 8: {1, 1000}}
		for i := 0; i < 6; i++ {
			sh := map[uint64][]int{}
			for _, e := range []uint64{8, 9} {
				for r := rng.Intn(4); r > 0; r-- {
					sh[e] = append(sh[e], 1+rng.Intn(3))
				}
			}
			sizes[fmt.Sprintf("R%d", i)] = sh
		}
	}
	shapes := map[string]map[uint64][][]c07Plan{}
	for n, byE := range sizes {
		shapes[n] = map[uint64][][]c07Plan{}
		for e, recs := range byE {
			seq := 0
			for _, cnt := range recs {
				var rec []c07Plan
				for i := 0; i < cnt; i++ {
					rec = append(rec, c07Plan{fmt.Sprintf("c%d.%s.%d", e, n, seq), e*c07EpochLen + 10 + uint64(seq/2)*3})
					seq++
				}
				shapes[n][e] = append(shapes[n][e], rec)
			}
		}
	}
	var cnames []string
	for n := range shapes {
		cnames = append(cnames, n)
	}
	sort.Strings(cnames)
	for i, n := range cnames {
		w.keys[n] = c07Key('C', i)
	}
	if err := w.buildChainFixture(root, []uint64{8, 9}, shapes); err != nil {
		w.viol("assembling record chains with the real linked log / offsets index failed: "+err.Error(), "C07:fixture-chain-failed", w.caseOps)
		return
	}
	w.histOps(cnames, []uint64{9, 8})
	cv, err := w.openView([]uint64{9, 8}, nil)
	if err != nil {
		t.Fatal(err)
	}
	for _, name := range cnames {
		recs := 0
		for _, c := range w.truth[name] {
			recs += len(c)
		}
		s.Add("chain-records", recs)
		if name == "C6" {
			// 2003 entries: limits around the record boundary, before/until at the boundary entries
			fl := w.flat(cv, name)
			for _, l := range []int{1, 2, 3, 1001, 1002, 1003, 1004, 2002, 2003, 2004} {
				for _, b := range []string{"-", fl[0].tx.tok, fl[1].tx.tok, fl[1001].tx.tok, fl[1002].tx.tok} {
					for _, u := range []string{"-", fl[2].tx.tok, fl[1001].tx.tok, fl[1002].tx.tok, fl[1003].tx.tok, fl[2002].tx.tok} {
						w.query(cv, name, l, b, u)
					}
				}
			}
			continue
		}
		w.exhaustPaging(cv, name, []int{-1, 0, 1, 2, 3, 4, 5, 6, 7, 8, 9, 10, 11, 1000})
		w.exhaustSlots(cv, name, w.slotGrid([]uint64{8, 9}, []uint64{9, 10, 13, 16, 19}), []int{1, 3, 100})
	}
	cv.close()
}

// replay: `hist` lines rebuild a chain fixture (real linked log + offsets index), `q`/`qs` lines are executed
func (w *c07World) replay(t *testing.T, root, path string) {
	data, err := os.ReadFile(path)
	if err != nil {
		t.Fatal(err)
	}
	type pend struct{ kind, view, name, a, b, c string }
	shapes := map[string]map[uint64][][]c07Plan{}
	var qs []pend
	epochSet := map[uint64]bool{}
	for _, line := range strings.Split(string(data), "\n") {
		f := strings.Fields(line)
		if len(f) == 0 || strings.HasPrefix(line, "#") {
			continue
		}
		switch f[0] {
		case "hist":
			e, _ := strconv.ParseUint(strings.TrimPrefix(f[2], "e="), 10, 64)
			epochSet[e] = true
			if f[3] == "absent" {
				continue
			}
			if shapes[f[1]] == nil {
				shapes[f[1]] = map[uint64][][]c07Plan{}
			}
			recs := strings.Split(f[3], "|")
			for i := len(recs) - 1; i >= 0; i-- { // oldest record first
				es := strings.Split(recs[i], ",")
				var rec []c07Plan
				for j := len(es) - 1; j >= 0; j-- { // oldest entry first
					ts := strings.Split(es[j], "@")
					sl, _ := strconv.ParseUint(ts[1], 10, 64)
					rec = append(rec, c07Plan{ts[0], sl})
				}
				shapes[f[1]][e] = append(shapes[f[1]][e], rec)
			}
		case "q", "qs":
			qs = append(qs, pend{f[0], f[1], f[2], f[3], f[4], f[5]})
		}
	}
	w.op("case replay "+filepath.Base(path), "ok", false)
	var names []string
	for n := range shapes {
		names = append(names, n)
	}
	sort.Strings(names)
	for i, n := range names {
		w.keys[n] = c07Key('R', i)
	}
	var epochs []uint64
	for e := range epochSet {
		epochs = append(epochs, e)
	}
	sort.Slice(epochs, func(i, j int) bool { return epochs[i] > epochs[j] })
	if err := w.buildChainFixture(root, epochs, shapes); err != nil {
		t.Fatal(err)
	}
	w.histOps(names, epochs)
	views := map[string]*c07View{}
	for _, q := range qs {
		v := views[q.view]
		if v == nil {
			var es []uint64
			br := map[uint64]bool{}
			for _, p := range strings.Split(q.view, ",") {
				e, _ := strconv.ParseUint(strings.TrimSuffix(p, "!"), 10, 64)
				es = append(es, e)
				if strings.HasSuffix(p, "!") {
					br[e] = true
				}
			}
			if len(br) == 0 {
				br = nil
			}
			var err error
			v, err = w.openView(es, br)
			if err != nil {
				t.Fatal(err)
			}
			views[q.view] = v
		}
		if w.keys[q.name] == (solana.PublicKey{}) {
			w.keys[q.name] = c07Key('R', 999)
		}
		l, _ := strconv.Atoi(q.a)
		if q.kind == "q" {
			w.query(v, q.name, l, q.b, q.c)
		} else {
			b, _ := strconv.ParseUint(q.b, 10, 64)
			u, _ := strconv.ParseUint(q.c, 10, 64)
			w.querySlot(v, q.name, l, b, u)
		}
	}
}

package gsfa

// C06 harness, writer-history stream (injected by /verif/check with `go test -overlay`; nothing is written to /repo).
//
// The same push history goes into the real GsfaWriter (then the real GsfaReader for every address) and, as op
// lines, into the Lean model.  Two test functions share this file:
//   TestVerifC06Hist  runs against a copy of gsfa-write.go whose threshold literals were shrunk by
//                     /verif/harness/gen_c06_overlay.py (exhaustive small scopes + random + directed cases);
//   TestVerifC06Real  runs against the unmodified file (counts 1, 999..1001, 1999..2001, multiples; more than
//                     100 000 distinct addresses to trigger the periodic flush; record lengths 128 and 16384/5).
// The thresholds in effect come from the generated file zz_verif_c06_params_test.go (verifC06Params).
//
// Oracle (independent of the model): for every address, the reader returns exactly the entries pushed with it,
// each once, newest first.

import (
	"context"
	"encoding/binary"
	"fmt"
	"os"
	"path/filepath"
	"runtime"
	"strconv"
	"strings"
	"sync/atomic"
	"testing"
	"time"

	"github.com/gagliardetto/solana-go"
	"github.com/ipfs/go-cid"
	"github.com/rpcpool/yellowstone-faithful/compactindexsized"
	"github.com/rpcpool/yellowstone-faithful/gsfa/linkedlog"
	"github.com/rpcpool/yellowstone-faithful/indexes"
	"github.com/rpcpool/yellowstone-faithful/indexmeta"
	"github.com/rpcpool/yellowstone-faithful/tooling"
	zz "github.com/rpcpool/yellowstone-faithful/zzverif"
)

type c06Entry struct {
	off, size, slot uint64
	flags           uint8
}

func (e c06Entry) String() string { return fmt.Sprintf("%d:%d:%d:%d", e.off, e.size, e.slot, e.flags) }

// address n <-> 32-byte key whose byte order is the numeric order
func c06Key(n uint64) solana.PublicKey {
	var k solana.PublicKey
	k[0] = 0xC6
	binary.BigEndian.PutUint64(k[24:], n)
	return k
}

type c06Interp struct {
	s        *zz.Session
	root     string
	n        int
	dir      string
	w        *GsfaWriter
	r        *GsfaReader
	expected map[uint64][]c06Entry // per address, push order
	order    []uint64
	caseName string
	caseOps  []string
	latent   bool // the case is outside the rank bound on purpose
	pairs    int
	nviol    map[string]int
	hookSeed atomic.Uint64
	hookMode atomic.Int32 // 0 none, 1 lazy, 2 eager, 3 rand
	hookCtr  atomic.Uint64
}

func (in *c06Interp) hook(point string) {
	switch in.hookMode.Load() {
	case 1: // slow background goroutine
		if point == "recv" || point == "flush" {
			time.Sleep(150 * time.Microsecond)
		}
	case 2: // slow client: the goroutine keeps up
		if point == "send" || point == "exiting" {
			time.Sleep(150 * time.Microsecond)
		}
	case 3:
		x := in.hookSeed.Load() + in.hookCtr.Add(1)*0x9E3779B97F4A7C15
		x ^= x >> 31
		x *= 0xBF58476D1CE4E5B9
		x ^= x >> 29
		if x&1 == 1 {
			time.Sleep(time.Duration(x>>8%200) * time.Microsecond)
		} else {
			runtime.Gosched()
		}
	}
}

func (in *c06Interp) closeAll() {
	if in.w != nil {
		// an abandoned writer: let its goroutine end
		zz.Guard(func() string { in.w.Close(); return "" })
		in.w = nil
	}
	if in.r != nil {
		in.r.Close()
		in.r = nil
	}
	if in.dir != "" {
		os.RemoveAll(in.dir)
		in.dir = ""
	}
}

var c06RootCid = func() cid.Cid {
	c, err := cid.Parse("bafyreigh2akiscaildcqabsyg3dfr6chu3fgpregiymsck7e7aqa4s52zy")
	if err != nil {
		panic(err)
	}
	return c
}()

func (in *c06Interp) newWriter() string {
	in.closeAll()
	in.n++
	in.dir = filepath.Join(in.root, fmt.Sprintf("w%d", in.n))
	tmp := filepath.Join(in.dir, "tmp")
	if err := os.MkdirAll(tmp, 0o755); err != nil {
		panic(err)
	}
	w, err := NewGsfaWriter(filepath.Join(in.dir, "idx"), indexmeta.Meta{}, 1, c06RootCid, indexes.NetworkMainnet, tmp)
	if err != nil {
		return "err"
	}
	in.w = w
	in.expected = map[uint64][]c06Entry{}
	in.order = nil
	in.pairs = 0
	return "ok"
}

func (in *c06Interp) replay() string { return in.s.Replay(in.caseOps) }

// readChain follows the previous-record pointers by hand: sizes (entries per record) newest first
func (in *c06Interp) readChain(pk solana.PublicKey) string {
	head, err := in.r.offsets.Get(pk)
	if err != nil {
		return "?"
	}
	var sizes []string
	next := *head
	for i := 0; i < 1<<22 && !next.IsZero(); i++ {
		locs, nn, err := in.r.ll.ReadWithSize(next.Offset, next.Size)
		if err != nil {
			sizes = append(sizes, "0")
			break
		}
		sizes = append(sizes, strconv.Itoa(len(locs)))
		next = nn
	}
	return strings.Join(sizes, ",")
}

func (in *c06Interp) get(addr uint64, limit int) (string, []c06Entry, string) {
	pk := c06Key(addr)
	got, err := in.r.Get(context.Background(), pk, limit)
	if err != nil {
		if compactindexsized.IsNotFound(err) || strings.Contains(err.Error(), "not found") {
			return "notfound", nil, err.Error()
		}
		return "err", nil, err.Error()
	}
	es := make([]c06Entry, len(got))
	for i, g := range got {
		es[i] = c06Entry{g.Offset, g.Size, g.Slot, uint8(g.Flags)}
	}
	return "ok", es, ""
}

// oracle: what the reader returned for addr against the pushes (newest first, cut at limit)
func (in *c06Interp) judge(addr uint64, limit int, status string, got []c06Entry, detail string, last string) {
	want := in.expected[addr]
	exp := make([]c06Entry, 0, len(want))
	for i := len(want) - 1; i >= 0 && len(exp) < limit; i-- {
		exp = append(exp, want[i])
	}
	if len(want) == 0 {
		if status == "ok" && len(got) > 0 {
			in.report("extra", addr, fmt.Sprintf("address never pushed returns %d entries", len(got)), last)
		}
		return
	}
	kind, what := "", ""
	switch {
	case status == "notfound":
		kind, what = "notfound", fmt.Sprintf("address with %d pushed entries is not found", len(want))
	case status != "ok":
		kind, what = "unreadable", fmt.Sprintf("reading an address with %d pushed entries fails: %s", len(want), detail)
	case len(got) < len(exp):
		kind, what = "missing", fmt.Sprintf("%d of %d entries are missing", len(exp)-len(got), len(exp))
	case len(got) > len(exp):
		kind, what = "duplicated", fmt.Sprintf("%d entries returned, %d pushed", len(got), len(exp))
	default:
		for i := range exp {
			if got[i] != exp[i] {
				kind, what = "misordered", fmt.Sprintf("entry #%d is %v, expected %v (newest first)", i, got[i], exp[i])
				break
			}
		}
	}
	if kind == "" {
		in.s.Count("oracle-address-ok")
		return
	}
	in.report(kind, addr, what, last)
}

func (in *c06Interp) report(kind string, addr uint64, what string, last string) {
	if in.latent {
		// outside the rank bound on purpose (threshold-shrunk copy only): the documented latent defect
		in.s.Count("latent-rank-eviction-" + kind)
		return
	}
	p := verifC06Params
	in.s.Count("oracle-violation-" + kind)
	in.nviol[kind]++
	if in.nviol[kind] > 3 {
		return // counted; the first three of a kind carry a replay
	}
	in.s.Violation(fmt.Sprintf("address index does not return the pushes of an address newest first: %s (case %q, address %d, itemsPerBatch=%d)",
		what, in.caseName, addr, p.B), "C06:writer:"+kind, in.replay())
}

func (in *c06Interp) exec(line string) string {
	w := strings.Fields(line)
	if len(w) == 0 {
		return "bad-op"
	}
	if w[0] == "case" {
		in.caseOps = nil
	}
	in.caseOps = append(in.caseOps, line)
	p := verifC06Params
	switch w[0] {
	case "case":
		in.caseName = strings.Join(w[1:], " ")
		in.latent = strings.HasPrefix(in.caseName, "latent-")
		return "ok"
	case "params":
		want := fmt.Sprintf("params %d %d %d %d %d %d %d", p.B, p.P, p.C, p.K, p.M, p.T, p.R)
		if line != want {
			return "param-mismatch (compiled: " + want + ")"
		}
		return in.newWriter()
	case "sched":
		mode := int32(0)
		switch w[1] {
		case "lazy":
			mode = 1
		case "eager":
			mode = 2
		case "rand":
			mode = 3
			seed, _ := strconv.ParseUint(w[2], 10, 64)
			in.hookSeed.Store(seed)
			procs := []int{1, 2, 4, 16}[seed%4]
			if runtime.GOMAXPROCS(0) != procs {
				runtime.GOMAXPROCS(procs)
				in.s.Count(fmt.Sprintf("gomaxprocs-%d", procs))
			}
		}
		in.hookMode.Store(mode)
		return "ok"
	case "push":
		if in.w == nil {
			return "nowriter"
		}
		slot, _ := strconv.ParseUint(w[1], 10, 64)
		off, _ := strconv.ParseUint(w[2], 10, 64)
		size, _ := strconv.ParseUint(w[3], 10, 64)
		fl, _ := strconv.ParseUint(w[4], 10, 8)
		var keys solana.PublicKeySlice
		seen := map[uint64]bool{}
		for _, a := range strings.Split(w[5], ",") {
			n, _ := strconv.ParseUint(a, 10, 64)
			keys = append(keys, c06Key(n))
			if !seen[n] {
				seen[n] = true
				if _, ok := in.expected[n]; !ok {
					in.order = append(in.order, n)
				}
				in.expected[n] = append(in.expected[n], c06Entry{off, size, slot, uint8(fl)})
				in.pairs++
			}
		}
		return zz.Guard(func() string {
			if err := in.w.Push(off, size, slot, keys, fl&1 != 0, fl&2 != 0, fl&4 != 0); err != nil {
				return "err"
			}
			return "ok"
		})
	case "close":
		if in.w == nil {
			return "nowriter"
		}
		wr := in.w
		in.w = nil
		res := zz.Guard(func() string {
			if err := wr.Close(); err != nil {
				return "err"
			}
			return "ok"
		})
		if res != "ok" {
			return res
		}
		r, err := NewGsfaReader(filepath.Join(in.dir, "idx"))
		if err != nil {
			return "err-open"
		}
		in.r = r
		in.s.Count("writers-closed")
		in.s.Add("pairs-pushed", in.pairs)
		// oracle over every address of the history (also those without a `get` line)
		for _, a := range in.order {
			st, got, detail := in.get(a, 1<<30)
			in.judge(a, 1<<30, st, got, detail, "close")
		}
		return "ok"
	case "get":
		if in.r == nil {
			return "noindex"
		}
		a, _ := strconv.ParseUint(w[1], 10, 64)
		limit, _ := strconv.Atoi(w[2])
		st, got, detail := in.get(a, limit)
		if limit < 1<<30 {
			in.judge(a, limit, st, got, detail, line)
		}
		if st != "ok" {
			return st
		}
		parts := make([]string, len(got))
		for i, e := range got {
			parts[i] = e.String()
		}
		return strings.TrimRight(fmt.Sprintf("ok n=%d chain=%s %s", len(got), in.readChain(c06Key(a)), strings.Join(parts, " ")), " ")
	}
	return "bad-op"
}

// ---- generators ----

type c06Gen struct {
	rng   *zz.RNG
	ops   []string
	seq   uint64
	ncase int // tag on the get lines, so that equal reads of different cases are distinct op lines
}

func (g *c06Gen) emit(f string, a ...any) { g.ops = append(g.ops, fmt.Sprintf(f, a...)) }

func (g *c06Gen) begin(name string, sched string) {
	p := verifC06Params
	g.emit("case %s", name)
	g.emit("params %d %d %d %d %d %d %d", p.B, p.P, p.C, p.K, p.M, p.T, p.R)
	g.emit("sched %s", sched)
}

// push with a fresh, unique entry (offset = running sequence number)
func (g *c06Gen) push(slot uint64, addrs ...uint64) {
	g.seq++
	s := make([]string, len(addrs))
	for i, a := range addrs {
		s[i] = strconv.FormatUint(a, 10)
	}
	g.emit("push %d %d %d %d %s", slot, g.seq, 100+g.seq%977, g.seq%8, strings.Join(s, ","))
}

func (g *c06Gen) pushEntry(e c06Entry, addrs ...uint64) {
	s := make([]string, len(addrs))
	for i, a := range addrs {
		s[i] = strconv.FormatUint(a, 10)
	}
	g.emit("push %d %d %d %d %s", e.slot, e.off, e.size, e.flags, strings.Join(s, ","))
}

func (g *c06Gen) finish(addrs []uint64, limits ...int) {
	g.emit("close")
	g.ncase++
	for _, a := range addrs {
		g.emit("get %d %d c%d", a, 1<<30, g.ncase)
	}
	for _, l := range limits {
		if len(addrs) > 0 {
			g.emit("get %d %d c%d", addrs[g.rng.Intn(len(addrs))], l, g.ncase)
		}
	}
	g.emit("get %d %d c%d", 999999999, 1<<30, g.ncase) // never pushed
}

func (g *c06Gen) sched(i int) string {
	switch i % 4 {
	case 0:
		return "lazy"
	case 1:
		return "eager"
	default:
		return fmt.Sprintf("rand %d", g.rng.U64()%1000000)
	}
}

// all histories of exactly n single-address pushes over `na` addresses
func (g *c06Gen) exhaustive(maxLen, na int) int {
	count := 0
	for n := 0; n <= maxLen; n++ {
		total := 1
		for i := 0; i < n; i++ {
			total *= na
		}
		for code := 0; code < total; code++ {
			g.begin(fmt.Sprintf("exhaustive n=%d code=%d", n, code), g.sched(count))
			c := code
			for i := 0; i < n; i++ {
				g.push(uint64(i+1), uint64(1+c%na))
				c /= na
			}
			all := make([]uint64, na)
			for i := range all {
				all[i] = uint64(i + 1)
			}
			g.finish(all)
			count++
		}
	}
	return count
}

func c06RankBound() int {
	p := verifC06Params
	return p.B * (p.R + 1) * (p.R + 2) / 2
}

func (g *c06Gen) shrunk(thorough bool) {
	p := verifC06Params
	B := uint64(p.B)
	bound := c06RankBound()
	// 1. exhaustive small scope
	maxLen := 5
	if thorough {
		maxLen = 7
	}
	g.exhaustive(maxLen, 3)
	// 2. per-address counts at and around the batch size and its multiples
	for i, n := range []uint64{1, B - 1, B, B + 1, 2*B - 1, 2 * B, 2*B + 1, 3 * B, 5*B + 1, 9 * B} {
		if n == 0 || int(n) >= bound {
			continue
		}
		g.begin(fmt.Sprintf("count n=%d", n), g.sched(i))
		for j := uint64(0); j < n; j++ {
			g.push(2*j+1, 5)
		}
		g.finish([]uint64{5}, 1, int(B), int(n))
	}
	// 3. more than P batches of different keys parked; the channel fills up (slow goroutine)
	for i, sc := range []string{"lazy", "eager", "rand 77"} {
		g.begin(fmt.Sprintf("parked-and-channel-full #%d", i), sc)
		na := uint64(p.P + p.C + 3)
		for round := uint64(0); round < B; round++ {
			for a := uint64(1); a <= na; a++ {
				if g.pairs()+1 < bound {
					g.push(2*round+1, a)
				}
			}
		}
		var all []uint64
		for a := uint64(1); a <= na; a++ {
			all = append(all, a)
		}
		g.finish(all, 2)
	}
	// 4. periodic partial flush: many keys accumulating, slots that are multiples of M, popular and unpopular keys
	for i := 0; i < 3; i++ {
		g.begin(fmt.Sprintf("periodic #%d", i), g.sched(i+1))
		M := uint64(p.M)
		for j := uint64(0); j < B; j++ { // key 1 becomes popular
			g.push(M*j+1, 1)
		}
		g.push(M+1, 1)
		for a := uint64(2); a < uint64(p.K)+5; a++ {
			g.push(M*3+1, a)
		}
		g.push(M*7, 2, 3) // periodic flush runs first
		g.push(M*7+1, 1, 2, 3, 4)
		g.push(M*8, 4) // and again
		g.push(M*8+1, 1, 4)
		var all []uint64
		for a := uint64(1); a < uint64(p.K)+5; a++ {
			all = append(all, a)
		}
		g.finish(all, 1, 2)
	}
	// 5. random histories within the rank bound: multi-address pushes with duplicates, random slots
	nrand := 40
	if thorough {
		nrand = 400
	}
	for i := 0; i < nrand; i++ {
		g.begin(fmt.Sprintf("random #%d", i), g.sched(i))
		na := 1 + g.rng.Intn(6)
		npush := 1 + g.rng.Intn(bound-1)
		if g.rng.Intn(3) == 0 {
			npush = 1 + g.rng.Intn(4*p.B)
		}
		used := map[uint64]bool{}
		for j := 0; j < npush; j++ {
			k := 1 + g.rng.Intn(3)
			var addrs []uint64
			fresh := 0
			seen := map[uint64]bool{}
			for x := 0; x < k; x++ {
				a := uint64(1 + g.rng.Intn(na))
				if g.rng.Intn(4) == 0 {
					a = uint64(1) // a hot address
				}
				if !seen[a] {
					seen[a] = true
					fresh++
				}
				addrs = append(addrs, a)
			}
			if g.pairs()+fresh >= bound {
				break
			}
			for _, a := range addrs {
				used[a] = true
			}
			slot := uint64(g.rng.Intn(4 * p.M))
			g.push(slot, addrs...)
		}
		var all []uint64
		for a := uint64(1); a <= uint64(na); a++ {
			if used[a] {
				all = append(all, a)
			}
		}
		g.finish(all, 1+g.rng.Intn(2*p.B))
	}
	// 5b. more than R popular keys but only two distinct counts (inside the rank bound): R keys fill two batches each,
	//     key 1 fills one batch that stays in flight and gets one more entry, then the periodic flush runs.  purge()
	//     counts distinct VALUES, so nothing is evicted and key 1 stays protected; a purge that counts keys evicts it
	//     and its newest entry is written ahead of the batch in flight.
	if p.Shrunk && p.R <= 64 {
		for i, sc := range []string{"lazy", "eager", "rand 5"} {
			g.begin(fmt.Sprintf("many-popular-keys #%d", i), sc)
			M := uint64(p.M)
			for k := 2; k <= p.R+1+i; k++ {
				for j := 0; j < 2*p.B; j++ {
					g.push(M*uint64(j)+1, uint64(k))
				}
			}
			for j := 0; j < p.B; j++ {
				g.push(M*uint64(j)+1, 1)
			}
			g.push(M+1, 1)
			for a := uint64(1000); a < 1000+uint64(p.K)+1; a++ {
				g.push(M+1, a)
			}
			g.push(M*10, 2000)
			g.finish([]uint64{1, 2, uint64(p.R + 1)})
		}
	}
	// 6. beyond the rank bound (latent defect, threshold-shrunk copy only): R+1 distinct counts, the key with the
	//    lowest count has a batch in flight and one more entry when the periodic flush runs
	if p.Shrunk && p.R <= 64 {
		g.begin("latent-rank-eviction", "lazy")
		M := uint64(p.M)
		for k := p.R + 1; k >= 2; k-- { // key k fills k batches
			for j := 0; j < k*p.B; j++ {
				g.push(M*uint64(j)+1, uint64(k))
			}
		}
		for j := 0; j < p.B; j++ { // key 1 fills one batch: it stays in flight (channel or parked)
			g.push(M*uint64(j)+1, 1)
		}
		g.push(M+1, 1)
		for a := uint64(1000); a < 1000+uint64(p.K)+1; a++ { // enough keys accumulating
			g.push(M+1, a)
		}
		g.push(M*10, 2000) // the periodic flush: purge evicts key 1 and its newest entry is written first
		g.finish([]uint64{1, 2, uint64(p.R + 1)})
	}
}

// pairs counts the (address, entry) pairs of the current case so far
func (g *c06Gen) pairs() int {
	n := 0
	for i := len(g.ops) - 1; i >= 0; i-- {
		if strings.HasPrefix(g.ops[i], "case ") {
			break
		}
		if strings.HasPrefix(g.ops[i], "push ") {
			f := strings.Fields(g.ops[i])
			seen := map[string]bool{}
			for _, a := range strings.Split(f[5], ",") {
				if !seen[a] {
					seen[a] = true
					n++
				}
			}
		}
	}
	return n
}

// ---- directed search for record lengths (real thresholds) ----

// c06RecordTotal is the length of the record Put writes for these values (oldest first)
func c06RecordTotal(es []c06Entry) int {
	buf := make([]byte, 0, 9*len(es))
	for i := len(es) - 1; i >= 0; i-- {
		o := linkedlog.OffsetAndSizeAndSlot{Offset: es[i].off, Size: es[i].size, Slot: es[i].slot, Flags: linkedlog.Bitmap(es[i].flags)}
		buf = append(buf, o.Bytes()...)
	}
	z, err := tooling.CompressZstd(buf)
	if err != nil {
		panic(err)
	}
	l := len(z) + 9
	return l + binary.PutUvarint(make([]byte, 10), uint64(l))
}

// c06SearchTotal looks for n entries whose record is exactly `target` bytes long: zstd output length cannot be
// chosen directly, so the search walks the entry magnitudes (one uvarint byte more or less at a time).
func c06SearchTotal(rng *zz.RNG, n int, target int) []c06Entry {
	field := func(e *c06Entry, f int) *uint64 {
		switch f {
		case 0:
			return &e.off
		case 1:
			return &e.size
		}
		return &e.slot
	}
	for attempt := 0; attempt < 8; attempt++ {
		es := make([]c06Entry, n)
		for i := range es {
			es[i] = c06Entry{off: rng.U64() & 0x3fff, size: rng.U64() & 0x3fff, slot: rng.U64() & 0x3fff, flags: uint8(rng.U64() % 8)}
		}
		for step := 0; step < 6000; step++ {
			t := c06RecordTotal(es)
			if t == target {
				return es
			}
			d := t - target
			k := 1
			if d > 8 || d < -8 {
				k = c06Abs(d)/2 + 1
			}
			for ; k > 0; k-- {
				v := field(&es[rng.Intn(n)], rng.Intn(3))
				if d < 0 {
					if *v < 1<<55 {
						*v = *v<<7 | rng.U64()&0x7f
					}
				} else if *v >= 128 {
					*v >>= 7
				}
			}
		}
	}
	return nil
}

func c06Abs(x int) int {
	if x < 0 {
		return -x
	}
	return x
}

func (g *c06Gen) real(thorough bool, s *zz.Session) {
	p := verifC06Params
	B := uint64(p.B)
	// W1: one writer, several addresses with the boundary counts, interleaved; plus directed record lengths
	counts := []uint64{1, B - 1, B, B + 1, 2*B - 1, 2 * B, 2*B + 1, 3 * B}
	if thorough {
		counts = append(counts, 2, B/2, 4*B, 5*B+7, 10*B)
	}
	g.begin("real-counts-interleaved", "rand 3")
	left := make([]uint64, len(counts))
	copy(left, counts)
	remaining := 0
	for _, c := range counts {
		remaining += int(c)
	}
	slot := uint64(1)
	for remaining > 0 {
		i := g.rng.Intn(len(left))
		if left[i] == 0 {
			continue
		}
		addrs := []uint64{uint64(i + 1)}
		if j := g.rng.Intn(len(left)); j != i && left[j] > 0 && g.rng.Intn(5) == 0 {
			addrs = append(addrs, uint64(j+1), uint64(i+1)) // two addresses in one push, one of them listed twice
			left[j]--
			remaining--
		}
		left[i]--
		remaining--
		if slot%uint64(p.M) == 0 {
			slot++
		}
		g.push(slot, addrs...)
		slot++
	}
	var all []uint64
	for i := range counts {
		all = append(all, uint64(i+1))
	}
	g.finish(all, 1, int(B), int(B)+1)

	// W2: records whose total length sits on the varint-width boundaries (partial batch: 127, 128, 130; full batch: 16383..16385)
	g.begin("real-record-lengths", "rand 8")
	addr := uint64(100)
	var lenAddrs []uint64
	for _, target := range []int{127, 128, 130} {
		for _, n := range []int{9, 12, 15} {
			if es := c06SearchTotal(g.rng, n, target); es != nil {
				for _, e := range es {
					g.pushEntry(e, addr)
				}
				lenAddrs = append(lenAddrs, addr)
				addr++
				s.Count(fmt.Sprintf("writer-record-total-%d", target))
				break
			}
		}
	}
	if p.B >= 500 && p.B <= 2000 {
		for _, target := range []int{16383, 16384, 16385} {
			if es := c06SearchTotal(g.rng, p.B, target); es != nil {
				for _, e := range es {
					g.pushEntry(e, addr)
				}
				g.push(3, addr) // one more entry after the full batch
				lenAddrs = append(lenAddrs, addr)
				addr++
				s.Count(fmt.Sprintf("writer-record-total-%d", target))
			}
		}
	}
	g.finish(lenAddrs, 3)

	// W3: more than K distinct addresses, then a slot that is a multiple of M: the periodic partial flush
	if p.K <= 200000 {
		g.begin("real-periodic-flush", "rand 2")
		M := uint64(p.M)
		for j := uint64(0); j < B; j++ { // address 1: popular (one full batch) ...
			g.push(M*j+1, 1)
		}
		for j := 0; j < 5; j++ { // ... with a few more entries: must not be flushed ahead of the batch
			g.push(7, 1)
		}
		for j := 0; j < p.T+50; j++ { // address 2: unpopular but T or more values: stays
			g.push(9, 2)
		}
		small := uint64(p.K) + 1
		for a := uint64(10); a < 10+small; a++ { // unpopular, one value each
			g.push(11, a)
		}
		g.push(M*4, 10, 11) // periodic flush runs, then these are accumulated again
		g.push(M*4+1, 1, 2, 10, 12)
		g.push(M*5, 12) // and once more
		g.push(M*5+3, 10, 1)
		sample := []uint64{1, 2, 10, 11, 12}
		for i := 0; i < 40; i++ {
			sample = append(sample, 10+uint64(g.rng.Intn(int(small))))
		}
		g.finish(sample, 2)
	}
	// separate writers, one address each, at the boundary counts (Close timing differs from the shared writer)
	singles := []uint64{B}
	if thorough {
		singles = []uint64{B, B + 1, 2 * B, 1, B - 1}
	}
	{
		for i, n := range singles {
			g.begin(fmt.Sprintf("real-single n=%d", n), g.sched(i))
			for j := uint64(0); j < n; j++ {
				g.push(2*j+1, 77)
			}
			g.finish([]uint64{77}, 1)
		}
	}
}

func c06Run(t *testing.T, gen func(g *c06Gen, s *zz.Session)) {
	s := zz.NewSession()
	defer s.Close()
	root, err := os.MkdirTemp("", "verif-c06-")
	if err != nil {
		t.Fatal(err)
	}
	defer os.RemoveAll(root)
	in := &c06Interp{s: s, root: root, nviol: map[string]int{}}
	verifC06SetHook(in.hook)
	defer verifC06SetHook(func(string) {})
	p := verifC06Params
	for _, f := range p.Fallback {
		s.Count("threshold-fallback-to-real-" + f)
	}
	if p.Shrunk {
		s.Count("thresholds-shrunk")
		if p.Hooked {
			s.Count("schedule-hooks-installed")
		}
	} else {
		s.Count("thresholds-real")
	}
	var ops []string
	if rp := zz.ReplayFile(); rp != "" {
		data, err := os.ReadFile(rp)
		if err != nil {
			t.Fatal(err)
		}
		for _, l := range strings.Split(strings.TrimSpace(string(data)), "\n") {
			if l = strings.TrimSpace(l); l != "" && !strings.HasPrefix(l, "#") {
				ops = append(ops, l)
			}
		}
		// a replay file belongs to the run whose thresholds it names (the other C06 runs skip it)
		mine := false
		for _, l := range ops {
			if strings.HasPrefix(l, "params ") {
				mine = l == fmt.Sprintf("params %d %d %d %d %d %d %d", p.B, p.P, p.C, p.K, p.M, p.T, p.R)
				break
			}
		}
		if !mine {
			s.Count("replay-file-of-another-run-skipped")
			ops = nil
		}
	} else {
		g := &c06Gen{rng: zz.NewRNG(zz.Seed())}
		gen(g, s)
		ops = g.ops
	}
	procs := runtime.GOMAXPROCS(0)
	defer runtime.GOMAXPROCS(procs)
	for _, op := range ops {
		out := in.exec(op)
		s.Op(op, out, strings.HasPrefix(out, "ok n="))
	}
	in.closeAll()
}

// TestVerifC06Hist: threshold-shrunk copy of gsfa-write.go
func TestVerifC06Hist(t *testing.T) {
	c06Run(t, func(g *c06Gen, s *zz.Session) {
		if !verifC06Params.Shrunk {
			s.Count("shrunk-run-without-shrunk-thresholds")
		}
		g.shrunk(zz.Thorough())
	})
}

// TestVerifC06Real: the unmodified gsfa-write.go
func TestVerifC06Real(t *testing.T) {
	c06Run(t, func(g *c06Gen, s *zz.Session) { g.real(zz.Thorough(), s) })
}

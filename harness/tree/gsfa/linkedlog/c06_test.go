package linkedlog

// C06 harness, LinkedLog op stream (injected by /verif/check with `go test -overlay`; nothing is written to /repo).
//
//   newlog
//   put <addr> <prevoff> <prevsize> z=<hex of the compressed payload> <entries oldest first: off:size:slot:flags,…>
//   read <off> <size>
//
// `put` calls the real LinkedLog.Put (callbackBefore answers the given previous pointer) and prints offset, reported
// size and the bytes found in the file; the compressed payload is put on the op line so that the Lean model needs no
// zstd: it computes `uvarint ‖ payload ‖ 9-byte prev` byte-identically.  `read` is the real ReadWithSize.
// Record lengths on both sides of the varint-width boundaries (127, 128, 130; 16383..16385, 16387; and 2097152..2097156 in
// the thorough tier) are reached by directed search over the entry magnitudes; hits are counted in the stats.
//
// Oracle (independent of the model): every record written is read back, with its own offset and size, as the
// entries newest-first plus the previous pointer.

import (
	"encoding/binary"
	"fmt"
	"os"
	"path/filepath"
	"strconv"
	"strings"
	"testing"

	"github.com/gagliardetto/solana-go"
	"github.com/rpcpool/yellowstone-faithful/indexes"
	zz "github.com/rpcpool/yellowstone-faithful/zzverif"
)

type c06Rec struct {
	off, size uint64
	vals      []OffsetAndSizeAndSlot // oldest first
	prev      indexes.OffsetAndSize
}

type c06LogInterp struct {
	s       *zz.Session
	root    string
	n       int
	ll      *LinkedLog
	path    string
	recs    map[uint64]c06Rec // by offset
	offs    []uint64          // offsets in write order
	caseOps []string
	nviol   map[string]int
}

func c06LogKey(n uint64) solana.PublicKey {
	var k solana.PublicKey
	k[0] = 0xC6
	binary.BigEndian.PutUint64(k[24:], n)
	return k
}

func c06ParseEntries(s string) []OffsetAndSizeAndSlot {
	if s == "-" {
		return nil
	}
	var out []OffsetAndSizeAndSlot
	for _, e := range strings.Split(s, ",") {
		f := strings.Split(e, ":")
		a, _ := strconv.ParseUint(f[0], 10, 64)
		b, _ := strconv.ParseUint(f[1], 10, 64)
		c, _ := strconv.ParseUint(f[2], 10, 64)
		d, _ := strconv.ParseUint(f[3], 10, 8)
		out = append(out, OffsetAndSizeAndSlot{Offset: a, Size: b, Slot: c, Flags: Bitmap(d)})
	}
	return out
}

func c06ShowEntries(es []OffsetAndSizeAndSlot) string {
	if len(es) == 0 {
		return "-"
	}
	p := make([]string, len(es))
	for i, e := range es {
		p[i] = fmt.Sprintf("%d:%d:%d:%d", e.Offset, e.Size, e.Slot, uint8(e.Flags))
	}
	return strings.Join(p, ",")
}

func (in *c06LogInterp) violation(what, key string) {
	in.nviol[key]++
	in.s.Count("oracle-violation")
	if in.nviol[key] <= 2 {
		in.s.Violation(what, key, in.s.Replay(in.caseOps))
	}
}

// exec runs one op; it returns the op line to record (for `put` the z= field is filled in) and the answer
func (in *c06LogInterp) exec(line string) (string, string) {
	w := strings.Fields(line)
	if len(w) == 0 {
		return line, "bad-op"
	}
	if w[0] == "newlog" {
		in.caseOps = nil
	}
	switch w[0] {
	case "newlog":
		if in.ll != nil {
			in.ll.Close()
		}
		in.n++
		in.path = filepath.Join(in.root, fmt.Sprintf("log%d", in.n))
		ll, err := NewLinkedLog(in.path)
		if err != nil {
			panic(err)
		}
		in.ll = ll
		in.recs = map[uint64]c06Rec{}
		in.offs = nil
		in.caseOps = append(in.caseOps, line)
		return line, "ok"
	case "put":
		addr, _ := strconv.ParseUint(w[1], 10, 64)
		po, _ := strconv.ParseUint(w[2], 10, 64)
		ps, _ := strconv.ParseUint(w[3], 10, 64)
		vals := c06ParseEntries(w[5])
		ptrs := make([]*OffsetAndSizeAndSlot, len(vals))
		for i := range vals {
			v := vals[i]
			ptrs[i] = &v
		}
		prev := indexes.OffsetAndSize{Offset: po, Size: ps}
		var off uint64
		var ln uint32
		called := false
		res := zz.Guard(func() string {
			_, err := in.ll.Put(
				func(pk solana.PublicKey) (indexes.OffsetAndSize, error) { return prev, nil },
				func(pk solana.PublicKey, o uint64, l uint32) error { off, ln, called = o, l, true; return nil },
				KeyToOffsetAndSizeAndBlocktime{Key: c06LogKey(addr), Values: ptrs},
			)
			if err != nil {
				return "err"
			}
			return "ok"
		})
		z := []byte{}
		out := res
		if res == "ok" && !called {
			out = "skipped"
		} else if res == "ok" {
			if err := in.ll.Flush(); err != nil {
				panic(err)
			}
			rec := make([]byte, ln)
			f, err := os.Open(in.path)
			if err != nil {
				panic(err)
			}
			_, err = f.ReadAt(rec, int64(off))
			f.Close()
			if err != nil {
				panic(err)
			}
			l, n := binary.Uvarint(rec)
			if n > 0 && int(l)+n == len(rec) && l >= 9 {
				z = rec[n : len(rec)-9]
			}
			in.recs[off] = c06Rec{off: off, size: uint64(ln), vals: vals, prev: prev}
			in.offs = append(in.offs, off)
			in.s.Count(fmt.Sprintf("record-total-%s", c06Bucket(int(ln))))
			out = fmt.Sprintf("ok %d %d %s", off, ln, zz.Hex(rec))
		}
		line = fmt.Sprintf("put %d %d %d z=%s %s", addr, po, ps, zz.Hex(z), c06ShowEntries(vals))
		in.caseOps = append(in.caseOps, line)
		return line, out
	case "read":
		in.caseOps = append(in.caseOps, line)
		off, _ := strconv.ParseUint(w[1], 10, 64)
		size, _ := strconv.ParseUint(w[2], 10, 64)
		var got []OffsetAndSizeAndSlot
		var next indexes.OffsetAndSize
		detail := ""
		res := zz.Guard(func() string {
			var err error
			got, next, err = in.ll.ReadWithSize(off, size)
			if err != nil {
				detail = err.Error()
				return "err"
			}
			return "ok"
		})
		if res == "panic" {
			detail = zz.LastPanic
		}
		// oracle
		if r, ok := in.recs[off]; ok && r.size == size {
			good := res == "ok" && len(got) == len(r.vals) && next == r.prev
			if good {
				for i := range got {
					if got[i] != r.vals[len(r.vals)-1-i] {
						good = false
					}
				}
			}
			if good {
				in.s.Count("oracle-record-ok")
			} else {
				in.violation(fmt.Sprintf("a linked-log record of %d bytes (payload %d) written by Put cannot be read back with the offset and size Put reported: %s %s",
					size, int(size)-9-c06PrefixWidth(size), res, detail), fmt.Sprintf("C06:linkedlog:unreadable-record:total=%d", size))
			}
		}
		if res != "ok" {
			return line, res
		}
		parts := make([]string, len(got))
		for i, e := range got {
			parts[i] = fmt.Sprintf("%d:%d:%d:%d", e.Offset, e.Size, e.Slot, uint8(e.Flags))
		}
		return line, strings.TrimRight(fmt.Sprintf("ok next=%d:%d n=%d %s", next.Offset, next.Size, len(got), strings.Join(parts, " ")), " ")
	}
	return line, "bad-op"
}

// width of the length prefix of a record of `total` bytes
func c06PrefixWidth(total uint64) int {
	for w := 1; w <= 10; w++ {
		if binary.PutUvarint(make([]byte, 10), total-uint64(w)) == w {
			return w
		}
	}
	return 0
}

func c06Bucket(total int) string {
	switch {
	case total >= 126 && total <= 131, total >= 16382 && total <= 16388, total >= 2097150 && total <= 2097157:
		return strconv.Itoa(total)
	case total < 126:
		return "lt126"
	case total < 16382:
		return "132..16381"
	case total < 2097150:
		return "16389..2097149"
	}
	return "gt2097157"
}

// c06Total is the length of the record Put would write for these values (oldest first)
func c06Total(vals []OffsetAndSizeAndSlot) int {
	ptrs := make([]*OffsetAndSizeAndSlot, len(vals))
	for i := range vals {
		ptrs[len(vals)-1-i] = &vals[i]
	}
	z, err := createIndexesPayload(ptrs)
	if err != nil {
		panic(err)
	}
	l := len(z) + 9
	return l + binary.PutUvarint(make([]byte, 10), uint64(l))
}

// c06Search walks the entry magnitudes (one uvarint byte more or less at a time) until the record is exactly
// `target` bytes long; zstd's output length cannot be chosen directly
func c06Search(rng *zz.RNG, n int, target int) ([]OffsetAndSizeAndSlot, int) {
	tries := 0
	for attempt := 0; attempt < 6; attempt++ {
		es := make([]OffsetAndSizeAndSlot, n)
		for i := range es {
			es[i] = OffsetAndSizeAndSlot{Offset: rng.U64() & 0x3fff, Size: rng.U64() & 0x3fff, Slot: rng.U64() & 0x3fff, Flags: Bitmap(rng.U64())}
		}
		for step := 0; step < 8000; step++ {
			tries++
			t := c06Total(es)
			if t == target {
				return es, tries
			}
			d := t - target
			k := 1
			if d > 8 || d < -8 {
				if d < 0 {
					k = -d/2 + 1
				} else {
					k = d/2 + 1
				}
			}
			for ; k > 0; k-- {
				e := &es[rng.Intn(n)]
				v := &e.Offset
				switch rng.Intn(3) {
				case 1:
					v = &e.Size
				case 2:
					v = &e.Slot
				}
				if d < 0 {
					if *v < 1<<55 {
						*v = *v<<7 | rng.U64()&0x7f
					}
				} else if *v >= 128 {
					*v >>= 7
				}
			}
		}
	}
	return nil, tries
}

type c06LogGen struct {
	rng *zz.RNG
	ops []string
}

func (g *c06LogGen) emit(f string, a ...any) { g.ops = append(g.ops, fmt.Sprintf(f, a...)) }

func (g *c06LogGen) randEntries(n int) []OffsetAndSizeAndSlot {
	es := make([]OffsetAndSizeAndSlot, n)
	for i := range es {
		sh := uint(g.rng.Intn(64))
		es[i] = OffsetAndSizeAndSlot{Offset: g.rng.U64() >> sh, Size: g.rng.U64() >> uint(g.rng.Intn(64)), Slot: g.rng.U64() >> uint(g.rng.Intn(64)), Flags: Bitmap(g.rng.U64())}
		switch g.rng.Intn(12) {
		case 0:
			es[i].Offset = ^uint64(0)
		case 1:
			es[i].Size = 0
		case 2:
			es[i].Slot = 1<<63 + 1
		}
	}
	return es
}

func TestVerifC06Log(t *testing.T) {
	s := zz.NewSession()
	defer s.Close()
	root, err := os.MkdirTemp("", "verif-c06-log-")
	if err != nil {
		t.Fatal(err)
	}
	defer os.RemoveAll(root)
	in := &c06LogInterp{s: s, root: root, nviol: map[string]int{}}
	run := func(line string) (string, string) {
		op, out := in.exec(line)
		s.Op(op, out, strings.HasPrefix(out, "ok "))
		return op, out
	}
	if rp := zz.ReplayFile(); rp != "" {
		data, err := os.ReadFile(rp)
		if err != nil {
			t.Fatal(err)
		}
		var lines []string
		for _, l := range strings.Split(strings.TrimSpace(string(data)), "\n") {
			if l = strings.TrimSpace(l); l != "" && !strings.HasPrefix(l, "#") {
				lines = append(lines, l)
			}
		}
		// a replay file of the writer-history runs starts with `case`: not for this stream
		if len(lines) == 0 || lines[0] != "newlog" {
			s.Count("replay-file-of-another-run-skipped")
			return
		}
		for _, l := range lines {
			run(l)
		}
		return
	}
	rng := zz.NewRNG(zz.Seed())
	g := &c06LogGen{rng: rng}
	// put + read back with the reported offset and size; returns the pointer to the new record
	putRead := func(addr uint64, prev indexes.OffsetAndSize, vals []OffsetAndSizeAndSlot) indexes.OffsetAndSize {
		_, out := run(fmt.Sprintf("put %d %d %d z=- %s", addr, prev.Offset, prev.Size, c06ShowEntries(vals)))
		f := strings.Fields(out)
		if len(f) < 3 || f[0] != "ok" {
			return prev
		}
		off, _ := strconv.ParseUint(f[1], 10, 64)
		size, _ := strconv.ParseUint(f[2], 10, 64)
		run(fmt.Sprintf("read %d %d", off, size))
		return indexes.OffsetAndSize{Offset: off, Size: size}
	}
	// 1. chains of records of two addresses, previous pointers to the real previous record
	run("newlog")
	heads := map[uint64]indexes.OffsetAndSize{}
	for i := 0; i < 12; i++ {
		a := uint64(1 + i%2)
		heads[a] = putRead(a, heads[a], g.randEntries(1+rng.Intn(20)))
	}
	putRead(3, indexes.OffsetAndSize{}, nil) // empty batch: skipped
	// 2. pointer boundaries: largest values the 6+3 bytes can hold, and the first ones they cannot (Put panics)
	run("newlog")
	for _, p := range []indexes.OffsetAndSize{{Offset: 1<<48 - 1, Size: 1<<24 - 1}, {Offset: 0, Size: 1}, {Offset: 1, Size: 0},
		{Offset: 1 << 48, Size: 5}, {Offset: 5, Size: 1 << 24}, {Offset: 7, Size: 1<<24 - 1}} {
		putRead(4, p, g.randEntries(3))
	}
	// 3. record lengths on both sides of the varint-width boundaries, by directed search
	// (a record is L + width(L) bytes long, L = payload + 9: totals 129, 16386, 2097155 do not exist)
	targets := []int{126, 127, 128, 130, 131, 16383, 16384, 16385, 16387}
	if zz.Thorough() {
		targets = append(targets, 2097151, 2097152, 2097153, 2097154, 2097156)
	}
	run("newlog")
	var prev indexes.OffsetAndSize
	for _, target := range targets {
		n := 12
		if target > 1000 {
			n = 1000
		}
		if target > 1000000 {
			n = 125000
		}
		vals, tries := c06Search(rng, n, target)
		s.Add("directed-search-tries", tries)
		if vals == nil {
			s.Count(fmt.Sprintf("directed-search-missed-%d", target))
			continue
		}
		s.Count(fmt.Sprintf("directed-search-hit-%d", target))
		prev = putRead(9, prev, vals)
	}
	// 4. random batches
	nrand := 60
	if zz.Thorough() {
		nrand = 600
	}
	run("newlog")
	heads = map[uint64]indexes.OffsetAndSize{}
	for i := 0; i < nrand; i++ {
		a := uint64(1 + rng.Intn(4))
		n := rng.Intn(40)
		if rng.Intn(10) == 0 {
			n = 900 + rng.Intn(200)
		}
		heads[a] = putRead(a, heads[a], g.randEntries(n))
		if rng.Intn(8) == 0 && len(in.offs) > 0 { // re-read an older record
			off := in.offs[rng.Intn(len(in.offs))]
			run(fmt.Sprintf("read %d %d", off, in.recs[off].size))
		}
	}
	if in.ll != nil {
		in.ll.Close()
	}
}

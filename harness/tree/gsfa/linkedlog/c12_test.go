package linkedlog

// C12 harness for the address-index log (injected by /verif/check with `go test -overlay`; nothing is written to /repo).
//
//	ll <file hex> <offset> <size|->   the bytes become the file "linked-log"; NewLinkedLog(file); `-`: Read(offset),
//	                                  else ReadWithSize(offset, size).  Answer: err (framing refused) | z (the framing
//	                                  was accepted: the outcome is then decided by zstd + entry decoding, i.e. the call
//	                                  succeeded or failed with "error while decompressing indexes")
//	unz <hex>                         decompressIndexes (zstd, third-party, then entry decoding)        -> nopanic
//	oass3 <hex>                       OffsetAndSizeAndSlotSliceFromBytes   -> err | ok <n> <last offset> <last size> <last slot> <last flags>
//	oas3 <hex>                        OffsetAndSizeAndSlot.FromBytes       -> err | ok <offset> <size> <slot> <flags>
//
// Valid logs come from the real Put.

import (
	"encoding/binary"
	"fmt"
	"os"
	"path/filepath"
	"strconv"
	"strings"
	"testing"

	"github.com/gagliardetto/solana-go"
	"github.com/rpcpool/yellowstone-faithful/indexes"
	"github.com/rpcpool/yellowstone-faithful/tooling"
	c12 "github.com/rpcpool/yellowstone-faithful/zzc12"
	zz "github.com/rpcpool/yellowstone-faithful/zzverif"
)

var c12Dir string

func c12ExecLL(op string) string {
	w := strings.Fields(op)
	switch w[0] {
	case "ll":
		if c12Dir == "" {
			d, err := os.MkdirTemp("", "verif-c12-ll-")
			if err != nil {
				panic(err)
			}
			c12Dir = d
		}
		path := filepath.Join(c12Dir, "linked-log")
		if err := os.WriteFile(path, zz.Unhex(w[1]), 0o644); err != nil {
			panic(err)
		}
		ll, err := NewLinkedLog(path)
		if err != nil {
			return "err"
		}
		defer ll.Close()
		off, _ := strconv.ParseUint(w[2], 10, 64)
		if w[3] == "-" {
			_, _, err = ll.Read(off)
		} else {
			size, _ := strconv.ParseUint(w[3], 10, 64)
			_, _, err = ll.ReadWithSize(off, size)
		}
		if err != nil && !strings.HasPrefix(err.Error(), "error while decompressing indexes") {
			return "err"
		}
		return "z"
	case "unz":
		raw, err := tooling.DecompressZstd(zz.Unhex(w[1]))
		if err != nil {
			return "err"
		}
		decompressIndexes(zz.Unhex(w[1]))
		return fmt.Sprintf("ok outlen=%d", len(raw))
	case "oass3":
		l, err := OffsetAndSizeAndSlotSliceFromBytes(zz.Unhex(w[1]))
		if err != nil {
			return "err"
		}
		if len(l) == 0 {
			return "ok 0"
		}
		x := l[len(l)-1]
		x.HasMeta()
		x.IsSuccess()
		x.IsVote()
		return fmt.Sprintf("ok %d %d %d %d %d", len(l), x.Offset, x.Size, x.Slot, byte(x.Flags))
	case "oas3":
		var x OffsetAndSizeAndSlot
		if err := x.FromBytes(zz.Unhex(w[1])); err != nil {
			return "err"
		}
		return fmt.Sprintf("ok %d %d %d %d", x.Offset, x.Size, x.Slot, byte(x.Flags))
	}
	return "bad-op"
}

type c12Rec struct{ off, size uint64 }

// c12BuildLog writes a real log: nkeys addresses, each with a chain of batches.
func c12BuildLog(dir string, rng *zz.RNG, nkeys, nbatches, perBatch int) ([]byte, []c12Rec) {
	d, _ := os.MkdirTemp(dir, "l")
	path := filepath.Join(d, "linked-log")
	ll, err := NewLinkedLog(path)
	if err != nil {
		panic(err)
	}
	last := map[solana.PublicKey]indexes.OffsetAndSize{}
	var recs []c12Rec
	keys := make([]solana.PublicKey, nkeys)
	for i := range keys {
		copy(keys[i][:], rng.Bytes(32))
	}
	for b := 0; b < nbatches; b++ {
		var vals []KeyToOffsetAndSizeAndBlocktime
		for _, k := range keys {
			var l []*OffsetAndSizeAndSlot
			n := perBatch
			if perBatch > 1 {
				n = 1 + rng.Intn(perBatch)
			}
			for j := 0; j < n; j++ {
				e := NewOffsetAndSizeAndSlot(rng.U64()%(1<<40), rng.U64()%(1<<20), rng.U64()%(1<<32))
				e.SetIsSuccess(rng.Bool())
				l = append(l, e)
			}
			vals = append(vals, KeyToOffsetAndSizeAndBlocktime{Key: k, Values: l})
		}
		_, err := ll.Put(
			func(pk solana.PublicKey) (indexes.OffsetAndSize, error) { return last[pk], nil },
			func(pk solana.PublicKey, offset uint64, ln uint32) error {
				last[pk] = indexes.OffsetAndSize{Offset: offset, Size: uint64(ln)}
				recs = append(recs, c12Rec{offset, uint64(ln)})
				return nil
			}, vals...)
		if err != nil {
			panic(err)
		}
	}
	if err := ll.Close(); err != nil {
		panic(err)
	}
	data, err := os.ReadFile(path)
	if err != nil {
		panic(err)
	}
	return data, recs
}

func c12GenLL(dir string, rng *zz.RNG, s *zz.Session, thorough bool) []string {
	var ops []string
	type spec struct{ nk, nb, per int }
	specs := []spec{{1, 1, 1}, {2, 3, 4}, {1, 2, 60}}
	if thorough {
		specs = append(specs, spec{4, 4, 300}, spec{1, 1, 3000})
	}
	for _, sp := range specs {
		data, recs := c12BuildLog(dir, rng, sp.nk, sp.nb, sp.per)
		var fields []c12.Field
		for i, r := range recs {
			if i > 3 && i < len(recs)-1 {
				continue
			}
			_, n := binary.Uvarint(data[r.off:])
			fields = append(fields,
				c12.Field{Name: fmt.Sprintf("rec%d.len", i), Off: int(r.off), Width: 0, UvLen: n},
				c12.Field{Name: fmt.Sprintf("rec%d.next.offset", i), Off: int(r.off + r.size - 9), Width: 6},
				c12.Field{Name: fmt.Sprintf("rec%d.next.size", i), Off: int(r.off + r.size - 3), Width: 3})
		}
		nb, nr := 60, 20
		if thorough {
			nb, nr = 300, 100
		}
		for mi, mu := range c12.Mutate(rng, data, fields, nb, nr, s.Count) {
			r := recs[mi%len(recs)]
			ops = append(ops, fmt.Sprintf("ll %s %d -", zz.Hex(mu.Data), r.off))
			ops = append(ops, fmt.Sprintf("ll %s %d %d", zz.Hex(mu.Data), r.off, r.size))
			if mi < 4 || mi%40 == 0 {
				// the size as an index would hand it over, inconsistent with the record / the file
				for _, sz := range []uint64{0, 1, 2, 8, 9, 10, 11, r.size - 1, r.size + 1, 127, 128, 129, 16383, 16384, uint64(len(mu.Data)),
					uint64(len(mu.Data)) + 1, 200 << 20, 256 << 20, 256<<20 + 1, 1 << 32, 1 << 62, ^uint64(0)} {
					ops = append(ops, fmt.Sprintf("ll %s %d %d", zz.Hex(mu.Data), r.off, sz))
					s.Count("boundary:declared-size")
				}
				for _, off := range []uint64{0, 1, uint64(len(mu.Data)), uint64(len(mu.Data)) - 1, uint64(len(mu.Data)) - 10, 1 << 40, 1<<63 - 1, 1 << 63, ^uint64(0), ^uint64(0) - 1} {
					ops = append(ops, fmt.Sprintf("ll %s %d -", zz.Hex(mu.Data), off))
					ops = append(ops, fmt.Sprintf("ll %s %d %d", zz.Hex(mu.Data), off, r.size))
					s.Count("boundary:offset")
				}
			}
		}
		s.Count("valid-files")
	}
	ops = append(ops, "ll - 0 -", "ll - 0 0", "ll - 0 10", "ll 00 0 -", "ll 0a000000000000000000 0 -", "ll 0a000000000000000000 0 10")
	// entry lists
	var entries []byte
	for i := 0; i < 8; i++ {
		e := NewOffsetAndSizeAndSlot(rng.U64()>>uint(rng.Intn(64)), rng.U64()>>uint(rng.Intn(64)), rng.U64()>>uint(rng.Intn(64)))
		e.SetIsVote(rng.Bool())
		entries = append(entries, e.Bytes()...)
	}
	for _, mu := range c12.Mutate(rng, entries, nil, 100, 40, s.Count) {
		ops = append(ops, "oass3 "+zz.Hex(mu.Data))
		if len(mu.Data) <= 40 {
			ops = append(ops, "oas3 "+zz.Hex(mu.Data))
		}
		// the same list behind zstd
		if z, err := tooling.CompressZstd(mu.Data); err == nil {
			ops = append(ops, "unz "+zz.Hex(z))
		}
	}
	// ten-byte uvarints: the overflow boundary of binary.Uvarint
	for _, last := range []byte{0x00, 0x01, 0x02, 0x7f, 0x80} {
		b := []byte{0x80, 0x80, 0x80, 0x80, 0x80, 0x80, 0x80, 0x80, 0x80, last, 0x01, 0x01, 0x07}
		ops = append(ops, "oass3 "+zz.Hex(b), "oas3 "+zz.Hex(b))
		s.Count("boundary:uvarint-overflow")
	}
	// zstd: mutated frames and a small frame that declares / expands to a large content
	{
		z, _ := tooling.CompressZstd(entries)
		for _, mu := range c12.Mutate(rng, z, []c12.Field{{Name: "zstd.frameHeader", Off: 4, Width: 1}, {Name: "zstd.contentSize", Off: 5, Width: 1}}, 150, 40, s.Count) {
			ops = append(ops, "unz "+zz.Hex(mu.Data))
		}
		for _, n := range []int{1 << 20, 100 << 20} {
			big, _ := tooling.CompressZstd(make([]byte, n))
			ops = append(ops, "unz "+zz.Hex(big))
			s.Count("boundary:zstd-expansion")
		}
	}
	return ops
}

func TestVerifC12(t *testing.T) {
	if c12.IsChild() {
		c12.Serve(c12ExecLL)
		if c12Dir != "" {
			os.RemoveAll(c12Dir)
		}
		return
	}
	r := c12.NewRun("TestVerifC12")
	defer r.Close()
	r.Print = func(op string, res c12.Result) string {
		if strings.HasPrefix(op, "unz") {
			// zstd is outside the model ("zstd abstract"): what the model and the code are compared on is panic-freedom;
			// an out-of-proportion allocation of the decoder is reported by the oracle (key C12:unz:alloc) only
			if res.Class == "ok" || res.Class == "err" || res.Class == "alloc" {
				return "nopanic"
			}
			return res.Class
		}
		if res.Class == "ok" || res.Class == "err" || res.Class == "z" {
			return res.Answer
		}
		return res.Class
	}
	r.Exempt = func(op string, res c12.Result) bool {
		return strings.HasPrefix(op, "ll ") && strings.HasPrefix(res.Answer, "z")
	}
	dir, err := os.MkdirTemp("", "verif-c12-llgen-")
	if err != nil {
		t.Fatal(err)
	}
	defer os.RemoveAll(dir)
	ops := c12.ReplayOps()
	if ops == nil {
		ops = c12GenLL(dir, zz.NewRNG(zz.Seed()), r.S, zz.Thorough())
	}
	for _, op := range ops {
		r.Exec(op)
	}
}

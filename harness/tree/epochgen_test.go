package main

// Shared fixture generator for the /verif checks that need whole epochs (C01, C02, C03, C07, C08, C10, C13, C19).
// Injected into package main with `go test -overlay`; nothing is written to /repo.
//
// An epoch is built from real objects: solana.Transactions signed with seeded ed25519 keys, protobuf
// TransactionStatusMeta (zstd), the repository's own MarshalCBOR encoders, CIDv1/dag-cbor/sha2-256, a CARv1
// written with go-car.  The generator keeps the ground truth (every object's bytes, true offset and section
// length; every block's fields; every transaction's position, payloads, accounts and flags).

import (
	"bytes"
	"context"
	"crypto/ed25519"
	"encoding/binary"
	"flag"
	"fmt"
	"hash/crc64"
	"os"
	"path/filepath"
	"sync"
	"testing"
	"time"

	"github.com/allegro/bigcache/v3"
	"github.com/gagliardetto/solana-go"
	"github.com/ipfs/go-cid"
	carv1 "github.com/ipld/go-car"
	"github.com/ipld/go-car/util"
	"github.com/ipld/go-ipld-prime/datamodel"
	cidlink "github.com/ipld/go-ipld-prime/linking/cid"
	"github.com/multiformats/go-multicodec"
	hugecache "github.com/rpcpool/yellowstone-faithful/huge-cache"
	"github.com/rpcpool/yellowstone-faithful/indexes"
	"github.com/rpcpool/yellowstone-faithful/ipld/ipldbindcode"
	old_faithful_grpc "github.com/rpcpool/yellowstone-faithful/old-faithful-proto/old-faithful-grpc"
	"github.com/rpcpool/yellowstone-faithful/third_party/solana_proto/confirmed_block"
	"github.com/rpcpool/yellowstone-faithful/tooling"
	zz "github.com/rpcpool/yellowstone-faithful/zzverif"
	"github.com/urfave/cli/v2"
	"github.com/valyala/fasthttp"
	"google.golang.org/grpc/metadata"
	"google.golang.org/protobuf/proto"
)

type gObj struct {
	Cid    cid.Cid
	Data   []byte
	Offset uint64 // of the section (length prefix) in the CAR file
	SecLen uint64 // varint + cid + data
	Kind   int
}

type gTx struct {
	Sig      solana.Signature
	Raw      []byte // transaction bytes
	Meta     []byte // uncompressed protobuf metadata
	Pos      int
	Accounts []solana.PublicKey // static account keys
	Loaded   []solana.PublicKey // address-table loaded (from metadata)
	IsVote   bool
	Failed   bool
	Cid      cid.Cid
	Slot     uint64
	Frames   int // number of frames of the largest payload
}

type gBlock struct {
	Slot, Parent, Time, Height uint64
	Txs                        []*gTx
	Cid                        cid.Cid
	LastEntryHash              []byte
	NumEntries                 int
}

type gEpoch struct {
	Epoch    uint64
	Blocks   []*gBlock
	Car      string
	CarData  []byte
	Root     cid.Cid
	Keys     []solana.PrivateKey
	Objs     []*gObj
	HdrLen   uint64
	bySlot   map[uint64]*gBlock
	allSigs  []solana.Signature
	twins    int
	accepted int
}

type genOpts struct {
	Epoch       uint64
	NBlocks     int
	MaxTx       int
	SkipPct     int // probability (percent) of skipping a slot, repeated
	FramePct    int // percent of transactions whose metadata is split into several frames
	BigPct      int // percent of transactions with a large data frame (3-byte section varint)
	LoadedPct   int // percent of transactions with address-table loaded accounts in the metadata
	NKeys       int
	KeySeedBase byte // epochs with the same base share addresses
	Rewards     bool
	FirstSlotAt uint64 // offset of the first block inside the epoch
	TimeBase    uint64 // block time = TimeBase + slot (0: 1600000000)
	// ExactSecLens: stand-alone DataFrame objects whose CAR section payload (cid+data) has exactly these lengths
	// (varint-width boundaries 127/128, 16383/16384, …) are written after the first blocks
	ExactSecLens []int
	// ExtraAccounts: additional (non-signer) account keys that transactions mention now and then, e.g. addresses
	// chosen to collide in another epoch's index
	ExtraAccounts []solana.PublicKey
	// Twins: number of transactions whose first signature shares its two-byte prefix with an earlier signature of
	// the epoch (0 = default 3, negative = none)
	Twins int
	// DataEmbeds: byte strings (e.g. 32-byte addresses that are NOT accounts of any transaction) that every
	// transaction carries inside its instruction data
	DataEmbeds [][]byte
	// TxDataFrames: also split the transaction's own bytes into 2..3 frames now and then (FramePct/2 percent).  Only
	// for epochs that get no address index: `index gsfa` refuses such transactions ("transaction data is split into
	// multiple objects"), the server's getTransaction / getBlock path reassembles them
	TxDataFrames bool
	// FirstBlockAtStart: no skipped slots before the first block (it sits at Epoch*432000 + FirstSlotAt)
	FirstBlockAtStart bool
	// SigAccept / SigAcceptN: the first SigAcceptN transactions of the epoch are re-signed (recent blockhash varied)
	// until SigAccept(signature) holds — e.g. "another epoch's sig-to-cid index answers this signature" (a 24-bit
	// hash collision across epochs)
	SigAccept func(sig []byte) bool
	// SigPrefixes: the i-th transaction of the epoch is re-signed until its signature starts with SigPrefixes[i]
	// (the edge buckets of the sig-exists file: ff ff is the last offset-table entry, 00 00 the bucket at offset 0)
	SigPrefixes [][2]byte
	SigAcceptN  int
}

func pp[T any](v T) **T { p := &v; return &p }

func mkCid(data []byte) cid.Cid {
	bd := cid.V1Builder{MhLength: -1, MhType: uint64(multicodec.Sha2_256), Codec: uint64(multicodec.DagCbor)}
	c, err := bd.Sum(data)
	if err != nil {
		panic(err)
	}
	return c
}

type carW struct {
	buf  bytes.Buffer
	objs []*gObj
}

func (w *carW) put(data []byte) cid.Cid {
	c := mkCid(data)
	before := w.buf.Len()
	if err := util.LdWrite(&w.buf, c.Bytes(), data); err != nil {
		panic(err)
	}
	kind := -1
	if len(data) > 1 {
		kind = int(data[1])
	}
	w.objs = append(w.objs, &gObj{Cid: c, Data: append([]byte(nil), data...), Offset: uint64(before), SecLen: uint64(w.buf.Len() - before), Kind: kind})
	return c
}

var crcTable = crc64.MakeTable(crc64.ISO)

// frames splits a payload into k DataFrames laid out as in the schema comment (fan-out `fan`):
// the first frame is returned (to be embedded), the others are written to the CAR.
func (w *carW) frames(payload []byte, k, fan int) ipldbindcode.DataFrame {
	if k <= 1 {
		return ipldbindcode.DataFrame{Kind: 6, Hash: pp(int(crc64.Checksum(payload, crcTable))), Index: pp(0), Total: pp(1), Data: payload}
	}
	chunk := (len(payload) + k - 1) / k
	if chunk == 0 {
		chunk = 1
	}
	parts := make([][]byte, k)
	for i := 0; i < k; i++ {
		lo, hi := i*chunk, (i+1)*chunk
		if lo > len(payload) {
			lo = len(payload)
		}
		if hi > len(payload) {
			hi = len(payload)
		}
		parts[i] = payload[lo:hi]
	}
	hash := int(crc64.Checksum(payload, crcTable))
	// build from the last frame backwards: frame i (i>0) heads a group of `fan` frames: i, i+1.. i+fan-1;
	// the head links to the following group head and to its own members (as in the schema comment).
	var mk func(i int) ipldbindcode.DataFrame
	mk = func(i int) ipldbindcode.DataFrame {
		df := ipldbindcode.DataFrame{Kind: 6, Hash: pp(hash), Index: pp(i), Total: pp(k), Data: parts[i]}
		var next []datamodel.Link
		isHead := i == 0 || (i-1)%fan == 0 && false
		_ = isHead
		// heads are 0, fan, 2*fan, ...: head h links to h+1 .. h+fan-1 (plain) and to head h+fan
		if i%fan == 0 {
			for j := i + 1; j < i+fan && j < k; j++ {
				m := mk(j)
				enc, err := m.MarshalCBOR()
				if err != nil {
					panic(err)
				}
				next = append(next, cidlink.Link{Cid: w.put(enc)})
			}
			if i+fan < k {
				m := mk(i + fan)
				enc, err := m.MarshalCBOR()
				if err != nil {
					panic(err)
				}
				next = append(next, cidlink.Link{Cid: w.put(enc)})
			}
		}
		if len(next) > 0 {
			l := ipldbindcode.List__Link(next)
			df.Next = pp(l)
		}
		return df
	}
	return mk(0)
}

// exactFrame returns an encoded DataFrame node of exactly `want` bytes (want ≥ 16).
func exactFrame(rng *zz.RNG, want int) []byte {
	n := want - 16
	if n < 0 {
		n = 0
	}
	for tries := 0; tries < 64; tries++ {
		df := ipldbindcode.DataFrame{Kind: 6, Hash: pp(int(rng.U64() >> 1)), Index: pp(0), Total: pp(1), Data: rng.Bytes(n)}
		enc, err := df.MarshalCBOR()
		if err != nil {
			panic(err)
		}
		if len(enc) == want {
			return enc
		}
		n += want - len(enc)
		if n < 0 {
			n = 0
		}
	}
	panic(fmt.Sprintf("exactFrame: cannot reach %d bytes", want))
}

// grindSigPrefix re-signs tx (single signer `payer`) with varying recent-blockhash values until the signature starts
// with `want`.  Deterministic: the smallest counter that works is taken, whatever the number of worker goroutines.
func grindSigPrefix(tx *solana.Transaction, payer solana.PrivateKey, want [2]byte) {
	grindSig(tx, payer, func(sig []byte) bool { return sig[0] == want[0] && sig[1] == want[1] })
}

// grindSig re-signs tx (single signer `payer`) with varying recent-blockhash values until accept(signature) holds.
// `accept` is called from several goroutines.  Deterministic: the smallest counter that works is taken.
func grindSig(tx *solana.Transaction, payer solana.PrivateKey, accept func(sig []byte) bool) {
	msg, err := tx.Message.MarshalBinary()
	if err != nil {
		panic(err)
	}
	off := bytes.Index(msg, tx.Message.RecentBlockhash[:])
	if off < 0 {
		panic("blockhash not found in the message")
	}
	priv := ed25519.PrivateKey(payer)
	const workers, chunk = 16, 2048
	for base := uint64(0); ; base += workers * chunk {
		found := make([]uint64, workers)
		var wg sync.WaitGroup
		for wi := 0; wi < workers; wi++ {
			wg.Add(1)
			go func(wi int) {
				defer wg.Done()
				m := append([]byte{}, msg...)
				found[wi] = ^uint64(0)
				lo := base + uint64(wi)*chunk
				for c := lo; c < lo+chunk; c++ {
					binary.LittleEndian.PutUint64(m[off:], c)
					sig := ed25519.Sign(priv, m)
					if accept(sig) {
						found[wi] = c
						return
					}
				}
			}(wi)
		}
		wg.Wait()
		for wi := 0; wi < workers; wi++ {
			if c := found[wi]; c != ^uint64(0) {
				binary.LittleEndian.PutUint64(tx.Message.RecentBlockhash[:8], c)
				binary.LittleEndian.PutUint64(msg[off:], c)
				copy(tx.Signatures[0][:], ed25519.Sign(priv, msg))
				return
			}
		}
	}
}

func genKeys(n int, base byte) []solana.PrivateKey {
	var ks []solana.PrivateKey
	for i := 0; i < n; i++ {
		seed := make([]byte, 32)
		seed[0] = byte(i + 1)
		seed[1] = base
		ks = append(ks, solana.PrivateKey(ed25519.NewKeyFromSeed(seed)))
	}
	return ks
}

func genEpoch(rng *zz.RNG, dir string, o genOpts) *gEpoch {
	if o.NKeys == 0 {
		o.NKeys = 4
	}
	ge := &gEpoch{Epoch: o.Epoch, bySlot: map[uint64]*gBlock{}}
	ge.Keys = genKeys(o.NKeys, o.KeySeedBase)
	prog := solana.MustPublicKeyFromBase58("11111111111111111111111111111111")
	w := &carW{}
	slot := o.Epoch*432000 + o.FirstSlotAt
	parent := slot
	var blockLinks []datamodel.Link
	for b := 0; b < o.NBlocks; b++ {
		for rng.Intn(100) < o.SkipPct && !(b == 0 && o.FirstBlockAtStart) {
			slot++
		}
		timeBase := uint64(1600000000)
		if o.TimeBase != 0 {
			timeBase = o.TimeBase
		}
		gb := &gBlock{Slot: slot, Parent: parent, Time: timeBase + slot, Height: 1000 + uint64(b)}
		if b == 0 {
			if slot > 0 {
				gb.Parent = o.Epoch*432000 - 1 // parent in the previous epoch
			}
			if o.FirstSlotAt > 0 {
				gb.Parent = o.Epoch*432000 + o.FirstSlotAt - 1
			}
		}
		nTx := rng.Intn(o.MaxTx + 1)
		if b == 0 && nTx == 0 && o.MaxTx > 0 {
			nTx = 1 // the properties speak of epochs with at least one transaction
		}
		var entryLinks []datamodel.Link
		var txLinks []datamodel.Link
		for t := 0; t < nTx; t++ {
			payer := ge.Keys[rng.Intn(len(ge.Keys))]
			other := ge.Keys[rng.Intn(len(ge.Keys))].PublicKey()
			if len(o.ExtraAccounts) > 0 && rng.Intn(3) == 0 {
				other = o.ExtraAccounts[rng.Intn(len(o.ExtraAccounts))]
			}
			isVote := rng.Intn(3) == 0
			failed := rng.Intn(3) == 0
			pid := prog
			if isVote {
				pid = solana.VoteProgramID
			}
			dlen := 4 + rng.Intn(8)
			big := rng.Intn(100) < o.BigPct
			if big {
				dlen = 900
			}
			data := rng.Bytes(dlen)
			for _, em := range o.DataEmbeds {
				data = append(append([]byte{}, em...), data...) // byte strings carried in instruction DATA only
			}
			ix := solana.NewInstruction(pid, solana.AccountMetaSlice{solana.Meta(payer.PublicKey()).WRITE().SIGNER(), solana.Meta(other).WRITE()}, data)
			var bh solana.Hash
			copy(bh[:], rng.Bytes(32))
			tx, err := solana.NewTransaction([]solana.Instruction{ix}, bh, solana.TransactionPayer(payer.PublicKey()))
			if err != nil {
				panic(err)
			}
			_, err = tx.Sign(func(k solana.PublicKey) *solana.PrivateKey {
				if k == payer.PublicKey() {
					return &payer
				}
				return nil
			})
			if err != nil {
				panic(err)
			}
			// signatures sharing their first two bytes with an earlier one of the epoch: they land in the same bucket of
			// the sig-exists index (populations 2, 3 instead of the 1 that random signatures give).  `index gsfa` verifies
			// signatures, so the twin is found by re-signing with other recent-blockhash values (about 65 536 tries).
			if nt := o.Twins; len(ge.allSigs) > 0 && nt >= 0 {
				if nt == 0 {
					nt = 3
				}
				if ge.twins < nt && (len(ge.allSigs) == 1 || len(ge.allSigs) == 2 || rng.Intn(8) == 0) {
					from := ge.allSigs[len(ge.allSigs)-1]
					if ge.twins == 1 {
						from = ge.allSigs[0] // a bucket of three
					}
					grindSigPrefix(tx, payer, [2]byte{from[0], from[1]})
					ge.twins++
				}
			}
			if len(ge.allSigs) < len(o.SigPrefixes) {
				grindSigPrefix(tx, payer, o.SigPrefixes[len(ge.allSigs)])
			}
			if o.SigAccept != nil && ge.accepted < o.SigAcceptN {
				grindSig(tx, payer, o.SigAccept)
				ge.accepted++
			}
			ge.allSigs = append(ge.allSigs, tx.Signatures[0])
			raw, err := tx.MarshalBinary()
			if err != nil {
				panic(err)
			}
			meta := &confirmed_block.TransactionStatusMeta{Fee: 5000 + uint64(rng.Intn(100)), PreBalances: []uint64{1, 2, 3}, PostBalances: []uint64{1, 2, 3}}
			if failed {
				eb := make([]byte, 5)
				binary.LittleEndian.PutUint32(eb, 8)
				eb[4] = 1
				meta.Err = &confirmed_block.TransactionError{Err: eb}
			}
			gt := &gTx{Sig: tx.Signatures[0], Raw: raw, Pos: t, IsVote: isVote, Failed: failed, Slot: slot, Accounts: tx.Message.AccountKeys, Frames: 1}
			if rng.Intn(100) < o.LoadedPct {
				lk := ge.Keys[rng.Intn(len(ge.Keys))].PublicKey()
				meta.LoadedWritableAddresses = [][]byte{lk[:]}
				gt.Loaded = append(gt.Loaded, lk)
			}
			// unique per transaction, so that no two metadata payloads (and hence no two frames) are byte-identical:
			// the properties speak of CARs with distinct CIDs
			meta.LogMessages = []string{fmt.Sprintf("tx %x", rng.Bytes(12))}
			if big {
				// make the metadata incompressible and large so that a frame exceeds 16 KiB
				meta.LogMessages = append(meta.LogMessages, fmt.Sprintf("%x", rng.Bytes(12000)))
			}
			metaRaw, err := proto.Marshal(meta)
			if err != nil {
				panic(err)
			}
			gt.Meta = metaRaw
			metaZ, _ := tooling.CompressZstd(metaRaw)
			k := 1
			if rng.Intn(100) < o.FramePct {
				k = 2 + rng.Intn(11)
				gt.Frames = k
			}
			// the transaction's own bytes in linked frames too (2 or 3: the first frame keeps the signatures, which the
			// indexers read from it)
			kd := 1
			if o.TxDataFrames && len(raw) >= 160 && rng.Intn(200) < o.FramePct {
				kd = 2
				if len(raw) >= 300 {
					kd = 2 + rng.Intn(2)
				}
				if gt.Frames < kd {
					gt.Frames = kd
				}
			}
			txNode := ipldbindcode.Transaction{
				Kind:     0,
				Data:     w.frames(raw, kd, 1+rng.Intn(3)),
				Metadata: w.frames(metaZ, k, 1+rng.Intn(5)),
				Slot:     int(slot),
				Index:    pp(t),
			}
			enc, err := txNode.MarshalCBOR()
			if err != nil {
				panic(err)
			}
			gt.Cid = w.put(enc)
			txLinks = append(txLinks, cidlink.Link{Cid: gt.Cid})
			gb.Txs = append(gb.Txs, gt)
			if len(txLinks) == 2 || t == nTx-1 {
				h := rng.Bytes(32)
				e := ipldbindcode.Entry{Kind: 1, NumHashes: 1 + rng.Intn(100), Hash: h, Transactions: txLinks}
				enc, err := e.MarshalCBOR()
				if err != nil {
					panic(err)
				}
				entryLinks = append(entryLinks, cidlink.Link{Cid: w.put(enc)})
				gb.LastEntryHash = h
				txLinks = nil
			}
		}
		if len(entryLinks) == 0 {
			h := rng.Bytes(32)
			e := ipldbindcode.Entry{Kind: 1, NumHashes: 7, Hash: h, Transactions: nil}
			enc, _ := e.MarshalCBOR()
			entryLinks = append(entryLinks, cidlink.Link{Cid: w.put(enc)})
			gb.LastEntryHash = h
		}
		gb.NumEntries = len(entryLinks)
		blk := ipldbindcode.Block{
			Kind: 2, Slot: int(gb.Slot),
			Shredding: []ipldbindcode.Shredding{{EntryEndIdx: 0, ShredEndIdx: 0}},
			Entries:   entryLinks,
			Meta:      ipldbindcode.SlotMeta{Parent_slot: int(gb.Parent), Blocktime: int(gb.Time), Block_height: pp(int(gb.Height))},
			Rewards:   cidlink.Link{Cid: DummyCID},
		}
		enc, err := blk.MarshalCBOR()
		if err != nil {
			panic(err)
		}
		gb.Cid = w.put(enc)
		blockLinks = append(blockLinks, cidlink.Link{Cid: gb.Cid})
		ge.Blocks = append(ge.Blocks, gb)
		ge.bySlot[gb.Slot] = gb
		parent = slot
		slot++
		if b < len(o.ExactSecLens) {
			w.put(exactFrame(rng, o.ExactSecLens[b]-36))
		}
	}
	sub := ipldbindcode.Subset{Kind: 3, First: int(ge.Blocks[0].Slot), Last: int(ge.Blocks[len(ge.Blocks)-1].Slot), Blocks: blockLinks}
	enc, _ := sub.MarshalCBOR()
	subCid := w.put(enc)
	ep := ipldbindcode.Epoch{Kind: 4, Epoch: int(o.Epoch), Subsets: []datamodel.Link{cidlink.Link{Cid: subCid}}}
	enc, _ = ep.MarshalCBOR()
	ge.Root = w.put(enc)

	var out bytes.Buffer
	if err := carv1.WriteHeader(&carv1.CarHeader{Roots: []cid.Cid{ge.Root}, Version: 1}, &out); err != nil {
		panic(err)
	}
	ge.HdrLen = uint64(out.Len())
	out.Write(w.buf.Bytes())
	for _, ob := range w.objs {
		ob.Offset += ge.HdrLen
	}
	ge.Objs = w.objs
	ge.CarData = out.Bytes()
	ge.Car = filepath.Join(dir, fmt.Sprintf("epoch-%d.car", o.Epoch))
	if err := os.WriteFile(ge.Car, ge.CarData, 0o644); err != nil {
		panic(err)
	}
	return ge
}

func newCliCtx() *cli.Context {
	app := cli.NewApp()
	fs := flag.NewFlagSet("x", flag.ContinueOnError)
	c := cli.NewContext(app, fs, nil)
	c.Context = context.Background()
	return c
}

func runCli(args ...string) error {
	app := &cli.App{Name: "faithful", Commands: []*cli.Command{newCmd_Index(), newCmd_SplitCar()}}
	return app.RunContext(context.Background(), append([]string{"faithful"}, args...))
}

type loadedEpoch struct {
	G       *gEpoch
	IdxDir  string
	Paths   *IndexPaths
	CfgPath string
	Conf    *Config
	Ep      *Epoch
	GsfaDir string
	Cache   *hugecache.Cache // nil = the process-wide cache (as in the server, shared by all epochs)
}

// buildIndexes runs the real `index all` (createAllIndexes) and optionally `index gsfa` on the generated CAR.
func buildIndexes(ge *gEpoch, dir string, withGsfa bool) (*loadedEpoch, error) {
	le := &loadedEpoch{G: ge}
	le.IdxDir = filepath.Join(dir, fmt.Sprintf("idx-%d", ge.Epoch))
	os.MkdirAll(le.IdxDir, 0o755)
	tmp := filepath.Join(dir, "tmp")
	os.MkdirAll(tmp, 0o755)
	paths, _, err := createAllIndexes(context.Background(), indexes.NetworkMainnet, tmp, ge.Car, le.IdxDir)
	if err != nil {
		return nil, fmt.Errorf("createAllIndexes: %w", err)
	}
	le.Paths = paths
	if withGsfa {
		if err := runCli("index", "gsfa", "--epoch", fmt.Sprint(ge.Epoch), "--tmp-dir", tmp, ge.Car, le.IdxDir); err != nil {
			return nil, fmt.Errorf("index gsfa: %w", err)
		}
		m, _ := filepath.Glob(filepath.Join(le.IdxDir, "*gsfa.indexdir"))
		if len(m) != 1 {
			return nil, fmt.Errorf("gsfa dir not found: %v", m)
		}
		le.GsfaDir = m[0]
	}
	return le, nil
}

func (le *loadedEpoch) writeConfig(dir string, name string) string {
	gsfaLine := ""
	if le.GsfaDir != "" {
		gsfaLine = fmt.Sprintf("  gsfa:\n    uri: '%s'\n", le.GsfaDir)
	}
	cfgPath := filepath.Join(dir, name)
	cfg := fmt.Sprintf("epoch: %d\nversion: 1\ndata:\n  car:\n    uri: '%s'\nindexes:\n%s%s", le.G.Epoch, le.G.Car, le.Paths.String(), gsfaLine)
	os.WriteFile(cfgPath, []byte(cfg), 0o644)
	return cfgPath
}

func (le *loadedEpoch) load(dir string) error {
	le.CfgPath = le.writeConfig(dir, fmt.Sprintf("epoch-%d.yml", le.G.Epoch))
	conf, err := LoadConfig(le.CfgPath)
	if err != nil {
		return fmt.Errorf("LoadConfig: %w", err)
	}
	le.Conf = conf
	cache := le.Cache
	if cache == nil {
		cache = verifCache()
	}
	ep, err := NewEpochFromConfig(conf, newCliCtx(), cache, nil)
	if err != nil {
		return fmt.Errorf("NewEpochFromConfig: %w", err)
	}
	le.Ep = ep
	return nil
}

func newVerifCache() *hugecache.Cache {
	conf := bigcache.DefaultConfig(5 * time.Minute)
	conf.HardMaxCacheSize = 64
	c, err := hugecache.NewWithConfig(context.Background(), conf)
	if err != nil {
		panic(err)
	}
	return c
}

var theVerifCache *hugecache.Cache

func verifCache() *hugecache.Cache {
	if theVerifCache == nil {
		conf := bigcache.DefaultConfig(5 * time.Minute)
		conf.HardMaxCacheSize = 64
		c, err := hugecache.NewWithConfig(context.Background(), conf)
		if err != nil {
			panic(err)
		}
		theVerifCache = c
	}
	return theVerifCache
}

type recTxStream struct {
	ctx  context.Context
	msgs []*old_faithful_grpc.TransactionResponse
}

func (r *recTxStream) Send(m *old_faithful_grpc.TransactionResponse) error {
	r.msgs = append(r.msgs, m)
	return nil
}
func (r *recTxStream) SetHeader(metadata.MD) error  { return nil }
func (r *recTxStream) SendHeader(metadata.MD) error { return nil }
func (r *recTxStream) SetTrailer(metadata.MD)       {}
func (r *recTxStream) Context() context.Context     { return r.ctx }
func (r *recTxStream) SendMsg(m any) error          { return nil }
func (r *recTxStream) RecvMsg(m any) error          { return nil }

type recBlockStream struct {
	ctx  context.Context
	msgs []*old_faithful_grpc.BlockResponse
}

func (r *recBlockStream) Send(m *old_faithful_grpc.BlockResponse) error {
	r.msgs = append(r.msgs, m)
	return nil
}
func (r *recBlockStream) SetHeader(metadata.MD) error  { return nil }
func (r *recBlockStream) SendHeader(metadata.MD) error { return nil }
func (r *recBlockStream) SetTrailer(metadata.MD)       {}
func (r *recBlockStream) Context() context.Context     { return r.ctx }
func (r *recBlockStream) SendMsg(m any) error          { return nil }
func (r *recBlockStream) RecvMsg(m any) error          { return nil }

func doRPC(h func(*fasthttp.RequestCtx), body string) (int, string) {
	var req fasthttp.Request
	req.Header.SetMethod("POST")
	req.SetBody([]byte(body))
	var ctx fasthttp.RequestCtx
	ctx.Init(&req, nil, nil)
	h(&ctx)
	return ctx.Response.StatusCode(), string(ctx.Response.Body())
}

var _ = testing.Short

// pollCancelCtx is a context that reports cancellation from its at-th poll on (Done / Err calls are the polls; at = 0:
// cancelled from the start).  polls() tells how often it was asked.
type pollCancelCtx struct {
	context.Context
	mu   sync.Mutex
	n    int
	at   int
	err  error
	done chan struct{}
}

func newPollCancelCtx(at int) *pollCancelCtx {
	c := &pollCancelCtx{Context: context.Background(), at: at, done: make(chan struct{})}
	if at <= 0 {
		c.err = context.Canceled
		close(c.done)
	}
	return c
}

func (c *pollCancelCtx) poll() {
	c.mu.Lock()
	defer c.mu.Unlock()
	c.n++
	if c.err == nil && c.at >= 0 && c.n >= c.at {
		c.err = context.Canceled
		close(c.done)
	}
}
func (c *pollCancelCtx) Done() <-chan struct{} { c.poll(); return c.done }
func (c *pollCancelCtx) Err() error {
	c.poll()
	c.mu.Lock()
	defer c.mu.Unlock()
	return c.err
}
func (c *pollCancelCtx) polls() int { c.mu.Lock(); defer c.mu.Unlock(); return c.n }

package main

// C10 harness: an epoch is served only from indexes built for that epoch and CAR.
//
// Fixture (built once, from a fixed generator seed so that op lines replay under any VERIF_SEED): two epochs/CARs
// indexed by the real `index all` + `index gsfa`; old-format (compactindex36 / compactindex / bucketteer v1) files built
// with the deprecated writers.
//
// Op lines (the op line IS the input; VERIF_REPLAY executes a file of them):
//
//	load <epoch> <filecoin> <deprecated> <gsfa> <fcroot> <cid> <slot> <sig> <sigexists> <manifest> <pubkey> <blocktime>
//	     each file given as the identity it carries:
//	       compact:<kind>:<epoch>:<root>:<network> | legacy | bucketteer:<e>:<r>:<n> | bucketteerLegacy |
//	       manifest:<version>:<e>:<r>:<n> | blocktime:<e> | blocktimebad:<e> | unreadable | none      (`_` = entry absent)
//	     The interpreter resolves a tuple to the real, untouched fixture file that carries exactly this identity (so whole
//	     files are swapped between epochs and roles) or else writes a copy of a fixture file with the metadata bytes
//	     rewritten, builds a configuration and calls the real NewEpochFromConfig.  Answer: `ok <root>` / `reject:<role>`.
//	fetch <car variant> <cid> <off> <size> <bytes of that CAR at [off,off+size)>   Epoch.GetNodeByCid through epoch A's
//	     indexes with another CAR behind them.  Answer `ok <len> <xxh64>` / `err`.
//	menc k:v …   /  mdec <bytes>  /  ident <bytes>      indexmeta.Meta MarshalBinary / UnmarshalBinary / typed accessors
//
// Oracle (independent of the Lean model): a load must fail whenever an opened file has the wrong container or kind for its
// role, records an epoch other than the configured one, or two opened files (or a file and the configured Filecoin root)
// record different roots; a fetch through the wrong CAR must fail or return the object's own bytes; the identity the
// indexers wrote is what the readers report.

import (
	"bufio"
	"bytes"
	"context"
	"encoding/binary"
	"encoding/hex"
	"fmt"
	"net/http"
	"net/http/httptest"
	"os"
	"path/filepath"
	"strconv"
	"strings"
	"testing"

	"github.com/cespare/xxhash/v2"
	"github.com/ipfs/go-cid"
	"github.com/ipld/go-car/util"
	"github.com/rpcpool/yellowstone-faithful/blocktimeindex"
	"github.com/rpcpool/yellowstone-faithful/bucketteer"
	deprecatedbucketter "github.com/rpcpool/yellowstone-faithful/deprecated/bucketteer"
	"github.com/rpcpool/yellowstone-faithful/deprecated/compactindex"
	"github.com/rpcpool/yellowstone-faithful/deprecated/compactindex36"
	"github.com/rpcpool/yellowstone-faithful/gsfa/manifest"
	"github.com/rpcpool/yellowstone-faithful/indexes"
	"github.com/rpcpool/yellowstone-faithful/indexmeta"
	zz "github.com/rpcpool/yellowstone-faithful/zzverif"
)

var c10Roles = []string{"cidToOffsetAndSize", "slotToCid", "sigToCid", "sigExists", "gsfaManifest", "gsfaPubkeyIndex", "slotToBlocktime"}

const (
	rCid = iota
	rSlot
	rSig
	rSigExists
	rManifest
	rPubkey
	rBlocktime
)

var c10ExpectedKind = map[int]string{rCid: "cid-to-offset-and-size", rSlot: "slot-to-cid", rSig: "sig-to-cid", rPubkey: "pubkey-to-offset-and-size"}

// ---------------------------------------------------------------------------------------------------------------------
// independent byte-level description of a file

type c10KV struct{ k, v []byte }

// parse count ‖ (klen ‖ k ‖ vlen ‖ v)*; returns the pairs and the number of bytes consumed
func c10ParseKVs(b []byte) ([]c10KV, int, bool) {
	if len(b) < 1 {
		return nil, 0, false
	}
	n := int(b[0])
	p := 1
	var out []c10KV
	for i := 0; i < n; i++ {
		if p >= len(b) {
			return nil, 0, false
		}
		kl := int(b[p])
		p++
		if p+kl > len(b) {
			return nil, 0, false
		}
		k := b[p : p+kl]
		p += kl
		if p >= len(b) {
			return nil, 0, false
		}
		vl := int(b[p])
		p++
		if p+vl > len(b) {
			return nil, 0, false
		}
		out = append(out, c10KV{k, b[p : p+vl]})
		p += vl
	}
	return out, p, true
}

func c10EncKVs(kvs []c10KV) []byte {
	out := []byte{byte(len(kvs))}
	for _, kv := range kvs {
		out = append(out, byte(len(kv.k)))
		out = append(out, kv.k...)
		out = append(out, byte(len(kv.v)))
		out = append(out, kv.v...)
	}
	return out
}

func c10Get(kvs []c10KV, key string) ([]byte, bool) {
	for _, kv := range kvs {
		if string(kv.k) == key {
			return kv.v, true
		}
	}
	return nil, false
}

func c10OptHex(v []byte, ok bool) string {
	if !ok {
		return "_"
	}
	return zz.Hex(v)
}

func c10OptEpoch(v []byte, ok bool) string {
	if !ok || len(v) < 8 {
		return "_"
	}
	return fmt.Sprint(binary.LittleEndian.Uint64(v))
}

// c10MetaRegion returns (start, end) of the metadata bytes inside a compact / bucketteer / manifest file.
func c10MetaRegion(b []byte) (container string, start, end int) {
	switch {
	case len(b) >= 25 && string(b[:8]) == "compiszd":
		hl := int(binary.LittleEndian.Uint32(b[8:12]))
		if 12+hl > len(b) || hl < 13 {
			return "unreadable", 0, 0
		}
		_, n, ok := c10ParseKVs(b[25 : 12+hl])
		if !ok {
			return "unreadable", 0, 0
		}
		return "compact", 25, 25 + n
	case len(b) >= 8 && string(b[:8]) == "rdcecidx":
		return "legacy", 0, 0
	case len(b) >= 20 && string(b[4:12]) == "buckette":
		v := binary.LittleEndian.Uint64(b[12:20])
		if v == 1 {
			return "bucketteerLegacy", 0, 0
		}
		if v != 2 {
			return "unreadable", 0, 0
		}
		_, n, ok := c10ParseKVs(b[20:])
		if !ok {
			return "unreadable", 0, 0
		}
		return "bucketteer", 20, 20 + n
	case len(b) >= 16 && string(b[:8]) == "gsfamnfs":
		_, n, ok := c10ParseKVs(b[16:])
		if !ok {
			return "unreadable", 0, 0
		}
		return "manifest", 16, 16 + n
	case len(b) >= 46 && string(b[:14]) == "blocktimeindex":
		return "blocktime", 0, 0
	}
	return "unreadable", 0, 0
}

func c10Describe(path string) string {
	b, err := os.ReadFile(path)
	if err != nil {
		return "unreadable"
	}
	cont, s, e := c10MetaRegion(b)
	switch cont {
	case "compact":
		kvs, _, _ := c10ParseKVs(b[s:e])
		k, ok1 := c10Get(kvs, "kind")
		ep, ok2 := c10Get(kvs, "epoch")
		r, ok3 := c10Get(kvs, "rootCid")
		n, ok4 := c10Get(kvs, "network")
		if !ok1 || !ok2 || !ok3 || !ok4 || len(ep) < 8 {
			return "unreadable"
		}
		return fmt.Sprintf("compact:%s:%d:%s:%s", zz.Hex(k), binary.LittleEndian.Uint64(ep), zz.Hex(r), zz.Hex(n))
	case "bucketteer", "manifest":
		kvs, _, _ := c10ParseKVs(b[s:e])
		tail := fmt.Sprintf("%s:%s:%s", c10OptEpoch(c10Get(kvs, "epoch")), c10OptHex(c10Get(kvs, "rootCid")), c10OptHex(c10Get(kvs, "network")))
		if cont == "manifest" {
			return fmt.Sprintf("manifest:%d:%s", binary.LittleEndian.Uint64(b[8:16]), tail)
		}
		return "bucketteer:" + tail
	case "blocktime":
		start, end, ep := binary.LittleEndian.Uint64(b[14:22]), binary.LittleEndian.Uint64(b[22:30]), binary.LittleEndian.Uint64(b[30:38])
		if start/432000 != ep || end/432000 != ep {
			return fmt.Sprintf("blocktimebad:%d", ep)
		}
		return fmt.Sprintf("blocktime:%d", ep)
	}
	return cont
}

// ---------------------------------------------------------------------------------------------------------------------
// identity tuples

type c10Id struct {
	cont                  string // compact legacy bucketteer bucketteerLegacy manifest blocktime blocktimebad unreadable none
	kind, root, net       []byte
	hasRoot, hasNet, hasE bool
	epoch, version        uint64
}

func c10ParseTok(t string) c10Id {
	w := strings.Split(t, ":")
	opt := func(s string) ([]byte, bool) {
		if s == "_" {
			return nil, false
		}
		return zz.Unhex(s), true
	}
	optN := func(s string) (uint64, bool) {
		if s == "_" {
			return 0, false
		}
		n, _ := strconv.ParseUint(s, 10, 64)
		return n, true
	}
	id := c10Id{cont: w[0]}
	switch {
	case w[0] == "compact" && len(w) == 5:
		id.kind = zz.Unhex(w[1])
		id.epoch, id.hasE = optN(w[2])
		id.root, id.hasRoot = opt(w[3])
		id.net, id.hasNet = opt(w[4])
	case w[0] == "bucketteer" && len(w) == 4:
		id.epoch, id.hasE = optN(w[1])
		id.root, id.hasRoot = opt(w[2])
		id.net, id.hasNet = opt(w[3])
	case w[0] == "manifest" && len(w) == 5:
		id.version, _ = optN(w[1])
		id.epoch, id.hasE = optN(w[2])
		id.root, id.hasRoot = opt(w[3])
		id.net, id.hasNet = opt(w[4])
	case (w[0] == "blocktime" || w[0] == "blocktimebad") && len(w) == 2:
		id.epoch, _ = optN(w[1])
		id.hasE = w[0] == "blocktime"
	case len(w) == 1 && (w[0] == "legacy" || w[0] == "bucketteerLegacy" || w[0] == "none"):
	default:
		id.cont = "unreadable"
	}
	return id
}

func (id c10Id) tok() string {
	o := func(b []byte, ok bool) string { return c10OptHex(b, ok) }
	e := func() string {
		if !id.hasE {
			return "_"
		}
		return fmt.Sprint(id.epoch)
	}
	switch id.cont {
	case "compact":
		return fmt.Sprintf("compact:%s:%d:%s:%s", zz.Hex(id.kind), id.epoch, zz.Hex(id.root), zz.Hex(id.net))
	case "bucketteer":
		return fmt.Sprintf("bucketteer:%s:%s:%s", e(), o(id.root, id.hasRoot), o(id.net, id.hasNet))
	case "manifest":
		return fmt.Sprintf("manifest:%d:%s:%s:%s", id.version, e(), o(id.root, id.hasRoot), o(id.net, id.hasNet))
	case "blocktime", "blocktimebad":
		return fmt.Sprintf("%s:%d", id.cont, id.epoch)
	}
	return id.cont
}

// ---------------------------------------------------------------------------------------------------------------------
// fixture

type c10Fixture struct {
	dir      string
	A, B     *loadedEpoch
	real     map[string]string // "<role>|<token>" and "|<token>" -> untouched fixture file carrying that identity
	tmpl     map[string]string // container (compact:<kind>, bucketteer, manifest, blocktime) -> template path
	linkLog  string            // A's linked-log
	legacy   [3]string         // legacy cid-to-offset, slot-to-cid, sig-to-cid
	cars     map[string]string // variant -> CAR path
	shiftBy  uint64
	synthDir string
	nSynth   int
	synth    map[string]string
	nCase    int
	varEp    map[string]*Epoch
	httpSrv  *httptest.Server
	// set when the libp2p host of newLassieWrapper cannot start: Filecoin-mode loads are then left out (CAR mode only)
	noFilecoin bool
}

func c10RolePaths(le *loadedEpoch) [7]string {
	return [7]string{le.Paths.CidToOffsetAndSize, le.Paths.SlotToCid, le.Paths.SignatureToCid, le.Paths.SignatureExists,
		filepath.Join(le.GsfaDir, "manifest"), filepath.Join(le.GsfaDir, "pubkey-to-offset-and-size.index"), le.Paths.SlotToBlocktime}
}

func c10BuildFixture(t *testing.T, dir string) *c10Fixture {
	fx := &c10Fixture{dir: dir, real: map[string]string{}, tmpl: map[string]string{}, cars: map[string]string{}, synth: map[string]string{}, varEp: map[string]*Epoch{}}
	rng := zz.NewRNG(0xC10) // fixed: op lines name the fixture's roots
	mk := func(o genOpts) *loadedEpoch {
		d := filepath.Join(dir, fmt.Sprintf("epoch-%d", o.Epoch))
		os.MkdirAll(d, 0o755)
		ge := genEpoch(rng, d, o)
		le, err := buildIndexes(ge, d, true)
		if err != nil {
			t.Fatalf("fixture: %v", err)
		}
		return le
	}
	fx.A = mk(genOpts{Epoch: 1, NBlocks: 30, MaxTx: 4, SkipPct: 30, FramePct: 20})
	fx.B = mk(genOpts{Epoch: 2, NBlocks: 24, MaxTx: 5, SkipPct: 20, FramePct: 10})
	for _, le := range []*loadedEpoch{fx.B, fx.A} { // A last: A wins for role-less lookups
		for r, p := range c10RolePaths(le) {
			tok := c10Describe(p)
			fx.real[c10Roles[r]+"|"+tok] = p
			fx.real["|"+tok] = p
			id := c10ParseTok(tok)
			key := id.cont
			if id.cont == "compact" {
				key = "compact:" + string(id.kind)
			}
			fx.tmpl[key] = p
		}
	}
	fx.linkLog = filepath.Join(fx.A.GsfaDir, "linked-log")
	// old-format files (no identity inside): cid-to-offset (compactindex), slot-to-cid and sig-to-cid (compactindex36), bucketteer v1
	old := filepath.Join(dir, "old")
	os.MkdirAll(old, 0o755)
	{
		p := filepath.Join(old, "cid-to-offset.index")
		os.MkdirAll(filepath.Join(old, "t0"), 0o755)
		b, err := compactindex.NewBuilder(filepath.Join(old, "t0"), uint(len(fx.A.G.Objs)), 1<<30)
		if err != nil {
			t.Fatal(err)
		}
		for _, ob := range fx.A.G.Objs {
			if err := b.Insert(ob.Cid.Bytes(), ob.Offset); err != nil {
				t.Fatal(err)
			}
		}
		f, _ := os.Create(p)
		if err := b.Seal(context.Background(), f); err != nil {
			t.Fatal(err)
		}
		f.Close()
		b.Close()
		fx.legacy[0] = p
	}
	mk36 := func(name string, n int, each func(put func(k []byte, c cid.Cid))) string {
		p := filepath.Join(old, name)
		os.MkdirAll(filepath.Join(old, "t-"+name), 0o755)
		b, err := compactindex36.NewBuilder(filepath.Join(old, "t-"+name), uint(n), 1<<30)
		if err != nil {
			t.Fatal(err)
		}
		each(func(k []byte, c cid.Cid) {
			var v [36]byte
			copy(v[:], c.Bytes())
			if err := b.Insert(k, v); err != nil {
				t.Fatal(err)
			}
		})
		f, _ := os.Create(p)
		if err := b.Seal(context.Background(), f); err != nil {
			t.Fatal(err)
		}
		f.Close()
		b.Close()
		return p
	}
	nTx := 0
	for _, b := range fx.A.G.Blocks {
		nTx += len(b.Txs)
	}
	fx.legacy[1] = mk36("slot-to-cid.index", len(fx.A.G.Blocks), func(put func([]byte, cid.Cid)) {
		for _, b := range fx.A.G.Blocks {
			put(indexes.Uint64tob(b.Slot), b.Cid)
		}
	})
	fx.legacy[2] = mk36("sig-to-cid.index", nTx, func(put func([]byte, cid.Cid)) {
		for _, b := range fx.A.G.Blocks {
			for _, tx := range b.Txs {
				put(tx.Sig[:], tx.Cid)
			}
		}
	})
	fx.real["slotToCid|legacy"] = fx.legacy[1]
	fx.real["sigToCid|legacy"] = fx.legacy[2]
	fx.real["|legacy"] = fx.legacy[1]
	{
		p := filepath.Join(old, "sig-exists-v1.index")
		w, err := deprecatedbucketter.NewWriter(p)
		if err != nil {
			t.Fatal(err)
		}
		for _, b := range fx.A.G.Blocks {
			for _, tx := range b.Txs {
				w.Put(tx.Sig)
			}
		}
		if _, err := w.Seal(map[string]string{"epoch": "1"}); err != nil {
			t.Fatal(err)
		}
		w.Close()
		fx.real["|bucketteerLegacy"] = p
	}
	junk := filepath.Join(old, "junk.bin")
	os.WriteFile(junk, bytes.Repeat([]byte{0xEE}, 4096), 0o644)
	fx.real["|unreadable"] = junk
	// CAR variants behind epoch A's indexes
	fx.cars["own"] = fx.A.G.Car
	fx.cars["other"] = fx.B.G.Car
	{
		// the same objects, every offset shifted: one extra (valid) section right after the header
		var sec bytes.Buffer
		dummy := []byte("verif-c10-shift")
		if err := util.LdWrite(&sec, mkCid(dummy).Bytes(), dummy); err != nil {
			t.Fatal(err)
		}
		a := fx.A.G
		out := append(append(append([]byte{}, a.CarData[:a.HdrLen]...), sec.Bytes()...), a.CarData[a.HdrLen:]...)
		p := filepath.Join(dir, "shifted.car")
		os.WriteFile(p, out, 0o644)
		fx.cars["shift"] = p
		fx.shiftBy = uint64(sec.Len())
		cut := filepath.Join(dir, "truncated.car")
		os.WriteFile(cut, a.CarData[:len(a.CarData)/2], 0o644)
		fx.cars["cut"] = cut
	}
	{
		// "twin": a well-formed CAR with exactly epoch A's layout (same header, same section sizes at the same
		// offsets) whose every object differs in its last byte and carries the CID of its own bytes
		a := fx.A.G
		out := append([]byte{}, a.CarData...)
		for _, ob := range a.Objs {
			if len(ob.Data) == 0 {
				continue
			}
			dataOff := int(ob.Offset+ob.SecLen) - len(ob.Data)
			nd := append([]byte{}, ob.Data...)
			nd[len(nd)-1] ^= 1
			copy(out[dataOff:], nd)
			copy(out[dataOff-36:dataOff], mkCid(nd).Bytes())
		}
		p := filepath.Join(dir, "twin.car")
		os.WriteFile(p, out, 0o644)
		fx.cars["twin"] = p
	}
	fx.synthDir = filepath.Join(dir, "synth")
	os.MkdirAll(fx.synthDir, 0o755)
	return fx
}

func c10MetaFor(id c10Id) []byte {
	var kvs []c10KV
	le8 := func(n uint64) []byte { b := make([]byte, 8); binary.LittleEndian.PutUint64(b, n); return b }
	if id.hasE {
		kvs = append(kvs, c10KV{[]byte("epoch"), le8(id.epoch)})
	}
	if id.hasRoot {
		kvs = append(kvs, c10KV{[]byte("rootCid"), id.root})
	}
	if id.hasNet {
		kvs = append(kvs, c10KV{[]byte("network"), id.net})
	}
	if id.cont == "compact" {
		kvs = append(kvs, c10KV{[]byte("kind"), id.kind})
	}
	return c10EncKVs(kvs)
}

// file returns a path to a file carrying exactly the identity `tok` (role only breaks ties between real files).
func (fx *c10Fixture) file(role int, tok string) (string, error) {
	if p, ok := fx.real[c10Roles[role]+"|"+tok]; ok {
		return p, nil
	}
	if p, ok := fx.real["|"+tok]; ok {
		return p, nil
	}
	if p, ok := fx.synth[tok]; ok {
		return p, nil
	}
	id := c10ParseTok(tok)
	var out []byte
	switch id.cont {
	case "compact":
		tp := fx.tmpl["compact:"+string(id.kind)]
		if tp == "" {
			tp = fx.tmpl["compact:"+c10ExpectedKind[role]]
		}
		if tp == "" {
			tp = fx.tmpl["compact:slot-to-cid"]
		}
		b, _ := os.ReadFile(tp)
		hl := int(binary.LittleEndian.Uint32(b[8:12]))
		meta := c10MetaFor(id)
		out = append(out, b[:8]...)
		out = binary.LittleEndian.AppendUint32(out, uint32(13+len(meta)))
		out = append(out, b[12:25]...)
		out = append(out, meta...)
		out = append(out, b[12+hl:]...) // bucket table and entries; their absolute offsets are right iff the length did not change
	case "bucketteer":
		b, _ := os.ReadFile(fx.tmpl["bucketteer"])
		hs := int(binary.LittleEndian.Uint32(b[:4]))
		_, _, e := c10MetaRegion(b)
		meta := c10MetaFor(id)
		out = binary.LittleEndian.AppendUint32(out, uint32(hs-(e-20)+len(meta)))
		out = append(out, b[4:20]...)
		out = append(out, meta...)
		out = append(out, b[e:]...)
	case "manifest":
		b, _ := os.ReadFile(fx.tmpl["manifest"])
		_, _, e := c10MetaRegion(b)
		out = append(out, b[:8]...)
		out = binary.LittleEndian.AppendUint64(out, id.version)
		out = append(out, c10MetaFor(id)...)
		out = append(out, b[e:]...)
	case "blocktime", "blocktimebad":
		b, _ := os.ReadFile(fx.tmpl["blocktime"])
		out = append(out, b...)
		if id.cont == "blocktime" {
			binary.LittleEndian.PutUint64(out[14:22], id.epoch*432000)
			binary.LittleEndian.PutUint64(out[22:30], id.epoch*432000+431999)
		}
		binary.LittleEndian.PutUint64(out[30:38], id.epoch)
	default:
		return "", fmt.Errorf("no file for %q", tok)
	}
	fx.nSynth++
	p := filepath.Join(fx.synthDir, fmt.Sprintf("f%d.index", fx.nSynth))
	if err := os.WriteFile(p, out, 0o644); err != nil {
		return "", err
	}
	if got := c10Describe(p); got != tok {
		return "", fmt.Errorf("synthesised file describes as %q, wanted %q", got, tok)
	}
	fx.synth[tok] = p
	return p, nil
}

func c10Copy(dst, src string) error {
	b, err := os.ReadFile(src)
	if err != nil {
		return err
	}
	return os.WriteFile(dst, b, 0o644)
}

// ---------------------------------------------------------------------------------------------------------------------
// interpreter

type c10H struct {
	s       *zz.Session
	fx      *c10Fixture
	caseOps []string
	seen    map[string]bool
}

func (h *c10H) op(line, out string, nontrivial bool) {
	h.caseOps = append(h.caseOps, line)
	h.s.Op(line, out, nontrivial)
}

// one violation per key: the first (= simplest, the generator goes from single fields to combinations) input is the replay
func (h *c10H) viol(what, key string, lines ...string) {
	h.s.Count("violations:" + key)
	if h.seen == nil {
		h.seen = map[string]bool{}
	}
	if h.seen[key] {
		return
	}
	h.seen[key] = true
	h.s.Violation(what, key, h.s.Replay(c10Shorten(lines)))
}

// c10Shorten keeps replay files readable (long hex arguments are kept: a replay line must stay executable)
func c10Shorten(lines []string) []string {
	if len(lines) > 60 {
		lines = append(append([]string{}, lines[:30]...), lines[len(lines)-30:]...)
	}
	return lines
}

// c10ClassifyLoadErr maps the error of NewEpochFromConfig to the index file it is about, using only the outermost
// wrapper text (the inner text may name other kinds, e.g. `expected index kind "slot-to-cid", got "sig-to-cid"`).
func c10ClassifyLoadErr(err error) string {
	m := err.Error()
	seg := strings.SplitN(m, ":", 3)
	head := seg[0]
	switch {
	case strings.Contains(head, "gsfa pubkey-to-offset-and-size index"):
		return "reject:gsfaPubkeyIndex"
	case strings.Contains(head, "failed to open gsfa index") && len(seg) > 1 && strings.Contains(seg[1], "error while opening offsets index"):
		return "reject:gsfaPubkeyIndex"
	case strings.Contains(head, "gsfa index"):
		return "reject:gsfaManifest"
	case strings.Contains(head, "mismatch in lassie"):
		return "reject:filecoinRoot"
	case strings.Contains(head, "cid-to-offset"):
		return "reject:cidToOffsetAndSize"
	case strings.Contains(head, "slot-to-cid"):
		return "reject:slotToCid"
	case strings.Contains(head, "sig-to-cid"):
		return "reject:sigToCid"
	case strings.Contains(head, "sig-exists"):
		return "reject:sigExists"
	case strings.Contains(head, "slot-to-blocktime"):
		return "reject:slotToBlocktime"
	}
	return "reject:?" + m
}

func c10ContainerOK(role int, cont string, deprecated bool) bool {
	switch role {
	case rCid, rPubkey:
		return cont == "compact"
	case rSlot, rSig:
		return cont == "compact" || cont == "legacy"
	case rSigExists:
		if deprecated {
			return cont == "bucketteerLegacy"
		}
		return cont == "bucketteer"
	case rManifest:
		return cont == "manifest"
	case rBlocktime:
		return cont == "blocktime"
	}
	return false
}

// oracle: first reason why this load must not succeed ("" = none)
func c10MustFail(epoch uint64, filecoin, deprecated, gsfa bool, fcroot []byte, ids [7]c10Id) string {
	opened := func(r int) bool {
		switch r {
		case rCid:
			return !filecoin && !deprecated
		case rManifest, rPubkey:
			return gsfa
		}
		return true
	}
	var firstRoot []byte
	firstRole := -1
	for r := 0; r < 7; r++ {
		if !opened(r) {
			continue
		}
		id := ids[r]
		if !c10ContainerOK(r, id.cont, deprecated) {
			return c10Roles[r] + ".container"
		}
		if id.cont == "compact" && string(id.kind) != c10ExpectedKind[r] {
			return c10Roles[r] + ".kind"
		}
		if id.hasE && id.epoch != epoch {
			return c10Roles[r] + ".epoch"
		}
		if id.hasRoot {
			if firstRole < 0 {
				firstRole, firstRoot = r, id.root
			} else if !bytes.Equal(firstRoot, id.root) {
				return c10Roles[r] + ".root"
			}
			if filecoin && !bytes.Equal(id.root, fcroot) {
				return c10Roles[r] + ".root-vs-filecoin"
			}
		}
	}
	return ""
}

func (h *c10H) execLoad(line string, w []string) {
	fx := h.fx
	epoch, _ := strconv.ParseUint(w[1], 10, 64)
	filecoin, deprecated, gsfa := w[2] == "1", w[3] == "1", w[4] == "1"
	fcroot := zz.Unhex(w[5])
	if filecoin && fx.noFilecoin {
		h.s.Count("filecoin-load-skipped")
		return
	}
	var ids [7]c10Id
	for r := 0; r < 7; r++ {
		ids[r] = c10ParseTok(w[6+r])
	}
	fx.nCase++
	cdir := filepath.Join(fx.dir, fmt.Sprintf("case-%d", fx.nCase))
	os.MkdirAll(cdir, 0o755)
	defer os.RemoveAll(cdir)
	var paths [7]string
	for r := 0; r < 7; r++ {
		if ids[r].cont == "none" {
			continue
		}
		p, err := fx.file(r, w[6+r])
		if err != nil {
			h.op(line, "unsupported:"+err.Error(), false)
			return
		}
		paths[r] = p
	}
	var cfg strings.Builder
	fmt.Fprintf(&cfg, "epoch: %d\nversion: 1\ndata:\n", epoch)
	if filecoin {
		_, c, err := cid.CidFromBytes(fcroot)
		if err != nil {
			h.op(line, "unsupported:fcroot", false)
			return
		}
		fmt.Fprintf(&cfg, "  filecoin:\n    enable: true\n    root_cid: %s\n", c)
	} else {
		fmt.Fprintf(&cfg, "  car:\n    uri: '%s'\n", fx.A.G.Car)
	}
	cfg.WriteString("indexes:\n")
	uri := func(name, p string) {
		if p != "" {
			fmt.Fprintf(&cfg, "  %s:\n    uri: '%s'\n", name, p)
		}
	}
	if deprecated {
		uri("cid_to_offset", fx.legacy[0])
	} else {
		uri("cid_to_offset_and_size", paths[rCid])
	}
	uri("slot_to_cid", paths[rSlot])
	uri("sig_to_cid", paths[rSig])
	uri("sig_exists", paths[rSigExists])
	uri("slot_to_blocktime", paths[rBlocktime])
	if gsfa {
		// NewGsfaReader opens its files O_CREATE|O_RDWR: always a private copy of the directory
		g := filepath.Join(cdir, "gsfa.indexdir")
		os.MkdirAll(g, 0o755)
		if paths[rManifest] != "" {
			c10Copy(filepath.Join(g, "manifest"), paths[rManifest])
		}
		if paths[rPubkey] != "" {
			c10Copy(filepath.Join(g, "pubkey-to-offset-and-size.index"), paths[rPubkey])
		}
		c10Copy(filepath.Join(g, "linked-log"), fx.linkLog)
		uri("gsfa", g)
	}
	cfgPath := filepath.Join(cdir, "epoch.yml")
	os.WriteFile(cfgPath, []byte(cfg.String()), 0o644)
	conf, err := LoadConfig(cfgPath)
	if err == nil {
		err = conf.Validate()
	}
	if err != nil {
		h.op(line, "config-err:"+err.Error(), false)
		return
	}
	if conf.IsFilecoinMode() != filecoin || conf.IsDeprecatedIndexes() != deprecated || conf.Indexes.Gsfa.URI.IsZero() == gsfa {
		h.op(line, "config-mode-mismatch", false)
		return
	}
	var ep *Epoch
	hostFailed := false
	load := func() string {
		return zz.Guard(func() string {
			var err error
			hostFailed = false
			ep, err = NewEpochFromConfig(conf, newCliCtx(), verifCache(), nil) // loading does not touch the cache
			if err != nil {
				if strings.HasPrefix(err.Error(), "newLassieWrapper:") {
					hostFailed = true
				}
				return c10ClassifyLoadErr(err)
			}
			r := "none"
			if ep.rootCid.Defined() {
				r = hex.EncodeToString(ep.rootCid.Bytes())
			}
			return "ok " + r
		})
	}
	out := load()
	if hostFailed {
		out = load()
	}
	if hostFailed {
		// the libp2p host behind newLassieWrapper could not be started (sandbox): not an answer about identities
		h.s.Count("filecoin-host-unavailable")
		fx.noFilecoin = true
		return
	}
	if ep != nil {
		ep.Close()
	}
	ok := strings.HasPrefix(out, "ok")
	h.op(line, out, ok)
	mode := "mode:car"
	if filecoin {
		mode = "mode:filecoin"
	}
	if deprecated {
		mode += "+deprecated-indexes"
	}
	if !gsfa {
		mode += "+no-gsfa"
	}
	h.s.Count(mode)
	for r := 0; r < 7; r++ {
		if ids[r].cont == "legacy" {
			h.s.Count("old-format:" + c10Roles[r])
		}
	}
	h.s.Count("load:" + strings.SplitN(out, " ", 2)[0])
	if why := c10MustFail(epoch, filecoin, deprecated, gsfa, fcroot, ids); why != "" {
		h.s.Count("load:must-fail")
		if ok {
			h.viol(fmt.Sprintf("epoch %d loads although %s does not match (%s): the epoch would be served from an index built for another epoch/CAR", epoch, why, out),
				"C10:loads-with-mismatch:"+why, line)
		}
	} else {
		h.s.Count("load:consistent")
	}
	if out == "panic" {
		h.viol("NewEpochFromConfig panicked: "+zz.LastPanic, "C10:load-panic", line)
	}
}

// variantEpoch: epoch A's indexes (gsfa left out) with another CAR file behind them
func (h *c10H) variantEpoch(v string) (*Epoch, error) {
	fx := h.fx
	if ep, ok := fx.varEp[v]; ok {
		return ep, nil
	}
	car, ok := fx.cars[strings.TrimSuffix(v, "@http")]
	if !ok {
		return nil, fmt.Errorf("unknown CAR variant %q", v)
	}
	if strings.HasSuffix(v, "@http") {
		// the same file behind an HTTP server that honours Range requests: the epoch reads it through remoteCarReader
		// (readNodeFromReaderAtWithOffsetAndSize / readSectionFromReaderAt) instead of the local reader
		if fx.httpSrv == nil {
			fx.httpSrv = httptest.NewServer(http.FileServer(http.Dir("/")))
		}
		car = fx.httpSrv.URL + car
	}
	cfg := fmt.Sprintf("epoch: %d\nversion: 1\ndata:\n  car:\n    uri: '%s'\nindexes:\n%s", fx.A.G.Epoch, car, fx.A.Paths.String())
	p := filepath.Join(fx.dir, "variant-"+v+".yml")
	os.WriteFile(p, []byte(cfg), 0o644)
	conf, err := LoadConfig(p)
	if err != nil {
		return nil, err
	}
	ep, err := NewEpochFromConfig(conf, newCliCtx(), newVerifCache(), nil) // own cache: GetNodeByCid answers from the cache first
	if err != nil {
		return nil, err
	}
	fx.varEp[v] = ep
	return ep, nil
}

func (h *c10H) execFetch(line string, w []string) {
	v := w[1]
	cb := zz.Unhex(w[2])
	ep, err := h.variantEpoch(v)
	if err != nil {
		h.op(line, "noload:"+err.Error(), false)
		return
	}
	_, c, err := cid.CidFromBytes(cb)
	if err != nil {
		h.op(line, "bad-cid", false)
		return
	}
	var data []byte
	out := zz.Guard(func() string {
		oas, err := ep.FindOffsetAndSizeFromCid(context.Background(), c)
		if err != nil {
			return "noindex"
		}
		if fmt.Sprint(oas.Offset) != w[3] || fmt.Sprint(oas.Size) != w[4] {
			return fmt.Sprintf("fixture-mismatch %d %d", oas.Offset, oas.Size)
		}
		d, err := ep.GetNodeByCid(context.Background(), c)
		if err != nil {
			return "err"
		}
		data = d
		return fmt.Sprintf("ok %d %016x", len(d), xxhash.Sum64(d))
	})
	h.op(line, out, strings.HasPrefix(out, "ok"))
	h.s.Count("fetch:" + v + ":" + strings.SplitN(out, " ", 2)[0])
	if strings.HasPrefix(out, "ok") {
		var own []byte
		for _, ob := range h.fx.A.G.Objs {
			if ob.Cid.Equals(c) {
				own = ob.Data
			}
		}
		if own == nil || !bytes.Equal(own, data) {
			h.viol(fmt.Sprintf("GetNodeByCid(%s) through CAR variant %q returned %d bytes that are not that object's bytes", c, v, len(data)),
				"C10:wrong-car-returns-foreign-bytes", line)
		}
	}
	if out == "panic" {
		h.viol("GetNodeByCid panicked: "+zz.LastPanic, "C10:fetch-panic", line)
	}
}

// execPFetch: `pfetch <variant> block|tx <slot|sig hex> <cid> <off> <size> <bytes>` — Epoch.GetBlock / GetTransaction with
// the prefetch flag (what the RPC handlers do), then the CID-addressed fetch of that object
func (h *c10H) execPFetch(line string, w []string) {
	v := w[1]
	ep, err := h.variantEpoch(v)
	if err != nil {
		h.op(line, "noload:"+err.Error(), false)
		return
	}
	_, c, err := cid.CidFromBytes(zz.Unhex(w[4]))
	if err != nil {
		h.op(line, "bad-cid", false)
		return
	}
	ctx := WithSubrapghPrefetch(context.Background(), true)
	var data []byte
	out := zz.Guard(func() string {
		switch w[2] {
		case "block":
			slot, _ := strconv.ParseUint(w[3], 10, 64)
			ep.GetBlock(ctx, slot)
		case "tx":
			var sig [64]byte
			copy(sig[:], zz.Unhex(w[3]))
			ep.GetTransaction(ctx, sig)
		}
		d, err := ep.GetNodeByCid(context.Background(), c)
		if err != nil {
			return "err"
		}
		data = d
		return fmt.Sprintf("ok %d %016x", len(d), xxhash.Sum64(d))
	})
	h.op(line, out, strings.HasPrefix(out, "ok"))
	h.s.Count("pfetch:" + v + ":" + w[2] + ":" + strings.SplitN(out, " ", 2)[0])
	if strings.HasPrefix(out, "ok") {
		var own []byte
		for _, ob := range h.fx.A.G.Objs {
			if ob.Cid.Equals(c) {
				own = ob.Data
			}
		}
		if own == nil || !bytes.Equal(own, data) {
			h.viol(fmt.Sprintf("after %s with the prefetch flag, GetNodeByCid(%s) through CAR variant %q returned %d bytes that are not that object's bytes", w[2], c, v, len(data)),
				"C10:wrong-car-returns-foreign-bytes:after-prefetch", line)
		}
	}
	if out == "panic" {
		h.viol("GetBlock/GetTransaction/GetNodeByCid panicked: "+zz.LastPanic, "C10:fetch-panic", line)
	}
}

func c10ParseKVArg(s string) (indexmeta.KV, bool) {
	p := strings.Split(s, ":")
	if len(p) != 2 {
		return indexmeta.KV{}, false
	}
	return indexmeta.KV{Key: zz.Unhex(p[0]), Value: zz.Unhex(p[1])}, true
}

func (h *c10H) execMeta(line string, w []string) {
	switch w[0] {
	case "menc":
		var m indexmeta.Meta
		for _, a := range w[1:] {
			kv, ok := c10ParseKVArg(a)
			if !ok {
				h.op(line, "bad-op", false)
				return
			}
			m.KeyVals = append(m.KeyVals, kv)
		}
		b, err := m.MarshalBinary()
		if err != nil {
			h.op(line, "err", false)
			return
		}
		h.op(line, zz.Hex(b), true)
		// round trip on the real code
		var back indexmeta.Meta
		if err := back.UnmarshalBinary(b); err != nil || len(back.KeyVals) != len(m.KeyVals) {
			h.viol("indexmeta: UnmarshalBinary(MarshalBinary(m)) fails or loses pairs", "C10:meta-roundtrip", line)
			return
		}
		for i := range m.KeyVals {
			if !bytes.Equal(back.KeyVals[i].Key, m.KeyVals[i].Key) || !bytes.Equal(back.KeyVals[i].Value, m.KeyVals[i].Value) {
				h.viol("indexmeta: UnmarshalBinary(MarshalBinary(m)) ≠ m", "C10:meta-roundtrip", line)
				return
			}
		}
	case "mdec":
		var m indexmeta.Meta
		out := zz.Guard(func() string {
			if err := m.UnmarshalBinary(zz.Unhex(w[1])); err != nil {
				return "err"
			}
			if len(m.KeyVals) == 0 {
				return "empty"
			}
			parts := make([]string, len(m.KeyVals))
			for i, kv := range m.KeyVals {
				parts[i] = zz.Hex(kv.Key) + ":" + zz.Hex(kv.Value)
			}
			return strings.Join(parts, " ")
		})
		h.op(line, out, out != "err")
	case "ident":
		var m indexmeta.Meta
		out := zz.Guard(func() string {
			if err := m.UnmarshalBinary(zz.Unhex(w[1])); err != nil {
				return "err"
			}
			ep := "_"
			if m.Count(indexmeta.MetadataKey_Epoch) > 0 {
				ep = zz.Guard(func() string {
					v, ok := m.GetUint64(indexmeta.MetadataKey_Epoch)
					if !ok {
						return "invalid" // present but not a uint64 (shorter than 8 bytes)
					}
					return fmt.Sprint(v)
				})
			}
			root := "_"
			if v, ok := m.Get(indexmeta.MetadataKey_RootCid); ok {
				root = zz.Hex(v)
				if c, ok := m.GetCid(indexmeta.MetadataKey_RootCid); ok && !bytes.Equal(c.Bytes(), v) {
					root = "cid-differs"
				}
			}
			return fmt.Sprintf("kind=%s epoch=%s root=%s network=%s", c10OptHex(m.Get(indexmeta.MetadataKey_Kind)), ep, root, c10OptHex(m.Get(indexmeta.MetadataKey_Network)))
		})
		h.op(line, out, out != "err")
	}
}

func (h *c10H) exec(line string) {
	w := strings.Fields(line)
	if len(w) == 0 || strings.HasPrefix(line, "#") {
		return
	}
	switch {
	case w[0] == "case":
		h.op(line, "ok", false)
	case w[0] == "load" && len(w) == 13:
		h.execLoad(line, w)
	case w[0] == "fetch" && len(w) == 6:
		h.execFetch(line, w)
	case w[0] == "pfetch" && len(w) == 8:
		h.execPFetch(line, w)
	case w[0] == "menc", w[0] == "mdec" && len(w) == 2, w[0] == "ident" && len(w) == 2:
		h.execMeta(line, w)
	default:
		h.op(line, "bad-op", false)
	}
}

// ---------------------------------------------------------------------------------------------------------------------
// generator

type c10Case struct {
	epoch                     uint64
	filecoin, deprecated, gsf bool
	fcroot                    []byte
	ids                       [7]c10Id
}

func (c c10Case) line() string {
	b := func(x bool) string {
		if x {
			return "1"
		}
		return "0"
	}
	w := []string{"load", fmt.Sprint(c.epoch), b(c.filecoin), b(c.deprecated), b(c.gsf), zz.Hex(c.fcroot)}
	for r := 0; r < 7; r++ {
		w = append(w, c.ids[r].tok())
	}
	return strings.Join(w, " ")
}

type c10Mut struct {
	role  int
	field string
	apply func(id *c10Id)
	name  string
}

func (h *c10H) baseCase(le *loadedEpoch) c10Case {
	c := c10Case{epoch: le.G.Epoch, gsf: true}
	for r, p := range c10RolePaths(le) {
		c.ids[r] = c10ParseTok(c10Describe(p))
	}
	return c
}

func (h *c10H) generate(thorough bool) {
	fx := h.fx
	rng := zz.NewRNG(zz.Seed())
	A, B := h.baseCase(fx.A), h.baseCase(fx.B)
	rootA, rootB := fx.A.G.Root.Bytes(), fx.B.G.Root.Bytes()
	run := func(c c10Case) { h.exec(c.line()) }

	// --- the fixture itself: identity written at build time is read back unchanged
	h.exec("case built-identity")
	for _, le := range []*loadedEpoch{fx.A, fx.B} {
		for r, p := range c10RolePaths(le) {
			b, _ := os.ReadFile(p)
			cont, s, e := c10MetaRegion(b)
			if cont == "compact" || cont == "bucketteer" || cont == "manifest" {
				h.exec("ident " + zz.Hex(b[s:e]))
				h.exec("mdec " + zz.Hex(b[s:e]))
			}
			h.checkBuiltIdentity(le, r, p)
		}
	}

	// --- every identity field of every file, replaced by the other epoch's / CAR's (or another kind / network)
	var muts []c10Mut
	add := func(role int, field, name string, f func(id *c10Id)) {
		muts = append(muts, c10Mut{role, field, f, fmt.Sprintf("%s.%s=%s", c10Roles[role], field, name)})
	}
	var primary []int // one mutation per (role, field): the ones combined in pairs
	for r := 0; r < 7; r++ {
		id := A.ids[r]
		if id.cont == "compact" {
			k := append([]byte{}, id.kind...)
			k[len(k)-1] ^= 0x1b
			primary = append(primary, len(muts))
			add(r, "kind", "garbled", func(id *c10Id) { id.kind = k })
			for r2, ek := range c10ExpectedKind {
				if r2 != r {
					ek := ek
					add(r, "kind", ek, func(id *c10Id) { id.kind = []byte(ek) })
				}
			}
		}
		if id.hasE || id.cont == "blocktime" {
			primary = append(primary, len(muts))
			add(r, "epoch", "other", func(id *c10Id) { id.epoch = B.epoch })
			add(r, "epoch", "zero", func(id *c10Id) { id.epoch = 0 })
		}
		if id.cont == "blocktime" {
			add(r, "epoch", "inconsistent", func(id *c10Id) { id.epoch = B.epoch; id.cont = "blocktimebad"; id.hasE = false })
		}
		if id.hasRoot {
			primary = append(primary, len(muts))
			add(r, "root", "other", func(id *c10Id) { id.root = rootB })
		}
		if id.hasNet {
			primary = append(primary, len(muts))
			add(r, "network", "testnet", func(id *c10Id) { id.net = []byte("testnet") })
			add(r, "network", "devnet", func(id *c10Id) { id.net = []byte("devnet") })
			add(r, "network", "invalid", func(id *c10Id) { id.net = []byte("mainnex") })
		}
		if id.cont == "bucketteer" || id.cont == "manifest" {
			add(r, "epoch", "absent", func(id *c10Id) { id.hasE = false })
			add(r, "root", "absent", func(id *c10Id) { id.hasRoot = false })
		}
		if id.cont == "manifest" {
			add(r, "version", "4", func(id *c10Id) { id.version = 4 })
		}
	}
	h.exec("case base")
	run(A)
	run(B)
	h.exec("case single-field")
	for _, m := range muts {
		c := A
		m.apply(&c.ids[m.role])
		h.s.Count("mutation:" + m.field)
		run(c)
	}
	h.exec("case field-pairs")
	for i := 0; i < len(primary); i++ {
		for j := i + 1; j < len(primary); j++ {
			c := A
			mi, mj := muts[primary[i]], muts[primary[j]]
			mi.apply(&c.ids[mi.role])
			mj.apply(&c.ids[mj.role])
			run(c)
		}
	}
	h.s.Add("primary-mutations", len(primary))
	if thorough {
		h.exec("case field-triples")
		for i := 0; i < len(primary); i++ {
			for j := i + 1; j < len(primary); j++ {
				for k := j + 1; k < len(primary); k++ {
					c := A
					for _, x := range []int{i, j, k} {
						m := muts[primary[x]]
						m.apply(&c.ids[m.role])
					}
					run(c)
				}
			}
		}
	}

	// --- whole files of the other epoch, singly, the whole gsfa directory, and in pairs
	h.exec("case file-swaps-between-epochs")
	for r := 0; r < 7; r++ {
		c := A
		c.ids[r] = B.ids[r]
		run(c)
		for r2 := r + 1; r2 < 7; r2++ {
			c2 := c
			c2.ids[r2] = B.ids[r2]
			run(c2)
		}
	}
	{
		c := A
		c.ids[rManifest], c.ids[rPubkey] = B.ids[rManifest], B.ids[rPubkey]
		run(c)
		c = B
		c.ids[rPubkey] = A.ids[rPubkey] // the measured gap, the other way round
		run(c)
	}
	// --- files swapped between roles (same epoch, same CAR)
	h.exec("case file-swaps-between-roles")
	for r := 0; r < 7; r++ {
		for r2 := 0; r2 < 7; r2++ {
			if r != r2 {
				c := A
				c.ids[r] = A.ids[r2]
				run(c)
			}
		}
	}
	for r := 0; r < 7; r++ {
		c := A
		c.ids[r] = c10Id{cont: "unreadable"}
		run(c)
	}
	// --- consistent relabelling: accepted (nothing ties the recorded root to the CAR in CAR mode)
	h.exec("case consistent-relabel")
	{
		c := A
		c.epoch = B.epoch
		run(c) // A's files under B's epoch number
		for r := range c.ids {
			c.ids[r].epoch = B.epoch
		}
		run(c) // every file relabelled: loads
		c = A
		for r := range c.ids {
			if c.ids[r].hasRoot {
				c.ids[r].root = rootB
			}
		}
		run(c)
		c = B
		c.epoch = A.epoch
		run(c)
	}
	// --- without gsfa
	h.exec("case no-gsfa")
	{
		c := A
		c.gsf = false
		c.ids[rManifest], c.ids[rPubkey] = c10Id{cont: "none"}, c10Id{cont: "none"}
		run(c)
		for _, i := range primary {
			m := muts[i]
			if m.role != rManifest && m.role != rPubkey {
				c2 := c
				m.apply(&c2.ids[m.role])
				run(c2)
			}
		}
	}
	// --- old formats / deprecated configuration
	h.exec("case old-formats")
	{
		leg := c10Id{cont: "legacy"}
		v1 := c10Id{cont: "bucketteerLegacy"}
		none := c10Id{cont: "none"}
		for _, gs := range []bool{true, false} {
			for mask := 0; mask < 4; mask++ {
				for _, dep := range []bool{false, true} {
					c := A
					c.gsf = gs
					if !gs {
						c.ids[rManifest], c.ids[rPubkey] = none, none
					}
					if mask&1 != 0 {
						c.ids[rSlot] = leg
					}
					if mask&2 != 0 {
						c.ids[rSig] = leg
					}
					c.deprecated = dep
					if dep {
						c.ids[rCid] = none
						c.ids[rSigExists] = v1
					}
					run(c)
					if mask == 1 { // root of sig-to-cid against what is left to compare with
						c2 := c
						c2.ids[rSig].root = rootB
						run(c2)
					}
				}
			}
		}
		c := A
		c.ids[rSigExists] = v1 // v1 file, current configuration
		run(c)
		c = A
		c.deprecated = true
		c.ids[rCid] = none // v2 file, deprecated configuration
		run(c)
		c = A
		c.ids[rCid] = leg
		run(c)
		c = A
		c.ids[rPubkey] = leg
		run(c)
	}
	// --- Filecoin mode (the root comparison with the configured root CID)
	h.exec("case filecoin-mode")
	{
		c := A
		c.filecoin = true
		c.fcroot = rootA
		c.ids[rCid] = c10Id{cont: "none"}
		run(c)
		c2 := c
		c2.fcroot = rootB
		run(c2)
		for _, i := range primary {
			m := muts[i]
			if m.role != rCid && (m.field == "root" || m.field == "epoch") {
				c3 := c
				m.apply(&c3.ids[m.role])
				run(c3)
			}
		}
		c4 := c // everything relabelled to the other root, configured root = that root
		for r := range c4.ids {
			if c4.ids[r].hasRoot {
				c4.ids[r].root = rootB
			}
		}
		c4.fcroot = rootB
		run(c4)
		c4.fcroot = rootA
		run(c4)
		c5 := c
		c5.ids[rSlot] = c10Id{cont: "legacy"}
		run(c5)
		c5.ids[rSig] = c10Id{cont: "legacy"}
		c5.gsf = false
		c5.ids[rManifest], c5.ids[rPubkey] = c10Id{cont: "none"}, c10Id{cont: "none"}
		run(c5)
	}
	// --- random combinations
	n := 60
	if thorough {
		n = 4000
	}
	h.exec("case random-combinations")
	for i := 0; i < n; i++ {
		c := A
		if rng.Intn(4) == 0 {
			c = B
		}
		if rng.Intn(5) == 0 {
			c.gsf = false
			c.ids[rManifest], c.ids[rPubkey] = c10Id{cont: "none"}, c10Id{cont: "none"}
		}
		k := 1 + rng.Intn(5)
		for j := 0; j < k; j++ {
			switch rng.Intn(6) {
			case 0: // whole file of the other fixture epoch
				r := rng.Intn(7)
				if c.ids[r].cont != "none" {
					if rng.Bool() {
						c.ids[r] = B.ids[r]
					} else {
						c.ids[r] = A.ids[r]
					}
				}
			case 1: // file of another role
				r, r2 := rng.Intn(7), rng.Intn(7)
				if c.ids[r].cont != "none" && A.ids[r2].cont != "none" {
					c.ids[r] = A.ids[r2]
				}
			default:
				m := muts[rng.Intn(len(muts))]
				if c.ids[m.role].cont == A.ids[m.role].cont {
					m.apply(&c.ids[m.role])
				}
			}
		}
		if rng.Intn(6) == 0 {
			c.epoch = B.epoch
		}
		if thorough && rng.Intn(40) == 0 || !thorough && i < 4 {
			c.filecoin = true
			c.fcroot = rootA
			if rng.Intn(3) == 0 {
				c.fcroot = rootB
			}
			c.ids[rCid] = c10Id{cont: "none"}
		}
		run(c)
	}

	// --- metadata codec
	h.exec("case metadata-codec")
	hx := func(b []byte) string { return zz.Hex(b) }
	kv := func(kl, vl int) string { return hx(rng.Bytes(kl)) + ":" + hx(rng.Bytes(vl)) }
	h.exec("menc")
	h.exec("menc " + kv(0, 0))
	h.exec("menc " + kv(255, 255))
	h.exec("menc " + kv(256, 1))
	h.exec("menc " + kv(1, 256))
	h.exec("menc " + kv(5, 8) + " " + kv(5, 8)) // duplicate-length keys
	h.exec("menc 6b:01 6b:02")                  // duplicate key
	many := func(n int) string {
		p := make([]string, n)
		for i := range p {
			p[i] = kv(rng.Intn(4), rng.Intn(4))
		}
		return strings.Join(p, " ")
	}
	h.exec("menc " + many(255))
	h.exec("menc " + many(256))
	nm := 40
	if thorough {
		nm = 600
	}
	for i := 0; i < nm; i++ {
		np := rng.Intn(6)
		p := make([]string, np)
		var raw []byte
		raw = append(raw, byte(np))
		for j := range p {
			kl, vl := rng.Intn(40), rng.Intn(40)
			if rng.Intn(10) == 0 {
				kl = 250 + rng.Intn(8)
			}
			if rng.Intn(10) == 0 {
				vl = 250 + rng.Intn(8)
			}
			k, v := rng.Bytes(kl), rng.Bytes(vl)
			p[j] = hx(k) + ":" + hx(v)
			if kl < 256 && vl < 256 {
				raw = append(append(append(append(raw, byte(kl)), k...), byte(vl)), v...)
			}
		}
		h.exec(strings.TrimSpace("menc " + strings.Join(p, " ")))
		// decoding of well-formed, truncated and over-long inputs
		switch rng.Intn(3) {
		case 0:
			h.exec("mdec " + hx(raw))
		case 1:
			h.exec("mdec " + hx(raw[:rng.Intn(len(raw)+1)]))
		default:
			h.exec("mdec " + hx(append(raw, rng.Bytes(rng.Intn(5))...)))
		}
		h.exec("ident " + hx(raw))
	}
	h.exec("mdec -")
	// typed accessors at the width boundary of the epoch value (binary.LittleEndian.Uint64 needs 8 bytes)
	for _, l := range []int{0, 1, 7, 8, 9, 255} {
		h.s.Count(fmt.Sprintf("ident-epoch-value-len-%d", l))
		h.exec("ident " + hx(c10EncKVs([]c10KV{{[]byte("epoch"), rng.Bytes(l)}, {[]byte("rootCid"), rootA}, {[]byte("network"), []byte("mainnet")}})))
	}
	h.exec("ident " + hx(c10EncKVs([]c10KV{{[]byte("kind"), []byte("a")}, {[]byte("kind"), []byte("b")}, {[]byte("epoch"), make([]byte, 8)}}))) // first value wins

	// --- CID-addressed fetches through epoch A's indexes with another CAR behind them
	h.exec("case wrong-car")
	for _, v := range []string{"own", "twin", "own@http", "twin@http"} {
		ep, err := h.variantEpoch(v)
		if err != nil {
			h.s.Count("pfetch:" + v + ":epoch-does-not-load")
			continue
		}
		car, _ := os.ReadFile(fx.cars[strings.TrimSuffix(v, "@http")])
		for bi, b := range fx.A.G.Blocks {
			if bi >= 6 && !thorough {
				break
			}
			emit := func(kind, key string, c cid.Cid) {
				oas, err := ep.FindOffsetAndSizeFromCid(context.Background(), c)
				if err != nil {
					return
				}
				lo, hi := min(oas.Offset, uint64(len(car))), min(oas.Offset+oas.Size, uint64(len(car)))
				h.exec(fmt.Sprintf("pfetch %s %s %s %s %d %d %s", v, kind, key, hx(c.Bytes()), oas.Offset, oas.Size, hx(car[lo:hi])))
			}
			emit("block", fmt.Sprint(b.Slot), b.Cid)
			for ti, tx := range b.Txs {
				if ti < 2 {
					emit("tx", hx(tx.Sig[:]), tx.Cid)
				}
			}
		}
	}
	for _, v := range []string{"own", "other", "shift", "cut", "twin", "own@http", "other@http", "shift@http", "cut@http", "twin@http"} {
		ep, err := h.variantEpoch(v)
		if err != nil {
			// not a violation by itself: the property allows loading to fail here
			h.op("case wrong-car-variant-does-not-load "+v, "ok", false)
			h.s.Count("fetch:" + v + ":epoch-does-not-load")
			continue
		}
		car, _ := os.ReadFile(fx.cars[strings.TrimSuffix(v, "@http")])
		objs := fx.A.G.Objs
		step := 1
		if strings.HasPrefix(v, "own") && !thorough {
			step = 7
		}
		for i := 0; i < len(objs); i += step {
			ob := objs[i]
			oas, err := ep.FindOffsetAndSizeFromCid(context.Background(), ob.Cid)
			if err != nil {
				h.viol("object of epoch A not in epoch A's cid-to-offset-and-size index: "+err.Error(), "C10:fixture", "fetch "+v+" "+hx(ob.Cid.Bytes()))
				continue
			}
			lo, hi := oas.Offset, oas.Offset+oas.Size
			if lo > uint64(len(car)) {
				lo = uint64(len(car))
			}
			if hi > uint64(len(car)) {
				hi = uint64(len(car))
			}
			h.exec(fmt.Sprintf("fetch %s %s %d %d %s", v, hx(ob.Cid.Bytes()), oas.Offset, oas.Size, hx(car[lo:hi])))
		}
	}
}

// checkBuiltIdentity: what the real readers report for a fixture file = what the indexers were given
func (h *c10H) checkBuiltIdentity(le *loadedEpoch, role int, p string) {
	want := fmt.Sprintf("epoch=%d root=%s network=mainnet", le.G.Epoch, le.G.Root)
	got := ""
	fromMeta := func(m *indexes.Metadata) string {
		if string(m.IndexKind) != c10ExpectedKind[role] {
			return "kind=" + string(m.IndexKind)
		}
		return fmt.Sprintf("epoch=%d root=%s network=%s", m.Epoch, m.RootCid, m.Network)
	}
	switch role {
	case rCid:
		r, err := indexes.Open_CidToOffsetAndSize(p)
		if err == nil {
			got = fromMeta(r.Meta())
			r.Close()
		}
	case rSlot:
		r, err := indexes.Open_SlotToCid(p)
		if err == nil {
			got = fromMeta(r.Meta())
			r.Close()
		}
	case rSig:
		r, err := indexes.Open_SigToCid(p)
		if err == nil {
			got = fromMeta(r.Meta())
			r.Close()
		}
	case rPubkey:
		r, err := indexes.Open_PubkeyToOffsetAndSize(p)
		if err == nil {
			got = fromMeta(r.Meta())
			r.Close()
		}
	case rSigExists, rManifest:
		var m indexmeta.Meta
		if role == rSigExists {
			r, err := bucketteer.Open(p)
			if err == nil {
				m = *r.Meta()
				r.Close()
			}
		} else {
			cp := filepath.Join(h.fx.dir, "manifest-copy") // NewManifest opens O_CREATE|O_RDWR
			c10Copy(cp, p)
			r, err := manifest.NewManifest(cp, indexmeta.Meta{})
			if err == nil {
				m = r.Meta()
				r.Close()
			}
		}
		e, _ := m.GetUint64(indexmeta.MetadataKey_Epoch)
		c, _ := m.GetCid(indexmeta.MetadataKey_RootCid)
		n, _ := m.GetString(indexmeta.MetadataKey_Network)
		got = fmt.Sprintf("epoch=%d root=%s network=%s", e, c, n)
	case rBlocktime:
		want = fmt.Sprintf("epoch=%d", le.G.Epoch)
		if ix, err := blocktimeindex.FromFile(p); err == nil {
			got = fmt.Sprintf("epoch=%d", ix.Epoch())
		}
	}
	h.s.Count("built-identity-checked")
	if got != want {
		h.viol(fmt.Sprintf("%s of epoch %d reads back %q, was built with %q", c10Roles[role], le.G.Epoch, got, want), "C10:metadata-not-read-back", "# "+p)
	}
}

func TestVerifC10(t *testing.T) {
	s := zz.NewSession()
	defer s.Close()
	dir, err := os.MkdirTemp("", "verif-c10-")
	if err != nil {
		t.Fatal(err)
	}
	defer os.RemoveAll(dir)
	fx := c10BuildFixture(t, dir)
	h := &c10H{s: s, fx: fx}
	defer func() {
		for _, ep := range fx.varEp {
			ep.Close()
		}
		if fx.httpSrv != nil {
			fx.httpSrv.Close()
		}
	}()
	if rp := zz.ReplayFile(); rp != "" {
		f, err := os.Open(rp)
		if err != nil {
			t.Fatal(err)
		}
		defer f.Close()
		sc := bufio.NewScanner(f)
		sc.Buffer(make([]byte, 1<<20), 1<<30)
		for sc.Scan() {
			h.exec(sc.Text())
		}
		return
	}
	h.generate(zz.Thorough())
}

package splitcarfetcher

// C17 harness, HTTP half (injected by /verif/check with `go test -overlay`; nothing is written to /repo).
//
// The real HTTPSingleFileRemoteReaderAt (built by the real NewRemoteHTTPFileAsIoReaderAt) reads a file served by an
// httptest server on the loopback interface through the real remoteReadAt and the real RangeCache.
//
//	case <text>                    -> ok
//	newhttp <filehex>              -> ok size=<n>
//	readat <off> <len> <mode>      -> <n>:<bytes>:<nil|eof|ueof|range|fetch>
//	      mode: ok               the server honours the Range header (net/http.ServeContent)
//	            st:<code>:<hex>  the server answers THIS call's request (if one is made) with that status and body
//	            terr:<k>         the first k round trips of this call fail in the transport, then the server is honest
//	deleteold all live             -> ok      (exported DeleteOldEntries, everything expired)
//	occ                            -> OccupiedSpace()
//
// Oracle, independent of the model: a read inside the file returns exactly file[off:off+len] or an error, an error only
// when the remote fetch of that call failed (and then the next honest read of the same range must fetch again and be
// right); reads reaching past the end are refused with n = 0; off >= size is io.EOF.

import (
	"bytes"
	"context"
	"errors"
	"fmt"
	"io"
	"math"
	"net/http"
	"net/http/httptest"
	"os"
	"strconv"
	"strings"
	"sync"
	"testing"
	"time"

	"github.com/cespare/xxhash/v2"
	zz "github.com/rpcpool/yellowstone-faithful/zzverif"
)

var errC17Transport = errors.New("c17: injected transport failure")

type c17RT struct {
	next     http.RoundTripper
	mu       sync.Mutex
	failNext int
	trips    int
}

func (rt *c17RT) RoundTrip(req *http.Request) (*http.Response, error) {
	rt.mu.Lock()
	rt.trips++
	fail := rt.failNext > 0
	if fail {
		rt.failNext--
	}
	rt.mu.Unlock()
	if fail {
		return nil, errC17Transport
	}
	return rt.next.RoundTrip(req)
}

type c17HTTP struct {
	s        *zz.Session
	file     []byte
	srv      *httptest.Server
	rr       *HTTPSingleFileRemoteReaderAt
	rt       *c17RT
	mu       sync.Mutex
	mode     string
	requests int
	caseOps  []string
	// ranges whose last fetch failed with an HTTP error status on a mode the pinned tree mishandles
	polluted bool
	shared   []byte
}

func c17ShowBytes(b []byte) string {
	if len(b) <= 32 {
		return zz.Hex(b)
	}
	return fmt.Sprintf("%d#%016x", len(b), xxhash.Sum64(b))
}

func (h *c17HTTP) handler(w http.ResponseWriter, r *http.Request) {
	h.mu.Lock()
	mode := h.mode
	if r.Method == "GET" {
		h.requests++
	}
	h.mu.Unlock()
	if r.Method == "GET" && strings.HasPrefix(mode, "st:") {
		parts := strings.SplitN(mode, ":", 3)
		code, _ := strconv.Atoi(parts[1])
		body := zz.Unhex(parts[2])
		w.Header().Set("Content-Length", strconv.Itoa(len(body)))
		w.WriteHeader(code)
		w.Write(body)
		return
	}
	http.ServeContent(w, r, "file.car", time.Time{}, bytes.NewReader(h.file))
}

func (h *c17HTTP) close() {
	if h.rr != nil {
		h.rr.client.CloseIdleConnections()
		h.rr = nil
	}
	if h.srv != nil {
		h.srv.Close()
		h.srv = nil
	}
}

func (h *c17HTTP) viol(what, key string) {
	h.s.Violation(what, key, h.s.Replay(h.caseOps))
}

func (h *c17HTTP) exec(line string) string {
	w := strings.Fields(line)
	if w[0] == "case" {
		h.caseOps = nil
	}
	h.caseOps = append(h.caseOps, line)
	switch w[0] {
	case "case":
		return "ok"
	case "newhttp":
		h.close()
		h.file = zz.Unhex(w[1])
		h.mode = "ok"
		h.polluted = false
		h.srv = httptest.NewServer(http.HandlerFunc(h.handler))
		ctx, cancel := context.WithCancel(context.Background())
		r, size, err := NewRemoteHTTPFileAsIoReaderAt(ctx, h.srv.URL+"/file.car")
		cancel() // stops the cache GC goroutine: expiry is driven by `deleteold` only
		if err != nil {
			return "err:" + err.Error()
		}
		h.rr = r.(*HTTPSingleFileRemoteReaderAt)
		h.rt = &c17RT{next: h.rr.client.Transport}
		h.rr.client = &http.Client{Transport: h.rt, Timeout: 30 * time.Second}
		if size != int64(len(h.file)) || h.rr.Size() != size {
			h.viol(fmt.Sprintf("remote file of %d bytes opened with size %d", len(h.file), size), "C17:http-size")
		}
		return fmt.Sprintf("ok size=%d", size)
	}
	if h.rr == nil {
		return "bad-op"
	}
	switch w[0] {
	case "occ":
		return strconv.FormatUint(h.rr.ca.OccupiedSpace(), 10)
	case "deleteold":
		h.rr.ca.DeleteOldEntries(context.Background(), time.Duration(math.MinInt64))
		h.polluted = false
		return "ok"
	case "readat":
		off, _ := strconv.ParseInt(w[1], 10, 64)
		ln, _ := strconv.Atoi(w[2])
		mode := w[3]
		h.mu.Lock()
		h.mode = mode
		h.requests = 0
		h.mu.Unlock()
		h.rt.mu.Lock()
		h.rt.failNext = 0
		h.rt.trips = 0
		if strings.HasPrefix(mode, "terr:") {
			h.rt.failNext, _ = strconv.Atoi(mode[5:])
		}
		h.rt.mu.Unlock()
		// ONE buffer for every read of the run (as bufio / section readers do): a cache that kept a reference to the
		// caller's buffer instead of its own copy would serve the later content for the earlier range
		if cap(h.shared) < ln {
			h.shared = make([]byte, ln, 2*ln+64)
		}
		p := h.shared[:ln]
		for i := range p {
			p[i] = 0xCC
		}
		var n int
		var err error
		if r := zz.Guard(func() string { n, err = h.rr.ReadAt(p, off); return "" }); r == "panic" {
			h.viol("ReadAt panics: "+zz.LastPanic, "C17:readat-panic")
			return "panic"
		}
		h.rt.mu.Lock()
		trips := h.rt.trips
		h.rt.failNext = 0
		h.rt.mu.Unlock()
		size := int64(len(h.file))
		cls := "nil"
		switch {
		case err == nil:
		case off >= size && err == io.EOF:
			cls = "eof"
		case err == io.ErrUnexpectedEOF && n > 0:
			cls = "ueof"
		case strings.HasPrefix(err.Error(), "invalid range"):
			cls = "range"
		default:
			cls = "fetch"
		}
		// ---- oracle ----
		switch {
		case off >= size:
			h.s.Count("readat-at-or-past-eof")
			if err != io.EOF || n != 0 {
				h.viol(fmt.Sprintf("ReadAt at offset %d of a %d-byte file returned (%d, %v), want (0, EOF)", off, size, n, err), "C17:readat-eof")
			}
		case off < 0 || off+int64(ln) > size:
			h.s.Count("readat-reaching-past-end")
			if err == nil || n != 0 {
				h.viol(fmt.Sprintf("ReadAt [%d,+%d) reaching past the end of a %d-byte file returned (%d, %v): must be refused, never partial or padded", off, ln, size, n, err), "C17:past-end-not-refused")
			}
			if trips != 0 {
				h.viol("a refused read reached the remote", "C17:past-end-fetched")
			}
		case err != nil:
			h.s.Count("readat-remote-failure")
			remoteFailed := false
			if strings.HasPrefix(mode, "st:") && trips > 0 {
				parts := strings.SplitN(mode, ":", 3)
				remoteFailed = parts[1] != "206" || len(zz.Unhex(parts[2])) < ln
			}
			if strings.HasPrefix(mode, "terr:") && trips >= 3 {
				remoteFailed = true
			}
			if !remoteFailed {
				h.viol(fmt.Sprintf("ReadAt [%d,+%d) failed although the remote did not: %v", off, ln, err), "C17:spurious-error")
			}
			if n != 0 {
				h.viol("ReadAt returned bytes together with a fetch error", "C17:partial-with-error")
			}
		default:
			if trips == 0 {
				h.s.Count("readat-hit")
			} else {
				h.s.Count("readat-fetched")
			}
			if n != ln || !bytes.Equal(p[:n], h.file[off:off+int64(ln)]) {
				key := "C17:wrong-bytes"
				what := fmt.Sprintf("ReadAt [%d,+%d) returned %s, the remote holds %s", off, ln, c17ShowBytes(p[:n]), c17ShowBytes(h.file[off:off+int64(ln)]))
				if strings.HasPrefix(mode, "st:") && trips > 0 && !strings.HasPrefix(mode, "st:206:") {
					key = "C17:http-status-ignored"
					what = "the remote answered the range request with HTTP status " + strings.SplitN(mode, ":", 3)[1] +
						" and ReadAt served the body of that error response as file content: " + what
					h.polluted = true
				} else if h.polluted {
					key = "C17:http-failed-fetch-cached"
					what = "the body of an earlier HTTP error response is served from the cache: " + what
				}
				h.viol(what, key)
			}
		}
		return fmt.Sprintf("%d:%s:%s", n, c17ShowBytes(p[:n]), cls)
	}
	return "bad-op"
}

// ---------------------------------------------------------------- generator

type c17HGen struct {
	rng *zz.RNG
	ops []string
}

func (g *c17HGen) emit(f string, a ...any) { g.ops = append(g.ops, fmt.Sprintf(f, a...)) }

func (g *c17HGen) file(n int) []byte {
	b := g.rng.Bytes(n)
	for i := range b {
		if b[i] == 0 || b[i] == 0xCC {
			b[i] = byte(1 + i%200)
		}
	}
	return b
}

var c17ErrorPage = []byte("<html><head><title>503 Service Temporarily Unavailable</title></head><body><center><h1>503 Service Temporarily Unavailable</h1></center></body></html>")

func (g *c17HGen) directed(thorough bool) {
	f := []byte("0123456789abcdefghijklmnopqrstuvwxyz")
	g.emit("case http directed reads")
	g.emit("newhttp %s", zz.Hex(f))
	for _, l := range []string{
		"readat 10 5 ok", "readat 10 5 ok", "readat 11 3 ok", "readat 9 7 ok", "readat 15 5 ok", "readat 13 4 ok", "occ",
		"readat 31 5 ok", "readat 32 5 ok", "readat 35 1 ok", "readat 35 2 ok", "readat 36 0 ok", "readat 36 1 ok", "readat 37 1 ok", "readat 1000 4 ok",
		"readat -1 2 ok", "readat 0 36 ok", "readat 0 37 ok", "readat 5 0 ok", "readat 0 0 ok", "occ", "deleteold all live", "occ", "readat 35 1 ok", "readat 20 0 ok", "occ",
	} {
		g.emit("%s", l)
	}
	// a failing remote: transport errors (retried three times), then HTTP-level failures
	g.emit("case http transport failures")
	g.emit("newhttp %s", zz.Hex(f))
	g.emit("readat 4 4 terr:1")
	g.emit("readat 8 4 terr:3")
	g.emit("readat 8 4 ok") // the failure was not cached: this fetches and is right
	if thorough {
		g.emit("readat 12 4 terr:2")
		g.emit("readat 16 4 terr:4")
		g.emit("readat 4 4 terr:3") // cached: no fetch, no failure
	}
	g.emit("occ")
	g.emit("case http short body")
	g.emit("newhttp %s", zz.Hex(f))
	g.emit("readat 4 8 st:206:%s", zz.Hex(f[4:8])) // Partial Content with fewer bytes than asked: a failed fetch
	g.emit("readat 4 8 ok")
	g.emit("readat 20 4 st:206:-")
	g.emit("readat 20 4 ok")
	g.emit("readat 24 4 st:206:%s", zz.Hex(f[24:29])) // what an honest server sends: len+1 bytes
	g.emit("readat 24 4 st:500:%s", zz.Hex(c17ErrorPage)) // cached: the remote is not asked
	g.emit("occ")
	for _, code := range []int{500, 503, 404, 403, 416, 200, 301} {
		g.emit("case http error status %d", code)
		g.emit("newhttp %s", zz.Hex(f))
		g.emit("readat 0 4 ok")
		body := c17ErrorPage
		if code == 200 {
			body = f // a server that ignores Range sends the whole file from its start
		}
		g.emit("readat 20 5 st:%d:%s", code, zz.Hex(body))
		g.emit("readat 20 5 ok") // a failed fetch is not cached
		g.emit("readat 21 2 ok")
		g.emit("occ")
		g.emit("readat 8 40 st:%d:%s", code, zz.Hex([]byte("short"))) // past the end: refused before any request
		g.emit("readat 8 20 st:%d:%s", code, zz.Hex([]byte("short"))) // body shorter than the read
		g.emit("readat 8 20 ok")
		g.emit("occ")
	}
}

func (g *c17HGen) random(name string, size, nops int) {
	f := g.file(size)
	g.emit("case http %s size=%d ops=%d", name, size, nops)
	g.emit("newhttp %s", zz.Hex(f))
	var prev [][2]int
	for i := 0; i < nops; i++ {
		var off, ln int
		if len(prev) > 0 && g.rng.Intn(10) < 6 {
			p := prev[g.rng.Intn(len(prev))]
			d := 1 + g.rng.Intn(3)
			switch g.rng.Intn(6) {
			case 0:
				off, ln = p[0], p[1]-p[0]
			case 1:
				off, ln = p[0]+d, p[1]-p[0]-2*d
			case 2:
				off, ln = p[0]-d, p[1]-p[0]+2*d
			case 3:
				off, ln = p[1], 3*d
			case 4:
				off, ln = p[1]-d, 2*d
			default:
				off, ln = p[0]-d, 2*d
			}
			if ln < 0 {
				ln = 0
			}
			if off < 0 {
				off = 0
			}
		} else {
			off = g.rng.Intn(size + 1)
			ln = g.rng.Intn(1 + c17Min(size-off, []int{8, 64, 2048, size}[g.rng.Intn(4)]))
		}
		mode := "ok"
		switch k := g.rng.Intn(40); {
		case k == 0:
			off, ln = size-g.rng.Intn(4), 1+g.rng.Intn(6) // around the end
		case k == 1:
			off = size + g.rng.Intn(3)
		case k < 5:
			mode = fmt.Sprintf("st:%d:%s", []int{500, 502, 503, 404, 200, 206}[g.rng.Intn(6)], zz.Hex(g.rng.Bytes(g.rng.Intn(2*ln+2))))
		}
		if strings.HasPrefix(mode, "st:206:") { // a 206 with foreign bytes would be a lying server, outside the property
			mode = "st:206:" + zz.Hex(f[c17Min(off, size):c17Min(off+ln/2, size)])
		}
		g.emit("readat %d %d %s", off, ln, mode)
		if mode == "ok" && off+ln <= size {
			prev = append(prev, [2]int{off, off + ln})
			if len(prev) > 32 {
				prev = prev[1:]
			}
		}
		if g.rng.Intn(60) == 0 {
			g.emit("deleteold all live")
			prev = nil
		}
		if g.rng.Intn(25) == 0 {
			g.emit("occ")
		}
	}
	g.emit("occ")
}

func c17Min(a, b int) int {
	if a < b {
		return a
	}
	return b
}

func TestVerifC17HTTP(t *testing.T) {
	s := zz.NewSession()
	defer s.Close()
	h := &c17HTTP{s: s}
	defer h.close()
	var ops []string
	if rp := zz.ReplayFile(); rp != "" {
		data, err := os.ReadFile(rp)
		if err != nil {
			t.Fatal(err)
		}
		if !strings.Contains(string(data), "\nnewhttp ") {
			s.Op("case replay-not-applicable", "ok", false) // a replay of the in-process half (TestVerifC17)
			return
		}
		for _, l := range strings.Split(string(data), "\n") {
			l = strings.TrimSpace(l)
			if l != "" && !strings.HasPrefix(l, "#") {
				ops = append(ops, l)
			}
		}
	} else {
		g := &c17HGen{rng: zz.NewRNG(zz.Seed() + 2000)}
		thorough := zz.Thorough()
		g.directed(thorough)
		sizes := []int{1, 7, 100, 4096, 65536}
		n, nops := 5, 150
		if thorough {
			n, nops = 20, 600
		}
		for i := 0; i < n; i++ {
			g.random(fmt.Sprintf("random-%d", i), sizes[i%len(sizes)], nops)
		}
		ops = g.ops
	}
	for _, line := range ops {
		out := h.exec(line)
		s.Op(line, out, strings.HasSuffix(out, ":nil") || strings.HasPrefix(out, "ok"))
	}
}

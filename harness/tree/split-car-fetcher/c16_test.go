package splitcarfetcher

// C16 harness, part 1 (injected by /verif/check with `go test -overlay`; nothing is written to /repo).
// Real MultiReaderAt / NewSplitCarReader / SplitCarReader.ReadAt against op lines; the answers are diffed with
// the Lean model (Driver/C16.lean) and judged by an oracle that is independent of the model: Go slicing of the
// concatenation.

import (
	"bytes"
	"encoding/base64"
	"encoding/binary"
	"fmt"
	"io"
	"os"
	"path/filepath"
	"regexp"
	"strconv"
	"strings"
	"sync"
	"testing"

	"github.com/anjor/carlet"
	"github.com/cespare/xxhash/v2"
	zz "github.com/rpcpool/yellowstone-faithful/zzverif"
)

// c16MemReader is a ReaderAtCloserSize that is neither *FileSplitCarReader nor *HTTPSingleFileRemoteReaderAt:
// NewSplitCarReader applies no size check to it.
type c16MemReader struct {
	*bytes.Reader
	size int64
}

func (m *c16MemReader) Close() error { return nil }
func (m *c16MemReader) Size() int64  { return m.size }

type c16Interp struct {
	s   *zz.Session
	dir string

	mr    *MultiReaderAt
	nsegs int
	exact bool   // every declared size is the reader's length
	flat  []byte // concatenation of the readers (oracle)

	scr      *SplitCarReader
	scrFlat  []byte // original header ‖ file[hs:hs+cs] of every piece (oracle)
	scrExact bool   // every piece file is at least hs+cs long
	nfile    int

	caseOps []string
}

var c16PieceName = regexp.MustCompile(`piece-(\d+)"`)

func c16ShowRead(p []byte, n int, err error) string {
	var b string
	if n < 0 || n > len(p) {
		return fmt.Sprintf("bad-n:%d", n)
	}
	if n <= 64 {
		b = zz.Hex(p[:n])
	} else {
		b = fmt.Sprintf("n=%d h=%016x", n, xxhash.Sum64(p[:n]))
	}
	switch err {
	case nil:
		return b + " noeof"
	case io.EOF:
		return b + " eof"
	}
	return "err:other"
}

// oracle: for off ≥ 0, len > 0 and at least one segment, ReadAt must return exactly flat[off:off+len] (clipped)
// and io.EOF iff that window is shorter than len.
func (in *c16Interp) judge(kind string, flat []byte, off int64, p []byte, n int, err error, line string) {
	ln := len(p)
	lo := off
	if lo > int64(len(flat)) {
		lo = int64(len(flat))
	}
	hi := off + int64(ln)
	if hi > int64(len(flat)) {
		hi = int64(len(flat))
	}
	want := flat[lo:hi]
	wantEOF := len(want) < ln
	got := p[:n]
	gotEOF := err == io.EOF
	if err != nil && err != io.EOF {
		in.s.Violation(fmt.Sprintf("%s.ReadAt(off=%d,len=%d) failed with %v on in-memory pieces", kind, off, ln, err),
			"C16:"+kind+":read-error", in.s.Replay(in.caseOps))
		return
	}
	if !bytes.Equal(got, want) {
		in.s.Violation(fmt.Sprintf("%s.ReadAt(off=%d,len=%d) returned %d bytes %s, the concatenation has %s there",
			kind, off, ln, n, c16Short(got), c16Short(want)), "C16:"+kind+":wrong-bytes", in.s.Replay(in.caseOps))
		return
	}
	if gotEOF != wantEOF {
		in.s.Violation(fmt.Sprintf("%s.ReadAt(off=%d,len=%d) over %d bytes: io.EOF=%v, expected %v", kind, off, ln, len(flat), gotEOF, wantEOF),
			"C16:"+kind+":wrong-eof", in.s.Replay(in.caseOps))
		return
	}
	in.s.Count(kind + "-judged")
	if wantEOF {
		in.s.Count(kind + "-judged-eof")
	}
	_ = line
}

func c16Short(b []byte) string {
	if len(b) > 24 {
		return fmt.Sprintf("%x…(%d)", b[:24], len(b))
	}
	return fmt.Sprintf("%x", b)
}

func (in *c16Interp) closeScr() {
	if in.scr != nil {
		in.scr.Close()
		in.scr = nil
	}
}

func (in *c16Interp) exec(line string) string {
	w := strings.Fields(line)
	if len(w) == 0 {
		return "bad-op"
	}
	if w[0] == "case" {
		in.caseOps = nil
	}
	in.caseOps = append(in.caseOps, line)
	switch w[0] {
	case "case":
		return "ok"
	case "segs", "msegs":
		var readers []io.ReaderAt
		var sizes []int64
		in.flat = nil
		in.exact = true
		total := int64(0)
		for _, x := range w[1:] {
			var data []byte
			var size int64
			if w[0] == "segs" {
				data = zz.Unhex(x)
				size = int64(len(data))
			} else {
				parts := strings.SplitN(x, ":", 2)
				if len(parts) != 2 {
					return "bad-op"
				}
				size, _ = strconv.ParseInt(parts[0], 10, 64)
				data = zz.Unhex(parts[1])
				if size != int64(len(data)) {
					in.exact = false
				}
			}
			readers = append(readers, bytes.NewReader(data))
			sizes = append(sizes, size)
			in.flat = append(in.flat, data...)
			total += size
		}
		in.mr = NewMultiReaderAt(readers, sizes)
		in.nsegs = len(readers)
		if !in.exact {
			in.s.Count("multi-size-table-mismatch")
		}
		return fmt.Sprintf("ok %d %d", len(readers), total)
	case "read":
		if len(w) < 3 {
			return "bad-op"
		}
		if in.mr == nil {
			in.mr = NewMultiReaderAt(nil, nil)
			in.nsegs, in.exact, in.flat = 0, true, nil
		}
		off, _ := strconv.ParseInt(w[1], 10, 64)
		ln, _ := strconv.Atoi(w[2])
		p := make([]byte, ln)
		var n int
		var err error
		r := zz.Guard(func() string {
			n, err = in.mr.ReadAt(p, off)
			return c16ShowRead(p, n, err)
		})
		if r == "panic" {
			in.s.Violation("MultiReaderAt.ReadAt panics: "+zz.LastPanic, "C16:multi:panic", in.s.Replay(in.caseOps))
			return r
		}
		switch {
		case in.nsegs == 0:
			in.s.Count("multi-corner-no-segments")
		case ln == 0:
			in.s.Count("multi-corner-len0")
		case off < 0:
			in.s.Count("multi-corner-negative-offset")
		case !in.exact:
			in.s.Count("multi-mismatch-read")
		default:
			in.judge("multi", in.flat, off, p, n, err, line)
		}
		return r
	case "scr":
		if len(w) < 3 {
			return "bad-op"
		}
		in.closeScr()
		hsz, _ := strconv.ParseUint(w[1], 10, 64)
		hdr := zz.Unhex(w[2])
		md := &carlet.CarPiecesAndMetadata{
			OriginalCarHeaderSize: hsz,
			OriginalCarHeader:     base64.StdEncoding.EncodeToString(hdr),
		}
		type piece struct {
			kind string
			file []byte
		}
		var pieces []piece
		in.scrFlat = binary.AppendUvarint(nil, uint64(len(hdr)))
		in.scrFlat = append(in.scrFlat, hdr...)
		in.scrExact = true
		for i, x := range w[3:] {
			parts := strings.SplitN(x, ":", 4)
			if len(parts) != 4 {
				return "bad-op"
			}
			hs, _ := strconv.ParseUint(parts[1], 10, 64)
			cs, _ := strconv.ParseUint(parts[2], 10, 64)
			file := zz.Unhex(parts[3])
			pieces = append(pieces, piece{parts[0], file})
			md.CarPieces = append(md.CarPieces, carlet.CarFile{Name: fmt.Sprintf("piece-%d", i), HeaderSize: hs, ContentSize: cs})
			if hs+cs <= uint64(len(file)) {
				in.scrFlat = append(in.scrFlat, file[hs:hs+cs]...)
			} else {
				in.scrExact = false
			}
		}
		var opened []io.Closer
		var omu sync.Mutex
		in.nfile++
		sub := filepath.Join(in.dir, fmt.Sprintf("scr%d", in.nfile))
		scr, err := NewSplitCarReader(md, func(cf carlet.CarFile) (ReaderAtCloserSize, error) {
			var idx int
			fmt.Sscanf(cf.Name, "piece-%d", &idx)
			pc := pieces[idx]
			if pc.kind == "f" {
				os.MkdirAll(sub, 0o755)
				path := filepath.Join(sub, cf.Name)
				if err := os.WriteFile(path, pc.file, 0o644); err != nil {
					panic(err)
				}
				r, err := NewFileSplitCarReader(path)
				if err != nil {
					panic(err)
				}
				omu.Lock()
				opened = append(opened, r)
				omu.Unlock()
				return r, nil
			}
			return &c16MemReader{bytes.NewReader(pc.file), int64(len(pc.file))}, nil
		})
		if err != nil {
			for _, c := range opened { // NewSplitCarReader does not close what it opened when it refuses
				c.Close()
			}
			os.RemoveAll(sub)
			msg := err.Error()
			switch {
			case strings.Contains(msg, "unexpected header size"):
				in.s.Count("scr-refused-header")
				return "err:header"
			case strings.Contains(msg, "has unexpected size"):
				in.s.Count("scr-refused-piece-size")
				m := c16PieceName.FindStringSubmatch(msg)
				if m == nil {
					return "err:piece-size:?"
				}
				return "err:piece-size:" + m[1]
			}
			return "err:other:" + strings.ReplaceAll(msg, "\n", " ")
		}
		in.scr = scr
		in.s.Count("scr-opened")
		return fmt.Sprintf("ok %d", 1+len(pieces))
	case "sread":
		if len(w) < 3 {
			return "bad-op"
		}
		if in.scr == nil {
			return "noreader"
		}
		off, _ := strconv.ParseInt(w[1], 10, 64)
		ln, _ := strconv.Atoi(w[2])
		p := make([]byte, ln)
		var n int
		var err error
		r := zz.Guard(func() string {
			n, err = in.scr.ReadAt(p, off)
			return c16ShowRead(p, n, err)
		})
		if r == "panic" {
			in.s.Violation("SplitCarReader.ReadAt panics: "+zz.LastPanic, "C16:split:panic", in.s.Replay(in.caseOps))
			return r
		}
		switch {
		case ln == 0:
			in.s.Count("split-corner-len0")
		case off < 0:
			in.s.Count("split-corner-negative-offset")
		case !in.scrExact:
			in.s.Count("split-short-file-read")
		default:
			in.judge("split", in.scrFlat, off, p, n, err, line)
		}
		return r
	}
	return "bad-op"
}

// ---- generator ----

type c16Gen struct {
	rng  *zz.RNG
	ops  []string
	tag  int
	nvec int
}

func (g *c16Gen) emit(f string, a ...any) { g.ops = append(g.ops, fmt.Sprintf(f, a...)) }

// every (offset, length) with offset in 0..T+1 and offset+length ≤ T+2, plus one negative offset
func (g *c16Gen) allReads(op string, total int) {
	g.tag++
	for off := 0; off <= total+1; off++ {
		for ln := 0; off+ln <= total+2; ln++ {
			g.emit("%s %d %d @%d", op, off, ln, g.tag)
		}
	}
	g.emit("%s -1 2 @%d", op, g.tag)
}

func c16Fill(n int, next *byte) []byte {
	b := make([]byte, n)
	for i := range b {
		*next++
		if *next == 0 {
			*next = 1
		}
		b[i] = *next
	}
	return b
}

// one vector of piece lengths through MultiReaderAt and through SplitCarReader
func (g *c16Gen) vector(lens []int) {
	g.nvec++
	var next byte
	var hexes []string
	total := 0
	for _, n := range lens {
		hexes = append(hexes, zz.Hex(c16Fill(n, &next)))
		total += n
	}
	g.emit("case vec %v", lens)
	g.emit("segs %s", strings.Join(hexes, " "))
	g.allReads("read", total)

	// the same content lengths as split-CAR pieces: own header of 0..2 bytes skipped, 0..2 trailing bytes ignored
	next = 0
	hdrLen := g.nvec % 3
	hdr := make([]byte, hdrLen)
	for i := range hdr {
		hdr[i] = 0xa0 + byte(i)
	}
	var ps []string
	for i, n := range lens {
		hs := (2*i + 1 + g.nvec) % 3
		tail := (i + g.nvec/3) % 3
		file := append(bytes.Repeat([]byte{0xc0 + byte(i)}, hs), c16Fill(n, &next)...)
		file = append(file, bytes.Repeat([]byte{0xf0 + byte(i)}, tail)...)
		ps = append(ps, fmt.Sprintf("m:%d:%d:%s", hs, n, zz.Hex(file)))
	}
	g.emit("scr %d %s %s", 1+hdrLen, zz.Hex(hdr), strings.Join(ps, " "))
	g.allReads("sread", total+1+hdrLen)
}

func (g *c16Gen) exhaustive(maxPieces, maxLen int) {
	var rec func(prefix []int)
	rec = func(prefix []int) {
		g.vector(prefix)
		if len(prefix) == maxPieces {
			return
		}
		for n := 0; n <= maxLen; n++ {
			rec(append(append([]int{}, prefix...), n))
		}
	}
	rec(nil)
}

func (g *c16Gen) boundaryOffsets(sizes []int) []int64 {
	var b []int64
	acc := int64(0)
	for _, s := range sizes {
		for _, d := range []int64{-1, 0, 1} {
			if acc+d >= 0 {
				b = append(b, acc+d)
			}
		}
		acc += int64(s)
	}
	b = append(b, acc-1, acc, acc+1, acc+1000)
	return b
}

func (g *c16Gen) largeSizes(k int) []int {
	sizes := make([]int, k)
	for i := range sizes {
		switch g.rng.Intn(8) {
		case 0:
			sizes[i] = 0
		case 1:
			sizes[i] = 1
		case 2:
			sizes[i] = 65536
		case 3:
			sizes[i] = g.rng.Intn(300)
		default:
			sizes[i] = g.rng.Intn(65537)
		}
	}
	return sizes
}

func (g *c16Gen) randomReads(op string, sizes []int, nreads int) {
	total := 0
	for _, s := range sizes {
		total += s
	}
	bo := g.boundaryOffsets(sizes)
	g.tag++
	for i := 0; i < nreads; i++ {
		var off int64
		if g.rng.Intn(3) > 0 {
			off = bo[g.rng.Intn(len(bo))]
		} else {
			off = int64(g.rng.Intn(total + 2))
		}
		var ln int
		switch g.rng.Intn(5) {
		case 0: // to a boundary exactly, or one byte short / beyond
			e := bo[g.rng.Intn(len(bo))]
			if e > off {
				ln = int(e - off)
			} else {
				ln = 1 + g.rng.Intn(4)
			}
		case 1:
			ln = 1 + g.rng.Intn(70)
		case 2: // everything from off and more
			ln = total - int(off) + g.rng.Intn(3)
			if ln < 0 {
				ln = 3
			}
		default:
			ln = g.rng.Intn(total + 10)
		}
		g.emit("%s %d %d @%d", op, off, ln, g.tag)
	}
}

func (g *c16Gen) largeMulti(nreads int) {
	k := 2 + g.rng.Intn(11)
	sizes := g.largeSizes(k)
	hexes := make([]string, k)
	for i, s := range sizes {
		hexes[i] = zz.Hex(g.rng.Bytes(s))
	}
	g.emit("case large-multi %v", sizes)
	g.emit("segs %s", strings.Join(hexes, " "))
	g.randomReads("read", sizes, nreads)
}

func (g *c16Gen) largeSplit(nreads int, kind string) {
	k := 1 + g.rng.Intn(8)
	sizes := g.largeSizes(k)
	hdr := g.rng.Bytes(1 + g.rng.Intn(200))
	hsz := len(binary.AppendUvarint(nil, uint64(len(hdr)))) + len(hdr)
	ps := make([]string, k)
	for i, s := range sizes {
		hs := g.rng.Intn(70)
		tail := g.rng.Intn(300)
		if kind == "f" {
			tail = 0
		}
		ps[i] = fmt.Sprintf("%s:%d:%d:%s", kind, hs, s, zz.Hex(g.rng.Bytes(hs+s+tail)))
	}
	g.emit("case large-split kind=%s %v", kind, sizes)
	g.emit("scr %d %s %s", hsz, zz.Hex(hdr), strings.Join(ps, " "))
	g.randomReads("sread", append([]int{hsz}, sizes...), nreads)
}

func (g *c16Gen) directed() {
	// no reader at all
	g.emit("case no-segments")
	g.emit("segs")
	for _, r := range [][2]int{{0, 0}, {0, 1}, {5, 3}, {-1, 1}} {
		g.emit("read %d %d", r[0], r[1])
	}
	// the repository's own example
	g.emit("case repo-test")
	g.emit("msegs 6:%s 5:%s", zz.Hex([]byte("Hello ")), zz.Hex([]byte("Worlds")))
	g.allReads("read", 12)
	// declared sizes ≠ reader lengths (outside the property; model correspondence only)
	for i := 0; i < 40; i++ {
		k := 1 + g.rng.Intn(4)
		var xs []string
		total := 0
		for j := 0; j < k; j++ {
			n := g.rng.Intn(5)
			sz := n
			if g.rng.Intn(2) == 0 {
				sz = g.rng.Intn(6)
			}
			total += sz
			xs = append(xs, fmt.Sprintf("%d:%s", sz, zz.Hex(g.rng.Bytes(n))))
		}
		g.emit("case size-table-mismatch %d", i)
		g.emit("msegs %s", strings.Join(xs, " "))
		g.allReads("read", total+3)
	}
	// NewSplitCarReader: recorded header size, local files of right / wrong size, short in-memory files
	g.emit("case scr-header")
	g.emit("sread 0 1")
	g.emit("scr 3 a0")
	g.emit("sread 0 1")
	g.emit("scr 1 -")
	g.allReads("sread", 1)
	g.emit("scr 2 a0")
	g.allReads("sread", 2)
	big := g.rng.Bytes(200) // uvarint of 200 takes two bytes
	g.emit("scr 202 %s m:0:3:010203", zz.Hex(big))
	g.emit("sread 199 6")
	g.emit("scr 201 %s m:0:3:010203", zz.Hex(big))
	g.emit("case scr-local-files")
	g.emit("scr 2 a0 f:1:2:07010208 f:0:1:03")
	g.emit("scr 2 a0 f:1:2:070102 f:0:2:03")
	g.emit("scr 2 a0 f:1:2:070102 f:0:1:03 f:2:0:0909 f:0:0:-")
	g.allReads("sread", 5)
	g.emit("scr 2 a0 m:1:2:070102 f:0:1:0304 m:0:1:05")
	g.emit("sread 0 4")
	for i := 0; i < 25; i++ {
		k := 1 + g.rng.Intn(3)
		var xs []string
		total := 2
		for j := 0; j < k; j++ {
			hs, cs := g.rng.Intn(3), g.rng.Intn(5)
			fl := hs + cs
			if g.rng.Intn(2) == 0 {
				fl = g.rng.Intn(hs + cs + 2)
			}
			total += cs
			xs = append(xs, fmt.Sprintf("m:%d:%d:%s", hs, cs, zz.Hex(g.rng.Bytes(fl))))
		}
		g.emit("case scr-short-file %d", i)
		g.emit("scr 2 a1 %s", strings.Join(xs, " "))
		g.allReads("sread", total)
	}
}

func (g *c16Gen) generate(thorough bool) {
	g.directed()
	if thorough {
		// the stated scope: every vector of ≤ 4 pieces of 0..6 bytes, every (offset, length)
		g.exhaustive(4, 6)
	} else {
		g.exhaustive(3, 4)
		for i := 0; i < 120; i++ { // sampled from the stated scope
			lens := make([]int, 4)
			for j := range lens {
				lens[j] = g.rng.Intn(7)
			}
			if i < 8 { // extremes
				for j := range lens {
					lens[j] = []int{0, 6}[(i>>j)&1]
				}
			}
			g.vector(lens)
		}
	}
	nl, ns, nf := 3, 2, 1
	if thorough {
		nl, ns, nf = 25, 12, 6
	}
	for i := 0; i < nl; i++ {
		g.largeMulti(60)
	}
	for i := 0; i < ns; i++ {
		g.largeSplit(60, "m")
	}
	for i := 0; i < nf; i++ {
		g.largeSplit(40, "f")
	}
}

func TestVerifC16(t *testing.T) {
	s := zz.NewSession()
	defer s.Close()
	dir, err := os.MkdirTemp("", "verif-c16-")
	if err != nil {
		t.Fatal(err)
	}
	defer os.RemoveAll(dir)
	in := &c16Interp{s: s, dir: dir}
	defer in.closeScr()
	var ops []string
	if rp := zz.ReplayFile(); rp != "" {
		data, err := os.ReadFile(rp)
		if err != nil {
			t.Fatal(err)
		}
		// a replay file may come from the other harness run (package main): `split` needs the command, skip its cases
		var group []string
		flush := func() {
			for _, l := range group {
				if strings.HasPrefix(l, "split ") {
					group = nil
				}
			}
			ops = append(ops, group...)
			group = nil
		}
		for _, l := range strings.Split(strings.TrimSpace(string(data)), "\n") {
			if strings.HasPrefix(l, "#") || strings.TrimSpace(l) == "" {
				continue
			}
			if strings.HasPrefix(l, "case") {
				flush()
			}
			group = append(group, l)
		}
		flush()
	} else {
		g := &c16Gen{rng: zz.NewRNG(zz.Seed())}
		g.generate(zz.Thorough())
		ops = g.ops
	}
	for _, op := range ops {
		out := in.exec(op)
		nontrivial := strings.HasSuffix(out, " eof") || strings.HasSuffix(out, " noeof") && !strings.HasPrefix(out, "- ")
		s.Op(op, out, nontrivial)
	}
}

package rangecache

// C17 harness (injected by /verif/check with `go test -overlay`; nothing is written to /repo).
//
// Op lines (one answer line each, compared with the Lean model `fdrv C17`):
//
//	case <text>                         -> ok
//	new <filehex>                       -> ok            fresh RangeCache over an in-process "remote" holding the file
//	get <start> <len> <fetch> <ctx>     -> <bytes> | err:<class>
//	      fetch: ok | fail (the remote fetch of THIS call fails, if one is made) | short:<n> (fetcher breaks its
//	      contract: fills n bytes, returns (n, nil));  ctx: live | done (context already cancelled)
//	set <start> <len> <hex> <ctx>       -> ok | err:range | err:len | err:ctx            exported SetRange
//	deleteold all|none|<s>-<e>,… <ctx>  -> ok            DeleteOldEntries; which entries are "old" is made
//	      deterministic through LastRead/maxAge (never by sleeping)
//	occ                                 -> OccupiedSpace()
//	dump                                -> n=<k> occ=<o> <s>-<e> …   (sorted: the map order is never compared)
//	push / pop                          -> ok            save / restore the cache (exhaustive DFS)
//	peek <op…>                          -> answer of <op…>, state restored afterwards
//	concurrent <text>                   -> ok            oracle only (results depend on the schedule)
//
// <bytes> = hex ("-" = empty) up to 32 bytes, else <len>#<xxhash64>.
//
// The oracle is independent of the model: every successful read is compared with Go slicing of the file.

import (
	"bytes"
	"context"
	"errors"
	"fmt"
	"math"
	"math/big"
	"os"
	"runtime"
	"sort"
	"strconv"
	"strings"
	"sync"
	"sync/atomic"
	"testing"
	"time"

	"github.com/cespare/xxhash/v2"
	zz "github.com/rpcpool/yellowstone-faithful/zzverif"
)

var errC17Injected = errors.New("c17: injected remote failure")

type c17Snap struct {
	cache map[Range]RangeCacheEntry
	occ   uint64
}

type c17Interp struct {
	s    *zz.Session
	file []byte
	rc   *RangeCache
	// fetcher control for the current call
	fetchMode  string
	fetchCalls int
	poisoned   bool // a contract-violating fetcher or a SetRange with foreign bytes was used in this case
	stack      []c17Snap
	hist       []string
	histStack  []int
	newLine    string
}

func c17ShowBytes(b []byte) string {
	if len(b) <= 32 {
		return zz.Hex(b)
	}
	return fmt.Sprintf("%d#%016x", len(b), xxhash.Sum64(b))
}

func c17ErrClass(err error) string {
	switch {
	case errors.Is(err, errC17Injected):
		return "err:fetch"
	case errors.Is(err, context.Canceled):
		return "err:ctx"
	case strings.HasPrefix(err.Error(), "invalid range"):
		return "err:range"
	case strings.HasPrefix(err.Error(), "range too large"):
		return "err:toolarge"
	case strings.HasPrefix(err.Error(), "invalid length"):
		return "err:len"
	case strings.HasPrefix(err.Error(), "invalid value length"):
		return "err:len"
	}
	return "err:other:" + err.Error()
}

func c17Ctx(m string) context.Context {
	if m == "done" {
		ctx, cancel := context.WithCancel(context.Background())
		cancel()
		return ctx
	}
	return context.Background()
}

func (in *c17Interp) fetcher(p []byte, off int64) (int, error) {
	in.fetchCalls++
	if in.fetchMode == "fail" {
		for i := range p { // a failed fetch may leave anything in the buffer
			p[i] = 0xEE
		}
		return 0, errC17Injected
	}
	if off < 0 || off+int64(len(p)) > int64(len(in.file)) {
		return 0, fmt.Errorf("c17: fetch outside the file: off=%d len=%d", off, len(p))
	}
	if strings.HasPrefix(in.fetchMode, "short:") {
		n, _ := strconv.Atoi(in.fetchMode[6:])
		if n > len(p) {
			n = len(p)
		}
		copy(p[:n], in.file[off:])
		return n, nil
	}
	return copy(p, in.file[off:off+int64(len(p))]), nil
}

func (in *c17Interp) snapshot() c17Snap {
	m := make(map[Range]RangeCacheEntry, len(in.rc.cache))
	for k, v := range in.rc.cache {
		m[k] = v
	}
	return c17Snap{m, in.rc.occupiedSpace}
}

func (in *c17Interp) restore(sn c17Snap) {
	m := make(map[Range]RangeCacheEntry, len(sn.cache))
	for k, v := range sn.cache {
		m[k] = v
	}
	in.rc.cache = m
	in.rc.occupiedSpace = sn.occ
}

func (in *c17Interp) keys() []Range {
	ks := make([]Range, 0, len(in.rc.cache))
	for k := range in.rc.cache {
		ks = append(ks, k)
	}
	sort.Slice(ks, func(i, j int) bool {
		if ks[i][0] != ks[j][0] {
			return ks[i][0] < ks[j][0]
		}
		return ks[i][1] < ks[j][1]
	})
	return ks
}

func (in *c17Interp) dump() string {
	var b strings.Builder
	ks := in.keys()
	fmt.Fprintf(&b, "n=%d occ=%d", len(ks), in.rc.occupiedSpace)
	for _, k := range ks {
		fmt.Fprintf(&b, " %d-%d", k[0], k[1])
	}
	return b.String()
}

// fingerprint of the whole cache state (keys, values, accounting) for "state unchanged" checks
func (in *c17Interp) fingerprint() string {
	h := xxhash.New()
	for _, k := range in.keys() {
		fmt.Fprintf(h, "%d-%d:", k[0], k[1])
		h.Write(in.rc.cache[k].Value)
		h.Write([]byte{0xff})
	}
	return fmt.Sprintf("%d/%d/%016x", len(in.rc.cache), in.rc.occupiedSpace, h.Sum64())
}

func (in *c17Interp) viol(what, key, last string) {
	lines := append([]string{"case replay", in.newLine}, in.hist...)
	if last != "" && (len(in.hist) == 0 || in.hist[len(in.hist)-1] != last) {
		lines = append(lines, last)
	}
	in.s.Violation(what, key, in.s.Replay(lines))
}

// c17CheckState: what every reachable state must satisfy (proved for the model: C17.reachable_wf / reachable_inv).
func c17CheckState(rc *RangeCache, file []byte, poisoned bool) string {
	type kv struct {
		r Range
		v []byte
	}
	es := make([]kv, 0, len(rc.cache))
	var sum uint64
	for r, e := range rc.cache {
		es = append(es, kv{r, e.Value})
		sum += uint64(len(e.Value))
		if r[0] < 0 || r[0] > r[1] || r[1] > rc.size {
			return fmt.Sprintf("entry [%d,%d) outside the file of size %d", r[0], r[1], rc.size)
		}
		if int64(len(e.Value)) != r[1]-r[0] {
			return fmt.Sprintf("entry [%d,%d) holds %d bytes", r[0], r[1], len(e.Value))
		}
		if !poisoned && !bytes.Equal(e.Value, file[r[0]:r[1]]) {
			return fmt.Sprintf("entry [%d,%d) does not hold the file's bytes", r[0], r[1])
		}
	}
	if sum != rc.occupiedSpace {
		return fmt.Sprintf("occupiedSpace=%d but the entries hold %d bytes", rc.occupiedSpace, sum)
	}
	sort.Slice(es, func(i, j int) bool {
		if es[i].r[0] != es[j].r[0] {
			return es[i].r[0] < es[j].r[0]
		}
		return es[i].r[1] < es[j].r[1]
	})
	for i := 1; i < len(es); i++ {
		a, b := es[i-1].r, es[i].r
		if a.contains(b) || b.contains(a) {
			return fmt.Sprintf("nested entries [%d,%d) and [%d,%d)", a[0], a[1], b[0], b[1])
		}
		if b[1] <= a[1] { // sorted by start: ends must increase too, otherwise some pair is nested
			return fmt.Sprintf("nested entries near [%d,%d) and [%d,%d)", a[0], a[1], b[0], b[1])
		}
	}
	return ""
}

func (in *c17Interp) checkState(after string) {
	if in.rc == nil {
		return
	}
	if msg := c17CheckState(in.rc, in.file, in.poisoned); msg != "" {
		in.viol("cache state broken after `"+after+"`: "+msg, "C17:state-invariant", "")
	}
}

func (in *c17Interp) get(w []string, line string) string {
	start, _ := strconv.ParseInt(w[1], 10, 64)
	ln, _ := strconv.ParseInt(w[2], 10, 64)
	in.fetchMode = w[3]
	in.fetchCalls = 0
	if strings.HasPrefix(w[3], "short:") {
		in.poisoned = true
	}
	ctx := c17Ctx(w[4])
	before := in.fingerprint()
	var got []byte
	var err error
	r := zz.Guard(func() string {
		got, err = in.rc.GetRange(ctx, start, ln)
		return ""
	})
	if r == "panic" {
		in.viol("GetRange panics: "+zz.LastPanic, "C17:getrange-panic", line)
		return "panic"
	}
	// ---- oracle (independent of the model) ----
	end := new(big.Int).Add(big.NewInt(start), big.NewInt(ln))
	inside := start >= 0 && ln >= 0 && end.Cmp(big.NewInt(int64(len(in.file)))) <= 0
	switch {
	case !inside:
		in.s.Count("get-past-end-or-negative")
		if err == nil {
			in.viol(fmt.Sprintf("read [%d,+%d) reaching outside the %d-byte file was answered with %d bytes instead of being refused", start, ln, len(in.file), len(got)),
				"C17:past-end-not-refused", line)
		}
		if in.fetchCalls != 0 {
			in.viol("a refused read reached the remote", "C17:past-end-fetched", line)
		}
		if in.fingerprint() != before {
			in.viol("a refused read changed the cache", "C17:past-end-state-changed", line)
		}
	case err != nil:
		fetchFailed := in.fetchMode == "fail" && in.fetchCalls > 0
		if fetchFailed {
			in.s.Count("get-fetch-failed")
			if !errors.Is(err, errC17Injected) {
				in.viol("remote fetch failed but GetRange returned another error: "+err.Error(), "C17:wrong-error", line)
			}
			if in.fingerprint() != before {
				in.viol("a failed remote fetch changed the cache", "C17:failed-fetch-cached", line)
			}
		} else if w[4] == "done" && errors.Is(err, context.Canceled) {
			in.s.Count("get-ctx-cancelled")
			if in.fingerprint() != before {
				in.viol("a cancelled read changed the cache", "C17:cancelled-state-changed", line)
			}
		} else {
			in.viol(fmt.Sprintf("read [%d,+%d) inside the file failed although the remote did not: %v", start, ln, err), "C17:spurious-error", line)
		}
	default:
		if in.fetchCalls > 1 {
			in.viol("more than one remote fetch for one read", "C17:double-fetch", line)
		}
		if in.fetchMode == "fail" && in.fetchCalls > 0 {
			in.viol("remote fetch failed but GetRange returned data", "C17:failed-fetch-returned-data", line)
		}
		if in.fetchCalls == 0 {
			in.s.Count("get-hit")
			if in.fingerprint() != before {
				in.viol("a cache hit changed the cache", "C17:hit-state-changed", line)
			}
		} else {
			in.s.Count("get-miss-fetched")
		}
		if !in.poisoned && !bytes.Equal(got, in.file[start:start+ln]) {
			in.viol(fmt.Sprintf("read [%d,+%d) returned %s, the remote holds %s", start, ln, c17ShowBytes(got), c17ShowBytes(in.file[start:start+ln])),
				"C17:wrong-bytes", line)
		}
		if ln == 0 {
			in.s.Count("get-zero-length")
		}
	}
	if err != nil {
		return c17ErrClass(err)
	}
	out := c17ShowBytes(got)
	for i := range got { // the caller owns the result: scribbling on it must not reach the cache
		got[i] ^= 0xA5
	}
	return out
}

func (in *c17Interp) exec(line string) string {
	w := strings.Fields(line)
	switch w[0] {
	case "case":
		return "ok"
	case "concurrent":
		return "ok"
	case "new":
		in.file = zz.Unhex(w[1])
		if in.file == nil {
			in.file = []byte{}
		}
		in.rc = NewRangeCache(int64(len(in.file)), "c17", in.fetcher)
		in.poisoned = false
		in.stack, in.hist, in.histStack = nil, nil, nil
		in.newLine = line
		return "ok"
	}
	if in.rc == nil {
		return "bad-op"
	}
	switch w[0] {
	case "push":
		in.stack = append(in.stack, in.snapshot())
		in.histStack = append(in.histStack, len(in.hist))
		return "ok"
	case "pop":
		if len(in.stack) == 0 {
			return "bad-op"
		}
		in.restore(in.stack[len(in.stack)-1])
		in.stack = in.stack[:len(in.stack)-1]
		in.hist = in.hist[:in.histStack[len(in.histStack)-1]]
		in.histStack = in.histStack[:len(in.histStack)-1]
		return "ok"
	case "peek":
		sn := in.snapshot()
		n := len(in.hist)
		p := in.poisoned
		out := in.exec(strings.Join(w[1:], " "))
		in.restore(sn)
		in.hist = in.hist[:n]
		in.poisoned = p
		return out
	case "occ":
		return strconv.FormatUint(in.rc.OccupiedSpace(), 10)
	case "dump":
		return in.dump()
	}
	in.hist = append(in.hist, line)
	switch w[0] {
	case "get":
		out := in.get(w, line)
		in.checkState(line)
		return out
	case "set":
		start, _ := strconv.ParseInt(w[1], 10, 64)
		ln, _ := strconv.ParseInt(w[2], 10, 64)
		v := zz.Unhex(w[3])
		if v == nil {
			v = []byte{}
		}
		end := new(big.Int).Add(big.NewInt(start), big.NewInt(ln))
		inside := start >= 0 && ln >= 0 && end.Cmp(big.NewInt(int64(len(in.file)))) <= 0
		if inside && int64(len(v)) == ln && !bytes.Equal(v, in.file[start:start+ln]) {
			in.poisoned = true // the caller lied about the file: outside the property
		}
		before := in.fingerprint()
		var err error
		r := zz.Guard(func() string {
			err = in.rc.SetRange(c17Ctx(w[4]), start, ln, append([]byte(nil), v...))
			return ""
		})
		if r == "panic" {
			in.viol("SetRange panics: "+zz.LastPanic, "C17:setrange-panic", "")
			return "panic"
		}
		in.s.Count("set")
		if err != nil && in.fingerprint() != before && !errors.Is(err, context.Canceled) {
			in.viol("a refused SetRange changed the cache", "C17:set-refused-state-changed", "")
		}
		if !inside && err == nil {
			in.viol("SetRange accepted a range outside the file", "C17:set-past-end-accepted", "")
		}
		in.checkState(line)
		if err != nil {
			return c17ErrClass(err)
		}
		return "ok"
	case "deleteold":
		ctx := c17Ctx(w[2])
		nBefore := len(in.rc.cache)
		switch w[1] {
		case "all":
			in.rc.DeleteOldEntries(ctx, time.Duration(math.MinInt64)) // time.Since(..) > MinInt64: everything is old
			if w[2] == "live" && len(in.rc.cache) != 0 {
				in.viol("DeleteOldEntries with everything expired left entries", "C17:expiry-incomplete", "")
			}
			if len(in.rc.cache) == 0 {
				in.poisoned = false // nothing cached any more: the lies of an outside-contract fetcher are gone
			}
		case "none":
			in.rc.DeleteOldEntries(ctx, time.Duration(math.MaxInt64)) // nothing is older than that
			if len(in.rc.cache) != nBefore {
				in.viol("DeleteOldEntries with nothing expired removed entries", "C17:expiry-overeager", "")
			}
		default:
			// make exactly the listed entries old: LastRead = zero time (time.Since saturates), all others = now;
			// maxAge = 100000h.  No sleeping, no dependence on the clock's resolution.
			want := map[Range]bool{}
			for _, p := range strings.Split(w[1], ",") {
				ab := strings.SplitN(p, "-", 2)
				a, _ := strconv.ParseInt(ab[0], 10, 64)
				b, _ := strconv.ParseInt(ab[1], 10, 64)
				want[Range{a, b}] = true
			}
			now := time.Now()
			for k, e := range in.rc.cache {
				if want[k] {
					e.LastRead = time.Time{}
				} else {
					e.LastRead = now
				}
				in.rc.cache[k] = e
			}
			in.rc.DeleteOldEntries(ctx, 100000*time.Hour)
		}
		in.s.Count("deleteold-" + map[bool]string{true: "all", false: "subset"}[w[1] == "all"])
		in.checkState(line)
		return "ok"
	}
	return "bad-op"
}

// ---------------------------------------------------------------- generators

type c17Gen struct {
	rng *zz.RNG
	ops []string
}

func (g *c17Gen) emit(f string, a ...any) { g.ops = append(g.ops, fmt.Sprintf(f, a...)) }

// exhaustive: all histories of length ≤ depth over the alphabet
//
//	{ get(start,len) 0≤start≤7, 0≤len≤7 (incl. past the end of the 6-byte file), the same with a failing remote,
//	  deleteold-all }
//
// enumerated as a DFS with shared prefixes.  Ops that cannot change the cache (refused reads, reads whose remote
// fetch fails) are applied at every node and the harness checks, on the real cache, that the state fingerprint is
// unchanged — so the histories that continue after such an op are exactly the histories without it and are not
// enumerated a second time.  Every other op (successful read, deleteold) is followed recursively.
func (g *c17Gen) exhaustive(depth int) (nodes int) {
	file := []byte{0xa1, 0xb2, 0xc3, 0xd4, 0xe5, 0xf6}
	g.emit("case exhaustive depth=%d file=6", depth)
	g.emit("new %s", zz.Hex(file))
	type op struct {
		line    string
		mutator bool
	}
	var alphabet []op
	for start := 0; start <= 7; start++ {
		for ln := 0; ln <= 7; ln++ {
			valid := start+ln <= len(file)
			alphabet = append(alphabet, op{fmt.Sprintf("get %d %d ok live", start, ln), valid})
			alphabet = append(alphabet, op{fmt.Sprintf("get %d %d fail live", start, ln), false})
		}
	}
	alphabet = append(alphabet, op{"deleteold all live", true})
	var dfs func(d int)
	dfs = func(d int) {
		nodes++
		for _, o := range alphabet {
			switch {
			case !o.mutator:
				g.emit("%s", o.line)
			case d+1 == depth:
				g.emit("peek %s", o.line)
			default:
				g.emit("push")
				g.emit("%s", o.line)
				dfs(d + 1)
				g.emit("pop")
			}
		}
	}
	dfs(0)
	return nodes
}

// pick a range shaped relative to earlier requests: equal, nested, superset, adjacent, overlapping, or random
func (g *c17Gen) shapedRange(size int64, prev [][2]int64) (int64, int64, string) {
	clamp := func(x int64) int64 {
		if x < 0 {
			return 0
		}
		if x > size {
			return size
		}
		return x
	}
	if len(prev) > 0 && g.rng.Intn(10) < 7 {
		p := prev[g.rng.Intn(len(prev))]
		a, b := p[0], p[1]
		d := int64(1 + g.rng.Intn(4))
		switch g.rng.Intn(8) {
		case 0:
			return a, b - a, "equal"
		case 1: // nested
			x := clamp(a + d)
			y := clamp(b - d)
			if x <= y {
				return x, y - x, "nested"
			}
			return a, b - a, "equal"
		case 2: // superset
			x, y := clamp(a-d), clamp(b+d)
			return x, y - x, "superset"
		case 3: // adjacent on the right
			y := clamp(b + d*3)
			return b, y - b, "adjacent-right"
		case 4: // adjacent on the left
			x := clamp(a - d*3)
			return x, a - x, "adjacent-left"
		case 5: // overlapping right edge
			x, y := clamp(b-d), clamp(b+d)
			if x < a {
				x = a
			}
			return x, y - x, "overlap-right"
		case 6: // overlapping left edge
			x, y := clamp(a-d), clamp(a+d)
			return x, y - x, "overlap-left"
		default: // same start, shorter or longer
			y := clamp(b + int64(g.rng.Intn(7)) - 3)
			if y < a {
				y = a
			}
			return a, y - a, "same-start"
		}
	}
	maxLen := int64(4096)
	if g.rng.Intn(20) == 0 {
		maxLen = size
	}
	if g.rng.Intn(3) == 0 {
		maxLen = 16
	}
	start := int64(0)
	if size > 0 {
		start = int64(g.rng.U64() % uint64(size+1))
	}
	ln := int64(0)
	if m := min(maxLen, size-start); m > 0 {
		ln = int64(g.rng.U64() % uint64(m+1))
	}
	switch g.rng.Intn(12) {
	case 0:
		return 0, ln, "at-start"
	case 1:
		return size - ln, ln, "at-end"
	case 2:
		return 0, size, "whole-file"
	}
	return start, ln, "random"
}

func (g *c17Gen) randomHistory(s *zz.Session, name string, size int64, nops int, contractBreaks bool) {
	file := g.rng.Bytes(int(size))
	for i := range file { // no zero bytes: zero padding can never pass for file content
		if file[i] == 0 {
			file[i] = byte(1 + i%255)
		}
	}
	g.emit("case %s size=%d ops=%d", name, size, nops)
	g.emit("new %s", zz.Hex(file))
	var prev [][2]int64
	remember := func(a, ln int64) {
		prev = append(prev, [2]int64{a, a + ln})
		if len(prev) > 64 {
			prev = prev[len(prev)-64:]
		}
	}
	for i := 0; i < nops; i++ {
		ctx := "live"
		if g.rng.Intn(40) == 0 {
			ctx = "done"
		}
		switch k := g.rng.Intn(100); {
		case k < 62:
			a, ln, shape := g.shapedRange(size, prev)
			s.Count("shape-" + shape)
			g.emit("get %d %d ok %s", a, ln, ctx)
			if ctx == "live" {
				remember(a, ln)
			}
		case k < 72:
			a, ln, _ := g.shapedRange(size, prev)
			g.emit("get %d %d fail %s", a, ln, ctx)
		case k < 78: // past the end / negative / overflowing
			var a, ln int64
			switch g.rng.Intn(8) {
			case 0:
				a, ln = size, 1
			case 1:
				a, ln = size-1, 2
			case 2:
				a, ln = -1, 1
			case 3:
				a, ln = 0, size+1
			case 4:
				a, ln = 1, -1
			case 5:
				a, ln = math.MaxInt64, 1
			case 6:
				a, ln = 1, math.MaxInt64
			default:
				a, ln = size+int64(g.rng.Intn(5)), int64(g.rng.Intn(5))
				if a+ln <= size {
					ln = size - a + 1
				}
			}
			mode := "ok"
			if g.rng.Bool() {
				mode = "fail"
			}
			g.emit("get %d %d %s %s", a, ln, mode, ctx)
		case k < 84: // exported SetRange with the file's own bytes (sometimes a wrong length or a bad range)
			a, ln, _ := g.shapedRange(size, prev)
			if ln > 512 {
				ln = 512
			}
			v := file[a : a+ln]
			switch g.rng.Intn(12) {
			case 0:
				g.emit("set %d %d %s %s", a, ln+1, zz.Hex(v), ctx)
			case 1:
				g.emit("set %d %d %s %s", size-1, 3, zz.Hex([]byte{1, 2, 3}), ctx)
			default:
				g.emit("set %d %d %s %s", a, ln, zz.Hex(v), ctx)
				if ctx == "live" {
					remember(a, ln)
				}
			}
		case k < 91: // expiry of an arbitrary subset of what may be cached
			if len(prev) == 0 {
				g.emit("deleteold none %s", ctx)
				break
			}
			n := 1 + g.rng.Intn(4)
			var ks []string
			for j := 0; j < n; j++ {
				p := prev[g.rng.Intn(len(prev))]
				ks = append(ks, fmt.Sprintf("%d-%d", p[0], p[1]))
			}
			g.emit("deleteold %s %s", strings.Join(ks, ","), ctx)
		case k < 93:
			g.emit("deleteold all %s", ctx)
		case k < 94:
			g.emit("deleteold none %s", ctx)
		case k < 97:
			g.emit("occ")
		default:
			g.emit("dump")
		}
		if contractBreaks && g.rng.Intn(25) == 0 {
			a, ln, _ := g.shapedRange(size, prev)
			if ln > 0 {
				// once the fetcher has lied, which cached entry answers an overlapping read depends on the map
				// order, so only the exact range is read back (exact hits come first) and then everything expires
				s.Count("outside-contract-short-read")
				g.emit("get %d %d short:%d live", a, ln, g.rng.Intn(int(min(ln, 1<<20))))
				g.emit("get %d %d fail live", a, ln)
				g.emit("dump")
				g.emit("deleteold all live")
				prev = nil
			}
		}
		if contractBreaks && g.rng.Intn(40) == 0 {
			a, ln, _ := g.shapedRange(size, prev)
			if ln > 64 {
				ln = 64
			}
			s.Count("outside-contract-foreign-set")
			g.emit("set %d %d %s live", a, ln, zz.Hex(g.rng.Bytes(int(ln))))
			g.emit("get %d %d fail live", a, ln)
			g.emit("dump")
			g.emit("deleteold all live")
			prev = nil
		}
	}
	g.emit("dump")
}

func (g *c17Gen) directed() {
	// the repository's own example and the boundary cases of the validity test
	g.emit("case directed hello-world")
	g.emit("new %s", zz.Hex([]byte("hello world")))
	g.emit("set 0 5 %s live", zz.Hex([]byte("hello")))
	g.emit("set 1 1 %s live", zz.Hex([]byte("e")))
	g.emit("dump")
	g.emit("get 1 3 fail live") // must be a hit
	g.emit("get 1 7 ok live")
	g.emit("get 1 7 fail live")
	g.emit("dump")
	g.emit("case directed empty-file")
	g.emit("new -")
	for _, l := range []string{"get 0 0 ok live", "get 0 0 fail live", "get 0 1 ok live", "get 1 0 ok live", "deleteold all live", "get 0 0 ok done", "occ", "dump"} {
		g.emit("%s", l)
	}
	g.emit("case directed int64-edges")
	g.emit("new %s", zz.Hex([]byte{1, 2, 3, 4, 5, 6, 7, 8}))
	for _, se := range [][2]int64{{math.MaxInt64, 1}, {math.MaxInt64, math.MaxInt64}, {1, math.MaxInt64}, {math.MinInt64, 0}, {math.MinInt64, math.MinInt64},
		{-1, 2}, {0, -1}, {8, 0}, {8, 1}, {9, 0}, {7, 1}, {0, 8}, {0, 9}, {4, math.MinInt64}, {-9223372036854775807, 9223372036854775807}} {
		g.emit("get %d %d ok live", se[0], se[1])
		g.emit("set %d %d 01 live", se[0], se[1])
	}
	g.emit("dump")
	// replacement of cached subsets, superset already present, adjacency is not containment
	g.emit("case directed subsets-supersets")
	g.emit("new %s", zz.Hex([]byte{0x10, 0x11, 0x12, 0x13, 0x14, 0x15, 0x16, 0x17, 0x18, 0x19}))
	for _, l := range []string{"get 1 2 ok live", "get 4 2 ok live", "get 7 1 ok live", "dump", "get 3 1 ok live", "dump", "get 0 7 ok live", "dump",
		"get 1 2 fail live", "get 4 2 fail live", "get 7 1 fail live", "get 6 2 fail live", "get 6 2 ok live", "dump", "get 0 10 ok live", "dump",
		"get 9 1 fail live", "get 0 0 fail live", "get 10 0 fail live", "get 5 0 fail live", "deleteold 0-10 live", "get 5 0 fail live", "occ",
		"get 2 2 ok live", "get 2 2 ok done", "get 2 1 ok done", "get 6 1 ok done", "deleteold all done", "dump", "set 0 4 10111213 done", "dump",
		"deleteold all live", "set 0 4 10111213 done", "dump", "get 0 4 fail done", "get 1 2 fail done", "get 5 1 ok done", "dump"} {
		g.emit("%s", l)
	}
	// zero-length entries next to real ones
	g.emit("case directed zero-length")
	g.emit("new %s", zz.Hex([]byte{0x21, 0x22, 0x23, 0x24}))
	for _, l := range []string{"get 2 0 ok live", "dump", "get 2 0 fail live", "get 1 2 ok live", "dump", "get 2 0 fail live", "get 0 0 ok live", "get 4 0 ok live",
		"dump", "get 0 4 ok live", "dump", "occ"} {
		g.emit("%s", l)
	}
	// the fetcher contract is needed: a fetcher returning (n < len, nil) gets zero padding cached (the code ignores n)
	g.emit("case outside-contract short-read")
	g.emit("new %s", zz.Hex([]byte{0x31, 0x32, 0x33, 0x34}))
	for _, l := range []string{"get 0 4 short:2 live", "get 0 4 fail live", "get 1 3 fail live", "dump"} {
		g.emit("%s", l)
	}
}

func (g *c17Gen) generate(s *zz.Session, thorough bool) {
	g.directed()
	depth := 3
	if thorough {
		depth = 4
	}
	n := g.exhaustive(depth)
	s.Add("exhaustive-dfs-nodes", n)
	s.Add("exhaustive-depth", depth)
	sizes := []int64{1, 2, 6, 64, 1000, 4096, 65536}
	nh, nops := 10, 400
	if thorough {
		nh, nops = 60, 3000
	}
	for i := 0; i < nh; i++ {
		size := sizes[i%len(sizes)]
		if i >= len(sizes) && g.rng.Intn(3) == 0 {
			size = int64(1 + g.rng.Intn(65536))
		}
		g.randomHistory(s, fmt.Sprintf("random-%d", i), size, nops, false)
	}
	for i := 0; i < nh/5+1; i++ {
		g.randomHistory(s, fmt.Sprintf("outside-contract-%d", i), sizes[(i+2)%len(sizes)], nops/4, true)
	}
	// a file of several 64 KiB blocks: short reads that cross block-size multiples (4 KiB .. 128 KiB), each on a cold
	// cache and again after the neighbouring ranges were read
	{
		size := int64(200003)
		file := g.rng.Bytes(int(size))
		for i := range file {
			if file[i] == 0 {
				file[i] = byte(1 + i%255)
			}
		}
		g.emit("case directed block-boundaries size=%d", size)
		g.emit("new %s", zz.Hex(file))
		for _, b := range []int64{4096, 16384, 32768, 65536, 131072, 196608} {
			for _, d := range [][2]int64{{-1, 2}, {-10, 20}, {-3000, 6000}, {0, 1}, {-1, 1}, {-40000, 50000}} {
				a, ln := b+d[0], d[1]
				if a < 0 || a+ln > size {
					continue
				}
				g.emit("get %d %d ok live", a, ln)
				s.Count("directed-block-boundary-reads")
			}
		}
		g.emit("get %d %d ok live", int64(0), size)
		g.emit("get %d %d ok live", int64(65530), int64(12))
	}
}

// ---------------------------------------------------------------- concurrent part (oracle only)

// c17Concurrent: `readers` goroutines issue random GetRange calls against one cache while another goroutine expires
// entries and a third one calls SetRange; the remote fails on some calls.  Every result must be the file slice, the
// injected error, or a refusal; afterwards the state invariant must hold.  Returns the number of calls made.
func c17Concurrent(s *zz.Session, rng *zz.RNG, readers, opsPer int, size int) (bad int) {
	file := rng.Bytes(size)
	for i := range file {
		if file[i] == 0 {
			file[i] = 1
		}
	}
	var calls atomic.Int64
	failEvery := int64(5 + rng.Intn(7))
	rc := NewRangeCache(int64(size), "c17-concurrent", func(p []byte, off int64) (int, error) {
		if calls.Add(1)%failEvery == 0 {
			for i := range p {
				p[i] = 0xEE
			}
			return 0, errC17Injected
		}
		return copy(p, file[off:off+int64(len(p))]), nil
	})
	var mu sync.Mutex
	report := func(what, key string) {
		mu.Lock()
		defer mu.Unlock()
		bad++
		if bad <= 3 {
			s.Violation(what, key, "")
		}
	}
	var wg sync.WaitGroup
	var done atomic.Bool
	ctx := context.Background()
	for r := 0; r < readers; r++ {
		seed := rng.U64()
		wg.Add(1)
		go func() {
			defer wg.Done()
			rg := zz.NewRNG(seed)
			g := &c17Gen{rng: rg}
			var prev [][2]int64
			for i := 0; i < opsPer; i++ {
				a, ln, _ := g.shapedRange(int64(size), prev)
				if rg.Intn(30) == 0 {
					a, ln = int64(size)-1, 2+int64(rg.Intn(3))
				}
				if ln > 2048 {
					ln = 2048
				}
				got, err := rc.GetRange(ctx, a, ln)
				inside := a >= 0 && ln >= 0 && a+ln <= int64(size)
				switch {
				case !inside:
					if err == nil {
						report(fmt.Sprintf("concurrent: read [%d,+%d) past the end answered with %d bytes", a, ln, len(got)), "C17:past-end-not-refused")
					}
				case err != nil:
					if !errors.Is(err, errC17Injected) {
						report("concurrent: read inside the file failed although the remote did not: "+err.Error(), "C17:spurious-error")
					}
				default:
					if !bytes.Equal(got, file[a:a+ln]) {
						report(fmt.Sprintf("concurrent: read [%d,+%d) returned bytes the remote does not hold there", a, ln), "C17:wrong-bytes")
					}
					for j := range got {
						got[j] ^= 0x5A
					}
					prev = append(prev, [2]int64{a, a + ln})
					if len(prev) > 32 {
						prev = prev[1:]
					}
				}
				if rg.Intn(8) == 0 {
					runtime.Gosched()
				}
			}
		}()
	}
	var bg sync.WaitGroup
	bg.Add(2)
	seedA, seedB := rng.U64(), rng.U64()
	go func() { // expiry interleaved with the reads
		defer bg.Done()
		rg := zz.NewRNG(seedA)
		for !done.Load() {
			if rg.Intn(4) == 0 {
				rc.DeleteOldEntries(ctx, time.Duration(math.MinInt64))
			} else {
				rc.DeleteOldEntries(ctx, time.Duration(math.MaxInt64))
			}
			runtime.Gosched()
		}
	}()
	go func() { // SetRange with the file's bytes
		defer bg.Done()
		rg := zz.NewRNG(seedB)
		g := &c17Gen{rng: rg}
		for !done.Load() {
			a, ln, _ := g.shapedRange(int64(size), nil)
			if ln > 256 {
				ln = 256
			}
			if err := rc.SetRange(ctx, a, ln, append([]byte(nil), file[a:a+ln]...)); err != nil {
				report("concurrent: SetRange inside the file failed: "+err.Error(), "C17:spurious-error")
			}
			runtime.Gosched()
		}
	}()
	wg.Wait()
	done.Store(true)
	bg.Wait()
	if msg := c17CheckState(rc, file, false); msg != "" {
		report("concurrent: cache state broken at the end: "+msg, "C17:state-invariant")
	}
	s.Add("concurrent-getrange-calls", readers*opsPer)
	return bad
}

func c17RunConcurrent(s *zz.Session, rng *zz.RNG, rounds, readers, opsPer int) {
	for i := 0; i < rounds; i++ {
		size := []int{6, 64, 4096, 65536}[i%4]
		line := fmt.Sprintf("concurrent round=%d readers=%d ops=%d size=%d", i, readers, opsPer, size)
		bad := c17Concurrent(s, rng, readers, opsPer, size)
		out := "ok"
		if bad > 0 {
			out = fmt.Sprintf("bad:%d", bad)
		}
		s.Op(line, out, bad == 0)
	}
}

// ---------------------------------------------------------------- tests

func c17Interpret(s *zz.Session, ops []string) {
	in := &c17Interp{s: s}
	for _, line := range ops {
		out := in.exec(line)
		nontrivial := !strings.HasPrefix(out, "err") && out != "bad-op" && out != "panic"
		s.Op(line, out, nontrivial)
	}
}

func TestVerifC17(t *testing.T) {
	s := zz.NewSession()
	defer s.Close()
	if rp := zz.ReplayFile(); rp != "" {
		data, err := os.ReadFile(rp)
		if err != nil {
			t.Fatal(err)
		}
		var ops []string
		for _, l := range strings.Split(string(data), "\n") {
			l = strings.TrimSpace(l)
			if l != "" && !strings.HasPrefix(l, "#") {
				ops = append(ops, l)
			}
		}
		if strings.Contains(string(data), "\nnewhttp ") {
			s.Op("case replay-not-applicable", "ok", false) // a replay of the HTTP half (TestVerifC17HTTP)
			return
		}
		c17Interpret(s, ops)
		return
	}
	rng := zz.NewRNG(zz.Seed())
	g := &c17Gen{rng: rng}
	g.generate(s, zz.Thorough())
	c17Interpret(s, g.ops)
	if zz.Thorough() {
		c17RunConcurrent(s, rng, 8, 8, 4000)
	} else {
		c17RunConcurrent(s, rng, 4, 8, 1000)
	}
}

// TestVerifC17Race is the concurrent part alone; the check runs it with `go test -race`.
func TestVerifC17Race(t *testing.T) {
	s := zz.NewSession()
	defer s.Close()
	if zz.ReplayFile() != "" {
		s.Op("case replay-not-applicable", "ok", false)
		return
	}
	rng := zz.NewRNG(zz.Seed() + 1000)
	s.Op("case race-detector", "ok", false)
	if zz.Thorough() {
		c17RunConcurrent(s, rng, 8, 8, 2000)
	} else {
		c17RunConcurrent(s, rng, 4, 6, 500)
	}
}

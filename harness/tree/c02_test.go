package main

// C02 harness (injected by /verif/check with `go test -overlay`; nothing is written to /repo).
//
// Generated epochs (shared fixture epochgen_test.go: real signed transactions, protobuf+zstd metadata, multi-frame
// payloads, repo's own CBOR encoders, go-car writer) are indexed by the real `index all`, loaded as real Epochs into a
// real MultiEpoch — every non-empty SUBSET of them, each subset under several Options.EpochSearchConcurrency values,
// always with ONE cache shared by all epochs as in cmd-rpc.go — and every archived slot and signature is requested
// through the JSON-RPC handler (newMultiEpochHandler; encodings base58 / base64 / base64+zstd / json) and through the
// gRPC methods (MultiEpoch.GetBlock / GetTransaction / GetBlockTime called directly).
//
// Op lines (one answer line each, from the real code here and from the Lean model in Driver/C02.lean):
//
//	case <name> seed=<n> twin=<0|1> skip1=<0|1> epochs=<spec;spec…>   spec = epoch:blocks:maxtx:skip:frame:big:loaded:firstslot
//	epoch <num> genesis=<unix|->                             the archive, described once per case (ground truth of the
//	obj <epoch> <cid> <offset>                                 generator): CAR sections, blocks, entries, transactions
//	block <epoch> <slot> <parent> <time> <height> <cid>
//	entry <epoch> <slot> <hash> <cid>
//	tx <epoch> <slot> <pos> <sig> <payload> <metadata> <cid> <frames> <txjson-digest> <metajson-digest>
//	load <epochs> conc=<c> order=<asc|desc>                  fresh MultiEpoch + fresh shared cache with these epochs
//	gettx <api> <sig> | getblock <api> <slot> | getblocktime <api> <slot>      api = grpc | json-<encoding>
//
// Canonical answers: the binary encodings are decoded back to bytes and printed as xxhash64:length (so are the gRPC
// payloads: byte identity); the `json` transaction and the JSON metadata are reduced to a digest of their canonical
// JSON / of the comparable fields (fee, err presence, pre/post balances, log messages, loaded addresses) — the
// expected digests are computed from the generator's own objects (solana-go's marshalling of the generated
// transaction), i.e. third-party renderers are trusted, only "the right transaction in the right place" is decided.
//
// Oracle (independent of the model): the expected answer is computed here from the generator's ground truth.
//
// Within a `load`, all getblocktime / gettx requests come before the getblock requests: getBlock prefetches a CAR range
// into the raw-object cache, which would hide the offset-cache path from the later requests.

import (
	"bytes"
	"context"
	"encoding/base64"
	"encoding/hex"
	"encoding/json"
	"fmt"
	"os"
	"path/filepath"
	"runtime"
	"sort"
	"strconv"
	"strings"
	"testing"
	"time"

	"github.com/allegro/bigcache/v3"
	"github.com/cespare/xxhash/v2"
	bin "github.com/gagliardetto/binary"
	"github.com/gagliardetto/solana-go"
	"github.com/ipfs/go-cid"
	"github.com/mr-tron/base58"
	hugecache "github.com/rpcpool/yellowstone-faithful/huge-cache"
	"github.com/rpcpool/yellowstone-faithful/indexes"
	old_faithful_grpc "github.com/rpcpool/yellowstone-faithful/old-faithful-proto/old-faithful-grpc"
	"github.com/rpcpool/yellowstone-faithful/third_party/solana_proto/confirmed_block"
	"github.com/rpcpool/yellowstone-faithful/tooling"
	zz "github.com/rpcpool/yellowstone-faithful/zzverif"
	"github.com/valyala/fasthttp"
	"google.golang.org/grpc/codes"
	"google.golang.org/grpc/status"
	"google.golang.org/protobuf/proto"
)

const c02GenesisFixture = "radiance/genesis/testdata/mainnet/genesis.tar.bz2" // relative to the package dir (repo root)
const c02GenesisTime = 1584368940

var c02APIs = []string{"grpc", "json-base58", "json-base64", "json-base64+zstd", "json-json"}

type c02Case struct {
	name  string
	seed  uint64
	twin  bool // a further epoch (number = last + 1) built by c02GenTwin from the multi-frame transactions of the FIRST epoch: the two share objects
	specs []genOpts
	skip1 bool // epoch 0: first block at slot 0, second block at slot >= 2 (boundary of the same-epoch parent test)
	// collide: two epochs, the FIRST spec being the later one: it is generated and indexed first, then the first two
	// transactions of the second (earlier) epoch are re-signed until the later epoch's sig-to-cid index answers their
	// signatures (a 24-bit hash collision across epochs): only the sig-exists filter keeps the epoch search from
	// stopping at the wrong epoch
	collide bool
}

type c02MemFile struct{ *bytes.Reader }

func (c02MemFile) Close() error { return nil }

func c02SpecString(specs []genOpts) string {
	var p []string
	for _, o := range specs {
		p = append(p, fmt.Sprintf("%d:%d:%d:%d:%d:%d:%d:%d:%d", o.Epoch, o.NBlocks, o.MaxTx, o.SkipPct, o.FramePct, o.BigPct, o.LoadedPct, o.FirstSlotAt, o.TimeBase))
	}
	return strings.Join(p, ";")
}

func c02ParseSpecs(s string) []genOpts {
	var out []genOpts
	for _, part := range strings.Split(s, ";") {
		f := strings.Split(part, ":")
		if len(f) != 8 && len(f) != 9 {
			continue
		}
		n := func(i int) uint64 {
			if i >= len(f) {
				return 0
			}
			v, _ := strconv.ParseUint(f[i], 10, 64)
			return v
		}
		out = append(out, genOpts{Epoch: n(0), NBlocks: int(n(1)), MaxTx: int(n(2)), SkipPct: int(n(3)), FramePct: int(n(4)), BigPct: int(n(5)),
			LoadedPct: int(n(6)), FirstSlotAt: n(7), TimeBase: n(8), KeySeedBase: byte(n(0) + 1), NKeys: 6, TxDataFrames: true})
	}
	return out
}

func (c c02Case) line() string {
	sh, sk, co := 0, 0, 0
	if c.twin {
		sh = 1
	}
	if c.skip1 {
		sk = 1
	}
	if c.collide {
		co = 1
	}
	return fmt.Sprintf("case %s seed=%d twin=%d skip1=%d collide=%d epochs=%s", c.name, c.seed, sh, sk, co, c02SpecString(c.specs))
}

func c02ParseCase(line string) (c02Case, bool) {
	f := strings.Fields(line)
	if len(f) < 6 || f[0] != "case" {
		return c02Case{}, false
	}
	c := c02Case{name: f[1]}
	for _, kv := range f[2:] {
		k, v, _ := strings.Cut(kv, "=")
		switch k {
		case "seed":
			c.seed, _ = strconv.ParseUint(v, 10, 64)
		case "twin":
			c.twin = v == "1"
		case "skip1":
			c.skip1 = v == "1"
		case "collide":
			c.collide = v == "1"
		case "epochs":
			c.specs = c02ParseSpecs(v)
		}
	}
	return c, len(c.specs) > 0
}

func c02Cases(rng *zz.RNG, thorough bool) []c02Case {
	mk := func(e uint64, nb, maxTx, skip, frame, big, loaded int) genOpts {
		return genOpts{Epoch: e, NBlocks: nb, MaxTx: maxTx, SkipPct: skip, FramePct: frame, BigPct: big, LoadedPct: loaded, KeySeedBase: byte(e + 1), NKeys: 6, TxDataFrames: true}
	}
	var cs []c02Case
	if !thorough {
		// epochs 0, 1, 2 from the shared fixture + epoch 3 = twin of epoch 0 (shares frames with it)
		cs = append(cs, c02Case{name: "main", seed: rng.U64(), twin: true, specs: []genOpts{
			mk(0, 24, 4, 0, 30, 5, 20), mk(1, 30, 5, 30, 25, 5, 30), mk(2, 30, 5, 40, 25, 0, 0)}})
	} else {
		cs = append(cs, c02Case{name: "main", seed: rng.U64(), twin: true, specs: []genOpts{
			mk(0, 200, 5, 0, 4, 4, 20), mk(1, 300, 6, 30, 3, 4, 30), mk(2, 300, 6, 50, 3, 2, 10)}})
		cs = append(cs, c02Case{name: "dense-frames", seed: rng.U64(), twin: true, specs: []genOpts{
			mk(5, 12, 4, 20, 100, 10, 0), mk(6, 12, 4, 20, 100, 0, 0), mk(7, 10, 4, 60, 100, 0, 40)}})
	}
	// directed: a small epoch whose every transaction has multi-frame metadata, and its twin
	cs = append(cs, c02Case{name: "shared-frames", seed: rng.U64(), twin: true, specs: []genOpts{mk(10, 10, 3, 30, 100, 0, 0)}})
	// directed: epoch 0 whose second block skips slot 1 (parent = slot 0)
	cs = append(cs, c02Case{name: "epoch0-skip1", seed: rng.U64(), skip1: true, specs: []genOpts{mk(0, 5, 2, 50, 30, 0, 0)}})
	// directed: a signature of the earlier epoch that the later epoch's sig-to-cid index answers (cross-epoch hash collision)
	cs = append(cs, c02Case{name: "sig-collision", seed: rng.U64(), collide: true, specs: []genOpts{mk(21, 30, 5, 30, 25, 0, 0), mk(19, 8, 3, 30, 25, 0, 0)}})
	// directed: block times on both sides of 2^31 and up to 2^32-1 (the slot-to-blocktime index stores a uint32 per slot)
	{
		a, b := mk(30, 8, 3, 30, 25, 0, 0), mk(31, 6, 3, 30, 25, 0, 0)
		a.TimeBase = 1<<31 - 30*432000 - 3
		b.TimeBase = 1<<32 - 1 - 32*432000
		cs = append(cs, c02Case{name: "late-block-times", seed: rng.U64(), specs: []genOpts{a, b}})
	}
	// model validation only: an epoch that starts mid-epoch (the parent of its first block is in the same epoch but not archived)
	po := mk(123, 6, 3, 30, 30, 0, 0)
	po.FirstSlotAt = 100000
	cs = append(cs, c02Case{name: "partial-epoch", seed: rng.U64(), specs: []genOpts{po}})
	return cs
}

func c02DupWithin(ge *gEpoch) bool {
	seen := map[cid.Cid]struct{}{}
	for _, o := range ge.Objs {
		if _, ok := seen[o.Cid]; ok {
			return true
		}
		seen[o.Cid] = struct{}{}
	}
	return false
}

// c02Shared returns the CIDs stored at different offsets in two different epochs (CID → true)
func c02Shared(ges []*gEpoch) map[cid.Cid]bool {
	first := map[cid.Cid][2]uint64{} // cid → (epoch, offset)
	out := map[cid.Cid]bool{}
	for _, ge := range ges {
		for _, o := range ge.Objs {
			if p, ok := first[o.Cid]; ok {
				if p[0] != ge.Epoch && p[1] != o.Offset {
					out[o.Cid] = true
				}
			} else {
				first[o.Cid] = [2]uint64{ge.Epoch, o.Offset}
			}
		}
	}
	return out
}

// c02Generate: rejection sampling over sub-seeds until the epochs have no duplicate object inside one CAR (the index
// builder refuses those: not this property's business) and satisfy the case's directed condition (epoch 0 starts at
// slot 0; skip1; the twin really shares an object with its donor at a different offset).
func c02Generate(c c02Case, dir string) ([]*gEpoch, int, error) {
	master := zz.NewRNG(c.seed)
	for try := 1; try <= 400; try++ {
		sub := zz.NewRNG(master.U64())
		var ges []*gEpoch
		ok := true
		specs := append([]genOpts{}, c.specs...)
		for oi, o := range specs {
			ge := genEpoch(sub, dir, o)
			if c.collide && oi == 0 && len(specs) > 1 {
				pre := filepath.Join(dir, fmt.Sprintf("pre-%d", try))
				le, err := buildIndexes(ge, pre, false)
				if err != nil {
					return nil, try, fmt.Errorf("collide: %w", err)
				}
				raw, err := os.ReadFile(le.Paths.SignatureToCid)
				os.RemoveAll(pre)
				if err != nil {
					return nil, try, err
				}
				rd, err := indexes.OpenWithReader_SigToCid(c02MemFile{bytes.NewReader(raw)})
				if err != nil {
					return nil, try, fmt.Errorf("collide: %w", err)
				}
				specs[1].SigAccept = func(sig []byte) bool {
					var sg solana.Signature
					copy(sg[:], sig)
					_, err := rd.Get(sg)
					return err == nil
				}
				specs[1].SigAcceptN = 2
			}
			if c02DupWithin(ge) {
				ok = false
				break
			}
			if o.Epoch == 0 && ge.Blocks[0].Slot != 0 {
				ok = false
				break
			}
			if c.skip1 && (len(ge.Blocks) < 3 || ge.Blocks[1].Slot < 2) {
				ok = false
				break
			}
			ges = append(ges, ge)
		}
		if !ok {
			continue
		}
		if c.twin {
			donors := c02Donors(ges[0], 24)
			if len(donors) == 0 {
				continue
			}
			last := c.specs[len(c.specs)-1].Epoch
			tw := c02GenTwin(sub, dir, last+1, donors, byte(last+2))
			if c02DupWithin(tw) {
				continue
			}
			ges = append(ges, tw)
			if len(c02Shared(ges)) == 0 {
				continue
			}
		}
		return ges, try, nil
	}
	return nil, 400, fmt.Errorf("no acceptable epoch set in 400 tries")
}

func c02NewCache(ctx context.Context) *hugecache.Cache {
	conf := bigcache.DefaultConfig(5 * time.Minute)
	conf.HardMaxCacheSize = 64
	conf.Verbose = false
	c, err := hugecache.NewWithConfig(ctx, conf)
	if err != nil {
		panic(err)
	}
	return c
}

// c02Load opens a real Epoch (as cmd-rpc.go does: LoadConfig + NewEpochFromConfig with the shared cache)
func c02Load(le *loadedEpoch, dir string, cache *hugecache.Cache, genesis string) (*Epoch, error) {
	cfgPath := filepath.Join(dir, fmt.Sprintf("epoch-%d.yml", le.G.Epoch))
	cfg := fmt.Sprintf("epoch: %d\nversion: 1\ndata:\n  car:\n    uri: '%s'\nindexes:\n%s", le.G.Epoch, le.G.Car, le.Paths.String())
	if le.G.Epoch == 0 {
		cfg += fmt.Sprintf("genesis:\n  uri: '%s'\n", genesis)
	}
	if err := os.WriteFile(cfgPath, []byte(cfg), 0o644); err != nil {
		return nil, err
	}
	conf, err := LoadConfig(cfgPath)
	if err != nil {
		return nil, fmt.Errorf("LoadConfig: %w", err)
	}
	return NewEpochFromConfig(conf, newCliCtx(), cache, nil)
}

func c02Digest(b []byte) string { return fmt.Sprintf("%016x:%d", xxhash.Sum64(b), len(b)) }

func c02CanonJSON(v any) string {
	b, err := json.Marshal(v) // maps are written with sorted keys
	if err != nil {
		return "unmarshalable"
	}
	return fmt.Sprintf("%016x", xxhash.Sum64(b))
}

// digest of the `json` rendering of the generated transaction: solana-go's own marshalling
func c02TxJSONDigest(raw []byte) string {
	var tx solana.Transaction
	if err := bin.UnmarshalBin(&tx, raw); err != nil {
		return "undecodable"
	}
	b, err := fasterJson.Marshal(tx)
	if err != nil {
		return "unmarshalable"
	}
	var v any
	dec := json.NewDecoder(strings.NewReader(string(b)))
	dec.UseNumber()
	if err := dec.Decode(&v); err != nil {
		return "unparsable"
	}
	return c02CanonJSON(v)
}

func c02MetaFields(fee string, hasErr bool, pre, post []string, logs []string, lw, lr []string) string {
	e := 0
	if hasErr {
		e = 1
	}
	s := fmt.Sprintf("fee=%s|err=%d|pre=%s|post=%s|logs=%d:%016x|lw=%s|lr=%s", fee, e, strings.Join(pre, ","), strings.Join(post, ","),
		len(logs), xxhash.Sum64String(strings.Join(logs, "\n")), strings.Join(lw, ","), strings.Join(lr, ","))
	return fmt.Sprintf("%016x", xxhash.Sum64String(s))
}

// expected digest of the comparable metadata fields, from the generator's protobuf object
func c02MetaDigestTruth(metaRaw []byte) string {
	var m confirmed_block.TransactionStatusMeta
	if err := proto.Unmarshal(metaRaw, &m); err != nil {
		return "undecodable"
	}
	u := func(l []uint64) []string {
		var o []string
		for _, x := range l {
			o = append(o, strconv.FormatUint(x, 10))
		}
		return o
	}
	k := func(l [][]byte) []string {
		var o []string
		for _, x := range l {
			o = append(o, base58.Encode(x))
		}
		return o
	}
	return c02MetaFields(strconv.FormatUint(m.Fee, 10), m.Err != nil, u(m.PreBalances), u(m.PostBalances), m.LogMessages, k(m.LoadedWritableAddresses), k(m.LoadedReadonlyAddresses))
}

// the same digest from the `meta` object of a JSON-RPC answer
func c02MetaDigestJSON(v any) string {
	m, ok := v.(map[string]any)
	if !ok {
		return "nometa"
	}
	strs := func(x any) []string {
		l, _ := x.([]any)
		var o []string
		for _, e := range l {
			o = append(o, fmt.Sprint(e))
		}
		return o
	}
	var lw, lr []string
	if la, ok := m["loadedAddresses"].(map[string]any); ok {
		lw, lr = strs(la["writable"]), strs(la["readonly"])
	}
	// failure: the `status` object has the key "Err" (the generator's error payload is not a decodable
	// TransactionError, so `err` itself is rendered as null by the adapter; presence is what is compared)
	hasErr := m["err"] != nil
	if st, ok := m["status"].(map[string]any); ok {
		if _, e := st["Err"]; e {
			hasErr = true
		}
	}
	return c02MetaFields(fmt.Sprint(m["fee"]), hasErr, strs(m["preBalances"]), strs(m["postBalances"]), strs(m["logMessages"]), lw, lr)
}

func c02DecodeTx(enc string, v any) string {
	switch enc {
	case "json":
		return c02CanonJSON(v)
	}
	l, ok := v.([]any)
	if !ok || len(l) != 2 {
		return "badshape"
	}
	s, _ := l[0].(string)
	if fmt.Sprint(l[1]) != enc {
		return "badenc"
	}
	var b []byte
	var err error
	switch enc {
	case "base58":
		b, err = base58.Decode(s)
	case "base64":
		b, err = base64.StdEncoding.DecodeString(s)
	case "base64+zstd":
		b, err = base64.StdEncoding.DecodeString(s)
		if err == nil {
			b, err = tooling.DecompressZstd(b)
		}
	}
	if err != nil {
		return "undecodable"
	}
	return c02Digest(b)
}

func c02ParseJSONRPC(code int, body string) (result any, errClass string) {
	var resp map[string]any
	dec := json.NewDecoder(strings.NewReader(body))
	dec.UseNumber()
	if err := dec.Decode(&resp); err != nil {
		return nil, fmt.Sprintf("err:unparsable-%d", code)
	}
	if e, ok := resp["error"].(map[string]any); ok {
		msg := fmt.Sprint(e["message"])
		switch {
		case strings.HasPrefix(msg, "Epoch "):
			return nil, "err:epoch"
		case fmt.Sprint(e["code"]) == "-32603":
			return nil, "err:internal"
		case strings.Contains(msg, "not found") || strings.Contains(msg, "skipped"):
			return nil, "null"
		}
		return nil, "err:" + fmt.Sprint(e["code"])
	}
	r, has := resp["result"]
	if !has || r == nil {
		return nil, "null"
	}
	return r, ""
}

func c02GrpcErr(err error) string {
	st, _ := status.FromError(err)
	switch st.Code() {
	case codes.NotFound:
		if strings.HasPrefix(st.Message(), "Epoch ") {
			return "err:epoch"
		}
		return "null"
	case codes.Internal:
		return "err:internal"
	}
	return "err:" + st.Code().String()
}

func c02B58Hex(v any) string {
	if v == nil {
		return "null"
	}
	b, err := base58.Decode(fmt.Sprint(v))
	if err != nil {
		return "undecodable"
	}
	return hex.EncodeToString(b)
}

func c02Null(v any) string {
	if v == nil {
		return "null"
	}
	return fmt.Sprint(v)
}

type c02Srv struct {
	multi   *MultiEpoch
	handler func(*fasthttp.RequestCtx)
}

func (s *c02Srv) getBlock(api string, slot uint64) string {
	if api == "grpc" {
		r, err := s.multi.GetBlock(context.Background(), &old_faithful_grpc.BlockRequest{Slot: slot})
		if err != nil {
			return c02GrpcErr(err)
		}
		var txs []string
		for _, t := range r.Transactions {
			pos := "-"
			if t.Index != nil {
				pos = strconv.FormatUint(*t.Index, 10)
			}
			txs = append(txs, fmt.Sprintf("%s:%s:%s", pos, c02Digest(t.Transaction), c02Digest(t.Meta)))
		}
		prev := "null"
		if len(r.PreviousBlockhash) > 0 {
			prev = hex.EncodeToString(r.PreviousBlockhash)
		}
		tm := "null"
		if r.BlockTime != 0 {
			tm = strconv.FormatInt(r.BlockTime, 10)
		}
		return fmt.Sprintf("ok slot=%d parent=%d time=%s height=%d hash=%s prev=%s txs=[%s]", r.Slot, r.ParentSlot, tm, r.BlockHeight,
			hex.EncodeToString(r.Blockhash), prev, strings.Join(txs, ";"))
	}
	enc := strings.TrimPrefix(api, "json-")
	code, body := doRPC(s.handler, fmt.Sprintf(`{"jsonrpc":"2.0","id":1,"method":"getBlock","params":[%d,{"encoding":"%s","transactionDetails":"full"}]}`, slot, enc))
	res, ec := c02ParseJSONRPC(code, body)
	if ec != "" {
		return ec
	}
	m, ok := res.(map[string]any)
	if !ok {
		return "err:shape"
	}
	var txs []string
	l, _ := m["transactions"].([]any)
	for _, e := range l {
		t, _ := e.(map[string]any)
		txs = append(txs, fmt.Sprintf("-:%s:%s", c02DecodeTx(enc, t["transaction"]), c02MetaDigestJSON(t["meta"])))
	}
	return fmt.Sprintf("ok slot=- parent=%s time=%s height=%s hash=%s prev=%s txs=[%s]", c02Null(m["parentSlot"]), c02Null(m["blockTime"]),
		c02Null(m["blockHeight"]), c02B58Hex(m["blockhash"]), c02B58Hex(m["previousBlockhash"]), strings.Join(txs, ";"))
}

func (s *c02Srv) getTx(api string, sig solana.Signature) string {
	if api == "grpc" {
		r, err := s.multi.GetTransaction(context.Background(), &old_faithful_grpc.TransactionRequest{Signature: sig[:]})
		if err != nil {
			return c02GrpcErr(err)
		}
		pos := "-"
		if r.Index != nil {
			pos = strconv.FormatUint(*r.Index, 10)
		}
		return fmt.Sprintf("ok slot=%d time=%d pos=%s tx=%s meta=%s", r.Slot, r.BlockTime, pos, c02Digest(r.Transaction.Transaction), c02Digest(r.Transaction.Meta))
	}
	enc := strings.TrimPrefix(api, "json-")
	code, body := doRPC(s.handler, fmt.Sprintf(`{"jsonrpc":"2.0","id":1,"method":"getTransaction","params":["%s",{"encoding":"%s"}]}`, sig.String(), enc))
	res, ec := c02ParseJSONRPC(code, body)
	if ec != "" {
		return ec
	}
	m, ok := res.(map[string]any)
	if !ok {
		return "err:shape"
	}
	return fmt.Sprintf("ok slot=%s time=%s pos=- tx=%s meta=%s", c02Null(m["slot"]), c02Null(m["blockTime"]), c02DecodeTx(enc, m["transaction"]), c02MetaDigestJSON(m["meta"]))
}

func (s *c02Srv) getBlockTime(api string, slot uint64) string {
	if api == "grpc" {
		r, err := s.multi.GetBlockTime(context.Background(), &old_faithful_grpc.BlockTimeRequest{Slot: slot})
		if err != nil {
			return c02GrpcErr(err)
		}
		return fmt.Sprintf("ok %d", r.BlockTime)
	}
	code, body := doRPC(s.handler, fmt.Sprintf(`{"jsonrpc":"2.0","id":1,"method":"getBlockTime","params":[%d]}`, slot))
	res, ec := c02ParseJSONRPC(code, body)
	if ec != "" {
		return ec
	}
	return "ok " + fmt.Sprint(res)
}

/* ---- ground truth ---- */

type c02Truth struct {
	ges      map[uint64]*gEpoch
	txDigest map[solana.Signature][2]string // json digests: transaction, metadata
	shared   map[cid.Cid]bool
	txShared map[solana.Signature]bool // the transaction has a frame whose CID is stored elsewhere in another epoch
}

func c02EpochOf(slot uint64) uint64 { return slot / 432000 }

func (tr *c02Truth) txPart(api string, t *gTx, withPos bool) (string, string, string) {
	pos := "-"
	if api == "grpc" {
		if withPos {
			pos = strconv.Itoa(t.Pos)
		}
		return pos, c02Digest(t.Raw), c02Digest(t.Meta)
	}
	d := tr.txDigest[t.Sig]
	if api == "json-json" {
		return pos, d[0], d[1]
	}
	return pos, c02Digest(t.Raw), d[1]
}

// expectBlock: what the property demands; `got` is consulted only for the field the property leaves open
// (previousBlockhash when the parent is not in the same epoch).
func (tr *c02Truth) expectBlock(api string, ge *gEpoch, b *gBlock, got string) string {
	parent, tm := b.Parent, b.Time
	if b.Slot == 0 {
		parent, tm = 0, c02GenesisTime
	}
	prev := ""
	switch {
	case b.Slot == 0:
		prev = hex.EncodeToString(b.LastEntryHash) // what the Solana RPC does, says the handler
	case c02EpochOf(b.Parent) == ge.Epoch:
		if pb, ok := ge.bySlot[b.Parent]; ok {
			prev = hex.EncodeToString(pb.LastEntryHash)
		}
	}
	if prev == "" { // parent in another epoch (or not archived): the property does not say; take what was answered
		prev = "null"
		if i := strings.Index(got, " prev="); i >= 0 {
			prev = strings.Fields(got[i+6:])[0]
		}
	}
	var txs []string
	for _, t := range b.Txs {
		p, a, m := tr.txPart(api, t, true)
		txs = append(txs, p+":"+a+":"+m)
	}
	slot := "-"
	if api == "grpc" {
		slot = strconv.FormatUint(b.Slot, 10)
	}
	return fmt.Sprintf("ok slot=%s parent=%d time=%d height=%d hash=%s prev=%s txs=[%s]", slot, parent, tm, b.Height, hex.EncodeToString(b.LastEntryHash), prev, strings.Join(txs, ";"))
}

func (tr *c02Truth) expectTx(api string, b *gBlock, t *gTx) string {
	p, a, m := tr.txPart(api, t, true)
	return fmt.Sprintf("ok slot=%d time=%d pos=%s tx=%s meta=%s", b.Slot, b.Time, p, a, m)
}

/* ---- the run ---- */

func c02Concs() []int {
	cs := []int{1, 2}
	if n := runtime.NumCPU(); n > 2 {
		cs = append(cs, n)
	}
	return cs
}

func c02Subsets(n int) [][]int {
	var out [][]int
	for mask := 1; mask < 1<<n; mask++ {
		var s []int
		for i := 0; i < n; i++ {
			if mask&(1<<i) != 0 {
				s = append(s, i)
			}
		}
		out = append(out, s)
	}
	sort.SliceStable(out, func(i, j int) bool { return len(out[i]) < len(out[j]) })
	return out
}

type c02Run struct {
	s     *zz.Session
	nViol map[string]int
	c     c02Case
}

func (r *c02Run) op(line, out string, nontrivial bool) { r.s.Op(line, out, nontrivial) }

// c02StripPrev blanks the previousBlockhash field of a canonical getblock answer
func c02StripPrev(s string) string {
	i := strings.Index(s, " prev=")
	if i < 0 {
		return s
	}
	j := strings.Index(s[i+1:], " ")
	if j < 0 {
		return s[:i] + " prev=*"
	}
	return s[:i] + " prev=*" + s[i+1+j:]
}

func (r *c02Run) viol(what, key string, lines ...string) {
	r.nViol[key]++
	if r.nViol[key] > 3 {
		return
	}
	rep := []string{r.c.line()}
	rep = append(rep, lines...)
	r.s.Violation(what, key, r.s.Replay(rep))
}

func TestVerifC02(t *testing.T) {
	s := zz.NewSession()
	defer s.Close()
	dir, err := os.MkdirTemp("", "verif-c02-")
	if err != nil {
		t.Fatal(err)
	}
	defer os.RemoveAll(dir)
	genesis, _ := filepath.Abs(c02GenesisFixture)
	if _, err := os.Stat(genesis); err != nil {
		t.Fatalf("genesis fixture not found: %v", err)
	}

	var cases []c02Case
	var replayOps map[string][]string // case name → load/get lines
	if rp := zz.ReplayFile(); rp != "" {
		data, err := os.ReadFile(rp)
		if err != nil {
			t.Fatal(err)
		}
		replayOps = map[string][]string{}
		cur := ""
		for _, l := range strings.Split(string(data), "\n") {
			l = strings.TrimSpace(l)
			if c, ok := c02ParseCase(l); ok {
				cases = append(cases, c)
				cur = c.name
				continue
			}
			if cur != "" && (strings.HasPrefix(l, "load ") || strings.HasPrefix(l, "get")) {
				replayOps[cur] = append(replayOps[cur], l)
			}
		}
	} else {
		cases = c02Cases(zz.NewRNG(zz.Seed()), zz.Thorough())
	}

	for ci, c := range cases {
		cdir := filepath.Join(dir, fmt.Sprintf("c%d", ci))
		os.MkdirAll(cdir, 0o755)
		run := &c02Run{s: s, nViol: map[string]int{}, c: c}
		run.op(c.line(), "ok", false)
		ges, tries, err := c02Generate(c, cdir)
		if err != nil {
			t.Fatalf("case %s: %v", c.name, err)
		}
		s.Add("generator-tries", tries)
		tr := &c02Truth{ges: map[uint64]*gEpoch{}, txDigest: map[solana.Signature][2]string{}, shared: c02Shared(ges), txShared: map[solana.Signature]bool{}}
		s.Add("cids-stored-at-different-offsets-in-two-epochs", len(tr.shared))
		var les []*loadedEpoch
		buildOK := true
		for _, ge := range ges {
			tr.ges[ge.Epoch] = ge
			le, err := buildIndexes(ge, cdir, false)
			if err != nil {
				run.viol("index all failed on a generated CAR: "+err.Error(), "C02:index-all-failed")
				buildOK = false
				break
			}
			les = append(les, le)
		}
		if !buildOK {
			continue
		}
		// describe the archive (ground truth of the generator)
		for _, ge := range ges {
			g := "-"
			if ge.Epoch == 0 {
				g = strconv.Itoa(c02GenesisTime)
			}
			run.op(fmt.Sprintf("epoch %d genesis=%s", ge.Epoch, g), "ok", false)
			byCid := map[cid.Cid]*gObj{}
			for _, o := range ge.Objs {
				byCid[o.Cid] = o
				run.op(fmt.Sprintf("obj %d %s %d", ge.Epoch, hex.EncodeToString(o.Cid.Bytes()), o.Offset), "ok", false)
			}
			// the objects written between two transaction nodes / before the first one of an entry are that transaction's frames
			idx := 0
			for _, b := range ge.Blocks {
				run.op(fmt.Sprintf("block %d %d %d %d %d %s", ge.Epoch, b.Slot, b.Parent, b.Time, b.Height, hex.EncodeToString(b.Cid.Bytes())), "ok", false)
				// walk the CAR objects of this block in file order: frames (kind 6) precede their transaction (kind 0), entries (kind 1) follow their transactions
				type pend struct {
					frames []string
				}
				var cur pend
				var entryLines []string
				ti := 0
				for ; idx < len(ge.Objs); idx++ {
					o := ge.Objs[idx]
					if o.Kind == 6 {
						cur.frames = append(cur.frames, hex.EncodeToString(o.Cid.Bytes()))
						if tr.shared[o.Cid] && ti < len(b.Txs) {
							tr.txShared[b.Txs[ti].Sig] = true
						}
						continue
					}
					if o.Kind == 0 {
						gt := b.Txs[ti]
						ti++
						d := [2]string{c02TxJSONDigest(gt.Raw), c02MetaDigestTruth(gt.Meta)}
						tr.txDigest[gt.Sig] = d
						fr := "-"
						if len(cur.frames) > 0 {
							fr = strings.Join(cur.frames, ",")
						}
						if gt.Frames > 1 {
							s.Count("multi-frame-transactions")
						} else {
							s.Count("single-frame-transactions")
						}
						entryLines = append(entryLines, fmt.Sprintf("tx %d %d %d %s %s %s %s %s %s %s", ge.Epoch, b.Slot, gt.Pos, hex.EncodeToString(gt.Sig[:]),
							zz.Hex(gt.Raw), zz.Hex(gt.Meta), hex.EncodeToString(gt.Cid.Bytes()), fr, d[0], d[1]))
						cur = pend{}
						continue
					}
					if o.Kind == 1 {
						// entry: its hash is bytes … decode from ground truth is not kept per entry; read it from the node
						eh := c02EntryHash(o.Data)
						run.op(fmt.Sprintf("entry %d %d %s %s", ge.Epoch, b.Slot, zz.Hex(eh), hex.EncodeToString(o.Cid.Bytes())), "ok", false)
						for _, l := range entryLines {
							run.op(l, "ok", false)
						}
						entryLines = nil
						continue
					}
					if o.Kind == 2 {
						idx++
						break
					}
				}
			}
		}
		s.Add("epochs", len(ges))

		if replayOps != nil {
			c02Replay(run, tr, les, cdir, genesis, replayOps[c.name])
		} else {
			for _, sub := range c02Subsets(len(les)) {
				for k, conc := range c02Concs() {
					order := "asc"
					if k%2 == 1 {
						order = "desc"
						if len(sub) > 1 {
							order = "desc+live"
						}
					}
					var nums []string
					for _, i := range sub {
						nums = append(nums, strconv.FormatUint(les[i].G.Epoch, 10))
					}
					lines := []string{fmt.Sprintf("load %s conc=%d order=%s", strings.Join(nums, ","), conc, order)}
					idxs := append([]int(nil), sub...)
					if strings.HasPrefix(order, "desc") {
						sort.Sort(sort.Reverse(sort.IntSlice(idxs)))
					}
					for _, i := range idxs {
						for _, b := range les[i].G.Blocks {
							for _, api := range []string{"grpc", "json-base64"} {
								lines = append(lines, fmt.Sprintf("getblocktime %s %d", api, b.Slot))
							}
							for _, tx := range b.Txs {
								for _, api := range c02APIs {
									lines = append(lines, fmt.Sprintf("gettx %s %s", api, hex.EncodeToString(tx.Sig[:])))
								}
							}
						}
					}
					for _, i := range idxs {
						for _, b := range les[i].G.Blocks {
							for _, api := range c02APIs {
								lines = append(lines, fmt.Sprintf("getblock %s %d", api, b.Slot))
							}
						}
					}
					c02Replay(run, tr, les, cdir, genesis, lines)
				}
			}
		}
		for k, n := range run.nViol {
			s.Add("violations:"+k, n)
		}
		os.RemoveAll(cdir)
	}
}

// c02EntryHash decodes an Entry node far enough to read its hash (CBOR: [kind, numHashes, hash(bytes), transactions])
func c02EntryHash(data []byte) []byte {
	// 0x84 0x01 <uint numHashes> <bytes hash> ...
	if len(data) < 4 || data[0] != 0x84 || data[1] != 0x01 {
		return nil
	}
	p := 2
	// skip unsigned int
	ai := data[p] & 0x1f
	p++
	switch {
	case ai < 24:
	case ai == 24:
		p++
	case ai == 25:
		p += 2
	case ai == 26:
		p += 4
	case ai == 27:
		p += 8
	}
	if p >= len(data) || data[p]>>5 != 2 {
		return nil
	}
	l := int(data[p] & 0x1f)
	p++
	if l == 24 {
		l = int(data[p])
		p++
	}
	if p+l > len(data) {
		return nil
	}
	return data[p : p+l]
}

// c02Replay executes load/get lines (generated or from a replay file) against the real server
func c02Replay(run *c02Run, tr *c02Truth, les []*loadedEpoch, cdir, genesis string, lines []string) {
	s := run.s
	var srv *c02Srv
	var loaded map[uint64]*loadedEpoch
	var eps []*Epoch
	var cancel context.CancelFunc
	var loadLine string
	var since []string
	closeAll := func() {
		for _, e := range eps {
			e.Close()
		}
		eps = nil
		if cancel != nil {
			cancel()
		}
	}
	defer closeAll()
	for _, line := range lines {
		f := strings.Fields(line)
		if len(f) == 0 {
			continue
		}
		if f[0] == "load" && len(f) == 4 {
			closeAll()
			loadLine = line
			since = nil
			conc, _ := strconv.Atoi(strings.TrimPrefix(f[2], "conc="))
			ctx, cn := context.WithCancel(context.Background())
			cancel = cn
			cache := c02NewCache(ctx)
			multi := NewMultiEpoch(&Options{EpochSearchConcurrency: conc})
			loaded = map[uint64]*loadedEpoch{}
			okAll := true
			// order=…+live: the server is already answering when the last epoch arrives (cmd-rpc.go --watch: the
			// epochs found at start-up come through AddEpoch, a config file written later through ReplaceOrAddEpoch)
			live := strings.HasSuffix(f[3], "+live")
			srv = &c02Srv{multi: multi, handler: newMultiEpochHandler(multi, nil)}
			names := strings.Split(f[1], ",")
			for ni, ns := range names {
				n, _ := strconv.ParseUint(ns, 10, 64)
				for _, le := range les {
					if le.G.Epoch != n {
						continue
					}
					ep, err := c02Load(le, cdir, cache, genesis)
					if err != nil {
						run.viol(fmt.Sprintf("epoch %d built by index all does not load: %v", n, err), "C02:load-failed", line)
						okAll = false
						continue
					}
					eps = append(eps, ep)
					if live && ni > 0 && ni == len(names)-1 {
						// requests served before the epoch is there
						for _, l0 := range loaded {
							for _, b := range l0.G.Blocks {
								if len(b.Txs) > 0 {
									zz.Guard(func() string { return srv.getTx("grpc", b.Txs[0].Sig) })
									zz.Guard(func() string { return srv.getTx("json-base64", b.Txs[0].Sig) })
									zz.Guard(func() string { return srv.getBlockTime("grpc", b.Slot) })
									break
								}
							}
						}
						multi.ReplaceOrAddEpoch(n, ep)
						s.Count("loads-live-last-epoch")
					} else {
						multi.AddEpoch(n, ep)
					}
					loaded[n] = le
				}
			}
			out := fmt.Sprintf("ok %d", len(loaded))
			if !okAll {
				out = "err:load"
			}
			run.op(line, out, true)
			s.Count("loads")
			s.Count(fmt.Sprintf("loads-with-%d-epochs", len(loaded)))
			continue
		}
		if srv == nil || len(f) != 3 {
			continue
		}
		api := f[1]
		since = append(since, line)
		mk := func() []string {
			l := append([]string{loadLine}, since...)
			if len(l) > 400 {
				l = append([]string{loadLine, "# … earlier requests of this load omitted: replay the whole case for the exact cache state"}, l[len(l)-300:]...)
			}
			return l
		}
		switch f[0] {
		case "getblocktime":
			slot, _ := strconv.ParseUint(f[2], 10, 64)
			got := zz.Guard(func() string { return srv.getBlockTime(api, slot) })
			want := ""
			if le := loaded[c02EpochOf(slot)]; le != nil {
				if b := le.G.bySlot[slot]; b != nil {
					want = fmt.Sprintf("ok %d", b.Time)
				}
			}
			run.op(line, got, got == want)
			s.Count("getblocktime")
			if want != "" && got != want {
				run.viol(fmt.Sprintf("getBlockTime(%s) for archived slot %d: got %q want %q [%s]", api, slot, got, want, loadLine), "C02:getblocktime-wrong", mk()...)
			}
		case "gettx":
			sb, _ := hex.DecodeString(f[2])
			var sig solana.Signature
			copy(sig[:], sb)
			got := zz.Guard(func() string { return srv.getTx(api, sig) })
			want := ""
			var wt *gTx
			for _, le := range loaded {
				for _, b := range le.G.Blocks {
					for _, t := range b.Txs {
						if t.Sig == sig {
							want = tr.expectTx(api, b, t)
							wt = t
						}
					}
				}
			}
			run.op(line, got, got == want)
			s.Count("gettx:" + api)
			if want != "" && got != want {
				key := "C02:gettx-wrong"
				if got == "err:internal" && len(loaded) > 1 && wt != nil && tr.txShared[wt.Sig] {
					key = "C02:shared-cid-offset-cache"
				}
				run.viol(fmt.Sprintf("getTransaction(%s) for archived signature %s (slot %d): got %q want %q [%s]", api, sig, wt.Slot, got, want, loadLine), key, mk()...)
			}
		case "getblock":
			slot, _ := strconv.ParseUint(f[2], 10, 64)
			got := zz.Guard(func() string { return srv.getBlock(api, slot) })
			want := ""
			partial := false
			if le := loaded[c02EpochOf(slot)]; le != nil {
				if b := le.G.bySlot[slot]; b != nil {
					want = tr.expectBlock(api, le.G, b, got)
					if b.Slot != 0 && c02EpochOf(b.Parent) == le.G.Epoch && le.G.bySlot[b.Parent] == nil {
						partial = true // the parent is in the same epoch but not archived: not a complete epoch archive
					}
				}
			}
			run.op(line, got, got == want)
			s.Count("getblock:" + api)
			if partial {
				s.Count("getblock-parent-not-archived(partial epoch; not judged)")
			} else if want != "" && got != want {
				key := "C02:getblock-wrong"
				b := loaded[c02EpochOf(slot)].G.bySlot[slot]
				if got == "err:internal" && len(loaded) > 1 {
					for _, t := range b.Txs {
						if tr.txShared[t.Sig] {
							key = "C02:shared-cid-offset-cache"
						}
					}
				}
				if b.Parent == 0 && b.Slot >= 2 && strings.Contains(got, " prev=null ") && c02StripPrev(got) == c02StripPrev(want) {
					key = "C02:previousBlockhash-missing-when-parent-is-slot-0"
				}
				run.viol(fmt.Sprintf("getBlock(%s) for archived slot %d: got %q want %q [%s]", api, slot, trunc(got, 300), trunc(want, 300), loadLine), key, mk()...)
			}
		}
	}
}

func trunc(s string, n int) string {
	if len(s) > n {
		return s[:n] + "…"
	}
	return s
}

package bucketteer

// C12 harness for the deprecated (version 1) signature-existence index reader, still used for epochs configured with
// deprecated indexes (injected by /verif/check with `go test -overlay`; nothing is written to /repo).
//
//	bkt1 <file hex> <sig hex>   NewReader(bytes.NewReader(file)); when it opens: Meta(), GetMeta, Has(sig), Has of
//	                            signatures with prefix 0000 and ffff                             -> nopanic
//
// Valid files come from the real deprecated Writer (it emits only the prefixes in use, so the files are small).

import (
	"bytes"
	"encoding/binary"
	"os"
	"path/filepath"
	"strings"
	"testing"

	c12 "github.com/rpcpool/yellowstone-faithful/zzc12"
	zz "github.com/rpcpool/yellowstone-faithful/zzverif"
)

func c12ExecBkt1(op string) string {
	w := strings.Fields(op)
	switch w[0] {
	case "bkt1":
		data, sigb := zz.Unhex(w[1]), zz.Unhex(w[2])
		r, err := NewReader(bytes.NewReader(data))
		if err != nil {
			return "err"
		}
		var sig [64]byte
		copy(sig[:], sigb)
		r.Meta()
		r.GetMeta("epoch")
		r.Has(sig)
		sig[0], sig[1] = 0, 0
		r.Has(sig)
		sig[0], sig[1] = 0xff, 0xff
		r.Has(sig)
		r.Close()
		return "ok"
	}
	return "bad-op"
}

func c12GenBkt1(dir string, rng *zz.RNG, s *zz.Session, thorough bool) []string {
	var ops []string
	type spec struct {
		nsig  int
		nmeta int
	}
	// at most one metadata entry: the deprecated writer serialises the map in Go's map iteration order, and a generated
	// file must be a function of the seed alone
	specs := []spec{{1, 0}, {12, 1}, {200, 1}}
	if thorough {
		specs = append(specs, spec{3000, 1})
	}
	for si, sp := range specs {
		path := filepath.Join(dir, "v1-"+string(rune('a'+si))+".bkt")
		w, err := NewWriter(path)
		if err != nil {
			panic(err)
		}
		var sigs [][64]byte
		for i := 0; i < sp.nsig; i++ {
			var sig [64]byte
			copy(sig[:], rng.Bytes(64))
			if i%3 == 0 && i > 0 { // several signatures under one prefix
				sig[0], sig[1] = sigs[0][0], sigs[0][1]
			}
			sigs = append(sigs, sig)
			w.Put(sig)
		}
		meta := map[string]string{}
		for i := 0; i < sp.nmeta; i++ {
			meta[string(rune('k'+i))+"ey"] = zz.Hex(rng.Bytes(1 + rng.Intn(6)))
		}
		if _, err := w.Seal(meta); err != nil {
			panic(err)
		}
		w.Close()
		data, err := os.ReadFile(path)
		if err != nil {
			panic(err)
		}
		// size ‖ magic(8) ‖ version(8) ‖ numMeta(8) ‖ (len32 key ‖ len32 value)* ‖ numPrefixes(8) ‖ (prefix(2) ‖ offset(8))*
		fields := []c12.Field{
			{Name: "v1.headerSize", Off: 0, Width: 4},
			{Name: "v1.version", Off: 12, Width: 8},
			{Name: "v1.numMeta", Off: 20, Width: 8},
		}
		off := 28
		for i := 0; i < sp.nmeta; i++ {
			kl := int(binary.LittleEndian.Uint32(data[off:]))
			fields = append(fields, c12.Field{Name: "v1.metaKeyLen", Off: off, Width: 4})
			off += 4 + kl
			vl := int(binary.LittleEndian.Uint32(data[off:]))
			fields = append(fields, c12.Field{Name: "v1.metaValLen", Off: off, Width: 4})
			off += 4 + vl
		}
		fields = append(fields, c12.Field{Name: "v1.numPrefixes", Off: off, Width: 8},
			c12.Field{Name: "v1.prefix0", Off: off + 8, Width: 2}, c12.Field{Name: "v1.offset0", Off: off + 10, Width: 8})
		hs := int(binary.LittleEndian.Uint32(data))
		fields = append(fields, c12.Field{Name: "v1.numHashes0", Off: 4 + hs, Width: 4})
		nb, nr := 150, 30
		if thorough {
			nb, nr = 600, 300
		}
		for mi, mu := range c12.Mutate(rng, data, fields, nb, nr, s.Count) {
			ops = append(ops, "bkt1 "+zz.Hex(mu.Data)+" "+zz.Hex(sigs[mi%len(sigs)][:]))
		}
		s.Count("valid-files")
	}
	for _, v := range []uint32{0xFFFFFFF0, 0xFFFFFFFF, 3, 0} {
		b := make([]byte, 7)
		binary.LittleEndian.PutUint32(b, v)
		ops = append(ops, "bkt1 "+zz.Hex(b)+" 00")
		s.Count("boundary:tiny-file-huge-header")
	}
	return ops
}

func TestVerifC12(t *testing.T) {
	if c12.IsChild() {
		c12.Serve(c12ExecBkt1)
		return
	}
	r := c12.NewRun("TestVerifC12")
	defer r.Close()
	r.Print = func(op string, res c12.Result) string {
		if res.Class == "ok" || res.Class == "err" {
			return "nopanic"
		}
		return res.Class
	}
	dir, err := os.MkdirTemp("", "verif-c12-bkt1-")
	if err != nil {
		t.Fatal(err)
	}
	defer os.RemoveAll(dir)
	ops := c12.ReplayOps()
	if ops == nil {
		ops = c12GenBkt1(dir, zz.NewRNG(zz.Seed()), r.S, zz.Thorough())
	}
	for _, op := range ops {
		r.Exec(op)
	}
}

package compactindex

// C04 harness for the legacy format compactindex (injected with `go test -overlay`).

import (
	"bytes"
	"context"
	"encoding/binary"
	"fmt"
	"os"
	"path/filepath"
	"strconv"
	"strings"
	"testing"

	"github.com/cespare/xxhash/v2"
	zz "github.com/rpcpool/yellowstone-faithful/zzverif"
)

type c04l struct {
	s        *zz.Session
	b        *Builder
	fileSize uint64
	declared int
	inserted map[string][]byte // key -> stored value bytes (width w)
	order    [][2][]byte
	dupKey   bool
	file     []byte
	db       *DB
	dbp      *DB // the same file opened with Prefetch(true), as the server does (epoch.go)
	dir      string
	caseOps  []string
}

func c04lWidth(fileSize uint64) int {
	if false {
		return 36
	}
	if fileSize == 0 {
		return 8
	}
	w := 0
	for x := fileSize; x > 0; x >>= 8 {
		w++
	}
	return w
}

func (in *c04l) insert(b *Builder, k, v []byte) error {
	return b.Insert(k, binary.LittleEndian.Uint64(v))
}

func (in *c04l) sealWith(order [][2][]byte) ([]byte, string) {
	dir, _ := os.MkdirTemp(in.dir, "b")
	b, err := NewBuilder(dir, uint(in.declared), in.fileSize)
	if err != nil {
		return nil, "err"
	}
	defer b.Close()
	for _, kv := range order {
		if err := in.insert(b, kv[0], kv[1]); err != nil {
			return nil, "err"
		}
	}
	path := filepath.Join(dir, "out.index")
	f, _ := os.OpenFile(path, os.O_CREATE|os.O_RDWR, 0o644)
	defer f.Close()
	if err := b.Seal(context.Background(), f); err != nil {
		return nil, "err"
	}
	data, _ := os.ReadFile(path)
	return data, "ok"
}

func (in *c04l) exec(line string) string {
	w := strings.Fields(line)
	if w[0] == "case" {
		in.caseOps = nil
	}
	in.caseOps = append(in.caseOps, line)
	switch w[0] {
	case "case":
		return "ok"
	case "newl8":
		if in.b != nil {
			in.b.Close()
		}
		in.fileSize, _ = strconv.ParseUint(w[1], 10, 64)
		in.declared, _ = strconv.Atoi(w[2])
		in.inserted = map[string][]byte{}
		in.order, in.dupKey, in.file, in.db = nil, false, nil, nil
		dir, _ := os.MkdirTemp(in.dir, "n")
		b, err := NewBuilder(dir, uint(in.declared), in.fileSize)
		if err != nil {
			return "err"
		}
		in.b = b
		return "ok"
	case "ins":
		k, v := zz.Unhex(w[1]), zz.Unhex(w[2])
		r := zz.Guard(func() string {
			if err := in.insert(in.b, k, v); err != nil {
				return "err"
			}
			return "ok"
		})
		if r == "panic" {
			in.s.Violation("Insert panics: "+zz.LastPanic, "C04:compactindex:insert-panic", in.s.Replay(in.caseOps))
		}
		if r == "ok" {
			if _, dup := in.inserted[string(k)]; dup {
				in.dupKey = true
			} else {
				in.inserted[string(k)] = v[:c04lWidth(in.fileSize)]
			}
			in.order = append(in.order, [2][]byte{k, v})
		}
		return r
	case "seal":
		var data []byte
		r := zz.Guard(func() string {
			path := filepath.Join(in.dir, "seal.index")
			os.Remove(path)
			f, _ := os.OpenFile(path, os.O_CREATE|os.O_RDWR, 0o644)
			defer f.Close()
			if err := in.b.Seal(context.Background(), f); err != nil {
				if strings.Contains(err.Error(), "collision") {
					return "err CI.BuildErr.collision"
				}
				return "err other"
			}
			data, _ = os.ReadFile(path)
			return "ok"
		})
		if r == "panic" {
			in.s.Violation("Seal panics: "+zz.LastPanic, "C04:compactindex:seal-panic", in.s.Replay(in.caseOps))
			return r
		}
		if r != "ok" {
			return r
		}
		if in.dupKey {
			in.s.Violation("Seal succeeded although the same key was inserted twice", "C04:compactindex:dup-accepted", in.s.Replay(in.caseOps))
		}
		in.file = data
		db, err := Open(bytes.NewReader(data))
		if err != nil {
			in.s.Violation("sealed file cannot be opened: "+err.Error(), "C04:compactindex:open-after-seal", in.s.Replay(in.caseOps))
			return fmt.Sprintf("file %d %016x open=false", len(data), xxhash.Sum64(data))
		}
		in.db = db
		in.dbp = nil
		if dbp, err := Open(bytes.NewReader(data)); err == nil {
			dbp.Prefetch(true)
			in.dbp = dbp
		}
		in.s.Count("sealed-ok")
		return fmt.Sprintf("file %d %016x open=true", len(data), xxhash.Sum64(data))
	case "lookup":
		if in.db == nil {
			return "nofile"
		}
		k := zz.Unhex(w[1])
		r := zz.Guard(func() string {
			v, err := in.db.Lookup(k)
			if err != nil {
				if err == ErrNotFound {
					return "notfound"
				}
				return "err"
			}
			return "found " + zz.Hex(c04lLE(v, c04lWidth(in.fileSize)))
		})
		// the prefetching reader (what the server uses) answers what the plain reader answers
		if in.dbp != nil {
			rp := zz.Guard(func() string {
				v, err := in.dbp.Lookup(k)
				if err != nil {
					if err == ErrNotFound {
						return "notfound"
					}
					return "err"
				}
				return "found " + zz.Hex(c04lLE(v, c04lWidth(in.fileSize)))
			})
			in.s.Count("lookup-prefetch-twin")
			if rp != r {
				in.s.Violation(fmt.Sprintf("Lookup(%s) with Prefetch(true) answers %q, without it %q", w[1], rp, r),
					"C04:compactindex:prefetch-differs", in.s.Replay(in.caseOps))
			}
		}
		if want, ok := in.inserted[string(k)]; ok {
			if r != "found "+zz.Hex(want) {
				in.s.Violation(fmt.Sprintf("inserted key not returned with its value: got %q want %s", r, zz.Hex(want)),
					"C04:compactindex:lookup-wrong", in.s.Replay(in.caseOps))
			}
			in.s.Count("lookup-present")
		} else {
			in.s.Count("lookup-absent")
		}
		return r
	case "reseal":
		if in.file == nil {
			return "nofile"
		}
		seed, _ := strconv.ParseUint(w[1], 10, 64)
		perm := zz.NewRNG(seed).Perm(len(in.order))
		sh := make([][2][]byte, len(in.order))
		for i, j := range perm {
			sh[i] = in.order[j]
		}
		data, r := in.sealWith(sh)
		if r != "ok" || !bytes.Equal(data, in.file) {
			in.s.Violation("sealing the same inserts in another order fails or gives a different file", "C04:compactindex:order-dependence", in.s.Replay(in.caseOps))
			return "diff"
		}
		in.s.Count("reseal-identical")
		return "same"
	}
	return "bad-op"
}

func c04lGen(rng *zz.RNG, thorough bool) []string {
	var ops []string
	emit := func(f string, a ...any) { ops = append(ops, fmt.Sprintf(f, a...)) }
	keyset := func(n, kl int, tag uint32) [][]byte {
		seen := map[string]bool{}
		var out [][]byte
		for len(out) < n {
			k := rng.Bytes(kl)
			if kl >= 4 {
				binary.LittleEndian.PutUint32(k, uint32(len(out))^tag)
			}
			if seen[string(k)] {
				if kl == 0 {
					break
				}
				continue
			}
			seen[string(k)] = true
			out = append(out, k)
		}
		return out
	}
	value := func(fileSize uint64) []byte {
		if false {
			return rng.Bytes(36)
		}
		v := make([]byte, 8)
		x := rng.U64()
		if fileSize != 0 && fileSize+1 != 0 {
			x %= fileSize + 1
		}
		binary.LittleEndian.PutUint64(v, x)
		return v
	}
	build := func(name string, fileSize uint64, declared int, keys [][]byte, absent int, reseal bool) {
		emit("case %s n=%d filesize=%d declared=%d", name, len(keys), fileSize, declared)
		emit("newl8"+" %d %d", fileSize, declared)
		for _, k := range keys {
			emit("ins %s %s", zz.Hex(k), zz.Hex(value(fileSize)))
		}
		emit("seal")
		for _, k := range keys {
			emit("lookup %s", zz.Hex(k))
		}
		for i := 0; i < absent; i++ {
			emit("lookup %s", zz.Hex(rng.Bytes(9)))
		}
		if reseal {
			emit("reseal %d", rng.U64()%1000000)
		}
	}
	for _, n := range []int{1, 2, 3, 7, 8, 9, 33, 100} {
		build("shape", 1<<30, n, keyset(n, 8, 0), 2, true)
	}
	for _, fs := range []uint64{0, 1, 255, 256, 65535, 65536, 1 << 24, 1<<40 - 1, 1 << 56, 1<<64 - 1} {
		build("filesize", fs, 20, keyset(15, 32, 3), 1, false)
	}
	for _, kl := range []int{0, 1, 36, 64, 65535} {
		n := 6
		if kl == 0 {
			n = 1
		}
		if kl > 1000 {
			n = 2
		}
		build(fmt.Sprintf("keylen-%d", kl), 1<<20, 10, keyset(n, kl, 9), 1, false)
	}
	{ // a key the spill file cannot represent, and (legacy8) a value wider than the file size
		emit("case keylen-65536")
		emit("newl8" + " 1000000 4")
		long := rng.Bytes(65536)
		emit("ins %s %s", zz.Hex(rng.Bytes(8)), zz.Hex(value(1000000)))
		emit("ins %s %s", zz.Hex(long), zz.Hex(value(1000000)))
		emit("seal")
		emit("lookup %s", zz.Hex(long))
		if !false {
			emit("case value-wider-than-filesize")
			emit("newl8" + " 65535 4")
			v := make([]byte, 8)
			binary.LittleEndian.PutUint64(v, 65536)
			k := rng.Bytes(8)
			emit("ins %s %s", zz.Hex(k), zz.Hex(v))
			emit("seal")
			emit("lookup %s", zz.Hex(k))
		}
	}
	{ // duplicate key
		ks := keyset(8, 16, 1)
		emit("case duplicate")
		emit("newl8" + " 1000 8")
		for _, k := range ks {
			emit("ins %s %s", zz.Hex(k), zz.Hex(value(1000)))
		}
		emit("ins %s %s", zz.Hex(ks[2]), zz.Hex(value(1000)))
		emit("seal")
	}
	{ // key with xxhash64 = 0
		k := zz.Unhex("017112201c232a3182903b4cad09e36770777e858c939aa1a8afb6bdc4cbd2d90e42aa92")
		emit("case xxhash-zero-key")
		emit("newl8" + " 100000 25000")
		emit("ins %s %s", zz.Hex(rng.Bytes(36)), zz.Hex(value(100000)))
		emit("ins %s %s", zz.Hex(k), zz.Hex(value(100000)))
		emit("seal")
		emit("lookup %s", zz.Hex(k))
	}
	build("declared-10x", 1<<33, 30000, keyset(2500, 36, 11), 10, true)
	nr := 4
	if thorough {
		nr = 20
		build("large", 1<<40, 20001, keyset(20001, 36, 5), 20, true)
	}
	for i := 0; i < nr; i++ {
		n := 1 + rng.Intn(1200)
		build("random", uint64(1)<<(uint(rng.Intn(63))+1), 1+rng.Intn(10*n), keyset(n, 1+rng.Intn(60)+3, uint32(i)), 5, rng.Bool())
	}
	return ops
}

func TestVerifC04Legacy(t *testing.T) {
	s := zz.NewSession()
	defer s.Close()
	dir, err := os.MkdirTemp("", "verif-c04l-")
	if err != nil {
		t.Fatal(err)
	}
	defer os.RemoveAll(dir)
	in := &c04l{s: s, dir: dir, inserted: map[string][]byte{}}
	var ops []string
	if rp := zz.ReplayFile(); rp != "" {
		data, err := os.ReadFile(rp)
		if err != nil {
			t.Fatal(err)
		}
		for _, l := range strings.Split(strings.TrimSpace(string(data)), "\n") {
			if !strings.HasPrefix(l, "#") && l != "" {
				ops = append(ops, l)
			}
		}
	} else {
		ops = c04lGen(zz.NewRNG(zz.Seed()), zz.Thorough())
	}
	for _, op := range ops {
		out := in.exec(op)
		s.Op(op, out, strings.HasPrefix(out, "found") || strings.HasPrefix(out, "file") || out == "same")
	}
	if in.b != nil {
		in.b.Close()
	}
}

func c04lLE(v uint64, w int) []byte {
	b := make([]byte, 8)
	binary.LittleEndian.PutUint64(b, v)
	return b[:w]
}

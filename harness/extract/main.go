// extract regenerates /verif/lean/Faithful/Generated/*.lean from /repo's working tree.
//
//	Consts.lean        constants and magic numbers of the file formats and writers
//	IntFns.lean        expression-level translation of small straight-line integer functions
//	LockPrograms.lean  lock events of every package-main function touching MultiEpoch.mu
//	LoadChecks.lean    identity comparisons performed by NewEpochFromConfig / OpenWithReader_*
//	ReadSites.lean     what happens to (n, err) at every ReadAt/ReadFull call in the reader files
//	Derefs.lean        unguarded dereferences in the request parsers / gRPC filter
//
// Anything it cannot classify is emitted as `unknown`, which makes the corresponding Lean `decide` fail.
package main

import (
	"fmt"
	"go/ast"
	"go/constant"
	"go/token"
	"go/types"
	"os"
	"path/filepath"
	"sort"
	"strings"

	"golang.org/x/tools/go/packages"
)

const mod = "github.com/rpcpool/yellowstone-faithful"

// generators added by other files of this package through init()
var generators []func()

var (
	repo   = "/repo"
	outDir = "/verif/lean/Faithful/Generated"
	pkgs   = map[string]*packages.Package{}
	fails  []string
)

func load(paths ...string) {
	cfg := &packages.Config{
		Mode: packages.NeedName | packages.NeedFiles | packages.NeedSyntax | packages.NeedTypes | packages.NeedTypesInfo | packages.NeedImports | packages.NeedDeps,
		Dir:  repo,
		Env:  append(os.Environ(), "GOFLAGS=-mod=mod", "GOPROXY=off", "GOSUMDB=off", "GOTOOLCHAIN=local"),
	}
	ps, err := packages.Load(cfg, paths...)
	if err != nil {
		fmt.Fprintln(os.Stderr, "load:", err)
		os.Exit(2)
	}
	for _, p := range ps {
		if len(p.Errors) > 0 {
			fmt.Fprintln(os.Stderr, "package errors in", p.PkgPath, p.Errors)
			os.Exit(2)
		}
		pkgs[p.PkgPath] = p
	}
}

func pkg(rel string) *packages.Package {
	path := mod
	if rel != "" && rel != "." {
		path = mod + "/" + rel
	}
	p := pkgs[path]
	if p == nil {
		fmt.Fprintln(os.Stderr, "package not loaded:", path)
		os.Exit(2)
	}
	return p
}

// constValue finds a constant named `name` anywhere in the package (package level or local).
func constValue(p *packages.Package, name string) (constant.Value, bool) {
	var found []constant.Value
	for id, obj := range p.TypesInfo.Defs {
		if id.Name != name {
			continue
		}
		if c, ok := obj.(*types.Const); ok {
			found = append(found, c.Val())
		}
	}
	if len(found) == 0 {
		return nil, false
	}
	for _, v := range found[1:] {
		if !constant.Compare(v, token.EQL, found[0]) {
			return nil, false
		}
	}
	return found[0], true
}

// byteArrayVar evaluates `var name = [N]byte{...}` / `[]byte{...}` / `[]byte("...")` to bytes.
func byteArrayVar(p *packages.Package, name string) ([]byte, bool) {
	for _, f := range p.Syntax {
		for _, d := range f.Decls {
			gd, ok := d.(*ast.GenDecl)
			if !ok || gd.Tok != token.VAR {
				continue
			}
			for _, s := range gd.Specs {
				vs := s.(*ast.ValueSpec)
				for i, n := range vs.Names {
					if n.Name != name || i >= len(vs.Values) {
						continue
					}
					return evalBytes(p, vs.Values[i])
				}
			}
		}
	}
	return nil, false
}

func evalBytes(p *packages.Package, e ast.Expr) ([]byte, bool) {
	switch x := e.(type) {
	case *ast.CompositeLit:
		var out []byte
		for _, el := range x.Elts {
			tv, ok := p.TypesInfo.Types[el]
			if !ok || tv.Value == nil {
				return nil, false
			}
			v, ok := constant.Uint64Val(constant.ToInt(tv.Value))
			if !ok || v > 255 {
				return nil, false
			}
			out = append(out, byte(v))
		}
		return out, true
	case *ast.CallExpr: // []byte("...")
		if len(x.Args) == 1 {
			if tv, ok := p.TypesInfo.Types[x.Args[0]]; ok && tv.Value != nil && tv.Value.Kind() == constant.String {
				return []byte(constant.StringVal(tv.Value)), true
			}
		}
	}
	return nil, false
}

type constSpec struct {
	pkg, name, lean string
	bytes           bool
}

var constSpecs = []constSpec{
	{"compactindexsized", "targetEntriesPerBucket", "targetEntriesPerBucket", false},
	{"compactindexsized", "HashSize", "hashSize", false},
	{"compactindexsized", "bucketHdrLen", "bucketHdrLen", false},
	{"compactindexsized", "mineAttempts", "mineAttempts", false},
	{"compactindexsized", "Version", "compactindexsizedVersion", false},
	{"compactindexsized", "Magic", "compactindexsizedMagic", true},
	{"compactindexsized", "maxEntriesPerBucket", "maxEntriesPerBucket", false},
	{"deprecated/compactindex", "targetEntriesPerBucket", "legacy8TargetEntriesPerBucket", false},
	{"deprecated/compactindex", "Magic", "legacy8Magic", true},
	{"deprecated/compactindex36", "targetEntriesPerBucket", "legacy36TargetEntriesPerBucket", false},
	{"deprecated/compactindex36", "Magic", "legacy36Magic", true},
	{"indexmeta", "MaxNumKVs", "metaMaxNumKVs", false},
	{"indexmeta", "MaxKeySize", "metaMaxKeySize", false},
	{"indexmeta", "MaxValueSize", "metaMaxValueSize", false},
	{"bucketteer", "Version", "bucketteerVersion", false},
	{"bucketteer", "_Magic", "bucketteerMagic", true},
	{"slottools", "EpochLen", "epochLen", false},
}

func genConsts() {
	var b strings.Builder
	b.WriteString("-- GENERATED by /verif/harness/extract from /repo's working tree. Do not edit.\nnamespace Generated\n\n")
	for _, cs := range constSpecs {
		p := pkg(cs.pkg)
		if cs.bytes {
			bs, ok := byteArrayVar(p, cs.name)
			if !ok {
				fails = append(fails, "const "+cs.pkg+"."+cs.name)
				continue
			}
			parts := make([]string, len(bs))
			for i, x := range bs {
				parts[i] = fmt.Sprint(x)
			}
			fmt.Fprintf(&b, "/-- %s.%s -/\ndef %s : List UInt8 := [%s]\n\n", cs.pkg, cs.name, cs.lean, strings.Join(parts, ", "))
			continue
		}
		v, ok := constValue(p, cs.name)
		if !ok {
			fails = append(fails, "const "+cs.pkg+"."+cs.name)
			continue
		}
		iv := constant.ToInt(v)
		if iv.Kind() != constant.Int {
			fails = append(fails, "const (not int) "+cs.pkg+"."+cs.name)
			continue
		}
		fmt.Fprintf(&b, "/-- %s.%s -/\ndef %s : Nat := %s\n\n", cs.pkg, cs.name, cs.lean, iv.ExactString())
	}
	b.WriteString("end Generated\n")
	write("Consts.lean", b.String())
}

func write(name, content string) {
	path := filepath.Join(outDir, name)
	old, err := os.ReadFile(path)
	if err == nil && string(old) == content {
		return // keep mtime: lake rebuilds by content hash anyway
	}
	if err := os.WriteFile(path, []byte(content), 0o644); err != nil {
		fmt.Fprintln(os.Stderr, err)
		os.Exit(2)
	}
}

func main() {
	if len(os.Args) > 1 {
		repo = os.Args[1]
	}
	if len(os.Args) > 2 {
		outDir = os.Args[2]
	}
	os.MkdirAll(outDir, 0o755)
	load(".", "./compactindexsized", "./deprecated/compactindex", "./deprecated/compactindex36", "./indexmeta",
		"./bucketteer", "./deprecated/bucketteer", "./slottools", "./gsfa", "./gsfa/linkedlog", "./gsfa/manifest",
		"./indexes", "./blocktimeindex", "./carreader", "./split-car-fetcher", "./range-cache", "./accum", "./tooling")
	genConsts()
	genIntFns()
	genLockPrograms()
	// further generators register themselves: `func init() { generators = append(generators, genXxx) }`
	for _, g := range generators {
		g()
	}
	sort.Strings(fails)
	for _, f := range fails {
		fmt.Println("EXTRACT-FAIL:", f)
	}
	fmt.Println("extract ok")
}

package main

import (
	"fmt"
	"go/ast"
	"go/constant"
	"go/token"
	"go/types"
	"strings"

	"golang.org/x/tools/go/packages"
)

// Expression-level translation of straight-line unsigned-integer functions to Lean fixed-width
// arithmetic.  Supported: parameters and one result of type uint8/16/32/64/uint; statements
// `x = e`, `x op= e`, `x := e`, `return e`; expressions: identifiers, constants, + - * / % & | ^ << >>,
// unary -, conversions between the supported types, parentheses.  Anything else → EXTRACT-FAIL.

type fnSpec struct{ pkg, name, lean string }

var fnSpecs = []fnSpec{
	{"compactindexsized", "hashUint64", "hashUint64"},
	{"deprecated/compactindex", "hashUint64", "legacy8HashUint64"},
	{"deprecated/compactindex36", "hashUint64", "legacy36HashUint64"},
	{"slottools", "CalcEpochForSlot", "calcEpochForSlot"},
}

func leanType(t types.Type) (string, bool) {
	b, ok := t.Underlying().(*types.Basic)
	if !ok {
		return "", false
	}
	switch b.Kind() {
	case types.Uint8:
		return "UInt8", true
	case types.Uint16:
		return "UInt16", true
	case types.Uint32:
		return "UInt32", true
	case types.Uint64, types.Uint, types.Uintptr:
		return "UInt64", true
	}
	return "", false
}

type tr struct {
	p   *packages.Package
	err error
}

func (t *tr) fail(n ast.Node, msg string) string {
	if t.err == nil {
		t.err = fmt.Errorf("%s at %s", msg, t.p.Fset.Position(n.Pos()))
	}
	return "unknown"
}

var binops = map[token.Token]string{
	token.ADD: "+", token.SUB: "-", token.MUL: "*", token.QUO: "/", token.REM: "%",
	token.AND: "&&&", token.OR: "|||", token.XOR: "^^^", token.SHL: "<<<", token.SHR: ">>>",
}

func (t *tr) expr(e ast.Expr) string {
	tv := t.p.TypesInfo.Types[e]
	if tv.Value != nil {
		lt, ok := leanType(tv.Type)
		if !ok {
			// untyped or other constant: emitted as a literal, its type comes from context
			iv := constant.ToInt(tv.Value)
			if iv.Kind() != constant.Int {
				return t.fail(e, "non-integer constant")
			}
			return iv.ExactString()
		}
		iv := constant.ToInt(tv.Value)
		return fmt.Sprintf("(%s : %s)", iv.ExactString(), lt)
	}
	switch x := e.(type) {
	case *ast.Ident:
		return x.Name
	case *ast.ParenExpr:
		return "(" + t.expr(x.X) + ")"
	case *ast.BinaryExpr:
		op, ok := binops[x.Op]
		if !ok {
			return t.fail(e, "operator "+x.Op.String())
		}
		l, r := t.expr(x.X), t.expr(x.Y)
		if x.Op == token.SHL || x.Op == token.SHR {
			// Go shift count may have any unsigned type; Lean wants the same type as the left operand.
			lt, ok := leanType(t.p.TypesInfo.TypeOf(x.X))
			if !ok {
				return t.fail(e, "shift of unsupported type")
			}
			rtv := t.p.TypesInfo.Types[x.Y]
			if rtv.Value == nil {
				return t.fail(e, "non-constant shift count")
			}
			c, _ := constant.Uint64Val(constant.ToInt(rtv.Value))
			bitsOf := map[string]uint64{"UInt8": 8, "UInt16": 16, "UInt32": 32, "UInt64": 64}
			if c >= bitsOf[lt] {
				return t.fail(e, "shift count ≥ width")
			}
			r = fmt.Sprintf("(%d : %s)", c, lt)
		}
		return "(" + l + " " + op + " " + r + ")"
	case *ast.UnaryExpr:
		if x.Op == token.SUB {
			return "(0 - " + t.expr(x.X) + ")"
		}
		return t.fail(e, "unary "+x.Op.String())
	case *ast.CallExpr:
		if len(x.Args) == 1 {
			if ftv, ok := t.p.TypesInfo.Types[x.Fun]; ok && ftv.IsType() {
				to, ok1 := leanType(ftv.Type)
				from, ok2 := leanType(t.p.TypesInfo.TypeOf(x.Args[0]))
				if ok1 && ok2 {
					if to == from {
						return t.expr(x.Args[0])
					}
					return fmt.Sprintf("(%s.to%s)", t.expr(x.Args[0]), to)
				}
			}
		}
		return t.fail(e, "call")
	}
	return t.fail(e, fmt.Sprintf("expression %T", e))
}

func (t *tr) fn(fd *ast.FuncDecl, leanName string) string {
	sig := t.p.TypesInfo.Defs[fd.Name].Type().(*types.Signature)
	if sig.Results().Len() != 1 {
		t.fail(fd, "need exactly one result")
		return ""
	}
	rt, ok := leanType(sig.Results().At(0).Type())
	if !ok {
		t.fail(fd, "result type")
		return ""
	}
	var params []string
	for i := 0; i < sig.Params().Len(); i++ {
		pv := sig.Params().At(i)
		pt, ok := leanType(pv.Type())
		if !ok {
			t.fail(fd, "param type")
			return ""
		}
		params = append(params, fmt.Sprintf("(%s : %s)", pv.Name(), pt))
	}
	var body strings.Builder
	returned := false
	for _, st := range fd.Body.List {
		if returned {
			t.fail(st, "statement after return")
		}
		switch s := st.(type) {
		case *ast.AssignStmt:
			if len(s.Lhs) != 1 || len(s.Rhs) != 1 {
				t.fail(st, "multi-assign")
				continue
			}
			id, ok := s.Lhs[0].(*ast.Ident)
			if !ok {
				t.fail(st, "assign to non-ident")
				continue
			}
			lt, ok := leanType(t.p.TypesInfo.TypeOf(id))
			if !ok {
				t.fail(st, "assigned type")
				continue
			}
			var rhs string
			switch s.Tok {
			case token.ASSIGN, token.DEFINE:
				rhs = t.expr(s.Rhs[0])
			default:
				opTok := map[token.Token]token.Token{token.ADD_ASSIGN: token.ADD, token.SUB_ASSIGN: token.SUB, token.MUL_ASSIGN: token.MUL,
					token.QUO_ASSIGN: token.QUO, token.REM_ASSIGN: token.REM, token.AND_ASSIGN: token.AND, token.OR_ASSIGN: token.OR,
					token.XOR_ASSIGN: token.XOR, token.SHL_ASSIGN: token.SHL, token.SHR_ASSIGN: token.SHR}[s.Tok]
				rhs = t.expr(&ast.BinaryExpr{X: id, Op: opTok, Y: s.Rhs[0], OpPos: s.TokPos})
			}
			fmt.Fprintf(&body, "  let %s : %s := %s\n", id.Name, lt, rhs)
		case *ast.ReturnStmt:
			if len(s.Results) != 1 {
				t.fail(st, "return arity")
				continue
			}
			fmt.Fprintf(&body, "  %s\n", t.expr(s.Results[0]))
			returned = true
		default:
			t.fail(st, fmt.Sprintf("statement %T", st))
		}
	}
	if !returned {
		t.fail(fd, "no return")
	}
	return fmt.Sprintf("def %s %s : %s :=\n%s", leanName, strings.Join(params, " "), rt, body.String())
}

func genIntFns() {
	var b strings.Builder
	b.WriteString("-- GENERATED by /verif/harness/extract from /repo's working tree. Do not edit.\nnamespace Generated\n\n")
	for _, fs := range fnSpecs {
		p := pkg(fs.pkg)
		var fd *ast.FuncDecl
		for _, f := range p.Syntax {
			for _, d := range f.Decls {
				if x, ok := d.(*ast.FuncDecl); ok && x.Recv == nil && x.Name.Name == fs.name && x.Body != nil {
					fd = x
				}
			}
		}
		if fd == nil {
			fails = append(fails, "fn "+fs.pkg+"."+fs.name+" (not found)")
			continue
		}
		t := &tr{p: p}
		src := t.fn(fd, fs.lean)
		if t.err != nil {
			fails = append(fails, "fn "+fs.pkg+"."+fs.name+": "+t.err.Error())
			continue
		}
		fmt.Fprintf(&b, "/-- %s.%s -/\n%s\n", fs.pkg, fs.name, src)
	}
	b.WriteString("end Generated\n")
	write("IntFns.lean", b.String())
}

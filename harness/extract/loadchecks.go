package main

import (
	"fmt"
	"go/ast"
	"go/constant"
	"go/token"
	"go/types"
	"strings"

	"golang.org/x/tools/go/packages"
)

// Identity checks performed while an epoch is loaded (property C10).
//
// genLoadChecks walks `NewEpochFromConfig` (package main) statement by statement and writes, in source order, what the
// loader does with the identity (kind, epoch, root CID, network) carried by every index file of the configuration:
//
//	openAs role reader          the file configured for `role` is handed to this reader (OpenWithReader_*, bucketteer.NewReader,
//	                            manifest.NewManifest via gsfa.NewGsfaReader, blocktimeindex.FromBytes)
//	checkKind role bytes        meta.AssertIndexKind(Kind_X) inside the OpenWithReader_* function that was called
//	checkNetworkValid role      !IsValidNetwork(meta.Network) → error, same place
//	checkEpoch role             `ep.Epoch() != <epoch recorded in the file>` → error return
//	checkRoot role              `!lastRootCid.Equals(<root recorded in the file>)` → error return
//	setLastRoot role            `lastRootCid = <root recorded in the file>`
//	checkFilecoinRoot           `!lastRootCid.Equals(config.Data.Filecoin.RootCID)` → error return
//
// each under the guards (enclosing `if` conditions) it was found under:
//
//	carMode filecoinMode deprecatedIndexes notDeprecatedIndexes gsfaConfigured (notLegacy role) lastRootSet manifestVersionGe2
//
// The role of a file is the configuration slot its URI came from (config.Indexes.<Slot>.URI), not the reader it is given to.
// Everything that touches identity data (…Meta(), .RootCid, lastRootCid, Assert*, GetUint64/GetCid of a metadata key, …)
// without matching one of the patterns above is written as `unknown`, and so is every recognised step found under an `if`
// whose condition is not one of the guards above.  The Lean side (Faithful/Lib/EpochLoad.lean) *defines* the model of
// loading as the interpretation of this list and C10.load_sound is decided over it.

// registered with the extractor's generator list (main.go runs every registered generator after the built-in ones)
func init() { generators = append(generators, genLoadChecks) }

type lcStep struct {
	guards []string
	step   string
}

type lcWalker struct {
	p           *packages.Package
	info        *types.Info
	steps       []lcStep
	guards      []string
	fileRole    map[types.Object]string    // io handle / byte buffer -> role of the configuration slot it came from
	rdrRole     map[types.Object]string    // opened reader value -> role ("gsfa" for *gsfa.GsfaReader)
	metaRole    map[types.Object]string    // variable holding a *indexes.Metadata -> role
	valOf       map[types.Object][2]string // variable holding an identity field -> (role, field)
	modeVars    map[types.Object]string    // isCarMode / isLassieMode
	gsfaMethods map[string]string          // GsfaReader method -> "meta:<role>" | "imeta:<role>" | "version:<role>"
	lastRoot    types.Object
	storePos    token.Pos
	lastSetPos  token.Pos
	storeGuards int
}

const lcUnknownGuard = "?"

var lcSlotRole = map[string]string{
	"CidToOffsetAndSize": "cidToOffsetAndSize",
	"CidToOffset":        "-", // deprecated cid-to-offset: carries no identity, no role in the model
	"SlotToCid":          "slotToCid",
	"SigToCid":           "sigToCid",
	"SigExists":          "sigExists",
	"SlotToBlocktime":    "slotToBlocktime",
}

var lcIdentitySelectors = map[string]bool{
	"Meta": true, "RootCid": true, "RootCID": true, "IndexKind": true, "Network": true,
	"AssertEpoch": true, "AssertRootCid": true, "AssertNetwork": true, "AssertIndexKind": true,
	"KindIs": true, "GetKind": true, "GetUint64": true, "GetCid": true, "GetString": true, "OffsetsMeta": true,
}

func (w *lcWalker) pos(n ast.Node) string {
	p := w.p.Fset.Position(n.Pos())
	return fmt.Sprintf("%s:%d", p.Filename[strings.LastIndex(p.Filename, "/")+1:], p.Line)
}

func (w *lcWalker) emit(step string) {
	for _, g := range w.guards {
		if g == lcUnknownGuard {
			w.steps = append(w.steps, lcStep{nil, fmt.Sprintf(".unknown %q", "step under an unclassified condition: "+step)})
			return
		}
	}
	w.steps = append(w.steps, lcStep{append([]string(nil), w.guards...), step})
}

func (w *lcWalker) unknown(n ast.Node, what string) {
	w.steps = append(w.steps, lcStep{nil, fmt.Sprintf(".unknown %q", what+" at "+w.pos(n))})
}

func (w *lcWalker) obj(e ast.Expr) types.Object {
	if id, ok := unparen(e).(*ast.Ident); ok {
		if o := w.info.Uses[id]; o != nil {
			return o
		}
		return w.info.Defs[id]
	}
	return nil
}

// mentions reports whether the node touches identity data in any way.
func (w *lcWalker) mentions(n ast.Node) bool {
	if n == nil {
		return false
	}
	found := false
	ast.Inspect(n, func(x ast.Node) bool {
		switch v := x.(type) {
		case *ast.Ident:
			o := w.info.Uses[v]
			if o != nil && (o == w.lastRoot || w.metaRole[o] != "" || w.valOf[o][0] != "") {
				found = true
			}
		case *ast.SelectorExpr:
			if lcIdentitySelectors[v.Sel.Name] {
				found = true
			}
			if v.Sel.Name == "Epoch" { // x.Epoch / x.Epoch() other than config.Epoch and ep.Epoch()
				s := types.ExprString(v.X)
				if s != "config" && s != "ep" {
					found = true
				}
			}
		}
		return !found
	})
	return found
}

func typeString(t types.Type) string {
	if t == nil {
		return ""
	}
	return types.TypeString(t, func(p *types.Package) string { return p.Path() })
}

// metaExpr: expression of type *indexes.Metadata → role
func (w *lcWalker) metaExpr(e ast.Expr) (string, bool) {
	e = unparen(e)
	if o := w.obj(e); o != nil && w.metaRole[o] != "" {
		return w.metaRole[o], true
	}
	c, ok := e.(*ast.CallExpr)
	if !ok || len(c.Args) != 0 {
		return "", false
	}
	s, ok := unparen(c.Fun).(*ast.SelectorExpr)
	if !ok {
		return "", false
	}
	r := w.rdrRole[w.obj(s.X)]
	if r == "" {
		return "", false
	}
	if r == "gsfa" {
		if m := w.gsfaMethods[s.Sel.Name]; strings.HasPrefix(m, "meta:") {
			return m[5:], true
		}
		return "", false
	}
	if s.Sel.Name == "Meta" && typeString(w.info.TypeOf(c)) == "*"+mod+"/indexes.Metadata" {
		return r, true
	}
	return "", false
}

// imetaExpr: expression of type indexmeta.Meta / *indexmeta.Meta → role
func (w *lcWalker) imetaExpr(e ast.Expr) (string, bool) {
	c, ok := unparen(e).(*ast.CallExpr)
	if !ok || len(c.Args) != 0 {
		return "", false
	}
	s, ok := unparen(c.Fun).(*ast.SelectorExpr)
	if !ok {
		return "", false
	}
	r := w.rdrRole[w.obj(s.X)]
	if r == "" {
		return "", false
	}
	if r == "gsfa" {
		if m := w.gsfaMethods[s.Sel.Name]; strings.HasPrefix(m, "imeta:") {
			return m[6:], true
		}
		return "", false
	}
	if s.Sel.Name == "Meta" && strings.TrimPrefix(typeString(w.info.TypeOf(c)), "*") == mod+"/indexmeta.Meta" {
		return r, true
	}
	return "", false
}

// val: expression denoting an identity field recorded in a file → (role, field)
func (w *lcWalker) val(e ast.Expr) (string, string, bool) {
	e = unparen(e)
	if o := w.obj(e); o != nil && w.valOf[o][0] != "" {
		return w.valOf[o][0], w.valOf[o][1], true
	}
	switch v := e.(type) {
	case *ast.SelectorExpr:
		if r, ok := w.metaExpr(v.X); ok {
			switch v.Sel.Name {
			case "Epoch":
				return r, "epoch", true
			case "RootCid":
				return r, "root", true
			case "Network":
				return r, "network", true
			case "IndexKind":
				return r, "kind", true
			}
		}
	case *ast.CallExpr: // blocktimeIndex.Epoch()
		if s, ok := unparen(v.Fun).(*ast.SelectorExpr); ok && len(v.Args) == 0 && s.Sel.Name == "Epoch" {
			if r := w.rdrRole[w.obj(s.X)]; r != "" && r != "gsfa" && typeString(w.info.TypeOf(s.X)) == "*"+mod+"/blocktimeindex.Index" {
				return r, "epoch", true
			}
		}
	}
	return "", "", false
}

func isErrReturnBody(b *ast.BlockStmt) bool {
	if b == nil || len(b.List) != 1 {
		return false
	}
	r, ok := b.List[0].(*ast.ReturnStmt)
	if !ok || len(r.Results) != 2 {
		return false
	}
	if id, ok := r.Results[0].(*ast.Ident); !ok || id.Name != "nil" {
		return false
	}
	if id, ok := r.Results[1].(*ast.Ident); ok && id.Name == "nil" {
		return false
	}
	return true
}

// rootCheck matches `!lastRootCid.Equals(X)`; returns the step.
func (w *lcWalker) rootCheck(e ast.Expr) (string, bool) {
	u, ok := unparen(e).(*ast.UnaryExpr)
	if !ok || u.Op != token.NOT {
		return "", false
	}
	c, ok := unparen(u.X).(*ast.CallExpr)
	if !ok || len(c.Args) != 1 {
		return "", false
	}
	s, ok := unparen(c.Fun).(*ast.SelectorExpr)
	if !ok || s.Sel.Name != "Equals" || w.obj(s.X) == nil || w.obj(s.X) != w.lastRoot {
		return "", false
	}
	if r, f, ok := w.val(c.Args[0]); ok && f == "root" {
		return ".checkRoot ." + r, true
	}
	if types.ExprString(unparen(c.Args[0])) == "config.Data.Filecoin.RootCID" {
		return ".checkFilecoinRoot", true
	}
	return "", false
}

func (w *lcWalker) isEpEpoch(e ast.Expr) bool { return types.ExprString(unparen(e)) == "ep.Epoch()" }

// check classifies an `if` condition that is an identity comparison followed by an error return.
func (w *lcWalker) check(cond ast.Expr) (extraGuards []string, step string, ok bool) {
	cond = unparen(cond)
	if st, ok := w.rootCheck(cond); ok {
		return nil, st, true
	}
	if b, ok := cond.(*ast.BinaryExpr); ok {
		switch b.Op {
		case token.NEQ:
			var other ast.Expr
			if w.isEpEpoch(b.X) {
				other = b.Y
			} else if w.isEpEpoch(b.Y) {
				other = b.X
			}
			if other != nil {
				if r, f, ok := w.val(other); ok && f == "epoch" {
					return nil, ".checkEpoch ." + r, true
				}
			}
		case token.LAND:
			// lastRootCid != cid.Undef && !lastRootCid.Equals(X)
			if l, ok := unparen(b.X).(*ast.BinaryExpr); ok && l.Op == token.NEQ && w.obj(l.X) != nil && w.obj(l.X) == w.lastRoot &&
				types.ExprString(unparen(l.Y)) == "cid.Undef" {
				if st, ok := w.rootCheck(b.Y); ok && strings.HasPrefix(st, ".checkRoot") {
					return []string{".lastRootSet"}, st, true
				}
			}
		}
	}
	return nil, "", false
}

// guard classifies an `if` condition that selects a mode; neg is the guard of the else branch ("" = none known).
func (w *lcWalker) guard(cond ast.Expr) (g, neg string, ok bool) {
	cond = unparen(cond)
	if o := w.obj(cond); o != nil && w.modeVars[o] != "" {
		if w.modeVars[o] == ".carMode" {
			return ".carMode", ".filecoinMode", true
		}
		return ".filecoinMode", ".carMode", true
	}
	switch types.ExprString(cond) {
	case "config.IsDeprecatedIndexes()":
		return ".deprecatedIndexes", ".notDeprecatedIndexes", true
	case "!config.IsDeprecatedIndexes()":
		return ".notDeprecatedIndexes", ".deprecatedIndexes", true
	case "!config.Indexes.Gsfa.URI.IsZero()":
		return ".gsfaConfigured", "", true
	}
	if u, ok := cond.(*ast.UnaryExpr); ok && u.Op == token.NOT {
		if c, ok := unparen(u.X).(*ast.CallExpr); ok && len(c.Args) == 0 {
			if s, ok := unparen(c.Fun).(*ast.SelectorExpr); ok && s.Sel.Name == "IsDeprecatedOldVersion" {
				if r := w.rdrRole[w.obj(s.X)]; r != "" && r != "gsfa" {
					return "(.notLegacy ." + r + ")", "", true
				}
			}
		}
	}
	if b, ok := cond.(*ast.BinaryExpr); ok && b.Op == token.GEQ {
		if c, ok := unparen(b.X).(*ast.CallExpr); ok && len(c.Args) == 0 {
			if s, ok := unparen(c.Fun).(*ast.SelectorExpr); ok && w.rdrRole[w.obj(s.X)] == "gsfa" &&
				w.gsfaMethods[s.Sel.Name] == "version:gsfaManifest" {
				if tv, ok := w.info.Types[b.Y]; ok && tv.Value != nil && constant.Compare(constant.ToInt(tv.Value), token.EQL, constant.MakeInt64(2)) {
					return ".manifestVersionGe2", "", true
				}
			}
		}
	}
	return "", "", false
}

func (w *lcWalker) with(g string, f func()) {
	w.guards = append(w.guards, g)
	f()
	w.guards = w.guards[:len(w.guards)-1]
}

func (w *lcWalker) block(b *ast.BlockStmt) {
	if b == nil {
		return
	}
	for _, s := range b.List {
		w.stmt(s)
	}
}

func (w *lcWalker) stmt(s ast.Stmt) {
	switch v := s.(type) {
	case *ast.BlockStmt:
		w.block(v)
	case *ast.IfStmt:
		w.ifStmt(v)
	case *ast.AssignStmt:
		w.assign(v)
	case *ast.ReturnStmt, *ast.DeclStmt, *ast.ExprStmt:
		if _, isDecl := s.(*ast.DeclStmt); isDecl {
			return // `var lastRootCid cid.Cid` and friends: zero values
		}
		if w.mentions(s) {
			w.unknown(s, "statement touching identity data")
		}
	default:
		if w.mentions(s) {
			w.unknown(s, "statement touching identity data")
		}
	}
}

func (w *lcWalker) ifStmt(v *ast.IfStmt) {
	if v.Init != nil {
		w.stmt(v.Init)
	}
	elseBlock := func(g string) {
		switch e := v.Else.(type) {
		case nil:
		case *ast.BlockStmt:
			w.with(g, func() { w.block(e) })
		default:
			w.with(g, func() { w.stmt(e) })
		}
	}
	if g, neg, ok := w.guard(v.Cond); ok {
		w.with(g, func() { w.block(v.Body) })
		if neg == "" {
			neg = lcUnknownGuard
		}
		elseBlock(neg)
		return
	}
	if extra, st, ok := w.check(v.Cond); ok {
		if !isErrReturnBody(v.Body) || v.Else != nil {
			w.unknown(v, "identity comparison not followed by a plain error return")
			return
		}
		saved := w.guards
		w.guards = append(append([]string(nil), w.guards...), extra...)
		w.emit(st)
		w.guards = saved
		return
	}
	cs := types.ExprString(unparen(v.Cond))
	if cs == "err != nil" || cs == "!ok" {
		if w.mentions(v.Body) || w.mentions(v.Else) {
			w.unknown(v, "identity data used in an error branch")
		}
		return
	}
	if w.mentions(v.Cond) {
		w.unknown(v, "unclassified condition over identity data: "+cs)
		return
	}
	// a condition that has nothing to do with identity: whatever is recognised below it becomes `unknown`
	w.with(lcUnknownGuard, func() { w.block(v.Body) })
	elseBlock(lcUnknownGuard)
}

func (w *lcWalker) callee(c *ast.CallExpr) (pkgPath, name string) {
	var id *ast.Ident
	switch f := unparen(c.Fun).(type) {
	case *ast.Ident:
		id = f
	case *ast.SelectorExpr:
		id = f.Sel
	}
	if id == nil {
		return "", ""
	}
	fn, ok := w.info.Uses[id].(*types.Func)
	if !ok || fn.Pkg() == nil {
		return "", ""
	}
	if sig, ok := fn.Type().(*types.Signature); ok && sig.Recv() != nil {
		return "", "" // methods are handled through val/metaExpr
	}
	return fn.Pkg().Path(), fn.Name()
}

func (w *lcWalker) assign(v *ast.AssignStmt) {
	// lastRootCid = X.Meta().RootCid
	if len(v.Lhs) == 1 && len(v.Rhs) == 1 && v.Tok == token.ASSIGN {
		if o := w.obj(v.Lhs[0]); o != nil && o == w.lastRoot {
			if r, f, ok := w.val(v.Rhs[0]); ok && f == "root" {
				w.emit(".setLastRoot ." + r)
				w.lastSetPos = v.Pos()
			} else {
				w.unknown(v, "assignment to lastRootCid")
			}
			return
		}
		if types.ExprString(v.Lhs[0]) == "ep.rootCid" {
			if o := w.obj(v.Rhs[0]); o != nil && o == w.lastRoot && w.storePos == token.NoPos {
				w.storePos = v.Pos()
				w.storeGuards = len(w.guards)
			} else {
				w.unknown(v, "assignment to ep.rootCid")
			}
			return
		}
	}
	if len(v.Rhs) == 1 {
		if c, ok := unparen(v.Rhs[0]).(*ast.CallExpr); ok {
			if w.openCall(v, c) {
				return
			}
			// X, ok := <imeta>.GetUint64(indexmeta.MetadataKey_Epoch) / GetCid(indexmeta.MetadataKey_RootCid)
			if s, ok := unparen(c.Fun).(*ast.SelectorExpr); ok && len(c.Args) == 1 && len(v.Lhs) == 2 && v.Tok == token.DEFINE {
				if r, ok := w.imetaExpr(s.X); ok {
					key := types.ExprString(unparen(c.Args[0]))
					f := ""
					switch {
					case s.Sel.Name == "GetUint64" && key == "indexmeta.MetadataKey_Epoch":
						f = "epoch"
					case s.Sel.Name == "GetCid" && key == "indexmeta.MetadataKey_RootCid":
						f = "root"
					}
					if f != "" {
						if id, ok := v.Lhs[0].(*ast.Ident); ok && w.info.Defs[id] != nil {
							w.valOf[w.info.Defs[id]] = [2]string{r, f}
							return
						}
					}
				}
			}
		}
		// X := <metaExpr>
		if len(v.Lhs) == 1 && v.Tok == token.DEFINE {
			if r, ok := w.metaExpr(v.Rhs[0]); ok {
				if id, ok := v.Lhs[0].(*ast.Ident); ok && w.info.Defs[id] != nil {
					w.metaRole[w.info.Defs[id]] = r
					return
				}
			}
		}
	}
	if w.mentions(v) {
		w.unknown(v, "assignment touching identity data")
	}
}

func (w *lcWalker) defObj(e ast.Expr) types.Object {
	if id, ok := e.(*ast.Ident); ok {
		if o := w.info.Defs[id]; o != nil {
			return o
		}
		return w.info.Uses[id]
	}
	return nil
}

// openCall handles `x, err := <open function>(…)`; true when the call was one of the known open functions.
func (w *lcWalker) openCall(v *ast.AssignStmt, c *ast.CallExpr) bool {
	pp, name := w.callee(c)
	if name == "" {
		return false
	}
	lhs0 := w.defObj(v.Lhs[0])
	argRole := func(i int) string {
		if i >= len(c.Args) {
			return ""
		}
		return w.fileRole[w.obj(c.Args[i])]
	}
	switch {
	case pp == mod && name == "openIndexStorage":
		if len(c.Args) == 2 {
			s := types.ExprString(unparen(c.Args[1]))
			if strings.HasPrefix(s, "string(config.Indexes.") && strings.HasSuffix(s, ".URI)") {
				slot := strings.TrimSuffix(strings.TrimPrefix(s, "string(config.Indexes."), ".URI)")
				if r, ok := lcSlotRole[slot]; ok && lhs0 != nil {
					w.fileRole[lhs0] = r
					return true
				}
			}
		}
		w.unknown(v, "openIndexStorage of an unrecognised configuration slot")
		return true
	case pp == mod && name == "ReadAllFromReaderAt":
		if r := argRole(0); r != "" && lhs0 != nil {
			w.fileRole[lhs0] = r
			return true
		}
		return false
	case pp == mod+"/indexes" && (strings.HasPrefix(name, "OpenWithReader_") || strings.HasPrefix(name, "Deprecated_OpenWithReader_")):
		r := argRole(0)
		if r == "" || lhs0 == nil {
			w.unknown(v, "index reader opened on a file of unknown role")
			return true
		}
		reader, inner := lcAnalyseOpen(name, r)
		if r == "-" {
			for _, st := range inner {
				if strings.HasPrefix(st.step, ".unknown") {
					w.emit(st.step)
				}
			}
			return true
		}
		w.emit(".openAs ." + r + " " + reader)
		for _, st := range inner {
			saved := w.guards
			w.guards = append(append([]string(nil), w.guards...), st.guards...)
			w.emit(st.step)
			w.guards = saved
		}
		w.rdrRole[lhs0] = r
		return true
	case pp == mod+"/gsfa" && name == "NewGsfaReader":
		if len(c.Args) != 1 || types.ExprString(unparen(c.Args[0])) != "string(config.Indexes.Gsfa.URI)" || lhs0 == nil {
			w.unknown(v, "gsfa reader opened on something else than config.Indexes.Gsfa.URI")
			return true
		}
		for _, st := range lcAnalyseGsfa(w) {
			saved := w.guards
			w.guards = append(append([]string(nil), w.guards...), st.guards...)
			w.emit(st.step)
			w.guards = saved
		}
		w.rdrRole[lhs0] = "gsfa"
		return true
	case pp == mod+"/bucketteer" && name == "NewReader", pp == mod+"/deprecated/bucketteer" && name == "NewReader":
		r := argRole(0)
		if r == "" || r == "-" || lhs0 == nil {
			w.unknown(v, "bucketteer reader opened on a file of unknown role")
			return true
		}
		if pp == mod+"/bucketteer" {
			w.emit(".openAs ." + r + " .bucketteer")
			w.rdrRole[lhs0] = r
		} else {
			w.emit(".openAs ." + r + " .bucketteerLegacy")
		}
		return true
	case pp == mod+"/blocktimeindex" && name == "FromBytes":
		r := argRole(0)
		if r == "" || r == "-" || lhs0 == nil {
			w.unknown(v, "blocktime index decoded from bytes of unknown role")
			return true
		}
		w.emit(".openAs ." + r + " .blocktime")
		w.rdrRole[lhs0] = r
		return true
	}
	for _, sub := range []string{"/indexes", "/gsfa", "/gsfa/manifest", "/bucketteer", "/deprecated/bucketteer", "/blocktimeindex", "/compactindexsized", "/indexmeta"} {
		if pp == mod+sub {
			w.unknown(v, "unrecognised call into "+sub[1:]+"."+name)
			return true
		}
	}
	return false
}

func lcFindFunc(p *packages.Package, recv, name string) *ast.FuncDecl {
	for _, f := range p.Syntax {
		if strings.HasSuffix(p.Fset.Position(f.Pos()).Filename, "_test.go") {
			continue
		}
		for _, d := range f.Decls {
			fd, ok := d.(*ast.FuncDecl)
			if !ok || fd.Body == nil || fd.Name.Name != name {
				continue
			}
			r := ""
			if fd.Recv != nil && len(fd.Recv.List) == 1 {
				if n := namedOf(p.TypesInfo.TypeOf(fd.Recv.List[0].Type)); n != nil {
					r = n.Obj().Name()
				}
			}
			if r == recv {
				return fd
			}
		}
	}
	return nil
}

// lcAnalyseOpen reads indexes.OpenWithReader_X: which container formats it accepts and which identity checks it makes.
func lcAnalyseOpen(name, role string) (reader string, steps []lcStep) {
	p := pkg("indexes")
	fd := lcFindFunc(p, "", name)
	unk := func(n ast.Node, what string) {
		pos := p.Fset.Position(n.Pos())
		steps = append(steps, lcStep{nil, fmt.Sprintf(".unknown %q", fmt.Sprintf("%s in indexes.%s at line %d", what, name, pos.Line))})
	}
	if fd == nil {
		return ".compact", []lcStep{{nil, fmt.Sprintf(".unknown %q", "indexes."+name+" not found")}}
	}
	legacy, compact := false, false
	var guards []string
	mentionsMeta := func(n ast.Node) bool {
		f := false
		ast.Inspect(n, func(x ast.Node) bool {
			if id, ok := x.(*ast.Ident); ok && id.Name == "meta" {
				f = true
			}
			if s, ok := x.(*ast.SelectorExpr); ok && lcIdentitySelectors[s.Sel.Name] {
				f = true
			}
			return !f
		})
		return f
	}
	for _, s := range fd.Body.List {
		switch v := s.(type) {
		case *ast.AssignStmt:
			rhs := ""
			if len(v.Rhs) == 1 {
				rhs = types.ExprString(v.Rhs[0])
			}
			switch {
			case rhs == "IsFileOldFormat(reader)", rhs == "getDefaultMetadata(index)":
			case rhs == "compactindexsized.Open(reader)":
				compact = true
			case (rhs == "compactindex.Open(reader)" || rhs == "compactindex36.Open(reader)") && role == "-":
			default:
				if mentionsMeta(v) || role != "-" {
					unk(v, "unclassified assignment")
				}
			}
		case *ast.IfStmt:
			cs := types.ExprString(unparen(v.Cond))
			switch {
			case cs == "err != nil" && v.Init == nil:
				if mentionsMeta(v.Body) {
					unk(v, "identity data in an error branch")
				}
			case cs == "isOld":
				// if isOld { return OpenWithReader_X_Deprecated(reader) }
				ok := false
				if len(v.Body.List) == 1 {
					if r, isRet := v.Body.List[0].(*ast.ReturnStmt); isRet && len(r.Results) == 1 {
						if c, isCall := r.Results[0].(*ast.CallExpr); isCall {
							dn := types.ExprString(c.Fun)
							if dfd := lcFindFunc(p, "", dn); dfd != nil && strings.HasSuffix(dn, "_Deprecated") && !mentionsMeta(dfd.Body) {
								ok = true
							}
						}
					}
				}
				if ok {
					legacy = true
					guards = []string{"(.notLegacy ." + role + ")"}
				} else {
					unk(v, "unclassified old-format dispatch")
				}
			case cs == "!IsValidNetwork(meta.Network)" && isErrReturnBody(v.Body):
				steps = append(steps, lcStep{guards, ".checkNetworkValid ." + role})
			case cs == "meta.RootCid == cid.Undef" && isErrReturnBody(v.Body):
				// "root cid is undefined": part of reading the file, not a comparison with anything else
			case cs == "err != nil" && v.Init != nil:
				// if err := meta.AssertIndexKind(Kind_X); err != nil { return nil, err }
				done := false
				if a, ok := v.Init.(*ast.AssignStmt); ok && len(a.Rhs) == 1 && isErrReturnBody(v.Body) {
					if c, ok := a.Rhs[0].(*ast.CallExpr); ok && types.ExprString(c.Fun) == "meta.AssertIndexKind" && len(c.Args) == 1 {
						if id, ok := c.Args[0].(*ast.Ident); ok {
							if bs, ok := byteArrayVar(p, id.Name); ok {
								steps = append(steps, lcStep{guards, ".checkKind ." + role + " " + leanBytes(bs)})
								done = true
							}
						}
					}
				}
				if !done {
					unk(v, "unclassified check")
				}
			default:
				if mentionsMeta(v) {
					unk(v, "unclassified condition over identity data")
				}
			}
		case *ast.ReturnStmt:
		default:
			if mentionsMeta(s) {
				unk(s, "unclassified statement")
			}
		}
	}
	switch {
	case role == "-":
		return "", steps
	case compact && legacy:
		return ".compactOrLegacy", steps
	case compact:
		return ".compact", steps
	}
	unk(fd, "reader opens no compactindexsized file")
	return ".compact", steps
}

func leanBytes(bs []byte) string {
	parts := make([]string, len(bs))
	for i, x := range bs {
		parts[i] = fmt.Sprint(x)
	}
	return "[" + strings.Join(parts, ", ") + "]"
}

// lcAnalyseGsfa reads gsfa.NewGsfaReader (which files it opens with which reader) and the accessor methods of GsfaReader.
func lcAnalyseGsfa(w *lcWalker) (steps []lcStep) {
	p := pkg("gsfa")
	unk := func(what string) { steps = append(steps, lcStep{nil, fmt.Sprintf(".unknown %q", what)}) }
	fd := lcFindFunc(p, "", "NewGsfaReader")
	if fd == nil {
		unk("gsfa.NewGsfaReader not found")
		return
	}
	fieldRole := map[string]string{}
	localRole := map[string]string{}
	var walk func(b *ast.BlockStmt)
	walk = func(b *ast.BlockStmt) {
		for _, s := range b.List {
			switch v := s.(type) {
			case *ast.BlockStmt:
				walk(v)
			case *ast.AssignStmt:
				if len(v.Rhs) != 1 || len(v.Lhs) == 0 {
					continue
				}
				lhs := types.ExprString(v.Lhs[0])
				if c, ok := v.Rhs[0].(*ast.CallExpr); ok {
					switch fn := types.ExprString(c.Fun); fn {
					case "indexes.Open_PubkeyToOffsetAndSize":
						// Open_X(path) = os.Open + OpenWithReader_X
						ofd := lcFindFunc(pkg("indexes"), "", "Open_PubkeyToOffsetAndSize")
						ok := false
						if ofd != nil {
							ast.Inspect(ofd.Body, func(x ast.Node) bool {
								if r, isRet := x.(*ast.ReturnStmt); isRet && len(r.Results) == 1 {
									if cc, isCall := r.Results[0].(*ast.CallExpr); isCall && types.ExprString(cc.Fun) == "OpenWithReader_PubkeyToOffsetAndSize" {
										ok = true
									}
								}
								return true
							})
						}
						if !ok {
							unk("indexes.Open_PubkeyToOffsetAndSize does not end in OpenWithReader_PubkeyToOffsetAndSize")
						}
						reader, inner := lcAnalyseOpen("OpenWithReader_PubkeyToOffsetAndSize", "gsfaPubkeyIndex")
						steps = append(steps, lcStep{nil, ".openAs .gsfaPubkeyIndex " + reader})
						steps = append(steps, inner...)
						localRole[lhs] = "gsfaPubkeyIndex"
						continue
					case "manifest.NewManifest":
						steps = append(steps, lcStep{nil, ".openAs .gsfaManifest .manifest"})
						localRole[lhs] = "gsfaManifest"
						continue
					case "linkedlog.NewLinkedLog", "isDir", "filepath.Join":
						continue
					}
				}
				if strings.HasPrefix(lhs, "index.") {
					if r := localRole[types.ExprString(v.Rhs[0])]; r != "" {
						fieldRole[strings.TrimPrefix(lhs, "index.")] = r
						continue
					}
				}
				if lhs == "index" || lhs == "offsetsIndex" {
					continue
				}
				if lcMentionsAny(v) {
					unk(fmt.Sprintf("unclassified assignment in gsfa.NewGsfaReader at line %d", p.Fset.Position(v.Pos()).Line))
				}
			case *ast.IfStmt:
				cs := types.ExprString(unparen(v.Cond))
				if cs == "err != nil" && !lcMentionsAny(v.Body) && (v.Init == nil || !lcMentionsAny(v.Init)) {
					// `if ok, err := isDir(…); err != nil {…} else if !ok {…}` and plain error returns
					if v.Else != nil && lcMentionsAny(v.Else) {
						unk("identity data in gsfa.NewGsfaReader else-branch")
					}
					continue
				}
				if lcMentionsAny(v) {
					unk(fmt.Sprintf("unclassified condition in gsfa.NewGsfaReader at line %d: %s", p.Fset.Position(v.Pos()).Line, cs))
				}
			case *ast.ReturnStmt:
			default:
				if lcMentionsAny(s) {
					unk(fmt.Sprintf("unclassified statement in gsfa.NewGsfaReader at line %d", p.Fset.Position(s.Pos()).Line))
				}
			}
		}
	}
	walk(fd.Body)
	// accessor methods: func (index *GsfaReader) M() T { return index.<field>.<Meta|Version>() }
	for _, f := range p.Syntax {
		for _, d := range f.Decls {
			m, ok := d.(*ast.FuncDecl)
			if !ok || m.Body == nil || m.Recv == nil || len(m.Recv.List) != 1 || len(m.Body.List) != 1 {
				continue
			}
			if n := namedOf(p.TypesInfo.TypeOf(m.Recv.List[0].Type)); n == nil || n.Obj().Name() != "GsfaReader" {
				continue
			}
			r, ok := m.Body.List[0].(*ast.ReturnStmt)
			if !ok || len(r.Results) != 1 {
				continue
			}
			c, ok := r.Results[0].(*ast.CallExpr)
			if !ok || len(c.Args) != 0 {
				continue
			}
			s := strings.Split(types.ExprString(c.Fun), ".")
			if len(s) != 3 || len(m.Recv.List[0].Names) != 1 || s[0] != m.Recv.List[0].Names[0].Name || fieldRole[s[1]] == "" {
				continue
			}
			switch t := typeString(p.TypesInfo.TypeOf(c)); {
			case s[2] == "Meta" && t == "*"+mod+"/indexes.Metadata":
				w.gsfaMethods[m.Name.Name] = "meta:" + fieldRole[s[1]]
			case s[2] == "Meta" && strings.TrimPrefix(t, "*") == mod+"/indexmeta.Meta":
				w.gsfaMethods[m.Name.Name] = "imeta:" + fieldRole[s[1]]
			case s[2] == "Version" && t == "uint64":
				w.gsfaMethods[m.Name.Name] = "version:" + fieldRole[s[1]]
			}
		}
	}
	return steps
}

func lcMentionsAny(n ast.Node) bool {
	if n == nil {
		return false
	}
	f := false
	ast.Inspect(n, func(x ast.Node) bool {
		if s, ok := x.(*ast.SelectorExpr); ok && (lcIdentitySelectors[s.Sel.Name] || s.Sel.Name == "Epoch") {
			f = true
		}
		return !f
	})
	return f
}

// lcManifestVersion: the only manifest version NewManifest accepts (`header.Version() != _Version` → error).
func lcManifestVersion() (string, bool) {
	p := pkg("gsfa/manifest")
	fd := lcFindFunc(p, "", "NewManifest")
	if fd == nil {
		return "", false
	}
	found := false
	ast.Inspect(fd.Body, func(x ast.Node) bool {
		if i, ok := x.(*ast.IfStmt); ok && types.ExprString(unparen(i.Cond)) == "header.Version() != _Version" && len(i.Body.List) == 1 {
			if _, isRet := i.Body.List[0].(*ast.ReturnStmt); isRet {
				found = true
			}
		}
		return true
	})
	if !found {
		return "", false
	}
	for _, f := range p.Syntax {
		for _, d := range f.Decls {
			gd, ok := d.(*ast.GenDecl)
			if !ok || gd.Tok != token.VAR {
				continue
			}
			for _, s := range gd.Specs {
				vs := s.(*ast.ValueSpec)
				for i, n := range vs.Names {
					if n.Name == "_Version" && i < len(vs.Values) {
						if tv, ok := p.TypesInfo.Types[vs.Values[i]]; ok && tv.Value != nil {
							return constant.ToInt(tv.Value).ExactString(), true
						}
					}
				}
			}
		}
	}
	return "", false
}

// lcValidNetworks: the case list of indexes.IsValidNetwork.
func lcValidNetworks() ([][]byte, bool) {
	p := pkg("indexes")
	fd := lcFindFunc(p, "", "IsValidNetwork")
	if fd == nil || len(fd.Body.List) != 1 {
		return nil, false
	}
	sw, ok := fd.Body.List[0].(*ast.SwitchStmt)
	if !ok || types.ExprString(sw.Tag) != "network" {
		return nil, false
	}
	var out [][]byte
	for _, cc := range sw.Body.List {
		c := cc.(*ast.CaseClause)
		if len(c.Body) != 1 {
			return nil, false
		}
		r, ok := c.Body[0].(*ast.ReturnStmt)
		if !ok || len(r.Results) != 1 {
			return nil, false
		}
		switch types.ExprString(r.Results[0]) {
		case "true":
			for _, e := range c.List {
				tv, ok := p.TypesInfo.Types[e]
				if !ok || tv.Value == nil || tv.Value.Kind() != constant.String {
					return nil, false
				}
				out = append(out, []byte(constant.StringVal(tv.Value)))
			}
		case "false":
			if c.List != nil {
				return nil, false
			}
		default:
			return nil, false
		}
	}
	return out, len(out) > 0
}

func genLoadChecks() {
	p := pkg(".")
	w := &lcWalker{p: p, info: p.TypesInfo, fileRole: map[types.Object]string{}, rdrRole: map[types.Object]string{},
		metaRole: map[types.Object]string{}, valOf: map[types.Object][2]string{}, modeVars: map[types.Object]string{},
		gsfaMethods: map[string]string{}}
	fd := lcFindFunc(p, "", "NewEpochFromConfig")
	if fd == nil {
		fails = append(fails, "loadchecks: NewEpochFromConfig not found")
		return
	}
	// ep.Epoch() must be the configured epoch: `func (e *Epoch) Epoch() uint64 { return e.epoch }` and `epoch: *config.Epoch`
	epochOK := false
	if m := lcFindFunc(p, "Epoch", "Epoch"); m != nil && len(m.Body.List) == 1 {
		if r, ok := m.Body.List[0].(*ast.ReturnStmt); ok && len(r.Results) == 1 && len(m.Recv.List[0].Names) == 1 &&
			types.ExprString(r.Results[0]) == m.Recv.List[0].Names[0].Name+".epoch" {
			epochOK = true
		}
	}
	litOK := false
	ast.Inspect(fd.Body, func(x ast.Node) bool {
		switch v := x.(type) {
		case *ast.CompositeLit:
			if types.ExprString(v.Type) == "Epoch" {
				for _, el := range v.Elts {
					if kv, ok := el.(*ast.KeyValueExpr); ok && types.ExprString(kv.Key) == "epoch" && types.ExprString(kv.Value) == "*config.Epoch" {
						litOK = true
					}
				}
			}
		case *ast.AssignStmt:
			if len(v.Lhs) == 1 && len(v.Rhs) == 1 && v.Tok == token.DEFINE {
				id, _ := v.Lhs[0].(*ast.Ident)
				switch types.ExprString(v.Rhs[0]) {
				case "config.IsFilecoinMode()":
					if id != nil && id.Name == "isLassieMode" {
						w.modeVars[p.TypesInfo.Defs[id]] = ".filecoinMode"
					}
				case "!isLassieMode":
					if id != nil && id.Name == "isCarMode" {
						w.modeVars[p.TypesInfo.Defs[id]] = ".carMode"
					}
				}
			}
			for _, l := range v.Lhs { // ep.epoch must not be reassigned
				if types.ExprString(l) == "ep.epoch" {
					litOK = false
					epochOK = false
				}
			}
		case *ast.ValueSpec:
			for _, n := range v.Names {
				if n.Name == "lastRootCid" {
					w.lastRoot = p.TypesInfo.Defs[n]
				}
			}
		}
		return true
	})
	if !epochOK || !litOK {
		fails = append(fails, "loadchecks: ep.Epoch() is not provably *config.Epoch")
	}
	if w.lastRoot == nil || len(w.modeVars) != 2 {
		fails = append(fails, "loadchecks: lastRootCid / isCarMode / isLassieMode not found in NewEpochFromConfig")
	}
	// prime the gsfa accessor table (needed before the walk reaches conditions over gsfaIndex.X())
	lcAnalyseGsfa(w)
	w.block(fd.Body)
	if w.storePos == token.NoPos || w.storeGuards != 0 || w.lastSetPos > w.storePos {
		w.steps = append(w.steps, lcStep{nil, fmt.Sprintf(".unknown %q", "ep.rootCid is not the final, unconditional copy of lastRootCid")})
	}

	var b strings.Builder
	b.WriteString("-- GENERATED by /verif/harness/extract (loadchecks.go) from /repo's working tree. Do not edit.\n")
	b.WriteString("namespace Generated\n\n")
	b.WriteString("/-- index files of one epoch configuration, named after the configuration slot (gsfa = manifest + pubkey index) -/\n")
	b.WriteString("inductive LRole where\n  | cidToOffsetAndSize | slotToCid | sigToCid | sigExists | gsfaManifest | gsfaPubkeyIndex | slotToBlocktime\nderiving DecidableEq, Repr\n\n")
	b.WriteString("/-- the reader a file is handed to (= the container formats it accepts) -/\n")
	b.WriteString("inductive LReader where\n  | compact | compactOrLegacy | bucketteer | bucketteerLegacy | manifest | blocktime\nderiving DecidableEq, Repr\n\n")
	b.WriteString("inductive LGuard where\n  | carMode | filecoinMode | deprecatedIndexes | notDeprecatedIndexes | gsfaConfigured\n  | notLegacy (r : LRole) | lastRootSet | manifestVersionGe2\nderiving DecidableEq, Repr\n\n")
	b.WriteString("inductive LStep where\n  | openAs (r : LRole) (rd : LReader)\n  | checkKind (r : LRole) (kind : List UInt8)\n  | checkNetworkValid (r : LRole)\n  | checkEpoch (r : LRole)\n  | checkRoot (r : LRole)\n  | setLastRoot (r : LRole)\n  | checkFilecoinRoot\n  | unknown (what : String)\nderiving DecidableEq, Repr\n\n")
	if nets, ok := lcValidNetworks(); ok {
		parts := make([]string, len(nets))
		for i, n := range nets {
			parts[i] = leanBytes(n)
		}
		fmt.Fprintf(&b, "/-- indexes.IsValidNetwork accepts exactly these -/\ndef validNetworks : List (List UInt8) := [%s]\n\n", strings.Join(parts, ", "))
	} else {
		fails = append(fails, "loadchecks: indexes.IsValidNetwork is not a plain switch over constants")
		b.WriteString("def validNetworks : List (List UInt8) := []\n\n")
	}
	if v, ok := lcManifestVersion(); ok {
		fmt.Fprintf(&b, "/-- the only manifest version gsfa/manifest.NewManifest accepts -/\ndef gsfaManifestVersion : Nat := %s\n\n", v)
	} else {
		fails = append(fails, "loadchecks: manifest.NewManifest no longer rejects versions other than _Version")
		b.WriteString("def gsfaManifestVersion : Nat := 0\n\n")
	}
	b.WriteString("/-- NewEpochFromConfig, in source order: (guards, step) -/\ndef loadChecks : List (List LGuard × LStep) := [\n")
	for i, st := range w.steps {
		sep := ","
		if i == len(w.steps)-1 {
			sep = ""
		}
		fmt.Fprintf(&b, "  ([%s], %s)%s\n", strings.Join(st.guards, ", "), st.step, sep)
		if strings.HasPrefix(st.step, ".unknown") {
			fails = append(fails, "loadchecks: "+st.step)
		}
	}
	b.WriteString("]\n\nend Generated\n")
	write("LoadChecks.lean", b.String())
}

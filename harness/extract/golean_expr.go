package main

// GoLean, expression part: every Go expression becomes a pure Lean term; sub-expressions that can panic or call a
// monadic function are bound to temporaries by statements emitted before the use (`let t ← ..`), in Go's evaluation order.

import (
	"fmt"
	"go/ast"
	"go/constant"
	"go/token"
	"go/types"
	"sort"
	"strings"
)

func (c *glCtx) constTerm(v constant.Value, t types.Type, n ast.Node) string {
	switch v.Kind() {
	case constant.Bool:
		if constant.BoolVal(v) {
			return "true"
		}
		return "false"
	case constant.String:
		return fmt.Sprintf("%q", constant.StringVal(v))
	}
	iv := constant.ToInt(v)
	if iv.Kind() != constant.Int {
		c.fail(n, "non-integer constant")
	}
	lt, ok := c.g.leanTypeOK(t)
	if !ok || lt == "Bool" || lt == "String" {
		c.fail(n, "constant of type %s", t)
	}
	return fmt.Sprintf("(%s : %s)", iv.ExactString(), lt)
}

// exprAs translates e where the context expects type want (used for untyped constants and nil)
func (c *glCtx) exprAs(e ast.Expr, want types.Type) string {
	tv := c.p.TypesInfo.Types[e]
	if tv.Value != nil {
		t := tv.Type
		if b, ok := t.Underlying().(*types.Basic); ok && b.Info()&types.IsUntyped != 0 && want != nil {
			t = want
		}
		return c.constTerm(tv.Value, t, e)
	}
	if id, ok := ast.Unparen(e).(*ast.Ident); ok && id.Name == "nil" && want != nil {
		z, ok := c.g.zero(want)
		if !ok {
			c.fail(e, "nil of type %s", want)
		}
		return z
	}
	return c.expr(e)
}

func (c *glCtx) boolExpr(e ast.Expr) string { return c.expr(e) }

// intExpr: e as a Lean Int (index and slice bounds may have any integer type)
func (c *glCtx) intExpr(e ast.Expr) string {
	t := c.typeOf(e)
	s := c.exprAs(e, types.Typ[types.Int])
	if tv := c.p.TypesInfo.Types[e]; tv.Value != nil {
		iv := constant.ToInt(tv.Value)
		return fmt.Sprintf("(%s : Int)", iv.ExactString())
	}
	if isIntType(t) {
		return s
	}
	if uintBits(t) > 0 {
		return fmt.Sprintf("(%s.toNat : Int)", s)
	}
	c.fail(e, "index of type %s", t)
	return ""
}

func (c *glCtx) expr(e ast.Expr) string {
	tv := c.p.TypesInfo.Types[e]
	if tv.Value != nil {
		return c.constTerm(tv.Value, tv.Type, e)
	}
	switch x := e.(type) {
	case *ast.ParenExpr:
		return c.expr(x.X)
	case *ast.Ident:
		o := c.p.TypesInfo.Uses[x]
		if o == nil {
			c.fail(e, "identifier %s", x.Name)
		}
		if x.Name == "nil" {
			c.fail(e, "nil without a known type")
		}
		if v, ok := o.(*types.Var); ok {
			if !c.declared[v] {
				if v.Pkg() != nil && v.Parent() == v.Pkg().Scope() && isErrorType(v.Type()) && c.errData {
					// a sentinel error of the package (`var ErrNotFound = …`): identified by its name
					return fmt.Sprintf("(Go.Error.other %q)", v.Name())
				}
				if v.Pkg() != nil && v.Parent() == v.Pkg().Scope() {
					// a package-level byte string with a constant initialiser (`var magic = []byte("…")`)
					if pp := pkgs[v.Pkg().Path()]; pp != nil {
						if bs, ok := byteArrayVar(pp, v.Name()); ok {
							if where := pkgVarWritten(v); where != "" {
								c.fail(e, "package variable %s is written at %s: its initialiser is not its value", x.Name, where)
							}
							parts := make([]string, len(bs))
							for i, b := range bs {
								parts[i] = fmt.Sprint(b)
							}
							return fmt.Sprintf("([%s] : List UInt8)", strings.Join(parts, ", "))
						}
					}
				}
				c.fail(e, "variable %s is not local", x.Name)
			}
			return c.nameOf(v)
		}
		c.fail(e, "identifier %s (%T)", x.Name, o)
	case *ast.StarExpr:
		if nilablePtr(c.typeOf(x.X)) {
			t := c.fresh("t")
			c.emit("let %s ← Go.deref %s", t, c.expr(x.X))
			return t
		}
		return c.expr(x.X)
	case *ast.UnaryExpr:
		switch x.Op {
		case token.NOT:
			return "(!" + c.expr(x.X) + ")"
		case token.SUB:
			t := c.typeOf(x.X)
			if isIntType(t) {
				return "(Go.wrap64 (-" + c.expr(x.X) + "))"
			}
			if uintBits(t) > 0 {
				return "(0 - " + c.expr(x.X) + ")"
			}
		case token.AND:
			// &x of a struct / array: value semantics
			if cl, ok := x.X.(*ast.CompositeLit); ok {
				return c.expr(cl)
			}
			return c.expr(x.X)
		case token.XOR:
			t := c.typeOf(x.X)
			if b := uintBits(t); b > 0 {
				max := map[int]string{8: "255", 16: "65535", 32: "4294967295", 64: "18446744073709551615"}[b]
				return fmt.Sprintf("(%s ^^^ (%s : %s))", c.expr(x.X), max, c.lt(t, e))
			}
		}
		c.fail(e, "unary %s", x.Op)
	case *ast.BinaryExpr:
		return c.binary(x, c.typeOf(e))
	case *ast.SelectorExpr:
		sel := c.p.TypesInfo.Selections[x]
		if sel == nil {
			if v, ok := c.p.TypesInfo.Uses[x.Sel].(*types.Var); ok && c.errData && isErrorType(v.Type()) && v.Pkg() != nil {
				switch v.Pkg().Path() + "." + v.Name() {
				case "io.EOF":
					return "Go.Error.eof"
				case "io.ErrUnexpectedEOF":
					return "Go.Error.unexpectedEOF"
				}
				return fmt.Sprintf("(Go.Error.other %q)", v.Pkg().Name()+"."+v.Name())
			}
			c.fail(e, "qualified identifier %s", x.Sel.Name)
		}
		if sel.Kind() == types.MethodVal {
			return c.methodValue(x, sel)
		}
		if sel.Kind() != types.FieldVal {
			c.fail(e, "method expression")
		}
		return "(" + c.expr(x.X) + "." + strings.Join(c.fieldPath(x, sel), ".") + ")"
	case *ast.IndexExpr:
		if _, isMap := c.typeOf(x.X).Underlying().(*types.Map); isMap {
			c.fail(e, "map index")
		}
		base := c.expr(x.X)
		t := c.fresh("t")
		c.emit("let %s ← Go.idx %s %s", t, base, c.intExpr(x.Index))
		return t
	case *ast.SliceExpr:
		if x.Slice3 {
			c.fail(e, "3-index slice")
		}
		if _, isStr := c.typeOf(x.X).Underlying().(*types.Basic); isStr {
			c.fail(e, "string slice")
		}
		base := c.expr(x.X)
		if x.Low == nil && x.High == nil {
			return base
		}
		lo, hi := "(0 : Int)", fmt.Sprintf("(Go.len %s)", base)
		if x.Low != nil {
			lo = c.intExpr(x.Low)
		}
		if x.High != nil {
			hi = c.intExpr(x.High)
		}
		t := c.fresh("t")
		c.emit("let %s ← Go.slice %s %s %s", t, base, lo, hi)
		return t
	case *ast.CallExpr:
		vals := c.callMulti(x, 1)
		return vals[0]
	case *ast.CompositeLit:
		return c.composite(x)
	case *ast.FuncLit:
		return c.funcLit(x)
	}
	c.fail(e, "expression %T", e)
	return ""
}

func (c *glCtx) composite(x *ast.CompositeLit) string {
	t := c.typeOf(x)
	switch u := t.Underlying().(type) {
	case *types.Struct:
		nt, ok := t.(*types.Named)
		if !ok {
			c.fail(x, "anonymous struct literal")
		}
		name := c.g.structName(nt)
		if len(x.Elts) == 0 {
			return name + ".zero"
		}
		var fs []string
		for i, el := range x.Elts {
			if kv, ok := el.(*ast.KeyValueExpr); ok {
				id := kv.Key.(*ast.Ident)
				var ft types.Type
				for j := 0; j < u.NumFields(); j++ {
					if u.Field(j).Name() == id.Name {
						ft = u.Field(j).Type()
					}
				}
				if _, ok := c.g.leanTypeOK(ft); !ok {
					c.fail(x, "field %s has an unsupported type", id.Name)
				}
				fs = append(fs, fmt.Sprintf("%s := %s", leanIdent(id.Name), c.exprAs(kv.Value, ft)))
			} else {
				fs = append(fs, fmt.Sprintf("%s := %s", leanIdent(u.Field(i).Name()), c.exprAs(el, u.Field(i).Type())))
			}
		}
		return fmt.Sprintf("{ %s.zero with %s }", name, strings.Join(fs, ", "))
	case *types.Slice:
		var xs []string
		for _, el := range x.Elts {
			if _, ok := el.(*ast.KeyValueExpr); ok {
				c.fail(x, "keyed slice literal")
			}
			xs = append(xs, c.exprAs(el, u.Elem()))
		}
		return fmt.Sprintf("([%s] : %s)", strings.Join(xs, ", "), c.lt(t, x))
	case *types.Array:
		if len(x.Elts) == 0 {
			z, _ := c.g.zero(t)
			return z
		}
		if int64(len(x.Elts)) != u.Len() {
			c.fail(x, "partial array literal")
		}
		var xs []string
		for _, el := range x.Elts {
			if _, ok := el.(*ast.KeyValueExpr); ok {
				c.fail(x, "keyed array literal")
			}
			xs = append(xs, c.exprAs(el, u.Elem()))
		}
		return fmt.Sprintf("([%s] : %s)", strings.Join(xs, ", "), c.lt(t, x))
	}
	c.fail(x, "composite literal of %s", t)
	return ""
}

// arith: l op r on operands of type t (result type rt)
func (c *glCtx) arith(op token.Token, l, r string, t, rt types.Type, n ast.Node) string {
	if isIntType(t) {
		switch op {
		case token.ADD:
			return fmt.Sprintf("(Go.wrap64 (%s + %s))", l, r)
		case token.SUB:
			return fmt.Sprintf("(Go.wrap64 (%s - %s))", l, r)
		case token.MUL:
			return fmt.Sprintf("(Go.wrap64 (%s * %s))", l, r)
		case token.OR:
			return fmt.Sprintf("(Go.orInt %s %s)", l, r)
		case token.AND:
			return fmt.Sprintf("(Go.andInt %s %s)", l, r)
		case token.XOR:
			return fmt.Sprintf("(Go.xorInt %s %s)", l, r)
		case token.QUO:
			t1 := c.fresh("t")
			c.emit("let %s ← Go.divInt %s %s", t1, l, r)
			return t1
		case token.REM:
			t1 := c.fresh("t")
			c.emit("let %s ← Go.modInt %s %s", t1, l, r)
			return t1
		}
		c.fail(n, "int operator %s", op)
	}
	b := uintBits(t)
	if b == 0 {
		c.fail(n, "arithmetic on %s", t)
	}
	switch op {
	case token.ADD, token.SUB, token.MUL, token.AND, token.OR, token.XOR:
		return fmt.Sprintf("(%s %s %s)", l, binops[op], r)
	case token.AND_NOT:
		max := map[int]string{8: "255", 16: "65535", 32: "4294967295", 64: "18446744073709551615"}[b]
		return fmt.Sprintf("(%s &&& (%s ^^^ (%s : %s)))", l, r, max, c.lt(t, n))
	case token.QUO, token.REM:
		fn := map[token.Token]string{token.QUO: "div", token.REM: "mod"}[op]
		if isNonzeroLiteral(r) {
			return fmt.Sprintf("(%s %s %s)", l, binops[op], r)
		}
		if b != 64 && b != 32 {
			c.fail(n, "division on %d-bit operands", b)
		}
		t1 := c.fresh("t")
		c.emit("let %s ← Go.%sU%d %s %s", t1, fn, b, l, r)
		return t1
	}
	c.fail(n, "operator %s", op)
	return ""
}

// isNonzeroLiteral: r is a typed literal "(n : T)" with n ≠ 0
func isNonzeroLiteral(r string) bool {
	if !strings.HasPrefix(r, "(") || !strings.Contains(r, " : ") {
		return false
	}
	n := strings.TrimSpace(strings.SplitN(r[1:], " : ", 2)[0])
	if n == "" || n == "0" {
		return false
	}
	for _, ch := range n {
		if ch < '0' || ch > '9' {
			return false
		}
	}
	return true
}

func (c *glCtx) binary(x *ast.BinaryExpr, rt types.Type) string {
	lt := c.typeOf(x.X)
	switch x.Op {
	case token.LAND, token.LOR:
		l := c.expr(x.X)
		// the right operand is evaluated only when needed: collect its preludes in a sub-block
		save := c.lines
		c.lines = nil
		c.indent++
		r := c.expr(x.Y)
		pre := c.lines
		c.indent--
		c.lines = save
		if len(pre) == 0 {
			if x.Op == token.LAND {
				return fmt.Sprintf("(%s && %s)", l, r)
			}
			return fmt.Sprintf("(%s || %s)", l, r)
		}
		t := c.fresh("t")
		c.emit("let mut %s : Bool := %s", t, l)
		if x.Op == token.LAND {
			c.emit("if %s then", t)
		} else {
			c.emit("if !%s then", t)
		}
		c.lines = append(c.lines, pre...)
		c.indent++
		c.emit("%s := %s", t, r)
		c.indent--
		return t
	case token.EQL, token.NEQ, token.LSS, token.LEQ, token.GTR, token.GEQ:
		// operands: typed by the other side when one is an untyped constant / nil
		rtp := c.typeOf(x.Y)
		want := lt
		if b, ok := lt.Underlying().(*types.Basic); ok && b.Info()&types.IsUntyped != 0 {
			want = rtp
		}
		// `reader == nil` for an io.ReaderAt: a reader is a function value in the model and is never nil (a nil reader is
		// outside the theorems' quantifier: they are stated over in-memory readers)
		if idn, ok := ast.Unparen(x.Y).(*ast.Ident); ok && idn.Name == "nil" && (x.Op == token.EQL || x.Op == token.NEQ) {
			if nilablePtr(lt) {
				if x.Op == token.EQL {
					return "(" + c.expr(x.X) + ").isNone"
				}
				return "(" + c.expr(x.X) + ").isSome"
			}
			if ltn, ok := c.g.leanTypeOK(lt); ok && ltn == "Go.ReaderAt" {
				if x.Op == token.EQL {
					return "false"
				}
				return "true"
			}
		}
		if (isErrorType(lt) || isErrorType(rtp)) && !c.errData {
			c.fail(x, "comparison of error values")
		}
		if isErrorType(rtp) {
			want = rtp
		}
		l := c.exprAs(x.X, want)
		r := c.exprAs(x.Y, want)
		switch u := want.Underlying().(type) {
		case *types.Basic:
			_ = u
		case *types.Array:
		case *types.Interface:
			if !(isErrorType(want) && c.errData) {
				c.fail(x, "comparison of %s", want)
			}
		default:
			c.fail(x, "comparison of %s", want)
		}
		switch x.Op {
		case token.EQL:
			return fmt.Sprintf("(%s == %s)", l, r)
		case token.NEQ:
			return fmt.Sprintf("(%s != %s)", l, r)
		case token.LSS:
			return fmt.Sprintf("(decide (%s < %s))", l, r)
		case token.LEQ:
			return fmt.Sprintf("(decide (%s ≤ %s))", l, r)
		case token.GTR:
			return fmt.Sprintf("(decide (%s > %s))", l, r)
		case token.GEQ:
			return fmt.Sprintf("(decide (%s ≥ %s))", l, r)
		}
	case token.SHL, token.SHR:
		l := c.exprAs(x.X, rt)
		t := rt
		if tv := c.p.TypesInfo.Types[x.Y]; tv.Value != nil {
			cnt, _ := constant.Uint64Val(constant.ToInt(tv.Value))
			if isIntType(t) {
				if cnt >= 63 {
					c.fail(x, "int shift by %d", cnt)
				}
				if x.Op == token.SHL {
					return fmt.Sprintf("(Go.wrap64 (%s * (%d : Int)))", l, uint64(1)<<cnt)
				}
				return fmt.Sprintf("(%s / (%d : Int))", l, uint64(1)<<cnt)
			}
			b := uintBits(t)
			if b == 0 {
				c.fail(x, "shift of %s", t)
			}
			if int(cnt) >= b {
				return fmt.Sprintf("(0 : %s)", c.lt(t, x))
			}
			return fmt.Sprintf("(%s %s (%d : %s))", l, binops[x.Op], cnt, c.lt(t, x))
		}
		// run-time count: must be unsigned
		ct := c.typeOf(x.Y)
		if uintBits(ct) == 0 {
			c.fail(x, "shift count of type %s", ct)
		}
		b := uintBits(t)
		if b == 0 {
			c.fail(x, "run-time shift of %s", t)
		}
		fn := map[token.Token]string{token.SHL: "shl", token.SHR: "shr"}[x.Op]
		return fmt.Sprintf("(Go.%s%d %s %s.toNat)", fn, b, l, c.expr(x.Y))
	default:
		want := rt
		l := c.exprAs(x.X, want)
		r := c.exprAs(x.Y, want)
		return c.arith(x.Op, l, r, rt, rt, x)
	}
	c.fail(x, "binary %s", x.Op)
	return ""
}

// conversion T(x)
func (c *glCtx) convert(to types.Type, arg ast.Expr, n ast.Node) string {
	if id, ok := ast.Unparen(arg).(*ast.Ident); ok && id.Name == "nil" {
		z, ok := c.g.zero(to)
		if !ok {
			c.fail(n, "nil converted to %s", to)
		}
		return z
	}
	from := c.typeOf(arg)
	if tv := c.p.TypesInfo.Types[arg]; tv.Value != nil {
		// constant conversion: the compiler has checked representability
		return c.constTerm(tv.Value, to, n)
	}
	a := c.expr(arg)
	tl, ok1 := c.g.leanTypeOK(to)
	fl, ok2 := c.g.leanTypeOK(from)
	if !ok1 || !ok2 {
		c.fail(n, "conversion %s → %s", from, to)
	}
	if tl == fl {
		return a
	}
	tb, fb := uintBits(to), uintBits(from)
	switch {
	case tb > 0 && fb > 0:
		return fmt.Sprintf("(%s.toUInt%d)", a, tb)
	case tb > 0 && isIntType(from):
		return fmt.Sprintf("(Go.u%dOfInt %s)", tb, a)
	case isIntType(to) && fb == 64:
		return fmt.Sprintf("(Go.intOfU64 %s)", a)
	case isIntType(to) && fb > 0:
		return fmt.Sprintf("(%s.toNat : Int)", a)
	}
	// []byte(x) of a named byte-slice type etc. have equal Lean types and were handled above
	c.fail(n, "conversion %s → %s", from, to)
	return ""
}

// callMulti translates a call and returns its n result terms (n = 0: call for effect).
// Effects on arguments (mutated slices / receivers) are written back.
func (c *glCtx) callMulti(call *ast.CallExpr, n int) []string {
	// conversion
	if ftv, ok := c.p.TypesInfo.Types[call.Fun]; ok && ftv.IsType() {
		if len(call.Args) != 1 || n != 1 {
			c.fail(call, "conversion arity")
		}
		return []string{c.convert(ftv.Type, call.Args[0], call)}
	}
	// builtins
	if id, ok := ast.Unparen(call.Fun).(*ast.Ident); ok {
		if _, isB := c.p.TypesInfo.Uses[id].(*types.Builtin); isB {
			return c.builtin(id.Name, call, n)
		}
		// call of a function-typed local (parameter)
		if v, ok := c.p.TypesInfo.Uses[id].(*types.Var); ok {
			sig, ok := v.Type().Underlying().(*types.Signature)
			if !ok {
				c.fail(call, "call of non-function")
			}
			var args []string
			for i, a := range call.Args {
				args = append(args, c.exprAs(a, sig.Params().At(i).Type()))
			}
			return c.bindCall(fmt.Sprintf("%s %s", c.nameOf(v), strings.Join(args, " ")), resultCount(sig), n, call)
		}
	}
	cf := calleeOf(c.p, call)
	if cf == nil {
		c.fail(call, "dynamic call")
	}
	qn := qualName(cf)
	if r, ok := c.stdlib(qn, call, n); ok {
		return r
	}
	if ext, ok := glExterns[qn]; ok {
		var args []string
		if ext.withRecv {
			se, ok := ast.Unparen(call.Fun).(*ast.SelectorExpr)
			if !ok {
				c.fail(call, "extern method expression")
			}
			args = append(args, c.expr(se.X))
		}
		for _, a := range call.Args {
			args = append(args, c.expr(a))
		}
		if ext.monadic {
			// (value, error) of the Go function: in an errors-as-data caller the thrown error comes back as a value
			esig := cf.Type().(*types.Signature)
			z, ok := c.g.zero(esig.Results().At(0).Type())
			if !ok {
				c.fail(call, "zero value of the extern result")
			}
			t := c.fresh("t")
			if c.errData {
				c.emit("let %s ← Go.catchErr (%s %s) %s", t, ext.param, strings.Join(args, " "), z)
				return []string{t + ".1", t + ".2"}
			}
			c.emit("let %s ← %s %s", t, ext.param, strings.Join(args, " "))
			return []string{t}
		}
		if n != 1 {
			c.fail(call, "extern arity")
		}
		return []string{fmt.Sprintf("(%s %s)", ext.param, strings.Join(args, " "))}
	}
	callee := c.g.funcs[cf]
	if callee == nil {
		c.fail(call, "call of %s (not in the translated set)", qn)
	}
	sig := cf.Type().(*types.Signature)
	var parts []string
	parts = append(parts, callee.spec.lean)
	var exts []string
	for e := range callee.externs {
		exts = append(exts, e)
	}
	sort.Strings(exts)
	for _, e := range exts {
		parts = append(parts, glExterns[e].param)
	}
	if callee.needsFuel {
		parts = append(parts, c.fuelName)
	}
	var recvExpr ast.Expr
	if sig.Recv() != nil {
		se, ok := ast.Unparen(call.Fun).(*ast.SelectorExpr)
		if !ok {
			c.fail(call, "method expression")
		}
		recvExpr = se.X
		// receiver reached through embedded fields
		sel := c.p.TypesInfo.Selections[se]
		r := c.expr(se.X)
		if sel != nil && len(sel.Index()) > 1 {
			path := c.embedPath(se, sel)
			r = "(" + r + "." + strings.Join(path, ".") + ")"
			if callee.mutRecv {
				c.fail(call, "mutating method through an embedded field")
			}
		}
		parts = append(parts, r)
	}
	if sig.Variadic() {
		c.fail(call, "variadic call")
	}
	for i, a := range call.Args {
		parts = append(parts, c.exprAs(a, sig.Params().At(i).Type()))
	}
	nres := resultCount(sig)
	calleeErrData := glErrData[callee.spec.lean]
	sigHasErr := sig.Results().Len() > 0 && isErrorType(sig.Results().At(sig.Results().Len()-1).Type())
	liftErr, catchErr := false, false
	if calleeErrData {
		// the callee returns its error as data
		nres = sig.Results().Len()
		if !c.errData && sigHasErr {
			liftErr = true // monadic caller: a non-nil error value is thrown
		}
	} else if c.errData && sigHasErr {
		catchErr = true // errors-as-data caller of a monadic callee: its Go error comes back as a value
	}
	extra := 0
	if callee.mutRecv {
		extra++
	}
	var mutIdx []int
	for i := 0; i < sig.Params().Len(); i++ {
		if callee.mutParams[i] {
			mutIdx = append(mutIdx, i)
		}
	}
	extra += len(mutIdx)
	if catchErr {
		// (results…, written-through receiver/arguments…, error): a Go error of the callee becomes `Go.Error.other tag` next
		// to zero results; a receiver / argument the callee writes through keeps its CURRENT value in that case (what Go
		// leaves in it after a failed call is not modelled)
		var zs []string
		for i := 0; i < nres; i++ {
			z, ok := c.g.zero(sig.Results().At(i).Type())
			if !ok {
				c.fail(call, "zero value of %s", sig.Results().At(i).Type())
			}
			zs = append(zs, z)
		}
		if callee.mutRecv {
			zs = append(zs, c.expr(recvExpr))
		}
		for _, i := range mutIdx {
			zs = append(zs, c.expr(call.Args[i]))
		}
		t := c.fresh("t")
		c.emit("let %s ← Go.catchErr (%s) %s", t, strings.Join(parts, " "), tupleTerm(zs))
		var all []string
		if len(zs) == 0 {
			all = nil
		} else {
			all = tupleProj(t+".1", len(zs))
		}
		k := nres
		if callee.mutRecv {
			c.store(recvExpr, all[k])
			k++
		}
		for _, i := range mutIdx {
			c.store(call.Args[i], all[k])
			k++
		}
		vals := append(append([]string{}, all[:nres]...), t+".2")
		if n >= 0 && n != nres+1 && n != 0 {
			c.fail(call, "call result arity: have %d want %d", nres+1, n)
		}
		return vals
	}
	vals := c.bindCall(strings.Join(parts, " "), nres+extra, -1, call)
	if liftErr {
		// drop the error value (position nres-1) after throwing it when it is not nil
		errTerm := vals[nres-1]
		c.emit("if (%s != Go.Error.nil) then", errTerm)
		c.emit("  throw (Err.err (Go.Error.tag %s))", errTerm)
		vals = append(append([]string{}, vals[:nres-1]...), vals[nres:]...)
		nres--
	}
	// write back
	k := nres
	if callee.mutRecv {
		c.store(recvExpr, vals[k])
		k++
	}
	for _, i := range mutIdx {
		c.store(call.Args[i], vals[k])
		k++
	}
	if n >= 0 && n != nres && !(n == 0) {
		c.fail(call, "call result arity: have %d want %d", nres, n)
	}
	return vals[:nres]
}

func (c *glCtx) embedPath(se *ast.SelectorExpr, sel *types.Selection) []string {
	var path []string
	t := sel.Recv()
	idx := sel.Index()
	for _, i := range idx[:len(idx)-1] {
		if pt, ok := t.Underlying().(*types.Pointer); ok {
			t = pt.Elem()
		}
		st := t.Underlying().(*types.Struct)
		f := st.Field(i)
		path = append(path, leanIdent(f.Name()))
		t = f.Type()
	}
	return path
}

func resultCount(sig *types.Signature) int {
	n := sig.Results().Len()
	if n > 0 && isErrorType(sig.Results().At(n-1).Type()) {
		n--
	}
	return n
}

// bindCall emits `let t ← call` and splits the result tuple into have terms; want = -1: any
func (c *glCtx) bindCall(callTerm string, have, want int, n ast.Node) []string {
	if want >= 0 && want != have && want != 0 {
		c.fail(n, "call result arity: have %d want %d", have, want)
	}
	switch have {
	case 0:
		c.emit("let _ ← %s", callTerm)
		return nil
	case 1:
		t := c.fresh("t")
		c.emit("let %s ← %s", t, callTerm)
		return []string{t}
	}
	t := c.fresh("t")
	c.emit("let %s ← %s", t, callTerm)
	return tupleProj(t, have)
}

func tupleProj(t string, n int) []string {
	// (a, b, c) = (a, (b, c)): .1, .2.1, .2.2
	var out []string
	pre := t
	for i := 0; i < n; i++ {
		if i == n-1 {
			out = append(out, pre)
		} else {
			out = append(out, pre+".1")
			pre = pre + ".2"
		}
	}
	if n == 1 {
		return []string{t}
	}
	return out
}

func (c *glCtx) callStmt(call *ast.CallExpr) { c.callMulti(call, 0) }

func (c *glCtx) builtin(name string, call *ast.CallExpr, n int) []string {
	switch name {
	case "len":
		t := c.typeOf(call.Args[0])
		switch t.Underlying().(type) {
		case *types.Slice, *types.Array, *types.Pointer:
			return []string{fmt.Sprintf("(Go.len %s)", c.expr(call.Args[0]))}
		}
		c.fail(call, "len of %s", t)
	case "cap":
		c.fail(call, "cap")
	case "new":
		// new(T) for a struct / array T: pointers to structs are the struct value (no aliasing in the subset)
		pt, ok := c.typeOf(call).Underlying().(*types.Pointer)
		if !ok {
			c.fail(call, "new of %s", c.typeOf(call))
		}
		switch pt.Elem().Underlying().(type) {
		case *types.Struct, *types.Array:
		default:
			c.fail(call, "new of %s", pt.Elem())
		}
		z, ok := c.g.zero(pt.Elem())
		if !ok {
			c.fail(call, "new of %s", pt.Elem())
		}
		return []string{z}
	case "make":
		t := c.typeOf(call)
		sl, ok := t.Underlying().(*types.Slice)
		if !ok {
			c.fail(call, "make of %s", t)
		}
		z, ok := c.g.zero(sl.Elem())
		if !ok {
			c.fail(call, "make of %s", t)
		}
		if len(call.Args) == 3 {
			// make([]T, 0, cap): only the empty length is supported (capacity is not observable in the subset)
			if tv := c.p.TypesInfo.Types[call.Args[1]]; tv.Value == nil || constant.Sign(constant.ToInt(tv.Value)) != 0 {
				c.fail(call, "make with length and capacity")
			}
			return []string{fmt.Sprintf("([] : %s)", c.lt(t, call))}
		}
		tt := c.fresh("t")
		c.emit("let %s ← Go.makeOf %s %s", tt, z, c.intExpr(call.Args[1]))
		return []string{tt}
	case "append":
		base := c.exprAs(call.Args[0], c.typeOf(call))
		if call.Ellipsis != token.NoPos {
			if len(call.Args) != 2 {
				c.fail(call, "append arity")
			}
			return []string{fmt.Sprintf("(%s ++ %s)", base, c.expr(call.Args[1]))}
		}
		el := c.typeOf(call).Underlying().(*types.Slice).Elem()
		var xs []string
		for _, a := range call.Args[1:] {
			xs = append(xs, c.exprAs(a, el))
		}
		return []string{fmt.Sprintf("(%s ++ [%s])", base, strings.Join(xs, ", "))}
	case "copy":
		dst := c.expr(call.Args[0])
		src := c.expr(call.Args[1])
		t := c.fresh("t")
		c.emit("let %s := Go.copy %s %s", t, dst, src)
		c.store(call.Args[0], t+".1")
		return []string{t + ".2"}
	case "min", "max":
		if len(call.Args) != 2 {
			c.fail(call, "%s arity", name)
		}
		t := c.typeOf(call)
		a, b := c.exprAs(call.Args[0], t), c.exprAs(call.Args[1], t)
		if name == "min" {
			return []string{fmt.Sprintf("(if %s ≤ %s then %s else %s)", a, b, a, b)}
		}
		return []string{fmt.Sprintf("(if %s ≥ %s then %s else %s)", a, b, a, b)}
	}
	c.fail(call, "builtin %s", name)
	return nil
}

// stdlib: the few library functions with a fixed meaning in GoSem
func (c *glCtx) stdlib(qn string, call *ast.CallExpr, n int) ([]string, bool) {
	switch qn {
	case "encoding/binary.littleEndian.Uint16", "encoding/binary.littleEndian.Uint32", "encoding/binary.littleEndian.Uint64":
		w := strings.TrimPrefix(qn, "encoding/binary.littleEndian.Uint")
		t := c.fresh("t")
		c.emit("let %s ← Go.leU%s %s", t, w, c.expr(call.Args[0]))
		return []string{t}, true
	case "encoding/binary.littleEndian.PutUint16", "encoding/binary.littleEndian.PutUint32", "encoding/binary.littleEndian.PutUint64":
		w := strings.TrimPrefix(qn, "encoding/binary.littleEndian.PutUint")
		dst := c.expr(call.Args[0])
		v := c.exprAs(call.Args[1], cfParam(c, call, 1))
		t := c.fresh("t")
		c.emit("let %s ← Go.putLeU%s %s %s", t, w, dst, v)
		c.store(call.Args[0], t)
		return nil, true
	case "encoding/binary.AppendUvarint":
		return []string{fmt.Sprintf("(%s ++ Go.putUvarint %s)", c.exprAs(call.Args[0], c.typeOf(call)), c.exprAs(call.Args[1], types.Typ[types.Uint64]))}, true
	case "encoding/binary.Uvarint":
		t := c.fresh("t")
		c.emit("let %s := Go.uvarint %s", t, c.expr(call.Args[0]))
		return []string{t + ".1", t + ".2"}, true
	case "io.ReaderAt.ReadAt", "io.SectionReader.ReadAt", "os.File.ReadAt":
		// an io.ReaderAt is a function (len, off) ↦ (bytes read, error); the bytes land at the front of the buffer
		if !c.errData {
			c.fail(call, "io.ReaderAt.ReadAt outside an errors-as-data function")
		}
		se := ast.Unparen(call.Fun).(*ast.SelectorExpr)
		rd := c.expr(se.X)
		buf := c.expr(call.Args[0])
		off := c.exprAs(call.Args[1], types.Typ[types.Int64])
		t := c.fresh("t")
		c.emit("let %s := %s (Go.len %s) %s", t, rd, buf, off)
		c.store(call.Args[0], fmt.Sprintf("(%s.1 ++ (%s).drop %s.1.length)", t, buf, t))
		return []string{fmt.Sprintf("(Go.len %s.1)", t), t + ".2"}, true
	case "errors.New", "fmt.Errorf":
		if !c.errData {
			return nil, false
		}
		tag := "error"
		if tv := c.p.TypesInfo.Types[call.Args[0]]; tv.Value != nil && tv.Value.Kind() == constant.String {
			tag = constant.StringVal(tv.Value)
		}
		if qn == "fmt.Errorf" && strings.Contains(tag, "%w") {
			// exactly one %w operand: errors.Is sees through the wrapper, so the class of the wrapped error is kept
			var wrapped []string
			for _, a := range call.Args[1:] {
				if isErrorType(c.typeOf(a)) {
					wrapped = append(wrapped, c.expr(a))
				}
			}
			if len(wrapped) != 1 || strings.Count(tag, "%w") != 1 {
				c.fail(call, "fmt.Errorf with %%w: expected exactly one error operand")
			}
			return []string{fmt.Sprintf("(Go.Error.wrap %q %s)", tag, wrapped[0])}, true
		}
		return []string{fmt.Sprintf("(Go.Error.other %q)", tag)}, true
	case "errors.Is":
		if !c.errData {
			return nil, false
		}
		return []string{fmt.Sprintf("(Go.Error.is %s %s)", c.expr(call.Args[0]), c.expr(call.Args[1]))}, true
	case "github.com/gagliardetto/binary.Decoder.Read":
		// (*Decoder).Read(buf): exactly len(buf) bytes or an error and no progress (gagliardetto/binary v0.8.0 decoder.go)
		se := ast.Unparen(call.Fun).(*ast.SelectorExpr)
		rd := c.expr(se.X)
		buf := c.expr(call.Args[0])
		t := c.fresh("t")
		if c.errData {
			c.emit("let %s ← Go.catchErr (Go.readFull %s (Go.len %s)) (%s, %s)", t, rd, buf, rd, buf)
			c.store(se.X, t+".1.1")
			c.store(call.Args[0], t+".1.2")
			return []string{fmt.Sprintf("(Go.len %s)", buf), t + ".2"}, true
		}
		c.emit("let %s ← Go.readFull %s (Go.len %s)", t, rd, buf)
		c.store(se.X, t+".1")
		c.store(call.Args[0], t+".2")
		return []string{fmt.Sprintf("(Go.len %s)", buf)}, true
	case "github.com/gagliardetto/binary.Decoder.ReadUint64":
		// (*Decoder).ReadUint64(bin.LE): eight bytes little-endian or an error (only called with binary.LittleEndian here)
		if se2, ok := ast.Unparen(call.Args[0]).(*ast.SelectorExpr); !ok || se2.Sel.Name != "LE" {
			c.fail(call, "ReadUint64 with a byte order other than bin.LE")
		}
		se := ast.Unparen(call.Fun).(*ast.SelectorExpr)
		rd := c.expr(se.X)
		t := c.fresh("t")
		if c.errData {
			c.emit("let %s ← Go.catchErr (Go.readU64LE %s) (%s, (0 : UInt64))", t, rd, rd)
			c.store(se.X, t+".1.1")
			return []string{t + ".1.2", t + ".2"}, true
		}
		c.emit("let %s ← Go.readU64LE %s", t, rd)
		c.store(se.X, t+".1")
		return []string{t + ".2"}, true
	case "io.NewSectionReader":
		return []string{fmt.Sprintf("(Go.sectionReader %s %s %s)", c.expr(call.Args[0]), c.exprAs(call.Args[1], types.Typ[types.Int64]), c.exprAs(call.Args[2], types.Typ[types.Int64]))}, true
	case "bytes.NewReader":
		return []string{fmt.Sprintf("(Go.BytesReader.mk %s 0)", c.expr(call.Args[0]))}, true
	case "bytes.Reader.Len":
		se := ast.Unparen(call.Fun).(*ast.SelectorExpr)
		return []string{fmt.Sprintf("(Go.BytesReader.remaining %s)", c.expr(se.X))}, true
	case "io.ByteReader.ReadByte":
		se := ast.Unparen(call.Fun).(*ast.SelectorExpr)
		if !isByteDecoder(c.typeOf(se.X)) && !isNamed(c.typeOf(se.X), "bytes", "Reader") {
			c.fail(call, "ReadByte on %s", c.typeOf(se.X))
		}
		t := c.fresh("t")
		c.emit("let %s ← Go.readByte %s", t, c.expr(se.X))
		c.store(se.X, t+".1")
		return []string{t + ".2"}, true
	case "github.com/gagliardetto/binary.NewBorshDecoder":
		return []string{fmt.Sprintf("(Go.BytesReader.mk %s 0)", c.expr(call.Args[0]))}, true
	case "bytes.Buffer.WriteByte":
		se := ast.Unparen(call.Fun).(*ast.SelectorExpr)
		c.store(se.X, fmt.Sprintf("(%s ++ [%s])", c.expr(se.X), c.exprAs(call.Args[0], types.Typ[types.Uint8])))
		return nil, true
	case "io.ReadFull":
		if !isNamed(c.typeOf(call.Args[0]), "bytes", "Reader") && !isByteDecoder(c.typeOf(call.Args[0])) {
			c.fail(call, "io.ReadFull on %s", c.typeOf(call.Args[0]))
		}
		rd := c.expr(call.Args[0])
		buf := c.expr(call.Args[1])
		t := c.fresh("t")
		c.emit("let %s ← Go.readFull %s (Go.len %s)", t, rd, buf)
		c.store(call.Args[0], t+".1")
		c.store(call.Args[1], t+".2")
		return []string{fmt.Sprintf("(Go.len %s)", buf)}, true
	case "bytes.NewBuffer":
		if id, ok := ast.Unparen(call.Args[0]).(*ast.Ident); ok && id.Name == "nil" {
			return []string{"([] : List UInt8)"}, true
		}
		return []string{c.expr(call.Args[0])}, true
	case "bytes.Buffer.Grow":
		return nil, true
	case "bytes.Buffer.Bytes":
		se := ast.Unparen(call.Fun).(*ast.SelectorExpr)
		return []string{c.expr(se.X)}, true
	case "bytes.Buffer.Write":
		se := ast.Unparen(call.Fun).(*ast.SelectorExpr)
		w := c.expr(se.X)
		b := c.expr(call.Args[0])
		c.store(se.X, fmt.Sprintf("(%s ++ %s)", w, b))
		return []string{fmt.Sprintf("(Go.len %s)", b)}, true
	case "slices.Clip", "bytes.Clone", "slices.Clone":
		return []string{c.expr(call.Args[0])}, true
	case "bytes.Equal":
		return []string{fmt.Sprintf("(%s == %s)", c.expr(call.Args[0]), c.expr(call.Args[1]))}, true
	}
	return nil, false
}

func cfParam(c *glCtx, call *ast.CallExpr, i int) types.Type {
	cf := calleeOf(c.p, call)
	return cf.Type().(*types.Signature).Params().At(i).Type()
}

func isNamed(t types.Type, pkg, name string) bool {
	if p, ok := t.(*types.Pointer); ok {
		t = p.Elem()
	}
	n, ok := t.(*types.Named)
	return ok && n.Obj().Pkg() != nil && n.Obj().Pkg().Path() == pkg && n.Obj().Name() == name
}

// pkgVarWritten: a package-level variable is translated as its initialiser only if no loaded package assigns to it (or to
// an element of it), increments it or takes its address.  (Slicing it, `v[:]`, is allowed: the callers found in the
// tree pass such slices to writers that only read them — recorded as an assumption in DESIGN.md.)
var pkgVarWrittenCache = map[*types.Var]string{}

func pkgVarWritten(v *types.Var) string {
	if w, ok := pkgVarWrittenCache[v]; ok {
		return w
	}
	where := ""
	for _, p := range pkgs {
		for _, f := range p.Syntax {
			ast.Inspect(f, func(n ast.Node) bool {
				if where != "" {
					return false
				}
				root := func(e ast.Expr) types.Object {
					for {
						switch x := e.(type) {
						case *ast.ParenExpr:
							e = x.X
						case *ast.IndexExpr:
							e = x.X
						case *ast.StarExpr:
							e = x.X
						case *ast.Ident:
							return p.TypesInfo.Uses[x]
						case *ast.SelectorExpr:
							return p.TypesInfo.Uses[x.Sel]
						default:
							return nil
						}
					}
				}
				switch x := n.(type) {
				case *ast.AssignStmt:
					for _, l := range x.Lhs {
						if root(l) == types.Object(v) {
							where = p.Fset.Position(x.Pos()).String()
						}
					}
				case *ast.IncDecStmt:
					if root(x.X) == types.Object(v) {
						where = p.Fset.Position(x.Pos()).String()
					}
				case *ast.UnaryExpr:
					if x.Op == token.AND && root(x.X) == types.Object(v) {
						where = p.Fset.Position(x.Pos()).String()
					}
				}
				return true
			})
		}
	}
	pkgVarWrittenCache[v] = where
	return where
}

// funcLit: a function literal becomes a let-bound lambda in the monad (`let f : τ := fun a b => do …`).  Captured
// variables are read, never written (a write is an EXTRACT-FAIL); the literal's own errors travel through the monad.
func (c *glCtx) funcLit(x *ast.FuncLit) string {
	sig := c.typeOf(x).(*types.Signature)
	for o := range assignedObjs(c.p, x.Body) {
		if lt, ok := c.g.leanTypeOK(o.Type()); ok && lt == "Go.ReaderAt" {
			continue // a reader is a function value in the model: reading through it does not change it
		}
		if c.declared[o] {
			c.fail(x, "function literal writes the captured variable %s", o.Name())
		}
	}
	c2 := &glCtx{g: c.g, f: c.f, p: c.p, names: c.names, used: c.used, declared: c.declared, fuelName: c.fuelName, loopCtr: c.loopCtr,
		errData: false, sig: sig, indent: c.indent + 2, tmp: c.tmp + 1000}
	var ps []string
	for i := 0; i < sig.Params().Len(); i++ {
		pv := sig.Params().At(i)
		c2.declared[pv] = true
		ps = append(ps, fmt.Sprintf("(%s : %s)", c2.nameOf(pv), c.lt(pv.Type(), x)))
	}
	var rts []string
	for i := 0; i < sig.Results().Len(); i++ {
		rv := sig.Results().At(i)
		c2.results = append(c2.results, rv)
		if c2.monErr(rv.Type()) && i == sig.Results().Len()-1 {
			continue
		}
		rts = append(rts, c.lt(rv.Type(), x))
	}
	c2.retType = tupleType(rts)
	c2.retWrap = func(s string) string { return s }
	ast.Inspect(x.Body, func(n ast.Node) bool {
		switch n.(type) {
		case *ast.ForStmt, *ast.RangeStmt:
			c.fail(x, "loop inside a function literal")
		}
		return true
	})
	if !c2.block(x.Body.List) {
		c2.emitReturn(nil, x)
	}
	name := c.fresh("fn")
	c.emit("let %s : %s := fun %s => do", name, c.lt(sig, x), strings.Join(ps, " "))
	c.lines = append(c.lines, c2.lines...)
	c.tmp = c2.tmp
	return name
}

// methodValue: `recv.method` used as a function value (e.g. passed as a getter) becomes a let-bound lambda in the monad
// that calls the translated method on the receiver as it is NOW (Go binds the receiver when the method value is taken;
// the subset has no later writes through it: a method that writes its receiver is an EXTRACT-FAIL here).
func (c *glCtx) methodValue(x *ast.SelectorExpr, sel *types.Selection) string {
	fn, ok := sel.Obj().(*types.Func)
	if !ok {
		c.fail(x, "method value")
	}
	callee := c.g.funcs[fn.Origin()]
	if callee == nil {
		c.fail(x, "method value of %s (not in the translated set)", qualName(fn))
	}
	if callee.mutRecv || len(callee.mutParams) > 0 {
		for _, m := range callee.mutParams {
			if m {
				c.fail(x, "method value of a method that writes through its arguments")
			}
		}
		if callee.mutRecv {
			c.fail(x, "method value of a method that writes its receiver")
		}
	}
	if len(sel.Index()) > 1 {
		c.fail(x, "method value through an embedded field")
	}
	sig := fn.Type().(*types.Signature)
	recv := c.expr(x.X)
	parts := []string{callee.spec.lean}
	var exts []string
	for e := range callee.externs {
		exts = append(exts, e)
	}
	sort.Strings(exts)
	for _, e := range exts {
		parts = append(parts, glExterns[e].param)
	}
	if callee.needsFuel {
		parts = append(parts, c.fuelName)
	}
	parts = append(parts, recv)
	var ps []string
	for i := 0; i < sig.Params().Len(); i++ {
		a := fmt.Sprintf("a%d", i+1)
		ps = append(ps, fmt.Sprintf("(%s : %s)", a, c.lt(sig.Params().At(i).Type(), x)))
		parts = append(parts, a)
	}
	// the function type of the value: errors travel through the monad
	ft := types.NewSignatureType(nil, nil, nil, sig.Params(), sig.Results(), sig.Variadic())
	name := c.fresh("fn")
	c.emit("let %s : %s := fun %s => do", name, c.lt(ft, x), strings.Join(ps, " "))
	nres := resultCount(sig)
	sigHasErr := sig.Results().Len() > 0 && isErrorType(sig.Results().At(sig.Results().Len()-1).Type())
	if glErrData[callee.spec.lean] && sigHasErr {
		c.emit("    let t ← %s", strings.Join(parts, " "))
		all := tupleProj("t", nres+1)
		c.emit("    if (%s != Go.Error.nil) then", all[nres])
		c.emit("      throw (Err.err (Go.Error.tag %s))", all[nres])
		c.emit("    return %s", tupleTerm(all[:nres]))
	} else {
		c.emit("    let t ← %s", strings.Join(parts, " "))
		c.emit("    return t")
	}
	return name
}

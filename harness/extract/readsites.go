package main

// C13 (also read by C12): what happens to (n, err) at every ReadAt / io.ReadFull / Read / ReadByte call in the
// reader files.  Emits Faithful/Generated/ReadSites.lean.
//
// The truncation theorems (Faithful/Lib/Trunc.lean) hold for readers in which a short read is an error.  Whether
// the Go readers are of that shape is a syntactic property of their call sites, re-extracted on every run:
//
//	propagated       the call's error is returned to the caller (err != nil => return ..., err), or the call is
//	                 itself the operand of a return statement; only for calls that deliver all bytes or an error
//	                 (ReadAt, io.ReadFull, ReadByte, encoding/binary.Read, gagliardetto/binary.Decoder.Read)
//	comparedWithLen  n < len(buf) / n != len(buf) / uint64(n) != size leads to a return
//	eofTolerated     the code that follows mentions io.EOF / io.ErrUnexpectedEOF (EOF is not treated as a failure)
//	ignored          the error result is discarded
//	nDropped         a plain io.Reader.Read (which may legally deliver fewer bytes without an error) whose byte
//	                 count is discarded: the error is propagated, a short read is not noticed
//	unknown          anything else (makes the Lean `decide` fail)
//
// Sites that are deliberately EOF tolerant and do not lie on an open/lookup path are listed in readSiteOffPath,
// each with the reason; everything else in the listed files is on a lookup path.

import (
	"fmt"
	"go/ast"
	"go/printer"
	"go/token"
	"go/types"
	"path/filepath"
	"sort"
	"strings"

	"golang.org/x/tools/go/packages"
)

// the anchored reader files (package dir relative to the module root, file name)
var readSiteFiles = [][2]string{
	{"compactindexsized", "query.go"},
	{"bucketteer", "read.go"},
	{".", "epoch.go"},
	{".", "storage.go"},
	{"gsfa", "gsfa-read.go"},
	{"gsfa/linkedlog", "linked-log.go"},
	{"gsfa/manifest", "manifest.go"},
	{"blocktimeindex", "writer.go"},
	{"indexmeta", "indexmeta.go"},
	{"indexes", "deprecated.go"},
}

// function -> (text the call must start with, reason).  A site is off the lookup path only if both match.
var readSiteOffPath = map[string][2]string{
	// GetBucket reads the bucket header through BucketHeader.readFrom (checked: n < len => error) and the entries
	// one by one through Bucket.loadEntry (checked: n != len => error).  The one ReadAt in GetBucket itself is the
	// prefetch that warms a remote cache: its bytes are thrown away, so tolerating EOF there cannot change an answer.
	"compactindexsized.DB.GetBucket": {"bucket.Entries.ReadAt(buf, 0)", "prefetch; bytes discarded"},
	// Bucket.Load is the bulk loader (tooling, verification commands); DB.Lookup never calls it.
	"compactindexsized.Bucket.Load": {"b.Entries.ReadAt(buf, off)", "bulk loader, not used by Lookup"},
	// isReaderEmpty turns EOF into the verdict `empty`, which NewReader reports as an error ("reader is empty").
	"bucketteer.isReaderEmpty": {"reader.ReadAt(buf, 0)", "EOF => empty => NewReader fails"},
	// Manifest.readAllContent feeds ReadAll, which only the writer uses when it resumes; no reader consults it.
	"manifest.Manifest.readAllContent": {"io.ReadFull(sectionReader, buf)", "writer resume only"},
}

type readSite struct {
	file, fn, call, cls string
	line               int
	onPath             bool
}

func rs_exprText(fset *token.FileSet, e ast.Node) string {
	var b strings.Builder
	printer.Fprint(&b, fset, e)
	s := strings.Join(strings.Fields(b.String()), " ")
	if len(s) > 90 {
		s = s[:90] + "…"
	}
	return s
}

// readCallKind: "" = not a read call; "exact" = all bytes or an error; "plain" = io.Reader.Read semantics
func readCallKind(p *packages.Package, call *ast.CallExpr) string {
	sel, ok := call.Fun.(*ast.SelectorExpr)
	if !ok {
		return ""
	}
	name := sel.Sel.Name
	if name != "ReadAt" && name != "ReadFull" && name != "Read" && name != "ReadByte" {
		return ""
	}
	obj, _ := p.TypesInfo.Uses[sel.Sel].(*types.Func)
	if obj == nil {
		return "plain" // cannot resolve: treated as the weakest contract
	}
	sig := obj.Type().(*types.Signature)
	pkgPath := ""
	if obj.Pkg() != nil {
		pkgPath = obj.Pkg().Path()
	}
	if strings.HasSuffix(pkgPath, "rand") {
		return "" // crypto/rand.Read, math/rand.Read: not file reads
	}
	// the last result must be an error, otherwise this is not an I/O read (e.g. a method that happens to be called Read)
	res := sig.Results()
	if res.Len() == 0 || res.At(res.Len()-1).Type().String() != "error" {
		return ""
	}
	switch name {
	case "ReadAt", "ReadByte":
		return "exact"
	case "ReadFull":
		if pkgPath == "io" {
			return "exact"
		}
		return "plain"
	default: // Read
		if sig.Recv() == nil && pkgPath == "encoding/binary" {
			return "exact"
		}
		if sig.Recv() != nil && strings.HasSuffix(sig.Recv().Type().String(), "github.com/gagliardetto/binary.Decoder") {
			return "exact"
		}
		if res.Len() != 2 {
			return "" // e.g. LinkedLog.Read(offset) ([]…, …, error): not an io read
		}
		return "plain"
	}
}

func rs_mentionsEOF(n ast.Node) bool {
	found := false
	ast.Inspect(n, func(x ast.Node) bool {
		if s, ok := x.(*ast.SelectorExpr); ok {
			if id, ok := s.X.(*ast.Ident); ok && id.Name == "io" && (s.Sel.Name == "EOF" || s.Sel.Name == "ErrUnexpectedEOF") {
				found = true
			}
		}
		return !found
	})
	return found
}

func rs_mentionsIdent(n ast.Node, name string) bool {
	if name == "" || name == "_" {
		return false
	}
	found := false
	ast.Inspect(n, func(x ast.Node) bool {
		if id, ok := x.(*ast.Ident); ok && id.Name == name {
			found = true
		}
		return !found
	})
	return found
}

// rs_endsInErrorReturn: the block's last statement returns and its last result is not the literal nil
func rs_endsInErrorReturn(b *ast.BlockStmt) bool {
	if b == nil || len(b.List) == 0 {
		return false
	}
	r, ok := b.List[len(b.List)-1].(*ast.ReturnStmt)
	if !ok || len(r.Results) == 0 {
		return false
	}
	if id, ok := r.Results[len(r.Results)-1].(*ast.Ident); ok && id.Name == "nil" {
		return false
	}
	return true
}

func rs_isErrNotNil(e ast.Expr, errName string) bool {
	b, ok := e.(*ast.BinaryExpr)
	if !ok || b.Op != token.NEQ {
		return false
	}
	x, ok1 := b.X.(*ast.Ident)
	y, ok2 := b.Y.(*ast.Ident)
	return ok1 && ok2 && x.Name == errName && y.Name == "nil"
}

// rs_isLenCompare: `n < len(..)`, `n != len(..)`, `uint64(n) != size`, `n != size` with n the byte count
func rs_isLenCompare(e ast.Expr, nName string) bool {
	b, ok := e.(*ast.BinaryExpr)
	if !ok || (b.Op != token.LSS && b.Op != token.NEQ) {
		return false
	}
	return rs_mentionsIdent(b.X, nName) && !rs_mentionsIdent(b.Y, nName)
}

// rs_classifyIf looks at one if statement that follows the read
func rs_classifyIf(ifs *ast.IfStmt, nName, errName, kind string) string {
	if rs_mentionsEOF(ifs) {
		return "eofTolerated"
	}
	if nName != "_" && rs_isLenCompare(ifs.Cond, nName) && rs_endsInErrorReturn(ifs.Body) {
		return "comparedWithLen"
	}
	if errName != "_" && rs_isErrNotNil(ifs.Cond, errName) && rs_endsInErrorReturn(ifs.Body) {
		if kind == "plain" {
			return "nDropped"
		}
		return "propagated"
	}
	return ""
}

func classifyReadSite(kind string, parents []ast.Node, call *ast.CallExpr) string {
	// parents: innermost last; parents[len-1] is the node whose child is `call`
	if len(parents) == 0 {
		return "unknown"
	}
	switch st := parents[len(parents)-1].(type) {
	case *ast.ReturnStmt:
		if kind == "plain" {
			return "unknown"
		}
		return "propagated"
	case *ast.ExprStmt:
		return "ignored"
	case *ast.AssignStmt:
		if len(st.Rhs) != 1 || st.Rhs[0] != call {
			return "unknown"
		}
		nName, errName := "_", "_"
		if id, ok := st.Lhs[len(st.Lhs)-1].(*ast.Ident); ok {
			errName = id.Name
		} else {
			return "unknown"
		}
		if len(st.Lhs) == 2 {
			if id, ok := st.Lhs[0].(*ast.Ident); ok {
				nName = id.Name
			} else {
				return "unknown"
			}
		}
		if errName == "_" && nName == "_" {
			return "ignored"
		}
		if len(parents) < 2 {
			return "unknown"
		}
		// the statements that can see the result: the enclosing if (when the read is its init), else the
		// statements after the assignment in the same block, up to the first if that mentions n or err
		switch outer := parents[len(parents)-2].(type) {
		case *ast.IfStmt:
			if outer.Init == st {
				if c := rs_classifyIf(outer, nName, errName, kind); c != "" {
					return c
				}
				return "unknown"
			}
		case *ast.BlockStmt:
			after := false
			for _, s := range outer.List {
				if s == ast.Stmt(st) {
					after = true
					continue
				}
				if !after {
					continue
				}
				ifs, ok := s.(*ast.IfStmt)
				if !ok {
					// a re-assignment of err before any check loses the result
					if as, ok := s.(*ast.AssignStmt); ok {
						for _, l := range as.Lhs {
							if id, ok := l.(*ast.Ident); ok && id.Name == errName && errName != "_" {
								return "ignored"
							}
						}
					}
					continue
				}
				if !rs_mentionsIdent(ifs.Cond, nName) && !rs_mentionsIdent(ifs.Cond, errName) && !(ifs.Init != nil) {
					continue
				}
				if !rs_mentionsIdent(ifs, nName) && !rs_mentionsIdent(ifs, errName) {
					continue
				}
				if c := rs_classifyIf(ifs, nName, errName, kind); c != "" {
					if c == "comparedWithLen" || c == "eofTolerated" || errName == "_" {
						return c
					}
					return c
				}
				return "unknown"
			}
			if errName == "_" {
				return "ignored"
			}
			return "unknown"
		}
	}
	return "unknown"
}

// rs_bufferUsedAfter: is the first argument of the read (an identifier) referred to after the call in fd?
// Anything that is not a plain identifier counts as used (conservative).
func rs_bufferUsedAfter(p *packages.Package, fd *ast.FuncDecl, call *ast.CallExpr) bool {
	if len(call.Args) == 0 {
		return true
	}
	id, ok := call.Args[0].(*ast.Ident)
	if !ok {
		return true
	}
	obj := p.TypesInfo.Uses[id]
	if obj == nil {
		return true
	}
	used := false
	ast.Inspect(fd.Body, func(n ast.Node) bool {
		if x, ok := n.(*ast.Ident); ok && x.Pos() > call.End() && p.TypesInfo.Uses[x] == obj {
			used = true
		}
		return !used
	})
	return used
}

func rs_funcDisplayName(pkgName string, fd *ast.FuncDecl) string {
	if fd.Recv != nil && len(fd.Recv.List) == 1 {
		t := fd.Recv.List[0].Type
		if s, ok := t.(*ast.StarExpr); ok {
			t = s.X
		}
		if id, ok := t.(*ast.Ident); ok {
			return pkgName + "." + id.Name + "." + fd.Name.Name
		}
	}
	return pkgName + "." + fd.Name.Name
}

func rs_leanStr(s string) string {
	s = strings.ReplaceAll(s, "\\", "\\\\")
	s = strings.ReplaceAll(s, "\"", "\\\"")
	return "\"" + s + "\""
}

func rs_leanBytes(bs []byte) string {
	parts := make([]string, len(bs))
	for i, x := range bs {
		parts[i] = fmt.Sprint(x)
	}
	return "[" + strings.Join(parts, ", ") + "]"
}

func init() { generators = append(generators, genReadSites) }

func genReadSites() {
	var sites []readSite
	for _, ff := range readSiteFiles {
		p := pkg(ff[0])
		var file *ast.File
		for _, f := range p.Syntax {
			if filepath.Base(p.Fset.Position(f.Pos()).Filename) == ff[1] {
				file = f
			}
		}
		if file == nil {
			fails = append(fails, "readsites: file not found "+ff[0]+"/"+ff[1])
			continue
		}
		rel := ff[1]
		if ff[0] != "." {
			rel = ff[0] + "/" + ff[1]
		}
		for _, d := range file.Decls {
			fd, ok := d.(*ast.FuncDecl)
			if !ok || fd.Body == nil {
				continue
			}
			fn := rs_funcDisplayName(p.Name, fd)
			var stack []ast.Node
			ast.Inspect(fd.Body, func(n ast.Node) bool {
				if n == nil {
					stack = stack[:len(stack)-1]
					return true
				}
				if call, ok := n.(*ast.CallExpr); ok {
					if kind := readCallKind(p, call); kind != "" {
						cls := classifyReadSite(kind, stack, call)
						text := rs_exprText(p.Fset, call)
						on := true
						if ex, ok := readSiteOffPath[fn]; ok && strings.HasPrefix(text, ex[0]) {
							on = false
							// "bytes discarded" is checked, not assumed: the buffer handed to the read must not be
							// mentioned again in the function after the call (stored, returned, decoded, ...)
							if strings.Contains(ex[1], "discarded") && rs_bufferUsedAfter(p, fd, call) {
								on = true
							}
						}
						sites = append(sites, readSite{file: rel, fn: fn, call: text, cls: cls,
							line: p.Fset.Position(call.Pos()).Line, onPath: on})
						if cls == "unknown" {
							fails = append(fails, fmt.Sprintf("readsite %s:%d %s: %s", rel, p.Fset.Position(call.Pos()).Line, fn, text))
						}
					}
				}
				stack = append(stack, n)
				return true
			})
		}
	}
	sort.SliceStable(sites, func(i, j int) bool {
		if sites[i].file != sites[j].file {
			return sites[i].file < sites[j].file
		}
		return sites[i].line < sites[j].line
	})
	for fn, ex := range readSiteOffPath {
		hit := false
		for _, s := range sites {
			if s.fn == fn && !s.onPath {
				hit = true
			}
		}
		if !hit {
			fails = append(fails, "readsites: exempted site no longer present: "+fn+" "+ex[0])
		}
	}

	var b strings.Builder
	b.WriteString("-- GENERATED by /verif/harness/extract (readsites.go) from /repo's working tree. Do not edit.\nnamespace Generated\n\n")
	b.WriteString("inductive ReadCls | propagated | comparedWithLen | eofTolerated | ignored | nDropped | unknown\nderiving DecidableEq, Repr\n\n")
	b.WriteString("structure ReadSite where\n  file : String\n  line : Nat\n  fn : String\n  call : String\n  cls : ReadCls\n  onLookupPath : Bool\nderiving Repr\n\n")
	b.WriteString("def readSites : List ReadSite := [\n")
	for i, s := range sites {
		sep := ","
		if i == len(sites)-1 {
			sep = ""
		}
		fmt.Fprintf(&b, "  ⟨%s, %d, %s, %s, .%s, %v⟩%s\n", rs_leanStr(s.file), s.line, rs_leanStr(s.fn), rs_leanStr(s.call), s.cls, s.onPath, sep)
	}
	b.WriteString("]\n\n")
	// constants of the file formats the C13 readers need (kept here so that Consts.lean is untouched)
	type bc struct{ pkg, name, lean string }
	for _, c := range []bc{
		{"indexes", "oldMagic", "indexesOldMagic"},
		{"blocktimeindex", "magic", "blocktimeMagic"},
		{"gsfa/manifest", "_MAGIC", "manifestMagic"},
		{"indexmeta", "MetadataKey_Epoch", "metaKeyEpoch"},
		{"indexmeta", "MetadataKey_RootCid", "metaKeyRootCid"},
		{"indexmeta", "MetadataKey_Kind", "metaKeyKind"},
		{"indexmeta", "MetadataKey_Network", "metaKeyNetwork"},
		{"indexes", "Kind_CidToOffsetAndSize", "kindCidToOffsetAndSize"},
		{"indexes", "Kind_SlotToCid", "kindSlotToCid"},
		{"indexes", "Kind_SigToCid", "kindSigToCid"},
		{"indexes", "Kind_PubkeyToOffsetAndSize", "kindPubkeyToOffsetAndSize"},
	} {
		bs, ok := byteArrayVar(pkg(c.pkg), c.name)
		if !ok {
			fails = append(fails, "readsites const "+c.pkg+"."+c.name)
			continue
		}
		fmt.Fprintf(&b, "/-- %s.%s -/\ndef %s : List UInt8 := %s\n\n", c.pkg, c.name, c.lean, rs_leanBytes(bs))
	}
	// manifest version: `_Version = uint64(5)` is a var, not a const
	if v, ok := rs_uintVar(pkg("gsfa/manifest"), "_Version"); ok {
		fmt.Fprintf(&b, "/-- gsfa/manifest._Version -/\ndef manifestVersion : Nat := %d\n\n", v)
	} else {
		fails = append(fails, "readsites const gsfa/manifest._Version")
	}
	if v, ok := constValue(pkg("blocktimeindex"), "DefaultCapacityForEpoch"); ok {
		fmt.Fprintf(&b, "/-- blocktimeindex.DefaultCapacityForEpoch -/\ndef blocktimeDefaultCapacity : Nat := %s\n\n", v.ExactString())
	} else {
		fails = append(fails, "readsites const blocktimeindex.DefaultCapacityForEpoch")
	}
	b.WriteString("end Generated\n")
	write("ReadSites.lean", b.String())
}

// rs_uintVar evaluates `var name = uint64(<const>)` (also inside a var block)
func rs_uintVar(p *packages.Package, name string) (uint64, bool) {
	for _, f := range p.Syntax {
		for _, d := range f.Decls {
			gd, ok := d.(*ast.GenDecl)
			if !ok || gd.Tok != token.VAR {
				continue
			}
			for _, s := range gd.Specs {
				vs := s.(*ast.ValueSpec)
				for i, n := range vs.Names {
					if n.Name != name || i >= len(vs.Values) {
						continue
					}
					if tv, ok := p.TypesInfo.Types[vs.Values[i]]; ok && tv.Value != nil {
						var v uint64
						if _, err := fmt.Sscan(tv.Value.ExactString(), &v); err == nil {
							return v, true
						}
					}
				}
			}
		}
	}
	return 0, false
}

package main

import (
	"fmt"
	"go/ast"
	"go/token"
	"go/types"
	"sort"
	"strings"
)

// Lock programs of package main over MultiEpoch.mu (property C09).
//
// For every function of package main (and for every `go func(){…}()` literal, which is a thread of its own)
// the ordered events
//
//	rlock / runlock / lock / unlock      operations on MultiEpoch.mu (`defer`red ones moved to the end, LIFO)
//	call f                               a call to a package-main function that (transitively) acquires the lock
//	unknown                              something the extractor cannot follow, executed while the lock is held
//
// are written to Generated/LockPrograms.lean.  The Lean side inlines `call`, rejects `unknown` and decides that
// every program is a sequence of non-nested critical sections.
//
// What is followed:
//   - static calls to package-main functions and methods; closure bodies are treated as executed where they are
//     written (conservative for callbacks), except `go` literals (separate program) ;
//   - a package-main function or method *mentioned* without being called (method value, callback argument) is treated
//     as called at that place;
//   - interface method calls: every named type of package main that implements the interface is a candidate callee;
//   - calls through function values: resolved when the value comes from a struct field of a package-main type
//     (directly, by index, or through `for _, fn := range x.field` / `fn := x.field[i]`): the candidates are all
//     values ever stored into that field anywhere in package main (assignments, append, composite literals);
//     a field whose address is taken, or a stored value that is not a function name / method value / closure /
//     nil / make / append of those, is unresolvable;
//   - everything else called through a value is unresolvable.
//
// Waiting for other goroutines (channel send / receive / select / range over a channel, Wait() of WaitGroup, errgroup,
// Cond) counts as unresolvable too: the Lean model assumes that a thread inside a critical section does not wait for
// anything but the lock.
//
// `unknown` is emitted for an unresolvable call (or a call to a function that transitively contains one) only where
// it can run while the lock is held: syntactically between an acquire and its release, or anywhere in a function that
// is itself (transitively) called from such a place.
//
// Trusted residue (named in props/C09.json): functions and methods of *other* packages invoked under the lock do not
// reach MultiEpoch except through package-main function values, closures or values of package-main types with
// lock-acquiring methods handed to them at the call site (these three cases are followed / flagged); values of
// package-main types hidden behind an interface-typed argument are not tracked.

type litem struct {
	kind       string   // rlock runlock lock unlock call dyn ext
	callees    []string // call: one callee; dyn: the candidate callees; ext: methods of package-main argument types
	unresolved bool     // dyn: not (fully) resolvable
	end        token.Pos
	held       bool // filled in later: the lock is syntactically held when the item runs
}

type lfunc struct {
	name  string
	items []litem
}

type lockExtractor struct {
	info      *types.Info
	fset      *token.FileSet
	funcs     map[string]*lfunc
	litName   map[*ast.FuncLit]string
	litSeq    map[string]int
	callFun   map[ast.Expr]bool         // expressions in call position
	stores    map[*types.Var][]ast.Expr // struct field -> values stored into it
	badField  map[*types.Var]bool       // field that cannot be tracked (address taken, positional literal)
	varDefs   map[*types.Var][]ast.Expr // local variable -> expressions assigned to it
	rangeOf   map[*types.Var]ast.Expr   // range value variable -> ranged expression
	mainTypes []*types.TypeName         // named non-interface types declared in package main
	muTotal   int                       // selections of MultiEpoch.mu
	muKnown   int                       // … of which are the receiver of a recognised Lock/Unlock/RLock/RUnlock call
	encl      map[*ast.FuncLit]string   // enclosing function name of a literal (for naming)
	muField   *types.Var                // the field MultiEpoch.mu
}

func unparen(e ast.Expr) ast.Expr {
	for {
		p, ok := e.(*ast.ParenExpr)
		if !ok {
			return e
		}
		e = p.X
	}
}

func namedOf(t types.Type) *types.Named {
	if t == nil {
		return nil
	}
	if pt, ok := t.(*types.Pointer); ok {
		t = pt.Elem()
	}
	n, _ := t.(*types.Named)
	return n
}

func isMainObj(o types.Object) bool {
	return o != nil && o.Pkg() != nil && o.Pkg().Name() == "main"
}

// funcName gives the table name of a concrete package-main function or method.
func funcName(fn *types.Func) string {
	sig := fn.Type().(*types.Signature)
	if r := sig.Recv(); r != nil {
		if n := namedOf(r.Type()); n != nil {
			return n.Obj().Name() + "." + fn.Name()
		}
	}
	return fn.Name()
}

// recvIface: the interface through which a method is selected — the static type of the receiver expression when it
// is known (narrower than the interface that declares the method, e.g. ReaderAtCloser rather than io.Closer).
func (x *lockExtractor) recvIface(e ast.Expr, fn *types.Func) *types.Interface {
	if sel, ok := unparen(e).(*ast.SelectorExpr); ok {
		if s, ok := x.info.Selections[sel]; ok && s.Recv() != nil {
			if it, ok := s.Recv().Underlying().(*types.Interface); ok {
				return it
			}
		}
	}
	return fn.Type().(*types.Signature).Recv().Type().Underlying().(*types.Interface)
}

func isIfaceMethod(fn *types.Func) bool {
	sig, ok := fn.Type().(*types.Signature)
	if !ok || sig.Recv() == nil {
		return false
	}
	return types.IsInterface(sig.Recv().Type())
}

func (x *lockExtractor) isMuField(id *ast.Ident) bool {
	fv, ok := x.info.Uses[id].(*types.Var)
	return ok && x.muField != nil && fv == x.muField
}

func (x *lockExtractor) isMu(sel *ast.SelectorExpr) bool {
	inner, ok := unparen(sel.X).(*ast.SelectorExpr)
	return ok && x.isMuField(inner.Sel)
}

// ifaceCandidates: methods `name` of package-main named types implementing the interface `it`.
func (x *lockExtractor) ifaceCandidates(it *types.Interface, name string) []string {
	var out []string
	seen := map[string]bool{}
	for _, tn := range x.mainTypes {
		T := tn.Type()
		if !types.Implements(T, it) && !types.Implements(types.NewPointer(T), it) {
			continue
		}
		obj, _, _ := types.LookupFieldOrMethod(types.NewPointer(T), true, tn.Pkg(), name)
		fn, ok := obj.(*types.Func)
		if !ok || !isMainObj(fn) {
			continue // promoted from a type of another package
		}
		n := funcName(fn)
		if !seen[n] {
			seen[n] = true
			out = append(out, n)
		}
	}
	sort.Strings(out)
	return out
}

// fieldOf returns the struct field (of a package-main type) an expression selects, looking through indexing.
func (x *lockExtractor) fieldOf(e ast.Expr) *types.Var {
	e = unparen(e)
	switch v := e.(type) {
	case *ast.IndexExpr:
		return x.fieldOf(v.X)
	case *ast.SliceExpr:
		return x.fieldOf(v.X)
	case *ast.SelectorExpr:
		if fv, ok := x.info.Uses[v.Sel].(*types.Var); ok && fv.IsField() && isMainObj(fv) {
			return fv
		}
	}
	return nil
}

// funcValue classifies an expression that yields a function value (or a container of function values):
// the candidate package-main callees, and whether everything it may denote is known.
func (x *lockExtractor) funcValue(e ast.Expr, self *types.Var, depth int) (cands []string, ok bool) {
	if depth > 6 {
		return nil, false
	}
	e = unparen(e)
	switch v := e.(type) {
	case *ast.FuncLit:
		return []string{x.litFunc(v)}, true
	case *ast.CompositeLit:
		ok = true
		for _, el := range v.Elts {
			if kv, isKV := el.(*ast.KeyValueExpr); isKV {
				el = kv.Value
			}
			c, o := x.funcValue(el, self, depth+1)
			cands = append(cands, c...)
			ok = ok && o
		}
		return cands, ok
	case *ast.CallExpr:
		if id, isId := unparen(v.Fun).(*ast.Ident); isId {
			if b, isB := x.info.Uses[id].(*types.Builtin); isB {
				switch b.Name() {
				case "make", "new":
					return nil, true
				case "append":
					ok = true
					for _, a := range v.Args {
						c, o := x.funcValue(a, self, depth+1)
						cands = append(cands, c...)
						ok = ok && o
					}
					return cands, ok
				}
			}
		}
		return nil, false
	case *ast.Ident:
		switch o := x.info.Uses[v].(type) {
		case *types.Nil:
			return nil, true
		case *types.Func:
			if isMainObj(o) {
				return []string{funcName(o)}, true
			}
			return nil, true // function of another package
		case *types.Var:
			return x.varValue(o, self, depth+1)
		}
		return nil, false
	case *ast.SelectorExpr:
		switch o := x.info.Uses[v.Sel].(type) {
		case *types.Func:
			if isIfaceMethod(o) {
				return x.ifaceCandidates(x.recvIface(v, o), o.Name()), true
			}
			if isMainObj(o) {
				return []string{funcName(o)}, true
			}
			return nil, true // method value of a type of another package
		case *types.Var:
			if o.IsField() && isMainObj(o) {
				if o == self {
					return nil, true
				}
				return x.fieldValue(o, depth+1)
			}
		}
		return nil, false
	case *ast.IndexExpr:
		return x.funcValue(v.X, self, depth+1)
	case *ast.SliceExpr:
		return x.funcValue(v.X, self, depth+1)
	}
	return nil, false
}

func (x *lockExtractor) fieldValue(f *types.Var, depth int) ([]string, bool) {
	if x.badField[f] {
		return nil, false
	}
	ok := true
	var cands []string
	for _, e := range x.stores[f] {
		c, o := x.funcValue(e, f, depth+1)
		cands = append(cands, c...)
		ok = ok && o
	}
	return cands, ok
}

func (x *lockExtractor) varValue(v *types.Var, self *types.Var, depth int) ([]string, bool) {
	if r, ok := x.rangeOf[v]; ok {
		return x.funcValue(r, self, depth+1)
	}
	defs := x.varDefs[v]
	if len(defs) == 0 {
		return nil, false // parameter, package variable, result of a multi-value assignment …
	}
	ok := true
	var cands []string
	for _, e := range defs {
		c, o := x.funcValue(e, self, depth+1)
		cands = append(cands, c...)
		ok = ok && o
	}
	return cands, ok
}

// litFunc registers a function literal as a pseudo-function of its own and returns its name.
func (x *lockExtractor) litFunc(l *ast.FuncLit) string {
	if n, ok := x.litName[l]; ok {
		return n
	}
	enc := x.encl[l]
	x.litSeq[enc]++
	n := fmt.Sprintf("%s$lit%d", enc, x.litSeq[enc])
	x.litName[l] = n
	f := &lfunc{name: n}
	x.funcs[n] = f
	f.items = x.body(n, l.Body)
	return n
}

// classify one call expression (not a mutex operation)
func (x *lockExtractor) callItem(c *ast.CallExpr) (litem, bool) {
	fun := unparen(c.Fun)
	if tv, ok := x.info.Types[fun]; ok && tv.IsType() {
		return litem{}, false // conversion
	}
	var id *ast.Ident
	switch f := fun.(type) {
	case *ast.Ident:
		id = f
	case *ast.SelectorExpr:
		id = f.Sel
	case *ast.FuncLit:
		return litem{}, false // called where written: its body is walked in place
	}
	if id != nil {
		switch o := x.info.Uses[id].(type) {
		case *types.Builtin:
			return litem{}, false
		case *types.Func:
			if isIfaceMethod(o) {
				return litem{kind: "dyn", callees: x.ifaceCandidates(x.recvIface(fun, o), o.Name()), end: c.End()}, true
			}
			if isMainObj(o) {
				return litem{kind: "call", callees: []string{funcName(o)}, end: c.End()}, true
			}
			// waiting for other goroutines (sync.WaitGroup.Wait, errgroup.Group.Wait, sync.Cond.Wait): if that happens while
			// the lock is held, progress depends on threads that may need the lock
			if o.Name() == "Wait" && o.Type().(*types.Signature).Recv() != nil {
				return litem{kind: "dyn", unresolved: true, end: c.End()}, true
			}
			// function of another package: values of package-main types handed to it may be called back
			var ms []string
			for _, a := range c.Args {
				n := namedOf(x.info.TypeOf(a))
				if n == nil || !isMainObj(n.Obj()) || types.IsInterface(n) {
					continue
				}
				mset := types.NewMethodSet(types.NewPointer(n))
				for i := 0; i < mset.Len(); i++ {
					if fn, ok := mset.At(i).Obj().(*types.Func); ok && isMainObj(fn) {
						ms = append(ms, funcName(fn))
					}
				}
			}
			if len(ms) > 0 {
				return litem{kind: "ext", callees: ms, end: c.End()}, true
			}
			return litem{}, false
		}
	}
	// call through a function value
	cands, ok := x.funcValue(fun, nil, 0)
	return litem{kind: "dyn", callees: dedup(cands), unresolved: !ok, end: c.End()}, true
}

// body collects the ordered items of one function body.
func (x *lockExtractor) body(name string, b *ast.BlockStmt) []litem {
	var evs []litem
	var deferred [][]litem
	skipIdent := map[*ast.Ident]bool{}
	var walk func(n ast.Node, out *[]litem)
	walk = func(root ast.Node, out *[]litem) {
		ast.Inspect(root, func(nd ast.Node) bool {
			switch v := nd.(type) {
			case *ast.GoStmt:
				// arguments are evaluated here; the function runs as a thread of its own
				for _, a := range v.Call.Args {
					walk(a, out)
				}
				if l, ok := unparen(v.Call.Fun).(*ast.FuncLit); ok {
					x.litFunc(l)
				} else {
					// `go f(x)` / `go x.m()`: f is an entry of the table by itself; evaluate the receiver expression
					if s, ok := unparen(v.Call.Fun).(*ast.SelectorExpr); ok {
						walk(s.X, out)
					}
				}
				return false
			case *ast.DeferStmt:
				for _, a := range v.Call.Args {
					walk(a, out)
				}
				var sub []litem
				if sel, ok := unparen(v.Call.Fun).(*ast.SelectorExpr); ok && x.isMu(sel) {
					x.muKnown++
					x.muTotal++
					sub = append(sub, litem{kind: strings.ToLower(sel.Sel.Name), end: v.End()})
				} else if l, ok := unparen(v.Call.Fun).(*ast.FuncLit); ok {
					sub = x.body(name, l.Body)
				} else {
					if it, ok := x.callItem(v.Call); ok {
						sub = append(sub, it)
					}
					if s, ok := unparen(v.Call.Fun).(*ast.SelectorExpr); ok {
						walk(s.X, out)
					}
				}
				deferred = append(deferred, sub)
				return false
			case *ast.CallExpr:
				if sel, ok := unparen(v.Fun).(*ast.SelectorExpr); ok && x.isMu(sel) {
					switch sel.Sel.Name {
					case "Lock", "Unlock", "RLock", "RUnlock":
						x.muKnown++
						*out = append(*out, litem{kind: strings.ToLower(sel.Sel.Name), end: v.End()})
					}
					return true
				}
				if it, ok := x.callItem(v); ok {
					*out = append(*out, it)
				}
				return true
			case *ast.SendStmt:
				*out = append(*out, litem{kind: "dyn", unresolved: true, end: v.End()})
				return true
			case *ast.SelectStmt:
				*out = append(*out, litem{kind: "dyn", unresolved: true, end: v.Pos()})
				return true
			case *ast.UnaryExpr:
				if v.Op == token.ARROW {
					*out = append(*out, litem{kind: "dyn", unresolved: true, end: v.End()})
				}
				return true
			case *ast.RangeStmt:
				if t := x.info.TypeOf(v.X); t != nil {
					if _, isChan := t.Underlying().(*types.Chan); isChan {
						*out = append(*out, litem{kind: "dyn", unresolved: true, end: v.X.End()})
					}
				}
				return true
			case *ast.SelectorExpr:
				if x.isMuField(v.Sel) {
					x.muTotal++
				}
				if fn, ok := x.info.Uses[v.Sel].(*types.Func); ok {
					skipIdent[v.Sel] = true
					if !x.callFun[v] {
						x.mention(v, fn, v.End(), out)
					}
				}
				return true
			case *ast.Ident:
				if skipIdent[v] {
					return true
				}
				if fn, ok := x.info.Uses[v].(*types.Func); ok && !x.callFun[v] {
					x.mention(v, fn, v.End(), out)
				}
				return true
			}
			return true
		})
	}
	walk(b, &evs)
	sort.SliceStable(evs, func(i, j int) bool { return evs[i].end < evs[j].end })
	for i := len(deferred) - 1; i >= 0; i-- {
		evs = append(evs, deferred[i]...)
	}
	return evs
}

// a function or method named without being called: treated as called here
func (x *lockExtractor) mention(e ast.Expr, fn *types.Func, end token.Pos, out *[]litem) {
	if isIfaceMethod(fn) {
		if c := x.ifaceCandidates(x.recvIface(e, fn), fn.Name()); len(c) > 0 {
			*out = append(*out, litem{kind: "dyn", callees: c, end: end})
		}
		return
	}
	if isMainObj(fn) {
		*out = append(*out, litem{kind: "call", callees: []string{funcName(fn)}, end: end})
	}
}

func genLockPrograms() {
	p := pkg(".")
	x := &lockExtractor{info: p.TypesInfo, fset: p.Fset, funcs: map[string]*lfunc{}, litName: map[*ast.FuncLit]string{},
		litSeq: map[string]int{}, callFun: map[ast.Expr]bool{}, stores: map[*types.Var][]ast.Expr{}, badField: map[*types.Var]bool{},
		varDefs: map[*types.Var][]ast.Expr{}, rangeOf: map[*types.Var]ast.Expr{}, encl: map[*ast.FuncLit]string{}}
	info := p.TypesInfo
	// named types of package main
	for _, obj := range info.Defs {
		if tn, ok := obj.(*types.TypeName); ok && isMainObj(tn) && !tn.IsAlias() {
			if _, isNamed := tn.Type().(*types.Named); isNamed && !types.IsInterface(tn.Type()) {
				x.mainTypes = append(x.mainTypes, tn)
			}
		}
	}
	sort.Slice(x.mainTypes, func(i, j int) bool { return x.mainTypes[i].Pos() < x.mainTypes[j].Pos() })
	if tn, ok := p.Types.Scope().Lookup("MultiEpoch").(*types.TypeName); ok {
		if st, ok := tn.Type().Underlying().(*types.Struct); ok {
			for i := 0; i < st.NumFields(); i++ {
				if st.Field(i).Name() == "mu" {
					x.muField = st.Field(i)
				}
			}
		}
	}
	if x.muField == nil {
		fails = append(fails, "type MultiEpoch with a field `mu` not found in package main")
	}

	type decl struct {
		name string
		fd   *ast.FuncDecl
	}
	var decls []decl
	var files []*ast.File
	for _, f := range p.Syntax {
		if strings.HasSuffix(p.Fset.Position(f.Pos()).Filename, "_test.go") {
			continue
		}
		files = append(files, f)
	}
	sort.Slice(files, func(i, j int) bool {
		return p.Fset.Position(files[i].Pos()).Filename < p.Fset.Position(files[j].Pos()).Filename
	})
	// pass 1: stores into fields, definitions of local variables, call positions, enclosing functions of literals
	for _, f := range files {
		for _, d := range f.Decls {
			fd, ok := d.(*ast.FuncDecl)
			var name string
			if ok && fd.Body != nil {
				name = fd.Name.Name
				if fd.Recv != nil && len(fd.Recv.List) == 1 {
					if n := namedOf(info.TypeOf(fd.Recv.List[0].Type)); n != nil {
						name = n.Obj().Name() + "." + name
					}
				}
				decls = append(decls, decl{name, fd})
			} else {
				name = "<package>"
			}
			ast.Inspect(d, func(nd ast.Node) bool {
				switch v := nd.(type) {
				case *ast.FuncLit:
					x.encl[v] = name
				case *ast.CallExpr:
					x.callFun[unparen(v.Fun)] = true
					if s, ok := unparen(v.Fun).(*ast.SelectorExpr); ok {
						x.callFun[s.Sel] = true
					}
				case *ast.AssignStmt:
					for i, l := range v.Lhs {
						var rhs ast.Expr
						if len(v.Rhs) == len(v.Lhs) {
							rhs = v.Rhs[i]
						}
						if fv := x.fieldOf(l); fv != nil {
							if rhs == nil {
								x.badField[fv] = true
							} else {
								x.stores[fv] = append(x.stores[fv], rhs)
							}
						}
						if id, ok := unparen(l).(*ast.Ident); ok {
							var lv *types.Var
							if o, ok := info.Defs[id].(*types.Var); ok {
								lv = o
							} else if o, ok := info.Uses[id].(*types.Var); ok {
								lv = o
							}
							if lv != nil && !lv.IsField() {
								if rhs == nil {
									x.varDefs[lv] = append(x.varDefs[lv], &ast.BadExpr{})
								} else {
									x.varDefs[lv] = append(x.varDefs[lv], rhs)
								}
							}
						}
					}
				case *ast.ValueSpec:
					for i, id := range v.Names {
						if lv, ok := info.Defs[id].(*types.Var); ok && len(v.Values) == len(v.Names) {
							x.varDefs[lv] = append(x.varDefs[lv], v.Values[i])
						}
					}
				case *ast.RangeStmt:
					if id, ok := v.Value.(*ast.Ident); ok && id != nil {
						if lv, ok := info.Defs[id].(*types.Var); ok {
							x.rangeOf[lv] = v.X
						} else if lv, ok := info.Uses[id].(*types.Var); ok {
							x.varDefs[lv] = append(x.varDefs[lv], &ast.BadExpr{})
						}
					}
				case *ast.UnaryExpr:
					if v.Op == token.AND {
						if fv := x.fieldOf(v.X); fv != nil {
							{
								x.badField[fv] = true
							}
						}
					}
				case *ast.CompositeLit:
					n := namedOf(info.TypeOf(v))
					if n == nil || !isMainObj(n.Obj()) {
						return true
					}
					st, ok := n.Underlying().(*types.Struct)
					if !ok {
						return true
					}
					for i, el := range v.Elts {
						if kv, ok := el.(*ast.KeyValueExpr); ok {
							if id, ok := kv.Key.(*ast.Ident); ok {
								if fv, ok := info.Uses[id].(*types.Var); ok && fv.IsField() {
									x.stores[fv] = append(x.stores[fv], kv.Value)
								}
							}
						} else if i < st.NumFields() {
							x.stores[st.Field(i)] = append(x.stores[st.Field(i)], el)
						}
					}
				}
				return true
			})
		}
	}
	// `&x.mu`-style address-taking of func-typed fields only matters for func fields; keep badField only for those
	for fv := range x.badField {
		if !holdsFuncs(fv.Type(), 0) {
			delete(x.badField, fv)
		}
	}
	// pass 2: items of every declared function (literals are registered on the way)
	for _, d := range decls {
		f := &lfunc{name: d.name}
		if old, dup := x.funcs[d.name]; dup {
			f = old // e.g. several init functions: concatenate
		} else {
			x.funcs[d.name] = f
		}
		f.items = append(f.items, x.body(d.name, d.fd.Body)...)
	}
	if x.muTotal != x.muKnown {
		fails = append(fails, fmt.Sprintf("MultiEpoch.mu is used %d times but only %d uses are plain Lock/Unlock/RLock/RUnlock calls (aliasing, TryLock, …)", x.muTotal, x.muKnown))
	}
	funcs := x.funcs
	// syntactic "lock is held" flag of every item
	for _, f := range funcs {
		depth := 0
		for i := range f.items {
			it := &f.items[i]
			switch it.kind {
			case "rlock", "lock":
				it.held = depth > 0
				depth++
			case "runlock", "unlock":
				if depth > 0 {
					depth--
				}
			default:
				it.held = depth > 0
			}
		}
	}
	// summaries: acq (transitively acquires), unk (transitively contains an unresolvable call),
	// ctx (may run while a caller holds the lock)
	acq, unk, ctx := map[string]bool{}, map[string]bool{}, map[string]bool{}
	for changed := true; changed; {
		changed = false
		set := func(m map[string]bool, k string) {
			if !m[k] {
				m[k] = true
				changed = true
			}
		}
		for n, f := range funcs {
			for _, it := range f.items {
				switch it.kind {
				case "rlock", "lock":
					set(acq, n)
				case "dyn":
					if it.unresolved {
						set(unk, n)
					}
				}
				for _, c := range it.callees {
					if _, known := funcs[c]; !known {
						continue
					}
					if it.kind != "ext" {
						if acq[c] {
							set(acq, n)
						}
						if unk[c] {
							set(unk, n)
						}
					} else if acq[c] || unk[c] {
						set(unk, n) // handed to foreign code: may or may not be called
					}
					if it.held || ctx[n] {
						set(ctx, c)
					}
				}
			}
		}
	}
	var names []string
	for n := range funcs {
		if acq[n] {
			names = append(names, n)
		}
	}
	sort.Strings(names)
	id := map[string]int{}
	for i, n := range names {
		id[n] = i
	}
	var b strings.Builder
	b.WriteString("-- GENERATED by /verif/harness/extract from /repo's working tree. Do not edit.\nnamespace Generated\n\n")
	b.WriteString("inductive LEv where\n  | rlock | runlock | lock | unlock | call (f : Nat) | unknown\nderiving DecidableEq, Repr\n\n")
	b.WriteString("/-- functions of package main that (transitively) acquire MultiEpoch.mu; index = id used by `.call`\n    (`f$litN` = a function literal inside f that runs as its own goroutine or is stored as a callback) -/\ndef lockFnNames : List String := [\n")
	for i, n := range names {
		sep := ","
		if i == len(names)-1 {
			sep = ""
		}
		fmt.Fprintf(&b, "  %q%s\n", n, sep)
	}
	b.WriteString("]\n\n/-- does the function touch the mutex itself (as opposed to only through callees) -/\ndef lockDirect : List Bool := [")
	for i, n := range names {
		direct := false
		for _, e := range funcs[n].items {
			if e.kind == "rlock" || e.kind == "lock" {
				direct = true
			}
		}
		if i > 0 {
			b.WriteString(", ")
		}
		fmt.Fprint(&b, direct)
	}
	b.WriteString("]\n\ndef lockPrograms : List (List LEv) := [\n")
	for i, n := range names {
		var parts []string
		for _, e := range funcs[n].items {
			danger := e.held || ctx[n]
			switch e.kind {
			case "rlock", "lock", "runlock", "unlock":
				parts = append(parts, "."+e.kind)
			case "call", "dyn":
				for _, c := range e.callees {
					if acq[c] {
						parts = append(parts, fmt.Sprintf(".call %d", id[c]))
					}
					if unk[c] && danger {
						parts = append(parts, ".unknown")
					}
				}
				if e.unresolved && danger {
					parts = append(parts, ".unknown")
				}
			case "ext":
				for _, c := range e.callees {
					if (acq[c] || unk[c]) && danger {
						parts = append(parts, ".unknown")
						break
					}
				}
			}
		}
		sep := ","
		if i == len(names)-1 {
			sep = ""
		}
		fmt.Fprintf(&b, "  /- %d %s -/ [%s]%s\n", i, n, strings.Join(parts, ", "), sep)
	}
	b.WriteString("]\n\nend Generated\n")
	write("LockPrograms.lean", b.String())
}

// holdsFuncs: the type is a function type or a container of function values
func holdsFuncs(t types.Type, depth int) bool {
	if depth > 4 {
		return false
	}
	switch u := t.Underlying().(type) {
	case *types.Signature:
		return true
	case *types.Slice:
		return holdsFuncs(u.Elem(), depth+1)
	case *types.Array:
		return holdsFuncs(u.Elem(), depth+1)
	case *types.Map:
		return holdsFuncs(u.Elem(), depth+1)
	case *types.Pointer:
		return holdsFuncs(u.Elem(), depth+1)
	}
	return false
}

func dedup(in []string) []string {
	seen := map[string]bool{}
	var out []string
	for _, s := range in {
		if !seen[s] {
			seen[s] = true
			out = append(out, s)
		}
	}
	sort.Strings(out)
	return out
}

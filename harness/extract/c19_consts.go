package main

// C19: constants of the gRPC streaming code (package main, grpc-server.go).
// Registered from init() so that main.go needs no edit; if these lines are ever moved into the
// constSpecs literal of main.go, delete this file (a constant must be emitted once only).
func init() {
	constSpecs = append(constSpecs,
		constSpec{".", "maxSlotsToStream", "maxSlotsToStream", false},
		// `const batchSize = 100` local to processSlotTransactions: the per-account limit handed to GetBeforeUntilSlot
		constSpec{".", "batchSize", "streamGsfaBatchSize", false},
	)
}

package main

// C05: constants of the deprecated (version 1) bucketteer format.
// Registered from init() so that main.go needs no edit; if these lines are ever moved into the
// constSpecs literal of main.go, delete this file (a constant must be emitted once only).
func init() {
	constSpecs = append(constSpecs,
		constSpec{"deprecated/bucketteer", "Version", "legacyBucketteerVersion", false},
		constSpec{"deprecated/bucketteer", "_Magic", "legacyBucketteerMagic", true},
	)
}

package main

// GoLean: statement-level translation of a whitelist of functions of /repo to Lean 4 (Generated/GoFns.lean).
//
// The target is the monad Go.M = Except Go.Err of /verif/lean/Faithful/Lib/GoSem.lean (panic / returned error /
// out of fuel).  Supported Go subset (anything else → EXTRACT-FAIL, which breaks the obligations that use the function):
//
//   types       uint8..uint64, uint, int, int64, bool, byte, string (literals only), []T, [N]T, *[N]T, named types over
//               these, structs (and pointers to structs) whose used fields have supported types, func(..) (.., error)
//   statements  :=, =, op=, ++, --, var, if/else (with init), for (all three forms, range over slices/arrays), break,
//               continue, return (incl. named results), panic(..), expression statements of mutating calls,
//               `_ = x[i]`, and the idiom  `v, err := f(..); if err != nil { return .., err }`  (→ monadic bind)
//   expressions constants, arithmetic, comparisons, && || !, conversions, len, make, append, copy, index, slice,
//               field selection (also through embedded structs), composite literals, calls to other translated
//               functions and to function-typed parameters, encoding/binary little-endian and uvarint helpers
//   effects     a callee that writes through a slice / array-pointer / pointer-receiver argument returns the new value
//               and the caller writes it back into the argument expression (x, x.f, x[a:b], x[i])
//
// Loops become auxiliary definitions by structural recursion on fuel; a function that (transitively) contains a loop
// takes `fuel : Nat` first.  External functions (xxhash) become explicit parameters.

import (
	"fmt"
	"go/ast"
	"go/constant"
	"go/token"
	"go/types"
	"sort"
	"strings"

	"golang.org/x/tools/go/packages"
)

type glSpec struct{ pkg, recv, name, lean string }

var glSpecs = []glSpec{
	{"slottools", "", "CalcEpochLimits", "calcEpochLimits"},
	{"slottools", "", "Uint64RangesHavePartialOverlapIncludingEdges", "rangesOverlap"},
	{"compactindexsized", "", "searchEytzinger", "ciSearchEytzinger"},
	{"compactindexsized", "", "uintLe", "ciUintLe"},
	{"compactindexsized", "", "putUintLe", "ciPutUintLe"},
	{"compactindexsized", "", "hashUint64", "ciHashUint64"},
	{"compactindexsized", "Header", "BucketHash", "ciBucketHash"},
	{"compactindexsized", "BucketHeader", "Store", "ciBucketHeaderStore"},
	{"compactindexsized", "BucketHeader", "Load", "ciBucketHeaderLoad"},
	{"compactindexsized", "BucketDescriptor", "unmarshalEntry", "ciUnmarshalEntry"},
	{"compactindexsized", "BucketDescriptor", "marshalEntry", "ciMarshalEntry"},
	{"compactindexsized", "", "bucketOffset", "ciBucketOffset"},
	{"compactindexsized", "", "minInt64", "ciMinInt64"},
	{"bucketteer", "", "searchEytzinger", "bkSearchEytzinger"},
	{"bucketteer", "", "prefixToUint16", "bkPrefixToUint16"},
	{"bucketteer", "", "uint16ToPrefix", "bkUint16ToPrefix"},
	{"indexes", "", "Uint24tob", "uint24tob"},
	{"indexes", "", "BtoUint24", "btoUint24"},
	{"indexes", "", "Uint40tob", "uint40tob"},
	{"indexes", "", "BtoUint40", "btoUint40"},
	{"indexes", "", "Uint48tob", "uint48tob"},
	{"indexes", "", "BtoUint48", "btoUint48"},
	{"indexes", "", "Uint64tob", "uint64tob"},
	{"indexes", "", "BtoUint64", "btoUint64"},
	{"indexes", "", "cloneAndPad", "cloneAndPad"},
	{"indexes", "OffsetAndSize", "Bytes", "oasBytes"},
	{"indexes", "OffsetAndSize", "FromBytes", "oasFromBytes"},
	{"indexes", "OffsetAndSize", "IsValid", "oasIsValid"},
	{"gsfa/linkedlog", "OffsetAndSizeAndSlot", "Bytes", "oassBytes"},
	{"gsfa/linkedlog", "OffsetAndSizeAndSlot", "FromBytes", "oassFromBytes"},
	{"range-cache", "Range", "contains", "rangeContains"},
	{"range-cache", "Range", "isValidFor", "rangeIsValidFor"},
	{"split-car-fetcher", "", "min", "scfMin"},
	{"split-car-fetcher", "", "max", "scfMax"},
	{"split-car-fetcher", "MultiReaderAt", "ReadAt", "scfMultiReadAt"},
	{"deprecated/compactindex", "", "searchEytzinger", "l8SearchEytzinger"},
	{"deprecated/compactindex", "", "hashUint64", "l8HashUint64"},
	{"deprecated/compactindex", "Header", "BucketHash", "l8BucketHash"},
	{"deprecated/compactindex36", "", "searchEytzinger", "l36SearchEytzinger"},
	{"deprecated/compactindex36", "", "hashUint64", "l36HashUint64"},
	{"deprecated/compactindex36", "Header", "BucketHash", "l36BucketHash"},
	{"deprecated/bucketteer", "", "searchEytzinger", "bk1SearchEytzinger"},
	{"indexmeta", "Meta", "MarshalBinary", "metaMarshal"},
	{"indexmeta", "Meta", "UnmarshalWithDecoder", "metaUnmarshalDec"},
	{"indexmeta", "Meta", "UnmarshalBinary", "metaUnmarshal"},
	{"indexmeta", "Meta", "Add", "metaAdd"},
	{"indexmeta", "Meta", "Get", "metaGet"},
	{"indexmeta", "Meta", "GetUint64", "metaGetUint64"},
	{"indexmeta", "", "encodeUint64", "metaEncodeUint64"},
	{"indexmeta", "", "decodeUint64", "metaDecodeUint64"},
	{"indexmeta", "", "cloneBytes", "metaCloneBytes"},
	{"bucketteer", "", "eytzinger", "bkEytzinger"},
	{"deprecated/bucketteer", "", "eytzinger", "bk1Eytzinger"},
	{"compactindexsized", "", "eytzinger", "ciEytzinger"},
	{"deprecated/compactindex", "", "eytzinger", "l8Eytzinger"},
	{"deprecated/compactindex36", "", "eytzinger", "l36Eytzinger"},
	{"slottools", "", "CalcEpochForSlot", "calcEpochForSlotM"},
	{"slottools", "", "EpochForSlot", "epochForSlot"},
	{"slottools", "", "Uint64ToLEBytes", "uint64ToLEBytes"},
	{"slottools", "", "Uint64FromLEBytes", "uint64FromLEBytes"},
	{"blocktimeindex", "Index", "Get", "btGet"},
	{"blocktimeindex", "Index", "Set", "btSet"},
	{"blocktimeindex", "", "blocktimeToBytes", "btToBytes"},
	{"blocktimeindex", "Index", "marshalBinary", "btMarshal"},
	{"blocktimeindex", "Index", "unmarshalBinary", "btUnmarshal"},
	{"compactindexsized", "Header", "Load", "ciHeaderLoad"},
	{"compactindexsized", "", "Open", "ciOpen"},
	{"compactindexsized", "BucketHeader", "Hash", "ciEntryHash"},
	{"compactindexsized", "DB", "GetValueSize", "ciGetValueSize"},
	{"compactindexsized", "DB", "entryStride", "ciEntryStride"},
	{"compactindexsized", "BucketHeader", "readFrom", "ciReadFrom"},
	{"compactindexsized", "DB", "GetBucket", "ciGetBucket"},
	{"compactindexsized", "Bucket", "loadEntry", "ciLoadEntry"},
	{"compactindexsized", "Bucket", "Lookup", "ciBucketLookup"},
	{"compactindexsized", "DB", "LookupBucket", "ciLookupBucket"},
	{"compactindexsized", "DB", "Lookup", "ciDBLookup"},
	{"bucketteer", "", "newUint16Layout", "bkNewLayout"},
	{"bucketteer", "", "newUint16LayoutPointer", "bkNewLayoutPtr"},
	{"bucketteer", "", "isReaderEmpty", "bkIsReaderEmpty"},
	{"bucketteer", "", "readHeaderSize", "bkReadHeaderSize"},
	{"bucketteer", "", "readHeader", "bkReadHeader"},
	{"bucketteer", "", "NewReader", "bkNewReader"},
	{"bucketteer", "", "Hash", "bkHash"},
	{"ipld/ipldbindcode", "", "VerifyHash", "framesVerifyHash"},
	{"ipld/ipldbindcode", "DataFrame", "GetHash", "framesGetHash"},
	{"ipld/ipldbindcode", "DataFrame", "GetIndex", "framesGetIndex"},
	{"ipld/ipldbindcode", "DataFrame", "GetTotal", "framesGetTotal"},
	{"ipld/ipldbindcode", "DataFrame", "HasHash", "framesHasHash"},
	{"ipld/ipldbindcode", "DataFrame", "HasIndex", "framesHasIndex"},
	{"ipld/ipldbindcode", "DataFrame", "HasTotal", "framesHasTotal"},
	{"bucketteer", "", "readUint64Le", "bkReadUint64Le"},
	{"bucketteer", "Reader", "Has", "bkReaderHas"},
	{"gsfa/linkedlog", "uvarintReader", "ReadUvarint", "uvrReadUvarint"},
	{"gsfa/linkedlog", "", "decompressIndexes", "llDecompressIndexes"},
	{"gsfa/linkedlog", "LinkedLog", "ReadWithSize", "llReadWithSize"},
	{"gsfa/linkedlog", "LinkedLog", "Read", "llRead"},
	{"gsfa/linkedlog", "uvarintReader", "ReadByte", "uvrReadByte"},
	{"gsfa/linkedlog", "OffsetAndSizeAndSlot", "FromReader", "oassFromReader"},
	{"gsfa/linkedlog", "", "OffsetAndSizeAndSlotSliceFromBytes", "oassSliceFromBytes"},
}

func init() { generators = append(generators, genGoLean) }

// externs: functions outside the translated set that become parameters
type glExtern struct {
	param, leanType string
	monadic         bool // the parameter returns in the monad (its Go error is a thrown `.err`)
	withRecv        bool // a method: the receiver is the first argument of the parameter
}

var glExterns = map[string]glExtern{
	"github.com/cespare/xxhash/v2.Sum64": {param: "xxSum64", leanType: "List UInt8 → UInt64"},
	"github.com/rpcpool/yellowstone-faithful/compactindexsized.EntryHash64": {param: "entryHash64", leanType: "UInt32 → List UInt8 → UInt64"},
	// CRC-64/ISO and FNV-1a-64 come from the standard library: two arbitrary functions on byte strings
	"github.com/rpcpool/yellowstone-faithful/ipld/ipldbindcode.checksumCrc64": {param: "crc64iso", leanType: "List UInt8 → UInt64"},
	"github.com/rpcpool/yellowstone-faithful/ipld/ipldbindcode.checksumFnv":   {param: "fnv64a", leanType: "List UInt8 → UInt64"},
	// zstd is third-party: an arbitrary partial function on byte strings
	"github.com/rpcpool/yellowstone-faithful/tooling.DecompressZstd": {param: "zstdDecompress", leanType: "List UInt8 → M (List UInt8)", monadic: true},
	// os.File.Stat().Size(): the size of the file behind the log, whatever the operating system says
	"github.com/rpcpool/yellowstone-faithful/gsfa/linkedlog.LinkedLog.getCurrentOffset": {param: "fileSizeOf", leanType: "Linkedlog_LinkedLog → M UInt64", monadic: true, withRecv: true},
}

// functions whose Go errors are data (they inspect, compare and return error VALUES such as io.EOF)
var glErrData = map[string]bool{"framesVerifyHash": true, "scfMultiReadAt": true, "uvrReadUvarint": true, "uvrReadByte": true, "oassFromReader": true, "oassSliceFromBytes": true, "llDecompressIndexes": true, "llReadWithSize": true, "llRead": true, "bkReadUint64Le": true, "bkReaderHas": true, "bkIsReaderEmpty": true, "bkReadHeaderSize": true, "bkReadHeader": true, "bkNewReader": true, "ciOpen": true, "ciReadFrom": true, "ciGetBucket": true, "ciLoadEntry": true, "ciBucketLookup": true, "ciLookupBucket": true, "ciDBLookup": true}

var leanKeywords = map[string]bool{}

func init() {
	for _, k := range strings.Fields("end from at meta until seal open then do fun have show in let match with if else for by where mut return import def theorem instance structure class namespace section variable universe example prefix infix infixl infixr postfix notation macro syntax local private protected partial unsafe deriving extends Type Prop Sort abbrev inductive axiom opaque set_option attribute export hiding renaming using calc nomatch nofun suffices obtain rcases default max min") {
		leanKeywords[k] = true
	}
	delete(leanKeywords, "max")
	delete(leanKeywords, "min")
	delete(leanKeywords, "default")
}

type glFunc struct {
	spec      glSpec
	p         *packages.Package
	decl      *ast.FuncDecl
	obj       *types.Func
	needsFuel bool
	externs   map[string]bool
	mutRecv   bool
	mutParams map[int]bool
	selfRec   bool
}

type glGen struct {
	funcs   map[*types.Func]*glFunc
	order   []*glFunc
	structs map[*types.Named]string // lean name
	structQ []*types.Named
	out     strings.Builder
}

type glErr struct{ msg string }

func glFail(p *packages.Package, n ast.Node, format string, a ...any) {
	pos := ""
	if n != nil && p != nil {
		pos = " at " + p.Fset.Position(n.Pos()).String()
	}
	panic(glErr{fmt.Sprintf(format, a...) + pos})
}

func findFunc(p *packages.Package, recv, name string) (*ast.FuncDecl, *types.Func) {
	for _, f := range p.Syntax {
		for _, d := range f.Decls {
			fd, ok := d.(*ast.FuncDecl)
			if !ok || fd.Name.Name != name || fd.Body == nil {
				continue
			}
			r := ""
			if fd.Recv != nil && len(fd.Recv.List) == 1 {
				t := fd.Recv.List[0].Type
				if s, ok := t.(*ast.StarExpr); ok {
					t = s.X
				}
				if ix, ok := t.(*ast.IndexExpr); ok {
					t = ix.X
				}
				if id, ok := t.(*ast.Ident); ok {
					r = id.Name
				}
			}
			if r != recv {
				continue
			}
			obj, _ := p.TypesInfo.Defs[fd.Name].(*types.Func)
			return fd, obj
		}
	}
	return nil, nil
}

func qualName(f *types.Func) string {
	if f.Pkg() == nil {
		return f.Name()
	}
	if sig, ok := f.Type().(*types.Signature); ok && sig.Recv() != nil {
		t := sig.Recv().Type()
		if pt, ok := t.(*types.Pointer); ok {
			t = pt.Elem()
		}
		if n, ok := t.(*types.Named); ok {
			return f.Pkg().Path() + "." + n.Obj().Name() + "." + f.Name()
		}
	}
	return f.Pkg().Path() + "." + f.Name()
}

// calleeOf resolves a call expression to a *types.Func (static calls only)
func calleeOf(p *packages.Package, call *ast.CallExpr) *types.Func {
	var id *ast.Ident
	switch f := ast.Unparen(call.Fun).(type) {
	case *ast.Ident:
		id = f
	case *ast.SelectorExpr:
		id = f.Sel
	case *ast.IndexExpr: // generic instantiation f[T](..)
		if i2, ok := f.X.(*ast.Ident); ok {
			id = i2
		}
	}
	if id == nil {
		return nil
	}
	fn, _ := p.TypesInfo.Uses[id].(*types.Func)
	if fn != nil {
		fn = fn.Origin()
		// a method of an interface of the repository with exactly one implementation: that implementation's method
		if sig, ok := fn.Type().(*types.Signature); ok && sig.Recv() != nil {
			if nt := glDevirt(sig.Recv().Type()); nt != nil {
				if o, _, _ := types.LookupFieldOrMethod(types.NewPointer(nt), true, nt.Obj().Pkg(), fn.Name()); o != nil {
					if m, ok := o.(*types.Func); ok {
						return m.Origin()
					}
				}
			}
		}
	}
	return fn
}

// glDevirt: an interface type declared in a loaded package of the repository that has exactly ONE implementing struct
// type in its own package is translated as that struct (pointer receiver semantics: the value is threaded through the
// calls).  Checked on every run: a second implementation makes the translation fail.
var glDevirtCache = map[types.Type]*types.Named{}

func glDevirt(t types.Type) *types.Named {
	if r, ok := glDevirtCache[t]; ok {
		return r
	}
	var res *types.Named
	defer func() { glDevirtCache[t] = res }()
	nt, ok := t.(*types.Named)
	if !ok || nt.Obj().Pkg() == nil || pkgs[nt.Obj().Pkg().Path()] == nil {
		return nil
	}
	it, ok := nt.Underlying().(*types.Interface)
	if !ok || it.NumMethods() == 0 {
		return nil
	}
	sc := nt.Obj().Pkg().Scope()
	var impls []*types.Named
	for _, name := range sc.Names() {
		tn, ok := sc.Lookup(name).(*types.TypeName)
		if !ok {
			continue
		}
		cand, ok := tn.Type().(*types.Named)
		if !ok || cand == nt {
			continue
		}
		if _, isStruct := cand.Underlying().(*types.Struct); !isStruct {
			continue
		}
		if types.Implements(cand, it) || types.Implements(types.NewPointer(cand), it) {
			impls = append(impls, cand)
		}
	}
	if len(impls) == 1 {
		res = impls[0]
	}
	return res
}

func genGoLean() {
	g := &glGen{funcs: map[*types.Func]*glFunc{}, structs: map[*types.Named]string{}}
	for _, s := range glSpecs {
		p := pkg(s.pkg)
		fd, obj := findFunc(p, s.recv, s.name)
		if fd == nil || obj == nil {
			fails = append(fails, "gofn "+s.pkg+"."+s.recv+"."+s.name+" (not found)")
			continue
		}
		f := &glFunc{spec: s, p: p, decl: fd, obj: obj, externs: map[string]bool{}, mutParams: map[int]bool{}}
		g.funcs[obj] = f
		g.order = append(g.order, f)
	}
	g.analyse()
	// topological order: callees first
	done := map[*glFunc]bool{}
	var sorted []*glFunc
	var visit func(f *glFunc)
	visit = func(f *glFunc) {
		if done[f] {
			return
		}
		done[f] = true
		ast.Inspect(f.decl.Body, func(n ast.Node) bool {
			if c, ok := n.(*ast.CallExpr); ok {
				if cf := g.funcs[calleeOf(f.p, c)]; cf != nil && cf != f {
					visit(cf)
				}
			}
			return true
		})
		sorted = append(sorted, f)
	}
	for _, f := range g.order {
		visit(f)
	}
	var body strings.Builder
	var names []string
	for _, f := range sorted {
		src, err := g.translate(f)
		if err != nil {
			fails = append(fails, "gofn "+f.spec.pkg+"."+f.spec.recv+"."+f.spec.name+": "+err.Error())
			continue
		}
		fmt.Fprintf(&body, "/-- %s %s%s -/\n%s\n", f.spec.pkg, map[bool]string{true: "(" + f.spec.recv + ").", false: ""}[f.spec.recv != ""], f.spec.name, src)
		names = append(names, f.spec.lean)
	}
	var b strings.Builder
	b.WriteString("-- GENERATED by /verif/harness/extract (golean.go) from /repo's working tree. Do not edit.\nimport Faithful.Lib.GoSem\nset_option linter.unusedVariables false\nnamespace Generated.G\nopen Go\n\n")
	b.WriteString(g.structDefs())
	b.WriteString(body.String())
	sort.Strings(names)
	fmt.Fprintf(&b, "/-- the functions translated in this run -/\ndef translated : List String := [%s]\n\n", strings.Join(quoteAll(names), ", "))
	b.WriteString("end Generated.G\n")
	write("GoFns.lean", b.String())
}

func quoteAll(xs []string) []string {
	out := make([]string, len(xs))
	for i, x := range xs {
		out[i] = fmt.Sprintf("%q", x)
	}
	return out
}

// ---------- pre-analysis: fuel, externs, mutated parameters (fixpoint over the call graph) ----------

func (g *glGen) analyse() {
	for _, f := range g.order {
		ast.Inspect(f.decl.Body, func(n ast.Node) bool {
			switch x := n.(type) {
			case *ast.ForStmt, *ast.RangeStmt:
				f.needsFuel = true
			case *ast.CallExpr:
				cf := calleeOf(f.p, x)
				if cf != nil {
					if cf == f.obj {
						f.needsFuel, f.selfRec = true, true
					}
					if _, ok := glExterns[qualName(cf)]; ok {
						f.externs[qualName(cf)] = true
					}
				}
			}
			return true
		})
	}
	for changed := true; changed; {
		changed = false
		for _, f := range g.order {
			sig := f.obj.Type().(*types.Signature)
			paramIdx := map[types.Object]int{}
			for i := 0; i < sig.Params().Len(); i++ {
				paramIdx[sig.Params().At(i)] = i
			}
			var recvObj types.Object
			if sig.Recv() != nil {
				recvObj = sig.Recv()
			}
			aliases := aliasesIn(f.p, f.decl.Body)
			mark := func(e ast.Expr) {
				// root identifier of an lvalue-like expression
				for {
					switch x := e.(type) {
					case *ast.ParenExpr:
						e = x.X
						continue
					case *ast.StarExpr:
						e = x.X
						continue
					case *ast.SliceExpr:
						e = x.X
						continue
					case *ast.IndexExpr:
						e = x.X
						continue
					case *ast.SelectorExpr:
						e = x.X
						continue
					case *ast.UnaryExpr:
						if x.Op == token.AND {
							e = x.X
							continue
						}
					}
					break
				}
				id, ok := e.(*ast.Ident)
				if !ok {
					return
				}
				obj := f.p.TypesInfo.Uses[id]
				if obj == nil {
					return
				}
				for k := 0; k < 8; k++ { // a write through an alias is a write to the aliased parameter
					if a, ok := aliases[obj]; ok {
						obj = a
					} else {
						break
					}
				}
				if obj == recvObj {
					if _, isPtr := sig.Recv().Type().(*types.Pointer); isPtr && !f.mutRecv {
						f.mutRecv, changed = true, true
					}
					return
				}
				if i, ok := paramIdx[obj]; ok && refLike(obj.Type()) && !f.mutParams[i] {
					f.mutParams[i], changed = true, true
				}
			}
			ast.Inspect(f.decl.Body, func(n ast.Node) bool {
				switch x := n.(type) {
				case *ast.AssignStmt:
					for _, l := range x.Lhs {
						switch l.(type) {
						case *ast.IndexExpr, *ast.SelectorExpr, *ast.StarExpr:
							mark(l)
						}
					}
				case *ast.IncDecStmt:
					switch x.X.(type) {
					case *ast.IndexExpr, *ast.SelectorExpr, *ast.StarExpr:
						mark(x.X)
					}
				case *ast.CallExpr:
					if id, ok := x.Fun.(*ast.Ident); ok && id.Name == "copy" && len(x.Args) == 2 {
						if _, isB := f.p.TypesInfo.Uses[id].(*types.Builtin); isB {
							mark(x.Args[0])
						}
					}
					cf := calleeOf(f.p, x)
					if cf == nil {
						return true
					}
					qn := qualName(cf)
					if strings.HasPrefix(qn, "encoding/binary.littleEndian.PutUint") || qn == "encoding/binary.PutUvarint" || qn == "io.ReaderAt.ReadAt" || qn == "io.SectionReader.ReadAt" || qn == "os.File.ReadAt" {
						mark(x.Args[0])
					}
					if qn == "io.ReadFull" {
						mark(x.Args[0])
						mark(x.Args[1])
					}
					if qn == "io.ByteReader.ReadByte" || qn == "bytes.Buffer.Write" || qn == "bytes.Buffer.WriteByte" {
						if se, ok := x.Fun.(*ast.SelectorExpr); ok {
							mark(se.X)
						}
					}
					if c := g.funcs[cf]; c != nil {
						for i := range x.Args {
							if c.mutParams[i] {
								mark(x.Args[i])
							}
						}
						if c.mutRecv {
							if se, ok := x.Fun.(*ast.SelectorExpr); ok {
								mark(se.X)
							}
						}
						if c.needsFuel && !f.needsFuel {
							f.needsFuel, changed = true, true
						}
						for e := range c.externs {
							if !f.externs[e] {
								f.externs[e], changed = true, true
							}
						}
					}
				}
				return true
			})
		}
	}
}

// aliasWorthy: values with reference semantics and internal state (a stream position): `x := y` makes x another NAME for
// the same object, so the translation gives both the same Lean variable
func aliasWorthy(t types.Type) bool {
	if isByteDecoder(t) || glDevirt(t) != nil {
		return true
	}
	if pt, ok := t.(*types.Pointer); ok && isNamed(pt.Elem(), "bytes", "Reader") {
		return true
	}
	return false
}

// aliasesIn: local `x := y` definitions between alias-worthy identifiers (x ↦ y)
func aliasesIn(p *packages.Package, n ast.Node) map[types.Object]types.Object {
	out := map[types.Object]types.Object{}
	ast.Inspect(n, func(n ast.Node) bool {
		as, ok := n.(*ast.AssignStmt)
		if !ok || as.Tok != token.DEFINE || len(as.Lhs) != 1 || len(as.Rhs) != 1 {
			return true
		}
		lid, lok := as.Lhs[0].(*ast.Ident)
		rid, rok := ast.Unparen(as.Rhs[0]).(*ast.Ident)
		if !lok || !rok {
			return true
		}
		lo, ro := p.TypesInfo.Defs[lid], p.TypesInfo.Uses[rid]
		if lo != nil && ro != nil && aliasWorthy(ro.Type()) {
			out[lo] = ro
		}
		return true
	})
	return out
}

func refLike(t types.Type) bool {
	if glDevirt(t) != nil {
		return true
	}
	if isByteDecoder(t) {
		return true // a byte decoder handed to a callee comes back advanced
	}
	switch u := t.Underlying().(type) {
	case *types.Slice:
		return true
	case *types.Pointer:
		_ = u
		return true
	}
	return false
}

// ---------- types ----------

func (g *glGen) leanType(p *packages.Package, t types.Type, n ast.Node) string {
	s, ok := g.leanTypeOK(t)
	if !ok {
		glFail(p, n, "unsupported type %s", t)
	}
	return s
}

func (g *glGen) leanTypeOK(t types.Type) (string, bool) {
	if tp, ok := t.(*types.TypeParam); ok {
		return tp.Obj().Name(), true
	}
	if isNamed(t, "bytes", "Reader") || isByteDecoder(t) {
		return "Go.BytesReader", true
	}
	if isNamed(t, "bytes", "Buffer") {
		return "(List UInt8)", true
	}
	if isErrorType(t) {
		return "Go.Error", true // only reached in functions translated with errors as data
	}
	if isNamed(t, "io", "ReaderAt") || isNamed(t, "io", "SectionReader") || isNamed(t, "os", "File") {
		return "Go.ReaderAt", true
	}
	if pt, ok := t.(*types.Pointer); ok && (isNamed(pt.Elem(), "io", "SectionReader") || isNamed(pt.Elem(), "os", "File")) {
		return "Go.ReaderAt", true // *os.File: only its ReadAt is used (io.ReaderAt contract, trusted base)
	}
	if nt, ok := t.(*types.Named); ok {
		if _, isStruct := nt.Underlying().(*types.Struct); isStruct {
			return g.structName(nt), true
		}
		if dv := glDevirt(nt); dv != nil {
			return g.structName(dv), true
		}
	}
	if a, ok := t.(*types.Alias); ok {
		return g.leanTypeOK(types.Unalias(a))
	}
	switch u := t.Underlying().(type) {
	case *types.Basic:
		switch u.Kind() {
		case types.Uint8:
			return "UInt8", true
		case types.Uint16:
			return "UInt16", true
		case types.Uint32:
			return "UInt32", true
		case types.Uint64, types.Uint, types.Uintptr:
			return "UInt64", true
		case types.Int, types.Int64, types.UntypedInt:
			return "Int", true
		case types.Bool, types.UntypedBool:
			return "Bool", true
		case types.String, types.UntypedString:
			return "String", true
		}
	case *types.Slice:
		if e, ok := g.leanTypeOK(u.Elem()); ok {
			return "(List " + e + ")", true
		}
	case *types.Array:
		if e, ok := g.leanTypeOK(u.Elem()); ok {
			return "(List " + e + ")", true
		}
	case *types.Pointer:
		switch u.Elem().Underlying().(type) {
		case *types.Array, *types.Struct:
			return g.leanTypeOK(u.Elem())
		}
		// a pointer to a number (or to such a pointer) is an optional value: nil = none, `*p` on nil panics (Go.deref);
		// read-only — a write through such a pointer is not translated
		if nilablePtr(u) {
			if e, ok := g.leanTypeOK(u.Elem()); ok {
				return "(Option " + e + ")", true
			}
		}
	case *types.Signature:
		var ps []string
		for i := 0; i < u.Params().Len(); i++ {
			s, ok := g.leanTypeOK(u.Params().At(i).Type())
			if !ok {
				return "", false
			}
			ps = append(ps, s)
		}
		var rs []string
		for i := 0; i < u.Results().Len(); i++ {
			rt := u.Results().At(i).Type()
			if isErrorType(rt) && i == u.Results().Len()-1 {
				continue
			}
			s, ok := g.leanTypeOK(rt)
			if !ok {
				return "", false
			}
			rs = append(rs, s)
		}
		return "(" + strings.Join(append(ps, "M "+tupleType(rs)), " → ") + ")", true
	}
	return "", false
}

func tupleType(rs []string) string {
	switch len(rs) {
	case 0:
		return "Unit"
	case 1:
		return rs[0]
	}
	return "(" + strings.Join(rs, " × ") + ")"
}

func tupleTerm(rs []string) string {
	switch len(rs) {
	case 0:
		return "()"
	case 1:
		return rs[0]
	}
	return "(" + strings.Join(rs, ", ") + ")"
}

func isErrorType(t types.Type) bool {
	n, ok := t.(*types.Named)
	return ok && n.Obj().Pkg() == nil && n.Obj().Name() == "error"
}

func (g *glGen) structName(nt *types.Named) string {
	nt = nt.Origin()
	if s, ok := g.structs[nt]; ok {
		return s
	}
	pk := ""
	if nt.Obj().Pkg() != nil {
		parts := strings.Split(nt.Obj().Pkg().Path(), "/")
		pk = parts[len(parts)-1]
		pk = strings.ReplaceAll(pk, "-", "")
	}
	s := strings.ToUpper(pk[:1]) + pk[1:] + "_" + nt.Obj().Name()
	g.structs[nt] = s
	g.structQ = append(g.structQ, nt)
	return s
}

func (g *glGen) zero(t types.Type) (string, bool) {
	if _, ok := t.(*types.TypeParam); ok {
		return "default", true
	}
	if isNamed(t, "bytes", "Reader") || isByteDecoder(t) {
		return "(Go.BytesReader.mk [] 0)", true
	}
	if isNamed(t, "bytes", "Buffer") {
		return "([] : List UInt8)", true
	}
	if isErrorType(t) {
		return "Go.Error.nil", true
	}
	if isNamed(t, "io", "ReaderAt") || isNamed(t, "io", "SectionReader") || isNamed(t, "os", "File") {
		return "(default : Go.ReaderAt)", true
	}
	if pt, ok := t.(*types.Pointer); ok && (isNamed(pt.Elem(), "io", "SectionReader") || isNamed(pt.Elem(), "os", "File")) {
		return "(default : Go.ReaderAt)", true
	}
	if nt, ok := t.(*types.Named); ok {
		if _, isStruct := nt.Underlying().(*types.Struct); isStruct {
			return g.structName(nt) + ".zero", true
		}
	}
	switch u := t.Underlying().(type) {
	case *types.Basic:
		switch u.Kind() {
		case types.Uint8, types.Uint16, types.Uint32, types.Uint64, types.Uint, types.Uintptr, types.Int, types.Int64:
			lt, _ := g.leanTypeOK(t)
			return "(0 : " + lt + ")", true
		case types.Bool:
			return "false", true
		case types.String:
			return "\"\"", true
		}
	case *types.Slice:
		lt, ok := g.leanTypeOK(t)
		return "([] : " + lt + ")", ok
	case *types.Array:
		z, ok := g.zero(u.Elem())
		return fmt.Sprintf("(List.replicate %d %s)", u.Len(), z), ok
	case *types.Pointer:
		if nilablePtr(u) {
			return "none", true
		}
		return g.zero(u.Elem())
	}
	return "", false
}

// nilablePtr: `*int`, `**uint64`, … — pointers that the tree uses as optional numbers
func nilablePtr(t types.Type) bool {
	p, ok := t.Underlying().(*types.Pointer)
	if !ok {
		return false
	}
	switch e := p.Elem().Underlying().(type) {
	case *types.Basic:
		return e.Info()&types.IsNumeric != 0
	case *types.Pointer:
		return nilablePtr(e)
	}
	return false
}

func (g *glGen) structDefs() string {
	var b strings.Builder
	// structQ may grow while we emit (nested structs): iterate by index; emit dependencies first
	emitted := map[*types.Named]bool{}
	var emit func(nt *types.Named)
	var chunks []string
	emit = func(nt *types.Named) {
		if emitted[nt] {
			return
		}
		emitted[nt] = true
		st := nt.Underlying().(*types.Struct)
		name := g.structName(nt)
		var fields, zeros []string
		for i := 0; i < st.NumFields(); i++ {
			f := st.Field(i)
			ft := f.Type()
			if _, ok2 := g.leanTypeOK(ft); ok2 {
				for _, dep := range namedStructsIn(ft) {
					emit(dep)
				}
			}
			lt, ok := g.leanTypeOK(ft)
			z, ok2 := g.zero(ft)
			if !ok || !ok2 {
				continue // field of an unsupported type: not part of the Lean structure; any use fails the translation
			}
			if _, isSig := ft.Underlying().(*types.Signature); isSig {
				continue
			}
			fields = append(fields, fmt.Sprintf("  %s : %s", leanIdent(f.Name()), lt))
			zeros = append(zeros, fmt.Sprintf("%s := %s", leanIdent(f.Name()), z))
		}
		var c strings.Builder
		deriving := "deriving Repr, DecidableEq\n"
		if strings.Contains(strings.Join(fields, " "), "Go.ReaderAt") || strings.Contains(strings.Join(fields, " "), "→") {
			deriving = "" // function-valued fields
		}
		fmt.Fprintf(&c, "/-- %s.%s -/\nstructure %s where\n%s\n%s", nt.Obj().Pkg().Path(), nt.Obj().Name(), name, strings.Join(fields, "\n"), deriving)
		fmt.Fprintf(&c, "def %s.zero : %s := { %s }\ninstance : Inhabited %s := ⟨%s.zero⟩\n\n", name, name, strings.Join(zeros, ", "), name, name)
		chunks = append(chunks, c.String())
	}
	for i := 0; i < len(g.structQ); i++ {
		emit(g.structQ[i])
	}
	for _, c := range chunks {
		b.WriteString(c)
	}
	return b.String()
}

// namedStructsIn: the named struct types a type is built from (through pointers, slices and arrays)
func namedStructsIn(t types.Type) []*types.Named {
	switch u := t.(type) {
	case *types.Named:
		if isNamed(u, "io", "SectionReader") || isNamed(u, "bytes", "Reader") || isNamed(u, "bytes", "Buffer") || isNamed(u, "os", "File") {
			return nil // given a meaning in GoSem, not translated as structures
		}
		if _, ok := u.Underlying().(*types.Struct); ok {
			return []*types.Named{u.Origin()}
		}
		return namedStructsIn(u.Underlying())
	case *types.Pointer:
		return namedStructsIn(u.Elem())
	case *types.Slice:
		return namedStructsIn(u.Elem())
	case *types.Array:
		return namedStructsIn(u.Elem())
	case *types.Alias:
		return namedStructsIn(types.Unalias(u))
	}
	return nil
}

func leanIdent(s string) string {
	if leanKeywords[s] {
		return s + "_"
	}
	if s == "_" {
		return "_"
	}
	return s
}

// ---------- per-function translation ----------

type glCtx struct {
	g       *glGen
	f       *glFunc
	p       *packages.Package
	names   map[types.Object]string
	used    map[string]int
	lines   []string
	indent  int
	tmp     int
	loopCtr *int
	aux     []string // loop definitions, in emission order
	retType string
	results []types.Object // named results (nil entries when unnamed)
	sig     *types.Signature
	// loop context
	inLoop     bool
	loopState  []types.Object
	loopPost   func()
	loopRecur  func() string
	retWrap    func(string) string // wraps a function-level return value (".ret" inside loops)
	mutObjs    []types.Object      // receiver / params whose new value is returned, in order
	declared   map[types.Object]bool
	fuelName   string
	errData    bool // errors are values (compared, stored, returned as data) instead of travelling through the monad
}

func (c *glCtx) emit(format string, a ...any) {
	c.lines = append(c.lines, strings.Repeat("  ", c.indent)+fmt.Sprintf(format, a...))
}

func (c *glCtx) fresh(prefix string) string {
	c.tmp++
	return fmt.Sprintf("%s%d", prefix, c.tmp)
}

func (c *glCtx) nameOf(o types.Object) string {
	if n, ok := c.names[o]; ok {
		return n
	}
	base := leanIdent(o.Name())
	if base == "_" {
		base = "blank"
	}
	n := base
	if k := c.used[base]; k > 0 {
		n = fmt.Sprintf("%s_%d", base, k)
	}
	c.used[base]++
	c.names[o] = n
	return n
}

func (c *glCtx) fail(n ast.Node, format string, a ...any) { glFail(c.p, n, format, a...) }

// monErr: t is the error type AND errors travel through the monad in this function
func (c *glCtx) monErr(t types.Type) bool { return isErrorType(t) && !c.errData }

func (c *glCtx) typeOf(e ast.Expr) types.Type { return c.p.TypesInfo.TypeOf(e) }

func (c *glCtx) lt(t types.Type, n ast.Node) string { return c.g.leanType(c.p, t, n) }

func isIntType(t types.Type) bool {
	b, ok := t.Underlying().(*types.Basic)
	return ok && (b.Kind() == types.Int || b.Kind() == types.Int64 || b.Kind() == types.UntypedInt)
}

func uintBits(t types.Type) int {
	b, ok := t.Underlying().(*types.Basic)
	if !ok {
		return 0
	}
	switch b.Kind() {
	case types.Uint8:
		return 8
	case types.Uint16:
		return 16
	case types.Uint32:
		return 32
	case types.Uint64, types.Uint, types.Uintptr:
		return 64
	}
	return 0
}

func (g *glGen) translate(f *glFunc) (src string, err error) {
	defer func() {
		if r := recover(); r != nil {
			if ge, ok := r.(glErr); ok {
				err = fmt.Errorf("%s", ge.msg)
				return
			}
			panic(r)
		}
	}()
	c := &glCtx{g: g, f: f, p: f.p, names: map[types.Object]string{}, used: map[string]int{}, declared: map[types.Object]bool{}, fuelName: "fuel", loopCtr: new(int), errData: glErrData[f.spec.lean]}
	sig := f.obj.Type().(*types.Signature)
	c.sig = sig
	c.used["fuel"] = 1
	var params []string
	// type parameters
	if tps := sig.TypeParams(); tps != nil {
		for i := 0; i < tps.Len(); i++ {
			params = append(params, fmt.Sprintf("{%s : Type} [Inhabited %s]", tps.At(i).Obj().Name(), tps.At(i).Obj().Name()))
		}
	}
	if rtps := sig.RecvTypeParams(); rtps != nil {
		for i := 0; i < rtps.Len(); i++ {
			params = append(params, fmt.Sprintf("{%s : Type} [Inhabited %s]", rtps.At(i).Obj().Name(), rtps.At(i).Obj().Name()))
		}
	}
	var exts []string
	for e := range f.externs {
		exts = append(exts, e)
	}
	sort.Strings(exts)
	for _, e := range exts {
		params = append(params, fmt.Sprintf("(%s : %s)", glExterns[e].param, glExterns[e].leanType))
		c.used[glExterns[e].param] = 1
	}
	if f.needsFuel {
		params = append(params, "(fuel : Nat)")
	}
	var shadow []types.Object
	if sig.Recv() != nil {
		r := sig.Recv()
		params = append(params, fmt.Sprintf("(%s : %s)", c.nameOf(r), c.lt(r.Type(), f.decl)))
		shadow = append(shadow, r)
		if f.mutRecv {
			c.mutObjs = append(c.mutObjs, r)
		}
	}
	for i := 0; i < sig.Params().Len(); i++ {
		pv := sig.Params().At(i)
		params = append(params, fmt.Sprintf("(%s : %s)", c.nameOf(pv), c.lt(pv.Type(), f.decl)))
		shadow = append(shadow, pv)
		if f.mutParams[i] {
			c.mutObjs = append(c.mutObjs, pv)
		}
	}
	// result type
	var rts []string
	hasErr := false
	for i := 0; i < sig.Results().Len(); i++ {
		rv := sig.Results().At(i)
		if c.monErr(rv.Type()) && i == sig.Results().Len()-1 {
			hasErr = true
			c.results = append(c.results, rv)
			continue
		}
		rts = append(rts, c.lt(rv.Type(), f.decl))
		c.results = append(c.results, rv)
	}
	_ = hasErr
	for _, o := range c.mutObjs {
		rts = append(rts, c.lt(o.Type(), f.decl))
	}
	c.retType = tupleType(rts)
	c.retWrap = func(s string) string { return s }
	c.indent = 1
	// parameters assigned in the body become mutable copies
	assigned := assignedObjs(c.p, f.decl.Body)
	for _, o := range shadow {
		c.declared[o] = true
		if assigned[o] || containsObj(c.mutObjs, o) {
			c.emit("let mut %s := %s", c.nameOf(o), c.nameOf(o))
		}
	}
	// named results
	for _, rv := range c.results {
		if rv.Name() != "" && rv.Name() != "_" && !c.monErr(rv.Type()) {
			z, ok := g.zero(rv.Type())
			if !ok {
				c.fail(f.decl, "zero value of %s", rv.Type())
			}
			c.emit("let mut %s : %s := %s", c.nameOf(rv), c.lt(rv.Type(), f.decl), z)
			c.declared[rv] = true
		}
	}
	terminated := c.block(f.decl.Body.List)
	if !terminated {
		c.emitReturn(nil, f.decl)
	}
	head := fmt.Sprintf("def %s %s : M %s := do\n", f.spec.lean, strings.Join(params, " "), c.retType)
	if f.selfRec {
		// structural recursion on fuel: `def f {T} (externs) : Nat → P1 → … → M R | 0, .. => hang | fuel+1, p1, .. => do body`
		var implicit, types_, names []string
		seenFuel := false
		for _, p := range params {
			switch {
			case p == "(fuel : Nat)":
				seenFuel = true
			case strings.HasPrefix(p, "{"):
				implicit = append(implicit, p)
			case !seenFuel:
				implicit = append(implicit, p) // externs come before the fuel
			default:
				inner := strings.TrimSuffix(strings.TrimPrefix(p, "("), ")")
				kv := strings.SplitN(inner, " : ", 2)
				names = append(names, kv[0])
				types_ = append(types_, kv[1])
			}
		}
		us := make([]string, len(names))
		for i := range us {
			us[i] = "_"
		}
		var b strings.Builder
		fmt.Fprintf(&b, "def %s %s : Nat%s → M %s\n", f.spec.lean, strings.Join(implicit, " "), prefixEach(" → ", types_), c.retType)
		fmt.Fprintf(&b, "  | 0%s => throw Err.hang\n", prefixEach(", ", us))
		fmt.Fprintf(&b, "  | fuel+1%s => do\n", prefixEach(", ", names))
		for _, l := range c.lines {
			b.WriteString("  " + l + "\n")
		}
		return strings.Join(c.aux, "") + b.String(), nil
	}
	return strings.Join(c.aux, "") + head + strings.Join(c.lines, "\n") + "\n", nil
}

func containsObj(xs []types.Object, o types.Object) bool {
	for _, x := range xs {
		if x == o {
			return true
		}
	}
	return false
}

// assignedObjs: objects that are the root of some assignment target in the statement list
func assignedObjs(p *packages.Package, n ast.Node) map[types.Object]bool {
	out := map[types.Object]bool{}
	root := func(e ast.Expr) {
		for {
			switch x := e.(type) {
			case *ast.ParenExpr:
				e = x.X
				continue
			case *ast.StarExpr:
				e = x.X
				continue
			case *ast.SliceExpr:
				e = x.X
				continue
			case *ast.IndexExpr:
				e = x.X
				continue
			case *ast.SelectorExpr:
				e = x.X
				continue
			}
			break
		}
		if id, ok := e.(*ast.Ident); ok {
			if o := p.TypesInfo.Uses[id]; o != nil {
				out[o] = true
			}
			if o := p.TypesInfo.Defs[id]; o != nil {
				out[o] = true
			}
		}
	}
	ast.Inspect(n, func(n ast.Node) bool {
		switch x := n.(type) {
		case *ast.AssignStmt:
			for _, l := range x.Lhs {
				root(l)
			}
		case *ast.IncDecStmt:
			root(x.X)
		case *ast.RangeStmt:
			if x.Key != nil {
				root(x.Key)
			}
			if x.Value != nil {
				root(x.Value)
			}
		case *ast.CallExpr:
			// every argument that may be written through (not: len/cap and conversions, which only read)
			if id, ok := ast.Unparen(x.Fun).(*ast.Ident); ok {
				if b, isB := p.TypesInfo.Uses[id].(*types.Builtin); isB && (b.Name() == "len" || b.Name() == "cap") {
					return true
				}
			}
			if tv, ok := p.TypesInfo.Types[x.Fun]; ok && tv.IsType() {
				return true
			}
			if cf := calleeOf(p, x); cf != nil && qualName(cf) == "io.ReadFull" && len(x.Args) == 2 {
				root(x.Args[0]) // the stream advances
				root(x.Args[1])
			}
			for _, a := range x.Args {
				switch a.(type) {
				case *ast.Ident, *ast.SliceExpr, *ast.SelectorExpr, *ast.IndexExpr:
					if t := p.TypesInfo.TypeOf(a); t != nil && refLike(t) {
						root(a)
					}
				case *ast.UnaryExpr:
					root(a.(*ast.UnaryExpr).X)
				}
			}
			if se, ok := x.Fun.(*ast.SelectorExpr); ok {
				if sel, isCall := p.TypesInfo.Selections[se]; isCall {
					// a method call may write through its receiver — except through an interface value (io.ReaderAt …):
					// what the dynamic receiver does to itself is not a write to the variable holding it
					if _, isIface := sel.Recv().Underlying().(*types.Interface); !isIface || isByteDecoder(sel.Recv()) {
						root(se.X)
					}
				}
			}
		}
		return true
	})
	return out
}

// declaredIn: objects declared inside n
func declaredIn(p *packages.Package, n ast.Node) map[types.Object]bool {
	out := map[types.Object]bool{}
	ast.Inspect(n, func(n ast.Node) bool {
		if id, ok := n.(*ast.Ident); ok {
			if o := p.TypesInfo.Defs[id]; o != nil {
				out[o] = true
			}
		}
		return true
	})
	return out
}

func usedIn(p *packages.Package, n ast.Node) map[types.Object]bool {
	out := map[types.Object]bool{}
	ast.Inspect(n, func(n ast.Node) bool {
		if id, ok := n.(*ast.Ident); ok {
			if o := p.TypesInfo.Uses[id]; o != nil {
				if _, isVar := o.(*types.Var); isVar {
					out[o] = true
				}
			}
		}
		return true
	})
	return out
}

// block translates a statement list; returns true when control cannot fall out of its end
func (c *glCtx) block(stmts []ast.Stmt) bool {
	for i := 0; i < len(stmts); i++ {
		st := stmts[i]
		// idiom: `.., err := call(..)` / `err = call(..)` followed by `if err != nil { return .. }`
		if as, ok := st.(*ast.AssignStmt); ok && i+1 < len(stmts) {
			if errObj := c.errTarget(as); errObj != nil {
				if ifs, ok := stmts[i+1].(*ast.IfStmt); ok && ifs.Init == nil && c.isErrCheckReturn(ifs, errObj) {
					c.assign(as, true)
					i++
					continue
				}
			}
		}
		if c.stmt(st) {
			if i+1 < len(stmts) {
				c.fail(stmts[i+1], "unreachable statement")
			}
			return true
		}
	}
	return false
}

// errTarget: the error variable assigned from a call by this statement (last lhs of type error), or nil
func (c *glCtx) errTarget(as *ast.AssignStmt) types.Object {
	if len(as.Rhs) != 1 {
		return nil
	}
	if _, ok := ast.Unparen(as.Rhs[0]).(*ast.CallExpr); !ok {
		return nil
	}
	last, ok := as.Lhs[len(as.Lhs)-1].(*ast.Ident)
	if !ok {
		return nil
	}
	o := c.p.TypesInfo.Defs[last]
	if o == nil {
		o = c.p.TypesInfo.Uses[last]
	}
	if o == nil || !c.monErr(o.Type()) {
		return nil
	}
	return o
}

func (c *glCtx) isErrCheckReturn(ifs *ast.IfStmt, errObj types.Object) bool {
	be, ok := ast.Unparen(ifs.Cond).(*ast.BinaryExpr)
	if !ok || be.Op != token.NEQ || ifs.Else != nil {
		return false
	}
	id, ok := be.X.(*ast.Ident)
	if !ok || c.p.TypesInfo.Uses[id] != errObj {
		return false
	}
	if nl, ok := be.Y.(*ast.Ident); !ok || nl.Name != "nil" {
		return false
	}
	if len(ifs.Body.List) != 1 {
		return false
	}
	rs, ok := ifs.Body.List[0].(*ast.ReturnStmt)
	if !ok || len(rs.Results) == 0 {
		return false
	}
	// the returned error must mention err
	mentions := false
	ast.Inspect(rs.Results[len(rs.Results)-1], func(n ast.Node) bool {
		if id, ok := n.(*ast.Ident); ok && c.p.TypesInfo.Uses[id] == errObj {
			mentions = true
		}
		return true
	})
	return mentions
}

func (c *glCtx) stmt(st ast.Stmt) (terminated bool) {
	switch s := st.(type) {
	case *ast.EmptyStmt:
		return false
	case *ast.BlockStmt:
		return c.block(s.List)
	case *ast.DeclStmt:
		gd, ok := s.Decl.(*ast.GenDecl)
		if !ok {
			c.fail(st, "declaration")
		}
		if gd.Tok == token.CONST {
			return false
		}
		if gd.Tok != token.VAR {
			c.fail(st, "declaration %s", gd.Tok)
		}
		for _, sp := range gd.Specs {
			vs := sp.(*ast.ValueSpec)
			for i, n := range vs.Names {
				o := c.p.TypesInfo.Defs[n]
				if c.monErr(o.Type()) {
					continue // `var err error`: errors travel through the monad
				}
				var val string
				if i < len(vs.Values) {
					val = c.expr(vs.Values[i])
				} else {
					z, ok := c.g.zero(o.Type())
					if !ok {
						c.fail(st, "zero value of %s", o.Type())
					}
					val = z
				}
				c.declare(o, val, st)
			}
		}
		return false
	case *ast.AssignStmt:
		c.assign(s, false)
		return false
	case *ast.IncDecStmt:
		one := &ast.BasicLit{Kind: token.INT, Value: "1"}
		op := token.ADD
		if s.Tok == token.DEC {
			op = token.SUB
		}
		t := c.typeOf(s.X)
		val := c.arith(op, c.expr(s.X), c.constOfType(1, t, st), t, t, s)
		_ = one
		c.store(s.X, val)
		return false
	case *ast.ExprStmt:
		call, ok := ast.Unparen(s.X).(*ast.CallExpr)
		if !ok {
			c.fail(st, "expression statement")
		}
		if id, ok := call.Fun.(*ast.Ident); ok && id.Name == "panic" {
			if _, isB := c.p.TypesInfo.Uses[id].(*types.Builtin); isB {
				msg := "panic"
				if tv := c.p.TypesInfo.Types[call.Args[0]]; tv.Value != nil && tv.Value.Kind() == constant.String {
					msg = constant.StringVal(tv.Value)
				}
				c.emit("throw (Err.panic %q)", msg)
				return true
			}
		}
		c.callStmt(call)
		return false
	case *ast.ReturnStmt:
		c.emitReturn(s, st)
		return true
	case *ast.IfStmt:
		return c.ifStmt(s)
	case *ast.ForStmt:
		c.forStmt(s)
		return false
	case *ast.RangeStmt:
		c.rangeStmt(s)
		return false
	case *ast.BranchStmt:
		if s.Label != nil || !c.inLoop {
			c.fail(st, "labelled or misplaced %s", s.Tok)
		}
		switch s.Tok {
		case token.BREAK:
			c.emit("return (LoopRes.done %s)", c.stateTerm())
		case token.CONTINUE:
			if c.loopPost != nil {
				c.loopPost()
			}
			c.emit("return (← %s)", c.loopRecur())
		default:
			c.fail(st, "branch %s", s.Tok)
		}
		return true
	}
	c.fail(st, "statement %T", st)
	return false
}

func (c *glCtx) stateTerm() string {
	var xs []string
	for _, o := range c.loopState {
		xs = append(xs, c.nameOf(o))
	}
	return tupleTerm(xs)
}

func (c *glCtx) constOfType(v int64, t types.Type, n ast.Node) string {
	return fmt.Sprintf("(%d : %s)", v, c.lt(t, n))
}

func (c *glCtx) declare(o types.Object, val string, n ast.Node) {
	if o.Name() == "_" {
		return
	}
	c.declared[o] = true
	c.emit("let mut %s : %s := %s", c.nameOf(o), c.lt(o.Type(), n), val)
}

// assign handles =, :=, op= ; errIdiom: the last lhs is an error variable that the following `if` only propagates
func (c *glCtx) assign(s *ast.AssignStmt, errIdiom bool) {
	lhs := s.Lhs
	if errIdiom {
		lhs = lhs[:len(lhs)-1]
	}
	if s.Tok != token.ASSIGN && s.Tok != token.DEFINE {
		opTok := map[token.Token]token.Token{token.ADD_ASSIGN: token.ADD, token.SUB_ASSIGN: token.SUB, token.MUL_ASSIGN: token.MUL,
			token.QUO_ASSIGN: token.QUO, token.REM_ASSIGN: token.REM, token.AND_ASSIGN: token.AND, token.OR_ASSIGN: token.OR,
			token.XOR_ASSIGN: token.XOR, token.SHL_ASSIGN: token.SHL, token.SHR_ASSIGN: token.SHR}[s.Tok]
		if len(s.Lhs) != 1 || opTok == token.ILLEGAL {
			c.fail(s, "assignment operator")
		}
		val := c.binary(&ast.BinaryExpr{X: s.Lhs[0], Op: opTok, Y: s.Rhs[0], OpPos: s.TokPos}, c.typeOf(s.Lhs[0]))
		c.store(s.Lhs[0], val)
		return
	}
	if len(s.Rhs) == 1 && (len(s.Lhs) > 1 || errIdiom) {
		// multi-value: call or comma-ok forms
		call, ok := ast.Unparen(s.Rhs[0]).(*ast.CallExpr)
		if !ok {
			c.fail(s, "multi-value assignment from %T", s.Rhs[0])
		}
		vals := c.callMulti(call, len(lhs))
		for i, l := range lhs {
			c.storeOrDeclare(l, vals[i], s)
		}
		return
	}
	if len(s.Lhs) != len(s.Rhs) {
		c.fail(s, "assignment arity")
	}
	if len(s.Lhs) == 1 && s.Tok == token.DEFINE {
		// `x := y` between stream-like values: x is another name for y
		if lid, ok := s.Lhs[0].(*ast.Ident); ok {
			if rid, ok := ast.Unparen(s.Rhs[0]).(*ast.Ident); ok {
				lo, ro := c.p.TypesInfo.Defs[lid], c.p.TypesInfo.Uses[rid]
				if lo != nil && ro != nil && aliasWorthy(ro.Type()) && c.declared[ro] {
					c.names[lo] = c.nameOf(ro)
					c.declared[lo] = true
					return
				}
			}
		}
	}
	if len(s.Lhs) == 1 {
		if id, ok := s.Lhs[0].(*ast.Ident); ok {
			o := c.p.TypesInfo.Defs[id]
			if o == nil {
				o = c.p.TypesInfo.Uses[id]
			}
			if o != nil && c.monErr(o.Type()) {
				c.fail(s, "error value stored in a variable outside the propagate idiom")
			}
		}
		c.storeOrDeclare(s.Lhs[0], c.exprAs(s.Rhs[0], c.typeOf(s.Lhs[0])), s)
		return
	}
	// parallel assignment: evaluate all, then store
	var vals []string
	for i, r := range s.Rhs {
		t := c.fresh("t")
		c.emit("let %s := %s", t, c.exprAs(r, c.typeOf(s.Lhs[i])))
		vals = append(vals, t)
	}
	for i, l := range s.Lhs {
		c.storeOrDeclare(l, vals[i], s)
	}
}

func (c *glCtx) storeOrDeclare(l ast.Expr, val string, n ast.Node) {
	if id, ok := l.(*ast.Ident); ok {
		if id.Name == "_" {
			c.emit("let _ := %s", val)
			return
		}
		if o := c.p.TypesInfo.Defs[id]; o != nil {
			c.declare(o, val, n)
			return
		}
	}
	c.store(l, val)
}

// store writes val into the lvalue expression l
func (c *glCtx) store(l ast.Expr, val string) {
	switch x := l.(type) {
	case *ast.ParenExpr:
		c.store(x.X, val)
	case *ast.StarExpr:
		c.store(x.X, val)
	case *ast.UnaryExpr:
		if x.Op == token.AND {
			c.store(x.X, val)
			return
		}
		c.fail(l, "store target")
	case *ast.Ident:
		if x.Name == "_" {
			return
		}
		o := c.p.TypesInfo.Uses[x]
		if o == nil {
			o = c.p.TypesInfo.Defs[x]
		}
		if o == nil || !c.declared[o] {
			c.fail(l, "store to %s (not a local variable)", x.Name)
		}
		c.emit("%s := %s", c.nameOf(o), val)
	case *ast.SelectorExpr:
		sel := c.p.TypesInfo.Selections[x]
		if sel == nil || sel.Kind() != types.FieldVal {
			c.fail(l, "store to selector")
		}
		base := c.expr(x.X)
		// path through embedded fields
		path := c.fieldPath(x, sel)
		// build nested update
		upd := val
		for i := len(path) - 1; i >= 0; i-- {
			prefix := base
			for _, pth := range path[:i] {
				prefix += "." + pth
			}
			upd = fmt.Sprintf("{ %s with %s := %s }", prefix, path[i], upd)
		}
		c.store(x.X, upd)
	case *ast.IndexExpr:
		base := c.expr(x.X)
		t := c.fresh("t")
		c.emit("let %s ← Go.setIdx %s %s %s", t, base, c.intExpr(x.Index), val)
		c.store(x.X, t)
	case *ast.SliceExpr:
		if x.Slice3 {
			c.fail(l, "3-index slice")
		}
		if x.Low == nil && x.High == nil {
			c.store(x.X, val)
			return
		}
		base := c.expr(x.X)
		lo := "(0 : Int)"
		if x.Low != nil {
			lo = c.intExpr(x.Low)
		}
		c.store(x.X, fmt.Sprintf("(Go.setSlice %s %s %s)", base, lo, val))
	default:
		c.fail(l, "store target %T", l)
	}
}

func (c *glCtx) fieldPath(x *ast.SelectorExpr, sel *types.Selection) []string {
	var path []string
	t := sel.Recv()
	for _, idx := range sel.Index() {
		if pt, ok := t.Underlying().(*types.Pointer); ok {
			t = pt.Elem()
		}
		st, ok := t.Underlying().(*types.Struct)
		if !ok {
			c.fail(x, "selector through non-struct")
		}
		f := st.Field(idx)
		if _, ok := c.g.leanTypeOK(f.Type()); !ok {
			c.fail(x, "field %s has an unsupported type", f.Name())
		}
		path = append(path, leanIdent(f.Name()))
		t = f.Type()
	}
	return path
}

func (c *glCtx) emitReturn(s *ast.ReturnStmt, n ast.Node) {
	var vals []string
	if s == nil || len(s.Results) == 0 {
		for _, rv := range c.results {
			if c.monErr(rv.Type()) {
				continue
			}
			if rv.Name() == "" || rv.Name() == "_" {
				if s == nil {
					c.fail(n, "function end reached without return")
				}
				c.fail(n, "bare return without named results")
			}
			vals = append(vals, c.nameOf(rv))
		}
	} else if len(s.Results) == 1 && len(c.results) > 1 {
		// return f(..) forwarding several results
		call, ok := ast.Unparen(s.Results[0]).(*ast.CallExpr)
		if !ok {
			c.fail(n, "return arity")
		}
		nn := 0
		for _, rv := range c.results {
			if !c.monErr(rv.Type()) {
				nn++
			}
		}
		vals = c.callMulti(call, nn)
	} else {
		if len(s.Results) != len(c.results) {
			c.fail(n, "return arity")
		}
		// error result first: a non-nil error aborts
		for i, r := range s.Results {
			if !c.monErr(c.results[i].Type()) {
				continue
			}
			if id, ok := ast.Unparen(r).(*ast.Ident); ok && id.Name == "nil" {
				continue
			}
			// a call returning error only: `return f(..)`
			if call, ok := ast.Unparen(r).(*ast.CallExpr); ok {
				if tag, ok := c.errorCtor(call); ok {
					c.emit("throw (Err.err %q)", tag)
					return
				}
				if cf := calleeOf(c.p, call); cf != nil && c.g.funcs[cf] == nil {
					// an error built by a function outside the translated set (NewErrX(..)): tagged by its name
					if sg, ok := cf.Type().(*types.Signature); ok && sg.Results().Len() == 1 && (isErrorType(sg.Results().At(0).Type()) || implementsError(sg.Results().At(0).Type())) {
						c.emit("throw (Err.err %q)", cf.Name())
						return
					}
				}
				if len(s.Results) == 1 {
					c.callMulti(call, 0)
					continue
				}
			}
			if id, ok := ast.Unparen(r).(*ast.Ident); ok {
				if v, isVar := c.p.TypesInfo.Uses[id].(*types.Var); isVar && v.Parent() == v.Pkg().Scope() {
					c.emit("throw (Err.err %q)", id.Name)
					return
				}
			}
			if se, ok := ast.Unparen(r).(*ast.SelectorExpr); ok {
				if v, isVar := c.p.TypesInfo.Uses[se.Sel].(*types.Var); isVar && v.Pkg() != nil && v.Parent() == v.Pkg().Scope() {
					c.emit("throw (Err.err %q)", v.Pkg().Name()+"."+se.Sel.Name)
					return
				}
			}
			c.fail(n, "returned error expression")
		}
		for i, r := range s.Results {
			if c.monErr(c.results[i].Type()) {
				continue
			}
			vals = append(vals, c.exprAs(r, c.results[i].Type()))
		}
	}
	for _, o := range c.mutObjs {
		vals = append(vals, c.nameOf(o))
	}
	c.emit("return %s", c.retWrap(tupleTerm(vals)))
}

// errorCtor recognises errors.New / fmt.Errorf and returns a tag
func (c *glCtx) errorCtor(call *ast.CallExpr) (string, bool) {
	cf := calleeOf(c.p, call)
	if cf == nil {
		return "", false
	}
	switch qualName(cf) {
	case "errors.New", "fmt.Errorf":
		if tv := c.p.TypesInfo.Types[call.Args[0]]; tv.Value != nil && tv.Value.Kind() == constant.String {
			return constant.StringVal(tv.Value), true
		}
		return "error", true
	}
	return "", false
}

func (c *glCtx) ifStmt(s *ast.IfStmt) bool {
	if s.Init != nil {
		// `if err := f(..); err != nil { return .. }`
		if as, ok := s.Init.(*ast.AssignStmt); ok {
			if errObj := c.errTarget(as); errObj != nil && c.isErrCheckReturn(&ast.IfStmt{Cond: s.Cond, Body: s.Body, Else: s.Else}, errObj) {
				c.assign(as, true)
				return false
			}
		}
		c.stmt(s.Init)
	}
	cond := c.boolExpr(s.Cond)
	c.emit("if %s then", cond)
	c.indent++
	n0 := len(c.lines)
	t1 := c.block(s.Body.List)
	if len(c.lines) == n0 {
		c.emit("pure ()")
	}
	c.indent--
	t2 := false
	if s.Else != nil {
		c.emit("else")
		c.indent++
		n1 := len(c.lines)
		switch e := s.Else.(type) {
		case *ast.BlockStmt:
			t2 = c.block(e.List)
		case *ast.IfStmt:
			t2 = c.ifStmt(e)
		}
		if len(c.lines) == n1 {
			c.emit("pure ()")
		}
		c.indent--
	}
	return t1 && t2
}

// ---------- loops ----------

type loopParts struct {
	cond   ast.Expr
	post   ast.Stmt
	body   []ast.Stmt
	pre    func(*glCtx) // emitted at the start of each iteration after the condition (range: bind the value variable)
	preObj []types.Object
	node   ast.Node
	extraState []types.Object
}

func (c *glCtx) forStmt(s *ast.ForStmt) {
	if s.Init != nil {
		c.stmt(s.Init)
	}
	c.loop(loopParts{cond: s.Cond, post: s.Post, body: s.Body.List, node: s})
}

func (c *glCtx) rangeStmt(s *ast.RangeStmt) {
	t := c.typeOf(s.X)
	switch u := t.Underlying().(type) {
	case *types.Slice, *types.Array:
		_ = u
	case *types.Pointer:
		if _, ok := u.Elem().Underlying().(*types.Array); !ok {
			c.fail(s, "range over %s", t)
		}
	default:
		c.fail(s, "range over %s", t)
	}
	if s.Tok == token.ASSIGN {
		c.fail(s, "range with =")
	}
	// the ranged expression is evaluated once
	xs := c.fresh("rng")
	c.emit("let %s := %s", xs, c.expr(s.X))
	if assignedObjs(c.p, s.Body)[rootObj(c.p, s.X)] && rootObj(c.p, s.X) != nil {
		c.fail(s, "ranged collection modified in the loop body")
	}
	// index variable
	var keyObj types.Object
	if id, ok := s.Key.(*ast.Ident); ok && id.Name != "_" {
		keyObj = c.p.TypesInfo.Defs[id]
	}
	idx := c.fresh("ri")
	c.emit("let mut %s : Int := 0", idx)
	idxObj := types.NewVar(token.NoPos, nil, idx, types.Typ[types.Int])
	c.names[idxObj] = idx
	c.declared[idxObj] = true
	var valObj types.Object
	if id, ok := s.Value.(*ast.Ident); ok && id.Name != "_" {
		valObj = c.p.TypesInfo.Defs[id]
	}
	var elemT types.Type
	switch u := t.Underlying().(type) {
	case *types.Slice:
		elemT = u.Elem()
	case *types.Array:
		elemT = u.Elem()
	case *types.Pointer:
		elemT = u.Elem().Underlying().(*types.Array).Elem()
	}
	lp := loopParts{body: s.Body.List, node: s, extraState: []types.Object{idxObj}}
	condStr := fmt.Sprintf("decide (%s < Go.len %s)", idx, xs)
	lp.pre = func(sc *glCtx) {
		if keyObj != nil {
			sc.declare(keyObj, idx, s)
		}
		if valObj != nil {
			tv := sc.fresh("t")
			sc.emit("let %s ← Go.idx %s %s", tv, xs, idx)
			sc.declare(valObj, tv, s)
		}
	}
	_ = elemT
	c.loopWith(lp, condStr, func(sc *glCtx) { sc.emit("%s := Go.wrap64 (%s + 1)", idx, idx) }, []string{xs + " : " + c.lt(t, s)})
}

func rootObj(p *packages.Package, e ast.Expr) types.Object {
	for {
		switch x := e.(type) {
		case *ast.ParenExpr:
			e = x.X
			continue
		case *ast.StarExpr:
			e = x.X
			continue
		case *ast.SliceExpr:
			e = x.X
			continue
		case *ast.SelectorExpr:
			e = x.X
			continue
		}
		break
	}
	if id, ok := e.(*ast.Ident); ok {
		return p.TypesInfo.Uses[id]
	}
	return nil
}

func (c *glCtx) loop(lp loopParts) {
	c.loopWith(lp, "", nil, nil)
}

// loopWith emits the auxiliary loop definition and the call site.
// condStr/postFn override lp.cond / lp.post (used by range loops); extraFixed are extra "(name : type)" fixed parameters.
func (c *glCtx) loopWith(lp loopParts, condStr string, postFn func(*glCtx), extraFixed []string) {
	*c.loopCtr++
	loopName := fmt.Sprintf("%s.loop%d", c.f.spec.lean, *c.loopCtr)
	// variables: declared outside the loop & used inside
	inner := declaredIn(c.p, lp.node)
	if fs, ok := lp.node.(*ast.ForStmt); ok {
		// the variables of the init statement live across iterations: they are loop state, not per-iteration locals
		inner = declaredIn(c.p, fs.Body)
	}
	used := usedIn(c.p, lp.node)
	asg := assignedObjs(c.p, lp.node)
	var fixed, state []types.Object
	var all []types.Object
	for o := range used {
		if !inner[o] && c.declared[o] {
			all = append(all, o)
		}
	}
	// assigned-but-declared-outside objects that only appear as Defs roots are included through `used`
	sort.Slice(all, func(i, j int) bool { return c.nameOf(all[i]) < c.nameOf(all[j]) })
	for _, o := range all {
		if asg[o] {
			state = append(state, o)
		} else {
			fixed = append(fixed, o)
		}
	}
	state = append(state, lp.extraState...)
	// signature
	var fixedParams []string
	var callFixed []string
	var exts []string
	for e := range c.f.externs {
		exts = append(exts, e)
	}
	sort.Strings(exts)
	for _, e := range exts {
		fixedParams = append(fixedParams, fmt.Sprintf("(%s : %s)", glExterns[e].param, glExterns[e].leanType))
		callFixed = append(callFixed, glExterns[e].param)
	}
	fixedParams = append(fixedParams, "(fuel0 : Nat)")
	callFixed = append(callFixed, c.fuelName)
	for _, o := range fixed {
		fixedParams = append(fixedParams, fmt.Sprintf("(%s : %s)", c.nameOf(o), c.lt(o.Type(), lp.node)))
		callFixed = append(callFixed, c.nameOf(o))
	}
	for _, ef := range extraFixed {
		fixedParams = append(fixedParams, "("+ef+")")
		callFixed = append(callFixed, strings.TrimSpace(strings.SplitN(ef, ":", 2)[0]))
	}
	var stTypes, stNames []string
	for _, o := range state {
		stTypes = append(stTypes, c.lt(o.Type(), lp.node))
		stNames = append(stNames, c.nameOf(o))
	}
	// type parameters of the enclosing function
	tparams := ""
	if tps := c.sig.TypeParams(); tps != nil {
		for i := 0; i < tps.Len(); i++ {
			tparams += fmt.Sprintf("{%s : Type} [Inhabited %s] ", tps.At(i).Obj().Name(), tps.At(i).Obj().Name())
		}
	}
	// translate the body in a sub-context
	sub := &glCtx{g: c.g, f: c.f, p: c.p, names: c.names, used: c.used, tmp: c.tmp, loopCtr: c.loopCtr, retType: c.retType, results: c.results,
		sig: c.sig, errData: c.errData, inLoop: true, loopState: state, mutObjs: c.mutObjs, declared: c.declared, fuelName: "fuel0", indent: 2}
	sub.retWrap = func(s string) string { return "(LoopRes.ret " + s + ")" }
	recur := func() string {
		return fmt.Sprintf("%s %s fuel %s", loopName, strings.Join(callFixed2(callFixed, "fuel0"), " "), strings.Join(stNames, " "))
	}
	sub.loopRecur = recur
	if postFn != nil {
		sub.loopPost = func() { postFn(sub) }
	} else if lp.post != nil {
		sub.loopPost = func() { sub.stmt(lp.post) }
	}
	for _, n := range stNames {
		sub.emit("let mut %s := %s", n, n)
	}
	if condStr != "" {
		sub.emit("if !(%s) then return (LoopRes.done %s)", condStr, tupleTerm(stNames))
	} else if lp.cond != nil {
		sub.emit("if !(%s) then return (LoopRes.done %s)", sub.boolExpr(lp.cond), tupleTerm(stNames))
	}
	if lp.pre != nil {
		lp.pre(sub)
	}
	term := sub.block(lp.body)
	if !term {
		if sub.loopPost != nil {
			sub.loopPost()
		}
		sub.emit("%s", recur())
	}
	c.tmp = sub.tmp
	c.aux = append(c.aux, sub.aux...)
	stPat := strings.Join(stNames, ", ")
	underscores := make([]string, len(stNames))
	for i := range underscores {
		underscores[i] = "_"
	}
	var def strings.Builder
	fmt.Fprintf(&def, "def %s %s%s : Nat%s → M (LoopRes %s %s)\n", loopName, tparams, strings.Join(fixedParams, " "),
		prefixEach(" → ", stTypes), parenIfSpace(c.retType), parenIfSpace(tupleType(stTypes)))
	if len(stNames) > 0 {
		fmt.Fprintf(&def, "  | 0, %s => throw Err.hang\n  | fuel+1, %s => do\n", strings.Join(underscores, ", "), stPat)
	} else {
		fmt.Fprintf(&def, "  | 0 => throw Err.hang\n  | fuel+1 => do\n")
	}
	def.WriteString(strings.Join(sub.lines, "\n") + "\n\n")
	c.aux = append(c.aux, def.String())
	// call site
	r := c.fresh("r")
	c.emit("match ← %s %s %s %s with", loopName, strings.Join(callFixed, " "), c.fuelName, strings.Join(stNames, " "))
	c.emit("| LoopRes.ret %s => return %s", r, c.retWrap(r))
	if len(stNames) == 0 {
		c.emit("| LoopRes.done _ => pure ()")
	} else {
		var pats []string
		for range stNames {
			pats = append(pats, c.fresh("s"))
		}
		c.emit("| LoopRes.done %s =>", tupleTerm(pats))
		c.indent++
		for i, n := range stNames {
			if containsObj(lp.extraState, state[i]) {
				continue
			}
			c.emit("%s := %s", n, pats[i])
		}
		if len(stNames) == len(lp.extraState) {
			c.emit("pure ()")
		}
		c.indent--
	}
}

func callFixed2(xs []string, fuel string) []string {
	// inside the loop definition the fixed parameters are referred to by their own names; the fuel budget is fuel0
	out := make([]string, len(xs))
	copy(out, xs)
	for i, x := range out {
		if x == "fuel" {
			out[i] = fuel
		}
	}
	return out
}

func prefixEach(p string, xs []string) string {
	s := ""
	for _, x := range xs {
		s += p + x
	}
	return s
}

func parenIfSpace(s string) string {
	if strings.ContainsAny(s, " ") && !strings.HasPrefix(s, "(") {
		return "(" + s + ")"
	}
	return s
}

func implementsError(t types.Type) bool {
	ms := types.NewMethodSet(t)
	for i := 0; i < ms.Len(); i++ {
		if ms.At(i).Obj().Name() == "Error" {
			return true
		}
	}
	return false
}

// isByteDecoder: a byte-stream decoder over an in-memory buffer that the translated code only uses through
// ReadByte / io.ReadFull (indexmeta.Decoder = io.ByteReader + io.Reader, constructed by bin.NewBorshDecoder(b)):
// given the meaning of *bytes.Reader.  (gagliardetto/binary's Decoder returns io.EOF / io.ErrUnexpectedEOF on short
// input like bytes.Reader; recorded as an assumption of the ties that use it.)
func isByteDecoder(t types.Type) bool {
	return isNamed(t, "github.com/rpcpool/yellowstone-faithful/indexmeta", "Decoder") || isNamed(t, "github.com/gagliardetto/binary", "Decoder")
}

package main

// C12.lean (property C12): facts about the parsers of external data that the Lean models of
// Faithful/Lib/Parsers.lean take for granted, re-extracted from the working tree on every run:
//
//	c12Consts            the bounds the repaired readers compare file-supplied sizes with (0 = not in the tree):
//	                     compactindexsized.minHeaderLen / maxHeaderLen, bucketteer.maxHeaderSize, the linked-log record
//	                     limit (256*mib), go-car's util.MaxAllowedSectionSize, indexes.IndexValueSize_CidToOffsetAndSize
//	c12UncheckedAsserts  single-value type assertions `x.(T)` in the decoding functions of ipld/ipldbindcode/cbor.go:
//	                     each one is a panic on a node of the wrong shape
//	c12UncheckedSlices   `x[1:]` in cbor.go without an earlier `len(x)` test in an enclosing block
//	c12KindIndexSites    `x[1]` on a byte slice in package main / accum outside iplddecoders.GetKind with no earlier
//	                     `len(x)` test in an enclosing block: the kind dispatch on objects shorter than two bytes
//
// Nothing here is appended to `fails`: a tree without the repairs must not break the other properties' checks; it
// makes the `decide`s of Properties/C12.lean fail instead.

import (
	"fmt"
	"go/ast"
	"go/constant"
	"go/token"
	"go/types"
	"path/filepath"
	"sort"
	"strings"

	"golang.org/x/tools/go/packages"
)

func init() { generators = append(generators, genC12) }

func c12Const(rel, name string) string {
	p := pkgs[mod+"/"+rel]
	if rel == "." {
		p = pkgs[mod]
	}
	if p == nil {
		return "0"
	}
	v, ok := constValue(p, name)
	if !ok {
		return "0"
	}
	iv := constant.ToInt(v)
	if iv.Kind() != constant.Int {
		return "0"
	}
	return iv.ExactString()
}

// c12VarInit evaluates the constant initialiser of a package-level `var name T = <const expr>` of an imported package.
func c12VarInit(p *packages.Package, name string) string {
	if p == nil {
		return "0"
	}
	for _, f := range p.Syntax {
		for _, d := range f.Decls {
			gd, ok := d.(*ast.GenDecl)
			if !ok || gd.Tok != token.VAR {
				continue
			}
			for _, s := range gd.Specs {
				vs := s.(*ast.ValueSpec)
				for i, n := range vs.Names {
					if n.Name == name && i < len(vs.Values) {
						if tv, ok := p.TypesInfo.Types[vs.Values[i]]; ok && tv.Value != nil {
							return constant.ToInt(tv.Value).ExactString()
						}
					}
				}
			}
		}
	}
	return "0"
}

// the literal N of `size > N*mib` in LinkedLog.ReadWithSize
func c12RecordLimit() string {
	p := pkgs[mod+"/gsfa/linkedlog"]
	if p == nil {
		return "0"
	}
	out := "0"
	for _, f := range p.Syntax {
		ast.Inspect(f, func(n ast.Node) bool {
			fd, ok := n.(*ast.FuncDecl)
			if !ok || fd.Name.Name != "ReadWithSize" || fd.Body == nil {
				return true
			}
			ast.Inspect(fd.Body, func(m ast.Node) bool {
				be, ok := m.(*ast.BinaryExpr)
				if !ok || be.Op != token.GTR {
					return true
				}
				if id, ok := be.X.(*ast.Ident); ok && id.Name == "size" {
					if tv, ok := p.TypesInfo.Types[be.Y]; ok && tv.Value != nil {
						out = constant.ToInt(tv.Value).ExactString()
					}
				}
				return true
			})
			return false
		})
	}
	return out
}

func c12ExprString(fset *token.FileSet, e ast.Expr) string {
	return types.ExprString(e)
}

// c12LenGuarded: an enclosing block has, before the statement that contains `pos`, an `if` whose condition mentions
// len(<expr>) — or the node sits inside an `if` whose condition does.
func c12LenGuarded(stack []ast.Node, expr string) bool {
	mentions := func(cond ast.Expr) bool {
		found := false
		ast.Inspect(cond, func(n ast.Node) bool {
			if ce, ok := n.(*ast.CallExpr); ok {
				if id, ok := ce.Fun.(*ast.Ident); ok && id.Name == "len" && len(ce.Args) == 1 && types.ExprString(ce.Args[0]) == expr {
					found = true
				}
			}
			return true
		})
		return found
	}
	for i := len(stack) - 1; i >= 0; i-- {
		switch b := stack[i].(type) {
		case *ast.IfStmt:
			if mentions(b.Cond) {
				return true
			}
		case *ast.BlockStmt:
			// statements before the one on the path
			var child ast.Node
			if i+1 < len(stack) {
				child = stack[i+1]
			}
			for _, st := range b.List {
				if st == child {
					break
				}
				if is, ok := st.(*ast.IfStmt); ok && mentions(is.Cond) {
					return true
				}
			}
		}
	}
	return false
}

type c12Site struct {
	file string
	line int
	fn   string
	expr string
}

func c12Walk(p *packages.Package, fileFilter func(string) bool, visit func(stack []ast.Node, fn string, n ast.Node, file string)) {
	for _, f := range p.Syntax {
		file := filepath.Base(p.Fset.Position(f.Pos()).Filename)
		if strings.HasSuffix(file, "_test.go") || !fileFilter(file) {
			continue
		}
		for _, d := range f.Decls {
			fd, ok := d.(*ast.FuncDecl)
			if !ok || fd.Body == nil {
				continue
			}
			name := fd.Name.Name
			if fd.Recv != nil && len(fd.Recv.List) == 1 {
				name = strings.TrimPrefix(types.ExprString(fd.Recv.List[0].Type), "*") + "." + name
			}
			var stack []ast.Node
			ast.Inspect(fd.Body, func(n ast.Node) bool {
				if n == nil {
					stack = stack[:len(stack)-1]
					return true
				}
				visit(stack, name, n, file)
				stack = append(stack, n)
				return true
			})
		}
	}
}

func genC12() {
	load("./ipld/ipldbindcode", "./iplddecoders")
	var b strings.Builder
	b.WriteString("-- GENERATED by /verif/harness/extract (c12_sites.go) from /repo's working tree. Do not edit.\nnamespace Generated\n\n")
	fmt.Fprintf(&b, "/-- compactindexsized.minHeaderLen (0 = absent) -/\ndef c12CiMinHeaderLen : Nat := %s\n", c12Const("compactindexsized", "minHeaderLen"))
	fmt.Fprintf(&b, "/-- compactindexsized.maxHeaderLen (0 = absent) -/\ndef c12CiMaxHeaderLen : Nat := %s\n", c12Const("compactindexsized", "maxHeaderLen"))
	fmt.Fprintf(&b, "/-- bucketteer.maxHeaderSize (0 = absent) -/\ndef c12BkMaxHeaderSize : Nat := %s\n", c12Const("bucketteer", "maxHeaderSize"))
	fmt.Fprintf(&b, "/-- the record size limit of LinkedLog.ReadWithSize -/\ndef c12LlMaxRecord : Nat := %s\n", c12RecordLimit())
	fmt.Fprintf(&b, "/-- indexes.IndexValueSize_CidToOffsetAndSize -/\ndef c12OasSize : Nat := %s\n", c12Const("indexes", "IndexValueSize_CidToOffsetAndSize"))
	var util *packages.Package
	if cr := pkgs[mod+"/carreader"]; cr != nil {
		util = cr.Imports["github.com/ipld/go-car/util"]
	}
	fmt.Fprintf(&b, "/-- github.com/ipld/go-car/util.MaxAllowedSectionSize -/\ndef c12MaxSection : Nat := %s\n\n", c12VarInit(util, "MaxAllowedSectionSize"))

	// cbor.go
	var asserts, slices []c12Site
	if p := pkgs[mod+"/ipld/ipldbindcode"]; p != nil {
		c12Walk(p, func(f string) bool { return f == "cbor.go" }, func(stack []ast.Node, fn string, n ast.Node, file string) {
			// the encoders (MarshalCBOR, toCBORArray, …) work on values the program built itself, not on external data
			if short := fn[strings.LastIndex(fn, ".")+1:]; strings.HasPrefix(short, "Marshal") || short == "toCBORArray" || short == "encodeCBOR" || short == "newArray" || short == "Set" {
				return
			}
			switch x := n.(type) {
			case *ast.TypeAssertExpr:
				if x.Type == nil { // type switch
					return
				}
				// checked forms: `v, ok := x.(T)` / `v, ok = x.(T)` / `var v, ok = x.(T)`
				if len(stack) > 0 {
					switch par := stack[len(stack)-1].(type) {
					case *ast.AssignStmt:
						if len(par.Lhs) == 2 && len(par.Rhs) == 1 && par.Rhs[0] == ast.Expr(x) {
							return
						}
					case *ast.ValueSpec:
						if len(par.Names) == 2 && len(par.Values) == 1 && par.Values[0] == ast.Expr(x) {
							return
						}
					}
				}
				asserts = append(asserts, c12Site{file, p.Fset.Position(x.Pos()).Line, fn, types.ExprString(x)})
			case *ast.SliceExpr:
				if x.Low == nil {
					return
				}
				if tv, ok := p.TypesInfo.Types[x.Low]; !ok || tv.Value == nil || constant.Compare(constant.ToInt(tv.Value), token.EQL, constant.MakeInt64(0)) {
					return
				}
				if !c12LenGuarded(stack, types.ExprString(x.X)) {
					slices = append(slices, c12Site{file, p.Fset.Position(x.Pos()).Line, fn, types.ExprString(x)})
				}
			}
		})
	}
	// kind dispatch
	var kinds []c12Site
	for _, rel := range []string{"", "/accum"} {
		p := pkgs[mod+rel]
		if p == nil {
			continue
		}
		c12Walk(p, func(string) bool { return true }, func(stack []ast.Node, fn string, n ast.Node, file string) {
			ix, ok := n.(*ast.IndexExpr)
			if !ok {
				return
			}
			tv, ok := p.TypesInfo.Types[ix.Index]
			if !ok || tv.Value == nil || !constant.Compare(constant.ToInt(tv.Value), token.EQL, constant.MakeInt64(1)) {
				return
			}
			xt, ok := p.TypesInfo.Types[ix.X]
			if !ok {
				return
			}
			sl, ok := xt.Type.Underlying().(*types.Slice)
			if !ok {
				return
			}
			if bt, ok := sl.Elem().Underlying().(*types.Basic); !ok || bt.Kind() != types.Uint8 {
				return
			}
			if c12LenGuarded(stack, types.ExprString(ix.X)) {
				return
			}
			kinds = append(kinds, c12Site{file, p.Fset.Position(ix.Pos()).Line, fn, types.ExprString(ix)})
		})
	}
	emit := func(name, doc string, l []c12Site) {
		sort.Slice(l, func(i, j int) bool {
			if l[i].file != l[j].file {
				return l[i].file < l[j].file
			}
			return l[i].line < l[j].line
		})
		fmt.Fprintf(&b, "/-- %s -/\ndef %s : List (String × Nat × String × String) := [", doc, name)
		for i, s := range l {
			if i > 0 {
				b.WriteString(",")
			}
			fmt.Fprintf(&b, "\n  (%q, %d, %q, %q)", s.file, s.line, s.fn, s.expr)
		}
		b.WriteString("]\n\n")
	}
	emit("c12UncheckedAsserts", "single-value type assertions in the decoding functions of ipld/ipldbindcode/cbor.go: (file, line, function, expression)", asserts)
	emit("c12UncheckedSlices", "`x[k:]` (k > 0) in cbor.go with no earlier len(x) test", slices)
	emit("c12KindIndexSites", "`x[1]` on a byte slice in package main / accum with no earlier len(x) test", kinds)
	b.WriteString("end Generated\n")
	write("C12.lean", b.String())
}

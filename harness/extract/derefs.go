package main

// Derefs.lean (property C08): the places where a request-derived value is used in a way that can panic —
//
//	deref    *x                         explicit pointer dereference
//	assert   x.(T)                      type assertion without `, ok` (type switches never panic)
//	must     pkg.MustXxx(x)             a parser that panics on malformed input
//	index    x[c]                       constant index into a slice / array / string
//	slice    x[a:b]                     slice expression on a string / slice
//	make     make(T, n) / make(T, 0, n) allocation sized by the request
//	nilrecv  v.M() / v.f / *v           use of the pointer result of `v, err := f(…)` after an `if err != nil { … }`
//	                                    that does not leave the block (gRPC filter / dispatch functions only)
//
// in the anchored request-parsing files and the gRPC server, each with whether a dominating guard was found.
// "Request-derived" is a taint analysis: sources are the parameters that carry the request (the raw JSON-RPC params,
// the jsonrpc2 request, the fasthttp context, the gRPC request / filter messages, the stream server), propagated
// through assignments, selectors, indexing, conversions, range loops, out-parameters (`Unmarshal(*raw, &params)`),
// the package's own parse* functions, immediately invoked closures and — between the scanned functions — from
// tainted call arguments to parameters.  `len`/`cap` do not propagate (bounded by what is already in memory).
//
// Guards recognised (conservative: anything else ⇒ unguarded, which makes `derefs_guarded` fail in Lean):
//
//	G1  enclosing `if … E != nil … {` / left operand of `&&` contains `E != nil` / left operand of `||` is `E == nil`
//	G2  an earlier statement of an enclosing block `if … E == nil … { …; return|continue|break|panic }`
//	G3  `*P.f.g` where `P, err := parseXxx(…)`: parseXxx assigns `out.f.g = &v` on every path to `return out, nil`
//	G4  index: earlier `if len(E) < k { return … }` (k > c) or enclosing `if len(E) > k` (k ≥ c)
//	G5  slice `E[len(L):]` inside `if strings.HasPrefix(E, L)`
//	G6  `MustFn(a)` with `a` ranging over `X.F`, X a parameter of the enclosing function: every caller in the
//	    package first runs `if err := V(arg); err != nil { return … }` where V ranges over `.F` with the
//	    non-Must `Fn` and returns its error
//	G7  `*x` where x is only ever assigned `&y` / `new(T)` in the same function

import (
	"fmt"
	"go/ast"
	"go/constant"
	"go/token"
	"go/types"
	"path/filepath"
	"sort"
	"strings"

	"golang.org/x/tools/go/packages"
)

func init() { generators = append(generators, genDerefs) }

var derefFiles = map[string]bool{
	"multiepoch.go": true, "request-response.go": true, "getSignaturesForAddress.go": true,
	"multiepoch-getBlock.go": true, "multiepoch-getTransaction.go": true, "multiepoch-getBlockTime.go": true,
	"multiepoch-getSignaturesForAddress.go": true, "grpc-server.go": true, "api.go": true, "adapters.go": true,
	"multiepoch-getSlot.go": true, "multiepoch-getFirstAvailableBlock.go": true, "multiepoch-getGenesisHash.go": true,
}

// functions in which the nilrecv pattern is looked for (the gRPC filter / dispatch code)
var derefNilRecvFuncs = map[string]bool{
	"blockContainsAccounts": true, "MultiEpoch.processSlotTransactions": true, "MultiEpoch.StreamBlocks": true,
	"MultiEpoch.StreamTransactions": true, "MultiEpoch.Get": true, "validateStreamTransactionsFilter": true,
}

type dsite struct {
	file    string
	line    int
	fn      string
	kind    string
	expr    string
	guarded bool
	why     string
}

type derefCtx struct {
	p     *packages.Package
	info  *types.Info
	fset  *token.FileSet
	funcs map[*types.Func]*ast.FuncDecl // scanned functions
	all   map[*types.Func]*ast.FuncDecl // every function of package main
	taint map[types.Object]bool
	sites []dsite
}

func (c *derefCtx) obj(id *ast.Ident) types.Object {
	if o := c.info.Uses[id]; o != nil {
		return o
	}
	return c.info.Defs[id]
}

func (c *derefCtx) isPkgName(e ast.Expr) bool {
	id, ok := e.(*ast.Ident)
	if !ok {
		return false
	}
	_, ok = c.obj(id).(*types.PkgName)
	return ok
}

func (c *derefCtx) isTypeExpr(e ast.Expr) bool {
	tv, ok := c.info.Types[e]
	return ok && tv.IsType()
}

func isBasic(t types.Type) bool {
	if t == nil {
		return false
	}
	_, ok := t.Underlying().(*types.Basic)
	return ok
}

// callee returns the statically known function of a call (nil for function values, builtins, conversions)
func (c *derefCtx) callee(call *ast.CallExpr) *types.Func {
	switch f := call.Fun.(type) {
	case *ast.Ident:
		if fn, ok := c.obj(f).(*types.Func); ok {
			return fn
		}
	case *ast.SelectorExpr:
		if fn, ok := c.obj(f.Sel).(*types.Func); ok {
			return fn
		}
	}
	return nil
}

func (c *derefCtx) tainted(e ast.Expr) bool {
	switch x := e.(type) {
	case *ast.Ident:
		return c.taint[c.obj(x)]
	case *ast.ParenExpr:
		return c.tainted(x.X)
	case *ast.SelectorExpr:
		if c.isPkgName(x.X) {
			return false
		}
		return c.tainted(x.X)
	case *ast.IndexExpr:
		return c.tainted(x.X)
	case *ast.SliceExpr:
		return c.tainted(x.X)
	case *ast.StarExpr:
		return c.tainted(x.X)
	case *ast.UnaryExpr:
		return c.tainted(x.X)
	case *ast.TypeAssertExpr:
		return c.tainted(x.X)
	case *ast.BinaryExpr:
		switch x.Op {
		case token.ADD, token.SUB, token.MUL, token.QUO, token.REM, token.SHL, token.SHR, token.AND, token.OR, token.XOR:
			return c.tainted(x.X) || c.tainted(x.Y)
		}
		return false
	case *ast.CallExpr:
		if c.isTypeExpr(x.Fun) { // conversion
			return len(x.Args) == 1 && c.tainted(x.Args[0])
		}
		if id, ok := x.Fun.(*ast.Ident); ok {
			if _, ok := c.obj(id).(*types.Builtin); ok {
				return false // len, cap, make, append, …: bounded by memory already held / handled as sites
			}
		}
		if sel, ok := x.Fun.(*ast.SelectorExpr); ok && !c.isPkgName(sel.X) && c.tainted(sel.X) {
			return true // method / getter on a request-derived value
		}
		any := false
		for _, a := range x.Args {
			if c.tainted(a) {
				any = true
			}
		}
		if !any {
			return false
		}
		if fn := c.callee(x); fn != nil && fn.Pkg() == c.p.Types && strings.HasPrefix(fn.Name(), "parse") {
			return true
		}
		if tv, ok := c.info.Types[x]; ok {
			if tup, ok := tv.Type.(*types.Tuple); ok {
				return tup.Len() > 0 && isBasic(tup.At(0).Type())
			}
			return isBasic(tv.Type)
		}
		return false
	}
	return false
}

func (c *derefCtx) mark(e ast.Expr) bool {
	id, ok := e.(*ast.Ident)
	if !ok || id.Name == "_" {
		return false
	}
	o := c.obj(id)
	if o == nil || c.taint[o] {
		return false
	}
	if _, ok := o.(*types.Var); !ok {
		return false
	}
	c.taint[o] = true
	return true
}

func isSeedType(t types.Type) bool {
	s := t.String()
	switch s {
	case "*encoding/json.RawMessage", "*github.com/sourcegraph/jsonrpc2.Request", "*github.com/valyala/fasthttp.RequestCtx":
		return true
	}
	const g = "github.com/rpcpool/yellowstone-faithful/old-faithful-proto/old-faithful-grpc."
	if i := strings.Index(s, g); i >= 0 {
		name := s[i+len(g):]
		if strings.HasPrefix(s, "*") && (strings.HasSuffix(name, "Request") || strings.HasSuffix(name, "Filter")) {
			return true
		}
		if strings.HasPrefix(name, "OldFaithful_") && strings.HasSuffix(name, "Server") {
			return true
		}
	}
	return false
}

// one propagation pass over a function; returns whether anything new was tainted
func (c *derefCtx) propagate(fd *ast.FuncDecl) bool {
	changed := false
	ast.Inspect(fd.Body, func(n ast.Node) bool {
		switch x := n.(type) {
		case *ast.AssignStmt:
			if len(x.Lhs) == len(x.Rhs) {
				for i := range x.Lhs {
					if c.tainted(x.Rhs[i]) && c.mark(x.Lhs[i]) {
						changed = true
					}
				}
			} else if len(x.Rhs) == 1 && c.tainted(x.Rhs[0]) {
				if c.mark(x.Lhs[0]) {
					changed = true
				}
			}
		case *ast.ValueSpec:
			if len(x.Names) == len(x.Values) {
				for i := range x.Names {
					if c.tainted(x.Values[i]) && c.mark(x.Names[i]) {
						changed = true
					}
				}
			}
		case *ast.RangeStmt:
			if c.tainted(x.X) && x.Value != nil && c.mark(x.Value) {
				changed = true
			}
		case *ast.TypeSwitchStmt:
			if as, ok := x.Assign.(*ast.AssignStmt); ok && len(as.Rhs) == 1 {
				if ta, ok := as.Rhs[0].(*ast.TypeAssertExpr); ok && c.tainted(ta.X) {
					for _, cl := range x.Body.List {
						if o := c.info.Implicits[cl]; o != nil && !c.taint[o] {
							c.taint[o] = true
							changed = true
						}
					}
				}
			}
		case *ast.CallExpr:
			anyT := false
			for _, a := range x.Args {
				if c.tainted(a) {
					anyT = true
				}
			}
			if anyT {
				for _, a := range x.Args { // out-parameters: Unmarshal(*raw, &params)
					if u, ok := a.(*ast.UnaryExpr); ok && u.Op == token.AND && c.mark(u.X) {
						changed = true
					}
				}
			}
			var params *ast.FieldList
			if fl, ok := x.Fun.(*ast.FuncLit); ok { // immediately invoked closure (also under go / defer)
				params = fl.Type.Params
			} else if fn := c.callee(x); fn != nil {
				if d := c.funcs[fn]; d != nil {
					params = d.Type.Params
				}
			}
			if sel, ok := x.Fun.(*ast.SelectorExpr); ok && !c.isPkgName(sel.X) && c.tainted(sel.X) {
				// method of this package called on a request-derived value: its receiver is request-derived
				if fn := c.callee(x); fn != nil {
					if d := c.funcs[fn]; d != nil && d.Recv != nil && len(d.Recv.List) == 1 && len(d.Recv.List[0].Names) == 1 {
						if c.mark(d.Recv.List[0].Names[0]) {
							changed = true
						}
					}
				}
			}
			if params != nil {
				var names []*ast.Ident
				for _, f := range params.List {
					names = append(names, f.Names...)
				}
				for i, a := range x.Args {
					if i < len(names) && c.tainted(a) && c.mark(names[i]) {
						changed = true
					}
				}
			}
		}
		return true
	})
	return changed
}

func (c *derefCtx) str(e ast.Expr) string { return types.ExprString(e) }

func stripParens(e ast.Expr) ast.Expr {
	for {
		p, ok := e.(*ast.ParenExpr)
		if !ok {
			return e
		}
		e = p.X
	}
}

func flatten(e ast.Expr, op token.Token, out *[]ast.Expr) {
	e = stripParens(e)
	if b, ok := e.(*ast.BinaryExpr); ok && b.Op == op {
		flatten(b.X, op, out)
		flatten(b.Y, op, out)
		return
	}
	*out = append(*out, e)
}

func isNilIdent(e ast.Expr) bool {
	id, ok := stripParens(e).(*ast.Ident)
	return ok && id.Name == "nil"
}

// condHas: cond (flattened by `by`) has a member `E <op> nil`
func (c *derefCtx) condHas(cond ast.Expr, by token.Token, E string, op token.Token) bool {
	var ms []ast.Expr
	flatten(cond, by, &ms)
	for _, m := range ms {
		b, ok := m.(*ast.BinaryExpr)
		if !ok || b.Op != op {
			continue
		}
		if (isNilIdent(b.Y) && c.str(stripParens(b.X)) == E) || (isNilIdent(b.X) && c.str(stripParens(b.Y)) == E) {
			return true
		}
	}
	return false
}

func terminates(b *ast.BlockStmt) bool {
	if b == nil || len(b.List) == 0 {
		return false
	}
	switch s := b.List[len(b.List)-1].(type) {
	case *ast.ReturnStmt:
		return true
	case *ast.BranchStmt:
		return s.Tok == token.CONTINUE || s.Tok == token.BREAK || s.Tok == token.GOTO
	case *ast.ExprStmt:
		if call, ok := s.X.(*ast.CallExpr); ok {
			if id, ok := call.Fun.(*ast.Ident); ok && id.Name == "panic" {
				return true
			}
			if sel, ok := call.Fun.(*ast.SelectorExpr); ok && (sel.Sel.Name == "Fatalf" || sel.Sel.Name == "Fatal" || sel.Sel.Name == "Exit") {
				return true
			}
		}
	}
	return false
}

func contains(n ast.Node, pos token.Pos) bool { return n != nil && n.Pos() <= pos && pos < n.End() }

func stmtLists(n ast.Node) []ast.Stmt {
	switch x := n.(type) {
	case *ast.BlockStmt:
		return x.List
	case *ast.CaseClause:
		return x.Body
	case *ast.CommClause:
		return x.Body
	}
	return nil
}

func (c *derefCtx) constInt(e ast.Expr) (int64, bool) {
	tv, ok := c.info.Types[e]
	if !ok || tv.Value == nil {
		return 0, false
	}
	return constant.Int64Val(constant.ToInt(tv.Value))
}

// lenCmp: m is `len(E) <op> k`
func (c *derefCtx) lenCmp(m ast.Expr, E string) (token.Token, int64, bool) {
	b, ok := stripParens(m).(*ast.BinaryExpr)
	if !ok {
		return 0, 0, false
	}
	call, ok := stripParens(b.X).(*ast.CallExpr)
	if !ok || len(call.Args) != 1 {
		return 0, 0, false
	}
	if id, ok := call.Fun.(*ast.Ident); !ok || id.Name != "len" {
		return 0, 0, false
	}
	if c.str(stripParens(call.Args[0])) != E {
		return 0, 0, false
	}
	k, ok := c.constInt(b.Y)
	return b.Op, k, ok
}

// nilGuard: G1 / G2 over the ancestor path of a site whose operand prints as E
func (c *derefCtx) nilGuard(path []ast.Node, pos token.Pos, E string) (bool, string) {
	for i := len(path) - 1; i >= 0; i-- {
		switch x := path[i].(type) {
		case *ast.IfStmt:
			if contains(x.Body, pos) && c.condHas(x.Cond, token.LAND, E, token.NEQ) {
				return true, fmt.Sprintf("G1 if %s != nil (line %d)", E, c.fset.Position(x.Pos()).Line)
			}
			if x.Else != nil && contains(x.Else, pos) && c.condHas(x.Cond, token.LOR, E, token.EQL) {
				var ms []ast.Expr
				flatten(x.Cond, token.LOR, &ms)
				if len(ms) == 1 {
					return true, fmt.Sprintf("G1 else of if %s == nil (line %d)", E, c.fset.Position(x.Pos()).Line)
				}
			}
		case *ast.BinaryExpr:
			if x.Op == token.LAND && contains(x.Y, pos) && c.condHas(x.X, token.LAND, E, token.NEQ) {
				return true, fmt.Sprintf("G1 %s != nil && …", E)
			}
			if x.Op == token.LOR && contains(x.Y, pos) && c.condHas(x.X, token.LOR, E, token.EQL) {
				return true, fmt.Sprintf("G1 %s == nil || …", E)
			}
		}
		if list := stmtLists(path[i]); list != nil {
			for _, s := range list {
				if s.End() > pos {
					break
				}
				ifs, ok := s.(*ast.IfStmt)
				if !ok {
					continue
				}
				if c.condHas(ifs.Cond, token.LOR, E, token.EQL) && terminates(ifs.Body) {
					return true, fmt.Sprintf("G2 if %s == nil { …return } (line %d)", E, c.fset.Position(ifs.Pos()).Line)
				}
			}
		}
	}
	return false, ""
}

func (c *derefCtx) indexGuard(path []ast.Node, pos token.Pos, E string, idx int64) (bool, string) {
	for i := len(path) - 1; i >= 0; i-- {
		if x, ok := path[i].(*ast.IfStmt); ok && contains(x.Body, pos) {
			var ms []ast.Expr
			flatten(x.Cond, token.LAND, &ms)
			for _, m := range ms {
				if op, k, ok := c.lenCmp(m, E); ok {
					if (op == token.GTR && k >= idx) || (op == token.GEQ && k > idx) {
						return true, fmt.Sprintf("G4 if len(%s) %s %d (line %d)", E, op, k, c.fset.Position(x.Pos()).Line)
					}
				}
			}
		}
		if list := stmtLists(path[i]); list != nil {
			for _, s := range list {
				if s.End() > pos {
					break
				}
				ifs, ok := s.(*ast.IfStmt)
				if !ok || !terminates(ifs.Body) {
					continue
				}
				var ms []ast.Expr
				flatten(ifs.Cond, token.LOR, &ms)
				for _, m := range ms {
					if op, k, ok := c.lenCmp(m, E); ok {
						if (op == token.LSS && k > idx) || (op == token.LEQ && k >= idx) || (op == token.EQL && k == 0 && idx == 0) {
							return true, fmt.Sprintf("G4 if len(%s) %s %d { return } (line %d)", E, op, k, c.fset.Position(ifs.Pos()).Line)
						}
					}
				}
			}
		}
	}
	return false, ""
}

// sliceGuard: G5 — E[len(L):] inside if strings.HasPrefix(E, L)
func (c *derefCtx) sliceGuard(path []ast.Node, pos token.Pos, se *ast.SliceExpr) (bool, string) {
	if se.High != nil || se.Max != nil || se.Low == nil {
		return false, ""
	}
	lowCall, ok := stripParens(se.Low).(*ast.CallExpr)
	if !ok || len(lowCall.Args) != 1 {
		return false, ""
	}
	if id, ok := lowCall.Fun.(*ast.Ident); !ok || id.Name != "len" {
		return false, ""
	}
	L := c.str(lowCall.Args[0])
	E := c.str(stripParens(se.X))
	for i := len(path) - 1; i >= 0; i-- {
		x, ok := path[i].(*ast.IfStmt)
		if !ok || !contains(x.Body, pos) {
			continue
		}
		var ms []ast.Expr
		flatten(x.Cond, token.LAND, &ms)
		for _, m := range ms {
			call, ok := m.(*ast.CallExpr)
			if !ok || len(call.Args) != 2 {
				continue
			}
			sel, ok := call.Fun.(*ast.SelectorExpr)
			if !ok || sel.Sel.Name != "HasPrefix" || !c.isPkgName(sel.X) {
				continue
			}
			if c.str(stripParens(call.Args[0])) == E && c.str(call.Args[1]) == L {
				return true, fmt.Sprintf("G5 if strings.HasPrefix(%s, %s) (line %d)", E, L, c.fset.Position(x.Pos()).Line)
			}
		}
	}
	return false, ""
}

// establishedByParser: G3
func (c *derefCtx) establishedByParser(fd *ast.FuncDecl, operand ast.Expr) (bool, string) {
	// operand = P.f1.f2…
	var fields []string
	e := stripParens(operand)
	for {
		sel, ok := e.(*ast.SelectorExpr)
		if !ok {
			break
		}
		fields = append([]string{sel.Sel.Name}, fields...)
		e = stripParens(sel.X)
	}
	root, ok := e.(*ast.Ident)
	if !ok || len(fields) == 0 {
		return false, ""
	}
	rootObj := c.obj(root)
	// the single assignment `P, err := parseXxx(…)`
	var parser *ast.FuncDecl
	nAssign := 0
	ast.Inspect(fd.Body, func(n ast.Node) bool {
		as, ok := n.(*ast.AssignStmt)
		if !ok {
			return true
		}
		for i, l := range as.Lhs {
			id, ok := l.(*ast.Ident)
			if !ok || c.obj(id) != rootObj {
				continue
			}
			nAssign++
			if i == 0 && len(as.Rhs) == 1 {
				if call, ok := as.Rhs[0].(*ast.CallExpr); ok {
					if fn := c.callee(call); fn != nil {
						parser = c.all[fn]
					}
				}
			}
		}
		return true
	})
	if parser == nil || nAssign != 1 || parser.Body == nil {
		return false, ""
	}
	path := strings.Join(fields, ".")
	okAll := true
	nSuccess := 0
	var walk func(list []ast.Stmt, set map[string]bool) (map[string]bool, bool) // returns the set after the list and whether the list always leaves
	var outName string
	assignedPath := func(s ast.Stmt) (string, bool) {
		as, ok := s.(*ast.AssignStmt)
		if !ok || len(as.Lhs) != 1 || len(as.Rhs) != 1 {
			return "", false
		}
		u, ok := as.Rhs[0].(*ast.UnaryExpr)
		if !ok || u.Op != token.AND { // only `= &v` counts as non-nil
			return "", false
		}
		var fs []string
		l := stripParens(as.Lhs[0])
		for {
			sel, ok := l.(*ast.SelectorExpr)
			if !ok {
				break
			}
			fs = append([]string{sel.Sel.Name}, fs...)
			l = stripParens(sel.X)
		}
		id, ok := l.(*ast.Ident)
		if !ok || len(fs) == 0 {
			return "", false
		}
		return id.Name + "." + strings.Join(fs, "."), true
	}
	copySet := func(m map[string]bool) map[string]bool {
		o := map[string]bool{}
		for k := range m {
			o[k] = true
		}
		return o
	}
	walk = func(list []ast.Stmt, set map[string]bool) (map[string]bool, bool) {
		for _, s := range list {
			switch x := s.(type) {
			case *ast.ReturnStmt:
				if len(x.Results) >= 1 {
					if id, ok := stripParens(x.Results[0]).(*ast.Ident); ok && id.Name != "nil" {
						// a success return of the parsed value
						if _, isVar := c.obj(id).(*types.Var); isVar {
							nSuccess++
							outName = id.Name
							if !set[id.Name+"."+path] {
								okAll = false
							}
						}
					} else if !isNilIdent(x.Results[0]) {
						if len(x.Results) > 1 && isNilIdent(x.Results[len(x.Results)-1]) {
							okAll = false // a success return the analysis cannot follow
						}
					}
				}
				return set, true
			case *ast.IfStmt:
				thenSet, thenLeaves := walk(x.Body.List, copySet(set))
				var elseSet map[string]bool
				elseLeaves := false
				switch el := x.Else.(type) {
				case nil:
					elseSet = copySet(set)
				case *ast.BlockStmt:
					elseSet, elseLeaves = walk(el.List, copySet(set))
				case *ast.IfStmt:
					elseSet, elseLeaves = walk([]ast.Stmt{el}, copySet(set))
				}
				switch {
				case thenLeaves && elseLeaves:
					return set, true
				case thenLeaves:
					set = elseSet
				case elseLeaves:
					set = thenSet
				default:
					ns := map[string]bool{}
					for k := range thenSet {
						if elseSet[k] {
							ns[k] = true
						}
					}
					set = ns
				}
			case *ast.BlockStmt:
				var leaves bool
				set, leaves = walk(x.List, set)
				if leaves {
					return set, true
				}
			case *ast.ForStmt, *ast.RangeStmt, *ast.SwitchStmt, *ast.TypeSwitchStmt, *ast.SelectStmt:
				// assignments inside loops / switches are not counted (conservative); returns inside are checked
				ast.Inspect(s, func(n ast.Node) bool {
					if r, ok := n.(*ast.ReturnStmt); ok && len(r.Results) >= 1 && !isNilIdent(r.Results[0]) {
						if id, ok := stripParens(r.Results[0]).(*ast.Ident); ok {
							if _, isVar := c.obj(id).(*types.Var); isVar && !set[id.Name+"."+path] {
								okAll = false
							}
						}
					}
					return true
				})
			default:
				if p, ok := assignedPath(s); ok {
					set[p] = true
				}
			}
		}
		return set, false
	}
	walk(parser.Body.List, map[string]bool{})
	if okAll && nSuccess > 0 {
		return true, fmt.Sprintf("G3 %s assigns %s.%s = &… on every path to its success return", parser.Name.Name, outName, path)
	}
	return false, ""
}

// originOf follows a range value / an immediately-invoked closure parameter back to the expression it ranges over
func (c *derefCtx) originOf(path []ast.Node, e ast.Expr, depth int) ast.Expr {
	id, ok := stripParens(e).(*ast.Ident)
	if !ok || depth > 4 {
		return nil
	}
	o := c.obj(id)
	for i := len(path) - 1; i >= 0; i-- {
		switch x := path[i].(type) {
		case *ast.RangeStmt:
			if v, ok := x.Value.(*ast.Ident); ok && c.obj(v) == o {
				return x.X
			}
		case *ast.FuncLit:
			idx := -1
			k := 0
			for _, f := range x.Type.Params.List {
				for _, n := range f.Names {
					if c.obj(n) == o {
						idx = k
					}
					k++
				}
			}
			if idx < 0 {
				continue
			}
			// the call that invokes this literal
			if i > 0 {
				if call, ok := path[i-1].(*ast.CallExpr); ok && call.Fun == x && idx < len(call.Args) {
					return c.originOf(path[:i-1], call.Args[idx], depth+1)
				}
			}
			return nil
		}
	}
	return nil
}

// mustGuard: G6
func (c *derefCtx) mustGuard(fd *ast.FuncDecl, path []ast.Node, call *ast.CallExpr, mustName string) (bool, string) {
	if len(call.Args) != 1 {
		return false, ""
	}
	org := c.originOf(path, call.Args[0], 0)
	sel, ok := stripParens(org).(*ast.SelectorExpr)
	if org == nil || !ok {
		return false, ""
	}
	field := sel.Sel.Name
	pid, ok := stripParens(sel.X).(*ast.Ident)
	if !ok {
		return false, ""
	}
	// X must be a parameter of the enclosing function; which one?
	pidx, k := -1, 0
	for _, f := range fd.Type.Params.List {
		for _, n := range f.Names {
			if c.obj(n) == c.obj(pid) {
				pidx = k
			}
			k++
		}
	}
	if pidx < 0 {
		return false, ""
	}
	plain := strings.TrimPrefix(mustName, "Must")
	self, _ := c.info.Defs[fd.Name].(*types.Func)
	callers := 0
	for _, od := range c.all {
		if od.Body == nil {
			continue
		}
		bad := false
		var stack []ast.Node
		ast.Inspect(od.Body, func(n ast.Node) bool {
			if n == nil {
				stack = stack[:len(stack)-1]
				return true
			}
			stack = append(stack, n)
			cl, ok := n.(*ast.CallExpr)
			if !ok || c.callee(cl) != self || pidx >= len(cl.Args) {
				return true
			}
			callers++
			arg := c.str(stripParens(cl.Args[pidx]))
			// an earlier top-level statement of the caller: if err := V(arg); err != nil { return … }
			found := false
			for _, s := range od.Body.List {
				if s.End() > cl.Pos() {
					break
				}
				ifs, ok := s.(*ast.IfStmt)
				if !ok || ifs.Init == nil || !terminates(ifs.Body) {
					continue
				}
				as, ok := ifs.Init.(*ast.AssignStmt)
				if !ok || len(as.Rhs) != 1 {
					continue
				}
				vc, ok := as.Rhs[0].(*ast.CallExpr)
				if !ok || len(vc.Args) != 1 || c.str(stripParens(vc.Args[0])) != arg {
					continue
				}
				if c.condHas(ifs.Cond, token.LOR, c.str(as.Lhs[0]), token.NEQ) && c.isValidator(c.all[c.callee(vc)], field, plain) {
					found = true
				}
			}
			if !found {
				bad = true
			}
			return true
		})
		if bad {
			return false, ""
		}
	}
	if callers == 0 {
		return false, ""
	}
	return true, fmt.Sprintf("G6 every caller of %s validates .%s with %s first", fd.Name.Name, field, plain)
}

// isValidator: V(p) ranges over p.<field>, calls pkg.<plain>(v) on the element and returns the error
func (c *derefCtx) isValidator(v *ast.FuncDecl, field, plain string) bool {
	if v == nil || v.Body == nil || v.Type.Params.NumFields() != 1 || len(v.Type.Params.List[0].Names) != 1 {
		return false
	}
	p := c.obj(v.Type.Params.List[0].Names[0])
	ok := false
	ast.Inspect(v.Body, func(n ast.Node) bool {
		rs, isR := n.(*ast.RangeStmt)
		if !isR {
			return true
		}
		sel, isS := stripParens(rs.X).(*ast.SelectorExpr)
		if !isS || sel.Sel.Name != field {
			return true
		}
		if id, isI := stripParens(sel.X).(*ast.Ident); !isI || c.obj(id) != p {
			return true
		}
		val, isI := rs.Value.(*ast.Ident)
		if !isI {
			return true
		}
		// the body must contain: if _, err := pkg.plain(val); err != nil { return <non-nil> }
		for _, s := range rs.Body.List {
			ifs, isIf := s.(*ast.IfStmt)
			if !isIf || ifs.Init == nil || len(ifs.Body.List) == 0 {
				continue
			}
			as, isA := ifs.Init.(*ast.AssignStmt)
			if !isA || len(as.Rhs) != 1 {
				continue
			}
			call, isC := as.Rhs[0].(*ast.CallExpr)
			if !isC || len(call.Args) != 1 {
				continue
			}
			fn := c.callee(call)
			if fn == nil || fn.Name() != plain {
				continue
			}
			if a, isI := stripParens(call.Args[0]).(*ast.Ident); !isI || c.obj(a) != c.obj(val) {
				continue
			}
			errName := c.str(as.Lhs[len(as.Lhs)-1])
			if !c.condHas(ifs.Cond, token.LOR, errName, token.NEQ) {
				continue
			}
			if ret, isRet := ifs.Body.List[len(ifs.Body.List)-1].(*ast.ReturnStmt); isRet && len(ret.Results) == 1 && !isNilIdent(ret.Results[0]) {
				ok = true
			}
		}
		return true
	})
	return ok
}

// addrOnly: G7 — every assignment to the identifier in the function is `&y` or new(T)
func (c *derefCtx) addrOnly(fd *ast.FuncDecl, operand ast.Expr) bool {
	id, ok := stripParens(operand).(*ast.Ident)
	if !ok {
		return false
	}
	o := c.obj(id)
	n, good := 0, true
	check := func(r ast.Expr) {
		n++
		switch x := stripParens(r).(type) {
		case *ast.UnaryExpr:
			if x.Op == token.AND {
				return
			}
		case *ast.CallExpr:
			if f, ok := x.Fun.(*ast.Ident); ok && f.Name == "new" {
				return
			}
		}
		good = false
	}
	ast.Inspect(fd.Body, func(nd ast.Node) bool {
		switch x := nd.(type) {
		case *ast.AssignStmt:
			for i, l := range x.Lhs {
				if li, ok := l.(*ast.Ident); ok && c.obj(li) == o {
					if len(x.Lhs) == len(x.Rhs) {
						check(x.Rhs[i])
					} else {
						n++
						good = false
					}
				}
			}
		case *ast.ValueSpec:
			for i, nm := range x.Names {
				if c.obj(nm) == o {
					if i < len(x.Values) {
						check(x.Values[i])
					} else {
						n++
						good = false
					}
				}
			}
		}
		return true
	})
	return n > 0 && good
}

func funcDisplayName(fd *ast.FuncDecl) string {
	if fd.Recv != nil && len(fd.Recv.List) == 1 {
		t := fd.Recv.List[0].Type
		if s, ok := t.(*ast.StarExpr); ok {
			t = s.X
		}
		if id, ok := t.(*ast.Ident); ok {
			return id.Name + "." + fd.Name.Name
		}
	}
	return fd.Name.Name
}

func (c *derefCtx) scan(fd *ast.FuncDecl) {
	file := filepath.Base(c.fset.Position(fd.Pos()).Filename)
	name := funcDisplayName(fd)
	add := func(n ast.Node, kind, expr string, guarded bool, why string) {
		c.sites = append(c.sites, dsite{file, c.fset.Position(n.Pos()).Line, name, kind, expr, guarded, why})
	}
	okForms := map[ast.Expr]bool{} // type assertions in `v, ok :=` / `_, ok =` / type switch position
	ast.Inspect(fd.Body, func(n ast.Node) bool {
		switch x := n.(type) {
		case *ast.AssignStmt:
			if len(x.Lhs) == 2 && len(x.Rhs) == 1 {
				okForms[stripParens(x.Rhs[0])] = true
			}
		case *ast.ValueSpec:
			if len(x.Names) == 2 && len(x.Values) == 1 {
				okForms[stripParens(x.Values[0])] = true
			}
		case *ast.TypeSwitchStmt:
			switch a := x.Assign.(type) {
			case *ast.AssignStmt:
				okForms[stripParens(a.Rhs[0])] = true
			case *ast.ExprStmt:
				okForms[stripParens(a.X)] = true
			}
		}
		return true
	})
	// nilrecv candidates: v, err := f(…) ; if err != nil { … no exit … }
	type nilCand struct {
		obj   types.Object
		after token.Pos
		end   token.Pos
		guard bool
		call  string
	}
	var cands []nilCand
	if derefNilRecvFuncs[name] {
		ast.Inspect(fd.Body, func(n ast.Node) bool {
			list := stmtLists(n)
			for i := 0; i+1 < len(list); i++ {
				as, ok := list[i].(*ast.AssignStmt)
				if !ok || len(as.Lhs) != 2 || len(as.Rhs) != 1 {
					continue
				}
				call, ok := as.Rhs[0].(*ast.CallExpr)
				if !ok {
					continue
				}
				fn := c.callee(call)
				if fn == nil || fn.Pkg() == c.p.Types {
					continue
				}
				v, ok := as.Lhs[0].(*ast.Ident)
				if !ok || v.Name == "_" {
					continue
				}
				if _, isPtr := c.info.TypeOf(v).(*types.Pointer); !isPtr {
					continue
				}
				errID, ok := as.Lhs[1].(*ast.Ident)
				if !ok {
					continue
				}
				ifs, ok := list[i+1].(*ast.IfStmt)
				if !ok || !c.condHas(ifs.Cond, token.LOR, errID.Name, token.NEQ) {
					continue
				}
				cands = append(cands, nilCand{c.obj(v), ifs.End(), n.End(), terminates(ifs.Body), c.str(call.Fun)})
			}
			return true
		})
	}
	var path []ast.Node
	ast.Inspect(fd.Body, func(n ast.Node) bool {
		if n == nil {
			path = path[:len(path)-1]
			return true
		}
		path = append(path, n)
		switch x := n.(type) {
		case *ast.StarExpr:
			if c.isTypeExpr(x) || c.isTypeExpr(x.X) || !c.tainted(x.X) {
				break
			}
			E := c.str(stripParens(x.X))
			if g, why := c.nilGuard(path, x.Pos(), E); g {
				add(x, "deref", "*"+E, true, why)
			} else if g, why := c.establishedByParser(fd, x.X); g {
				add(x, "deref", "*"+E, true, why)
			} else if c.addrOnly(fd, x.X) {
				add(x, "deref", "*"+E, true, "G7 only ever assigned &… / new(…)")
			} else {
				add(x, "deref", "*"+E, false, "no dominating nil check found")
			}
		case *ast.TypeAssertExpr:
			if x.Type == nil || okForms[x] || !c.tainted(x.X) {
				break
			}
			add(x, "assert", c.str(x), false, "type assertion without , ok")
		case *ast.IndexExpr:
			if !c.tainted(x.X) {
				break
			}
			switch c.info.TypeOf(x.X).Underlying().(type) {
			case *types.Slice, *types.Array, *types.Basic:
			default:
				return true // maps (and generic instantiations) do not panic
			}
			E := c.str(stripParens(x.X))
			if k, ok := c.constInt(x.Index); ok {
				if g, why := c.indexGuard(path, x.Pos(), E, k); g {
					add(x, "index", c.str(x), true, why)
				} else {
					add(x, "index", c.str(x), false, "no dominating len check found")
				}
			} else if id, ok := stripParens(x.Index).(*ast.Ident); ok {
				// x[i] with i the key of `for i := range x`
				g := false
				for _, a := range path {
					if rs, ok := a.(*ast.RangeStmt); ok && rs.Key != nil && c.str(stripParens(rs.X)) == E {
						if kid, ok := rs.Key.(*ast.Ident); ok && c.obj(kid) == c.obj(id) {
							g = true
						}
					}
				}
				add(x, "index", c.str(x), g, map[bool]string{true: "range key of the same slice", false: "variable index"}[g])
			} else {
				add(x, "index", c.str(x), false, "computed index")
			}
		case *ast.SliceExpr:
			if !c.tainted(x.X) {
				break
			}
			if x.Low == nil && x.High == nil {
				break // x[:] cannot fail
			}
			if g, why := c.sliceGuard(path, x.Pos(), x); g {
				add(x, "slice", c.str(x), true, why)
			} else {
				add(x, "slice", c.str(x), false, "no dominating length / prefix check found")
			}
		case *ast.CallExpr:
			if id, ok := x.Fun.(*ast.Ident); ok && id.Name == "make" {
				if _, isB := c.obj(id).(*types.Builtin); isB {
					for _, a := range x.Args[1:] {
						if c.tainted(a) {
							add(x, "make", c.str(x), false, "allocation sized by the request")
							break
						}
					}
				}
				break
			}
			fn := c.callee(x)
			if fn != nil && strings.HasPrefix(fn.Name(), "Must") && len(fn.Name()) > 4 {
				anyT := false
				for _, a := range x.Args {
					if c.tainted(a) {
						anyT = true
					}
				}
				if !anyT {
					break
				}
				if g, why := c.mustGuard(fd, path, x, fn.Name()); g {
					add(x, "must", c.str(x), true, why)
				} else {
					add(x, "must", c.str(x), false, "panics on malformed input; no validation found on every path")
				}
			}
		case *ast.Ident:
			// nilrecv: a use of a candidate as receiver / operand
			for _, cd := range cands {
				if c.obj(x) != cd.obj || x.Pos() <= cd.after || x.Pos() >= cd.end {
					continue
				}
				if len(path) < 2 {
					continue
				}
				use := ""
				switch par := path[len(path)-2].(type) {
				case *ast.SelectorExpr:
					if par.X == x {
						use = c.str(par)
					}
				case *ast.StarExpr:
					use = c.str(par)
				}
				if use == "" {
					continue
				}
				if cd.guard {
					add(x, "nilrecv", use, true, "the err branch after "+cd.call+" leaves the block")
				} else if g, why := c.nilGuard(path, x.Pos(), x.Name); g {
					add(x, "nilrecv", use, true, why)
				} else {
					add(x, "nilrecv", use, false, "nil result of "+cd.call+" used after an err branch that falls through")
				}
			}
		}
		return true
	})
}

func leanStr(s string) string {
	s = strings.ReplaceAll(s, "\\", "\\\\")
	s = strings.ReplaceAll(s, "\"", "\\\"")
	s = strings.ReplaceAll(s, "\n", " ")
	s = strings.ReplaceAll(s, "\t", " ")
	return "\"" + s + "\""
}

func genDerefs() {
	p := pkg(".")
	c := &derefCtx{p: p, info: p.TypesInfo, fset: p.Fset, funcs: map[*types.Func]*ast.FuncDecl{}, all: map[*types.Func]*ast.FuncDecl{}, taint: map[types.Object]bool{}}
	var order []*ast.FuncDecl
	for _, f := range p.Syntax {
		base := filepath.Base(p.Fset.Position(f.Pos()).Filename)
		for _, d := range f.Decls {
			fd, ok := d.(*ast.FuncDecl)
			if !ok || fd.Body == nil {
				continue
			}
			fn, _ := p.TypesInfo.Defs[fd.Name].(*types.Func)
			if fn == nil {
				continue
			}
			c.all[fn] = fd
			if derefFiles[base] && !strings.HasSuffix(base, "_test.go") {
				c.funcs[fn] = fd
				order = append(order, fd)
			}
		}
	}
	if len(order) == 0 {
		fails = append(fails, "derefs: none of the anchored files found")
	}
	sort.Slice(order, func(i, j int) bool { return order[i].Pos() < order[j].Pos() })
	// seeds
	for _, fd := range order {
		for _, f := range fd.Type.Params.List {
			for _, n := range f.Names {
				if o := c.obj(n); o != nil && isSeedType(o.Type()) {
					c.taint[o] = true
				}
			}
		}
	}
	for round := 0; round < 20; round++ {
		changed := false
		for _, fd := range order {
			for c.propagate(fd) {
				changed = true
			}
		}
		if !changed {
			break
		}
	}
	for _, fd := range order {
		c.scan(fd)
	}
	sort.SliceStable(c.sites, func(i, j int) bool {
		a, b := c.sites[i], c.sites[j]
		if a.file != b.file {
			return a.file < b.file
		}
		if a.line != b.line {
			return a.line < b.line
		}
		return a.expr < b.expr
	})
	// must have seen the things the model talks about, otherwise the extractor has gone blind
	kinds := map[string]int{}
	for _, s := range c.sites {
		kinds[s.kind]++
	}
	if kinds["deref"] == 0 || kinds["index"] == 0 {
		fails = append(fails, "derefs: no dereference / index site found in the request parsers")
	}
	var b strings.Builder
	b.WriteString("-- GENERATED by /verif/harness/extract (derefs.go) from /repo's working tree. Do not edit.\n")
	b.WriteString("namespace Generated\n\n")
	b.WriteString("/-- a place where a request-derived value is dereferenced / asserted / indexed / `Must`-parsed / sizes an allocation -/\n")
	b.WriteString("structure Deref where\n  file : String\n  line : Nat\n  func : String\n  kind : String\n  expr : String\n  guarded : Bool\n  why : String\n  deriving Repr, DecidableEq\n\n")
	b.WriteString("def derefs : List Deref := [\n")
	for i, s := range c.sites {
		sep := ","
		if i == len(c.sites)-1 {
			sep = ""
		}
		fmt.Fprintf(&b, "  ⟨%s, %d, %s, %s, %s, %v, %s⟩%s\n", leanStr(s.file), s.line, leanStr(s.fn), leanStr(s.kind), leanStr(s.expr), s.guarded, leanStr(s.why), sep)
	}
	b.WriteString("]\n\n")
	b.WriteString("def unguardedDerefs : List Deref := derefs.filter (fun d => !d.guarded)\n\n")
	b.WriteString("end Generated\n")
	write("Derefs.lean", b.String())
}
